import SeaQ.Lemmas.PrattTable
namespace SeaQ.Pratt

theorem isMixShape_true {t : Tbl} {o : Nat} {r : Ex} (h : isMixShape t o r = true) :
    ∃ a s b, r = .bin a s b ∧ t.mix o = some s := by
  cases r with
  | bin a s b => exact ⟨a, s, b, rfl, by simpa [isMixShape] using h⟩
  | atom a => simp [isMixShape] at h
  | un y => simp [isMixShape] at h
  | node k args => simp [isMixShape] at h

theorem mixParts_of_shape {c : Cells} {o s : Nat} (a b : Ex) (hm : c.mixOf o = some s) :
    mixParts (policyOf c) o (.bin a s b) = some (a, s, b) := by
  simp [mixParts, hm, policyOf]

theorem mixParts_none {t : Tbl} {p : Policy} {o : Nat} {r : Ex} (hag : t.mix o = p.mixOf o)
    (h : isMixShape t o r = false) : mixParts p o r = none := by
  unfold mixParts
  rw [← hag]
  cases hm : t.mix o with
  | none => rfl
  | some s =>
    cases r with
    | bin a s' b =>
      have : s' ≠ s := by
        intro e
        simp [isMixShape, hm, e] at h
      simp [this]
    | atom a => rfl
    | un y => rfl
    | node k args => rfl

theorem wf_bin {t : Tbl} {ops : List Nat} {l r : Ex} {o : Nat} (h : wf t ops (.bin l o r) = true) :
    o ∈ ops ∧ t.infx o = true ∧ wf t ops l = true ∧
    (if isMixShape t o r = true then wfMix t ops r = true
     else (t.mix o = none ∨ t.mand o = false) ∧ wf t ops r = true) := by
  simp only [wf, Bool.and_eq_true, List.contains_iff_mem] at h
  obtain ⟨⟨⟨h1, h2⟩, h3⟩, h4⟩ := h
  refine ⟨h1, h2, h3, ?_⟩
  split
  · rename_i hs; simpa [hs] using h4
  · rename_i hs
    have hs' : isMixShape t o r = false := by simpa using hs
    simp only [hs', Bool.false_eq_true, if_false, Bool.and_eq_true, Bool.or_eq_true, beq_iff_eq,
      Bool.not_eq_true'] at h4
    exact h4

theorem wfMix_bin {t : Tbl} {ops : List Nat} {a b : Ex} {s : Nat}
    (h : wfMix t ops (.bin a s b) = true) : s ∈ ops ∧ wf t ops a = true ∧ wf t ops b = true := by
  simp only [wfMix, Bool.and_eq_true, List.contains_iff_mem] at h
  exact ⟨h.1.1, h.1.2, h.2⟩

/-- the induction hypothesis of the bridge at size `n` -/
def Bridge (t : Tbl) (c : Cells) (ops : List Nat) (n : Nat) : Prop :=
  ∀ e : Ex, e.size ≤ n → wf t ops e = true →
    Lic t (policyOf c) e ∧
    (∀ x, (∀ l o r, e = .bin l o r → x ≤ t.lbp o) → (∀ y, e ≠ .un y) →
      AllGE t (policyOf c) ops x e)

/-- a bare child (not a prefix `NOT`) whose top operator binds at least `x` -/
theorem bare_allGE {t : Tbl} {c : Cells} {ops : List Nat} {n : Nat} (ih : Bridge t c ops n)
    (e : Ex) (hs : e.size ≤ n) (hw : wf t ops e = true) (x : Nat)
    (hun : kindOf e ≠ .un) (hx : ∀ k, kindOf e = .bin k → x ≤ t.lbp k) :
    AllGE t (policyOf c) ops x e := by
  refine (ih e hs hw).2 x ?_ ?_
  · intro l o r he; subst he; exact hx o rfl
  · intro y he; subst he; exact hun rfl

theorem ne_un_of_cell {b : Bool} {e : Ex} (hcell : b = true) (hun : kindOf e = .un → b = false) :
    kindOf e ≠ .un := by
  intro h; rw [hun h] at hcell; cases hcell

/-- a bare left child under infix `o`: the following `o` is not captured, no chain -/
theorem left_ok {t : Tbl} {c : Cells} {ops : List Nat} (hT : TableOK t c ops) {n : Nat}
    (ih : Bridge t c ops n) (o : Nat) (ho : o ∈ ops) (hi : t.infx o = true) (l : Ex)
    (hs : l.size ≤ n + 1) (hw : wf t ops l = true) (hd : c.dropL o (kindOf l) = true) :
    StopsOp t (policyOf c) o l ∧ ChainOK t o l := by
  cases l with
  | atom a => exact ⟨.atom a, by simp [ChainOK, topOf]⟩
  | node k args => exact ⟨.node k args, by simp [ChainOK, topOf]⟩
  | un y => rw [show kindOf (.un y) = Kind.un from rfl, hT.unL o ho] at hd; cases hd
  | bin l' i r' =>
    obtain ⟨hio, hii, hwl', hrest⟩ := wf_bin hw
    have hL := hT.left o ho i hio hd
    obtain ⟨_, h1, h2, h3, h4⟩ := hL
    have hcap : ∀ j ∈ ops, t.mix j = some o → t.mand j = false → t.lbp j < 0 := by
      intro j hj hm hmd
      have := hT.optSep j hj o hm hmd
      rw [hi] at this; cases this
    refine ⟨?_, ?_⟩
    · simp only [Ex.size] at hs
      split at hrest
      · -- `l` is itself a mixfix form
        rename_i hshape
        obtain ⟨a, s, b, hr, hm⟩ := isMixShape_true hshape
        subst hr
        obtain ⟨hso, hwa, hwb⟩ := wfMix_bin hrest
        have hmp := mixParts_of_shape (c := c) a b (by rw [← hT.mixAgree i hio]; exact hm)
        have h3 := h3 (by rw [hm]; simp)
        refine .binMix l' i _ a s b hmp (fun _ => h3) ?_
        intro hdb
        have hdb' : c.dropMR i (kindOf b) = true := hdb
        have hbge : AllGE t (policyOf c) ops (t.rbp2 i) b := by
          refine bare_allGE ih b (by simp only [Ex.size] at hs; omega) hwb _
            (ne_un_of_cell hdb' (fun h => by rw [h]; exact hT.unMR i hio)) ?_
          intro k hk
          have hkin : k ∈ ops := by
            cases b with
            | bin bl bo br => simp [kindOf] at hk; subst hk; exact (wf_bin hwb).1
            | atom _ => simp [kindOf] at hk
            | un _ => simp [kindOf] at hk
            | node _ _ => simp [kindOf] at hk
          rw [hk] at hdb'
          exact (hT.mixR i hio s hm k hkin hdb').2
        refine hbge.stops hT o (fun _ => h3) ?_
        intro j hj hmj hmd
        exact absurd (hcap j hj hmj hmd) (Nat.not_lt_zero _)
      · rename_i hshape
        have hshape' : isMixShape t i r' = false := by simpa using hshape
        have hmp : mixParts (policyOf c) i r' = none :=
          mixParts_none (p := policyOf c) (hT.mixAgree i hio) hshape'
        have h2 := h2 hrest.1
        refine .binReg l' i r' hmp (fun _ => h2) ?_ ?_
        · intro hm
          rcases hrest.1 with h0 | h0
          · rw [h0] at hm; cases hm
          · have := hT.optSep i hio o hm h0
            rw [hi] at this; cases this
        · intro hdr
          have hdr' : c.dropR i (kindOf r') = true := hdr
          have hrge : AllGE t (policyOf c) ops (t.rbp i) r' := by
            refine bare_allGE ih r' (by omega) hrest.2 _
              (ne_un_of_cell hdr' (fun h => by rw [h]; exact hT.unR i hio)) ?_
            intro k hk
            have hkin : k ∈ ops := by
              cases r' with
              | bin bl bo br => simp [kindOf] at hk; subst hk; exact (wf_bin hrest.2).1
              | atom _ => simp [kindOf] at hk
              | un _ => simp [kindOf] at hk
              | node _ _ => simp [kindOf] at hk
            have hne : t.mix i ≠ some k := by
              intro hm
              cases r' with
              | bin bl bo br =>
                simp [kindOf] at hk; subst hk
                simp [isMixShape, hm] at hshape'
              | atom _ => simp [kindOf] at hk
              | un _ => simp [kindOf] at hk
              | node _ _ => simp [kindOf] at hk
            rw [hk] at hdr'
            exact (hT.right i hio k hkin hdr' hne).2
          refine hrge.stops hT o (fun _ => h2) ?_
          intro j hj hmj hmd
          exact absurd (hcap j hj hmj hmd) (Nat.not_lt_zero _)
    · intro ⟨hn, htop⟩
      simp only [topOf, Option.some.injEq] at htop
      exact h4 ⟨hn, htop⟩

end SeaQ.Pratt

namespace SeaQ.Pratt

theorem kind_bin_mem {t : Tbl} {ops : List Nat} {e : Ex} {k : Nat} (hw : wf t ops e = true)
    (hk : kindOf e = .bin k) : k ∈ ops := by
  cases e with
  | bin bl bo br => simp [kindOf] at hk; subst hk; exact (wf_bin hw).1
  | atom _ => simp [kindOf] at hk
  | un _ => simp [kindOf] at hk
  | node _ _ => simp [kindOf] at hk

/-- a bare child whose cell is dropped, under a context that guarantees level `x` for
binary kinds -/
theorem child_allGE {t : Tbl} {c : Cells} {ops : List Nat} {n : Nat} (ih : Bridge t c ops n)
    (e : Ex) (hs : e.size ≤ n) (hw : wf t ops e = true) (x : Nat) {cell : Kind → Bool}
    (hd : cell (kindOf e) = true) (hun : cell .un = false)
    (hx : ∀ k ∈ ops, cell (.bin k) = true → kindOf e = .bin k → x ≤ t.lbp k) :
    AllGE t (policyOf c) ops x e := by
  refine bare_allGE ih e hs hw x (ne_un_of_cell hd (fun h => by rw [h]; exact hun)) ?_
  intro k hk
  exact hx k (kind_bin_mem hw hk) (by rw [← hk]; exact hd) hk

mutual
  theorem licL_of_wf {t : Tbl} {c : Cells} {ops : List Nat} {n : Nat} (ih : Bridge t c ops n) :
      ∀ es : ExList, es.size ≤ n + 1 → wfL t ops es = true → LicL t (policyOf c) es
    | .nil, _, _ => .nil
    | .cons h tl, hs, hw => by
      simp only [wfL, Bool.and_eq_true] at hw
      simp only [ExList.size] at hs
      exact .cons h tl (ih h (by omega) hw.1).1 (licL_of_wf ih tl (by omega) hw.2)
end

theorem bridge_step {t : Tbl} {c : Cells} {ops : List Nat} (hT : TableOK t c ops) {n : Nat}
    (ih : Bridge t c ops n) : Bridge t c ops (n + 1) := by
  intro e hs hw
  cases e with
  | atom a => exact ⟨.atom a, fun x _ _ => .atom a⟩
  | node k args =>
    refine ⟨.node k args ?_, fun x _ _ => .node k args⟩
    simp only [Ex.size] at hs
    exact licL_of_wf ih args (by omega) (by simpa [wf] using hw)
  | un y =>
    refine ⟨?_, fun x _ h => absurd rfl (h y)⟩
    simp only [Ex.size] at hs
    have hwy : wf t ops y = true := by simpa [wf] using hw
    refine .un y (ih y (by omega) hwy).1 ?_
    intro hd
    have hd' : c.dropN (kindOf y) = true := hd
    exact (child_allGE ih y (by omega) hwy t.nbp hd' hT.unN
      (fun k hk hc _ => (hT.notOp k hk hc).2)).toFits
  | bin l o r =>
    obtain ⟨ho, hi, hwl, hrest⟩ := wf_bin hw
    simp only [Ex.size] at hs
    have hlicl := (ih l (by omega) hwl).1
    have hL : (policyOf c).dropL o l = true → StopsOp t (policyOf c) o l ∧ ChainOK t o l :=
      fun hd => left_ok hT ih o ho hi l (by omega) hwl hd
    -- bare left child: everything reachable binds at least as tightly as `o`
    have hLge : ∀ x, x ≤ t.lbp o → (policyOf c).dropL o l = true → AllGE t (policyOf c) ops x l := by
      intro x hx hd
      have hd' : c.dropL o (kindOf l) = true := hd
      exact child_allGE ih l (by omega) hwl x (cell := c.dropL o) hd' (hT.unL o ho)
        (fun k hk hc _ => Nat.le_trans hx (hT.left o ho k hk hc).2.1)
    split at hrest
    · -- mixfix form
      rename_i hshape
      obtain ⟨a, s, b, hr, hm⟩ := isMixShape_true hshape
      subst hr
      obtain ⟨hso, hwa, hwb⟩ := wfMix_bin hrest
      obtain ⟨_, hsl⟩ := hT.mixSepOK o ho s hm
      have hmp := mixParts_of_shape (c := c) a b (by rw [← hT.mixAgree o ho]; exact hm)
      simp only [Ex.size] at hs
      have hA : (policyOf c).dropML o a = true → AllGE t (policyOf c) ops (t.rbp o) a := by
        intro hd
        have hd' : c.dropML o (kindOf a) = true := hd
        exact child_allGE ih a (by omega) hwa (t.rbp o) (cell := c.dropML o) hd' (hT.unML o ho)
          (fun k hk hc _ => (hT.mixL o ho s hm k hk hc).2)
      have hB : ∀ x, x ≤ t.rbp2 o → (policyOf c).dropMR o b = true →
          AllGE t (policyOf c) ops x b := by
        intro x hx hd
        have hd' : c.dropMR o (kindOf b) = true := hd
        exact child_allGE ih b (by omega) hwb x (cell := c.dropMR o) hd' (hT.unMR o ho)
          (fun k hk hc _ => Nat.le_trans hx (hT.mixR o ho s hm k hk hc).2)
      refine ⟨?_, ?_⟩
      · refine .binMix l o _ a s b hmp hm hi hlicl (ih a (by omega) hwa).1 (ih b (by omega) hwb).1
          hsl hL ?_ ?_
        · intro hd
          refine ⟨(hA hd).toFits, (hA hd).stops hT s hsl ?_⟩
          intro j hj hmj hmd
          exact hT.mixSep o ho j hj s hm hmj hmd
        · intro hd
          exact (hB _ (Nat.le_refl _) hd).toFits
      · intro x hx _
        have hxo : x ≤ t.lbp o := hx l o _ rfl
        refine .binMix l o _ a s b hmp ho hi hxo (hLge x hxo) ?_
        exact hB x (Nat.le_trans hxo ((hT.wf o ho).2 (by rw [hm]; simp)))
    · -- regular reading
      rename_i hshape
      have hshape' : isMixShape t o r = false := by simpa using hshape
      have hmp : mixParts (policyOf c) o r = none :=
        mixParts_none (p := policyOf c) (hT.mixAgree o ho) hshape'
      have hR : ∀ x, x ≤ t.rbp o → (policyOf c).dropR o r = true →
          AllGE t (policyOf c) ops x r := by
        intro x hx hd
        have hd' : c.dropR o (kindOf r) = true := hd
        refine child_allGE ih r (by omega) hrest.2 x (cell := c.dropR o) hd' (hT.unR o ho) ?_
        intro k hk hc hkind
        have hne : t.mix o ≠ some k := by
          intro hm
          cases r with
          | bin bl bo br =>
            simp [kindOf] at hkind; subst hkind
            simp [isMixShape, hm] at hshape'
          | atom _ => simp [kindOf] at hkind
          | un _ => simp [kindOf] at hkind
          | node _ _ => simp [kindOf] at hkind
        exact Nat.le_trans hx (hT.right o ho k hk hc hne).2
      refine ⟨?_, ?_⟩
      · exact .binReg l o r hmp hrest.1 hi hlicl (ih r (by omega) hrest.2).1 hL
          (fun hd => (hR _ (Nat.le_refl _) hd).toFits)
      · intro x hx _
        have hxo : x ≤ t.lbp o := hx l o r rfl
        exact .binReg l o r hmp ho hi hrest.1 hxo (hLge x hxo)
          (hR x (Nat.le_trans hxo ((hT.wf o ho).1 hrest.1)))

theorem bridge {t : Tbl} {c : Cells} {ops : List Nat} (hT : TableOK t c ops) :
    ∀ n, Bridge t c ops n
  | 0 => fun e hs _ => absurd hs (by have := e.size_pos; omega)
  | n+1 => bridge_step hT (bridge hT n)

/-- every well-formed expression is licensed when the finite table obligation holds -/
theorem lic_of_wf {t : Tbl} {c : Cells} {ops : List Nat} (hT : TableOK t c ops) (e : Ex)
    (hw : wf t ops e = true) : Lic t (policyOf c) e :=
  (bridge hT e.size e (Nat.le_refl _) hw).1

/-- **Round trip from the finite obligation.** -/
theorem parse_print_of_table {t : Tbl} {c : Cells} {ops : List Nat} (hT : TableOK t c ops)
    (e : Ex) (hw : wf t ops e = true) :
    ∃ f, parseE t f 0 (pr (policyOf c) e) = some (e, []) :=
  parse_print t (policyOf c) e (lic_of_wf hT e hw)

end SeaQ.Pratt
