import SeaQ.Lemmas.PrattRound
/-!
Bridge from a *finite* obligation on (dialect table, observed parenthesis policy) to `Lic`
for every well-formed expression.  The crate's policy depends only on the outer operator and
the kind of the child (its constructor, and its operator if it is a binary), which is what
makes the obligation finite.
-/
namespace SeaQ.Pratt

/-- the finite obligation, over the operators `ops` of the dialect -/
structure TableOK (t : Tbl) (c : Cells) (ops : List Nat) : Prop where
  /-- table well-formedness -/
  wf : ∀ j ∈ ops, ((t.mix j = none ∨ t.mand j = false) → t.lbp j ≤ t.rbp j) ∧
    (t.mix j ≠ none → t.lbp j ≤ t.rbp2 j)
  /-- a dropped left child binds at least as tightly, is not re-absorbed, does not chain -/
  left : ∀ o ∈ ops, ∀ i ∈ ops, c.dropL o (.bin i) = true →
    t.infx i = true ∧ t.lbp o ≤ t.lbp i ∧
    ((t.mix i = none ∨ t.mand i = false) → t.lbp o < t.rbp i) ∧
    (t.mix i ≠ none → t.lbp o < t.rbp2 i) ∧
    ¬ (t.nonassoc o = true ∧ t.lbp i = t.lbp o)
  /-- a dropped right child fits the right operand level (regular reading) -/
  right : ∀ o ∈ ops, ∀ i ∈ ops, c.dropR o (.bin i) = true → t.mix o ≠ some i →
    t.infx i = true ∧ t.rbp o ≤ t.lbp i
  /-- the engine's mixfix forms are exactly the crate's ternary encodings -/
  mixAgree : ∀ o ∈ ops, t.mix o = c.mixOf o
  /-- the separator is not absorbed while the first operand is read -/
  mixSepOK : ∀ o ∈ ops, ∀ s, t.mix o = some s → s ∈ ops ∧ (t.infx s = true → t.lbp s < t.rbp o)
  /-- the two operands of a mixfix form fit their positions -/
  mixL : ∀ o ∈ ops, ∀ s, t.mix o = some s → ∀ i ∈ ops, c.dropML o (.bin i) = true →
    t.infx i = true ∧ t.rbp o ≤ t.lbp i
  mixR : ∀ o ∈ ops, ∀ s, t.mix o = some s → ∀ i ∈ ops, c.dropMR o (.bin i) = true →
    t.infx i = true ∧ t.rbp2 o ≤ t.lbp i
  /-- two operators sharing an optional separator cannot nest bare in the first operand -/
  mixSep : ∀ o ∈ ops, ∀ j ∈ ops, ∀ s, t.mix o = some s → t.mix j = some s → t.mand j = false →
    t.lbp j < t.rbp o
  /-- the separator of an optional mixfix operator is not a stand-alone infix operator -/
  optSep : ∀ j ∈ ops, ∀ s, t.mix j = some s → t.mand j = false → t.infx s = false
  /-- `NOT` operands -/
  notOp : ∀ i ∈ ops, c.dropN (.bin i) = true → t.infx i = true ∧ t.nbp ≤ t.lbp i
  /-- a prefix `NOT` is never left bare as an operand -/
  unL : ∀ o ∈ ops, c.dropL o .un = false
  unR : ∀ o ∈ ops, c.dropR o .un = false
  unN : c.dropN .un = false
  unML : ∀ o ∈ ops, c.dropML o .un = false
  unMR : ∀ o ∈ ops, c.dropMR o .un = false

/-- is `r` read as the two operands of mixfix `o`? -/
def isMixShape (t : Tbl) (o : Nat) : Ex → Bool
  | .bin _ s _ => t.mix o == some s
  | _ => false

mutual
  /-- well-formed: operators are in the table; stand-alone binaries are infix operators; a
  mandatory mixfix operator (`BETWEEN`) has its `AND` node on the right -/
  def wf (t : Tbl) (ops : List Nat) : Ex → Bool
    | .atom _ => true
    | .un y => wf t ops y
    | .bin l o r =>
      ops.contains o && t.infx o && wf t ops l &&
      (if isMixShape t o r then wfMix t ops r
       else (t.mix o == none || !t.mand o) && wf t ops r)
    | .node _ args => wfL t ops args
  /-- the separator node of a mixfix form: its operator need not be infix -/
  def wfMix (t : Tbl) (ops : List Nat) : Ex → Bool
    | .bin a s b => ops.contains s && wf t ops a && wf t ops b
    | _ => false
  def wfL (t : Tbl) (ops : List Nat) : ExList → Bool
    | .nil => true
    | .cons h tl => wf t ops h && wfL t ops tl
end

end SeaQ.Pratt

namespace SeaQ.Pratt

/-- every operator reachable through bare links binds at least `x` (and the expression is
not a bare prefix `NOT`) -/
inductive AllGE (t : Tbl) (p : Policy) (ops : List Nat) (x : Nat) : Ex → Prop where
  | atom (a) : AllGE t p ops x (.atom a)
  | node (k args) : AllGE t p ops x (.node k args)
  | binReg (l o r) : mixParts p o r = none → o ∈ ops → t.infx o = true →
      (t.mix o = none ∨ t.mand o = false) → x ≤ t.lbp o → (p.dropL o l = true → AllGE t p ops x l) →
      (p.dropR o r = true → AllGE t p ops x r) → AllGE t p ops x (.bin l o r)
  | binMix (l o r a s b) : mixParts p o r = some (a, s, b) → o ∈ ops → t.infx o = true →
      x ≤ t.lbp o →
      (p.dropL o l = true → AllGE t p ops x l) →
      (p.dropMR o b = true → AllGE t p ops x b) → AllGE t p ops x (.bin l o r)

theorem AllGE.mono {t : Tbl} {p : Policy} {ops : List Nat} {x y : Nat} {e : Ex}
    (h : AllGE t p ops x e) (hy : y ≤ x) : AllGE t p ops y e := by
  induction h with
  | atom a => exact .atom a
  | node k args => exact .node k args
  | binReg l o r hmp ho hi hm hx _ _ ihl ihr =>
    exact .binReg l o r hmp ho hi hm (Nat.le_trans hy hx) ihl ihr
  | binMix l o r a s b hmp ho hi hx _ _ ihl ihb =>
    exact .binMix l o r a s b hmp ho hi (Nat.le_trans hy hx) ihl ihb

theorem AllGE.toFits {t : Tbl} {p : Policy} {ops : List Nat} {x : Nat} {e : Ex}
    (h : AllGE t p ops x e) : Fits t p x e := by
  induction h with
  | atom a => exact .atom a
  | node k args => exact .node k args
  | binReg l o r _ _ hi _ hx _ _ ihl _ => exact .bin l o r hi hx ihl
  | binMix l o r a s b _ _ hi hx _ _ ihl _ => exact .bin l o r hi hx ihl

/-- Lemma C: a following operator that binds weaker than everything bare-reachable is not
captured -/
theorem AllGE.stops {t : Tbl} {c : Cells} {ops : List Nat} (hT : TableOK t c ops) {x : Nat} {e : Ex}
    (h : AllGE t (policyOf c) ops x e) (q : Nat) (hq : t.infx q = true → t.lbp q < x)
    (hcap : ∀ j ∈ ops, t.mix j = some q → t.mand j = false → t.lbp j < x) :
    StopsOp t (policyOf c) q e := by
  induction h with
  | atom a => exact .atom a
  | node k args => exact .node k args
  | binReg l o r hmp ho _ hm hx _ _ _ ihr =>
    refine .binReg l o r hmp ?_ ?_ ihr
    · intro hi
      have := hq hi
      have := (hT.wf o ho).1 hm
      omega
    · intro hmix
      rcases hm with h0 | h0
      · rw [h0] at hmix; cases hmix
      · have := hcap o ho hmix h0
        omega
  | binMix l o r a s b hmp ho _ hx _ _ _ ihb =>
    refine .binMix l o r a s b hmp ?_ ihb
    intro hi
    have := hq hi
    obtain ⟨hpm, _⟩ := mixParts_some hmp
    have := (hT.wf o ho).2 (by rw [hT.mixAgree o ho]; show (policyOf c).mixOf o ≠ none; rw [hpm]; simp)
    omega

end SeaQ.Pratt

namespace SeaQ.Pratt

/-- the same obligation with every quantifier bounded by `ops`, hence decidable -/
def TableOKD (t : Tbl) (c : Cells) (ops : List Nat) : Prop :=
  (∀ j ∈ ops, ((t.mix j = none ∨ t.mand j = false) → t.lbp j ≤ t.rbp j) ∧
    (t.mix j ≠ none → t.lbp j ≤ t.rbp2 j)) ∧
  (∀ o ∈ ops, ∀ i ∈ ops, c.dropL o (.bin i) = true →
    t.infx i = true ∧ t.lbp o ≤ t.lbp i ∧
    ((t.mix i = none ∨ t.mand i = false) → t.lbp o < t.rbp i) ∧
    (t.mix i ≠ none → t.lbp o < t.rbp2 i) ∧
    ¬ (t.nonassoc o = true ∧ t.lbp i = t.lbp o)) ∧
  (∀ o ∈ ops, ∀ i ∈ ops, c.dropR o (.bin i) = true → t.mix o ≠ some i →
    t.infx i = true ∧ t.rbp o ≤ t.lbp i) ∧
  (∀ o ∈ ops, t.mix o = c.mixOf o) ∧
  (∀ o ∈ ops, t.mix o = none ∨ ∃ s ∈ ops, t.mix o = some s ∧ (t.infx s = true → t.lbp s < t.rbp o)) ∧
  (∀ o ∈ ops, ∀ i ∈ ops, t.mix o ≠ none → c.dropML o (.bin i) = true →
    t.infx i = true ∧ t.rbp o ≤ t.lbp i) ∧
  (∀ o ∈ ops, ∀ i ∈ ops, t.mix o ≠ none → c.dropMR o (.bin i) = true →
    t.infx i = true ∧ t.rbp2 o ≤ t.lbp i) ∧
  (∀ o ∈ ops, ∀ j ∈ ops, t.mix o ≠ none → t.mix j = t.mix o → t.mand j = false →
    t.lbp j < t.rbp o) ∧
  (∀ j ∈ ops, ∀ s ∈ ops, t.mix j = some s → t.mand j = false → t.infx s = false) ∧
  (∀ i ∈ ops, c.dropN (.bin i) = true → t.infx i = true ∧ t.nbp ≤ t.lbp i) ∧
  (∀ o ∈ ops, c.dropL o .un = false ∧ c.dropR o .un = false ∧ c.dropML o .un = false ∧
    c.dropMR o .un = false) ∧
  c.dropN .un = false

set_option synthInstance.maxSize 4096 in
set_option synthInstance.maxHeartbeats 400000 in
instance (t : Tbl) (c : Cells) (ops : List Nat) : Decidable (TableOKD t c ops) := by
  unfold TableOKD; infer_instance

theorem TableOK.ofD {t : Tbl} {c : Cells} {ops : List Nat} (h : TableOKD t c ops) :
    TableOK t c ops := by
  obtain ⟨h1, h2, h3, h4, h5, h6, h7, h8, h9, h10, h11, h12⟩ := h
  have sepIn : ∀ o ∈ ops, ∀ s, t.mix o = some s → s ∈ ops ∧ (t.infx s = true → t.lbp s < t.rbp o) := by
    intro o ho s hm
    rcases h5 o ho with h0 | ⟨s', hs', hm', hl⟩
    · rw [h0] at hm; cases hm
    · rw [hm'] at hm; cases hm; exact ⟨hs', hl⟩
  exact {
    wf := h1
    left := h2
    right := h3
    mixAgree := h4
    mixSepOK := sepIn
    mixL := fun o ho s hm i hi hd => h6 o ho i hi (by rw [hm]; simp) hd
    mixR := fun o ho s hm i hi hd => h7 o ho i hi (by rw [hm]; simp) hd
    mixSep := fun o ho j hj s hm hmj hmd => h8 o ho j hj (by rw [hm]; simp) (by rw [hm, hmj]) hmd
    optSep := fun j hj s hm hmd => h9 j hj s (sepIn j hj s hm).1 hm hmd
    notOp := h10
    unL := fun o ho => (h11 o ho).1
    unR := fun o ho => (h11 o ho).2.1
    unN := h12
    unML := fun o ho => (h11 o ho).2.2.1
    unMR := fun o ho => (h11 o ho).2.2.2 }

end SeaQ.Pratt
