import SeaQ.Lemmas.Token
namespace SeaQ.Token

/-- Independent specification of the content between a pair of delimiters: a sequence
of units, each a plain character (neither the closing delimiter nor the escape
character), a doubled closing delimiter (only for delimiters that double), or the
escape character followed by any character. -/
inductive QUnit
  | plain (c : Char)
  | doubled
  | escaped (c : Char)
  deriving Repr

/-- delimiter description: opening, closing, whether doubling the closing one escapes it -/
structure Delim where
  op : Char
  cl : Char
  dbl : Bool

def QUnit.ok (d : Delim) (bs : Char) : QUnit → Prop
  | .plain c => c ≠ d.cl ∧ c ≠ bs
  | .doubled => d.dbl = true
  | .escaped _ => True

def QUnit.chars (d : Delim) (bs : Char) : QUnit → List Char
  | .plain c => [c]
  | .doubled => [d.cl, d.cl]
  | .escaped c => [bs, c]

/-- decoded content as `Tokenizer::unquote` defines it: a doubled delimiter is one
delimiter, everything else (including the escape character) is kept -/
def QUnit.decoded (d : Delim) (bs : Char) : QUnit → List Char
  | .plain c => [c]
  | .doubled => [d.cl]
  | .escaped c => [bs, c]

def flat (d : Delim) (bs : Char) (us : List QUnit) : List Char := (us.map (QUnit.chars d bs)).flatten
def decodedAll (d : Delim) (bs : Char) (us : List QUnit) : List Char := (us.map (QUnit.decoded d bs)).flatten

@[simp] theorem flat_nil (d bs) : flat d bs [] = [] := rfl
@[simp] theorem flat_cons (d bs u us) : flat d bs (u :: us) = u.chars d bs ++ flat d bs us := by
  simp [flat]
@[simp] theorem decodedAll_nil (d bs) : decodedAll d bs [] = [] := rfl
@[simp] theorem decodedAll_cons (d bs u us) :
    decodedAll d bs (u :: us) = u.decoded d bs ++ decodedAll d bs us := by
  simp [decodedAll]

/-- what the class record must say about this delimiter -/
structure DelimOK (k : Cls) (d : Delim) (bs : Char) : Prop where
  dend : ∀ c, k.dend d.op c = (c == d.cl)
  desc : ∀ c, k.desc d.op c = (d.dbl && c == d.cl)
  esc : ∀ c, k.esc c = (c == bs)
  ne : d.cl ≠ bs

theorem tail_ne (d : Delim) (bs) (us : List QUnit) (post : List Char) :
    ∃ n rest, flat d bs us ++ d.cl :: post = n :: rest := by
  cases h : flat d bs us ++ d.cl :: post with
  | nil => simp at h
  | cons n rest => exact ⟨n, rest, rfl⟩

theorem qbody_units (k : Cls) (d : Delim) (bs : Char) (hk : DelimOK k d bs)
    (us : List QUnit) (hu : ∀ u ∈ us, u.ok d bs) (post : List Char)
    (hp : d.dbl = true → post.head? ≠ some d.cl) :
    qbody k d.op false (flat d bs us ++ d.cl :: post) = (flat d bs us ++ [d.cl], post) := by
  induction us with
  | nil =>
    cases post with
    | nil => simp [qbody]
    | cons n rest =>
      have hn : (d.dbl && n == d.cl) = false := by
        cases hd : d.dbl with
        | false => simp
        | true =>
          have := hp hd
          simp at this
          simp [this]
      simp [qbody, hk.dend, hk.desc, hn]
  | cons u us ih =>
    have ih' := ih (fun u hu' => hu u (List.mem_cons_of_mem _ hu'))
    obtain ⟨n, rest, hnr⟩ := tail_ne d bs us post
    have hok := hu u List.mem_cons_self
    cases u with
    | plain c =>
      have h1 : (c == d.cl) = false := by simpa [QUnit.ok] using hok.1
      have h2 : (c == bs) = false := by simpa [QUnit.ok] using hok.2
      have e : flat d bs (QUnit.plain c :: us) ++ d.cl :: post = c :: (n :: rest) := by
        simp [QUnit.chars, ← hnr]
      rw [e]
      simp only [qbody, hk.dend, hk.esc, h1, h2]
      simp [← hnr, ih', cons1, QUnit.chars]
    | doubled =>
      have hd : d.dbl = true := hok
      have e : flat d bs (QUnit.doubled :: us) ++ d.cl :: post
          = d.cl :: d.cl :: (flat d bs us ++ d.cl :: post) := by
        simp [QUnit.chars]
      rw [e]
      simp only [qbody, hk.dend, hk.desc, hd]
      rw [ih']
      simp [cons2, QUnit.chars]
    | escaped c =>
      have h1 : (bs == d.cl) = false := by
        have := hk.ne
        simp
        exact fun h => this h.symm
      have e : flat d bs (QUnit.escaped c :: us) ++ d.cl :: post = bs :: c :: (n :: rest) := by
        simp [QUnit.chars, ← hnr]
      rw [e]
      simp only [qbody, hk.dend, hk.esc, h1]
      simp [← hnr, ih', cons1, QUnit.chars]

theorem uqbody_units (k : Cls) (d : Delim) (bs : Char) (hk : DelimOK k d bs)
    (us : List QUnit) (hu : ∀ u ∈ us, u.ok d bs) :
    uqbody k d.op false (flat d bs us ++ [d.cl]) = decodedAll d bs us := by
  induction us with
  | nil => simp [uqbody, hk.dend]
  | cons u us ih =>
    have ih' := ih (fun u hu' => hu u (List.mem_cons_of_mem _ hu'))
    obtain ⟨n, rest, hnr⟩ := tail_ne d bs us []
    have hok := hu u List.mem_cons_self
    cases u with
    | plain c =>
      have h1 : (c == d.cl) = false := by simpa [QUnit.ok] using hok.1
      have h2 : (c == bs) = false := by simpa [QUnit.ok] using hok.2
      have e : flat d bs (QUnit.plain c :: us) ++ [d.cl] = c :: (n :: rest) := by
        simp [QUnit.chars, ← hnr]
      rw [e]
      simp only [uqbody, hk.dend, hk.esc, h1, h2]
      simp [← hnr, ih', QUnit.decoded]
    | doubled =>
      have hd : d.dbl = true := hok
      have e : flat d bs (QUnit.doubled :: us) ++ [d.cl]
          = d.cl :: d.cl :: (flat d bs us ++ [d.cl]) := by
        simp [QUnit.chars]
      rw [e]
      simp only [uqbody, hk.dend, hk.desc, hd]
      rw [ih']
      simp [QUnit.decoded]
    | escaped c =>
      have h1 : (bs == d.cl) = false := by
        have := hk.ne
        simp
        exact fun h => this h.symm
      have e : flat d bs (QUnit.escaped c :: us) ++ [d.cl] = bs :: c :: (n :: rest) := by
        simp [QUnit.chars, ← hnr]
      rw [e]
      simp only [uqbody, hk.dend, hk.esc, h1]
      simp [← hnr, ih', QUnit.decoded]

end SeaQ.Token
