import SeaQ.Lemmas.PrattMain
namespace SeaQ.Pratt

theorem main_atom (t : Tbl) (p : Policy) (a : Nat) : Main t p (.atom a) := by
  intro m rest res f _ _ hl
  exact ⟨f+1, by simpa [pr, parseE, topOf] using hl⟩

theorem main_un (t : Tbl) (p : Policy) (y : Ex) (hly : Lic t p y) (ihy : Main t p y)
    (hfit : p.dropN y = true → Fits t p t.nbp y) : Main t p (.un y) := by
  intro m rest res f _ hst hl
  obtain ⟨f1, h1⟩ := child t p y hly ihy (p.dropN y) t.nbp rest (y, rest) 1 hfit
    (fun hd => stopsAt_child_un hst hd)
    (loop_stop t 0 _ _ y rest (noAbsorb_of_stopsOp_lt (stopsAt_headLt_un hst)))
  refine ⟨max f1 f + 1, ?_⟩
  have e1 : pr p (.un y) ++ rest = Tok.not :: (wrap (p.dropN y) (pr p y) ++ rest) := by simp [pr]
  rw [e1]
  simp only [parseE, parseE_le t (Nat.le_max_left f1 f) h1]
  exact loop_le t (Nat.le_max_right f1 f) (by simpa [topOf] using hl)

theorem main_bin_reg (t : Tbl) (p : Policy) (l r : Ex) (o : Nat)
    (hmp : mixParts p o r = none) (hmo : t.mix o = none ∨ t.mand o = false)
    (hi : t.infx o = true) (hll : Lic t p l) (hlr : Lic t p r) (ihl : Main t p l) (ihr : Main t p r)
    (hL : p.dropL o l = true → StopsOp t p o l ∧ ChainOK t o l)
    (hR : p.dropR o r = true → Fits t p (t.rbp o) r) : Main t p (.bin l o r) := by
  intro m rest res f hfit hst hl
  obtain ⟨hlt, hsep, hchild⟩ := stopsAt_bin_reg hmp hst
  -- the right operand, parsed at level `rbp o`, returns exactly (r, rest)
  obtain ⟨f1, h1⟩ := child t p r hlr ihr (p.dropR o r) (t.rbp o) rest (r, rest) 1 hR hchild
    (loop_stop t 0 _ _ r rest (noAbsorb_of_stopsOp_lt hlt))
  cases hfit with
  | bin _ _ _ _ hm hfl =>
  -- hence continuing after `l` with `op o :: …` gives `res`
  have hchain : ¬ (t.nonassoc o = true ∧
      (if p.dropL o l = true then topOf t l else none) = some (t.lbp o)) := by
    intro ⟨hn, ht⟩
    cases hd : p.dropL o l with
    | false => simp [hd] at ht
    | true => rw [hd] at ht; exact (hL hd).2 ⟨hn, by simpa using ht⟩
  have hloopl : loop t (max f1 f + 1) m (if p.dropL o l = true then topOf t l else none) l
      (Tok.op o :: (wrap (p.dropR o r) (pr p r) ++ rest)) = some res := by
    simp only [loop, absorb_true hi hm hchain, parseE_le t (Nat.le_max_left f1 f) h1,
      mixNext_plain hmo hsep]
    exact loop_le t (Nat.le_max_right f1 f) (by simpa [topOf] using hl)
  obtain ⟨f2, h2⟩ := child t p l hll ihl (p.dropL o l) m
    (Tok.op o :: (wrap (p.dropR o r) (pr p r) ++ rest)) res _ hfl
    (fun hd => (show StopsAt t p l (Tok.op o :: _) from (hL hd).1)) hloopl
  refine ⟨f2, ?_⟩
  have e1 : pr p (.bin l o r) ++ rest
      = wrap (p.dropL o l) (pr p l) ++ Tok.op o :: (wrap (p.dropR o r) (pr p r) ++ rest) := by
    rw [pr_bin_reg hmp]; simp
  rw [e1]; exact h2

theorem main_bin_mix (t : Tbl) (p : Policy) (l r a b : Ex) (o s : Nat)
    (hmp : mixParts p o r = some (a, s, b)) (hmix : t.mix o = some s)
    (hi : t.infx o = true) (hll : Lic t p l) (hla : Lic t p a) (hlb : Lic t p b)
    (ihl : Main t p l) (iha : Main t p a) (ihb : Main t p b)
    (hsepLvl : t.infx s = true → t.lbp s < t.rbp o)
    (hL : p.dropL o l = true → StopsOp t p o l ∧ ChainOK t o l)
    (hA : p.dropML o a = true → Fits t p (t.rbp o) a ∧ StopsOp t p s a)
    (hB : p.dropMR o b = true → Fits t p (t.rbp2 o) b) : Main t p (.bin l o r) := by
  intro m rest res f hfit hst hl
  obtain ⟨hpm, hr⟩ := mixParts_some hmp
  obtain ⟨hlt, hchild⟩ := stopsAt_bin_mix hmp hst
  subst hr
  -- second operand `b` at level `rbp2 o`
  obtain ⟨fb, hb⟩ := child t p b hlb ihb (p.dropMR o b) (t.rbp2 o) rest (b, rest) 1 hB hchild
    (loop_stop t 0 _ _ b rest (noAbsorb_of_stopsOp_lt hlt))
  -- first operand `a` at level `rbp o`, followed by the separator
  have hna : NoAbsorb t (t.rbp o) (Tok.op s :: (wrap (p.dropMR o b) (pr p b) ++ rest)) := by
    intro ⟨h1, h2⟩
    have := hsepLvl h1
    omega
  obtain ⟨fa, ha⟩ := child t p a hla iha (p.dropML o a) (t.rbp o)
    (Tok.op s :: (wrap (p.dropMR o b) (pr p b) ++ rest))
    (a, Tok.op s :: (wrap (p.dropMR o b) (pr p b) ++ rest)) 1
    (fun hd => (hA hd).1) (fun hd => (show StopsAt t p a (Tok.op s :: _) from (hA hd).2))
    (loop_stop t 0 _ _ a _ hna)
  cases hfit with
  | bin _ _ _ _ hm hfl =>
  have hchain : ¬ (t.nonassoc o = true ∧
      (if p.dropL o l = true then topOf t l else none) = some (t.lbp o)) := by
    intro ⟨hn, ht⟩
    cases hd : p.dropL o l with
    | false => simp [hd] at ht
    | true => rw [hd] at ht; exact (hL hd).2 ⟨hn, by simpa using ht⟩
  let F := max (max fa fb) f
  have hFa : fa ≤ F := Nat.le_trans (Nat.le_max_left fa fb) (Nat.le_max_left _ f)
  have hFb : fb ≤ F := Nat.le_trans (Nat.le_max_right fa fb) (Nat.le_max_left _ f)
  have hFf : f ≤ F := Nat.le_max_right _ f
  have hgetD : (t.mix o).getD 0 = s := by rw [hmix]; rfl
  have hloopl : loop t (F + 1) m (if p.dropL o l = true then topOf t l else none) l
      (Tok.op o :: (wrap (p.dropML o a) (pr p a) ++
        Tok.op s :: (wrap (p.dropMR o b) (pr p b) ++ rest))) = some res := by
    simp only [loop, absorb_true hi hm hchain, parseE_le t hFa ha, mixNext_sep _ hmix,
      parseE_le t hFb hb, hgetD]
    exact loop_le t hFf (by simpa [topOf] using hl)
  obtain ⟨f2, h2⟩ := child t p l hll ihl (p.dropL o l) m _ res _ hfl
    (fun hd => (show StopsAt t p l (Tok.op o :: _) from (hL hd).1)) hloopl
  refine ⟨f2, ?_⟩
  have e1 : pr p (.bin l o (.bin a s b)) ++ rest
      = wrap (p.dropL o l) (pr p l) ++ Tok.op o :: (wrap (p.dropML o a) (pr p a) ++
        Tok.op s :: (wrap (p.dropMR o b) (pr p b) ++ rest)) := by
    rw [pr_bin_mix hpm]; simp
  rw [e1]; exact h2

theorem main_node (t : Tbl) (p : Policy) (k : Nat) (args : ExList) (ih : MainL t p args) :
    Main t p (.node k args) := by
  intro m rest res f _ _ hl
  obtain ⟨f1, h1⟩ := ih rest
  refine ⟨max f1 f + 1, ?_⟩
  have e1 : pr p (.node k args) ++ rest = Tok.opn k :: (prArgs p args ++ rest) := by simp [pr]
  rw [e1]
  simp only [parseE, parseArgs_le t (Nat.le_max_left f1 f) h1]
  exact loop_le t (Nat.le_max_right f1 f) (by simpa [topOf] using hl)

theorem mainL_nil (t : Tbl) (p : Policy) : MainL t p .nil := by
  intro rest
  exact ⟨1, by simp [prArgs, parseArgs, headIsCls]⟩

theorem mainL_cons (t : Tbl) (p : Policy) (h : Ex) (tl : ExList) (hlh : Lic t p h)
    (ihh : Main t p h) (iht : MainL t p tl) : MainL t p (.cons h tl) := by
  intro rest
  cases tl with
  | nil =>
    obtain ⟨f1, h1⟩ := ihh 0 (Tok.cls :: rest) (h, Tok.cls :: rest) 1 (fits_zero_of_lic t p h hlh)
      trivial (loop_stop t 0 0 _ h _ trivial)
    refine ⟨f1 + 1, ?_⟩
    have e1 : prArgs p (.cons h .nil) ++ rest = pr p h ++ Tok.cls :: rest := by simp [prArgs]
    rw [e1]
    simp only [parseArgs, pr_head p h _, Bool.false_eq_true, if_false, h1, argSep]
  | cons x2 t2 =>
    obtain ⟨f1, h1⟩ := ihh 0 (Tok.comma :: (prArgs p (.cons x2 t2) ++ rest))
      (h, Tok.comma :: (prArgs p (.cons x2 t2) ++ rest)) 1 (fits_zero_of_lic t p h hlh)
      trivial (loop_stop t 0 0 _ h _ trivial)
    obtain ⟨f2, h2⟩ := iht rest
    refine ⟨max f1 f2 + 1, ?_⟩
    have e1 : prArgs p (.cons h (.cons x2 t2)) ++ rest
        = pr p h ++ Tok.comma :: (prArgs p (.cons x2 t2) ++ rest) := by simp [prArgs]
    rw [e1]
    simp only [parseArgs, pr_head p h _, Bool.false_eq_true, if_false,
      parseE_le t (Nat.le_max_left f1 f2) h1, argSep, parseArgs_le t (Nat.le_max_right f1 f2) h2]

/-- the main lemma for all licensed expressions and argument lists, by induction on size -/
theorem main_all (t : Tbl) (p : Policy) : ∀ n,
    (∀ e : Ex, e.size ≤ n → Lic t p e → Main t p e) ∧
    (∀ es : ExList, es.size ≤ n → LicL t p es → MainL t p es) := by
  intro n
  induction n with
  | zero =>
    exact ⟨fun e h _ => absurd h (by have := e.size_pos; omega),
           fun es h _ => absurd h (by have := es.size_pos; omega)⟩
  | succ n ih =>
    constructor
    · intro e hs hlic
      cases hlic with
      | atom a => exact main_atom t p a
      | un y hy hf =>
        exact main_un t p y hy (ih.1 y (by simp [Ex.size] at hs; omega) hy) hf
      | node k args hargs =>
        exact main_node t p k args (ih.2 args (by simp [Ex.size] at hs; omega) hargs)
      | binReg l o r hmp hmo hi hl hr hL hR =>
        simp only [Ex.size] at hs
        exact main_bin_reg t p l r o hmp hmo hi hl hr (ih.1 l (by omega) hl) (ih.1 r (by omega) hr) hL hR
      | binMix l o r a s b hmp hmix hi hl ha hb hsl hL hA hB =>
        obtain ⟨_, hr⟩ := mixParts_some hmp
        subst hr
        simp only [Ex.size] at hs
        exact main_bin_mix t p l _ a b o s hmp hmix hi hl ha hb (ih.1 l (by omega) hl)
          (ih.1 a (by omega) ha) (ih.1 b (by omega) hb) hsl hL hA hB
    · intro es hs hlic
      cases hlic with
      | nil => exact mainL_nil t p
      | cons h tl hh htl =>
        simp only [ExList.size] at hs
        exact mainL_cons t p h tl hh (ih.1 h (by omega) hh) (ih.2 tl (by omega) htl)

/-- **Round trip.** Every licensed expression re-parses to itself, with nothing left over. -/
theorem parse_print (t : Tbl) (p : Policy) (e : Ex) (h : Lic t p e) :
    ∃ f, parseE t f 0 (pr p e) = some (e, []) := by
  have hm := (main_all t p e.size).1 e (Nat.le_refl _) h
  have := hm 0 [] (e, []) 1 (fits_zero_of_lic t p e h) trivial (loop_stop t 0 0 _ e [] trivial)
  simpa using this

end SeaQ.Pratt
