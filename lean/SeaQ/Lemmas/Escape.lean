import SeaQ.Model.Escape
namespace SeaQ.Escape
open SeaQ.Gen.Escape

def allSingle (ch : Chain) : Bool := ch.all (fun pr => pr.1.length == 1)

theorem applyChain_cons (pr : List Char × List Char) (ch : Chain) (s : List Char) :
    applyChain (pr :: ch) s = applyChain ch (applyReplace pr s) := rfl

theorem applyReplace_single_flatMap (pr : List Char × List Char) (h : pr.1.length = 1)
    {α} (f : α → List Char) (s : List α) :
    applyReplace pr (s.flatMap f) = s.flatMap (fun x => applyReplace pr (f x)) := by
  obtain ⟨pat, rep⟩ := pr
  match pat, h with
  | [c], _ =>
    simp only [applyReplace, replaceChar]
    exact List.flatMap_assoc ..

/-- a chain of one-character replacements acts on a concatenation piecewise -/
theorem applyChain_flatMap (ch : Chain) (h : allSingle ch = true) {α} (f : α → List Char)
    (s : List α) : applyChain ch (s.flatMap f) = s.flatMap (fun x => applyChain ch (f x)) := by
  induction ch generalizing f with
  | nil => rfl
  | cons pr ch ih =>
    simp only [allSingle, List.all_cons, Bool.and_eq_true, beq_iff_eq] at h
    simp only [applyChain_cons]
    rw [applyReplace_single_flatMap pr h.1 f s]
    exact ih (by simpa [allSingle] using h.2) _

/-- … so the whole chain is one per-character map -/
theorem applyChain_is_map (ch : Chain) (h : allSingle ch = true) (s : List Char) :
    applyChain ch s = s.flatMap (fun x => applyChain ch [x]) := by
  have := applyChain_flatMap ch h (fun x : Char => [x]) s
  simpa using this

def patterns (ch : Chain) : List Char := ch.flatMap (fun pr => pr.1)

theorem applyChain_nopattern (ch : Chain) (h : allSingle ch = true) (x : Char)
    (hx : x ∉ patterns ch) : applyChain ch [x] = [x] := by
  induction ch with
  | nil => rfl
  | cons pr ch ih =>
    simp only [allSingle, List.all_cons, Bool.and_eq_true, beq_iff_eq] at h
    obtain ⟨pat, rep⟩ := pr
    simp only [patterns, List.flatMap_cons, List.mem_append, not_or] at hx
    match pat, h.1 with
    | [c], _ =>
      have hne : (x == c) = false := by
        have := hx.1; simp at this; simpa using this
      simp only [applyChain_cons, applyReplace, replaceChar, List.flatMap_cons, hne,
        List.flatMap_nil, List.append_nil]
      exact ih (by simpa [allSingle] using h.2) hx.2

/-- the image `l` of a character `x` under escaping decodes back to `x` -/
def goodB (e : Char) (arms : List (Char × Char)) (x : Char) (l : List Char) : Bool :=
  match l with
  | [y] => y == x && x != e
  | [a, code] => a == e && lookupArm arms code == x
  | _ => false

theorem unescGo_good (e arms) (x : Char) (l : List Char) (h : goodB e arms x l = true)
    (t : List Char) : unescGo e arms false (l ++ t) = x :: unescGo e arms false t := by
  match l, h with
  | [y], h =>
    simp only [goodB, Bool.and_eq_true, beq_iff_eq, bne_iff_ne] at h
    obtain ⟨rfl, hne⟩ := h
    have : (y == e) = false := beq_false_of_ne hne
    simp [unescGo, this]
  | [a, code], h =>
    simp only [goodB, Bool.and_eq_true, beq_iff_eq] at h
    obtain ⟨rfl, hx⟩ := h
    simp [unescGo, hx]

/-- decidable side condition on a generated (escape chain, unescape machine) pair -/
def chainOK (ch : Chain) (e : Char) (arms : List (Char × Char)) : Bool :=
  allSingle ch && (patterns ch).contains e &&
    (patterns ch).all (fun x => goodB e arms x (applyChain ch [x]))

theorem good_all (ch e arms) (h : chainOK ch e arms = true) (x : Char) :
    goodB e arms x (applyChain ch [x]) = true := by
  simp only [chainOK, Bool.and_eq_true] at h
  by_cases hx : x ∈ patterns ch
  · exact List.all_eq_true.mp h.2 x hx
  · rw [applyChain_nopattern ch h.1.1 x hx]
    have he : e ∈ patterns ch := by simpa using h.1.2
    have : x ≠ e := fun e' => hx (e' ▸ he)
    simp [goodB, this]

theorem unesc_escape_machine (ch e arms) (h : chainOK ch e arms = true) (s : List Char) :
    unescGo e arms false (applyChain ch s) = s := by
  have hs : allSingle ch = true := by
    simp only [chainOK, Bool.and_eq_true] at h; exact h.1.1
  rw [applyChain_is_map ch hs]
  induction s with
  | nil => rfl
  | cons x s ih =>
    simp only [List.flatMap_cons]
    rw [unescGo_good e arms x _ (good_all ch e arms h x), ih]

/-- quote doubling and its inverse (`replace(q, qq)` then `replace(qq, q)`) -/
theorem replace2_double (q : Char) (s : List Char) :
    replace2 q q [q] (replaceChar q [q, q] s) = s := by
  induction s with
  | nil => rfl
  | cons x s ih =>
    simp only [replaceChar, List.flatMap_cons] at ih ⊢
    by_cases hx : x = q
    · subst hx
      simp only [beq_self_eq_true, if_true, List.cons_append, List.nil_append, replace2,
        Bool.and_self, ih]
    · have hne : (x == q) = false := beq_false_of_ne hx
      simp only [hne, Bool.false_eq_true, if_false, List.singleton_append]
      cases hr : List.flatMap (fun x => if (x == q) = true then [q, q] else [x]) s with
      | nil =>
        rw [hr] at ih
        simp [replace2, ← ih]
      | cons y r =>
        rw [hr] at ih
        simp [replace2, hne, ih]

end SeaQ.Escape
