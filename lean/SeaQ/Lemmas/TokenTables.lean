import SeaQ.Lemmas.Lookup
import SeaQ.Lemmas.TokenQuoted
/-! Facts about the generated tokenizer tables, re-checked by `decide` whenever
`SeaQ.Gen.Token` is regenerated from the source. -/
namespace SeaQ.Token
open SeaQ.Gen.Token

theorem endFor_distinct : distinctKeys delimEndFor = true := by decide
theorem escFor_distinct : distinctKeys stringEscapeFor = true := by decide
theorem escFor_subset : stringEscapeFor.all (fun p => delimEndFor.contains p) = true := by decide
theorem end_ne_escape : delimEndFor.all (fun p => p.2 != escapeChar) = true := by decide
theorem start_is_delim : delimEndFor.all (fun p => delimStartChars.contains p.1) = true := by decide
theorem start_complete : delimStartChars.all (fun c => delimEndFor.any (fun p => p.1 == c)) = true := by decide
theorem start_not_space : delimStartChars.all (fun c => !spaceChars.contains c && !isAsciiDigit c) = true := by decide
theorem alnum_shape : alnumShapeOk = true := by decide

/-- the delimiter record of a row of the generated table -/
def delimOf (p : Char × Char) : Delim :=
  { op := p.1, cl := p.2, dbl := stringEscapeFor.any (fun q => q.1 == p.1) }

theorem delimOK (α : Char → Bool) (p : Char × Char) (hp : p ∈ delimEndFor) :
    DelimOK (cls α) (delimOf p) escapeChar where
  dend c := lookupPair_mem delimEndFor endFor_distinct p.1 p.2 hp c
  desc c := by
    show lookupPair stringEscapeFor p.1 c = _
    cases hd : stringEscapeFor.any (fun q => q.1 == p.1) with
    | false => simp [delimOf, hd, lookupPair_nokey stringEscapeFor p.1 c hd]
    | true =>
      obtain ⟨q, hq, hqe⟩ := List.any_eq_true.mp hd
      have hq1 : q.1 = p.1 := by simpa using hqe
      have hq' : (p.1, q.2) ∈ stringEscapeFor := by rw [← hq1]; exact hq
      have hin : (p.1, q.2) ∈ delimEndFor := by
        have := List.all_eq_true.mp escFor_subset _ hq'
        simpa using this
      have h1 := lookupPair_mem delimEndFor endFor_distinct p.1 p.2 hp q.2
      have h2 := lookupPair_mem delimEndFor endFor_distinct p.1 q.2 hin q.2
      have hqp : q.2 = p.2 := by
        rw [h2] at h1; simpa using h1.symm
      have := lookupPair_mem stringEscapeFor escFor_distinct p.1 q.2 hq' c
      simp [delimOf, hd, this, hqp]
  esc _ := rfl
  ne := by
    have := List.all_eq_true.mp end_ne_escape p hp
    simpa [delimOf] using this

end SeaQ.Token
