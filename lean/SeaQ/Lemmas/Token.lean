import SeaQ.Model.Token
namespace SeaQ.Token

theorem span_eq (p) : ∀ s, (span p s).1 ++ (span p s).2 = s
  | [] => rfl
  | c :: rest => by
    simp only [span]; split
    · simp [span_eq p rest]
    · rfl

theorem unquoted_eq (k) : ∀ s, (unquoted k s).1 ++ (unquoted k s).2 = s
  | [] => rfl
  | c :: rest => by
    simp only [unquoted]; split
    · simp [span_eq]
    · rfl

theorem qbody_eq (k start) : ∀ esc s, (qbody k start esc s).1 ++ (qbody k start esc s).2 = s
  | _, [] => rfl
  | _, [c] => rfl
  | esc, c :: n :: rest => by
    simp only [qbody]; split
    · split
      · simp [cons2, qbody_eq k start false rest]
      · rfl
    · simp [cons1, qbody_eq k start _ (n :: rest)]

theorem quoted_eq (k) : ∀ s, (quoted k s).1 ++ (quoted k s).2 = s
  | [] => rfl
  | c :: rest => by
    simp only [quoted]; split
    · simp [cons1, qbody_eq]
    · rfl

theorem punct_eq (k) : ∀ s, (punct k s).1 ++ (punct k s).2 = s
  | [] => rfl
  | c :: rest => by simp only [punct]; split <;> rfl

theorem next_eq (k) (s t r) (h : next k s = some (t, r)) : t.text ++ r = s ∧ t.text ≠ [] := by
  unfold next at h
  split at h
  · rename_i hne; cases h; exact ⟨span_eq _ _, hne⟩
  · split at h
    · rename_i hne; cases h; exact ⟨unquoted_eq _ _, hne⟩
    · split at h
      · rename_i hne; cases h; exact ⟨quoted_eq _ _, hne⟩
      · split at h
        · rename_i hne; cases h; exact ⟨punct_eq _ _, hne⟩
        · cases h

/-- progress: on a non-empty input `next` always yields a token -/
theorem next_some (k) (c : Char) (rest) : ∃ t r, next k (c :: rest) = some (t, r) := by
  unfold next
  by_cases hs : k.space c
  · have : (span k.space (c :: rest)).1 ≠ [] := by simp [span, hs]
    simp [this]
  · by_cases ha : k.alnum c
    · have h1 : (span k.space (c :: rest)).1 = [] := by simp [span, hs]
      have h2 : (unquoted k (c :: rest)).1 ≠ [] := by simp [unquoted, ha]
      simp [h1, h2]
    · have h1 : (span k.space (c :: rest)).1 = [] := by simp [span, hs]
      have h2 : (unquoted k (c :: rest)).1 = [] := by simp [unquoted, ha]
      by_cases hq : (quoted k (c :: rest)).1 ≠ []
      · simp [h1, h2, hq]
      · have h3 : (punct k (c :: rest)).1 ≠ [] := by simp [punct, hs, ha]
        simp [h1, h2, hq, h3]

theorem fuel_concat (k) : ∀ f s,
    ((tokenizeFuel k f s).1.map Token.text).flatten ++ (tokenizeFuel k f s).2 = s
  | 0, s => by simp [tokenizeFuel]
  | f+1, s => by
    unfold tokenizeFuel
    split
    · simp
    · rename_i t r h
      have := next_eq k s t r h
      simp [fuel_concat k f r, this.1, List.append_assoc]

theorem fuel_done (k) : ∀ f s, s.length ≤ f → (tokenizeFuel k f s).2 = []
  | 0, s, h => by
    have : s = [] := List.length_eq_zero_iff.mp (Nat.le_zero.mp h)
    simp [tokenizeFuel, this]
  | f+1, s, h => by
    unfold tokenizeFuel
    cases s with
    | nil => simp [next, span, unquoted, quoted, punct]
    | cons c rest =>
      obtain ⟨t, r, hn⟩ := next_some k c rest
      rw [hn]
      have := next_eq k _ t r hn
      have hl : r.length ≤ f := by
        have h1 : (t.text ++ r).length = (c :: rest).length := by rw [this.1]
        have h2 : 0 < t.text.length := List.length_pos_iff.mpr this.2
        simp at h1 h; omega
      exact fuel_done k f r hl

/-- more fuel than needed changes nothing -/
theorem fuel_mono (k) : ∀ f s, s.length ≤ f → ∀ g, f ≤ g → tokenizeFuel k g s = tokenizeFuel k f s
  | 0, s, h, g, _ => by
    have : s = [] := List.length_eq_zero_iff.mp (Nat.le_zero.mp h)
    subst this
    cases g <;> simp [tokenizeFuel, next, span, unquoted, quoted, punct]
  | f+1, s, h, g, hg => by
    obtain ⟨g', rfl⟩ : ∃ g', g = g' + 1 := ⟨g - 1, by omega⟩
    unfold tokenizeFuel
    cases hn : next k s with
    | none => rfl
    | some tr =>
      obtain ⟨t, r⟩ := tr
      have := next_eq k _ t r hn
      have hl : r.length ≤ f := by
        have h1 : (t.text ++ r).length = s.length := by rw [this.1]
        have h2 : 0 < t.text.length := List.length_pos_iff.mpr this.2
        simp at h1; omega
      simp [fuel_mono k f r hl g' (by omega)]

end SeaQ.Token
