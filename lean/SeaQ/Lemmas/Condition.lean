import SeaQ.Model.Condition
namespace SeaQ.Cond

/-! Kleene laws (finite case analysis) -/
theorem and3_assoc (a b c : K3) : and3 (and3 a b) c = and3 a (and3 b c) := by
  cases a <;> cases b <;> cases c <;> rfl
theorem or3_assoc (a b c : K3) : or3 (or3 a b) c = or3 a (or3 b c) := by
  cases a <;> cases b <;> cases c <;> rfl
@[simp] theorem and3_t (a : K3) : and3 a .t = a := by cases a <;> rfl
@[simp] theorem t_and3 (a : K3) : and3 .t a = a := by cases a <;> rfl
@[simp] theorem or3_f (a : K3) : or3 a .f = a := by cases a <;> rfl
@[simp] theorem f_or3 (a : K3) : or3 .f a = a := by cases a <;> rfl

/-- the junction of a group -/
def op (a : Bool) : K3 → K3 → K3 := if a then or3 else and3
def unit (a : Bool) : K3 := if a then .f else .t

theorem op_assoc (a : Bool) (x y z : K3) : op a (op a x y) z = op a x (op a y z) := by
  cases a <;> simp [op, and3_assoc, or3_assoc]
@[simp] theorem op_unit (a : Bool) (x : K3) : op a x (unit a) = x := by cases a <;> simp [op, unit]
@[simp] theorem unit_op (a : Bool) (x : K3) : op a (unit a) x = x := by cases a <;> simp [op, unit]

theorem evalMs_nil {α} (ρ : α → K3) (a : Bool) : evalMs ρ a .nil = unit a := by
  cases a <;> simp [evalMs, unit]
theorem evalMs_cons {α} (ρ : α → K3) (a : Bool) (h : CExpr α) (t : CList α) :
    evalMs ρ a (.cons h t) = op a (evalX ρ h) (evalMs ρ a t) := by
  cases a <;> simp [evalMs, op]

theorem evalMs_snoc {α} (ρ : α → K3) (a : Bool) (x : CExpr α) :
    ∀ ms : CList α, evalMs ρ a (ms.snoc x) = op a (evalMs ρ a ms) (evalX ρ x)
  | .nil => by simp [CList.snoc, evalMs_cons, evalMs_nil]
  | .cons h t => by simp [CList.snoc, evalMs_cons, evalMs_snoc ρ a x t, op_assoc]

theorem evalMs_append {α} (ρ : α → K3) (a : Bool) (y : CList α) :
    ∀ x : CList α, evalMs ρ a (x.append y) = op a (evalMs ρ a x) (evalMs ρ a y)
  | .nil => by simp [CList.append, evalMs_nil]
  | .cons h t => by simp [CList.append, evalMs_cons, evalMs_append ρ a y t, op_assoc]

theorem evalC_mk {α} (ρ : α → K3) (n a : Bool) (ms : CList α) :
    evalC ρ (.mk n a ms) = if n then not3 (evalMs ρ a ms) else evalMs ρ a ms := by
  simp [evalC]

/-- unwrapping a single-member non-negated group preserves meaning -/
theorem evalX_unwrap1 {α} (ρ : α → K3) (x : CExpr α) : evalX ρ (unwrap1 x) = evalX ρ x := by
  unfold unwrap1
  split
  · rename_i a m
    simp [evalX, evalC_mk, evalMs_cons, evalMs_nil]
  · rfl

theorem evalE_op {α} (ρ : α → K3) (a : Bool) (x y : E α) :
    evalE ρ (if a then E.or x y else E.and x y) = op a (evalE ρ x) (evalE ρ y) := by
  cases a <;> simp [evalE, op]

end SeaQ.Cond
