import SeaQ.Model.Render
/-!
Parentheses are balanced in everything the statement renderer writes.

`scan n ps`: the nesting depth after reading the renderer text and raw text of `ps` starting at
depth `n` (`none` = a closing parenthesis without an opening one).  Values, identifiers and string
literals are read by the engine as single tokens (C01, C03, C04), so only `.s` and `.raw` pieces count.

`Bk k ps`: reading `ps` raises the depth by exactly `k` from every start depth — unless the list
contains caller-supplied raw text that is itself unbalanced or a template mark (`bad`), about which
nothing is claimed.  `B = Bk 0`.
-/
namespace SeaQ.Balance
open SeaQ.Escape SeaQ.Render SeaQ.Stmt

def scanC : Nat → List Char → Option Nat
  | n, [] => some n
  | n, c :: r =>
    if c = '(' then scanC (n + 1) r
    else if c = ')' then (match n with | 0 => none | m + 1 => scanC m r)
    else scanC n r

def scanP (n : Nat) : Piece → Option Nat
  | .s t => scanC n t.toList
  | .raw t => scanC n t
  | _ => some n

def scan : Nat → Pieces → Option Nat
  | n, [] => some n
  | n, p :: r => (scanP n p).bind (fun m => scan m r)

/-- caller-supplied raw text that is empty (the template mark) or not balanced on its own -/
def badP : Piece → Bool
  | .raw t => t.isEmpty || scanC 0 t != some 0
  | _ => false

def bad (ps : Pieces) : Bool := ps.any badP

def Bk (k : Nat) (ps : Pieces) : Prop := bad ps = true ∨ ∀ n, scan n ps = some (n + k)
abbrev B (ps : Pieces) : Prop := Bk 0 ps

theorem scanC_shift : ∀ (t : List Char) (n m k : Nat), scanC n t = some m → scanC (n + k) t = some (m + k) := by
  intro t
  induction t with
  | nil => intro n m k h; simp [scanC] at h ⊢; omega
  | cons c r ih =>
    intro n m k h
    simp only [scanC] at h ⊢
    split
    · rename_i hc; simp only [hc, ↓reduceIte] at h
      have := ih (n + 1) m k h
      rwa [show n + 1 + k = n + k + 1 by omega] at this
    · split
      · rename_i hc1 hc2
        simp only [hc2, ↓reduceIte] at h
        cases n with
        | zero => simp at h
        | succ j =>
          simp only at h
          rw [show j + 1 + k = (j + k) + 1 by omega]
          exact ih j m k h
      · rename_i hc1 hc2
        simp only [hc1, hc2, ↓reduceIte] at h
        exact ih n m k h

theorem scan_append : ∀ (a b : Pieces) (n : Nat), scan n (a ++ b) = (scan n a).bind (fun m => scan m b) := by
  intro a
  induction a with
  | nil => intro b n; rfl
  | cons p r ih =>
    intro b n
    simp only [List.cons_append, scan]
    cases scanP n p with
    | none => rfl
    | some m => simp [ih]

theorem bad_append (a b : Pieces) : bad (a ++ b) = (bad a || bad b) := by simp [bad]

theorem Bk.app {j k : Nat} {a b : Pieces} (ha : Bk j a) (hb : Bk k b) : Bk (j + k) (a ++ b) := by
  cases ha with
  | inl h => left; simp [bad_append, h]
  | inr ha =>
    cases hb with
    | inl h => left; simp [bad_append, h]
    | inr hb => right; intro n; simp [scan_append, ha n, hb (n + j)]; omega

theorem B.app {a b : Pieces} (ha : B a) (hb : B b) : B (a ++ b) := Bk.app (j := 0) (k := 0) ha hb
theorem Bk.appB {j : Nat} {a b : Pieces} (ha : Bk j a) (hb : B b) : Bk j (a ++ b) := Bk.app (k := 0) ha hb
theorem B.appk {k : Nat} {a b : Pieces} (ha : B a) (hb : Bk k b) : Bk k (a ++ b) := by
  have := Bk.app (j := 0) ha hb; simpa using this

/-- a closing piece list -/
def Cl (r : Pieces) : Prop := ∀ n, scan (n + 1) r = some n

theorem Bk.close {j : Nat} {a r : Pieces} (ha : Bk (j + 1) a) (hr : Cl r) : Bk j (a ++ r) := by
  cases ha with
  | inl h => left; simp [bad_append, h]
  | inr ha => right; intro n; simp [scan_append, ha n]; exact hr (n + j)

theorem B_nil : B [] := Or.inr (fun _ => rfl)
theorem B_raw (t : List Char) : B [.raw t] := by
  by_cases h : badP (.raw t) = true
  · left; simp [bad, h]
  · right
    intro n
    simp only [badP, Bool.or_eq_true, not_or, Bool.not_eq_true, bne_eq_false_iff_eq] at h
    have := scanC_shift t 0 0 n h.2
    simpa [scan, scanP] using this
theorem B_piece (p : Piece) (h : scanP 0 p = some 0) : B [p] := by
  right; intro n
  cases p with
  | s t => have := scanC_shift t.toList 0 0 n h; simpa [scan, scanP] using this
  | raw t => have := scanC_shift t 0 0 n h; simpa [scan, scanP] using this
  | _ => simp [scan, scanP]
theorem B_ite {c : Prop} [Decidable c] {a b : Pieces} (ha : B a) (hb : B b) : B (if c then a else b) := by
  split <;> assumption
theorem Bk_ite {k : Nat} {c : Prop} [Decidable c] {a b : Pieces} (ha : Bk k a) (hb : Bk k b) : Bk k (if c then a else b) := by
  split <;> assumption

/-- text that opens `k` parentheses more than it closes, never going below its start -/
theorem Bk_S (t : String) (k : Nat) (h : scanC 0 t.toList = some k) : Bk k [S t] := by
  right; intro n
  have := scanC_shift t.toList 0 k n h
  simpa [scan, scanP, S, Nat.add_comm] using this
theorem B_S (t : String) (h : scanC 0 t.toList = some 0) : B [S t] := Bk_S t 0 h
theorem Cl_S (t : String) (h : scanC 1 t.toList = some 0) : Cl [S t] := by
  intro n
  have := scanC_shift t.toList 1 0 n h
  simpa [scan, scanP, S, Nat.add_comm] using this

/-- `( x )` -/
theorem B.paren {x : Pieces} (hx : B x) : B ([S "("] ++ x ++ [S ")"]) :=
  Bk.close (j := 0) (Bk.appB (Bk_S "(" 1 (by decide)) hx) (Cl_S ")" (by decide))

theorem scanP_shift (p : Piece) (n m k : Nat) (h : scanP n p = some m) : scanP (n + k) p = some (m + k) := by
  cases p with
  | s t => exact scanC_shift t.toList n m k h
  | raw t => exact scanC_shift t n m k h
  | id x => simp only [scanP, Option.some.injEq] at h ⊢; omega
  | c v => simp only [scanP, Option.some.injEq] at h ⊢; omega
  | p v => simp only [scanP, Option.some.injEq] at h ⊢; omega
  | bad => simp only [scanP, Option.some.injEq] at h ⊢; omega

theorem scan_shift : ∀ (ps : Pieces) (n m k : Nat), scan n ps = some m → scan (n + k) ps = some (m + k) := by
  intro ps
  induction ps with
  | nil => intro n m k h; simp only [scan, Option.some.injEq] at h ⊢; omega
  | cons p r ih =>
    intro n m k h
    simp only [scan] at h ⊢
    cases hp : scanP n p with
    | none => simp [hp] at h
    | some j =>
      rw [hp] at h
      rw [scanP_shift p n j k hp]
      exact ih j m k h

/-- an explicit piece list: evaluate once from depth 0 (closed computation, `rfl`) -/
theorem Bk_of (ps : Pieces) (k : Nat) (h : scan 0 ps = some k) : Bk k ps := by
  right; intro n
  have := scan_shift ps 0 k n h
  simpa [Nat.add_comm] using this
theorem Cl_of (ps : Pieces) (h : scan 1 ps = some 0) : Cl ps := by
  intro n
  have := scan_shift ps 1 0 n h
  simpa [Nat.add_comm] using this


/-! ### template expansions -/

/-- the template mark -/
theorem B_mark : B [.raw []] := Or.inl (by decide)
theorem B_bad : B [.bad] := B_piece .bad rfl

theorem getD_cases {α} (l : List α) (i : Nat) (dflt : α) : l.getD i dflt ∈ l ∨ l.getD i dflt = dflt := by
  simp only [List.getD_eq_getElem?_getD]
  cases h : l[i]? with
  | none => right; rfl
  | some x => left; simpa using List.mem_of_getElem? h

/-- literal chunks and the renderings of the supplied expressions -/
theorem B_flatMap_template (rendered : List Pieces) (hr : ∀ ps ∈ rendered, B ps) :
    ∀ l : List Template.Piece, B (l.flatMap (fun | .lit s => [Piece.raw s] | .val i => rendered.getD i [.bad]))
  | [] => B_nil
  | .lit s :: r => by
    simp only [List.flatMap_cons]
    exact B.app (B_raw s) (B_flatMap_template rendered hr r)
  | .val i :: r => by
    simp only [List.flatMap_cons]
    refine B.app ?_ (B_flatMap_template rendered hr r)
    rcases getD_cases rendered i [.bad] with h | h
    · exact hr _ h
    · rw [h]; exact B_bad

theorem B_template {d : Backend} (t : String) (rendered : List Pieces) (hr : ∀ ps ∈ rendered, B ps) :
    B (rTemplate d t rendered) := by
  simp only [rTemplate]
  split
  · exact B_bad
  · exact B_flatMap_template rendered hr _

macro "bal" : tactic => `(tactic| first | exact Bk_of _ _ (by rfl) | exact Cl_of _ (by rfl))

end SeaQ.Balance
