import SeaQ.Lemmas.PrattMono
namespace SeaQ.Pratt

mutual
  def Ex.size : Ex → Nat
    | .atom _ => 1
    | .un e => e.size + 1
    | .bin l _ r => l.size + r.size + 1
    | .node _ args => args.size + 1
  def ExList.size : ExList → Nat
    | .nil => 1
    | .cons h t => h.size + t.size + 1
end

/-- level of the operator that produced the expression when it is read bare -/
def topOf (t : Tbl) : Ex → Option Nat
  | .bin _ o _ => some (t.lbp o)
  | _ => none

/-- `bin _ o r` is printed in the mixfix form `o a SEP b` when the printer knows `o` as a
ternary encoding with separator `s` and `r = bin a s b` -/
def mixParts (p : Policy) (o : Nat) (r : Ex) : Option (Ex × Nat × Ex) :=
  match p.mixOf o, r with
  | some s, .bin a s' b => if s' = s then some (a, s, b) else none
  | _, _ => none

theorem mixParts_some {p : Policy} {o : Nat} {r a b : Ex} {s : Nat}
    (h : mixParts p o r = some (a, s, b)) : p.mixOf o = some s ∧ r = .bin a s b := by
  unfold mixParts at h
  split at h
  · rename_i s0 a0 s' b0 hm
    split at h
    · rename_i hc
      simp only [Option.some.injEq, Prod.mk.injEq] at h
      obtain ⟨rfl, rfl, rfl⟩ := h
      exact ⟨hm, by rw [hc]⟩
    · cases h
  · cases h

theorem pr_bin_reg {p : Policy} {l r : Ex} {o : Nat} (h : mixParts p o r = none) :
    pr p (.bin l o r) = wrap (p.dropL o l) (pr p l) ++ Tok.op o :: wrap (p.dropR o r) (pr p r) := by
  cases r with
  | bin a s b =>
    have hne : ¬ p.mixOf o = some s := by
      intro hm
      simp [mixParts, hm] at h
    simp [pr, hne]
  | atom a => simp [pr]
  | un y => simp [pr]
  | node k args => simp [pr]

theorem pr_bin_mix {p : Policy} {l a b : Ex} {o s : Nat} (h : p.mixOf o = some s) :
    pr p (.bin l o (.bin a s b)) = wrap (p.dropL o l) (pr p l) ++ Tok.op o ::
      (wrap (p.dropML o a) (pr p a) ++ Tok.op s :: wrap (p.dropMR o b) (pr p b)) := by
  simp [pr, h]

/-- a following operator token `q` is not captured anywhere down the bare right spine -/
inductive StopsOp (t : Tbl) (p : Policy) (q : Nat) : Ex → Prop where
  | atom (a) : StopsOp t p q (.atom a)
  | node (k args) : StopsOp t p q (.node k args)
  | un (y) : (t.infx q = true → t.lbp q < t.nbp) → (p.dropN y = true → StopsOp t p q y) →
      StopsOp t p q (.un y)
  | binReg (l o r) : mixParts p o r = none → (t.infx q = true → t.lbp q < t.rbp o) →
      t.mix o ≠ some q → (p.dropR o r = true → StopsOp t p q r) → StopsOp t p q (.bin l o r)
  | binMix (l o r a s b) : mixParts p o r = some (a, s, b) →
      (t.infx q = true → t.lbp q < t.rbp2 o) → (p.dropMR o b = true → StopsOp t p q b) →
      StopsOp t p q (.bin l o r)

/-- every operator exposed on the bare left spine can be absorbed at level `m` -/
inductive Fits (t : Tbl) (p : Policy) (m : Nat) : Ex → Prop where
  | atom (a) : Fits t p m (.atom a)
  | un (y) : Fits t p m (.un y)
  | node (k args) : Fits t p m (.node k args)
  | bin (l o r) : t.infx o = true → m ≤ t.lbp o → (p.dropL o l = true → Fits t p m l) →
      Fits t p m (.bin l o r)

/-- a bare left child `l` of `o` does not form a non-associative chain -/
def ChainOK (t : Tbl) (o : Nat) (l : Ex) : Prop := ¬ (t.nonassoc o = true ∧ topOf t l = some (t.lbp o))

mutual
  /-- every parenthesis the printer omitted in the expression is licensed by the table -/
  inductive Lic (t : Tbl) (p : Policy) : Ex → Prop where
    | atom (a) : Lic t p (.atom a)
    | un (y) : Lic t p y → (p.dropN y = true → Fits t p t.nbp y) → Lic t p (.un y)
    | node (k args) : LicL t p args → Lic t p (.node k args)
    | binReg (l o r) : mixParts p o r = none → (t.mix o = none ∨ t.mand o = false) →
        t.infx o = true → Lic t p l → Lic t p r →
        (p.dropL o l = true → StopsOp t p o l ∧ ChainOK t o l) →
        (p.dropR o r = true → Fits t p (t.rbp o) r) →
        Lic t p (.bin l o r)
    | binMix (l o r a s b) : mixParts p o r = some (a, s, b) → t.mix o = some s →
        t.infx o = true → Lic t p l → Lic t p a → Lic t p b →
        (t.infx s = true → t.lbp s < t.rbp o) →
        (p.dropL o l = true → StopsOp t p o l ∧ ChainOK t o l) →
        (p.dropML o a = true → Fits t p (t.rbp o) a ∧ StopsOp t p s a) →
        (p.dropMR o b = true → Fits t p (t.rbp2 o) b) →
        Lic t p (.bin l o r)
  inductive LicL (t : Tbl) (p : Policy) : ExList → Prop where
    | nil : LicL t p .nil
    | cons (h tl) : Lic t p h → LicL t p tl → LicL t p (.cons h tl)
end

def StopsAt (t : Tbl) (p : Policy) (e : Ex) : List Tok → Prop
  | Tok.op q :: _ => StopsOp t p q e
  | _ => True

/-- the next token is not an operator the loop would absorb at level `m` -/
def NoAbsorb (t : Tbl) (m : Nat) : List Tok → Prop
  | Tok.op o :: _ => ¬ (t.infx o = true ∧ m ≤ t.lbp o)
  | _ => True

theorem absorb_true {t : Tbl} {m top o} (hi : t.infx o = true) (hm : m ≤ t.lbp o)
    (hc : ¬ (t.nonassoc o = true ∧ top = some (t.lbp o))) : absorb t m top o = some true := by
  unfold absorb
  simp only [hi, hm, decide_true, Bool.and_self, if_true]
  by_cases hn : t.nonassoc o = true
  · have : ¬ top = some (t.lbp o) := fun e => hc ⟨hn, e⟩
    simp [hn, this]
  · simp [hn]

theorem absorb_false {t : Tbl} {m top o} (h : ¬ (t.infx o = true ∧ m ≤ t.lbp o)) :
    absorb t m top o = some false := by
  unfold absorb
  by_cases hi : t.infx o = true
  · have : ¬ m ≤ t.lbp o := fun e => h ⟨hi, e⟩
    simp [hi, this]
  · simp [hi]

/-- if the next token is not an absorbable operator the loop returns at once -/
theorem loop_stop (t : Tbl) (f m : Nat) (top : Option Nat) (e : Ex) (rest : List Tok)
    (h : NoAbsorb t m rest) : loop t (f+1) m top e rest = some (e, rest) := by
  unfold loop
  cases rest with
  | nil => rfl
  | cons tk rest' =>
    cases tk with
    | op o => simp only [absorb_false h]
    | atom a => rfl
    | not => rfl
    | lp => rfl
    | rp => rfl
    | opn k => rfl
    | cls => rfl
    | comma => rfl

theorem fits_zero_of_lic (t : Tbl) (p : Policy) : ∀ e, Lic t p e → Fits t p 0 e
  | .atom a, _ => .atom a
  | .un y, _ => .un y
  | .node k args, _ => .node k args
  | .bin l o r, h => by
    cases h with
    | binReg _ _ _ _ _ hi hl _ _ _ =>
      exact .bin l o r hi (Nat.zero_le _) (fun _ => fits_zero_of_lic t p l hl)
    | binMix _ _ _ a s b _ _ hi hl _ _ _ _ _ _ =>
      exact .bin l o r hi (Nat.zero_le _) (fun _ => fits_zero_of_lic t p l hl)

end SeaQ.Pratt
