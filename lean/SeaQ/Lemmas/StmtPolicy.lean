import SeaQ.Props.C05
import SeaQ.Model.Render
/-!
# C05 at the statement renderer: definitions and the finite obligations

(see `Props/C05Stmt` for the theorems)

`Props/C05` proves `parse ∘ print = id` for the abstract printer `Pratt.pr` under the
parenthesis policy *observed* from the crate (`Gen/Policy`, cells indexed by outer operator,
child kind and side).  The statement model (`Model/Render.rEx`, tied to the crate by the
statement correspondence of C01 / C02 / C07 / C08) makes its own parenthesis decisions
(`greater`, `leftAssoc`, the BETWEEN / LIKE .. ESCAPE / AS special cases).  This file links the
two:

* `agree*` — finite obligations (kernel-evaluated): for every operator of the dialect and
  every child kind, the decision the statement renderer takes is the observed cell;
* `stmt_prints_as_pratt` — for EVERY operator tree `pe` (any depth) over arbitrary leaves, the
  statement renderer writes for `conc pe` exactly the concretisation of the token list
  `Pratt.pr (observed policy) pe` (same text, same pieces up to the chunking of renderer
  text), so the policy really is a function of (outer, kind, side) for the renderer that
  C01 / C02 / C08 reason about;
* `stmt_roundtrip_*` — hence the tokens the statement renderer writes for an operator tree
  re-parse, under the engine's table, to that tree (C05 for the statement model).

Leaves are arbitrary statement-model expressions of the right shape class (columns, values,
constants, keywords, CASE, sub-queries, function calls, casts for the "atomic" classes;
`Expr::cust`; templates / value lists / enum casts for the always-parenthesised class).
-/
namespace SeaQ.Props.C05Stmt
open SeaQ.Escape SeaQ.Stmt SeaQ.Render

abbrev Tok := Pratt.Tok
abbrev Kind := Pratt.Kind

def cellsOf : Backend → Pratt.Cells
  | .mysql => Gen.Policy.mysqlCells
  | .postgres => Gen.Policy.postgresCells
  | .sqlite => Gen.Policy.sqliteCells

def opsOf : Backend → List Nat
  | .mysql => Gen.Policy.mysqlOps
  | .postgres => Gen.Policy.postgresOps
  | .sqlite => Gen.Policy.sqliteOps

def tblOf : Backend → Pratt.Tbl
  | .mysql => Dialects.mysql
  | .postgres => Dialects.postgres
  | .sqlite => Dialects.sqlite

/-- how an operator tree is made concrete: leaves, the function of call nodes, the text of the
custom operator (number 27) -/
structure Env where
  leaf : Nat → Ex
  fn : Fn
  cop : String

def opOf (cop : String) (o : Nat) : Op := if o == 27 then .custom cop else .std o

/-- shape class of a leaf (`a % 8` of the atom number): 0–3 primary expressions the policy
treats as atomic, 4 `Expr::cust`, 5.. expressions that are always parenthesised -/
def leafOK (cls : Nat) (e : Ex) : Bool :=
  if cls ≤ 3 then shapeOf e == .atomic && !isEmptyTuple e
  else if cls == 4 then isCustom e
  else match e with
    | .values _ | .custWith _ _ | .asEnum _ _ => true
    | _ => false

mutual
  /-- the statement-model expression of an operator tree: node 0 is a tuple, any other node a
  function call -/
  def conc (ρ : Env) : Pratt.Ex → Ex
    | .atom a => ρ.leaf a
    | .un x => .unary (conc ρ x)
    | .bin l o r => .bin (conc ρ l) (opOf ρ.cop o) (conc ρ r)
    | .node k args => if k == 0 then .tuple (concL ρ args) else .func ρ.fn [] (concL ρ args)
  def concL (ρ : Env) : Pratt.ExList → ExList
    | .nil => .nil
    | .cons h t => .cons (conc ρ h) (concL ρ t)
end

def isNilP : Pratt.ExList → Bool
  | .nil => true
  | _ => false

mutual
  /-- the trees covered: operators of the dialect; nodes are tuples (0) and function calls (1); an empty tuple is excluded (`IN ()` is
  rewritten to `1 = 2` by the crate, C08's business) -/
  def inFrag (ops : List Nat) : Pratt.Ex → Bool
    | .atom _ => true
    | .un x => inFrag ops x
    | .bin l o r => ops.contains o && inFrag ops l && inFrag ops r
    | .node k args => decide (k ≤ 1) && (k != 0 || !isNilP args) && inFragL ops args
  def inFragL (ops : List Nat) : Pratt.ExList → Bool
    | .nil => true
    | .cons h t => inFrag ops h && inFragL ops t
end

/-- the text of a token -/
def tok (d : Backend) (ρ : Env) : Tok → Pieces
  | .atom a => rEx d (ρ.leaf a)
  | .op o => [S " "] ++ rOp d (opOf ρ.cop o) ++ [S " "]
  | .not => [S "NOT", S " "]
  | .lp => [S "("]
  | .rp => [S ")"]
  | .opn k => if k == 0 then [S "("] else rFn d ρ.fn ++ [S "("]
  | .cls => [S ")"]
  | .comma => [S ", "]

def toks (d : Backend) (ρ : Env) (ts : List Tok) : Pieces := ts.flatMap (tok d ρ)

/-- pieces up to the chunking of verbatim text -/
def chars : Piece → Pieces
  | .s t => t.toList.map (fun c => .raw [c])
  | .raw t => t.map (fun c => .raw [c])
  | x => [x]

def canon (ps : Pieces) : Pieces := ps.flatMap chars

@[simp] theorem canon_nil : canon [] = [] := rfl
@[simp] theorem canon_append (a b : Pieces) : canon (a ++ b) = canon a ++ canon b := by
  simp [canon]
theorem canon_cons (p : Piece) (b : Pieces) : canon (p :: b) = chars p ++ canon b := by
  simp [canon]

@[simp] theorem toks_nil (d : Backend) (ρ : Env) : toks d ρ [] = [] := rfl
@[simp] theorem toks_append (d : Backend) (ρ : Env) (a b : List Tok) :
    toks d ρ (a ++ b) = toks d ρ a ++ toks d ρ b := by simp [toks]
@[simp] theorem toks_cons (d : Backend) (ρ : Env) (t : Tok) (b : List Tok) :
    toks d ρ (t :: b) = tok d ρ t ++ toks d ρ b := by simp [toks]

/-! ### both writers see only the canonical form -/

theorem textI_chars (d : Backend) (t : List Char) (r : Pieces) :
    textI d (t.map (fun c => Piece.raw [c]) ++ r) = t ++ textI d r := by
  induction t with
  | nil => rfl
  | cons c t ih => simp [textI, ih]

theorem textI_canon (d : Backend) : ∀ ps : Pieces, textI d (canon ps) = textI d ps
  | [] => rfl
  | p :: r => by
    rw [canon_cons]
    cases p <;> simp [chars, textI, textI_chars, textI_canon d r]

theorem textPFrom_chars (d : Backend) (k : Nat) (t : List Char) (r : Pieces) :
    textPFrom d k (t.map (fun c => Piece.raw [c]) ++ r) =
      (t ++ (textPFrom d k r).1, (textPFrom d k r).2) := by
  induction t with
  | nil => rfl
  | cons c t ih => simp [textPFrom, ih]

theorem textPFrom_canon (d : Backend) : ∀ (ps : Pieces) (k : Nat),
    textPFrom d k (canon ps) = textPFrom d k ps
  | [], _ => rfl
  | p :: r, k => by
    rw [canon_cons]
    cases p <;> simp [chars, textPFrom, textPFrom_chars, textPFrom_canon d r]

/-- equal canonical forms: same inline text, same parameterised text, same bound values -/
theorem texts_of_canon {d : Backend} {a b : Pieces} (h : canon a = canon b) :
    textI d a = textI d b ∧ textP d a = textP d b := by
  constructor
  · rw [← textI_canon d a, ← textI_canon d b, h]
  · unfold textP; rw [← textPFrom_canon d a, ← textPFrom_canon d b, h]

/-! ### what the renderer's decisions look at, as a function of the child's kind -/

def shapeK (cop : String) : Kind → Shape
  | .atom c => if c ≤ 3 then .atomic else .other
  | .un => .other
  | .bin i => .bin (opOf cop i)
  | .node _ => .atomic

def kindBin (cop : String) (k : Kind) (q : Op → Bool) : Bool :=
  match k with
  | .bin i => q (opOf cop i)
  | _ => false

/-- the decisions of `binary_expr` / the `Unary` arm as written in `Model/Render` -/
def mDropL (d : Backend) (cop : String) (o : Nat) (k : Kind) : Bool :=
  greater d (shapeK cop k) (.bin (opOf cop o)) || (k == .bin o && leftAssoc d (opOf cop o))
def mDropR (d : Backend) (cop : String) (o : Nat) (k : Kind) : Bool :=
  greater d (shapeK cop k) (.bin (opOf cop o)) ||
    ((Oper.bin (opOf cop o)).takesEscape && k == .bin 26) || (o == 25 && k == .atom 4)
def mDropN (d : Backend) (cop : String) (k : Kind) : Bool := greater d (shapeK cop k) .un
def mBound (d : Backend) (cop : String) (o : Nat) (k : Kind) : Bool :=
  greater d (shapeK cop k) (.bin (opOf cop o))

/-! the text of the custom operator plays no part in any decision -/

theorem isStd_opOf (cop : String) (o : Nat) (p : Nat → Bool) :
    (opOf cop o).isStd p = (o != 27 && p o) := by
  unfold opOf; split <;> simp_all [Op.isStd]

theorem greater_cop (d : Backend) (cop : String) (o : Nat) (k : Kind) :
    greater d (shapeK cop k) (.bin (opOf cop o)) = greater d (shapeK "" k) (.bin (opOf "" o)) := by
  cases d <;> cases k <;>
    simp [greater, greaterCommon, shapeK, isPgComparison, Oper.isLogical, Oper.isBin, Oper.isBetween,
      Oper.isLike, Oper.isIn, Oper.isIs, Oper.isShift, Oper.isArithmetic, Oper.isComparison, isStd_opOf]

theorem greaterN_cop (d : Backend) (cop : String) (k : Kind) :
    greater d (shapeK cop k) .un = greater d (shapeK "" k) .un := by
  cases d <;> cases k <;>
    simp [greater, greaterCommon, shapeK, isPgComparison, Oper.isLogical, Oper.isBin, Oper.isBetween,
      Oper.isLike, Oper.isIn, Oper.isIs, Oper.isShift, Oper.isArithmetic, Oper.isComparison, isStd_opOf]

theorem leftAssoc_cop (d : Backend) (cop : String) (o : Nat) :
    leftAssoc d (opOf cop o) = leftAssoc d (opOf "" o) := by
  simp [leftAssoc, isStd_opOf]

theorem mDropL_cop (d : Backend) (cop : String) (o : Nat) (k : Kind) : mDropL d cop o k = mDropL d "" o k := by
  simp only [mDropL, greater_cop d cop, leftAssoc_cop d cop]
theorem mDropR_cop (d : Backend) (cop : String) (o : Nat) (k : Kind) : mDropR d cop o k = mDropR d "" o k := by
  simp only [mDropR, greater_cop d cop, Oper.takesEscape, Oper.isBin, isStd_opOf]
theorem mDropN_cop (d : Backend) (cop : String) (k : Kind) : mDropN d cop k = mDropN d "" k := by
  simp only [mDropN, greaterN_cop d cop]
theorem mBound_cop (d : Backend) (cop : String) (o : Nat) (k : Kind) : mBound d cop o k = mBound d "" o k := by
  simp only [mBound, greater_cop d cop]

/-! ### the finite obligations: the renderer's decisions are the observed cells -/

def kindsOf (d : Backend) : List Kind :=
  [.atom 0, .atom 1, .atom 2, .atom 3, .atom 4, .atom 5, .atom 6, .atom 7, .un, .node 0, .node 1] ++
    (opsOf d).map .bin

def mixN (o : Nat) : Option Nat :=
  if o == 8 || o == 9 then some 0 else if o == 2 || o == 3 || o == 30 || o == 31 then some 26 else none

/-- the child is not the separator node of the ternary form of `o` -/
def regular (o : Nat) (k : Kind) : Bool :=
  match mixN o with
  | some s => k != .bin s
  | none => true

theorem agreeMix (d : Backend) : ∀ o ∈ opsOf d, (cellsOf d).mixOf o = mixN o := by
  cases d <;> decide +kernel
theorem agreeL (d : Backend) : ∀ o ∈ opsOf d, ∀ k ∈ kindsOf d, mDropL d "" o k = (cellsOf d).dropL o k := by
  cases d <;> decide +kernel
theorem agreeR (d : Backend) : ∀ o ∈ opsOf d, ∀ k ∈ kindsOf d, regular o k = true →
    mDropR d "" o k = (cellsOf d).dropR o k := by
  cases d <;> decide +kernel
theorem agreeN (d : Backend) : ∀ k ∈ kindsOf d, mDropN d "" k = (cellsOf d).dropN k := by
  cases d <;> decide +kernel
/-- BETWEEN bounds -/
theorem agreeB (d : Backend) : ∀ o ∈ [8, 9], ∀ k ∈ kindsOf d,
    mBound d "" o k = (cellsOf d).dropML o k ∧ mBound d "" o k = (cellsOf d).dropMR o k := by
  cases d <;> decide +kernel
/-- LIKE .. ESCAPE operands: the cells of the ESCAPE node -/
theorem agreeE (d : Backend) : ∀ o ∈ [2, 3, 30, 31], o ∈ opsOf d → ∀ k ∈ kindsOf d,
    (cellsOf d).dropML o k = (cellsOf d).dropL 26 k ∧ (cellsOf d).dropMR o k = (cellsOf d).dropR 26 k := by
  cases d <;> decide +kernel

end SeaQ.Props.C05Stmt
