import SeaQ.Model.Token
namespace SeaQ.Token

def distinctKeys : List (Char × Char) → Bool
  | [] => true
  | p :: r => !(r.any (fun q => q.1 == p.1)) && distinctKeys r

theorem lookupPair_nokey (tbl : List (Char × Char)) (a c : Char)
    (h : tbl.any (fun q => q.1 == a) = false) : lookupPair tbl a c = false := by
  induction tbl with
  | nil => rfl
  | cons p r ih =>
    simp only [List.any_cons, Bool.or_eq_false_iff] at h
    simp [lookupPair, h.1] 
    intro x y hx hxa
    have := h.2
    simp at this
    exact absurd hxa (this x y hx)

theorem lookupPair_mem (tbl : List (Char × Char)) (hd : distinctKeys tbl = true) (a b : Char)
    (hm : (a, b) ∈ tbl) (c : Char) : lookupPair tbl a c = (c == b) := by
  induction tbl with
  | nil => cases hm
  | cons p r ih =>
    simp only [distinctKeys, Bool.and_eq_true, Bool.not_eq_true'] at hd
    rcases List.mem_cons.mp hm with rfl | hm'
    · have h0 := lookupPair_nokey r a c (by simpa using hd.1)
      simp only [lookupPair] at h0
      simp only [lookupPair, List.any_cons, h0, Bool.or_false, beq_self_eq_true, Bool.true_and]
      exact Bool.beq_comm
    · have hne : (p.1 == a) = false := by
        have h1 := hd.1
        simp at h1
        have h2 := h1 a b hm'
        exact beq_false_of_ne (fun e => h2 e.symm)
      have := ih hd.2 hm'
      simp only [lookupPair] at this
      simp [lookupPair, hne, this]

end SeaQ.Token
