import SeaQ.Lemmas.RenderBalance
import SeaQ.Lemmas.Scan
import SeaQ.Model.Ddl
/-!
Balanced parentheses for everything the schema-statement renderer writes (`Model/Ddl.lean`).
-/
namespace SeaQ.Balance
open SeaQ.Escape SeaQ.Render SeaQ.Stmt SeaQ.Ddl

theorem scanC_noparen : ∀ (t : List Char) (n : Nat), (∀ c ∈ t, c ≠ '(' ∧ c ≠ ')') → scanC n t = some n := by
  intro t
  induction t with
  | nil => intro n _; rfl
  | cons c r ih =>
    intro n h
    have hc := h c (List.mem_cons_self)
    simp only [scanC, hc.1, hc.2, ↓reduceIte]
    exact ih n (fun x hx => h x (List.mem_cons_of_mem _ hx))

theorem scanC_natText (k n : Nat) : scanC n (natText k) = some n := by
  apply scanC_noparen
  intro c hc
  have hd := SeaQ.Scan.natText_all_digits k c hc
  constructor <;> (intro h; rw [h] at hd; revert hd; decide)

theorem B_num (k : Nat) : B [num k] := by
  right; intro n; simp [scan, scanP, num, scanC_natText]

open SeaQ.Gen.ColTypes in
def tplScan : Nat → List Seg → Option Nat
  | n, [] => some n
  | n, .lit s :: r => (scanC n s.toList).bind (fun m => tplScan m r)
  | n, .par _ :: r => tplScan n r

open SeaQ.Gen.ColTypes in
theorem scan_segPieces (ρ : String → Nat) : ∀ (t : List Seg) (n : Nat), scan n (segPieces ρ t) = tplScan n t := by
  intro t
  induction t with
  | nil => intro n; rfl
  | cons x r ih =>
    intro n
    cases x with
    | lit s => simp only [segPieces, scan, scanP, S, tplScan]; cases scanC n s.toList <;> simp [ih]
    | par p => simp [segPieces, scan, scanP, num, tplScan, scanC_natText, ih]

open SeaQ.Gen.ColTypes in
def tableBal (table : List Arm) : Bool := table.all (fun a => a.templates.all (fun t => tplScan 0 t == some 0))

open SeaQ.Gen.ColTypes in
theorem b_fromTable (table : List Arm) (ht : tableBal table = true) (v : String) (i : Nat) (ρ : String → Nat) :
    B (fromTable table v i ρ) := by
  unfold fromTable
  cases hf : findArm table v with
  | none => exact B_bad
  | some a =>
    simp only
    cases hg : a.templates[i]? with
    | none => exact B_bad
    | some t =>
      simp only
      have ha : a ∈ table := List.mem_of_find?_eq_some hf
      have htm : t ∈ a.templates := List.mem_of_getElem? hg
      simp only [tableBal, List.all_eq_true, beq_iff_eq] at ht
      exact Bk_of _ 0 (by rw [scan_segPieces]; exact ht a ha t htm)

theorem mysql_tableBal : tableBal SeaQ.Gen.ColTypes.mysql = true := by decide
theorem postgres_tableBal : tableBal SeaQ.Gen.ColTypes.postgres = true := by decide
theorem sqlite_tableBal : tableBal SeaQ.Gen.ColTypes.sqlite = true := by decide
theorem serial_tableBal : tableBal SeaQ.Gen.ColTypes.postgresSerial = true := by decide

theorem e_rTable (m : Nat) (n : TName) : B (rTable m n) := by
  unfold rTable; exact B_ite B_bad (b_rParts _ true)
theorem e_rOptTable (m : Nat) (o : Option TName) : B (Ddl.rOptTable m o) := by
  cases o with
  | none => exact B_nil
  | some n => exact e_rTable m n

theorem B_strLit (s : String) : B [rStrLit s] := by bal

theorem e_rEnumVariants : ∀ (l : List String) (first : Bool), B (rEnumVariants first l) := by
  intro l; induction l with
  | nil => intro _; exact B_nil
  | cons v r ih => intro first; simp only [rEnumVariants]; exact B.app (B.app (b_sep first ", " (by decide)) (B_strLit v)) (ih false)

theorem e_rTypeMysql (t : ColType) : B (rTypeMysql t) := by
  have gen : ∀ t, B (fromTable SeaQ.Gen.ColTypes.mysql (variantName t) (idxMysql t).1 (idxMysql t).2 ++
      (if SeaQ.Gen.ColTypes.mysqlUnsigned.contains (variantName t) then [S " ", S "UNSIGNED"] else [])) := fun t =>
    B.app (b_fromTable _ mysql_tableBal _ _ _) (B_ite (by bal) B_nil)
  cases t
  case custom s => exact B_raw _
  case «enum» n vs =>
    simp only [rTypeMysql]
    exact Bk.close (j := 0) (Bk.appB (Bk_S "ENUM(" 1 (by decide)) (B_ite (B_strLit _) (e_rEnumVariants vs true))) (Cl_S ")" (by decide))
  all_goals exact gen _

theorem e_rTypePg : ∀ (t : ColType), B (rTypePg t) := by
  have gen : ∀ t, B (fromTable SeaQ.Gen.ColTypes.postgres (variantName t) (idxPg t).1 (idxPg t).2) := fun t =>
    b_fromTable _ postgres_tableBal _ _ _
  intro t
  induction t with
  | array e ih => simp only [rTypePg]; exact B.app ih (B_S "[]" (by decide))
  | interval f p =>
    simp only [rTypePg]
    refine B.app (B.app (B_S _ (by decide)) ?_) ?_
    · cases f with
      | none => exact B_nil
      | some i =>
        refine B.app (B_S " " (by decide)) (B_S _ ?_)
        unfold intervalFields; split <;> decide
    · cases p with
      | none => exact B_nil
      | some n => exact Bk.close (j := 0) (Bk.appB (Bk_S "(" 1 (by decide)) (B_num n)) (Cl_S ")" (by decide))
  | custom s => exact B_raw _
  | «enum» n vs => exact B_raw _
  | _ => exact gen _

theorem e_rTypeSqlite (a : Bool) (t : ColType) : B (rTypeSqlite a t) := by
  have gen : ∀ t, B (fromTable SeaQ.Gen.ColTypes.sqlite (variantName t) (idxSqlite a t).1 (idxSqlite a t).2) := fun t =>
    b_fromTable _ sqlite_tableBal _ _ _
  cases t
  case custom s => exact B_raw _
  case decimal p =>
    cases p with
    | none => simp only [rTypeSqlite]; exact gen _
    | some q => obtain ⟨x, y⟩ := q; simp only [rTypeSqlite]; exact B_ite B_bad (b_fromTable _ sqlite_tableBal _ _ _)
  all_goals (simp only [rTypeSqlite]; exact gen _)

theorem e_rType (d : Backend) (specs : List Spec) (t : ColType) : B (rType d specs t) := by
  cases d <;> simp only [rType]
  · exact e_rTypeMysql t
  · exact B_ite (b_fromTable _ serial_tableBal _ _ _) (e_rTypePg t)
  · exact e_rTypeSqlite _ t

theorem e_rCheck (d : Backend) (e : Ex) : B (rCheck d e) := by
  unfold rCheck
  exact Bk.close (j := 0) (Bk.appB (Bk_S "CHECK (" 1 (by decide)) (b_ex d e)) (Cl_S ")" (by decide))

theorem e_rSpec (d : Backend) (s : Spec) : B (rSpec d s) := by
  cases s <;> simp only [rSpec]
  case null => bal
  case notNull => bal
  case default e => exact B.app (B_S _ (by decide)) (b_ex d e)
  case autoIncrement => cases d <;> bal
  case unique => bal
  case primaryKey => bal
  case check e => exact e_rCheck d e
  case generated e st =>
    exact B.app (Bk.close (j := 0) (Bk.appB (Bk_S "GENERATED ALWAYS AS (" 1 (by decide)) (b_ex d e)) (Cl_S ")" (by decide))) (by cases st <;> bal)
  case extra x => exact B_raw _
  case comment c => exact B_ite (by bal) B_nil
  case «using» e => exact B_nil

theorem e_rSpecs (d : Backend) : ∀ (l : List Spec), B (rSpecs d l) := by
  intro l; induction l with
  | nil => exact B_nil
  | cons s r ih => simp only [rSpecs]; exact B.app (B_ite B_nil (B.app (B_S " " (by decide)) (e_rSpec d s))) ih

theorem e_rColumnDef (d : Backend) (c : Col) : B (rColumnDef d c) := by
  unfold rColumnDef
  have h1 : B (match c.ty with | some t => [S " "] ++ rType d c.specs t | none => []) := by
    cases c.ty with
    | none => exact B_nil
    | some t => exact B.app (B_S " " (by decide)) (e_rType d c.specs t)
  exact B.app (B.app (B.app (B.app (B_id c.name) h1) (e_rSpecs d c.specs)) (B_ite (by bal) B_nil)) (B_ite (by bal) B_nil)

theorem e_rColumnDefs (d : Backend) : ∀ (l : List Col) (first : Bool), B (rColumnDefs d first l) := by
  intro l; induction l with
  | nil => intro _; exact B_nil
  | cons c r ih => intro first; simp only [rColumnDefs]; exact B.app (B.app (b_sep first ", " (by decide)) (e_rColumnDef d c)) (ih false)

theorem e_rIdxCols (d : Backend) : ∀ (l : List IdxCol) (first : Bool), B (rIdxCols d first l) := by
  intro l; induction l with
  | nil => intro _; exact B_nil
  | cons c r ih =>
    intro first
    simp only [rIdxCols]
    have h2 : B (match c.pfx with | some n => if (d == Backend.sqlite) = true then [] else [S " (", num n, S ")"] | none => []) := by
      cases c.pfx with
      | none => exact B_nil
      | some n => exact B_ite B_nil (Bk.close (j := 0) (Bk.appB (Bk_S " (" 1 (by decide)) (B_num n)) (Cl_S ")" (by decide)))
    have h3 : B (match c.order with | some false => [S " ASC"] | some true => [S " DESC"] | none => []) := by
      cases c.order with
      | none => exact B_nil
      | some b => cases b <;> bal
    exact B.app (B.app (B.app (B.app (b_sep first ", " (by decide)) (B_id c.name)) h2) h3) (ih false)

theorem e_rIndexColumns (d : Backend) (cs : List IdxCol) : B (rIndexColumns d cs) := by
  unfold rIndexColumns; exact B.paren (e_rIdxCols d cs true)

theorem e_rIndexPrefix (d : Backend) (i : Index) : B (rIndexPrefix d i) := by
  cases d <;> simp only [rIndexPrefix]
  · refine B.app (B.app (B_ite (by bal) B_nil) (B_ite (by bal) B_nil)) ?_
    split <;> bal
  · exact B.app (B_ite (by bal) B_nil) (B_ite (by bal) B_nil)
  · exact B_ite (by bal) (B_ite (by bal) B_nil)

theorem e_rIndexType (d : Backend) (t : Option IndexType) : B (rIndexType d t) := by
  cases t with
  | none => exact B_nil
  | some t =>
    cases d <;> cases t <;> simp only [rIndexType] <;> first | bal | exact B.app (B_S _ (by decide)) (B_raw _)

theorem e_rInclude (cs : List String) : B (rInclude cs) := by
  unfold rInclude
  exact Bk.close (j := 0) (Bk.appB (Bk_S "INCLUDE (" 1 (by decide)) (b_rIdents cs true)) (Cl_S ")" (by decide))

theorem e_rFilter (d : Backend) (h : Holder) : B (rFilter d h) := by
  unfold rFilter; exact B_ite B_nil (b_holder d _ h (by decide))

theorem e_rTableIndex (d : Backend) (i : Index) : B (rTableIndex d i) := by
  have hcols := e_rIndexColumns d i.cols
  cases d <;> simp only [rTableIndex]
  · have h2 : B (match i.name with | some n => [Piece.id n, S " "] | none => []) := by cases i.name <;> bal
    exact B.app (B.app (B.app (B.app (B.app (e_rIndexPrefix .mysql i) (B_S _ (by decide))) h2) (e_rIndexType .mysql i.indexType))
      (B_ite (B_S _ (by decide)) B_nil)) hcols
  · have h2 : B (match i.name with | some n => [S "CONSTRAINT ", Piece.id n, S " "] | none => []) := by cases i.name <;> bal
    exact B.app (B.app (B.app (B.app h2 (e_rIndexPrefix .postgres i)) (B_ite (by bal) B_nil)) hcols)
      (B_ite B_nil (B.app (B_S " " (by decide)) (e_rInclude _)))
  · have h2 : B (match i.name with | some n => [S "CONSTRAINT ", Piece.id n, S " "] | none => []) := by cases i.name <;> bal
    exact B.app (B.app (B.app h2 (e_rIndexPrefix .sqlite i)) hcols) (e_rFilter _ _)

theorem e_rTableIndexes (d : Backend) : ∀ (l : List Index) (first : Bool), B (rTableIndexes d first l) := by
  intro l; induction l with
  | nil => intro _; exact B_nil
  | cons c r ih => intro first; simp only [rTableIndexes]; exact B.app (B.app (b_sep first ", " (by decide)) (e_rTableIndex d c)) (ih false)

theorem e_rIndexCreate (d : Backend) (i : Index) : B (rIndexCreate d i) := by
  have hcols := e_rIndexColumns d i.cols
  have hname : B (match i.name with | some n => [Piece.id n] | none => []) := by cases i.name <;> bal
  have htab := e_rOptTable (idxParts d) i.table
  have hine : B (if i.ifNotExists = true then [S "IF NOT EXISTS "] else []) := B_ite (by bal) B_nil
  have hinc : B (if i.include_.isEmpty = true then [] else [S " "] ++ rInclude i.include_) :=
    B_ite B_nil (B.app (B_S " " (by decide)) (e_rInclude _))
  have hnnd : B (if i.nullsNotDistinct = true then [S " NULLS NOT DISTINCT"] else []) := B_ite (by bal) B_nil
  cases d <;> simp only [rIndexCreate]
  · exact B.app (B.app (B.app (B.app (B.app (B.app (B.app (B.app (B_S _ (by decide)) (e_rIndexPrefix .mysql i)) (B_S _ (by decide))) hname)
      (B_S _ (by decide))) htab) (B_S _ (by decide))) hcols) (e_rIndexType _ _)
  · exact B.app (B.app (B.app (B.app (B.app (B.app (B.app (B.app (B.app (B.app (B.app (B.app (B_S _ (by decide)) (e_rIndexPrefix .postgres i)) (B_S _ (by decide))) hine) hname)
      (B_S _ (by decide))) htab) (e_rIndexType _ _)) (B_S _ (by decide))) hcols) hinc) hnnd) (e_rFilter _ _)
  · exact B.app (B.app (B.app (B.app (B.app (B.app (B.app (B.app (B.app (B_S _ (by decide)) (e_rIndexPrefix .sqlite i)) (B_S _ (by decide))) hine) hname)
      (B_S _ (by decide))) htab) (B_S _ (by decide))) hcols) (e_rFilter _ _)

theorem e_rIndexDrop (d : Backend) (name : Option String) (table : Option TName) (ie : Bool) : B (rIndexDrop d name table ie) := by
  have hname : B (match name with | some n => [Piece.id n] | none => []) := by cases name <;> bal
  have hie : B (if ie = true then [S "IF EXISTS "] else []) := B_ite (by bal) B_nil
  cases d <;> simp only [rIndexDrop]
  · exact B_ite B_bad (B.app (B.app (B.app (B_S _ (by decide)) hname) (B_S _ (by decide))) (e_rOptTable 1 table))
  · have hsch : B (match table with
        | none => []
        | some t => if t.alias.isSome = true then [Piece.bad] else
          match t.parts with
          | [_] => []
          | [s, _] => [.id s, S "."]
          | _ => [.bad]) := by
      cases table with
      | none => exact B_nil
      | some t => refine B_ite B_bad ?_; split <;> bal
    exact B.app (B.app (B.app (B_S _ (by decide)) hie) hsch) hname
  · exact B.app (B.app (B_S _ (by decide)) hie) hname

theorem e_rFkActions (f : Fk) : B (rFkActions f) := by
  unfold rFkActions
  have ha : ∀ a, B [S (fkAction a)] := by intro a; unfold fkAction; split <;> bal
  refine B.app ?_ ?_
  · cases f.onDelete with
    | none => exact B_nil
    | some a => exact B.app (B_S " ON DELETE " (by decide)) (ha a)
  · cases f.onUpdate with
    | none => exact B_nil
    | some a => exact B.app (B_S " ON UPDATE " (by decide)) (ha a)

theorem e_parenIdents (cs : List String) : B ([S "("] ++ rIdents true cs ++ [S ")"]) := B.paren (b_rIdents cs true)

theorem e_rFkCreate (d : Backend) (mode : Nat) (f : Fk) : B (rFkCreate d mode f) := by
  have hact := e_rFkActions f
  have hadd : B (if (mode != 0) = true then [S "ADD "] else []) := B_ite (by bal) B_nil
  cases d <;> simp only [rFkCreate]
  · have halt : B (if (mode == 1) = true then [S "ALTER TABLE "] ++ Ddl.rOptTable 1 f.table ++ [S " "] else []) :=
      B_ite (B.app (B.app (B_S _ (by decide)) (e_rOptTable 1 f.table)) (B_S _ (by decide))) B_nil
    have hname : B (match f.name with | some n => [Piece.id n] | none => []) := by cases f.name <;> bal
    exact B.app (B.app (B.app (B.app (B.app (B.app (B.app (B.app (B.app halt hadd) (B_S _ (by decide))) hname) (B_S _ (by decide))) (e_parenIdents f.cols))
      (B_S _ (by decide))) (e_rOptTable 1 f.refTable)) (B_S _ (by decide))) (e_parenIdents f.refCols) |> fun h => B.app h hact
  · have halt : B (if (mode == 1) = true then [S "ALTER TABLE "] ++ Ddl.rOptTable 3 f.table ++ [S " "] else []) :=
      B_ite (B.app (B.app (B_S _ (by decide)) (e_rOptTable 3 f.table)) (B_S _ (by decide))) B_nil
    have hname : B (match f.name with | some n => [S "CONSTRAINT ", Piece.id n, S " "] | none => []) := by cases f.name <;> bal
    have p2 : B (_ ++ [S ")"]) := Bk.close (j := 0) (Bk.appB (B.appk (B.app (B.app halt hadd) hname) (Bk_S "FOREIGN KEY (" 1 (by decide))) (b_rIdents f.cols true)) (Cl_S ")" (by decide))
    exact B.app (B.app (B.app (B.app (B.app p2 (B_S _ (by decide))) (e_rOptTable 3 f.refTable)) (B_S _ (by decide))) (e_parenIdents f.refCols)) hact
  · refine B_ite B_bad ?_
    have p2 : B ([S "FOREIGN KEY ("] ++ rIdents true f.cols ++ [S ")"]) :=
      Bk.close (j := 0) (Bk.appB (Bk_S "FOREIGN KEY (" 1 (by decide)) (b_rIdents f.cols true)) (Cl_S ")" (by decide))
    have p5 : B (_ ++ [S ")"]) := Bk.close (j := 0) (Bk.appB (B.appk (B.app (B.app p2 (B_S " REFERENCES " (by decide))) (e_rOptTable 1 f.refTable)) (Bk_S " (" 1 (by decide)))
      (b_rIdents f.refCols true)) (Cl_S ")" (by decide))
    exact B.app p5 hact

theorem e_rFkDrop (d : Backend) (mode : Nat) (name : Option String) (table : Option TName) : B (rFkDrop d mode name table) := by
  have hname : B (match name with | some n => [Piece.id n] | none => []) := by cases name <;> bal
  cases d <;> simp only [rFkDrop]
  · exact B.app (B.app (B_ite (B.app (B.app (B_S _ (by decide)) (e_rOptTable 1 table)) (B_S _ (by decide))) B_nil) (B_S _ (by decide))) hname
  · exact B.app (B.app (B_ite (B.app (B.app (B_S _ (by decide)) (e_rOptTable 3 table)) (B_S _ (by decide))) B_nil) (B_S _ (by decide))) hname
  · exact B_ite B_bad (B.app (B_S _ (by decide)) hname)

theorem e_rFks (d : Backend) : ∀ (l : List Fk) (first : Bool), B (rFks d first l) := by
  intro l; induction l with
  | nil => intro _; exact B_nil
  | cons c r ih => intro first; simp only [rFks]; exact B.app (B.app (b_sep first ", " (by decide)) (e_rFkCreate d 0 c)) (ih false)

theorem e_rChecks (d : Backend) : ∀ (l : List Ex) (first : Bool), B (rChecks d first l) := by
  intro l; induction l with
  | nil => intro _; exact B_nil
  | cons c r ih => intro first; simp only [rChecks]; exact B.app (B.app (b_sep first ", " (by decide)) (e_rCheck d c)) (ih false)

theorem e_rTableOpts : ∀ (l : List TableOpt), B (rTableOpts l) := by
  intro l; induction l with
  | nil => exact B_nil
  | cons o r ih =>
    simp only [rTableOpts]
    have h1 : B (match o with
        | .engine s => [S "ENGINE=", Piece.raw s.toList]
        | .collate s => [S "COLLATE=", .raw s.toList]
        | .charset s => [S "DEFAULT CHARSET=", .raw s.toList]) := by
      cases o <;> exact B.app (B_S _ (by decide)) (B_raw _)
    exact B.app (B.app (B_S " " (by decide)) h1) ih

theorem e_rCreate (d : Backend) (c : Create) : B (rCreate d c) := by
  unfold rCreate
  simp only []
  have p1 : Bk 1 ([S "CREATE "] ++ (if c.temporary = true then [S "TEMPORARY "] else []) ++ [S "TABLE "] ++
      (if c.ifNotExists = true then [S "IF NOT EXISTS "] else []) ++ Ddl.rOptTable 3 c.table ++ [S " ( "]) :=
    B.appk (B.app (B.app (B.app (B.app (B_S _ (by decide)) (B_ite (by bal) B_nil)) (B_S _ (by decide))) (B_ite (by bal) B_nil)) (e_rOptTable 3 c.table))
      (Bk_S " ( " 1 (by decide))
  have p2 := Bk.appB (Bk.appB (Bk.appB (Bk.appB p1 (e_rColumnDefs d c.cols true)) (e_rTableIndexes d c.indexes c.cols.isEmpty)) (e_rFks d c.fks (c.cols.isEmpty && c.indexes.isEmpty))) (e_rChecks d c.checks (c.cols.isEmpty && c.indexes.isEmpty && c.fks.isEmpty))
  have p3 : B (_ ++ [S " )"]) := Bk.close (j := 0) p2 (Cl_S " )" (by decide))
  have hcom : B (match c.comment with | some t => if (d == Backend.mysql) = true then [S " COMMENT ", rStrLit t] else [] | none => []) := by
    cases c.comment with
    | none => exact B_nil
    | some t => exact B_ite (by bal) B_nil
  have hext : B (match c.extra with | some e => [S " ", Piece.raw e.toList] | none => []) := by
    cases c.extra with
    | none => exact B_nil
    | some e => exact B.app (B_S _ (by decide)) (B_raw _)
  exact B.app (B.app (B.app p3 hcom) (e_rTableOpts c.options)) hext

theorem e_pgAction (name : String) (s : Spec) : B (pgAction name s) := by
  cases s <;> simp only [pgAction]
  case default e => exact B.app (a := [S "ALTER COLUMN ", .id name, S " SET DEFAULT "]) (by bal) (b_ex _ e)
  case check e => exact B.app (B_S _ (by decide)) (e_rCheck _ e)
  case «using» e => exact B.app (B_S _ (by decide)) (b_ex _ e)
  case extra t => exact B_raw _
  all_goals bal

theorem e_rPgModifySpecs (name : String) : ∀ (l : List Spec) (first : Bool), B (rPgModifySpecs name first l) := by
  intro l; induction l with
  | nil => intro _; exact B_nil
  | cons s r ih => intro first; simp only [rPgModifySpecs]; exact B.app (B.app (B_ite (by bal) B_nil) (e_pgAction name s)) (ih _)

theorem e_rAlterOpt (d : Backend) (o : AlterOpt) : B (rAlterOpt d o) := by
  cases o <;> simp only [rAlterOpt]
  case add c ine => exact B.app (B.app (B_S _ (by decide)) (B_ite (by bal) B_nil)) (e_rColumnDef d c)
  case modify c =>
    cases d <;> simp only
    · exact B.app (B_S _ (by decide)) (e_rColumnDef _ c)
    · refine B.app ?_ (e_rPgModifySpecs _ _ _)
      cases c.ty with
      | none => exact B_nil
      | some t => exact B.app (a := [S "ALTER COLUMN ", .id c.name, S " TYPE "]) (by bal) (e_rTypePg t)
    · exact B_bad
  case rename a b => bal
  case drop c => bal
  case addFk f => exact B_ite B_bad (e_rFkCreate d 2 f)
  case dropFk n => exact B_ite B_bad (e_rFkDrop d 2 _ _)

theorem e_rAlterOpts (d : Backend) : ∀ (l : List AlterOpt) (first : Bool), B (rAlterOpts d first l) := by
  intro l; induction l with
  | nil => intro _; exact B_nil
  | cons c r ih => intro first; simp only [rAlterOpts]; exact B.app (B.app (b_sep first ", " (by decide)) (e_rAlterOpt d c)) (ih false)

theorem e_rAlter (d : Backend) (t : Option TName) (opts : List AlterOpt) : B (rAlter d t opts) := by
  unfold rAlter
  refine B_ite B_bad (B_ite B_bad ?_)
  have h1 : B (match t with | some t => rTable 3 t ++ [S " "] | none => []) := by
    cases t with
    | none => exact B_nil
    | some t => exact B.app (e_rTable 3 t) (B_S _ (by decide))
  exact B.app (B.app (B_S _ (by decide)) h1) (e_rAlterOpts d opts true)

theorem e_rDropOpts (d : Backend) : ∀ (l : List Nat), B (rDropOpts d l) := by
  intro l; induction l with
  | nil => exact B_nil
  | cons o r ih => simp only [rDropOpts]; exact B.app (B_ite B_nil (by split <;> bal)) ih

theorem e_rTables : ∀ (l : List TName) (first : Bool), B (rTables first l) := by
  intro l; induction l with
  | nil => intro _; exact B_nil
  | cons c r ih => intro first; simp only [rTables]; exact B.app (B.app (b_sep first ", " (by decide)) (e_rTable 3 c)) (ih false)

theorem e_rStrVs : ∀ (l : List String) (first : Bool), B (rStrVs first l) := by
  intro l; induction l with
  | nil => intro _; exact B_nil
  | cons v r ih => intro first; simp only [rStrVs]; exact B.app (B.app (b_sep first ", " (by decide)) (by bal)) (ih false)

theorem e_rTypeRefs : ∀ (l : List (List String)) (first : Bool), B (rTypeRefs first l) := by
  intro l; induction l with
  | nil => intro _; exact B_nil
  | cons c r ih => intro first; simp only [rTypeRefs]; exact B.app (B.app (b_sep first ", " (by decide)) (b_rParts c true)) (ih false)

theorem e_rTypeAlterOpt (o : TypeAlterOpt) : B (rTypeAlterOpt o) := by
  cases o with
  | add v pl ine =>
    simp only [rTypeAlterOpt]
    refine B.app (B.app (B.app (B_S _ (by decide)) (B_ite (by bal) B_nil)) (by bal)) ?_
    cases pl with
    | none => exact B_nil
    | some q => obtain ⟨x, y⟩ := q; cases x <;> bal
  | rename n => simp only [rTypeAlterOpt]; bal
  | renameValue a b => simp only [rTypeAlterOpt]; bal

/-- **every schema statement is written with balanced parentheses** -/
theorem e_rStmt (d : Backend) (s : Ddl.Stmt) : B (rStmt d s) := by
  cases s <;> simp only [rStmt]
  case create c => exact e_rCreate d c
  case alter t opts => exact e_rAlter d t opts
  case drop ts ie opts => exact B.app (B.app (B.app (B_S _ (by decide)) (B_ite (by bal) B_nil)) (e_rTables ts true)) (e_rDropOpts d opts)
  case rename a b =>
    cases d <;> simp only <;> exact B.app (B.app (B.app (B_S _ (by decide)) (e_rOptTable 3 a)) (B_S _ (by decide))) (e_rOptTable 3 b)
  case truncate t => exact B_ite B_bad (B.app (B_S _ (by decide)) (e_rOptTable 3 t))
  case indexCreate i => exact e_rIndexCreate d i
  case indexDrop n t ie => exact e_rIndexDrop d n t ie
  case fkCreate f => exact e_rFkCreate d 1 f
  case fkDrop n t => exact e_rFkDrop d 1 n t
  case typeCreate name asEnum values =>
    have hn : B (match (generalizing := false) name with | some n => rParts true n | none => []) := by
      cases name with
      | none => exact B_nil
      | some n => exact b_rParts n true
    exact B.app (B.app (B.app (B_S _ (by decide)) hn) (B_ite (by bal) B_nil))
      (B_ite B_nil (Bk.close (j := 0) (Bk.appB (Bk_S " (" 1 (by decide)) (e_rStrVs values true)) (Cl_S ")" (by decide))))
  case typeDrop names ie opt =>
    have h3 : B (match (generalizing := false) opt with | some o => [S " ", S (if (o == 0) = true then "CASCADE" else "RESTRICT")] | none => []) := by
      cases opt with
      | none => exact B_nil
      | some o => exact B.app (B_S _ (by decide)) (by split <;> bal)
    exact B.app (B.app (B.app (B_S _ (by decide)) (B_ite (by bal) B_nil)) (e_rTypeRefs names true)) h3
  case typeAlter name opt =>
    have hn : B (match (generalizing := false) name with | some n => rParts true n | none => []) := by
      cases name with
      | none => exact B_nil
      | some n => exact b_rParts n true
    have ho : B (match (generalizing := false) opt with | some o => rTypeAlterOpt o | none => []) := by
      cases opt with
      | none => exact B_nil
      | some o => exact e_rTypeAlterOpt o
    exact B.app (B.app (B_S _ (by decide)) hn) ho
  case extCreate name schema version cascade ine =>
    have h1 : B (match (generalizing := false) schema with | some x => [S " WITH SCHEMA ", Piece.raw x.toList] | none => []) := by
      cases schema with
      | none => exact B_nil
      | some x => exact B.app (B_S _ (by decide)) (B_raw _)
    have h2 : B (match (generalizing := false) version with | some x => [S " VERSION ", Piece.raw x.toList] | none => []) := by
      cases version with
      | none => exact B_nil
      | some x => exact B.app (B_S _ (by decide)) (B_raw _)
    exact B.app (B.app (B.app (B.app (B.app (B_S _ (by decide)) (B_ite (by bal) B_nil)) (B_raw _)) h1) h2) (B_ite (by bal) B_nil)
  case extDrop name ie cascade restrict =>
    exact B.app (B.app (B.app (B.app (B_S _ (by decide)) (B_ite (by bal) B_nil)) (B_raw _)) (B_ite (by bal) B_nil)) (B_ite (by bal) B_nil)

end SeaQ.Balance
