import SeaQ.Model.Literal
import SeaQ.Lemmas.Escape
namespace SeaQ.Literal
open SeaQ.Escape SeaQ.Gen.Escape

/-- image `l` of `x` under escaping is read back as `x` by a lexer without backslash escapes -/
def goodPB (x : Char) (l : List Char) : Bool :=
  match l with
  | [y] => y == x && x != q
  | [a, b] => a == q && b == q && x == q
  | _ => false

/-- … by a lexer with backslash escapes decoded by `f` -/
def goodEB (f : Char → Option (List Char)) (x : Char) (l : List Char) : Bool :=
  match l with
  | [y] => y == x && x != q && x != bsl
  | [a, n] => a == bsl && f n == some [x]
  | _ => false

theorem ne_tail (a : List Char) (c : Char) (rest : List Char) :
    ∃ n r, a ++ c :: rest = n :: r := by
  cases h : a ++ c :: rest with
  | nil => simp at h
  | cons n r => exact ⟨n, r, rfl⟩

theorem bodyPlain_close (rest : List Char) (hr : rest.head? ≠ some q) :
    bodyPlain (q :: rest) = some ([], rest) := by
  cases rest with
  | nil => simp [bodyPlain]
  | cons n r =>
    have : (n == q) = false := by simpa using hr
    simp [bodyPlain, this]

theorem bodyEsc_close (f) (rest : List Char) (hr : rest.head? ≠ some q) :
    bodyEsc f (q :: rest) = some ([], rest) := by
  cases rest with
  | nil => simp [bodyEsc]
  | cons n r =>
    have : (n == q) = false := by simpa using hr
    simp [bodyEsc, this]

theorem bodyPlain_step (x : Char) (l : List Char) (h : goodPB x l = true) (t : List Char)
    (ht : t ≠ []) : bodyPlain (l ++ t) = push [x] (bodyPlain t) := by
  obtain ⟨n, r, rfl⟩ : ∃ n r, t = n :: r := by
    cases t with
    | nil => exact absurd rfl ht
    | cons n r => exact ⟨n, r, rfl⟩
  match l, h with
  | [y], h =>
    simp only [goodPB, Bool.and_eq_true, beq_iff_eq, bne_iff_ne] at h
    obtain ⟨rfl, hne⟩ := h
    have : (y == q) = false := beq_false_of_ne hne
    simp [bodyPlain, this]
  | [a, b], h =>
    simp only [goodPB, Bool.and_eq_true, beq_iff_eq] at h
    obtain ⟨⟨rfl, rfl⟩, rfl⟩ := h
    simp [bodyPlain]

theorem bodyEsc_step (f) (x : Char) (l : List Char) (h : goodEB f x l = true) (t : List Char)
    (ht : t ≠ []) : bodyEsc f (l ++ t) = push [x] (bodyEsc f t) := by
  obtain ⟨n, r, rfl⟩ : ∃ n r, t = n :: r := by
    cases t with
    | nil => exact absurd rfl ht
    | cons n r => exact ⟨n, r, rfl⟩
  match l, h with
  | [y], h =>
    simp only [goodEB, Bool.and_eq_true, beq_iff_eq, bne_iff_ne] at h
    obtain ⟨⟨rfl, h1⟩, h2⟩ := h
    have e1 : (y == q) = false := beq_false_of_ne h1
    have e2 : (y == bsl) = false := beq_false_of_ne h2
    simp [bodyEsc, e1, e2]
  | [a, m], h =>
    simp only [goodEB, Bool.and_eq_true, beq_iff_eq] at h
    obtain ⟨rfl, hf⟩ := h
    have e1 : (bsl == q) = false := by decide
    simp [bodyEsc, e1, escStep, hf]

theorem bodyPlain_units (g : Char → List Char) (s : List Char)
    (hg : ∀ x ∈ s, goodPB x (g x) = true) (rest : List Char) (hr : rest.head? ≠ some q) :
    bodyPlain (s.flatMap g ++ q :: rest) = some (s, rest) := by
  induction s with
  | nil => simpa using bodyPlain_close rest hr
  | cons x s ih =>
    have ih' := ih (fun y hy => hg y (List.mem_cons_of_mem _ hy))
    simp only [List.flatMap_cons, List.append_assoc]
    rw [bodyPlain_step x (g x) (hg x List.mem_cons_self) _ (by simp), ih']
    rfl

theorem bodyEsc_units (f) (g : Char → List Char) (s : List Char)
    (hg : ∀ x ∈ s, goodEB f x (g x) = true) (rest : List Char) (hr : rest.head? ≠ some q) :
    bodyEsc f (s.flatMap g ++ q :: rest) = some (s, rest) := by
  induction s with
  | nil => simpa using bodyEsc_close f rest hr
  | cons x s ih =>
    have ih' := ih (fun y hy => hg y (List.mem_cons_of_mem _ hy))
    simp only [List.flatMap_cons, List.append_assoc]
    rw [bodyEsc_step f x (g x) (hg x List.mem_cons_self) _ (by simp), ih']
    rfl

/-- decidable side condition on a generated chain for an escaping lexer; `excl` lists the
characters for which the claim is *not* made -/
def litOKE (f : Char → Option (List Char)) (excl : List Char) (ch : Chain) : Bool :=
  allSingle ch && (patterns ch).contains q && (patterns ch).contains bsl &&
    (patterns ch).all (fun x => excl.contains x || goodEB f x (applyChain ch [x]))

def litOKP (ch : Chain) : Bool :=
  allSingle ch && (patterns ch).contains q &&
    (patterns ch).all (fun x => goodPB x (applyChain ch [x]))

theorem goodE_all (f excl ch) (h : litOKE f excl ch = true) (x : Char) (hx : x ∉ excl) :
    goodEB f x (applyChain ch [x]) = true := by
  simp only [litOKE, Bool.and_eq_true] at h
  obtain ⟨⟨⟨h1, h2⟩, h3⟩, h4⟩ := h
  by_cases hp : x ∈ patterns ch
  · have := List.all_eq_true.mp h4 x hp
    simp only [Bool.or_eq_true] at this
    rcases this with he | hgd
    · exact absurd (by simpa using he) hx
    · exact hgd
  · rw [applyChain_nopattern ch h1 x hp]
    have hq : q ∈ patterns ch := by simpa using h2
    have hb : bsl ∈ patterns ch := by simpa using h3
    have n1 : x ≠ q := fun e => hp (e ▸ hq)
    have n2 : x ≠ bsl := fun e => hp (e ▸ hb)
    simp [goodEB, n1, n2]

theorem goodP_all (ch) (h : litOKP ch = true) (x : Char) :
    goodPB x (applyChain ch [x]) = true := by
  simp only [litOKP, Bool.and_eq_true] at h
  obtain ⟨⟨h1, h2⟩, h4⟩ := h
  by_cases hp : x ∈ patterns ch
  · exact List.all_eq_true.mp h4 x hp
  · rw [applyChain_nopattern ch h1 x hp]
    have hq : q ∈ patterns ch := by simpa using h2
    have n1 : x ≠ q := fun e => hp (e ▸ hq)
    simp [goodPB, n1]

/-- an escaping image without any backslash is also a plain-lexer image -/
theorem goodE_noBsl (f) (x : Char) (l : List Char) (h : goodEB f x l = true) (hb : bsl ∉ l) :
    goodPB x l = true := by
  match l, h with
  | [y], h =>
    simp only [goodEB, Bool.and_eq_true, beq_iff_eq, bne_iff_ne] at h
    simp [goodPB, h.1.1, h.1.2]
  | [a, n], h =>
    simp only [goodEB, Bool.and_eq_true, beq_iff_eq] at h
    exact absurd (by simp [h.1]) hb

/-! hex -/

theorem hexVal_digit : ∀ n : Fin 16, hexVal (hexDigitU n.val) = some n.val := by decide

theorem hexBody_hexU (bs : List UInt8) (rest : List Char) :
    hexBody (hexU bs ++ q :: rest) = some (bs, rest) := by
  induction bs with
  | nil =>
    cases rest with
    | nil => simp [hexU, hexBody]
    | cons n r => simp [hexU, hexBody]
  | cons b bs ih =>
    have h1 := hexVal_digit ⟨b.toNat / 16, by have := b.toNat_lt; omega⟩
    have h2 := hexVal_digit ⟨b.toNat % 16, by omega⟩
    simp only at h1 h2
    have hq1 : (hexDigitU (b.toNat / 16) == q) = false := by
      have : ∀ n : Fin 16, (hexDigitU n.val == q) = false := by decide
      exact this ⟨b.toNat / 16, by have := b.toNat_lt; omega⟩
    have e : hexU (b :: bs) ++ q :: rest
        = hexDigitU (b.toNat / 16) :: hexDigitU (b.toNat % 16) :: (hexU bs ++ q :: rest) := by
      simp [hexU]
    rw [e]
    simp only [hexBody, hq1, Bool.false_eq_true, if_false, hexPair, h1, h2]
    have hb : UInt8.ofNat (b.toNat / 16 * 16 + b.toNat % 16) = b := by
      have : b.toNat / 16 * 16 + b.toNat % 16 = b.toNat := by omega
      rw [this]; simp
    have ih' : hexBody (hexU bs ++ q :: rest) = some (bs, rest) := ih
    rw [hb, ih']
    rfl

end SeaQ.Literal
