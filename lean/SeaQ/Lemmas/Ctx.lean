import SeaQ.Lemmas.SafeBasics
/-!
A dialect-free, value-free abstraction of the context part of `safeN`.

`ctx pw k ps`: reading the piece list only through what is certain about it — the characters of
renderer text (`.s`) and raw text (`.raw`) — every value, identifier and placeholder stands after a
character that does not continue a word and before a separator-like character, and no text piece
ending in `E` stands before a possible quote.  What a value or an identifier starts / ends with is
treated as unknown (`HK.any`, `pw = true`).  `ctx_sound`: together with the per-piece content
condition this implies `safeN`, hence `Scan.safe`.
-/
namespace SeaQ.SafeN
open SeaQ.Escape SeaQ.Render SeaQ.Stmt SeaQ.Scan

/-- what is known about the next character -/
inductive HK where
  /-- nothing follows -/
  | emp
  | ch (c : Char)
  /-- unknown (a value, an identifier) -/
  | any
  deriving DecidableEq, Repr

def HK.orElse : HK → HK → HK
  | .emp, k => k
  | h, _ => h

def hL : List Char → HK
  | [] => .emp
  | c :: _ => .ch c

def hP : Piece → HK
  | .s t => hL t.toList
  | .raw t => hL t
  | .bad => .emp
  | _ => .any

def hK : Pieces → HK
  | [] => .emp
  | p :: r => (hP p).orElse (hK r)

def okK : HK → Bool
  | .emp => true
  | .ch c => okNext (some c)
  | .any => false

def notQ : HK → Bool
  | .emp => true
  | .ch c => c != '\''
  | .any => false

def notE (t : List Char) : Bool := t.getLast? != some 'E'

def ctxP (pw : Bool) (k : HK) : Piece → Bool
  | .s t => notE t.toList || notQ k
  | .raw t => notE t || notQ k
  | .id _ => okK k
  | .c _ => !pw && okK k
  | .p _ => !pw && okK k
  | .bad => true

def endK (pw : Bool) : Piece → Bool
  | .s t => lastWord pw t.toList
  | .raw t => lastWord pw t
  | .id _ => false
  | .c _ => true
  | .p _ => true
  | .bad => pw

/-- the empty raw piece that opens a template expansion (`CustomWithExpr`) -/
def isMark : Piece → Bool
  | .raw [] => true
  | _ => false

/-- nothing is claimed about what follows a template mark -/
def ctx : Bool → HK → Pieces → Bool
  | _, _, [] => true
  | pw, k, p :: r => isMark p || (ctxP pw ((hK r).orElse k) p && ctx (endK pw p) k r)

def endKs : Bool → Pieces → Bool
  | pw, [] => pw
  | pw, p :: r => endKs (endK pw p) r

/-! ### composition -/

theorem orElse_assoc (a b c : HK) : (a.orElse b).orElse c = a.orElse (b.orElse c) := by cases a <;> rfl
@[simp] theorem orElse_emp (a : HK) : a.orElse .emp = a := by cases a <;> rfl
@[simp] theorem emp_orElse (a : HK) : HK.emp.orElse a = a := rfl

theorem hK_append (a b : Pieces) : hK (a ++ b) = (hK a).orElse (hK b) := by
  induction a with
  | nil => rfl
  | cons p r ih => simp only [List.cons_append, hK, ih, orElse_assoc]

theorem endKs_append : ∀ (a b : Pieces) (pw : Bool), endKs pw (a ++ b) = endKs (endKs pw a) b := by
  intro a
  induction a with
  | nil => intro b pw; rfl
  | cons p r ih => intro b pw; simp [endKs, ih]

theorem ctx_app : ∀ (a b : Pieces) (pw : Bool) (k : HK),
    ctx pw ((hK b).orElse k) a = true → ctx (endKs pw a) k b = true → ctx pw k (a ++ b) = true := by
  intro a
  induction a with
  | nil => intro b pw k _ h; simpa [endKs] using h
  | cons p r ih =>
    intro b pw k h1 h2
    simp only [List.cons_append, ctx, hK_append, orElse_assoc, Bool.or_eq_true, Bool.and_eq_true] at h1 ⊢
    cases h1 with
    | inl h => left; exact h
    | inr h => right; exact ⟨h.1, ih b _ k h.2 (by simpa [endKs] using h2)⟩

theorem ctx_cons (p : Piece) (r : Pieces) (pw : Bool) (k : HK) :
    ctxP pw ((hK r).orElse k) p = true → ctx (endK pw p) k r = true → ctx pw k (p :: r) = true := by
  intro h1 h2; simp [ctx, h1, h2]

theorem ctx_nil (pw : Bool) (k : HK) : ctx pw k [] = true := rfl

theorem okK_orElse (h k : HK) (hh : okK h = true) (hk : okK k = true) : okK (h.orElse k) = true := by
  cases h <;> simp_all [HK.orElse]

theorem notQ_of_okK (k : HK) (h : okK k = true) : notQ k = true := by
  cases k with
  | emp => rfl
  | any => simp [okK] at h
  | ch c =>
    simp only [okK, okNext, Bool.and_eq_true, bne_iff_ne, ne_eq] at h
    simp [notQ, h.1.1.2]

/-! ### soundness against `safeN` -/

/-- the actual next character agrees with what is known -/
def refines : HK → Option Char → Prop
  | .emp, n => n = none
  | .ch c, n => n = some c
  | .any, _ => True

theorem hP_refines (d : Backend) (inl : Bool) (p : Piece) :
    match hP p with
    | .emp => (pieceTxt d inl 0 p).head? = none
    | .ch c => (pieceTxt d inl 0 p).head? = some c
    | .any => True := by
  cases p with
  | s t => simp only [hP, pieceTxt]; cases t.toList <;> simp [hL]
  | raw t => simp only [hP, pieceTxt]; cases t <;> simp [hL]
  | bad => simp [hP, pieceTxt]
  | id n => simp [hP]
  | c v => simp [hP]
  | p v => simp [hP]

theorem refines_orElse (d : Backend) (inl : Bool) : ∀ (r : Pieces) (k : HK) (nxt : Option Char), refines k nxt →
    refines ((hK r).orElse k) (orNext (headT d inl r) nxt) := by
  intro r
  induction r with
  | nil => intro k nxt h; simpa [hK, headT, orNext] using h
  | cons p r ih =>
    intro k nxt h
    have hp := hP_refines d inl p
    simp only [hK, headT, orElse_assoc]
    cases hpk : hP p with
    | emp => rw [hpk] at hp; simp only [hp, emp_orElse]; exact ih k nxt h
    | ch c => rw [hpk] at hp; simp [hp, HK.orElse, refines, orNext]
    | any => simp [HK.orElse, refines]

theorem okNext_of_refines (k : HK) (nxt : Option Char) (h : refines k nxt) (hk : okK k = true) : okNext nxt = true := by
  cases k with
  | emp => simp only [refines] at h; subst h; rfl
  | ch c => simp only [refines] at h; subst h; exact hk
  | any => simp [okK] at hk

theorem notQ_of_refines (k : HK) (nxt : Option Char) (h : refines k nxt) (hk : notQ k = true) : nxt ≠ some '\'' := by
  cases k with
  | emp => simp only [refines] at h; subst h; simp
  | ch c => simp only [refines] at h; subst h; simpa [notQ] using hk
  | any => simp [notQ] at hk

theorem okPiece_of_ctxP (d : Backend) (inl : Bool) (pw pw' : Bool) (k : HK) (nxt : Option Char) (p : Piece)
    (hpw : pw = true → pw' = true) (hr : refines k nxt) (hc : contentOK d inl p = true) (hx : ctxP pw' k p = true) :
    okPiece d inl pw nxt p = true := by
  cases p with
  | s t =>
    simp only [ctxP, Bool.or_eq_true] at hx
    apply okPiece_s d inl pw nxt t (by simpa [contentOK] using hc)
    cases hx with
    | inl h => left; simpa [notE] using h
    | inr h => right; exact notQ_of_refines k nxt hr h
  | raw t =>
    simp only [ctxP, Bool.or_eq_true] at hx
    simp only [contentOK, Bool.and_eq_true] at hc
    have hpl : t.all (plainChar d) = true := hc.2
    simp only [okPiece, hpl, Bool.true_and, plainFollow]
    cases hx with
    | inl h => have : t.getLast? ≠ some 'E' := by simpa [notE] using h
               simp [this]
    | inr h => have := notQ_of_refines k nxt hr h; simp [this]
  | id n =>
    have := okPiece_sep d inl nxt (.id n) hc (okNext_of_refines k nxt hr (by simpa [ctxP] using hx))
    simpa [okPiece] using this
  | c v =>
    simp only [ctxP, Bool.and_eq_true, Bool.not_eq_true'] at hx
    have hpf : pw = false := by cases pw <;> simp_all
    subst hpf
    exact okPiece_sep d inl nxt _ hc (okNext_of_refines k nxt hr hx.2)
  | p v =>
    simp only [ctxP, Bool.and_eq_true, Bool.not_eq_true'] at hx
    have hpf : pw = false := by cases pw <;> simp_all
    subst hpf
    exact okPiece_sep d inl nxt _ hc (okNext_of_refines k nxt hr hx.2)
  | bad => simp [contentOK] at hc

theorem endWord_le_endK (d : Backend) (inl : Bool) (pw pw' : Bool) (p : Piece) (hpw : pw = true → pw' = true) :
    endWord d inl pw p = true → endK pw' p = true := by
  cases p with
  | s t => simp only [endWord, endK, lastWord]; cases t.toList.getLast? <;> simp_all
  | raw t => simp only [endWord, endK, lastWord]; cases t.getLast? <;> simp_all
  | id n => simp [endWord]
  | c v => simp [endK]
  | p v => simp [endK]
  | bad => simpa [endWord, endK] using hpw

/-- **soundness of the abstraction** -/
theorem ctx_sound (d : Backend) (inl : Bool) : ∀ (ps : Pieces) (pw pw' : Bool) (k : HK) (nxt : Option Char),
    (pw = true → pw' = true) → refines k nxt → ps.all (contentOK d inl) = true → ctx pw' k ps = true →
    safeN d inl pw nxt ps = true := by
  intro ps
  induction ps with
  | nil => intros; rfl
  | cons p r ih =>
    intro pw pw' k nxt hpw hr hc hx
    simp only [List.all_cons, Bool.and_eq_true] at hc
    have hnm : isMark p = false := by
      cases p with
      | raw t => cases t with
        | nil => simp [contentOK] at hc
        | cons c t => rfl
      | _ => rfl
    simp only [ctx, hnm, Bool.false_or, Bool.and_eq_true] at hx
    simp only [safeN, Bool.and_eq_true]
    exact ⟨okPiece_of_ctxP d inl pw pw' _ _ p hpw (refines_orElse d inl r k nxt hr) hc.1 hx.1,
      ih _ _ k nxt (endWord_le_endK d inl pw pw' p hpw) hr hc.2 hx.2⟩

end SeaQ.SafeN
