import SeaQ.Model.Scan
import SeaQ.Props.C03
import SeaQ.Props.C04
/-!
The engine-side reading of a rendered piece list.  `Safe` is the decidable adjacency /
content discipline under which the reading of the text is the piece-wise one; the main
theorems (`seg_textP`, `seg_textI`) are by induction over the piece list with one lemma per
piece kind (the string and identifier cases are the C03 / C04 theorems).
-/
namespace SeaQ.Scan
open SeaQ.Escape SeaQ.Render SeaQ.Stmt

/-! ## numbers -/

theorem parseNat_append (xs : List Char) (c : Char) :
    parseNat (xs ++ [c]) = 10 * parseNat xs + (c.toNat - 48) := by
  simp [parseNat, List.foldl_append]

theorem digitChar_toNat (n : Nat) : (digitChar n).toNat = 48 + n % 10 := by
  unfold digitChar
  have : 48 + n % 10 < 0xd800 := by omega
  simp [Char.ofNat, Nat.isValidChar, this, Char.ofNatAux, Char.toNat]
  omega

theorem digitChar_isDigit (n : Nat) : isDigit (digitChar n) = true := by
  simp [isDigit, digitChar_toNat]; omega

theorem natText_all_digits (n : Nat) : ∀ c ∈ natText n, isDigit c = true := by
  induction n using Nat.strongRecOn with
  | _ n ih =>
    unfold natText
    split
    · intro c hc; simp at hc; subst hc; exact digitChar_isDigit n
    · intro c hc
      simp only [List.mem_append, List.mem_singleton] at hc
      cases hc with
      | inl h => exact ih (n / 10) (by omega) c h
      | inr h => subst h; exact digitChar_isDigit n

theorem natText_ne_nil (n : Nat) : natText n ≠ [] := by
  unfold natText; split <;> simp

theorem parseNat_natText (n : Nat) : parseNat (natText n) = n := by
  induction n using Nat.strongRecOn with
  | _ n ih =>
    unfold natText
    split
    · rename_i h; simp [parseNat, digitChar_toNat]; omega
    · rename_i h
      rw [parseNat_append, ih (n / 10) (by omega), digitChar_toNat]; omega

end SeaQ.Scan

namespace SeaQ.Scan
open SeaQ.Escape SeaQ.Render SeaQ.Stmt SeaQ.Literal

/-! ## fuel -/

theorem seg_mono (d : Backend) (f : Nat) (pw : Bool) (s : List Char) (r : List Item)
    (h : seg d f pw s = some r) : seg d (f + 1) pw s = some r := by
  fun_induction seg d f pw s generalizing r with
  | case1 => simpa [seg] using h
  | case2 => simp at h
  | case3 f pw c t hc x rest hl ih =>
    rw [seg, if_pos hc, hl]
    simp only [Option.map_eq_some_iff] at h ⊢
    obtain ⟨a, ha, rfl⟩ := h
    exact ⟨a, ih _ ha, rfl⟩
  | case4 => simp at h
  | case5 f pw c t hc hq x rest hl ih =>
    rw [seg, if_neg hc, if_pos hq, hl]
    simp only [Option.map_eq_some_iff] at h ⊢
    obtain ⟨a, ha, rfl⟩ := h
    exact ⟨a, ih _ ha, rfl⟩
  | case6 => simp at h
  | case7 => simp at h
  | case8 => simp at h
  | case9 f pw c t hc hq ho hm hn ds rest hbad ih =>
    rw [seg, if_neg hc, if_neg hq, if_neg ho, if_pos hm, if_pos hn]
    simp only [ds, rest] at hbad h ih
    simp only [if_neg hbad]
    simp only [Option.map_eq_some_iff] at h ⊢
    obtain ⟨a, ha, rfl⟩ := h
    exact ⟨a, ih _ ha, rfl⟩
  | case10 => simp at h
  | case11 f pw c t hc hq ho hm hn hd ih =>
    rw [seg, if_neg hc, if_neg hq, if_neg ho, if_pos hm, if_neg hn, if_neg hd]
    simp only [Option.map_eq_some_iff] at h ⊢
    obtain ⟨a, ha, rfl⟩ := h
    exact ⟨a, ih _ ha, rfl⟩
  | case12 f pw c t hc hq ho hm ih =>
    rw [seg, if_neg hc, if_neg hq, if_neg ho, if_neg hm]
    simp only [Option.map_eq_some_iff] at h ⊢
    obtain ⟨a, ha, rfl⟩ := h
    exact ⟨a, ih _ ha, rfl⟩

theorem seg_mono_le (d : Backend) (f g : Nat) (hg : f ≤ g) (pw : Bool) (s : List Char) (r : List Item)
    (h : seg d f pw s = some r) : seg d g pw s = some r := by
  induction g with
  | zero => have : f = 0 := by omega
            subst this; exact h
  | succ g ih =>
    by_cases hfg : f = g + 1
    · subst hfg; exact h
    · exact seg_mono d g pw s r (ih (by omega))

end SeaQ.Scan

namespace SeaQ.Scan
open SeaQ.Escape SeaQ.Render SeaQ.Stmt SeaQ.Literal

/-! ## plain text -/

theorem lastWord_cons (pw : Bool) (c : Char) (t : List Char) : lastWord pw (c :: t) = lastWord (isWord c) t := by
  cases t with
  | nil => simp [lastWord]
  | cons x xs =>
    simp only [lastWord, List.getLast?_cons_cons]
    cases h : (x :: xs).getLast? with
    | none => simp at h
    | some y => rfl

theorem seg_plain (d : Backend) (f : Nat) : ∀ (t : List Char) (pw : Bool) (rest : List Char),
    t.all (plainChar d) = true →
    (d = .postgres → rest.head? = some '\'' → t.getLast? ≠ some 'E') →
    seg d (t.length + f) pw (t ++ rest) = (seg d f (lastWord pw t) rest).map (t.map Item.ch ++ ·) := by
  intro t
  induction t with
  | nil => intro pw rest _ _; simp [lastWord]
  | cons c t ih =>
    intro pw rest hp hq
    simp only [List.all_cons, Bool.and_eq_true] at hp
    obtain ⟨hc, ht⟩ := hp
    simp only [plainChar, Bool.and_eq_true, bne_iff_ne, ne_eq, Bool.not_eq_true'] at hc
    obtain ⟨⟨⟨h1, h2⟩, h3⟩, h4⟩ := hc
    have hlen : (c :: t).length + f = (t.length + f) + 1 := by simp; omega
    rw [hlen, List.cons_append, seg]
    have hfirst : (c == '\'' || d == Backend.postgres && !pw && c == 'E' && (t ++ rest).head? == some '\'') = false := by
      have : (c == '\'') = false := by simpa using h1
      rw [this, Bool.false_or]
      by_cases hd : d = .postgres
      · by_cases hE : c = 'E'
        · -- the character after an `E` is not a quote
          have : ((t ++ rest).head? == some '\'') = false := by
            cases t with
            | nil =>
              simp only [List.nil_append]
              by_cases hr : rest.head? = some '\''
              · exact absurd (by simp [hE]) (hq hd hr)
              · simpa using hr
            | cons x xs =>
              simp only [List.all_cons, Bool.and_eq_true] at ht
              have := ht.1
              simp only [plainChar, Bool.and_eq_true, bne_iff_ne, ne_eq] at this
              simp [this.1.1.1]
          rw [this]; simp
        · have : (c == 'E') = false := by simpa using hE
          rw [this]; simp
      · have : (d == Backend.postgres) = false := by simpa using hd
        rw [this]; simp
    rw [if_neg (by rw [hfirst]; simp), if_neg (by simpa using h2), if_neg (by rw [h3]; simp), if_neg (by simpa using h4)]
    have hq' : d = .postgres → rest.head? = some '\'' → t.getLast? ≠ some 'E' := by
      intro hd hr
      cases t with
      | nil => simp
      | cons x xs => have := hq hd hr; simpa [List.getLast?_cons_cons] using this
    by_cases htn : t = []
    · subst htn
      simp [lastWord]
    · rw [ih (isWord c) rest ht hq', lastWord_cons]
      simp [Option.map_map, Function.comp_def]

end SeaQ.Scan

namespace SeaQ.Scan
open SeaQ.Escape SeaQ.Render SeaQ.Stmt SeaQ.Literal

/-! ## quoted regions -/

theorem consumed_append (a rest : List Char) : consumed (a ++ rest) rest = a := by
  simp [consumed]

theorem quote_facts (d : Backend) :
    (Ident.quoteOf d).1 ≠ '\'' ∧ (Ident.quoteOf d).1 ≠ 'E' ∧ (Ident.quoteOf d).1 ≠ mark d ∧
      otherQuote d (Ident.quoteOf d).1 = false := by
  cases d <;> decide

theorem seg_ident (d : Backend) (f : Nat) (pw : Bool) (name rest : List Char)
    (hr : rest.head? ≠ some (Ident.quoteOf d).2) :
    seg d (f + 1) pw (Ident.prepare (Ident.quoteOf d) name ++ rest) =
      (seg d f false rest).map (Item.q (Ident.prepare (Ident.quoteOf d) name) :: ·) := by
  have hdec := SeaQ.Props.C04.ident_decodes d name rest hr
  obtain ⟨h1, h2, _, _⟩ := quote_facts d
  have hshape : Ident.prepare (Ident.quoteOf d) name ++ rest =
      (Ident.quoteOf d).1 :: (Ident.quoted (Ident.quoteOf d) name ++ [(Ident.quoteOf d).2] ++ rest) := by
    simp [Ident.prepare]
  rw [hshape, seg]
  have hc : ((Ident.quoteOf d).1 == '\'' || d == Backend.postgres && !pw && (Ident.quoteOf d).1 == 'E' &&
      (Ident.quoted (Ident.quoteOf d) name ++ [(Ident.quoteOf d).2] ++ rest).head? == some '\'') = false := by
    have a : ((Ident.quoteOf d).1 == '\'') = false := by simpa using h1
    have b : ((Ident.quoteOf d).1 == 'E') = false := by simpa using h2
    rw [a, b]; simp
  rw [if_neg (by rw [hc]; simp), if_pos (by simp), ← hshape, hdec]
  simp [consumed_append]

theorem seg_str (d : Backend) (f : Nat) (pw : Bool) (s rest : List Char)
    (hrep : SeaQ.Props.C03.Representable d s) (hr : rest.head? ≠ some '\'')
    (hpw : (writeStr d s).head? = some 'E' → pw = false) :
    seg d (f + 1) pw (writeStr d s ++ rest) = (seg d f false rest).map (Item.q (writeStr d s) :: ·) := by
  have hdec := SeaQ.Props.C03.strLit_decodes d s hrep rest hr
  -- the literal starts with `'`, or (Postgres) with `E'`
  have hstart : (∃ t, writeStr d s = '\'' :: t) ∨ (d = .postgres ∧ ∃ t, writeStr d s = 'E' :: '\'' :: t) := by
    cases d <;> simp [writeStr, q]
    split <;> simp
  cases hstart with
  | inl h =>
    obtain ⟨t, ht⟩ := h
    rw [ht, List.cons_append, seg, if_pos (by simp), ← List.cons_append, ← ht, hdec]
    simp [consumed_append]
  | inr h =>
    obtain ⟨hd, t, ht⟩ := h
    have hp : pw = false := hpw (by simp [ht])
    rw [ht, List.cons_append, seg, if_pos (by simp [hd, hp]), ← List.cons_append, ← ht, hdec]
    simp [consumed_append]

/-- bodies without a quote (and, where backslash escapes are read, without a backslash) -/
theorem bodyPlain_simple : ∀ (body rest : List Char), (∀ c ∈ body, c ≠ q) → rest.head? ≠ some q →
    bodyPlain (body ++ q :: rest) = some (body, rest) := by
  intro body
  induction body with
  | nil =>
    intro rest _ hr
    cases rest with
    | nil => simp [bodyPlain]
    | cons n r =>
      have : (n == q) = false := by simpa using hr
      simp [bodyPlain, this]
  | cons c t ih =>
    intro rest hb hr
    have hc : (c == q) = false := by simpa using hb c (by simp)
    have ht := ih rest (fun x hx => hb x (by simp [hx])) hr
    cases t with
    | nil => simp only [List.cons_append, List.nil_append] at ht ⊢; rw [bodyPlain]; simp [hc, ht, push]
    | cons x xs => simp only [List.cons_append] at ht ⊢; rw [bodyPlain]; simp [hc, ht, push]

theorem bodyEsc_simple (f : Char → Option (List Char)) : ∀ (body rest : List Char),
    (∀ c ∈ body, c ≠ q ∧ c ≠ bsl) → rest.head? ≠ some q →
    bodyEsc f (body ++ q :: rest) = some (body, rest) := by
  intro body
  induction body with
  | nil =>
    intro rest _ hr
    cases rest with
    | nil => simp [bodyEsc]
    | cons n r =>
      have : (n == q) = false := by simpa using hr
      simp [bodyEsc, this]
  | cons c t ih =>
    intro rest hb hr
    have hc : (c == q) = false := by simpa using (hb c (by simp)).1
    have hc2 : (c == bsl) = false := by simpa using (hb c (by simp)).2
    have ht := ih rest (fun x hx => hb x (by simp [hx])) hr
    cases t with
    | nil => simp only [List.cons_append, List.nil_append] at ht ⊢; rw [bodyEsc]; simp [hc, hc2, ht, push]
    | cons x xs => simp only [List.cons_append] at ht ⊢; rw [bodyEsc]; simp [hc, hc2, ht, push]

theorem lexStr_simple (d : Backend) (body rest : List Char)
    (hb : ∀ c ∈ body, c ≠ q ∧ (d = .mysql → c ≠ bsl)) (hr : rest.head? ≠ some q) :
    lexStr d (q :: (body ++ q :: rest)) = some (body, rest) := by
  cases d with
  | mysql => simp [lexStr]; exact bodyEsc_simple _ body rest (fun c hc => ⟨(hb c hc).1, (hb c hc).2 rfl⟩) hr
  | sqlite => simp [lexStr]; exact bodyPlain_simple body rest (fun c hc => (hb c hc).1) hr
  | postgres => simp [lexStr]; exact bodyPlain_simple body rest (fun c hc => (hb c hc).1) hr

theorem seg_simpleQuoted (d : Backend) (f : Nat) (pw : Bool) (body rest : List Char)
    (hb : ∀ c ∈ body, c ≠ q ∧ (d = .mysql → c ≠ bsl)) (hr : rest.head? ≠ some q) :
    seg d (f + 1) pw (q :: (body ++ [q]) ++ rest) =
      (seg d f false rest).map (Item.q (q :: (body ++ [q])) :: ·) := by
  have hdec := lexStr_simple d body rest hb hr
  have hshape : q :: (body ++ [q]) ++ rest = q :: (body ++ q :: rest) := by simp
  rw [hshape, seg, if_pos (by simp [q]), hdec]
  have : consumed (q :: (body ++ q :: rest)) rest = q :: (body ++ [q]) := by
    rw [← hshape]; exact consumed_append _ _
  simp only [this]

end SeaQ.Scan

namespace SeaQ.Scan
open SeaQ.Escape SeaQ.Render SeaQ.Stmt SeaQ.Literal

/-! ## placeholders -/

theorem mark_facts (d : Backend) :
    mark d ≠ '\'' ∧ mark d ≠ 'E' ∧ mark d ≠ (Ident.quoteOf d).1 ∧ otherQuote d (mark d) = false := by
  cases d <;> decide

theorem takeWhile_digits (ds rest : List Char) (hd : ∀ c ∈ ds, isDigit c = true)
    (hr : (rest.head?.map isDigit).getD false = false) :
    (ds ++ rest).takeWhile isDigit = ds ∧ (ds ++ rest).dropWhile isDigit = rest := by
  have h1 : rest.takeWhile isDigit = [] ∧ rest.dropWhile isDigit = rest := by
    cases rest with
    | nil => simp
    | cons x xs => simp at hr; simp [List.takeWhile, List.dropWhile, hr]
  constructor
  · rw [List.takeWhile_append_of_pos hd, h1.1]; simp
  · rw [List.dropWhile_append_of_pos hd, h1.2]

theorem isDigit_isWord (c : Char) (h : isDigit c = true) : isWord c = true := by
  simp [isWord, h]

theorem seg_param (d : Backend) (f : Nat) (pw : Bool) (k : Nat) (rest : List Char)
    (hpw : numbered d = true → pw = false)
    (hr : if numbered d then (rest.head?.map isWord).getD false = false
          else (rest.head?.map isDigit).getD false = false) :
    seg d (f + 1) pw (placeholder d k ++ rest) =
      (seg d f (numbered d) rest).map (Item.ph (if numbered d then some k else none) :: ·) := by
  obtain ⟨m1, m2, m3, m4⟩ := mark_facts d
  have hc : ∀ t : List Char, (mark d == '\'' || d == Backend.postgres && !pw && mark d == 'E' && t.head? == some '\'') = false := by
    intro t
    have a : (mark d == '\'') = false := by simpa using m1
    have b : (mark d == 'E') = false := by simpa using m2
    rw [a, b]; simp
  by_cases hn : numbered d = true
  · have hp := hpw hn
    simp only [hn, if_true] at hr ⊢
    have hrd : (rest.head?.map isDigit).getD false = false := by
      cases rest with
      | nil => simp
      | cons x xs =>
        simp at hr ⊢
        by_cases hx : isDigit x = true
        · have := isDigit_isWord x hx; simp [this] at hr
        · simpa using hx
    obtain ⟨t1, t2⟩ := takeWhile_digits (natText k) rest (natText_all_digits k) hrd
    simp only [placeholder, hn, if_true, List.cons_append]
    rw [seg, if_neg (by rw [hc]; simp), if_neg (by simpa using m3), if_neg (by rw [m4]; simp), if_pos (by simp), if_pos hn]
    simp only [t1, t2]
    have hne : (natText k).isEmpty = false := by
      cases h : natText k with
      | nil => exact absurd h (natText_ne_nil k)
      | cons _ _ => rfl
    rw [if_neg (by simp [hp, hne, hr]), parseNat_natText]
  · have hn' : numbered d = false := by simpa using hn
    simp only [hn', Bool.false_eq_true, if_false] at hr ⊢
    simp only [placeholder, hn', Bool.false_eq_true, if_false, List.cons_append, List.nil_append]
    rw [seg, if_neg (by rw [hc]; simp), if_neg (by simpa using m3), if_neg (by rw [m4]; simp), if_pos (by simp), if_neg hn,
      if_neg (by simp [hr])]

end SeaQ.Scan

namespace SeaQ.Scan
open SeaQ.Escape SeaQ.Render SeaQ.Stmt SeaQ.Literal

/-! ## literals -/

theorem ofNat_toNat_small (n : Nat) (h : n < 0xd800) : (Char.ofNat n).toNat = n := by
  simp [Char.ofNat, Nat.isValidChar, h, Char.ofNatAux, Char.toNat]

theorem hexDigitU_toNat (n : Nat) (h : n < 16) :
    (48 ≤ (hexDigitU n).toNat ∧ (hexDigitU n).toNat ≤ 57) ∨ (65 ≤ (hexDigitU n).toNat ∧ (hexDigitU n).toNat ≤ 70) := by
  unfold hexDigitU
  split
  · left; rw [ofNat_toNat_small _ (by omega)]; omega
  · right; rw [ofNat_toNat_small _ (by omega)]; omega

theorem hexU_chars (bs : List UInt8) : ∀ c ∈ hexU bs, c ≠ q ∧ c ≠ bsl := by
  intro c hc
  simp only [hexU, List.mem_flatMap, List.mem_cons, List.not_mem_nil, or_false] at hc
  obtain ⟨b, _, hb⟩ := hc
  have key : ∀ n, n < 16 → hexDigitU n ≠ q ∧ hexDigitU n ≠ bsl := by
    intro n hn
    have := hexDigitU_toNat n hn
    constructor
    · intro h; rw [h] at this; simp [q] at this
    · intro h; rw [h] at this; simp [bsl] at this
  have hb16 : b.toNat / 16 < 16 := by have := b.toNat_lt; omega
  cases hb with
  | inl h => rw [h]; exact key _ hb16
  | inr h => rw [h]; exact key _ (Nat.mod_lt _ (by decide))

theorem digit_plain (d : Backend) (c : Char) (h : isDigit c = true) : plainChar d c = true := by
  have hne : ∀ x : Char, (48 ≤ x.toNat ∧ x.toNat ≤ 57 → False) → c ≠ x := by
    intro x hx hcx; subst hcx
    simp [isDigit] at h; exact hx h
  have h1 := hne '\'' (by decide)
  have h2 := hne '"' (by decide)
  have h3 := hne '`' (by decide)
  have h4 := hne '[' (by decide)
  have h5 := hne '?' (by decide)
  have h6 := hne '$' (by decide)
  cases d <;> simp [plainChar, otherQuote, mark, Ident.quoteOf, SeaQ.Gen.Quote.mysqlQuote, SeaQ.Gen.Quote.postgresQuote,
    SeaQ.Gen.Quote.sqliteQuote, h1, h2, h3, h4, h5, h6]

theorem natText_getLast (n : Nat) : (natText n).getLast? = some (digitChar n) := by
  unfold natText; split <;> simp

theorem natText_plain (d : Backend) (n : Nat) : (natText n).all (plainChar d) = true := by
  simp only [List.all_eq_true]
  intro c hc
  exact digit_plain d c (natText_all_digits n c hc)

theorem intText_plain (d : Backend) (i : Int) : (intText i).all (plainChar d) = true := by
  unfold intText
  split
  · simp only [List.all_cons, Bool.and_eq_true]
    exact ⟨by cases d <;> decide, natText_plain d _⟩
  · exact natText_plain d _

theorem intText_getLast (i : Int) : ∃ n, (intText i).getLast? = some (digitChar n) := by
  unfold intText
  split
  · refine ⟨(-i).toNat, ?_⟩
    rw [List.getLast?_cons, natText_getLast]; simp
  · exact ⟨i.toNat, natText_getLast _⟩

theorem excluded_eq (d : Backend) : excludedChars d = SeaQ.Props.C03.excluded d := by cases d <;> rfl

theorem plainFollow_spec (d : Backend) (nxt : Option Char) (t : List Char) (h : plainFollow d nxt t = true) :
    d = .postgres → nxt = some '\'' → t.getLast? ≠ some 'E' := by
  intro hd hn he
  simp [plainFollow, hd, hn, he] at h

theorem seg_lit (d : Backend) (f : Nat) (pw : Bool) (v : Val) (rest : List Char)
    (hok : litOK d pw rest.head? v = true) :
    seg d ((litItems d v).length + f) pw (litText d v ++ rest) =
      (seg d f (litEndWord pw v) rest).map (litItems d v ++ ·) := by
  obtain ⟨ty, pl⟩ := v
  cases pl with
  | null =>
    simp only [litOK] at hok
    have hp : ("NULL".toList).all (plainChar d) = true := by cases d <;> decide
    have := seg_plain d f "NULL".toList pw rest hp (plainFollow_spec d _ _ (by simpa [litText] using hok))
    have e1 : isWord 'L' = true := by decide
    simpa [litItems, litText, litEndWord, lastWord, e1] using this
  | bool b =>
    simp only [litOK] at hok
    cases b with
    | true =>
      have hp : ("TRUE".toList).all (plainChar d) = true := by cases d <;> decide
      have := seg_plain d f "TRUE".toList pw rest hp (plainFollow_spec d _ _ (by simpa [litText] using hok))
      have e1 : isWord 'E' = true := by decide
      simpa [litItems, litText, litEndWord, lastWord, e1] using this
    | false =>
      have hp : ("FALSE".toList).all (plainChar d) = true := by cases d <;> decide
      have := seg_plain d f "FALSE".toList pw rest hp (plainFollow_spec d _ _ (by simpa [litText] using hok))
      have e1 : isWord 'E' = true := by decide
      simpa [litItems, litText, litEndWord, lastWord, e1] using this
  | int i =>
    simp only [litOK] at hok
    have := seg_plain d f (intText i) pw rest (intText_plain d i) (plainFollow_spec d _ _ (by simpa [litText] using hok))
    obtain ⟨n, hn⟩ := intText_getLast i
    have hw : lastWord pw (intText i) = true := by
      simp [lastWord, hn, isDigit_isWord _ (digitChar_isDigit n)]
    simpa [litItems, litText, litEndWord, hw] using this
  | num t =>
    simp only [litOK, Bool.and_eq_true] at hok
    have := seg_plain d f t.toList pw rest hok.1 (plainFollow_spec d _ _ hok.2)
    simpa [litItems, litText, litEndWord] using this
  | str s =>
    simp only [litOK, Bool.and_eq_true, Bool.or_eq_true, Bool.not_eq_true', bne_iff_ne, ne_eq] at hok
    obtain ⟨⟨h1, h2⟩, h3⟩ := hok
    have hrep : SeaQ.Props.C03.Representable d s := by
      intro x hx
      rw [← excluded_eq]
      have := (List.all_eq_true.mp h1) x hx
      simpa using this
    have hpw : (writeStr d s).head? = some 'E' → pw = false := by
      intro he
      cases h3 with
      | inl h => simp [he] at h
      | inr h => exact h
    have := seg_str d f pw s rest hrep h2 hpw
    simpa [litItems, litText, litEndWord, Nat.add_comm] using this
  | quoted t =>
    simp only [litOK, Bool.and_eq_true, bne_iff_ne, ne_eq] at hok
    obtain ⟨h1, h2⟩ := hok
    have hb : ∀ c ∈ t.toList, c ≠ q ∧ (d = .mysql → c ≠ bsl) := by
      intro c hc
      have := (List.all_eq_true.mp h1) c hc
      simp only [Bool.and_eq_true, bne_iff_ne, ne_eq] at this
      exact ⟨this.1, fun _ => this.2⟩
    have := seg_simpleQuoted d f pw t.toList rest hb h2
    simpa [litItems, litText, litEndWord, Nat.add_comm, q] using this
  | bytes b =>
    simp only [litOK, bne_iff_ne, ne_eq] at hok
    have hx := hexU_chars b
    cases d with
    | postgres =>
      have hb : ∀ c ∈ (bsl :: 'x' :: hexU b), c ≠ q ∧ (Backend.postgres = .mysql → c ≠ bsl) := by
        intro c hc
        simp only [List.mem_cons] at hc
        rcases hc with h | h | h
        · subst h; exact ⟨by decide, fun h => by cases h⟩
        · subst h; exact ⟨by decide, fun h => by cases h⟩
        · exact ⟨(hx c h).1, fun h => by cases h⟩
      have := seg_simpleQuoted .postgres f pw (bsl :: 'x' :: hexU b) rest hb hok
      simpa [litItems, litText, litEndWord, writeBytes, Nat.add_comm, q] using this
    | mysql =>
      have hb : ∀ c ∈ hexU b, c ≠ q ∧ (Backend.mysql = .mysql → c ≠ bsl) := fun c hc => ⟨(hx c hc).1, fun _ => (hx c hc).2⟩
      have h2 := seg_simpleQuoted .mysql f (isWord 'x') (hexU b) rest hb hok
      have h1 := seg_plain .mysql (1 + f) ['x'] pw (q :: (hexU b ++ [q]) ++ rest) (by decide) (by intro h; cases h)
      simp only [litItems, litText, litEndWord, writeBytes, List.length_cons, List.length_nil]
      have e : 'x' :: q :: (hexU b ++ [q]) ++ rest = ['x'] ++ (q :: (hexU b ++ [q]) ++ rest) := by simp
      rw [e, show 0 + 1 + 1 + f = ['x'].length + (1 + f) by simp; omega, h1, Nat.add_comm 1 f]
      simp only [lastWord, List.getLast?_singleton]
      rw [h2]
      simp [Option.map_map, Function.comp_def, q]
    | sqlite =>
      have hb : ∀ c ∈ hexU b, c ≠ q ∧ (Backend.sqlite = .mysql → c ≠ bsl) := fun c hc => ⟨(hx c hc).1, fun h => by cases h⟩
      have h2 := seg_simpleQuoted .sqlite f (isWord 'x') (hexU b) rest hb hok
      have h1 := seg_plain .sqlite (1 + f) ['x'] pw (q :: (hexU b ++ [q]) ++ rest) (by decide) (by intro h; cases h)
      simp only [litItems, litText, litEndWord, writeBytes, List.length_cons, List.length_nil]
      have e : 'x' :: q :: (hexU b ++ [q]) ++ rest = ['x'] ++ (q :: (hexU b ++ [q]) ++ rest) := by simp
      rw [e, show 0 + 1 + 1 + f = ['x'].length + (1 + f) by simp; omega, h1, Nat.add_comm 1 f]
      simp only [lastWord, List.getLast?_singleton]
      rw [h2]
      simp [Option.map_map, Function.comp_def, q]

end SeaQ.Scan

namespace SeaQ.Scan
open SeaQ.Escape SeaQ.Render SeaQ.Stmt SeaQ.Literal

/-! ## one piece, then the whole list -/

theorem seg_piece (d : Backend) (inl : Bool) (f : Nat) (pw : Bool) (k : Nat) (p : Piece) (rest : List Char)
    (hok : okPiece d inl pw rest.head? p = true) :
    seg d ((pieceItems d inl k p).length + f) pw (pieceTxt d inl k p ++ rest) =
      (seg d f (endWord d inl pw p) rest).map (pieceItems d inl k p ++ ·) := by
  cases p with
  | s t =>
    simp only [okPiece, Bool.and_eq_true] at hok
    have := seg_plain d f t.toList pw rest hok.1 (plainFollow_spec d _ _ hok.2)
    simpa [pieceItems, pieceTxt, endWord] using this
  | raw t =>
    simp only [okPiece, Bool.and_eq_true] at hok
    have := seg_plain d f t pw rest hok.1 (plainFollow_spec d _ _ hok.2)
    simpa [pieceItems, pieceTxt, endWord] using this
  | id n =>
    simp only [okPiece, bne_iff_ne, ne_eq] at hok
    have := seg_ident d f pw n.toList rest hok
    simpa [pieceItems, pieceTxt, endWord, identText, Nat.add_comm] using this
  | c v =>
    simp only [okPiece] at hok
    simpa [pieceItems, pieceTxt, endWord] using seg_lit d f pw v rest hok
  | p v =>
    cases inl with
    | true =>
      simp only [okPiece, if_true] at hok
      simpa [pieceItems, pieceTxt, endWord] using seg_lit d f pw v rest hok
    | false =>
      simp only [okPiece, Bool.false_eq_true, if_false] at hok
      have hpw : numbered d = true → pw = false := by
        intro hn; simp [hn] at hok; exact hok.1
      have hr : if numbered d then (rest.head?.map isWord).getD false = false
          else (rest.head?.map isDigit).getD false = false := by
        by_cases hn : numbered d = true
        · simp [hn] at hok ⊢; exact hok.2
        · simp [hn] at hok ⊢; exact hok
      have := seg_param d f pw (k + 1) rest hpw hr
      simpa [pieceItems, pieceTxt, endWord, Nat.add_comm] using this
  | bad => simp [okPiece] at hok

/-- **the reading of a safe piece list is the piece-wise one** -/
theorem seg_txt (d : Backend) (inl : Bool) : ∀ (ps : Pieces) (pw : Bool) (k : Nat),
    safe d inl pw k ps = true →
    seg d (items d inl k ps).length pw (txt d inl k ps) = some (items d inl k ps) := by
  intro ps
  induction ps with
  | nil => intro pw k _; simp [items, txt, seg]
  | cons p r ih =>
    intro pw k hs
    simp only [safe, Bool.and_eq_true] at hs
    have h1 := seg_piece d inl (items d inl (nextK inl k p) r).length pw k p (txt d inl (nextK inl k p) r) hs.1
    have h2 := ih (endWord d inl pw p) (nextK inl k p) hs.2
    simp only [items, txt, List.length_append]
    rw [h1, h2]
    simp

theorem items_length_le (d : Backend) (inl : Bool) : ∀ (ps : Pieces) (pw : Bool) (k : Nat),
    safe d inl pw k ps = true → (items d inl k ps).length ≤ (txt d inl k ps).length := by
  intro ps
  induction ps with
  | nil => intro _ _ _; simp [items, txt]
  | cons p r ih =>
    intro pw k hs
    simp only [safe, Bool.and_eq_true] at hs
    have h2 := ih (endWord d inl pw p) (nextK inl k p) hs.2
    have h1 : (pieceItems d inl k p).length ≤ (pieceTxt d inl k p).length := by
      have litLen : ∀ v : Val, (litItems d v).length ≤ (litText d v).length := by
        intro v
        obtain ⟨ty, pl⟩ := v
        cases pl <;> simp [litItems, litText]
        · cases d <;> simp [writeStr] <;> (try split) <;> simp
        · cases d <;> simp [writeBytes]
      cases p with
      | s t => simp [pieceItems, pieceTxt]
      | raw t => simp [pieceItems, pieceTxt]
      | id n => simp [pieceItems, pieceTxt, identText, Ident.prepare]
      | c v => simpa [pieceItems, pieceTxt] using litLen v
      | p v =>
        cases inl with
        | true => simpa [pieceItems, pieceTxt] using litLen v
        | false => simp [pieceItems, pieceTxt, placeholder]; split <;> simp
      | bad => simp [pieceItems, pieceTxt]
    simp only [items, txt, List.length_append]
    omega

theorem segment_txt (d : Backend) (inl : Bool) (ps : Pieces) (h : safe d inl false 0 ps = true) :
    segment d (txt d inl 0 ps) = some (items d inl 0 ps) :=
  seg_mono_le d _ _ (items_length_le d inl ps false 0 h) false _ _ (seg_txt d inl ps false 0 h)

/-! ## the two writers are `txt` -/

theorem txt_param (d : Backend) : ∀ (ps : Pieces) (k : Nat), txt d false k ps = (textPFrom d k ps).1 := by
  intro ps
  induction ps with
  | nil => intro k; simp [txt, textPFrom]
  | cons p r ih =>
    intro k
    cases p <;> simp [txt, textPFrom, pieceTxt, nextK, ih]

theorem txt_inline (d : Backend) : ∀ (ps : Pieces) (k : Nat), txt d true k ps = textI d ps := by
  intro ps
  induction ps with
  | nil => intro k; simp [txt, textI]
  | cons p r ih =>
    intro k
    cases p <;> simp [txt, textI, pieceTxt, nextK, ih]

end SeaQ.Scan
