import SeaQ.Lemmas.Plain
/-!
GENERATED from `RenderBalance.lean` by `bin/gen-plain` — do not edit.
`B d` = "every piece of renderer text consists of basic characters" for everything the statement renderer writes.
-/
namespace SeaQ.Plain
open SeaQ.Escape SeaQ.Render SeaQ.Stmt SeaQ.SafeN

variable {d : Backend}

theorem B_id (n : String) : B d [.id n] := by bal
theorem B_p (v : Val) : B d [.p v] := by bal
theorem B_c (v : Val) : B d [.c v] := by bal

/-! ## spelling tables contain no parentheses -/

theorem binOpCommon_flat (i : Nat) (t : String) (h : binOpCommon i = some t) : tok t = true := by
  unfold binOpCommon at h
  split at h <;> first | (cases h; decide) | cases h
theorem binOpPg_flat (i : Nat) (t : String) (h : binOpPg i = some t) : tok t = true := by
  unfold binOpPg at h
  split at h <;> first | (cases h; decide) | cases h
theorem binOpSqlite_flat (i : Nat) (t : String) (h : binOpSqlite i = some t) : tok t = true := by
  unfold binOpSqlite at h
  split at h <;> first | (cases h; decide) | cases h
theorem fnMysql_flat (i : Nat) (t : String) (h : SeaQ.Gen.Spell.fnMysql i = some t) : tok t = true := by
  unfold SeaQ.Gen.Spell.fnMysql at h
  split at h <;> first | (cases h; decide) | cases h
theorem fnPostgres_flat (i : Nat) (t : String) (h : SeaQ.Gen.Spell.fnPostgres i = some t) : tok t = true := by
  unfold SeaQ.Gen.Spell.fnPostgres at h
  split at h <;> first | (cases h; decide) | cases h
theorem fnSqlite_flat (i : Nat) (t : String) (h : SeaQ.Gen.Spell.fnSqlite i = some t) : tok t = true := by
  unfold SeaQ.Gen.Spell.fnSqlite at h
  split at h <;> first | (cases h; decide) | cases h
theorem fnCommon_flat (d : Backend) (i : Nat) (t : String) (h : fnCommon d i = some t) : tok t = true := by
  cases d
  · exact fnMysql_flat i t h
  · exact fnPostgres_flat i t h
  · exact fnSqlite_flat i t h
theorem fnPg_flat (i : Nat) (t : String) (h : fnPg i = some t) : tok t = true := by
  unfold fnPg at h
  split at h <;> first | (cases h; decide) | cases h

theorem joinKw_flat (i : Nat) (t : String) (h : joinKw i = some t) : tok t = true := by
  unfold joinKw at h
  split at h <;> first | (cases h; decide) | cases h
theorem lockKw_flat (i : Nat) (t : String) (h : lockKw i = some t) : tok t = true := by
  unfold lockKw at h
  split at h <;> first | (cases h; decide) | cases h
theorem lockBehaviorKw_flat (i : Nat) (t : String) (h : lockBehaviorKw i = some t) : tok t = true := by
  unfold lockBehaviorKw at h
  split at h <;> first | (cases h; decide) | cases h
theorem subOpKw_flat (i : Nat) (t : String) (h : subOpKw i = some t) : tok t = true := by
  unfold subOpKw at h
  split at h <;> first | (cases h; decide) | cases h
theorem keywordKw_flat (i : Nat) (t : String) (h : keywordKw i = some t) : tok t = true := by
  unfold keywordKw at h
  split at h <;> first | (cases h; decide) | cases h

/-- a keyword from a regenerated table -/
theorem b_kwPiece (o : Option String) (h : ∀ t, o = some t → tok t = true) : B d (kwPiece o) := by
  cases o with
  | none => exact B_bad
  | some t => exact B_S t (h t rfl)

theorem b_rOp (d : Backend) (o : Op) : B d (rOp d o) := by
  cases o with
  | custom s => exact B_raw _
  | std i =>
    simp only [rOp]
    cases h : binOpCommon i with
    | some t => exact B_S t (binOpCommon_flat i t h)
    | none =>
      cases d <;> simp only
      · exact B_bad
      · cases h2 : binOpPg i with
        | some t => exact B_S t (binOpPg_flat i t h2)
        | none => exact B_bad
      · cases h2 : binOpSqlite i with
        | some t => exact B_S t (binOpSqlite_flat i t h2)
        | none => exact B_bad

theorem b_rFn (d : Backend) (f : Fn) : B d (rFn d f) := by
  cases f with
  | custom s => exact B_raw _
  | std i =>
    simp only [rFn]
    cases h : fnCommon d i with
    | some t => exact B_S t (fnCommon_flat d i t h)
    | none => exact B_bad
  | pg i =>
    cases d <;> simp only [rFn]
    · exact B_bad
    · cases h : fnPg i with
      | some t => exact B_S t (fnPg_flat i t h)
      | none => exact B_bad
    · exact B_bad

theorem b_rKw (kw : Kw) : B d (rKw kw) := by
  cases kw <;> first | exact B_raw _ | (simp only [rKw]; exact b_kwPiece _ (fun t h => keywordKw_flat _ t h))

theorem b_rSubOp (d : Backend) (o : SubOp) : B d (rSubOp d o) := by
  cases o <;> simp only [rSubOp] <;> (try split) <;> first | exact B_bad | exact b_kwPiece _ (fun t h => subOpKw_flat _ t h)

theorem b_rOptSubOp (d : Backend) (o : Option SubOp) : B d (rOptSubOp d o) := by
  cases o with
  | none => exact B_nil
  | some o => exact b_rSubOp d o

theorem b_rJoinType (d : Backend) (n : Nat) : B d (rJoinType d n) := by
  unfold rJoinType
  split <;> first | exact B_bad | exact b_kwPiece _ (fun t h => joinKw_flat _ t h)

theorem b_rColRef (c : ColRef) : B d (rColRef c) := by cases c <;> (simp only [rColRef]; bal)

theorem b_sep (first : Bool) (t : String) (h : tok t = true) : B d (if first then [] else [S t]) :=
  B_ite B_nil (B_S t h)

theorem b_rColRefs : ∀ (l : List ColRef) (first : Bool), B d (rColRefs first l) := by
  intro l; induction l with
  | nil => intro _; exact B_nil
  | cons c r ih => intro first; simp only [rColRefs]; exact B.app (B.app (b_sep first ", " (by decide)) (b_rColRef c)) (ih false)

theorem b_rIdents : ∀ (l : List String) (first : Bool), B d (rIdents first l) := by
  intro l; induction l with
  | nil => intro _; exact B_nil
  | cons c r ih => intro first; simp only [rIdents]; exact B.app (B.app (b_sep first ", " (by decide)) (B_id c)) (ih false)

theorem b_rParts : ∀ (l : List String) (first : Bool), B d (rParts first l) := by
  intro l; induction l with
  | nil => intro _; exact B_nil
  | cons c r ih => intro first; simp only [rParts]; exact B.app (B.app (b_sep first "." (by decide)) (B_id c)) (ih false)

theorem b_rTName (n : TName) : B d (rTName n) := by
  unfold rTName
  refine B.app (b_rParts _ true) ?_
  cases n.alias <;> bal

theorem b_rTNames : ∀ (l : List TName) (first : Bool), B d (rTNames first l) := by
  intro l; induction l with
  | nil => intro _; exact B_nil
  | cons c r ih => intro first; simp only [rTNames]; exact B.app (B.app (b_sep first ", " (by decide)) (b_rTName c)) (ih false)

theorem b_rVals : ∀ (l : List Val) (first : Bool), B d (rVals first l) := by
  intro l; induction l with
  | nil => intro _; exact B_nil
  | cons c r ih => intro first; simp only [rVals]; exact B.app (B.app (b_sep first ", " (by decide)) (B_p c)) (ih false)

theorem b_rValueRows (d : Backend) : ∀ (l : List (List Val)) (first : Bool), B d (rValueRows d first l) := by
  intro l; induction l with
  | nil => intro _; exact B_nil
  | cons c r ih =>
    intro first
    simp only [rValueRows]
    have h1 : Bk d 1 ((if first = true then [] else [S ", "]) ++ (if (d == Backend.mysql) = true then [S "ROW"] else []) ++ [S "("]) :=
      B.appk (B.app (b_sep first ", " (by decide)) (B_ite (B_S _ (by decide)) B_nil)) (Bk_S "(" 1 (by decide))
    exact B.app (Bk.close (j := 0) (Bk.appB h1 (b_rVals c true)) (Cl_S ")" (by decide))) (ih false)

theorem b_rBound (b : Bound) : B d (rBound b) := by cases b <;> (simp only [rBound]; bal)

theorem b_rFrame (f : Frame) : B d (rFrame f) := by
  unfold rFrame
  refine B.app (by cases f.rows <;> bal) ?_
  cases f.stop with
  | none => exact b_rBound _
  | some e => exact B.app (B.app (B.app (B_S _ (by decide)) (b_rBound _)) (B_S _ (by decide))) (b_rBound e)

theorem b_rOptFrame (f : Option Frame) : B d (rOptFrame f) := by
  cases f with
  | none => exact B_nil
  | some f => exact b_rFrame f

theorem b_rDistinct (d : Backend) (x : Distinct) : B d (rDistinct d x) := by
  cases x <;> simp only [rDistinct]
  case all => bal
  case distinct => bal
  case distinctRow => exact B_ite (B_S _ (by decide)) B_nil
  case distinctOn cols =>
    exact B_ite (Bk.close (j := 0) (Bk.appB (Bk_S "DISTINCT ON (" 1 (by decide)) (b_rColRefs cols true)) (Cl_S ")" (by decide))) B_nil

theorem b_rOptDistinct (d : Backend) (x : Option Distinct) : B d (rOptDistinct d x) := by
  cases x with
  | none => exact B_nil
  | some x => exact B.app (b_rDistinct d x) (B_S _ (by decide))

theorem b_rHints : ∀ (l : List Hint) (first : Bool), B d (rHints first l) := by
  intro l; induction l with
  | nil => intro _; exact B_nil
  | cons h r ih =>
    intro first
    simp only [rHints]
    refine B.app (B.app (B.app (B.app (B_S _ (by decide)) ?_) ?_) (by bal)) (ih _)
    · split <;> bal
    · split <;> bal

theorem b_rSample (x : Sample) : B d (rSample x) := by
  unfold rSample
  have h1 : B d [S (if (x.method == 0) = true then " TABLESAMPLE BERNOULLI" else " TABLESAMPLE SYSTEM"), S " (", Piece.raw x.pct.toList, S ")"] := by
    have a : B d [S (if (x.method == 0) = true then " TABLESAMPLE BERNOULLI" else " TABLESAMPLE SYSTEM")] := by split <;> bal
    exact B.app a (Bk.close (j := 0) (Bk.appB (Bk_S " (" 1 (by decide)) (B_raw _)) (Cl_S ")" (by decide)))
  refine B.app h1 ?_
  cases x.rep with
  | none => exact B_nil
  | some r => exact Bk.close (j := 0) (Bk.appB (Bk_S " REPEATABLE (" 1 (by decide)) (B_raw _)) (Cl_S ")" (by decide))

theorem b_rOptSample (x : Option Sample) : B d (rOptSample x) := by
  cases x with
  | none => exact B_nil
  | some x => exact b_rSample x

theorem b_rLock (d : Backend) (l : Lock) : B d (rLock d l) := by
  unfold rLock
  refine B_ite B_nil (B.app (B.app (B.app (B_S _ (by decide)) (b_kwPiece _ (fun t h => lockKw_flat _ t h)))
    (B_ite B_nil (B.app (B_S _ (by decide)) (b_rTNames _ true)))) ?_)
  unfold rLockBehavior
  split
  · exact b_kwPiece _ (fun t h => lockBehaviorKw_flat _ t h)
  · exact B_nil

theorem b_rOptLock (d : Backend) (l : Option Lock) : B d (rOptLock d l) := by
  cases l with
  | none => exact B_nil
  | some l => exact B.app (B_S _ (by decide)) (b_rLock d l)

theorem b_rOrderKw (o : OrderKind) : B d (rOrderKw o) := by cases o <;> (simp only [rOrderKw]; bal)

theorem b_rFieldArms (key : Pieces) (hk : B d key) : ∀ (vs : List Val) (i : Nat), B d (rFieldArms key i vs) := by
  intro vs; induction vs with
  | nil => intro i; simp only [rFieldArms]; exact B.app (B.app (B_S _ (by decide)) (B_raw _)) (B_S _ (by decide))
  | cons v r ih =>
    intro i
    simp only [rFieldArms]
    have h2 : B d [S "=", Piece.c v, S " THEN ", Piece.raw (natText i), S " "] :=
      B.app (B.app (a := [S "=", Piece.c v, S " THEN "]) (by bal) (B_raw _)) (B_S " " (by decide))
    exact B.app (B.app (B.app (B_S _ (by decide)) hk) h2) (ih (i + 1))

theorem b_rDefaultRows (d : Backend) : ∀ (n : Nat) (first : Bool), B d (rDefaultRows d first n) := by
  intro n; induction n with
  | zero => intro _; exact B_nil
  | succ n ih =>
    intro first
    simp only [rDefaultRows]
    refine B.app (B.app (b_sep first ", " (by decide)) ?_) (ih false)
    split <;> bal

theorem b_rSelfAssign : ∀ (l : List String) (first : Bool), B d (rSelfAssign first l) := by
  intro l; induction l with
  | nil => intro _; exact B_nil
  | cons c r ih => intro first; simp only [rSelfAssign]; exact B.app (B.app (b_sep first ", " (by decide)) (by bal)) (ih false)

theorem b_rLimit (kw : String) (v : Option Val) (h : tok kw = true) : B d (rLimit kw v) := by
  cases v with
  | none => exact B_nil
  | some v => exact B.app (B_S kw h) (B_p v)

theorem b_rAlias (a : Option String) : B d (rAlias a) := by cases a <;> (simp only [rAlias]; bal)

theorem b_rMaterialized (m : Option Bool) : B d (rMaterialized m) := by
  cases m with
  | none => exact B_nil
  | some b => cases b <;> (simp only [rMaterialized]; bal)

theorem b_wrap {ps : Pieces} (h : B d ps) (b : Bool) : B d (wrap b ps) := by
  unfold wrap; exact B_ite h (B.paren h)

theorem b_binLeft (d : Backend) (l : Ex) (o : Op) {rl : Pieces} (h : B d rl) : B d (binLeft d l o rl) := by
  unfold binLeft
  exact B.app (B.app (B.app (b_wrap h _) (B_S _ (by decide))) (b_rOp d o)) (B_S _ (by decide))

theorem b_condSep (any first : Bool) : B d (condSep any first) := by
  unfold condSep; cases first <;> cases any <;> bal

/-- the middle of one `ORDER BY` element, given the rendered key (as in `RenderCtx`) -/
def orderBody (d : Backend) (e : Ex) (key : Pieces) (k : OrderKind) (nulls : Option Bool) : Pieces :=
  let isField := match k with | .field _ => true | _ => false
  let keyEq := wrap (greater d (shapeOf e) (.bin (.std 10))) key
  let keyIs := wrap (greater d (shapeOf e) (.bin (.std 4))) key
  let core := (if isField then [] else key) ++ rOrderKw k ++
    (match k with | .field vs => [S "CASE "] ++ rFieldArms keyEq 0 vs | _ => [])
  (match d with
   | .mysql =>
     (match nulls with
      | none => []
      | some false => keyIs ++ [S " IS NULL ASC, "]
      | some true => keyIs ++ [S " IS NULL DESC, "]) ++ core
   | _ =>
     core ++ (match nulls with | none => [] | some false => [S " NULLS LAST"] | some true => [S " NULLS FIRST"]))

theorem rOrders_cons (d : Backend) (first : Bool) (e : Ex) (k : OrderKind) (nulls : Option Bool) (r : OrderList) :
    rOrders d first (.cons e k nulls r) =
      (if first then [] else [S ", "]) ++ orderBody d e (rEx d e) k nulls ++ rOrders d false r := by
  simp only [rOrders, orderBody]
  cases d <;> cases k <;> (try rfl) <;> cases nulls <;> (try rfl) <;> rename_i b <;> cases b <;> rfl

theorem b_orderBody (d : Backend) (e : Ex) (key : Pieces) (hkey : B d key) (k : OrderKind) (nulls : Option Bool) :
    B d (orderBody d e key k nulls) := by
  have hcore : B d ((if (match k with | .field _ => true | _ => false) = true then [] else key) ++ rOrderKw k ++
      (match k with | .field vs => [S "CASE "] ++ rFieldArms (wrap (greater d (shapeOf e) (.bin (.std 10))) key) 0 vs | _ => [])) := by
    cases k with
    | asc => simpa [rOrderKw] using B.app hkey (B_S " ASC" (by decide))
    | desc => simpa [rOrderKw] using B.app hkey (B_S " DESC" (by decide))
    | field vs =>
      simp only [rOrderKw, ↓reduceIte, List.nil_append, List.append_nil]
      exact B.app (B_S _ (by decide)) (b_rFieldArms _ (b_wrap hkey _) vs 0)
  unfold orderBody
  cases d with
  | mysql =>
    cases nulls with
    | none => simpa using hcore
    | some b =>
      cases b
      · exact B.app (B.app (b_wrap hkey _) (B_S _ (by decide))) hcore
      · exact B.app (B.app (b_wrap hkey _) (B_S _ (by decide))) hcore
  | postgres =>
    cases nulls with
    | none => simpa using hcore
    | some b => cases b <;> exact B.app hcore (B_S _ (by decide))
  | sqlite =>
    cases nulls with
    | none => simpa using hcore
    | some b => cases b <;> exact B.app hcore (B_S _ (by decide))

/-! ## the renderer -/

macro "lit" : tactic => `(tactic| bal)

mutual
theorem b_ex (d : Backend) : ∀ (e : Ex), B d (rEx d e)
  | .col c => by simp only [rEx]; exact b_rColRef c
  | .tuple l => by simp only [rEx]; exact B.paren (b_exlist d true l)
  | .unary e => by simp only [rEx]; exact B.app (a := [S "NOT", S " "]) (by lit) (b_wrap (b_ex d e) _)
  | .func f dist args => by
    simp only [rEx]
    exact Bk.close (j := 0) (Bk.appB (B.appk (b_rFn d f) (Bk_S "(" 1 (by decide))) (b_args d true dist args)) (Cl_S ")" (by decide))
  | .bin l o r => by
    simp only [rEx]
    have hl : B d (binLeft d l o (rEx d l)) := b_binLeft d l o (b_ex d l)
    split
    · lit
    · split
      · lit
      · split
        · exact B.app hl (b_bounds d _ r)
        · exact B.app hl (b_wrap (b_ex d r) _)
  | .subq o q => by
    simp only [rEx]
    exact Bk.close (j := 0) (Bk.appB (B.appk (b_rOptSubOp d o) (Bk_S "(" 1 (by decide))) (b_query d q)) (Cl_S ")" (by decide))
  | .value v => by simp only [rEx]; exact B_p v
  | .values vs => by simp only [rEx]; exact B.paren (b_rVals vs true)
  | .cust s => by simp only [rEx]; exact B_raw _
  | .custWith t vals => by
    simp only [rEx]
    exact B.app (B_ite B_nil B_mark) (B_template t _ (b_exeach d vals))
  | .keyword kw => by simp only [rEx]; exact b_rKw kw
  | .asEnum ty e => by
    simp only [rEx]
    cases d with
    | postgres =>
      simp only
      refine Bk.close (j := 0) (Bk.appB (Bk.appB (Bk.appB (Bk_S "CAST(" 1 (by decide)) (b_ex .postgres e)) (B_S " AS " (by decide))) (B_ite ?_ ?_)) (Cl_S ")" (by decide))
      · lit
      · lit
    | mysql => exact b_ex .mysql e
    | sqlite => exact b_ex .sqlite e
  | .case whens els => by
    simp only [rEx]
    exact Bk.close (j := 0) (Bk.appB (Bk.appB (Bk_S "(CASE" 1 (by decide)) (b_case d whens)) (b_optex d " ELSE " els (by decide))) (Cl_S " END)" (by decide))
  | .const v => by simp only [rEx]; exact B_c v
theorem b_bounds (d : Backend) (outer : Oper) : ∀ (e : Ex), B d (rBounds d outer e)
  | .bin lo _ hi => by
    simp only [rBounds]
    exact B.app (B.app (b_wrap (b_ex d lo) _) (B_S _ (by decide))) (b_wrap (b_ex d hi) _)
  | .col _ | .tuple _ | .unary _ | .func _ _ _ | .subq _ _ | .value _ | .values _ | .cust _ | .custWith _ _
  | .keyword _ | .asEnum _ _ | .case _ _ | .const _ => by simp only [rBounds]; exact B_nil
theorem b_exlist (d : Backend) : ∀ (first : Bool) (l : ExList), B d (rExList d first l)
  | _, .nil => by simp only [rExList]; exact B_nil
  | first, .cons e r => by
    simp only [rExList]
    exact B.app (B.app (b_sep first ", " (by decide)) (b_ex d e)) (b_exlist d false r)
theorem b_exeach (d : Backend) : ∀ (l : ExList), ∀ ps ∈ rExEach d l, B d ps
  | .nil => by simp [rExEach]
  | .cons e r => by
    intro ps hps
    simp only [rExEach, List.mem_cons] at hps
    rcases hps with h | h
    · subst h; exact b_ex d e
    · exact b_exeach d r ps h
theorem b_optex (d : Backend) (pre : String) : ∀ (o : Option Ex), tok pre = true → B d (rOptEx d pre o)
  | none => fun _ => by simp only [rOptEx]; exact B_nil
  | some e => fun h => by simp only [rOptEx]; exact B.app (B_S pre h) (b_ex d e)
theorem b_args (d : Backend) : ∀ (first : Bool) (ms : List Bool) (l : ExList), B d (rArgs d first ms l)
  | _, _, .nil => by simp only [rArgs]; exact B_nil
  | first, ms, .cons e r => by
    simp only [rArgs]
    exact B.app (B.app (B.app (b_sep first ", " (by decide)) (B_ite (B_S _ (by decide)) B_nil)) (b_ex d e)) (b_args d false ms.tail r)
theorem b_case (d : Backend) : ∀ (l : CaseList), B d (rCase d l)
  | .nil => by simp only [rCase]; exact B_nil
  | .cons c e r => by
    simp only [rCase]
    exact B.app (B.app (Bk.close (j := 0) (Bk.appB (Bk_S " WHEN (" 1 (by decide)) (b_cond d c)) (Cl_S ") THEN " (by decide))) (b_ex d e)) (b_case d r)
theorem b_cond (d : Backend) : ∀ (c : Cond), B d (rCond d c)
  | .mk neg any items => by
    simp only [rCond]
    have hb : B d (if (itemsLen items == 0) = true then [.c ⟨"Bool", .bool (!any)⟩]
        else rItems d any (itemsLen items == 1) true items) := B_ite (B_c _) (b_items d any _ true items)
    exact B_ite (B.app (a := [S "NOT", S " "]) (by lit) (b_wrap hb _)) hb
theorem b_items (d : Backend) (any single : Bool) : ∀ (first : Bool) (l : CondItems), B d (rItems d any single first l)
  | _, .nil => by simp only [rItems]; exact B_nil
  | first, .consC c r => by
    simp only [rItems]
    exact B.app (B.app (b_condSep any first) (b_wrap (b_cond d c) _)) (b_items d any single false r)
  | first, .consE e r => by
    simp only [rItems]
    exact B.app (B.app (b_condSep any first) (b_wrap (b_ex d e) _)) (b_items d any single false r)
theorem b_holder (d : Backend) (kw : String) : ∀ (h : Holder), tok kw = true → B d (rHolder d kw h)
  | .empty => fun _ => by simp only [rHolder]; exact B_nil
  | .chain l => fun hk => by
    simp only [rHolder]
    exact B.app (B.app (B.app (a := [S " "]) (by lit) (B_S kw hk)) (B_S " " (by decide))) (b_chain d _ true l)
  | .cond c => fun hk => by
    simp only [rHolder]
    exact B.app (B.app (B.app (a := [S " "]) (by lit) (B_S kw hk)) (B_S " " (by decide))) (b_cond d c)
theorem b_chain (d : Backend) (len : Nat) : ∀ (first : Bool) (l : ChainList), B d (rChain d len first l)
  | _, .nil => by simp only [rChain]; exact B_nil
  | first, .cons isOr e r => by
    simp only [rChain]
    have h1 : B d (if first = true then [] else [S " ", S (if isOr = true then "OR" else "AND"), S " "]) := by
      cases first <;> cases isOr <;> lit
    exact B.app (B.app h1 (b_wrap (b_ex d e) _)) (b_chain d len false r)
theorem b_query (d : Backend) : ∀ (q : Query), B d (rQuery d q)
  | .sel s => by simp only [rQuery]; exact b_select d s
  | .ins s => by simp only [rQuery]; exact b_insert d s
  | .upd s => by simp only [rQuery]; exact b_update d s
  | .del s => by simp only [rQuery]; exact b_delete d s
  | .withq w q => by simp only [rQuery]; exact B.app (b_with d w) (b_query d q)
theorem b_select (d : Backend) : ∀ (s : Select), B d (rSelect d s)
  | .mk with_ distinct selects from_ hints sample joins where_ groups having unions orders limit offset lock windowName window => by
    simp only [rSelect]
    have hfrom : B d (if TRefList.isNil from_ = true then []
        else [S " FROM "] ++ rTRefs d true from_ ++ (if (d == Backend.mysql) = true then rHints true hints else []) ++
          (if (d == Backend.postgres) = true then rOptSample sample else [])) :=
      B_ite B_nil (B.app (B.app (B.app (B_S _ (by decide)) (b_trefs d true from_)) (B_ite (b_rHints hints true) B_nil))
        (B_ite (b_rOptSample sample) B_nil))
    have p1 := B.app (B.app (B.app (b_optwith d with_) (B_S "SELECT " (by decide))) (b_rOptDistinct d distinct)) (b_sellist d true selects)
    have p2 := B.app (B.app (B.app p1 hfrom) (b_joins d joins)) (b_holder d "WHERE" where_ (by decide))
    have p3 := B.app (B.app p2 (B_ite (c := groups.isEmpty = true) B_nil (B.app (B_S " GROUP BY " (by decide)) (b_exlist d true groups))))
      (b_holder d "HAVING" having (by decide))
    have p4 := B.app (B.app p3 (b_unions d unions))
      (B_ite (c := OrderList.isNil orders = true) B_nil (B.app (B_S " ORDER BY " (by decide)) (b_orders d true orders)))
    have p5 := B.app (B.app p4 (b_rLimit " LIMIT " limit (by decide))) (b_rLimit " OFFSET " offset (by decide))
    exact B.app (B.app p5 (b_rOptLock d lock)) (b_optwindow d windowName window)
theorem b_optwith (d : Backend) : ∀ (o : Option WithClause), B d (rOptWith d o)
  | none => by simp only [rOptWith]; exact B_nil
  | some w => by simp only [rOptWith]; exact b_with d w
theorem b_optwindow (d : Backend) (name : String) : ∀ (o : Option Window), B d (rOptWindow d name o)
  | none => by simp only [rOptWindow]; exact B_nil
  | some w => by simp only [rOptWindow]; exact B.app (a := [S " WINDOW ", .id name, S " AS "]) (by lit) (b_window d w)
theorem b_sellist (d : Backend) : ∀ (first : Bool) (l : SelList), B d (rSelList d first l)
  | _, .nil => by simp only [rSelList]; exact B_nil
  | first, .cons e win alias r => by
    simp only [rSelList]
    exact B.app (B.app (B.app (B.app (b_sep first ", " (by decide)) (b_ex d e)) (b_winsel d win)) (b_rAlias alias)) (b_sellist d false r)
theorem b_winsel (d : Backend) : ∀ (w : WinSel), B d (rWinSel d w)
  | .none => by simp only [rWinSel]; exact B_nil
  | .name n => by simp only [rWinSel]; lit
  | .query w => by
    simp only [rWinSel]
    exact Bk.close (j := 0) (Bk.appB (a := [S " OVER ", S "( "]) (by lit) (b_window d w)) (Cl_S " )" (by decide))
theorem b_window (d : Backend) : ∀ (w : Window), B d (rWindow d w)
  | .mk partition orders frame => by
    simp only [rWindow]
    exact B.app (B.app (B_ite (c := partition.isEmpty = true) B_nil (B.app (B_S "PARTITION BY " (by decide)) (b_exlist d true partition)))
      (B_ite (c := OrderList.isNil orders = true) B_nil (B.app (B_S " ORDER BY " (by decide)) (b_orders d true orders)))) (b_rOptFrame frame)
theorem b_orders (d : Backend) : ∀ (first : Bool) (l : OrderList), B d (rOrders d first l)
  | _, .nil => by simp only [rOrders]; exact B_nil
  | first, .cons e k nulls r => by
    rw [rOrders_cons]
    exact B.app (B.app (b_sep first ", " (by decide)) (b_orderBody d e _ (b_ex d e) k nulls)) (b_orders d false r)
theorem b_tref (d : Backend) : ∀ (t : TRef), B d (rTRef d t)
  | .named n => by simp only [rTRef]; exact b_rTName n
  | .subq s a => by
    simp only [rTRef]
    exact Bk.close (j := 0) (Bk.appB (Bk_S "(" 1 (by decide)) (b_select d s)) (r := [S ")", S " AS ", .id a]) (by lit)
  | .valuesList rows a => by
    simp only [rTRef]
    exact Bk.close (j := 0) (Bk.appB (a := [S "(", S "VALUES "]) (by lit) (b_rValueRows d rows true)) (r := [S ")", S " AS ", .id a]) (by lit)
  | .func f dist args a => by
    simp only [rTRef]
    exact Bk.close (j := 0) (Bk.appB (B.appk (b_rFn d f) (Bk_S "(" 1 (by decide))) (b_args d true dist args)) (r := [S ")", S " AS ", .id a]) (by lit)
theorem b_trefs (d : Backend) : ∀ (first : Bool) (l : TRefList), B d (rTRefs d first l)
  | _, .nil => by simp only [rTRefs]; exact B_nil
  | first, .cons t r => by
    simp only [rTRefs]
    exact B.app (B.app (b_sep first ", " (by decide)) (b_tref d t)) (b_trefs d false r)
theorem b_joins (d : Backend) : ∀ (l : JoinList), B d (rJoins d l)
  | .nil => by simp only [rJoins]; exact B_nil
  | .cons ty lateral t on r => by
    simp only [rJoins]
    exact B.app (B.app (B.app (B.app (B.app (B.app (B_S " " (by decide)) (b_rJoinType d ty)) (B_S " " (by decide)))
      (B_ite (B_S _ (by decide)) B_nil)) (b_tref d t)) (b_holder d "ON" on (by decide))) (b_joins d r)
theorem b_unions (d : Backend) : ∀ (l : UnionList), B d (rUnions d l)
  | .nil => by simp only [rUnions]; exact B_nil
  | .cons ty s r => by
    simp only [rUnions]
    have h1 : B d [S (rUnionKw ty)] := by unfold rUnionKw; split <;> lit
    have h2 : Bk d 1 [S (rUnionKw ty), S "("] := B.appk h1 (Bk_S "(" 1 (by decide))
    exact B.app (B_ite (B.app h1 (b_select d s)) (Bk.close (j := 0) (Bk.appB h2 (b_select d s)) (Cl_S ")" (by decide)))) (b_unions d r)
theorem b_with (d : Backend) : ∀ (w : WithClause), B d (rWith d w)
  | .mk recursive searchBreadth searchExpr searchAlias cycleExpr cycleSet cycleUsing ctes => by
    simp only [rWith]
    exact B.app (B.app (B.app (B_S "WITH " (by decide)) (B_ite (B_S _ (by decide)) B_nil)) (B_ite B_bad (b_ctes d true ctes)))
      (B_ite (B.app (b_search d searchBreadth searchAlias searchExpr) (b_cycle d cycleSet cycleUsing cycleExpr)) B_nil)
theorem b_search (d : Backend) (breadth : Bool) (alias : String) : ∀ (o : Option Ex), B d (rSearch d breadth alias o)
  | none => by simp only [rSearch]; exact B_nil
  | some e => by
    simp only [rSearch]
    have h1 : B d [S (if breadth = true then "SEARCH BREADTH FIRST BY " else "SEARCH DEPTH FIRST BY ")] := by cases breadth <;> lit
    exact B.app (B.app h1 (b_ex d e)) (b := [S " SET ", .id alias, S " "]) (by lit)
theorem b_cycle (d : Backend) (setAs using_ : String) : ∀ (o : Option Ex), B d (rCycle d setAs using_ o)
  | none => by simp only [rCycle]; exact B_nil
  | some e => by
    simp only [rCycle]
    exact B.app (B.app (B_S "CYCLE " (by decide)) (b_ex d e)) (b := [S " SET ", .id setAs, S " USING ", .id using_, S " "]) (by lit)
theorem b_ctes (d : Backend) : ∀ (first : Bool) (l : CteList), B d (rCtes d first l)
  | _, .nil => by simp only [rCtes]; exact B_nil
  | first, .cons name cols mat q r => by
    simp only [rCtes]
    have hc : B d (if cols.isEmpty = true then [S " "] else [S " ("] ++ rIdents true cols ++ [S ") "]) :=
      B_ite (B_S _ (by decide)) (Bk.close (j := 0) (Bk.appB (Bk_S " (" 1 (by decide)) (b_rIdents cols true)) (Cl_S ") " (by decide)))
    have x4 := B.app (B.app (B.app (B.app (b_sep first ", " (by decide)) (B_id name)) hc) (B_S "AS " (by decide)))
      (B_ite (c := (d == Backend.mysql) = true) B_nil (b_rMaterialized mat))
    exact B.app (Bk.close (j := 0) (Bk.appB (B.appk x4 (Bk_S "(" 1 (by decide))) (b_query d q)) (Cl_S ") " (by decide))) (b_ctes d false r)
theorem b_insert (d : Backend) : ∀ (s : Insert), B d (rInsert d s)
  | .mk with_ replace table columns source onConflict returning defaultValues => by
    simp only [rInsert]
    have x1 : B d [S (if replace = true then "REPLACE" else "INSERT")] := by cases replace <;> lit
    have b1 : B d ([S " "] ++ if (d == Backend.sqlite) = true then [S "DEFAULT VALUES"] else [S "VALUES "] ++ rDefaultRows d true (defaultValues.getD 0)) :=
      B.app (B_S _ (by decide)) (B_ite (B_S _ (by decide)) (B.app (B_S _ (by decide)) (b_rDefaultRows d _ true)))
    have b2 : B d ([S " ", S "("] ++ rIdents true columns ++ [S ")"] ++ rSource d source) :=
      B.app (Bk.close (j := 0) (Bk.appB (a := [S " ", S "("]) (by lit) (b_rIdents columns true)) (Cl_S ")" (by decide))) (b_source d source)
    exact B.app (B.app (B.app (B.app (B.app (b_optwith d with_) x1) (b_opttref d " INTO " table (by decide)))
      (B_ite (c := (defaultValues.isSome && columns.isEmpty && InsSource.isNone source) = true) b1 b2)) (b_optonconflict d onConflict)) (b_returning d returning)
theorem b_opttref (d : Backend) (pre : String) : ∀ (o : Option TRef), tok pre = true → B d (rOptTRef d pre o)
  | none => fun _ => by simp only [rOptTRef]; exact B_nil
  | some t => fun h => by simp only [rOptTRef]; exact B.app (B_S pre h) (b_tref d t)
theorem b_optonconflict (d : Backend) : ∀ (o : Option OnConflict), B d (rOptOnConflict d o)
  | none => by simp only [rOptOnConflict]; exact B_nil
  | some oc => by simp only [rOptOnConflict]; exact b_onconflict d oc
theorem b_source (d : Backend) : ∀ (s : InsSource), B d (rSource d s)
  | .none => by simp only [rSource]; exact B_nil
  | .values rows => by simp only [rSource]; exact B.app (a := [S " ", S "VALUES "]) (by lit) (b_rows d true rows)
  | .select s => by simp only [rSource]; exact B.app (B_S " " (by decide)) (b_select d s)
theorem b_rows (d : Backend) : ∀ (first : Bool) (l : RowList), B d (rRows d first l)
  | _, .nil => by simp only [rRows]; exact B_nil
  | first, .cons row r => by
    simp only [rRows]
    exact B.app (Bk.close (j := 0) (Bk.appB (B.appk (b_sep first ", " (by decide)) (Bk_S "(" 1 (by decide))) (b_exlist d true row)) (Cl_S ")" (by decide))) (b_rows d false r)
theorem b_onconflict (d : Backend) : ∀ (o : OnConflict), B d (rOnConflict d o)
  | .mk targets targetWhere action actionWhere => by
    simp only [rOnConflict]
    have x1 : B d [S (if (d == Backend.mysql) = true then " ON DUPLICATE KEY" else " ON CONFLICT ")] := by split <;> lit
    exact B.app (B.app (B.app (B.app x1 (B_ite (c := (d == Backend.mysql || TargetList.isNil targets) = true) B_nil (B.paren (b_targets d true targets))))
      (B_ite (c := (d == Backend.mysql) = true) B_nil (b_holder d "WHERE" targetWhere (by decide)))) (b_action d action))
      (B_ite (c := (d == Backend.mysql) = true) B_nil (b_holder d "WHERE" actionWhere (by decide)))
theorem b_targets (d : Backend) : ∀ (first : Bool) (l : TargetList), B d (rTargets d first l)
  | _, .nil => by simp only [rTargets]; exact B_nil
  | first, .col c r => by
    simp only [rTargets]
    exact B.app (B.app (b_sep first ", " (by decide)) (B_id c)) (b_targets d false r)
  | first, .expr e r => by
    simp only [rTargets]
    exact B.app (B.app (b_sep first ", " (by decide)) (b_ex d e)) (b_targets d false r)
theorem b_action (d : Backend) : ∀ (a : Action), B d (rAction d a)
  | .none => by simp only [rAction]; exact B_nil
  | .doNothing pk => by
    simp only [rAction]
    exact B_ite (B_ite (B_S _ (by decide)) (B.app (B_S " UPDATE " (by decide)) (b_rSelfAssign pk true))) (B_S _ (by decide))
  | .update l => by
    simp only [rAction]
    have h1 : B d [S (if (d == Backend.mysql) = true then " UPDATE " else " DO UPDATE SET ")] := by split <;> lit
    exact B.app h1 (b_upds d true l)
theorem b_upds (d : Backend) : ∀ (first : Bool) (l : UpdList), B d (rUpds d first l)
  | _, .nil => by simp only [rUpds]; exact B_nil
  | first, .col c r => by
    simp only [rUpds]
    exact B.app (B.app (B.app (b_sep first ", " (by decide)) (b := [.id c, S " = "]) (by lit)) (B_ite (by lit) (by lit))) (b_upds d false r)
  | first, .expr c e r => by
    simp only [rUpds]
    exact B.app (B.app (B.app (b_sep first ", " (by decide)) (b := [.id c, S " = "]) (by lit)) (b_ex d e)) (b_upds d false r)
theorem b_returning (d : Backend) : ∀ (r : Returning), B d (rReturning d r)
  | .none => by simp only [rReturning]; exact B_nil
  | .all => by simp only [rReturning]; exact B_ite B_nil (by lit)
  | .cols cs => by simp only [rReturning]; exact B_ite B_nil (B.app (B_S " RETURNING " (by decide)) (b_rColRefs cs true))
  | .exprs es => by simp only [rReturning]; exact B_ite B_nil (B.app (B_S " RETURNING " (by decide)) (b_exlist d true es))
theorem b_update (d : Backend) : ∀ (s : Update), B d (rUpdate d s)
  | .mk with_ table sets where_ orders limit returning from_ => by
    simp only [rUpdate]
    have p1 := B.app (B.app (b_optwith d with_) (B_S "UPDATE " (by decide))) (b_opttable d table)
    have p2 := B.app (B.app p1 (B_ite (c := (d == Backend.mysql) = true) (b_updatejoin d _ from_ (b_holder d "ON" where_ (by decide))) B_nil))
      (B_S " SET " (by decide))
    have p3 := B.app p2 (b_sets d (if (d == Backend.mysql && !TRefList.isNil from_) = true then updateQual table else none) true sets)
    have p4 := B.app p3 (B_ite (c := (d == Backend.mysql || !!TRefList.isNil from_) = true) B_nil (B.app (B_S " FROM " (by decide)) (b_trefs d true from_)))
    have p5 := B.app (B.app p4 (B_ite (c := (d == Backend.mysql && !TRefList.isNil from_) = true) B_nil (b_holder d "WHERE" where_ (by decide))))
      (b_returning d returning)
    have p6 := B.app p5 (B_ite (c := OrderList.isNil orders = true) B_nil (B.app (B_S " ORDER BY " (by decide)) (b_orders d true orders)))
    exact B.app p6 (b_rLimit " LIMIT " limit (by decide))
theorem b_opttable (d : Backend) : ∀ (o : Option TRef), B d (rOptTable d o)
  | none => by simp only [rOptTable]; exact B_nil
  | some t => by simp only [rOptTable]; exact b_tref d t
theorem b_updatejoin (d : Backend) (on : Pieces) : ∀ (l : TRefList), B d on → B d (rUpdateJoin d on l)
  | .nil => fun _ => by simp only [rUpdateJoin]; exact B_nil
  | .cons t _ => fun hon => by
    simp only [rUpdateJoin]
    exact B.app (B.app (B_S " JOIN " (by decide)) (b_tref d t)) hon
theorem b_sets (d : Backend) (qual : Option String) : ∀ (first : Bool) (l : SetList), B d (rSets d qual first l)
  | _, .nil => by simp only [rSets]; exact B_nil
  | first, .cons c e r => by
    simp only [rSets]
    have hr := b_sets d qual false r
    cases qual with
    | none => exact B.app (B.app (B.app (B.app (b_sep first ", " (by decide)) B_nil) (b := [.id c, S " = "]) (by lit)) (b_ex d e)) hr
    | some t => exact B.app (B.app (B.app (B.app (b_sep first ", " (by decide)) (b := [.id t, S "."]) (by lit)) (b := [.id c, S " = "]) (by lit)) (b_ex d e)) hr
theorem b_delete (d : Backend) : ∀ (s : Delete), B d (rDelete d s)
  | .mk with_ table where_ orders limit returning => by
    simp only [rDelete]
    exact B.app (B.app (B.app (B.app (B.app (B.app (b_optwith d with_) (B_S "DELETE " (by decide))) (b_opttref d "FROM " table (by decide)))
      (b_holder d "WHERE" where_ (by decide))) (b_returning d returning))
      (B_ite (c := OrderList.isNil orders = true) B_nil (B.app (B_S " ORDER BY " (by decide)) (b_orders d true orders))))
      (b_rLimit " LIMIT " limit (by decide))
end

end SeaQ.Plain
