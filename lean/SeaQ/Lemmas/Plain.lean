import SeaQ.Lemmas.SafeBasics
/-!
The text the renderer itself writes (`.s` pieces: keywords, operators, punctuation, type names) never
contains a quote character, a placeholder mark or `[`.

`B ps`: every `.s` piece of `ps` consists of `basicChar`s — unless the list contains a template mark
(`bad`), about which nothing is claimed.  The combinators have the names and shapes of those in
`Balance.lean`, so that the induction over the render functions (`RenderPlain.lean`) is the same
script as `RenderBalance.lean`.
-/
namespace SeaQ.Plain
open SeaQ.Escape SeaQ.Render SeaQ.Stmt SeaQ.SafeN

def tok (t : String) : Bool := t.toList.all basicChar

/-- renderer text is basic; the one exception is the array suffix `[]` of a Postgres cast / array type -/
def okP (d : Backend) : Piece → Bool
  | .s t => tok t || (d == .postgres && t == "[]")
  | _ => true

/-- the template mark -/
def badP : Piece → Bool
  | .raw t => t.isEmpty
  | _ => false

def bad (ps : Pieces) : Bool := ps.any badP

def B (d : Backend) (ps : Pieces) : Prop := bad ps = true ∨ ps.all (okP d) = true
/-- same shape as `Balance.Bk` / `Balance.Cl` (the depth plays no role here) -/
def Bk (d : Backend) (_k : Nat) (ps : Pieces) : Prop := B d ps
def Cl (d : Backend) (ps : Pieces) : Prop := B d ps

variable {d : Backend}

theorem bad_append (a b : Pieces) : bad (a ++ b) = (bad a || bad b) := by simp [bad]

theorem B.app {a b : Pieces} (ha : B d a) (hb : B d b) : B d (a ++ b) := by
  cases ha with
  | inl h => left; simp [bad_append, h]
  | inr ha =>
    cases hb with
    | inl h => left; simp [bad_append, h]
    | inr hb => right; simp [ha, hb]

theorem Bk.app {j k : Nat} {a b : Pieces} (ha : Bk d j a) (hb : Bk d k b) : Bk d (j + k) (a ++ b) := B.app ha hb
theorem Bk.appB {j : Nat} {a b : Pieces} (ha : Bk d j a) (hb : B d b) : Bk d j (a ++ b) := B.app ha hb
theorem B.appk {k : Nat} {a b : Pieces} (ha : B d a) (hb : Bk d k b) : Bk d k (a ++ b) := B.app ha hb
theorem Bk.close {j : Nat} {a r : Pieces} (ha : Bk d (j + 1) a) (hr : Cl d r) : Bk d j (a ++ r) := B.app ha hr

theorem B_nil : B d [] := Or.inr rfl
theorem B_raw (t : List Char) : B d [.raw t] := Or.inr rfl
theorem B_ite {c : Prop} [Decidable c] {a b : Pieces} (ha : B d a) (hb : B d b) : B d (if c then a else b) := by
  split <;> assumption
theorem Bk_ite {k : Nat} {c : Prop} [Decidable c] {a b : Pieces} (ha : Bk d k a) (hb : Bk d k b) : Bk d k (if c then a else b) := by
  split <;> assumption

theorem Bk_S (t : String) (k : Nat) (h : tok t = true) : Bk d k [S t] := Or.inr (by simp [okP, S, h])
theorem B_S (t : String) (h : tok t = true) : B d [S t] := Bk_S t 0 h
theorem Cl_S (t : String) (h : tok t = true) : Cl d [S t] := Bk_S t 0 h

theorem B.paren {x : Pieces} (hx : B d x) : B d ([S "("] ++ x ++ [S ")"]) :=
  Bk.close (j := 0) (Bk.appB (Bk_S "(" 1 (by decide)) hx) (Cl_S ")" (by decide))


/-! ### template expansions (same names and shapes as in `Balance.lean`) -/

theorem B_mark : B d [.raw []] := Or.inl (by decide)
theorem B_bad : B d [.bad] := Or.inr rfl

theorem getD_cases {α} (l : List α) (i : Nat) (dflt : α) : l.getD i dflt ∈ l ∨ l.getD i dflt = dflt := by
  simp only [List.getD_eq_getElem?_getD]
  cases h : l[i]? with
  | none => right; rfl
  | some x => left; simpa using List.mem_of_getElem? h

theorem B_flatMap_template (rendered : List Pieces) (hr : ∀ ps ∈ rendered, B d ps) :
    ∀ l : List Template.Piece, B d (l.flatMap (fun | .lit s => [Piece.raw s] | .val i => rendered.getD i [.bad]))
  | [] => B_nil
  | .lit s :: r => by
    simp only [List.flatMap_cons]
    exact B.app (B_raw s) (B_flatMap_template rendered hr r)
  | .val i :: r => by
    simp only [List.flatMap_cons]
    refine B.app ?_ (B_flatMap_template rendered hr r)
    rcases getD_cases rendered i [.bad] with h | h
    · exact hr _ h
    · rw [h]; exact B_bad

theorem B_template (t : String) (rendered : List Pieces) (hr : ∀ ps ∈ rendered, B d ps) :
    B d (rTemplate d t rendered) := by
  simp only [rTemplate]
  split
  · exact B_bad
  · exact B_flatMap_template rendered hr _

/-- an explicit piece list: evaluate -/
theorem B_of (ps : Pieces) (h : ps.all (okP d) = true) : B d ps := Or.inr h
theorem Bk_of (ps : Pieces) (k : Nat) (h : ps.all (okP d) = true) : Bk d k ps := Or.inr h
theorem Cl_of (ps : Pieces) (h : ps.all (okP d) = true) : Cl d ps := Or.inr h

macro "bal" : tactic => `(tactic| first | exact B_of _ (by rfl) | exact Bk_of _ _ (by rfl) | exact Cl_of _ (by rfl))

end SeaQ.Plain
