import SeaQ.Lemmas.Ctx
/-!
`ctx` holds for everything the statement renderer writes: by mutual structural induction over the
statement AST, following the 41 render functions of `Model/Render.lean`.
-/
namespace SeaQ.SafeN
open SeaQ.Escape SeaQ.Render SeaQ.Stmt SeaQ.Scan

/-- fine after a character that does not continue a word and before a separator -/
def CU (ps : Pieces) : Prop := ∀ pw k, pw = false → okK k = true → ctx pw k ps = true
/-- fine after anything and before a separator -/
def CS (ps : Pieces) : Prop := ∀ pw k, okK k = true → ctx pw k ps = true
/-- fine anywhere -/
def CT (ps : Pieces) : Prop := ∀ pw k, ctx pw k ps = true
/-- list form: the first element is an operand, later ones follow a separator -/
def CF (first : Bool) (ps : Pieces) : Prop := ∀ pw k, (first = true → pw = false) → okK k = true → ctx pw k ps = true

theorem CS.toU {ps : Pieces} (h : CS ps) : CU ps := fun pw k _ hk => h pw k hk
theorem CT.toS {ps : Pieces} (h : CT ps) : CS ps := fun pw k _ => h pw k

theorem okK_orElse' {h k : HK} (hh : okK h = true) (hk : okK k = true) : okK (h.orElse k) = true := okK_orElse h k hh hk
theorem notQ_orElse' {h k : HK} (hh : notQ h = true) (hk : notQ k = true) : notQ (h.orElse k) = true := by
  cases h <;> simp_all [HK.orElse]
theorem notQ_of_okK' {k : HK} (h : okK k = true) : notQ k = true := notQ_of_okK k h
theorem okK_ite {c : Prop} [Decidable c] {a b : Pieces} (ha : okK (hK a) = true) (hb : okK (hK b) = true) :
    okK (hK (if c then a else b)) = true := by split <;> assumption

@[simp] theorem okK_emp : okK .emp = true := rfl
@[simp] theorem okK_any : okK .any = false := rfl
theorem okK_ch (c : Char) : okK (.ch c) = okNext (some c) := rfl
@[simp] theorem notQ_emp : notQ .emp = true := rfl
@[simp] theorem notQ_any : notQ .any = false := rfl
theorem notQ_ch (c : Char) : notQ (.ch c) = (c != '\'') := rfl
theorem okNext_some (c : Char) : okNext (some c) = (!isWord c && c != '\'' && c != '"' && c != '`') := rfl
@[simp] theorem ch_orElse (c : Char) (k : HK) : (HK.ch c).orElse k = .ch c := rfl
@[simp] theorem any_orElse (k : HK) : HK.any.orElse k = .any := rfl
@[simp] theorem hL_nil : hL [] = .emp := rfl
@[simp] theorem hL_cons (c : Char) (r : List Char) : hL (c :: r) = .ch c := rfl

/-- evaluation of the context abstraction on explicit pieces -/
syntax "ev" ("[" Lean.Parser.Tactic.simpLemma,* "]")? : tactic
macro_rules
  | `(tactic| ev) => `(tactic|
    simp (config := {failIfUnchanged := false, maxDischargeDepth := 8}) [ctx, ctxP, isMark, hK, hP, S, notE, okK_ch, notQ_ch, okNext_some, endK, endKs, lastWord, isWord,
      SeaQ.Scan.isDigit, hK_append, endKs_append, ctx_app, okK_orElse', notQ_orElse', notQ_of_okK', *])
  | `(tactic| ev [$ts,*]) => `(tactic|
    simp (config := {failIfUnchanged := false, maxDischargeDepth := 8}) [ctx, ctxP, isMark, hK, hP, S, notE, okK_ch, notQ_ch, okNext_some, endK, endKs, lastWord, isWord,
      SeaQ.Scan.isDigit, hK_append, endKs_append, ctx_app, okK_orElse', notQ_orElse', notQ_of_okK', $ts,*, *])

/-! ## leaves -/

theorem CS_S (t : String) : CS [S t] := by
  intro pw k hk; simp [ctx, ctxP, S, hK, isMark, notQ_of_okK k hk]
theorem CS_raw (t : List Char) : CS [.raw t] := by
  intro pw k hk; simp [ctx, ctxP, hK, notQ_of_okK k hk]
theorem CS_bad : CS [.bad] := by
  intro pw k hk; simp [ctx, ctxP, isMark]
theorem CS_nil : CS [] := fun _ _ _ => rfl

theorem c_rOp (d : Backend) (o : Op) : CS (rOp d o) := by
  cases o with
  | custom s => exact CS_raw _
  | std i =>
    simp only [rOp]
    split
    · exact CS_S _
    · cases d <;> simp only <;> (try split) <;> first | exact CS_S _ | exact CS_bad

theorem c_rFn (d : Backend) (f : Fn) : CS (rFn d f) := by
  cases f with
  | custom s => exact CS_raw _
  | std i => simp only [rFn]; split <;> first | exact CS_S _ | exact CS_bad
  | pg i => cases d <;> simp only [rFn] <;> (try split) <;> first | exact CS_S _ | exact CS_bad

theorem c_kwPiece (t : Option String) : CS (kwPiece t) := by
  cases t <;> first | exact CS_S _ | exact CS_bad

theorem c_rKw (kw : Kw) : CS (rKw kw) := by
  cases kw <;> simp only [rKw] <;> first | exact c_kwPiece _ | exact CS_raw _

theorem c_rSubOp (d : Backend) (o : SubOp) : CS (rSubOp d o) := by
  cases o <;> simp only [rSubOp] <;> (try split) <;> first | exact c_kwPiece _ | exact CS_bad

theorem c_rOptSubOp (d : Backend) (o : Option SubOp) : CS (rOptSubOp d o) := by
  cases o with
  | none => exact CS_nil
  | some o => exact c_rSubOp d o

theorem c_rJoinType (d : Backend) (n : Nat) : CS (rJoinType d n) := by
  unfold rJoinType
  split <;> first | exact c_kwPiece _ | exact CS_bad

theorem c_rColRef (c : ColRef) : CS (rColRef c) := by
  intro pw k hk
  cases c <;> ev [rColRef]

/-! ## lists of leaves: head lemmas first -/

theorem h_rColRefs (l : List ColRef) : okK (hK (rColRefs false l)) = true := by cases l <;> ev [rColRefs]
theorem h_rIdents (l : List String) : okK (hK (rIdents false l)) = true := by cases l <;> ev [rIdents]
theorem h_rParts (l : List String) : okK (hK (rParts false l)) = true := by cases l <;> ev [rParts]
theorem h_rTNames (l : List TName) : okK (hK (rTNames false l)) = true := by cases l <;> ev [rTNames]
theorem h_rVals (l : List Val) : okK (hK (rVals false l)) = true := by cases l <;> ev [rVals]
theorem h_rValueRows (d : Backend) (l : List (List Val)) : okK (hK (rValueRows d false l)) = true := by cases l <;> ev [rValueRows]
theorem h_rDefaultRows (d : Backend) (n : Nat) : okK (hK (rDefaultRows d false n)) = true := by cases n <;> ev [rDefaultRows]
theorem h_rSelfAssign (l : List String) : okK (hK (rSelfAssign false l)) = true := by cases l <;> ev [rSelfAssign]

theorem c_rColRefs : ∀ (l : List ColRef) (first : Bool), CS (rColRefs first l) := by
  intro l
  induction l with
  | nil => intro first pw k hk; rfl
  | cons c r ih =>
    intro first pw k hk
    have ih' : ∀ pw k, okK k = true → ctx pw k (rColRefs false r) = true := ih false
    have hc : ∀ pw k, okK k = true → ctx pw k (rColRef c) = true := c_rColRef c
    have hh := h_rColRefs r
    cases first <;> ev [rColRefs]

theorem c_rIdents : ∀ (l : List String) (first : Bool), CS (rIdents first l) := by
  intro l
  induction l with
  | nil => intro first pw k hk; rfl
  | cons c r ih =>
    intro first pw k hk
    have ih' : ∀ pw k, okK k = true → ctx pw k (rIdents false r) = true := ih false
    have hh := h_rIdents r
    cases first <;> ev [rIdents]

theorem c_rParts : ∀ (l : List String) (first : Bool), CS (rParts first l) := by
  intro l
  induction l with
  | nil => intro first pw k hk; rfl
  | cons c r ih =>
    intro first pw k hk
    have ih' : ∀ pw k, okK k = true → ctx pw k (rParts false r) = true := ih false
    have hh := h_rParts r
    cases first <;> ev [rParts]

theorem c_rTName (n : TName) : CS (rTName n) := by
  intro pw k hk
  have h1 : ∀ pw k, okK k = true → ctx pw k (rParts true n.parts) = true := c_rParts n.parts true
  cases ha : n.alias <;> ev [rTName, ha]

theorem c_rTNames : ∀ (l : List TName) (first : Bool), CS (rTNames first l) := by
  intro l
  induction l with
  | nil => intro first pw k hk; rfl
  | cons c r ih =>
    intro first pw k hk
    have ih' : ∀ pw k, okK k = true → ctx pw k (rTNames false r) = true := ih false
    have hc : ∀ pw k, okK k = true → ctx pw k (rTName c) = true := c_rTName c
    have hh := h_rTNames r
    cases first <;> ev [rTNames]

theorem c_rVals : ∀ (l : List Val) (first : Bool), CF first (rVals first l) := by
  intro l
  induction l with
  | nil => intro first pw k _ hk; rfl
  | cons c r ih =>
    intro first pw k hpw hk
    have ih' : ∀ pw k, okK k = true → ctx pw k (rVals false r) = true := fun pw k hk => ih false pw k (by simp) hk
    have hh := h_rVals r
    cases first
    · ev [rVals]
    · have := hpw rfl; subst this; ev [rVals]

theorem c_rValueRows (d : Backend) : ∀ (l : List (List Val)) (first : Bool), CS (rValueRows d first l) := by
  intro l
  induction l with
  | nil => intro first pw k hk; rfl
  | cons c r ih =>
    intro first pw k hk
    have ih' : ∀ pw k, okK k = true → ctx pw k (rValueRows d false r) = true := ih false
    have hc : ∀ pw k, pw = false → okK k = true → ctx pw k (rVals true c) = true := fun pw k h1 h2 => c_rVals c true pw k (fun _ => h1) h2
    have hh := h_rValueRows d r
    cases first <;> cases d <;> ev [rValueRows]

theorem c_rDefaultRows (d : Backend) : ∀ (n : Nat) (first : Bool), CS (rDefaultRows d first n) := by
  intro n
  induction n with
  | zero => intro first pw k hk; rfl
  | succ n ih =>
    intro first pw k hk
    have ih' : ∀ pw k, okK k = true → ctx pw k (rDefaultRows d false n) = true := ih false
    have hh := h_rDefaultRows d n
    cases first <;> cases d <;> ev [rDefaultRows]

theorem c_rSelfAssign : ∀ (l : List String) (first : Bool), CS (rSelfAssign first l) := by
  intro l
  induction l with
  | nil => intro first pw k hk; rfl
  | cons c r ih =>
    intro first pw k hk
    have ih' : ∀ pw k, okK k = true → ctx pw k (rSelfAssign false r) = true := ih false
    have hh := h_rSelfAssign r
    cases first <;> ev [rSelfAssign]

theorem c_rBound (b : Bound) : CU (rBound b) := by
  intro pw k hpw hk
  subst hpw
  cases b <;> ev [rBound]

theorem c_rFrame (f : Frame) : CS (rFrame f) := by
  intro pw k hk
  have h1 : ∀ (b : Bound) pw k, pw = false → okK k = true → ctx pw k (rBound b) = true := c_rBound
  cases hs : f.stop <;> cases hr : f.rows <;> ev [rFrame, hs, hr]

theorem c_rOptFrame (f : Option Frame) : CS (rOptFrame f) := by
  cases f with
  | none => exact CS_nil
  | some f => exact c_rFrame f

theorem h_rOptFrame (f : Option Frame) : okK (hK (rOptFrame f)) = true := by
  cases f with
  | none => rfl
  | some f => cases hr : f.rows <;> ev [rOptFrame, rFrame, hr]

theorem c_rDistinct (d : Backend) (x : Distinct) : CS (rDistinct d x) := by
  intro pw k hk
  have h1 : ∀ l pw k, okK k = true → ctx pw k (rColRefs true l) = true := fun l => c_rColRefs l true
  cases x <;> cases d <;> ev [rDistinct]

/-- `DISTINCT .. ` ends with a space -/
theorem c_rOptDistinct (d : Backend) (x : Option Distinct) : CT (rOptDistinct d x) := by
  intro pw k
  cases x with
  | none => rfl
  | some x =>
    have h1 : ∀ pw k, okK k = true → ctx pw k (rDistinct d x) = true := c_rDistinct d x
    ev [rOptDistinct]

theorem e_rOptDistinct (d : Backend) (x : Option Distinct) : endKs false (rOptDistinct d x) = false := by
  cases x <;> ev [rOptDistinct]

theorem h_rHints (l : List Hint) (first : Bool) : okK (hK (rHints first l)) = true := by cases l <;> ev [rHints]

theorem c_rHints : ∀ (l : List Hint) (first : Bool), CS (rHints first l) := by
  intro l
  induction l with
  | nil => intro first pw k hk; rfl
  | cons c r ih =>
    intro first pw k hk
    have ih' : ∀ first pw k, okK k = true → ctx pw k (rHints first r) = true := ih
    have hh := h_rHints r
    ev [rHints]
    split <;> split <;> ev

theorem c_rSample (x : Sample) : CS (rSample x) := by
  intro pw k hk
  cases hr : x.rep <;> ev [rSample, hr]

theorem h_rOptSample (x : Option Sample) : okK (hK (rOptSample x)) = true := by
  cases x with
  | none => rfl
  | some x => ev [rOptSample, rSample]; split <;> ev

theorem c_rOptSample (x : Option Sample) : CS (rOptSample x) := by
  cases x with
  | none => exact CS_nil
  | some x => exact c_rSample x

theorem CS.app {a b : Pieces} (ha : CS a) (hb : CS b) (hh : okK (hK b) = true) : CS (a ++ b) :=
  fun pw k hk => ctx_app a b pw k (ha pw _ (okK_orElse' hh hk)) (hb _ k hk)
theorem CU.app {a b : Pieces} (ha : CU a) (hb : CS b) (hh : okK (hK b) = true) : CU (a ++ b) :=
  fun pw k hpw hk => ctx_app a b pw k (ha pw _ hpw (okK_orElse' hh hk)) (hb _ k hk)
theorem CS_ite {c : Prop} [Decidable c] {a b : Pieces} (ha : CS a) (hb : CS b) : CS (if c then a else b) := by
  split <;> assumption

/-- renderer text not ending in `E`, then something that may stand after anything -/
theorem CS.consS {b : Pieces} (t : String) (hE : notE t.toList = true) (hb : CS b) : CS (S t :: b) :=
  fun pw k hk => ctx_cons _ _ pw k (by simp [ctxP, S, hE]) (hb _ k hk)
/-- renderer text ending in a separator, then an operand -/
theorem CU.consS {b : Pieces} (t : String) (hE : notE t.toList = true) (hW : ∀ pw, lastWord pw t.toList = false) (hb : CU b) :
    CS (S t :: b) :=
  fun pw k hk => ctx_cons _ _ pw k (by simp [ctxP, S, hE]) (hb _ k (by simp [endK, S, hW]) hk)

theorem c_rLock (d : Backend) (l : Lock) : CS (rLock d l) := by
  unfold rLock
  split
  · exact CS_nil
  · have h2 : CS (if l.tables.isEmpty then [] else [S " OF "] ++ rTNames true l.tables) :=
      CS_ite CS_nil (CS.consS _ (by decide) (c_rTNames _ true))
    have h2h : okK (hK (if l.tables.isEmpty then [] else [S " OF "] ++ rTNames true l.tables)) = true := by
      split <;> ev
    have h3 : CS (rLockBehavior l.behavior) := by
      unfold rLockBehavior; split <;> first | exact c_kwPiece _ | exact CS_nil
    have h3h : okK (hK (rLockBehavior l.behavior)) = true := by
      unfold rLockBehavior
      split
      · rename_i b; unfold lockBehaviorKw; split <;> ev [kwPiece]
      · ev
    have := CS.consS "FOR " (by decide) (CS.app (CS.app (c_kwPiece (lockKw l.ty)) h2 h2h) h3 h3h)
    simpa [List.append_assoc] using this

theorem c_rOptLock (d : Backend) (l : Option Lock) : CS (rOptLock d l) := by
  intro pw k hk
  cases l with
  | none => rfl
  | some l =>
    have h1 : ∀ pw k, okK k = true → ctx pw k (rLock d l) = true := c_rLock d l
    ev [rOptLock]

theorem h_rOptLock (d : Backend) (l : Option Lock) : okK (hK (rOptLock d l)) = true := by
  cases l <;> ev [rOptLock]

theorem c_rOrderKw (o : OrderKind) : CS (rOrderKw o) := by
  intro pw k hk
  cases o <;> ev [rOrderKw]

theorem h_rOrderKw (o : OrderKind) : okK (hK (rOrderKw o)) = true := by
  cases o <;> ev [rOrderKw]

theorem c_rLimit (kw : String) (v : Option Val) (hE : notE kw.toList = true) (hW : ∀ pw, lastWord pw kw.toList = false) :
    CS (rLimit kw v) := by
  intro pw k hk
  cases v with
  | none => rfl
  | some v =>
    show ctx pw k [S kw, .p v] = true
    apply ctx_cons
    · simp [ctxP, S, hE]
    · apply ctx_cons
      · simp [ctxP, endK, S, hW, hk, hK]
      · rfl

/-- the text starts with a separator-like character -/
def sepStart : List Char → Bool
  | c :: _ => okNext (some c)
  | [] => false

theorem h_rLimit (kw : String) (v : Option Val) (hh : sepStart kw.toList = true) : okK (hK (rLimit kw v)) = true := by
  cases v with
  | none => rfl
  | some v =>
    show okK ((hL kw.toList).orElse _) = true
    cases h : kw.toList with
    | nil => simp [h, sepStart] at hh
    | cons c r => simpa [h, sepStart, okK_ch] using hh

example : CS (rLimit " LIMIT " none) := c_rLimit _ _ (by decide) (by decide)

theorem c_rAlias (a : Option String) : CS (rAlias a) := by
  intro pw k hk
  cases a <;> ev [rAlias]

theorem h_rAlias (a : Option String) : okK (hK (rAlias a)) = true := by
  cases a <;> ev [rAlias]

theorem c_rMaterialized (m : Option Bool) : CT (rMaterialized m) := by
  intro pw k
  cases m with
  | none => rfl
  | some b => cases b <;> ev [rMaterialized]

/-! ## combinators -/

/-- a prefix that may stand after anything and before anything, and ends in a character that does not
continue a word (it ends with renderer text such as `(` or a space) -/
def CTE (ps : Pieces) : Prop := ∀ pw k, ctx pw k ps = true ∧ endKs pw ps = false
/-- the same for a prefix that starts with an operand -/
def CUE (ps : Pieces) : Prop := ∀ pw k, pw = false → ctx pw k ps = true ∧ endKs pw ps = false

theorem CTE.toT {a : Pieces} (h : CTE a) : CT a := fun pw k => (h pw k).1
theorem CTE.appU {a b : Pieces} (ha : CTE a) (hb : CU b) : CS (a ++ b) :=
  fun pw k hk => ctx_app a b pw k (ha pw _).1 (hb _ k (ha pw k).2 hk)
theorem CTE.appS {a b : Pieces} (ha : CTE a) (hb : CS b) : CS (a ++ b) :=
  fun pw k hk => ctx_app a b pw k (ha pw _).1 (hb _ k hk)
theorem CTE.appT {a b : Pieces} (ha : CTE a) (hb : CT b) : CT (a ++ b) :=
  fun pw k => ctx_app a b pw k (ha pw _).1 (hb _ k)
theorem CTE.appE {a b : Pieces} (ha : CTE a) (hb : CTE b) : CTE (a ++ b) :=
  fun pw k => ⟨ctx_app a b pw k (ha pw _).1 (hb _ k).1, by rw [endKs_append]; exact (hb _ k).2⟩
theorem CT.appE {a b : Pieces} (ha : CT a) (hb : CTE b) : CTE (a ++ b) :=
  fun pw k => ⟨ctx_app a b pw k (ha pw _) (hb _ k).1, by rw [endKs_append]; exact (hb _ k).2⟩
theorem CUE.appU {a b : Pieces} (ha : CUE a) (hb : CU b) : CU (a ++ b) :=
  fun pw k hpw hk => ctx_app a b pw k (ha pw _ hpw).1 (hb _ k (ha pw k hpw).2 hk)
theorem CU.appS {a b : Pieces} (ha : CU a) (hb : CS b) (hh : okK (hK b) = true) : CU (a ++ b) := CU.app ha hb hh
theorem CS.thenE {a b : Pieces} (ha : CS a) (hb : CTE b) (hh : okK (hK b) = true) (hne : hK b ≠ .emp) : CTE (a ++ b) := by
  intro pw k
  refine ⟨ctx_app a b pw k (ha pw _ ?_) (hb _ k).1, by rw [endKs_append]; exact (hb _ k).2⟩
  cases h : hK b <;> simp_all
theorem CU.thenE {a b : Pieces} (ha : CU a) (hb : CTE b) (hh : okK (hK b) = true) (hne : hK b ≠ .emp) : CUE (a ++ b) := by
  intro pw k hpw
  refine ⟨ctx_app a b pw k (ha pw _ hpw ?_) (hb _ k).1, by rw [endKs_append]; exact (hb _ k).2⟩
  cases h : hK b <;> simp_all

theorem CU_ite {c : Prop} [Decidable c] {a b : Pieces} (ha : CU a) (hb : CU b) : CU (if c then a else b) := by
  split <;> assumption
theorem CT_ite {c : Prop} [Decidable c] {a b : Pieces} (ha : CT a) (hb : CT b) : CT (if c then a else b) := by
  split <;> assumption
theorem CT_nil : CT [] := fun _ _ => rfl

theorem CU_wrap {ps : Pieces} (h : CU ps) (b : Bool) : CU (wrap b ps) := by
  unfold wrap
  split
  · exact h
  · intro pw k _ hk
    have h1 : CTE [S "("] := by intro pw k; ev
    exact CS.app (CTE.appU h1 h) (CS_S ")") (by ev) pw k hk

theorem CF.toU {ps : Pieces} (h : CF true ps) : CU ps := fun pw k hpw hk => h pw k (fun _ => hpw) hk
theorem CF.toS {ps : Pieces} (h : CF false ps) : CS ps := fun pw k hk => h pw k (by simp) hk
theorem CS.toF {ps : Pieces} (h : CS ps) (first : Bool) : CF first ps := fun pw k _ hk => h pw k hk

/-! ## what the tail functions start with -/

theorem h_rExList (d : Backend) (l : ExList) : okK (hK (rExList d false l)) = true := by cases l <;> ev [rExList]
theorem h_rArgs (d : Backend) (ms : List Bool) (l : ExList) : okK (hK (rArgs d false ms l)) = true := by cases l <;> ev [rArgs]
theorem h_rCase (d : Backend) (l : CaseList) : okK (hK (rCase d l)) = true := by cases l <;> ev [rCase]
theorem h_rItems (d : Backend) (any single : Bool) (l : CondItems) : okK (hK (rItems d any single false l)) = true := by
  cases l <;> ev [rItems, condSep]
theorem h_rChain (d : Backend) (len : Nat) (l : ChainList) : okK (hK (rChain d len false l)) = true := by cases l <;> ev [rChain]
theorem h_rHolder (d : Backend) (kw : String) (h : Holder) : okK (hK (rHolder d kw h)) = true := by cases h <;> ev [rHolder]
theorem h_rSelList (d : Backend) (l : SelList) : okK (hK (rSelList d false l)) = true := by cases l <;> ev [rSelList]
theorem h_rWinSel (d : Backend) (w : WinSel) : okK (hK (rWinSel d w)) = true := by cases w <;> ev [rWinSel]
theorem h_rOrders (d : Backend) (l : OrderList) : okK (hK (rOrders d false l)) = true := by cases l <;> ev [rOrders]
theorem h_rTRefs (d : Backend) (l : TRefList) : okK (hK (rTRefs d false l)) = true := by cases l <;> ev [rTRefs]
theorem h_rJoins (d : Backend) (l : JoinList) : okK (hK (rJoins d l)) = true := by cases l <;> ev [rJoins]
theorem h_rUnions (d : Backend) (l : UnionList) : okK (hK (rUnions d l)) = true := by
  cases l with
  | nil => ev [rUnions]
  | cons ty s r =>
    have : ∀ ty, hL (rUnionKw ty).toList = .ch ' ' := by
      intro ty; unfold rUnionKw; split <;> ev
    cases d <;> ev [rUnions]
theorem h_rOptWindow (d : Backend) (n : String) (w : Option Window) : okK (hK (rOptWindow d n w)) = true := by cases w <;> ev [rOptWindow]
theorem h_rRows (d : Backend) (l : RowList) : okK (hK (rRows d false l)) = true := by cases l <;> ev [rRows]
theorem h_rTargets (d : Backend) (l : TargetList) : okK (hK (rTargets d false l)) = true := by cases l <;> ev [rTargets]
theorem h_rUpds (d : Backend) (l : UpdList) : okK (hK (rUpds d false l)) = true := by cases l <;> ev [rUpds]
theorem h_rSets (d : Backend) (q : Option String) (l : SetList) : okK (hK (rSets d q false l)) = true := by cases l <;> ev [rSets]
theorem h_rCtes (d : Backend) (l : CteList) : okK (hK (rCtes d false l)) = true := by cases l <;> ev [rCtes]
theorem h_rOnConflict (d : Backend) (o : OnConflict) : okK (hK (rOnConflict d o)) = true := by cases o; cases d <;> ev [rOnConflict]
theorem h_rOptOnConflict (d : Backend) (o : Option OnConflict) : okK (hK (rOptOnConflict d o)) = true := by
  cases o with
  | none => ev [rOptOnConflict]
  | some o => simpa [rOptOnConflict] using h_rOnConflict d o
theorem h_rReturning (d : Backend) (r : Returning) : okK (hK (rReturning d r)) = true := by cases r <;> cases d <;> ev [rReturning]
theorem h_rSource (d : Backend) (r : InsSource) : okK (hK (rSource d r)) = true := by cases r <;> ev [rSource]
theorem h_rAction (d : Backend) (a : Action) : okK (hK (rAction d a)) = true := by
  cases a <;> cases d <;> ev [rAction]
  split <;> ev
theorem h_rUpdateJoin (d : Backend) (on : Pieces) (l : TRefList) : okK (hK (rUpdateJoin d on l)) = true := by cases l <;> ev [rUpdateJoin]
theorem h_rOptEx (d : Backend) (pre : String) (o : Option Ex) (hp : sepStart pre.toList = true) : okK (hK (rOptEx d pre o)) = true := by
  cases o with
  | none => ev [rOptEx]
  | some e =>
    cases h : pre.toList with
    | nil => simp [h, sepStart] at hp
    | cons c r => simp only [h, sepStart] at hp; ev [rOptEx, h]
theorem h_rOptTRef (d : Backend) (pre : String) (o : Option TRef) (hp : sepStart pre.toList = true) : okK (hK (rOptTRef d pre o)) = true := by
  cases o with
  | none => ev [rOptTRef]
  | some e =>
    cases h : pre.toList with
    | nil => simp [h, sepStart] at hp
    | cons c r => simp only [h, sepStart] at hp; ev [rOptTRef, h]

/-! ## more combinators -/

theorem CT.appT {a b : Pieces} (ha : CT a) (hb : CT b) : CT (a ++ b) :=
  fun pw k => ctx_app a b pw k (ha pw _) (hb _ k)
theorem CT.appS {a b : Pieces} (ha : CT a) (hb : CS b) : CS (a ++ b) :=
  fun pw k hk => ctx_app a b pw k (ha pw _) (hb _ k hk)
theorem CUE.appS {a b : Pieces} (ha : CUE a) (hb : CS b) : CU (a ++ b) :=
  fun pw k hpw hk => ctx_app a b pw k (ha pw _ hpw).1 (hb _ k hk)
theorem CTE_ite {c : Prop} [Decidable c] {a b : Pieces} (ha : CTE a) (hb : CTE b) : CTE (if c then a else b) := by
  split <;> assumption
/-- a prefix after which the previous character does not continue a word, provided it did not before -/
theorem CTE.appK {a b : Pieces} (ha : CTE a) (hb : CT b) (he : endKs false b = false) : CTE (a ++ b) :=
  fun pw k => ⟨ctx_app a b pw k (ha pw _).1 (hb _ k), by rw [endKs_append, (ha pw k).2]; exact he⟩

/-- list prefix: nothing before the first element, a separator before the others -/
def CFE (first : Bool) (ps : Pieces) : Prop := ∀ pw k, (first = true → pw = false) → ctx pw k ps = true ∧ endKs pw ps = false
theorem CFE.appU {first : Bool} {a b : Pieces} (ha : CFE first a) (hb : CU b) : CF first (a ++ b) :=
  fun pw k hpw hk => ctx_app a b pw k (ha pw _ hpw).1 (hb _ k (ha pw k hpw).2 hk)
theorem CFE.appS {first : Bool} {a b : Pieces} (ha : CFE first a) (hb : CS b) : CF first (a ++ b) :=
  fun pw k hpw hk => ctx_app a b pw k (ha pw _ hpw).1 (hb _ k hk)
theorem CF.app {first : Bool} {a b : Pieces} (ha : CF first a) (hb : CS b) (hh : okK (hK b) = true) : CF first (a ++ b) :=
  fun pw k hpw hk => ctx_app a b pw k (ha pw _ hpw (okK_orElse' hh hk)) (hb _ k hk)
theorem CF.ofU {ps : Pieces} (h : CU ps) : CF true ps := fun pw k hpw hk => h pw k (hpw rfl) hk

theorem ct_S (t : String) (hE : notE t.toList = true) : CT [S t] := by
  intro pw k; simp [ctx, ctxP, S, isMark, hE]
theorem cte_S (t : String) (hE : notE t.toList = true) (hW : ∀ pw, lastWord pw t.toList = false) : CTE [S t] := by
  intro pw k; simp [ctx, ctxP, S, isMark, hE, endKs, endK, hW]
theorem cfe_sep (first : Bool) (t : String) (hE : notE t.toList = true) (hW : ∀ pw, lastWord pw t.toList = false) :
    CFE first (if first then [] else [S t]) := by
  intro pw k hpw
  cases first
  · simpa using cte_S t hE hW pw k
  · simp [ctx, endKs, hpw]
theorem ct_sep (first : Bool) (t : String) (hE : notE t.toList = true) : CT (if first then [] else [S t]) := by
  cases first
  · simpa using ct_S t hE
  · exact CT_nil
theorem CS_id (n : String) : CS [.id n] := by intro pw k hk; ev
theorem CT_bad : CT [.bad] := by intro pw k; ev

theorem cue_binLeft (d : Backend) (l : Ex) (o : Op) {rl : Pieces} (h : CU rl) : CUE (binLeft d l o rl) := by
  unfold binLeft
  have h1 : CUE (wrap (greater d (shapeOf l) (Oper.bin o) || (isBinWith l (· == o) && leftAssoc d o)) rl ++ [S " "]) :=
    CU.thenE (CU_wrap h _) (by intro pw k; ev) (by ev) (by ev)
  exact CU.thenE (CUE.appS h1 (c_rOp d o)) (by intro pw k; ev) (by ev) (by ev)

theorem c_rFieldArms (key : Pieces) (hkey : CU key) : ∀ (vs : List Val) (i : Nat), CS (rFieldArms key i vs) := by
  intro vs
  induction vs with
  | nil => intro i pw k hk; ev [rFieldArms]
  | cons v r ih =>
    intro i
    simp only [rFieldArms]
    have h1 : CS ([S "WHEN "] ++ key) := CTE.appU (by intro pw k; ev) hkey
    have h2 : CTE [S "=", .c v, S " THEN ", .raw (natText i), S " "] := by intro pw k; ev
    exact CTE.appS (CS.thenE h1 h2 (by ev) (by ev)) (ih (i + 1))

/-- the middle of one `ORDER BY` element, given the rendered key -/
def orderBody (d : Backend) (e : Ex) (key : Pieces) (k : OrderKind) (nulls : Option Bool) : Pieces :=
  let isField := match k with | .field _ => true | _ => false
  let keyEq := wrap (greater d (shapeOf e) (.bin (.std 10))) key
  let keyIs := wrap (greater d (shapeOf e) (.bin (.std 4))) key
  let core := (if isField then [] else key) ++ rOrderKw k ++
    (match k with | .field vs => [S "CASE "] ++ rFieldArms keyEq 0 vs | _ => [])
  (match d with
   | .mysql =>
     (match nulls with
      | none => []
      | some false => keyIs ++ [S " IS NULL ASC, "]
      | some true => keyIs ++ [S " IS NULL DESC, "]) ++ core
   | _ =>
     core ++ (match nulls with | none => [] | some false => [S " NULLS LAST"] | some true => [S " NULLS FIRST"]))

theorem rOrders_cons (d : Backend) (first : Bool) (e : Ex) (k : OrderKind) (nulls : Option Bool) (r : OrderList) :
    rOrders d first (.cons e k nulls r) =
      (if first then [] else [S ", "]) ++ orderBody d e (rEx d e) k nulls ++ rOrders d false r := by
  simp only [rOrders, orderBody]
  cases d <;> cases k <;> (try rfl) <;> cases nulls <;> (try rfl) <;> rename_i b <;> cases b <;> rfl

theorem cu_orderBody (d : Backend) (e : Ex) (key : Pieces) (hkey : CU key) (k : OrderKind) (nulls : Option Bool) :
    CU (orderBody d e key k nulls) := by
  have hcore : CU ((if (match k with | .field _ => true | _ => false) = true then [] else key) ++ rOrderKw k ++
      (match k with | .field vs => [S "CASE "] ++ rFieldArms (wrap (greater d (shapeOf e) (.bin (.std 10))) key) 0 vs | _ => [])) := by
    cases k with
    | asc => simpa [rOrderKw] using CU.app hkey (CS_S " ASC") (by ev)
    | desc => simpa [rOrderKw] using CU.app hkey (CS_S " DESC") (by ev)
    | field vs =>
      simp only [rOrderKw, ↓reduceIte, List.nil_append, List.append_nil]
      exact (CTE.appS (a := [S "CASE "]) (by intro pw k; ev) (c_rFieldArms _ (CU_wrap hkey _) vs 0)).toU
  have hnl : ∀ t : String, sepStart t.toList = true → notE t.toList = true → (∀ pw, lastWord pw t.toList = false) →
      CUE (wrap (greater d (shapeOf e) (.bin (.std 4))) key ++ [S t]) := by
    intro t h1 h2 h3
    refine CU.thenE (CU_wrap hkey _) (cte_S t h2 h3) ?_ ?_
    · cases h : t.toList with
      | nil => simp [h, sepStart] at h1
      | cons c r => simpa [hK, hP, S, h, sepStart, okK_ch] using h1
    · cases h : t.toList with
      | nil => simp [h, sepStart] at h1
      | cons c r => simp [hK, hP, S, h]
  unfold orderBody
  cases d with
  | mysql =>
    cases nulls with
    | none => simpa using hcore
    | some b =>
      cases b
      · exact CUE.appU (hnl " IS NULL ASC, " (by decide) (by decide) (by decide)) hcore
      · exact CUE.appU (hnl " IS NULL DESC, " (by decide) (by decide) (by decide)) hcore
  | postgres =>
    cases nulls with
    | none => simpa using hcore
    | some b => cases b <;> exact CU.app hcore (CS_S _) (by ev)
  | sqlite =>
    cases nulls with
    | none => simpa using hcore
    | some b => cases b <;> exact CU.app hcore (CS_S _) (by ev)

/-! ## the renderer -/

macro "lit" : tactic => `(tactic| (intro pw k; ev))
macro "litS" : tactic => `(tactic| (intro pw k hk; ev))

/-! ## template expansions (`CustomWithExpr`) that are lexically safe on their own (`Template.ok`) -/

/-- the pieces of an expansion: literal chunks and the renderings of the supplied expressions -/
def realT (rendered : List Pieces) (l : List Template.Piece) : Pieces :=
  l.flatMap (fun | .lit s => [Piece.raw s] | .val i => rendered.getD i [.bad])

theorem CU_getD (rendered : List Pieces) (hr : ∀ ps ∈ rendered, CU ps) (i : Nat) : CU (rendered.getD i [.bad]) := by
  simp only [List.getD_eq_getElem?_getD]
  cases h : rendered[i]? with
  | none => exact CS_bad.toU
  | some x => simpa using hr x (List.mem_of_getElem? h)

theorem hK_realT_lit (rendered : List Pieces) (c : Char) (s : List Char) (r : List Template.Piece) :
    hK (realT rendered (.lit (c :: s) :: r)) = .ch c := by
  simp [realT, hK, hP, hL, HK.orElse]

theorem tctx_ctx (rendered : List Pieces) (hr : ∀ ps ∈ rendered, CU ps) :
    ∀ (l : List Template.Piece) (pw pw' : Bool) (k : HK), (pw = true → pw' = true) → okK k = true →
      Template.tctx pw' l = true → ctx pw k (realT rendered l) = true
  | [], _, _, _, _, _, _ => rfl
  | .lit s :: r, pw, pw', k, hpw, hk, h => by
    simp only [Template.tctx, Bool.and_eq_true, Bool.not_eq_true', List.isEmpty_eq_false_iff] at h
    obtain ⟨⟨hne, hq⟩, hrest⟩ := h
    cases s with
    | nil => exact absurd rfl hne
    | cons c0 s0 =>
      have hreal : realT rendered (.lit (c0 :: s0) :: r) = .raw (c0 :: s0) :: realT rendered r := by simp [realT]
      rw [hreal]
      refine ctx_cons _ _ _ _ ?_ ?_
      · -- text ending in `E` is not followed by a quote
        simp only [ctxP, Bool.or_eq_true]
        cases r with
        | nil =>
          right
          simpa [realT, hK] using notQ_of_okK k hk
        | cons x r' =>
          cases x with
          | val i => left; simpa [Template.noEQuote, notE] using hq
          | lit s' =>
            cases s' with
            | nil => simp [Template.noEQuote] at hq
            | cons c1 s1 =>
              simp only [Template.noEQuote, Bool.or_eq_true] at hq
              rcases hq with hq | hq
              · left; simpa [notE] using hq
              · right; rw [hK_realT_lit]; simpa [HK.orElse, notQ] using hq
      · -- what follows
        have hind : ∀ q q' : Bool, lastWord q (c0 :: s0) = lastWord q' (c0 :: s0) := by
          intro q q'; simp only [lastWord]; cases hg : (c0 :: s0).getLast? with
          | none => simp at hg
          | some c => rfl
        exact tctx_ctx rendered hr r _ _ k (by intro hh; rw [hind pw' pw]; simpa [endK] using hh) hk hrest
  | .val i :: r, pw, pw', k, hpw, hk, h => by
    simp only [Template.tctx, Bool.and_eq_true, Bool.not_eq_true'] at h
    obtain ⟨⟨hpw', hs⟩, hrest⟩ := h
    have hpwf : pw = false := by cases pw <;> simp_all
    have hreal : realT rendered (.val i :: r) = rendered.getD i [.bad] ++ realT rendered r := by simp [realT]
    rw [hreal]
    refine ctx_app _ _ _ _ ?_ ?_
    · refine CU_getD rendered hr i pw _ hpwf ?_
      cases r with
      | nil => simpa [realT, hK] using hk
      | cons x r' =>
        cases x with
        | val j => simp [Template.sepHead] at hs
        | lit s' =>
          cases s' with
          | nil => simp [Template.sepHead] at hs
          | cons c1 s1 =>
            rw [hK_realT_lit]
            simpa [HK.orElse, okK, okNext, Template.sepHead] using hs
    · exact tctx_ctx rendered hr r _ true k (fun _ => rfl) hk hrest

theorem rExEach_length (d : Backend) : ∀ l : ExList, (rExEach d l).length = l.length
  | .nil => by simp [rExEach, ExList.length]
  | .cons e r => by simp [rExEach, ExList.length, rExEach_length d r]

/-- a lexically safe template, expanded over operands -/
theorem c_template (d : Backend) (t : String) (rendered : List Pieces) (hr : ∀ ps ∈ rendered, CU ps)
    (hok : Template.ok (mark d) (numbered d) Char.isAlpha t.toList rendered.length = true) :
    CU (rTemplate d t rendered) := by
  intro pw k hpw hk
  simp only [Template.ok] at hok
  simp only [rTemplate]
  split at hok
  · rename_i ps hps
    rw [hps]
    exact tctx_ctx rendered hr ps pw false k (by intro h; rw [hpw] at h; cases h) hk hok
  · cases hok

mutual
theorem c_ex (d : Backend) : ∀ (e : Ex), CU (rEx d e)
  | .col c => by simp only [rEx]; exact (c_rColRef c).toU
  | .tuple l => by
    simp only [rEx]
    exact (CS.app (CTE.appU (a := [S "("]) (by lit) (c_exlist d true l).toU) (CS_S ")") (by ev)).toU
  | .unary e => by
    simp only [rEx]
    exact (CTE.appU (a := [S "NOT", S " "]) (by lit) (CU_wrap (c_ex d e) _)).toU
  | .func f dist args => by
    simp only [rEx]
    have h1 : CTE (rFn d f ++ [S "("]) := CS.thenE (c_rFn d f) (by lit) (by ev) (by ev)
    exact (CS.app (CTE.appU h1 (c_args d true dist args).toU) (CS_S ")") (by ev)).toU
  | .bin l o r => by
    simp only [rEx]
    have hl : CUE (binLeft d l o (rEx d l)) := cue_binLeft d l o (c_ex d l)
    split
    · intro pw k hpw hk; subst hpw; ev
    · split
      · intro pw k hpw hk; subst hpw; ev
      · split
        · exact CUE.appU hl (c_bounds d _ r)
        · exact CUE.appU hl (CU_wrap (c_ex d r) _)
  | .subq o q => by
    simp only [rEx]
    have h1 : CTE (rOptSubOp d o ++ [S "("]) := CS.thenE (c_rOptSubOp d o) (by lit) (by ev) (by ev)
    exact (CS.app (CTE.appS h1 (c_query d q)) (CS_S ")") (by ev)).toU
  | .value v => by simp only [rEx]; intro pw k hpw hk; subst hpw; ev
  | .values vs => by
    simp only [rEx]
    exact (CS.app (CTE.appU (a := [S "("]) (by lit) (c_rVals vs true).toU) (CS_S ")") (by ev)).toU
  | .cust s => by simp only [rEx]; exact (CS_raw _).toU
  | .custWith t vals => by
    simp only [rEx]
    split
    · rename_i hok
      rw [← rExEach_length d vals] at hok
      simpa using c_template d t _ (c_exeach d vals) hok
    · intro pw k _ _; simp [ctx, isMark]
  | .keyword kw => by simp only [rEx]; exact (c_rKw kw).toU
  | .asEnum ty e => by
    simp only [rEx]
    cases d with
    | postgres =>
      simp only
      have h1 : CTE ([S "CAST("] ++ rEx .postgres e ++ [S " AS "]) :=
        CS.thenE (CTE.appU (by lit) (c_ex .postgres e)) (by lit) (by ev) (by ev)
      refine (CS.app (CTE.appS h1 (CS_ite ?_ ?_)) (CS_S ")") (by ev)).toU
      · litS
      · litS
    | mysql => exact c_ex .mysql e
    | sqlite => exact c_ex .sqlite e
  | .case whens els => by
    simp only [rEx]
    exact (CS.app (CS.app (CS.app (CS_S "(CASE") (c_case d whens) (h_rCase d whens))
      (c_optex d " ELSE " els (by decide) (by decide)) (h_rOptEx d _ els (by decide))) (CS_S " END)") (by ev)).toU
  | .const v => by simp only [rEx]; intro pw k hpw hk; subst hpw; ev
theorem c_bounds (d : Backend) (outer : Oper) : ∀ (e : Ex), CU (rBounds d outer e)
  | .bin lo _ hi => by
    simp only [rBounds]
    have h1 : CUE (wrap (greater d (shapeOf lo) outer) (rEx d lo) ++ [S " AND "]) :=
      CU.thenE (CU_wrap (c_ex d lo) _) (by lit) (by ev) (by ev)
    exact CUE.appU h1 (CU_wrap (c_ex d hi) _)
  | .col _ | .tuple _ | .unary _ | .func _ _ _ | .subq _ _ | .value _ | .values _ | .cust _ | .custWith _ _
  | .keyword _ | .asEnum _ _ | .case _ _ | .const _ => by simp only [rBounds]; exact CS_nil.toU
theorem c_exlist (d : Backend) : ∀ (first : Bool) (l : ExList), CF first (rExList d first l)
  | _, .nil => by simp only [rExList]; exact CS_nil.toF _
  | first, .cons e r => by
    simp only [rExList]
    exact CF.app (CFE.appU (cfe_sep first ", " (by decide) (by decide)) (c_ex d e)) (c_exlist d false r).toS (h_rExList d r)
theorem c_exeach (d : Backend) : ∀ (l : ExList), ∀ ps ∈ rExEach d l, CU ps
  | .nil => by simp [rExEach]
  | .cons e r => by
    intro ps hps
    simp only [rExEach, List.mem_cons] at hps
    rcases hps with h | h
    · subst h; exact c_ex d e
    · exact c_exeach d r ps h
theorem c_optex (d : Backend) (pre : String) : ∀ (o : Option Ex), notE pre.toList = true → (∀ pw, lastWord pw pre.toList = false) →
    CS (rOptEx d pre o)
  | none => fun _ _ => by simp only [rOptEx]; exact CS_nil
  | some e => fun hE hW => by simp only [rOptEx]; exact CTE.appU (cte_S pre hE hW) (c_ex d e)
theorem c_args (d : Backend) : ∀ (first : Bool) (ms : List Bool) (l : ExList), CF first (rArgs d first ms l)
  | _, _, .nil => by simp only [rArgs]; exact CS_nil.toF _
  | first, ms, .cons e r => by
    simp only [rArgs]
    have h1 : CFE first ((if first = true then [] else [S ", "]) ++ if ms.headD false = true then [S "DISTINCT "] else []) := by
      intro pw k hpw
      cases first <;> cases ms.headD false <;> ev
    exact CF.app (CFE.appU h1 (c_ex d e)) (c_args d false ms.tail r).toS (h_rArgs d _ r)
theorem c_case (d : Backend) : ∀ (l : CaseList), CS (rCase d l)
  | .nil => by simp only [rCase]; exact CS_nil
  | .cons c e r => by
    simp only [rCase]
    have h1 : CTE ([S " WHEN ("] ++ rCond d c ++ [S ") THEN "]) :=
      CS.thenE (CTE.appU (by lit) (c_cond d c)) (by lit) (by ev) (by ev)
    exact CS.app (CTE.appU h1 (c_ex d e)) (c_case d r) (h_rCase d r)
theorem c_cond (d : Backend) : ∀ (c : Cond), CU (rCond d c)
  | .mk neg any items => by
    simp only [rCond]
    have hb : CU (if (itemsLen items == 0) = true then [.c ⟨"Bool", .bool (!any)⟩]
        else rItems d any (itemsLen items == 1) true items) :=
      CU_ite (by intro pw k hpw hk; subst hpw; ev) (c_items d any _ true items).toU
    exact CU_ite (CTE.appU (a := [S "NOT", S " "]) (by lit) (CU_wrap hb _)).toU hb
theorem c_items (d : Backend) (any single : Bool) : ∀ (first : Bool) (l : CondItems), CF first (rItems d any single first l)
  | _, .nil => by simp only [rItems]; exact CS_nil.toF _
  | first, .consC c r => by
    simp only [rItems]
    have h1 : CFE first (condSep any first) := by
      intro pw k hpw
      cases first <;> ev [condSep]
    exact CF.app (CFE.appU h1 (CU_wrap (c_cond d c) _)) (c_items d any single false r).toS (h_rItems d any single r)
  | first, .consE e r => by
    simp only [rItems]
    have h1 : CFE first (condSep any first) := by
      intro pw k hpw
      cases first <;> ev [condSep]
    exact CF.app (CFE.appU h1 (CU_wrap (c_ex d e) _)) (c_items d any single false r).toS (h_rItems d any single r)
theorem c_holder (d : Backend) (kw : String) : ∀ (h : Holder), CS (rHolder d kw h)
  | .empty => by simp only [rHolder]; exact CS_nil
  | .chain l => by
    simp only [rHolder]
    exact CTE.appU (a := [S " ", S kw, S " "]) (by lit) (c_chain d _ true l).toU
  | .cond c => by
    simp only [rHolder]
    exact CTE.appU (a := [S " ", S kw, S " "]) (by lit) (c_cond d c)
theorem c_chain (d : Backend) (len : Nat) : ∀ (first : Bool) (l : ChainList), CF first (rChain d len first l)
  | _, .nil => by simp only [rChain]; exact CS_nil.toF _
  | first, .cons isOr e r => by
    simp only [rChain]
    have h1 : CFE first (if first = true then [] else [S " ", S (if isOr = true then "OR" else "AND"), S " "]) := by
      intro pw k hpw
      cases first <;> ev
    exact CF.app (CFE.appU h1 (CU_wrap (c_ex d e) _)) (c_chain d len false r).toS (h_rChain d len r)
theorem c_query (d : Backend) : ∀ (q : Query), CS (rQuery d q)
  | .sel s => by simp only [rQuery]; exact c_select d s
  | .ins s => by simp only [rQuery]; exact c_insert d s
  | .upd s => by simp only [rQuery]; exact c_update d s
  | .del s => by simp only [rQuery]; exact c_delete d s
  | .withq w q => by simp only [rQuery]; exact CT.appS (c_with d w) (c_query d q)
theorem c_select (d : Backend) : ∀ (s : Select), CS (rSelect d s)
  | .mk with_ distinct selects from_ hints sample joins where_ groups having unions orders limit offset lock windowName window => by
    simp only [rSelect]
    have p1 : CTE (rOptWith d with_ ++ [S "SELECT "] ++ rOptDistinct d distinct) :=
      CTE.appK (CT.appE (c_optwith d with_) (by lit)) (c_rOptDistinct d distinct) (e_rOptDistinct d distinct)
    have p2 := CTE.appU p1 (c_sellist d true selects).toU
    have hfrom : CS (if TRefList.isNil from_ = true then []
        else [S " FROM "] ++ rTRefs d true from_ ++ (if (d == Backend.mysql) = true then rHints true hints else []) ++
          (if (d == Backend.postgres) = true then rOptSample sample else [])) :=
      CS_ite CS_nil (CS.app (CS.app (CTE.appS (by lit) (c_trefs d true from_)) (CS_ite (c_rHints hints true) CS_nil)
        (okK_ite (h_rHints hints true) rfl)) (CS_ite (c_rOptSample sample) CS_nil) (okK_ite (h_rOptSample sample) rfl))
    have p3 := CS.app p2 hfrom (okK_ite rfl (by ev))
    have p4 := CS.app p3 (c_joins d joins) (h_rJoins d joins)
    have p5 := CS.app p4 (c_holder d "WHERE" where_) (h_rHolder d _ where_)
    have p6 := CS.app p5 (CS_ite (c := groups.isEmpty = true) CS_nil (CTE.appU (a := [S " GROUP BY "]) (by lit) (c_exlist d true groups).toU))
      (okK_ite rfl (by ev))
    have p7 := CS.app p6 (c_holder d "HAVING" having) (h_rHolder d _ having)
    have p8 := CS.app p7 (c_unions d unions) (h_rUnions d unions)
    have p9 := CS.app p8 (CS_ite (c := OrderList.isNil orders = true) CS_nil
      (CTE.appU (a := [S " ORDER BY "]) (by lit) (c_orders d true orders).toU)) (okK_ite rfl (by ev))
    have p10 := CS.app p9 (c_rLimit " LIMIT " limit (by decide) (by decide)) (h_rLimit _ limit (by decide))
    have p11 := CS.app p10 (c_rLimit " OFFSET " offset (by decide) (by decide)) (h_rLimit _ offset (by decide))
    have p12 := CS.app p11 (c_rOptLock d lock) (h_rOptLock d lock)
    exact CS.app p12 (c_optwindow d windowName window) (h_rOptWindow d _ window)
theorem c_optwith (d : Backend) : ∀ (o : Option WithClause), CT (rOptWith d o)
  | none => by simp only [rOptWith]; exact CT_nil
  | some w => by simp only [rOptWith]; exact c_with d w
theorem c_optwindow (d : Backend) (name : String) : ∀ (o : Option Window), CS (rOptWindow d name o)
  | none => by simp only [rOptWindow]; exact CS_nil
  | some w => by
    simp only [rOptWindow]
    exact CTE.appS (a := [S " WINDOW ", .id name, S " AS "]) (by lit) (c_window d w)
theorem c_sellist (d : Backend) : ∀ (first : Bool) (l : SelList), CF first (rSelList d first l)
  | _, .nil => by simp only [rSelList]; exact CS_nil.toF _
  | first, .cons e win alias r => by
    simp only [rSelList]
    exact CF.app (CF.app (CF.app (CFE.appU (cfe_sep first ", " (by decide) (by decide)) (c_ex d e)) (c_winsel d win) (h_rWinSel d win))
      (c_rAlias alias) (h_rAlias alias)) (c_sellist d false r).toS (h_rSelList d r)
theorem c_winsel (d : Backend) : ∀ (w : WinSel), CS (rWinSel d w)
  | .none => by simp only [rWinSel]; exact CS_nil
  | .name n => by simp only [rWinSel]; litS
  | .query w => by
    simp only [rWinSel]
    exact CS.app (CTE.appS (a := [S " OVER ", S "( "]) (by lit) (c_window d w)) (CS_S " )") (by ev)
theorem c_window (d : Backend) : ∀ (w : Window), CS (rWindow d w)
  | .mk partition orders frame => by
    simp only [rWindow]
    exact CS.app (CS.app (CS_ite (c := partition.isEmpty = true) CS_nil (CTE.appU (a := [S "PARTITION BY "]) (by lit) (c_exlist d true partition).toU))
      (CS_ite (c := OrderList.isNil orders = true) CS_nil (CTE.appU (a := [S " ORDER BY "]) (by lit) (c_orders d true orders).toU))
      (okK_ite rfl (by ev))) (c_rOptFrame frame) (h_rOptFrame frame)
theorem c_orders (d : Backend) : ∀ (first : Bool) (l : OrderList), CF first (rOrders d first l)
  | _, .nil => by simp only [rOrders]; exact CS_nil.toF _
  | first, .cons e k nulls r => by
    rw [rOrders_cons]
    exact CF.app (CFE.appU (cfe_sep first ", " (by decide) (by decide)) (cu_orderBody d e _ (c_ex d e) k nulls))
      (c_orders d false r).toS (h_rOrders d r)
theorem c_tref (d : Backend) : ∀ (t : TRef), CS (rTRef d t)
  | .named n => by simp only [rTRef]; exact c_rTName n
  | .subq s a => by
    simp only [rTRef]
    exact CS.app (CTE.appS (a := [S "("]) (by lit) (c_select d s)) (b := [S ")", S " AS ", .id a]) (by litS) (by ev)
  | .valuesList rows a => by
    simp only [rTRef]
    exact CS.app (CTE.appS (a := [S "(", S "VALUES "]) (by lit) (c_rValueRows d rows true)) (b := [S ")", S " AS ", .id a]) (by litS) (by ev)
  | .func f dist args a => by
    simp only [rTRef]
    have h1 : CTE (rFn d f ++ [S "("]) := CS.thenE (c_rFn d f) (by lit) (by ev) (by ev)
    exact CS.app (CTE.appU h1 (c_args d true dist args).toU) (b := [S ")", S " AS ", .id a]) (by litS) (by ev)
theorem c_trefs (d : Backend) : ∀ (first : Bool) (l : TRefList), CS (rTRefs d first l)
  | _, .nil => by simp only [rTRefs]; exact CS_nil
  | first, .cons t r => by
    simp only [rTRefs]
    exact CS.app (CT.appS (ct_sep first ", " (by decide)) (c_tref d t)) (c_trefs d false r) (h_rTRefs d r)
theorem c_joins (d : Backend) : ∀ (l : JoinList), CS (rJoins d l)
  | .nil => by simp only [rJoins]; exact CS_nil
  | .cons ty lateral t on r => by
    simp only [rJoins]
    have h1 : CTE ([S " "] ++ rJoinType d ty ++ [S " "]) :=
      CS.thenE (CTE.appS (by lit) (c_rJoinType d ty)) (by lit) (by ev) (by ev)
    have h2 : CT ([S " "] ++ rJoinType d ty ++ [S " "] ++ if lateral = true then [S "LATERAL "] else []) :=
      CTE.appT h1 (CT_ite (by lit) CT_nil)
    exact CS.app (CS.app (CT.appS h2 (c_tref d t)) (c_holder d "ON" on) (h_rHolder d _ on)) (c_joins d r) (h_rJoins d r)
theorem c_unions (d : Backend) : ∀ (l : UnionList), CS (rUnions d l)
  | .nil => by simp only [rUnions]; exact CS_nil
  | .cons ty s r => by
    simp only [rUnions]
    have h1 : CTE [S (rUnionKw ty)] := by unfold rUnionKw; split <;> lit
    have h2 : CTE [S (rUnionKw ty), S "("] := by unfold rUnionKw; split <;> lit
    exact CS.app (CS_ite (CTE.appS h1 (c_select d s)) (CS.app (CTE.appS h2 (c_select d s)) (CS_S ")") (by ev)))
      (c_unions d r) (h_rUnions d r)
theorem c_with (d : Backend) : ∀ (w : WithClause), CT (rWith d w)
  | .mk recursive searchBreadth searchExpr searchAlias cycleExpr cycleSet cycleUsing ctes => by
    simp only [rWith]
    exact CT.appT (CT.appT (CT.appT (a := [S "WITH "]) (by lit) (CT_ite (by lit) CT_nil))
      (CT_ite CT_bad (c_ctes d true ctes)))
      (CT_ite (CT.appT (c_search d searchBreadth searchAlias searchExpr) (c_cycle d cycleSet cycleUsing cycleExpr)) CT_nil)
theorem c_search (d : Backend) (breadth : Bool) (alias : String) : ∀ (o : Option Ex), CT (rSearch d breadth alias o)
  | none => by simp only [rSearch]; exact CT_nil
  | some e => by
    simp only [rSearch]
    have h1 : CTE [S (if breadth = true then "SEARCH BREADTH FIRST BY " else "SEARCH DEPTH FIRST BY ")] := by
      cases breadth <;> lit
    exact (CS.thenE (CTE.appU h1 (c_ex d e)) (b := [S " SET ", .id alias, S " "]) (by lit) (by ev) (by ev)).toT
theorem c_cycle (d : Backend) (setAs using_ : String) : ∀ (o : Option Ex), CT (rCycle d setAs using_ o)
  | none => by simp only [rCycle]; exact CT_nil
  | some e => by
    simp only [rCycle]
    exact (CS.thenE (CTE.appU (a := [S "CYCLE "]) (by lit) (c_ex d e)) (b := [S " SET ", .id setAs, S " USING ", .id using_, S " "])
      (by lit) (by ev) (by ev)).toT
theorem c_ctes (d : Backend) : ∀ (first : Bool) (l : CteList), CT (rCtes d first l)
  | _, .nil => by simp only [rCtes]; exact CT_nil
  | first, .cons name cols mat q r => by
    simp only [rCtes]
    have x1 : CS ((if first = true then [] else [S ", "]) ++ [.id name]) := CT.appS (ct_sep first ", " (by decide)) (CS_id name)
    have hc : CTE (if cols.isEmpty = true then [S " "] else [S " ("] ++ rIdents true cols ++ [S ") "]) :=
      CTE_ite (by lit) (CS.thenE (CTE.appS (by lit) (c_rIdents cols true)) (by lit) (by ev) (by ev))
    have x2 := CS.thenE x1 hc (okK_ite (by ev) (by ev)) (by split <;> ev)
    have x3 : CTE (_ ++ [S "AS "]) := CTE.appE x2 (by lit)
    have x4 : CT (_ ++ if (d == Backend.mysql) = true then [] else rMaterialized mat) := CTE.appT x3 (CT_ite CT_nil (c_rMaterialized mat))
    have x5 : CTE (_ ++ [S "("]) := CT.appE x4 (by lit)
    have x6 := CTE.appS x5 (c_query d q)
    have x7 : CTE (_ ++ [S ") "]) := CS.thenE x6 (by lit) (by ev) (by ev)
    exact CTE.appT x7 (c_ctes d false r)
theorem c_insert (d : Backend) : ∀ (s : Insert), CS (rInsert d s)
  | .mk with_ replace table columns source onConflict returning defaultValues => by
    simp only [rInsert]
    have x1 : CS (rOptWith d with_ ++ [S (if replace = true then "REPLACE" else "INSERT")]) := CT.appS (c_optwith d with_) (CS_S _)
    have x2 := CS.app x1 (c_opttref d " INTO " table (by decide)) (h_rOptTRef d _ table (by decide))
    have b1 : CS ([S " "] ++ if (d == Backend.sqlite) = true then [S "DEFAULT VALUES"] else [S "VALUES "] ++ rDefaultRows d true (defaultValues.getD 0)) :=
      CTE.appS (by lit) (CS_ite (CS_S _) (CTE.appS (by lit) (c_rDefaultRows d _ true)))
    have b2 : CS ([S " ", S "("] ++ rIdents true columns ++ [S ")"] ++ rSource d source) :=
      CS.app (CS.app (CTE.appS (by lit) (c_rIdents columns true)) (CS_S ")") (by ev)) (c_source d source) (h_rSource d source)
    have x3 := CS.app x2 (CS_ite (c := (defaultValues.isSome && columns.isEmpty && InsSource.isNone source) = true) b1 b2) (okK_ite (by ev) (by ev))
    have x4 := CS.app x3 (c_optonconflict d onConflict) (h_rOptOnConflict d onConflict)
    exact CS.app x4 (c_returning d returning) (h_rReturning d returning)
theorem c_opttref (d : Backend) (pre : String) : ∀ (o : Option TRef), notE pre.toList = true → CS (rOptTRef d pre o)
  | none => fun _ => by simp only [rOptTRef]; exact CS_nil
  | some t => fun hE => by simp only [rOptTRef]; exact CT.appS (ct_S pre hE) (c_tref d t)
theorem c_optonconflict (d : Backend) : ∀ (o : Option OnConflict), CS (rOptOnConflict d o)
  | none => by simp only [rOptOnConflict]; exact CS_nil
  | some oc => by simp only [rOptOnConflict]; exact c_onconflict d oc
theorem c_source (d : Backend) : ∀ (s : InsSource), CS (rSource d s)
  | .none => by simp only [rSource]; exact CS_nil
  | .values rows => by simp only [rSource]; exact CTE.appS (a := [S " ", S "VALUES "]) (by lit) (c_rows d true rows)
  | .select s => by simp only [rSource]; exact CTE.appS (a := [S " "]) (by lit) (c_select d s)
theorem c_rows (d : Backend) : ∀ (first : Bool) (l : RowList), CS (rRows d first l)
  | _, .nil => by simp only [rRows]; exact CS_nil
  | first, .cons row r => by
    simp only [rRows]
    have h1 : CTE ((if first = true then [] else [S ", "]) ++ [S "("]) := CT.appE (ct_sep first ", " (by decide)) (by lit)
    exact CS.app (CS.app (CTE.appU h1 (c_exlist d true row).toU) (CS_S ")") (by ev)) (c_rows d false r) (h_rRows d r)
theorem c_onconflict (d : Backend) : ∀ (o : OnConflict), CS (rOnConflict d o)
  | .mk targets targetWhere action actionWhere => by
    simp only [rOnConflict]
    have x1 : CS [S (if (d == Backend.mysql) = true then " ON DUPLICATE KEY" else " ON CONFLICT ")] := CS_S _
    have x2 := CS.app x1 (CS_ite (c := (d == Backend.mysql || TargetList.isNil targets) = true) CS_nil
      (CS.app (CTE.appU (a := [S "("]) (by lit) (c_targets d true targets).toU) (CS_S ")") (by ev))) (okK_ite rfl (by ev))
    have x3 := CS.app x2 (CS_ite (c := (d == Backend.mysql) = true) CS_nil (c_holder d "WHERE" targetWhere)) (okK_ite rfl (h_rHolder d _ _))
    have x4 := CS.app x3 (c_action d action) (h_rAction d action)
    exact CS.app x4 (CS_ite (c := (d == Backend.mysql) = true) CS_nil (c_holder d "WHERE" actionWhere)) (okK_ite rfl (h_rHolder d _ _))
theorem c_targets (d : Backend) : ∀ (first : Bool) (l : TargetList), CF first (rTargets d first l)
  | _, .nil => by simp only [rTargets]; exact CS_nil.toF _
  | first, .col c r => by
    simp only [rTargets]
    exact CF.app (CFE.appS (cfe_sep first ", " (by decide) (by decide)) (CS_id c)) (c_targets d false r).toS (h_rTargets d r)
  | first, .expr e r => by
    simp only [rTargets]
    exact CF.app (CFE.appU (cfe_sep first ", " (by decide) (by decide)) (c_ex d e)) (c_targets d false r).toS (h_rTargets d r)
theorem c_action (d : Backend) : ∀ (a : Action), CS (rAction d a)
  | .none => by simp only [rAction]; exact CS_nil
  | .doNothing pk => by
    simp only [rAction]
    exact CS_ite (CS_ite (CS_S _) (CTE.appS (a := [S " UPDATE "]) (by lit) (c_rSelfAssign pk true))) (CS_S _)
  | .update l => by
    simp only [rAction]
    have h1 : CTE [S (if (d == Backend.mysql) = true then " UPDATE " else " DO UPDATE SET ")] := by split <;> lit
    exact CTE.appS h1 (c_upds d true l)
theorem c_upds (d : Backend) : ∀ (first : Bool) (l : UpdList), CS (rUpds d first l)
  | _, .nil => by simp only [rUpds]; exact CS_nil
  | first, .col c r => by
    simp only [rUpds]
    have h1 : CTE ((if first = true then [] else [S ", "]) ++ [.id c, S " = "]) := CT.appE (ct_sep first ", " (by decide)) (by lit)
    exact CS.app (CTE.appS h1 (CS_ite (by litS) (by litS))) (c_upds d false r) (h_rUpds d r)
  | first, .expr c e r => by
    simp only [rUpds]
    have h1 : CTE ((if first = true then [] else [S ", "]) ++ [.id c, S " = "]) := CT.appE (ct_sep first ", " (by decide)) (by lit)
    exact CS.app (CTE.appU h1 (c_ex d e)) (c_upds d false r) (h_rUpds d r)
theorem c_returning (d : Backend) : ∀ (r : Returning), CS (rReturning d r)
  | .none => by simp only [rReturning]; exact CS_nil
  | .all => by simp only [rReturning]; exact CS_ite CS_nil (by litS)
  | .cols cs => by simp only [rReturning]; exact CS_ite CS_nil (CTE.appS (a := [S " RETURNING "]) (by lit) (c_rColRefs cs true))
  | .exprs es => by simp only [rReturning]; exact CS_ite CS_nil (CTE.appU (a := [S " RETURNING "]) (by lit) (c_exlist d true es).toU)
theorem c_update (d : Backend) : ∀ (s : Update), CS (rUpdate d s)
  | .mk with_ table sets where_ orders limit returning from_ => by
    simp only [rUpdate]
    have x1 : CTE (rOptWith d with_ ++ [S "UPDATE "]) := CT.appE (c_optwith d with_) (by lit)
    have x2 := CTE.appS x1 (c_opttable d table)
    have x3 := CS.app x2 (CS_ite (c := (d == Backend.mysql) = true) (c_updatejoin d _ from_ (c_holder d "ON" where_) (h_rHolder d _ _)) CS_nil)
      (okK_ite (h_rUpdateJoin d _ from_) rfl)
    have x4 : CTE (_ ++ [S " SET "]) := CS.thenE x3 (by lit) (by ev) (by ev)
    have x5 := CTE.appS x4 (c_sets d (if (d == Backend.mysql && !TRefList.isNil from_) = true then updateQual table else none) true sets)
    have x6 := CS.app x5 (CS_ite (c := (d == Backend.mysql || !!TRefList.isNil from_) = true) CS_nil
      (CTE.appS (a := [S " FROM "]) (by lit) (c_trefs d true from_))) (okK_ite rfl (by ev))
    have x7 := CS.app x6 (CS_ite (c := (d == Backend.mysql && !TRefList.isNil from_) = true) CS_nil (c_holder d "WHERE" where_))
      (okK_ite rfl (h_rHolder d _ _))
    have x8 := CS.app x7 (c_returning d returning) (h_rReturning d returning)
    have x9 := CS.app x8 (CS_ite (c := OrderList.isNil orders = true) CS_nil
      (CTE.appU (a := [S " ORDER BY "]) (by lit) (c_orders d true orders).toU)) (okK_ite rfl (by ev))
    exact CS.app x9 (c_rLimit " LIMIT " limit (by decide) (by decide)) (h_rLimit _ limit (by decide))
theorem c_opttable (d : Backend) : ∀ (o : Option TRef), CS (rOptTable d o)
  | none => by simp only [rOptTable]; exact CS_nil
  | some t => by simp only [rOptTable]; exact c_tref d t
theorem c_updatejoin (d : Backend) (on : Pieces) : ∀ (l : TRefList), CS on → okK (hK on) = true → CS (rUpdateJoin d on l)
  | .nil => fun _ _ => by simp only [rUpdateJoin]; exact CS_nil
  | .cons t _ => fun hon hh => by
    simp only [rUpdateJoin]
    exact CS.app (CTE.appS (a := [S " JOIN "]) (by lit) (c_tref d t)) hon hh
theorem c_sets (d : Backend) (qual : Option String) : ∀ (first : Bool) (l : SetList), CS (rSets d qual first l)
  | _, .nil => by simp only [rSets]; exact CS_nil
  | first, .cons c e r => by
    simp only [rSets]
    have hr := c_sets d qual false r
    have hh := h_rSets d qual r
    cases qual with
    | none =>
      have h1 : CTE ((if first = true then [] else [S ", "]) ++ [] ++ [.id c, S " = "]) :=
        CT.appE (CT.appT (ct_sep first ", " (by decide)) CT_nil) (by lit)
      exact CS.app (CTE.appU h1 (c_ex d e)) hr hh
    | some t =>
      have h1 : CTE ((if first = true then [] else [S ", "]) ++ [.id t, S "."] ++ [.id c, S " = "]) :=
        CT.appE (CT.appT (ct_sep first ", " (by decide)) (by lit)) (by lit)
      exact CS.app (CTE.appU h1 (c_ex d e)) hr hh
theorem c_delete (d : Backend) : ∀ (s : Delete), CS (rDelete d s)
  | .mk with_ table where_ orders limit returning => by
    simp only [rDelete]
    have x1 : CTE (rOptWith d with_ ++ [S "DELETE "]) := CT.appE (c_optwith d with_) (by lit)
    have x2 := CTE.appS x1 (c_opttref d "FROM " table (by decide))
    have x3 := CS.app x2 (c_holder d "WHERE" where_) (h_rHolder d _ where_)
    have x4 := CS.app x3 (c_returning d returning) (h_rReturning d returning)
    have x5 := CS.app x4 (CS_ite (c := OrderList.isNil orders = true) CS_nil
      (CTE.appU (a := [S " ORDER BY "]) (by lit) (c_orders d true orders).toU)) (okK_ite rfl (by ev))
    exact CS.app x5 (c_rLimit " LIMIT " limit (by decide) (by decide)) (h_rLimit _ limit (by decide))
end

end SeaQ.SafeN
