import SeaQ.Model.Pratt
namespace SeaQ.Pratt

/-! ### fuel monotonicity: a successful parse stays the same with more fuel -/
mutual
  theorem parseE_mono (t : Tbl) : ∀ f m ts r, parseE t f m ts = some r → parseE t (f+1) m ts = some r
    | 0, _, _, _, h => by simp [parseE] at h
    | f+1, m, ts, r, h => by
      unfold parseE at h ⊢
      cases ts with
      | nil => simp at h
      | cons tk rest =>
        cases tk with
        | atom a => exact loop_mono t f m _ _ _ r h
        | lp =>
          simp only at h ⊢
          cases h1 : parseE t f 0 rest with
          | none => simp [h1] at h
          | some p =>
            obtain ⟨e, r1⟩ := p
            rw [parseE_mono t f 0 rest _ h1]
            simp only [h1] at h ⊢
            cases h2 : expectRp r1 with
            | none => simp [h2] at h
            | some rest' =>
              simp only [h2] at h ⊢
              exact loop_mono t f m _ _ _ r h
        | not =>
          simp only at h ⊢
          cases h1 : parseE t f t.nbp rest with
          | none => simp [h1] at h
          | some p =>
            obtain ⟨e, rest'⟩ := p
            rw [parseE_mono t f t.nbp rest _ h1]
            rw [h1] at h
            exact loop_mono t f m _ _ _ r h
        | opn k =>
          simp only at h ⊢
          cases h1 : parseArgs t f rest with
          | none => simp [h1] at h
          | some p =>
            obtain ⟨args, rest'⟩ := p
            rw [parseArgs_mono t f rest _ h1]
            rw [h1] at h
            exact loop_mono t f m _ _ _ r h
        | op o => simp at h
        | rp => simp at h
        | cls => simp at h
        | comma => simp at h
  theorem loop_mono (t : Tbl) : ∀ f m top lhs ts r, loop t f m top lhs ts = some r →
      loop t (f+1) m top lhs ts = some r
    | 0, _, _, _, _, _, h => by simp [loop] at h
    | f+1, m, top, lhs, ts, r, h => by
      unfold loop at h ⊢
      cases ts with
      | nil => exact h
      | cons tk rest =>
        cases tk with
        | op o =>
          simp only at h ⊢
          cases ha : absorb t m top o with
          | none => simp [ha] at h
          | some b =>
            cases b with
            | false => simpa [ha] using h
            | true =>
              simp only [ha] at h ⊢
              cases h1 : parseE t f (t.rbp o) rest with
              | none => simp [h1] at h
              | some p =>
                obtain ⟨r1, rest1⟩ := p
                rw [parseE_mono t f (t.rbp o) rest _ h1]
                simp only [h1] at h ⊢
                cases hm : mixNext t o rest1 with
                | plain => simp only [hm] at h ⊢; exact loop_mono t f m _ _ _ r h
                | fail => simp [hm] at h
                | sep rest2 =>
                  simp only [hm] at h ⊢
                  cases h2 : parseE t f (t.rbp2 o) rest2 with
                  | none => simp [h2] at h
                  | some p2 =>
                    obtain ⟨r2, rest3⟩ := p2
                    rw [parseE_mono t f (t.rbp2 o) rest2 _ h2]
                    simp only [h2] at h ⊢
                    exact loop_mono t f m _ _ _ r h
        | atom a => exact h
        | not => exact h
        | lp => exact h
        | rp => exact h
        | opn k => exact h
        | cls => exact h
        | comma => exact h
  theorem parseArgs_mono (t : Tbl) : ∀ f ts r, parseArgs t f ts = some r → parseArgs t (f+1) ts = some r
    | 0, _, _, h => by simp [parseArgs] at h
    | f+1, ts, r, h => by
      unfold parseArgs at h ⊢
      cases hh : headIsCls ts with
      | true => simpa [hh] using h
      | false =>
        simp only [hh, Bool.false_eq_true, if_false] at h ⊢
        cases h1 : parseE t f 0 ts with
        | none => simp [h1] at h
        | some p =>
          obtain ⟨e, rest⟩ := p
          rw [parseE_mono t f 0 ts _ h1]
          simp only [h1] at h ⊢
          cases hs : argSep rest with
          | bad => simp [hs] at h
          | done rest' => simpa [hs] using h
          | more rest' =>
            simp only [hs] at h ⊢
            cases h2 : parseArgs t f rest' with
            | none => simp [h2] at h
            | some q =>
              obtain ⟨es, r'⟩ := q
              rw [parseArgs_mono t f rest' _ h2]
              simpa [h2] using h
end

theorem parseE_le (t : Tbl) {f g m ts r} (h : f ≤ g) (hp : parseE t f m ts = some r) :
    parseE t g m ts = some r := by
  induction h with
  | refl => exact hp
  | step _ ih => exact parseE_mono t _ _ _ _ ih

theorem loop_le (t : Tbl) {f g m top l ts r} (h : f ≤ g) (hp : loop t f m top l ts = some r) :
    loop t g m top l ts = some r := by
  induction h with
  | refl => exact hp
  | step _ ih => exact loop_mono t _ _ _ _ _ _ ih

theorem parseArgs_le (t : Tbl) {f g ts r} (h : f ≤ g) (hp : parseArgs t f ts = some r) :
    parseArgs t g ts = some r := by
  induction h with
  | refl => exact hp
  | step _ ih => exact parseArgs_mono t _ _ _ ih

end SeaQ.Pratt
