import SeaQ.Lemmas.PrattLic
namespace SeaQ.Pratt

theorem Ex.size_pos : ∀ e : Ex, 0 < e.size
  | .atom _ => by simp [Ex.size]
  | .un e => by simp [Ex.size]
  | .bin l _ r => by simp [Ex.size]
  | .node _ args => by simp [Ex.size]

theorem ExList.size_pos : ∀ e : ExList, 0 < e.size
  | .nil => by simp [ExList.size]
  | .cons h t => by simp [ExList.size]

/-- the printed form of an expression never starts with a closing token -/
theorem pr_head (p : Policy) : ∀ (e : Ex) (x : List Tok), headIsCls (pr p e ++ x) = false
  | .atom a, x => by simp [pr, headIsCls]
  | .un y, x => by simp [pr, headIsCls]
  | .node k args, x => by simp [pr, headIsCls]
  | .bin l o r, x => by
    have key : ∀ tail : List Tok,
        headIsCls (wrap (p.dropL o l) (pr p l) ++ Tok.op o :: tail ++ x) = false := by
      intro tail
      cases hb : p.dropL o l with
      | false => simp [wrap, headIsCls]
      | true =>
        have := pr_head p l (Tok.op o :: tail ++ x)
        simpa [wrap, List.append_assoc] using this
    cases hmp : mixParts p o r with
    | none => rw [pr_bin_reg hmp]; exact key _
    | some q =>
      obtain ⟨a, s, b⟩ := q
      obtain ⟨hm, hr⟩ := mixParts_some hmp
      subst hr
      rw [pr_bin_mix hm]; exact key _

/-- statement of the main lemma for one expression: if continuing after `e` as a left operand
gives `res`, then parsing `e`'s printed form followed by the same rest gives `res` -/
def Main (t : Tbl) (p : Policy) (e : Ex) : Prop :=
  ∀ m rest res f, Fits t p m e → StopsAt t p e rest →
    loop t f m (topOf t e) e rest = some res → ∃ f', parseE t f' m (pr p e ++ rest) = some res

def MainL (t : Tbl) (p : Policy) (args : ExList) : Prop :=
  ∀ rest, ∃ f', parseArgs t f' (prArgs p args ++ rest) = some (args, rest)

/-- a child printed bare or in parentheses -/
theorem child (t : Tbl) (p : Policy) (c : Ex) (hlic : Lic t p c) (ih : Main t p c) (b : Bool)
    (m : Nat) (rest : List Tok) (res : Ex × List Tok) (f : Nat)
    (hfit : b = true → Fits t p m c) (hstop : b = true → StopsAt t p c rest)
    (hl : loop t f m (if b = true then topOf t c else none) c rest = some res) :
    ∃ f', parseE t f' m (wrap b (pr p c) ++ rest) = some res := by
  cases b with
  | true => simpa [wrap] using ih m rest res f (hfit rfl) (hstop rfl) (by simpa using hl)
  | false =>
    obtain ⟨f1, h1⟩ := ih 0 (Tok.rp :: rest) (c, Tok.rp :: rest) 1 (fits_zero_of_lic t p c hlic)
      trivial (loop_stop t 0 0 _ c _ trivial)
    refine ⟨max f1 f + 1, ?_⟩
    have e1 : wrap false (pr p c) ++ rest = Tok.lp :: (pr p c ++ Tok.rp :: rest) := by simp [wrap]
    have hl' : loop t (max f1 f) m none c rest = some res :=
      loop_le t (Nat.le_max_right f1 f) (by simpa using hl)
    rw [e1]
    simp only [parseE, parseE_le t (Nat.le_max_left f1 f) h1, expectRp]
    exact hl'

theorem noAbsorb_of_stopsOp_lt {t : Tbl} {lvl : Nat} {rest : List Tok}
    (h : ∀ q tl, rest = Tok.op q :: tl → (t.infx q = true → t.lbp q < lvl)) : NoAbsorb t lvl rest := by
  cases rest with
  | nil => trivial
  | cons tk tl =>
    cases tk with
    | op q =>
      intro hq
      have := h q tl rfl hq.1
      omega
    | atom a => trivial
    | not => trivial
    | lp => trivial
    | rp => trivial
    | opn k => trivial
    | cls => trivial
    | comma => trivial

end SeaQ.Pratt

namespace SeaQ.Pratt

theorem stopsAt_of {t : Tbl} {p : Policy} {e : Ex} {rest : List Tok}
    (h : ∀ q tl, rest = Tok.op q :: tl → StopsOp t p q e) : StopsAt t p e rest := by
  cases rest with
  | nil => trivial
  | cons tk tl =>
    cases tk with
    | op q => exact h q tl rfl
    | atom a => trivial
    | not => trivial
    | lp => trivial
    | rp => trivial
    | opn k => trivial
    | cls => trivial
    | comma => trivial

theorem stopsAt_headLt_un {t : Tbl} {p : Policy} {y : Ex} {rest : List Tok}
    (h : StopsAt t p (.un y) rest) :
    ∀ q tl, rest = Tok.op q :: tl → (t.infx q = true → t.lbp q < t.nbp) := by
  intro q tl e; subst e
  cases h with
  | un _ h1 _ => exact h1

theorem stopsAt_child_un {t : Tbl} {p : Policy} {y : Ex} {rest : List Tok}
    (h : StopsAt t p (.un y) rest) (hd : p.dropN y = true) : StopsAt t p y rest := by
  apply stopsAt_of
  intro q tl e; subst e
  cases h with
  | un _ _ h2 => exact h2 hd

/-- the regular (non-mixfix) reading of a binary node: facts about what may follow it -/
theorem stopsAt_bin_reg {t : Tbl} {p : Policy} {l r : Ex} {o : Nat} {rest : List Tok}
    (hmp : mixParts p o r = none) (h : StopsAt t p (.bin l o r) rest) :
    (∀ q tl, rest = Tok.op q :: tl → (t.infx q = true → t.lbp q < t.rbp o)) ∧
    (∀ q tl, rest = Tok.op q :: tl → t.mix o ≠ some q) ∧
    (p.dropR o r = true → StopsAt t p r rest) := by
  refine ⟨?_, ?_, ?_⟩
  · intro q tl e; subst e
    cases h with
    | binReg _ _ _ _ h1 _ _ => exact h1
    | binMix _ _ _ a s b hm _ _ => rw [hmp] at hm; cases hm
  · intro q tl e; subst e
    cases h with
    | binReg _ _ _ _ _ h2 _ => exact h2
    | binMix _ _ _ a s b hm _ _ => rw [hmp] at hm; cases hm
  · intro hd
    apply stopsAt_of
    intro q tl e; subst e
    cases h with
    | binReg _ _ _ _ _ _ h3 => exact h3 hd
    | binMix _ _ _ a s b hm _ _ => rw [hmp] at hm; cases hm

theorem stopsAt_bin_mix {t : Tbl} {p : Policy} {l r a b : Ex} {o s : Nat} {rest : List Tok}
    (hmp : mixParts p o r = some (a, s, b)) (h : StopsAt t p (.bin l o r) rest) :
    (∀ q tl, rest = Tok.op q :: tl → (t.infx q = true → t.lbp q < t.rbp2 o)) ∧
    (p.dropMR o b = true → StopsAt t p b rest) := by
  refine ⟨?_, ?_⟩
  · intro q tl e; subst e
    cases h with
    | binReg _ _ _ hm _ _ _ => rw [hmp] at hm; cases hm
    | binMix _ _ _ a' s' b' hm h1 _ => exact h1
  · intro hd
    apply stopsAt_of
    intro q tl e; subst e
    cases h with
    | binReg _ _ _ hm _ _ _ => rw [hmp] at hm; cases hm
    | binMix _ _ _ a' s' b' hm _ h2 =>
      rw [hmp] at hm
      simp only [Option.some.injEq, Prod.mk.injEq] at hm
      obtain ⟨rfl, rfl, rfl⟩ := hm
      exact h2 hd

theorem mixNext_plain {t : Tbl} {o : Nat} {rest : List Tok} (hm : t.mix o = none ∨ t.mand o = false)
    (h : ∀ q tl, rest = Tok.op q :: tl → t.mix o ≠ some q) : mixNext t o rest = .plain := by
  unfold mixNext
  cases hmo : t.mix o with
  | none => rfl
  | some s =>
    have hmand : t.mand o = false := by
      rcases hm with h' | h'
      · rw [hmo] at h'; cases h'
      · exact h'
    cases rest with
    | nil => simp [hmand]
    | cons tk tl =>
      cases tk with
      | op q =>
        have : q ≠ s := fun e => h q tl rfl (by rw [hmo, e])
        simp [this, hmand]
      | atom a => simp [hmand]
      | not => simp [hmand]
      | lp => simp [hmand]
      | rp => simp [hmand]
      | opn k => simp [hmand]
      | cls => simp [hmand]
      | comma => simp [hmand]

theorem mixNext_sep {t : Tbl} {o s : Nat} (rest2 : List Tok) (hm : t.mix o = some s) :
    mixNext t o (Tok.op s :: rest2) = .sep rest2 := by
  simp [mixNext, hm]

end SeaQ.Pratt
