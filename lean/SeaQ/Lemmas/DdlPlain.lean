import SeaQ.Lemmas.RenderPlain
import SeaQ.Lemmas.Scan
import SeaQ.Model.Ddl
/-!
GENERATED from `DdlBalance.lean` by `bin/gen-plain` — do not edit.
Renderer text is basic in everything the schema-statement renderer writes.
-/
namespace SeaQ.Plain
open SeaQ.Escape SeaQ.Render SeaQ.Stmt SeaQ.Ddl SeaQ.SafeN

variable {d : Backend}

theorem B_num (k : Nat) : B d [num k] := B_raw _

open SeaQ.Gen.ColTypes in
/-- every literal part of every template is basic (or the Postgres array suffix) -/
def tplPlain (d : Backend) (t : List Seg) : Bool := t.all (fun | .lit s => tok s || (d == .postgres && s == "[]") | .par _ => true)

open SeaQ.Gen.ColTypes in
theorem b_segPieces (ρ : String → Nat) : ∀ (t : List Seg), tplPlain d t = true → (segPieces ρ t).all (okP d) = true := by
  intro t
  induction t with
  | nil => intro _; rfl
  | cons x r ih =>
    intro h
    simp only [tplPlain, List.all_cons, Bool.and_eq_true] at h
    have ihr := ih (by simpa [tplPlain] using h.2)
    cases x with
    | lit s => simp only [segPieces, List.all_cons, okP, S, Bool.and_eq_true]; exact ⟨h.1, ihr⟩
    | par p => simp only [segPieces, List.all_cons, okP, num, Bool.true_and]; exact ihr

open SeaQ.Gen.ColTypes in
def tableBal (d : Backend) (table : List Arm) : Bool := table.all (fun a => a.computed || a.templates.all (tplPlain d))

open SeaQ.Gen.ColTypes in
theorem b_fromTable (table : List Arm) (ht : tableBal d table = true) (v : String) (i : Nat) (ρ : String → Nat) :
    B d (fromTable table v i ρ) := by
  unfold fromTable
  cases hf : findArm table v with
  | none => exact B_bad
  | some a =>
    simp only
    cases hcmp : a.computed with
    | true => simp only [↓reduceIte]; exact B_bad
    | false =>
      simp only [Bool.false_eq_true, ↓reduceIte]
      cases hg : a.templates[i]? with
      | none => exact B_bad
      | some t =>
        simp only
        have ha : a ∈ table := List.mem_of_find?_eq_some hf
        have htm : t ∈ a.templates := List.mem_of_getElem? hg
        simp only [tableBal, List.all_eq_true, Bool.or_eq_true] at ht
        cases ht a ha with
        | inl h => rw [hcmp] at h; cases h
        | inr h => exact Or.inr (b_segPieces ρ t (h t htm))

theorem mysql_tableBal : tableBal d SeaQ.Gen.ColTypes.mysql = true := by cases d <;> decide
theorem postgres_tableBal : tableBal d SeaQ.Gen.ColTypes.postgres = true := by cases d <;> decide
theorem sqlite_tableBal : tableBal d SeaQ.Gen.ColTypes.sqlite = true := by cases d <;> decide
theorem serial_tableBal : tableBal d SeaQ.Gen.ColTypes.postgresSerial = true := by cases d <;> decide

theorem e_rTable (m : Nat) (n : TName) : B d (rTable m n) := by
  unfold rTable; exact B_ite B_bad (b_rParts _ true)
theorem e_rOptTable (m : Nat) (o : Option TName) : B d (Ddl.rOptTable m o) := by
  cases o with
  | none => exact B_nil
  | some n => exact e_rTable m n

theorem B_strLit (s : String) : B d [rStrLit s] := by bal

theorem e_rEnumVariants : ∀ (l : List String) (first : Bool), B d (rEnumVariants first l) := by
  intro l; induction l with
  | nil => intro _; exact B_nil
  | cons v r ih => intro first; simp only [rEnumVariants]; exact B.app (B.app (b_sep first ", " (by decide)) (B_strLit v)) (ih false)

theorem e_rTypeMysql (t : ColType) : B d (rTypeMysql t) := by
  have gen : ∀ t, B d (fromTable SeaQ.Gen.ColTypes.mysql (variantName t) (idxMysql t).1 (idxMysql t).2 ++
      (if SeaQ.Gen.ColTypes.mysqlUnsigned.contains (variantName t) then [S " ", S "UNSIGNED"] else [])) := fun t =>
    B.app (b_fromTable _ mysql_tableBal _ _ _) (B_ite (by bal) B_nil)
  cases t
  case custom s => exact B_raw _
  case «enum» n vs =>
    simp only [rTypeMysql]
    exact Bk.close (j := 0) (Bk.appB (Bk_S "ENUM(" 1 (by decide)) (B_ite (B_strLit _) (e_rEnumVariants vs true))) (Cl_S ")" (by decide))
  all_goals exact gen _

theorem e_rTypePg : ∀ (t : ColType), B .postgres (rTypePg t) := by
  have gen : ∀ t, B .postgres (fromTable SeaQ.Gen.ColTypes.postgres (variantName t) (idxPg t).1 (idxPg t).2) := fun t =>
    b_fromTable _ postgres_tableBal _ _ _
  intro t
  induction t with
  | array e ih => simp only [rTypePg]; exact B.app ih (by bal)
  | interval f p =>
    simp only [rTypePg]
    refine B.app (B.app (B_S _ (by decide)) ?_) ?_
    · cases f with
      | none => exact B_nil
      | some i =>
        refine B.app (B_S " " (by decide)) (B_S _ ?_)
        unfold intervalFields; split <;> decide
    · cases p with
      | none => exact B_nil
      | some n => exact Bk.close (j := 0) (Bk.appB (Bk_S "(" 1 (by decide)) (B_num n)) (Cl_S ")" (by decide))
  | custom s => exact B_raw _
  | «enum» n vs => exact B_raw _
  | _ => exact gen _

theorem e_rTypeSqlite (a : Bool) (t : ColType) : B d (rTypeSqlite a t) := by
  have gen : ∀ t, B d (fromTable SeaQ.Gen.ColTypes.sqlite (variantName t) (idxSqlite a t).1 (idxSqlite a t).2) := fun t =>
    b_fromTable _ sqlite_tableBal _ _ _
  cases t
  case custom s => exact B_raw _
  case decimal p =>
    cases p with
    | none => simp only [rTypeSqlite]; exact gen _
    | some q => obtain ⟨x, y⟩ := q; simp only [rTypeSqlite]; exact B_ite B_bad (b_fromTable _ sqlite_tableBal _ _ _)
  all_goals (simp only [rTypeSqlite]; exact gen _)

theorem e_rType (d : Backend) (specs : List Spec) (t : ColType) : B d (rType d specs t) := by
  cases d <;> simp only [rType]
  · exact e_rTypeMysql t
  · exact B_ite (b_fromTable _ serial_tableBal _ _ _) (e_rTypePg t)
  · exact e_rTypeSqlite _ t

theorem e_rCheck (d : Backend) (e : Ex) : B d (rCheck d e) := by
  unfold rCheck
  exact Bk.close (j := 0) (Bk.appB (Bk_S "CHECK (" 1 (by decide)) (b_ex d e)) (Cl_S ")" (by decide))

theorem e_rSpec (d : Backend) (s : Spec) : B d (rSpec d s) := by
  cases s <;> simp only [rSpec]
  case null => bal
  case notNull => bal
  case default e => exact B.app (B_S _ (by decide)) (b_ex d e)
  case autoIncrement => cases d <;> bal
  case unique => bal
  case primaryKey => bal
  case check e => exact e_rCheck d e
  case generated e st =>
    exact B.app (Bk.close (j := 0) (Bk.appB (Bk_S "GENERATED ALWAYS AS (" 1 (by decide)) (b_ex d e)) (Cl_S ")" (by decide))) (by cases st <;> bal)
  case extra x => exact B_raw _
  case comment c => exact B_ite (by bal) B_nil
  case «using» e => exact B_nil

theorem e_rSpecs (d : Backend) : ∀ (l : List Spec), B d (rSpecs d l) := by
  intro l; induction l with
  | nil => exact B_nil
  | cons s r ih => simp only [rSpecs]; exact B.app (B_ite B_nil (B.app (B_S " " (by decide)) (e_rSpec d s))) ih

theorem e_rColumnDef (d : Backend) (c : Col) : B d (rColumnDef d c) := by
  unfold rColumnDef
  have h1 : B d (match c.ty with | some t => [S " "] ++ rType d c.specs t | none => []) := by
    cases c.ty with
    | none => exact B_nil
    | some t => exact B.app (B_S " " (by decide)) (e_rType d c.specs t)
  exact B.app (B.app (B.app (B.app (B_id c.name) h1) (e_rSpecs d c.specs)) (B_ite (by bal) B_nil)) (B_ite (by bal) B_nil)

theorem e_rColumnDefs (d : Backend) : ∀ (l : List Col) (first : Bool), B d (rColumnDefs d first l) := by
  intro l; induction l with
  | nil => intro _; exact B_nil
  | cons c r ih => intro first; simp only [rColumnDefs]; exact B.app (B.app (b_sep first ", " (by decide)) (e_rColumnDef d c)) (ih false)

theorem e_rIdxCols (d : Backend) : ∀ (l : List IdxCol) (first : Bool), B d (rIdxCols d first l) := by
  intro l; induction l with
  | nil => intro _; exact B_nil
  | cons c r ih =>
    intro first
    simp only [rIdxCols]
    have h2 : B d (match c.pfx with | some n => if (d == Backend.sqlite) = true then [] else [S " (", num n, S ")"] | none => []) := by
      cases c.pfx with
      | none => exact B_nil
      | some n => exact B_ite B_nil (Bk.close (j := 0) (Bk.appB (Bk_S " (" 1 (by decide)) (B_num n)) (Cl_S ")" (by decide)))
    have h3 : B d (match c.order with | some false => [S " ASC"] | some true => [S " DESC"] | none => []) := by
      cases c.order with
      | none => exact B_nil
      | some b => cases b <;> bal
    exact B.app (B.app (B.app (B.app (b_sep first ", " (by decide)) (B_id c.name)) h2) h3) (ih false)

theorem e_rIndexColumns (d : Backend) (cs : List IdxCol) : B d (rIndexColumns d cs) := by
  unfold rIndexColumns; exact B.paren (e_rIdxCols d cs true)

theorem e_rIndexPrefix (d : Backend) (i : Index) : B d (rIndexPrefix d i) := by
  cases d <;> simp only [rIndexPrefix]
  · refine B.app (B.app (B_ite (by bal) B_nil) (B_ite (by bal) B_nil)) ?_
    split <;> bal
  · exact B.app (B_ite (by bal) B_nil) (B_ite (by bal) B_nil)
  · exact B_ite (by bal) (B_ite (by bal) B_nil)

theorem e_rIndexType (d : Backend) (t : Option IndexType) : B d (rIndexType d t) := by
  cases t with
  | none => exact B_nil
  | some t =>
    cases d <;> cases t <;> simp only [rIndexType] <;> first | bal | exact B.app (B_S _ (by decide)) (B_raw _)

theorem e_rInclude (cs : List String) : B d (rInclude cs) := by
  unfold rInclude
  exact Bk.close (j := 0) (Bk.appB (Bk_S "INCLUDE (" 1 (by decide)) (b_rIdents cs true)) (Cl_S ")" (by decide))

theorem e_rFilter (d : Backend) (h : Holder) : B d (rFilter d h) := by
  unfold rFilter; exact B_ite B_nil (b_holder d _ h (by decide))

theorem e_rTableIndex (d : Backend) (i : Index) : B d (rTableIndex d i) := by
  have hcols : B d (rIndexColumns d i.cols) := e_rIndexColumns d i.cols
  have h2m : B d (match i.name with | some n => [Piece.id n, S " "] | none => []) := by cases i.name <;> bal
  have h2 : B d (match i.name with | some n => [S "CONSTRAINT ", Piece.id n, S " "] | none => []) := by cases i.name <;> bal
  have hnnd : B d (if i.nullsNotDistinct = true then [S "NULLS NOT DISTINCT "] else []) := B_ite (by bal) B_nil
  have hinc : B d (if i.include_.isEmpty = true then [] else [S " "] ++ rInclude i.include_) := B_ite B_nil (B.app (B_S " " (by decide)) (e_rInclude _))
  have hft : B d (if isFullText i.indexType = true then [S " "] else []) := B_ite (B_S _ (by decide)) B_nil
  have hkey : B d [S "KEY "] := B_S _ (by decide)
  cases d <;> simp only [rTableIndex]
  · exact B.app (B.app (B.app (B.app (B.app (e_rIndexPrefix .mysql i) hkey) h2m) (e_rIndexType .mysql i.indexType)) hft) hcols
  · exact B.app (B.app (B.app (B.app h2 (e_rIndexPrefix .postgres i)) hnnd) hcols) hinc
  · exact B.app (B.app (B.app h2 (e_rIndexPrefix .sqlite i)) hcols) (e_rFilter _ _)

theorem e_rTableIndexes (d : Backend) : ∀ (l : List Index) (first : Bool), B d (rTableIndexes d first l) := by
  intro l; induction l with
  | nil => intro _; exact B_nil
  | cons c r ih => intro first; simp only [rTableIndexes]; exact B.app (B.app (b_sep first ", " (by decide)) (e_rTableIndex d c)) (ih false)

theorem e_rIndexCreate (d : Backend) (i : Index) : B d (rIndexCreate d i) := by
  have hcols : B d (rIndexColumns d i.cols) := e_rIndexColumns d i.cols
  have hname : B d (match i.name with | some n => [Piece.id n] | none => []) := by cases i.name <;> bal
  have htab : B d (Ddl.rOptTable (idxParts d) i.table) := e_rOptTable (idxParts d) i.table
  have hine : B d (if i.ifNotExists = true then [S "IF NOT EXISTS "] else []) := B_ite (by bal) B_nil
  have hinc : B d (if i.include_.isEmpty = true then [] else [S " "] ++ rInclude i.include_) :=
    B_ite B_nil (B.app (B_S " " (by decide)) (e_rInclude _))
  have hnnd : B d (if i.nullsNotDistinct = true then [S " NULLS NOT DISTINCT"] else []) := B_ite (by bal) B_nil
  have hc : B d [S "CREATE "] := B_S _ (by decide)
  have hi : B d [S "INDEX "] := B_S _ (by decide)
  have hon : B d [S " ON "] := B_S _ (by decide)
  have hsp : B d [S " "] := B_S _ (by decide)
  cases d <;> simp only [rIndexCreate]
  · exact B.app (B.app (B.app (B.app (B.app (B.app (B.app (B.app hc (e_rIndexPrefix .mysql i)) hi) hname) hon) htab) hsp) hcols) (e_rIndexType _ _)
  · exact B.app (B.app (B.app (B.app (B.app (B.app (B.app (B.app (B.app (B.app (B.app (B.app hc (e_rIndexPrefix .postgres i)) hi) hine) hname) hon) htab)
      (e_rIndexType _ _)) hsp) hcols) hinc) hnnd) (e_rFilter _ _)
  · exact B.app (B.app (B.app (B.app (B.app (B.app (B.app (B.app (B.app hc (e_rIndexPrefix .sqlite i)) hi) hine) hname) hon) htab) hsp) hcols) (e_rFilter _ _)

theorem e_rIndexDrop (d : Backend) (name : Option String) (table : Option TName) (ie : Bool) : B d (rIndexDrop d name table ie) := by
  have hname : B d (match name with | some n => [Piece.id n] | none => []) := by cases name <;> bal
  have hie : B d (if ie = true then [S "IF EXISTS "] else []) := B_ite (by bal) B_nil
  have hd : B d [S "DROP INDEX "] := B_S _ (by decide)
  have hon : B d [S " ON "] := B_S _ (by decide)
  have hsch : B d (match table with
      | none => []
      | some t => if t.alias.isSome = true then [Piece.bad] else
        match t.parts with
        | [_] => []
        | [s, _] => [.id s, S "."]
        | _ => [.bad]) := by
    cases table with
    | none => exact B_nil
    | some t => refine B_ite B_bad ?_; split <;> bal
  cases d <;> simp only [rIndexDrop]
  · exact B_ite B_bad (B.app (B.app (B.app hd hname) hon) (e_rOptTable 1 table))
  · exact B.app (B.app (B.app hd hie) hsch) hname
  · exact B.app (B.app hd hie) hname

theorem e_rFkActions (f : Fk) : B d (rFkActions f) := by
  unfold rFkActions
  have ha : ∀ a, B d [S (fkAction a)] := by intro a; unfold fkAction; split <;> bal
  refine B.app ?_ ?_
  · cases f.onDelete with
    | none => exact B_nil
    | some a => exact B.app (B_S " ON DELETE " (by decide)) (ha a)
  · cases f.onUpdate with
    | none => exact B_nil
    | some a => exact B.app (B_S " ON UPDATE " (by decide)) (ha a)

theorem e_parenIdents (cs : List String) : B d ([S "("] ++ rIdents true cs ++ [S ")"]) := B.paren (b_rIdents cs true)

theorem e_rFkCreate (d : Backend) (mode : Nat) (f : Fk) : B d (rFkCreate d mode f) := by
  have hact : B d (rFkActions f) := e_rFkActions f
  have hadd : B d (if (mode != 0) = true then [S "ADD "] else []) := B_ite (by bal) B_nil
  have halt1 : B d (if (mode == 1) = true then [S "ALTER TABLE "] ++ Ddl.rOptTable 1 f.table ++ [S " "] else []) :=
    B_ite (B.app (B.app (B_S _ (by decide)) (e_rOptTable 1 f.table)) (B_S _ (by decide))) B_nil
  have halt3 : B d (if (mode == 1) = true then [S "ALTER TABLE "] ++ Ddl.rOptTable 3 f.table ++ [S " "] else []) :=
    B_ite (B.app (B.app (B_S _ (by decide)) (e_rOptTable 3 f.table)) (B_S _ (by decide))) B_nil
  have hname1 : B d (match f.name with | some n => [Piece.id n] | none => []) := by cases f.name <;> bal
  have hname3 : B d (match f.name with | some n => [S "CONSTRAINT ", Piece.id n, S " "] | none => []) := by cases f.name <;> bal
  have hcols : B d ([S "("] ++ rIdents true f.cols ++ [S ")"]) := e_parenIdents f.cols
  have hrefs : B d ([S "("] ++ rIdents true f.refCols ++ [S ")"]) := e_parenIdents f.refCols
  have hfk : B d ([S "FOREIGN KEY ("] ++ rIdents true f.cols ++ [S ")"]) :=
    Bk.close (j := 0) (Bk.appB (Bk_S "FOREIGN KEY (" 1 (by decide)) (b_rIdents f.cols true)) (Cl_S ")" (by decide))
  have hrf : B d ([S " ("] ++ rIdents true f.refCols ++ [S ")"]) :=
    Bk.close (j := 0) (Bk.appB (Bk_S " (" 1 (by decide)) (b_rIdents f.refCols true)) (Cl_S ")" (by decide))
  have hcon : B d [S "CONSTRAINT "] := B_S _ (by decide)
  have hfkw : B d [S " FOREIGN KEY "] := B_S _ (by decide)
  have href : B d [S " REFERENCES "] := B_S _ (by decide)
  have hsp : B d [S " "] := B_S _ (by decide)
  have hbad : B d [Piece.bad] := B_bad
  have hr1 : B d (Ddl.rOptTable 1 f.refTable) := e_rOptTable 1 f.refTable
  have hr3 : B d (Ddl.rOptTable 3 f.refTable) := e_rOptTable 3 f.refTable
  cases d <;> simp only [rFkCreate]
  · exact B.app (B.app (B.app (B.app (B.app (B.app (B.app (B.app (B.app (B.app halt1 hadd) hcon) hname1) hfkw) hcols) href) hr1) hsp) hrefs) hact
  · exact B.app (B.app (B.app (B.app (B.app (Bk.close (j := 0) (Bk.appB (B.appk (B.app (B.app halt3 hadd) hname3) (Bk_S "FOREIGN KEY (" 1 (by decide))) (b_rIdents f.cols true)) (Cl_S ")" (by decide)))
      href) hr3) hsp) hrefs) hact
  · refine B_ite hbad ?_
    exact B.app (Bk.close (j := 0) (Bk.appB (B.appk (B.app (B.app hfk href) hr1) (Bk_S " (" 1 (by decide))) (b_rIdents f.refCols true)) (Cl_S ")" (by decide))) hact

theorem e_rFkDrop (d : Backend) (mode : Nat) (name : Option String) (table : Option TName) : B d (rFkDrop d mode name table) := by
  have hname : B d (match name with | some n => [Piece.id n] | none => []) := by cases name <;> bal
  cases d <;> simp only [rFkDrop]
  · exact B.app (B.app (B_ite (B.app (B.app (B_S _ (by decide)) (e_rOptTable 1 table)) (B_S _ (by decide))) B_nil) (B_S _ (by decide))) hname
  · exact B.app (B.app (B_ite (B.app (B.app (B_S _ (by decide)) (e_rOptTable 3 table)) (B_S _ (by decide))) B_nil) (B_S _ (by decide))) hname
  · exact B_ite B_bad (B.app (B_S _ (by decide)) hname)

theorem e_rFks (d : Backend) : ∀ (l : List Fk) (first : Bool), B d (rFks d first l) := by
  intro l; induction l with
  | nil => intro _; exact B_nil
  | cons c r ih => intro first; simp only [rFks]; exact B.app (B.app (b_sep first ", " (by decide)) (e_rFkCreate d 0 c)) (ih false)

theorem e_rChecks (d : Backend) : ∀ (l : List Ex) (first : Bool), B d (rChecks d first l) := by
  intro l; induction l with
  | nil => intro _; exact B_nil
  | cons c r ih => intro first; simp only [rChecks]; exact B.app (B.app (b_sep first ", " (by decide)) (e_rCheck d c)) (ih false)

theorem e_rTableOpts : ∀ (l : List TableOpt), B d (rTableOpts l) := by
  intro l; induction l with
  | nil => exact B_nil
  | cons o r ih =>
    simp only [rTableOpts]
    have h1 : B d (match o with
        | .engine s => [S "ENGINE=", Piece.raw s.toList]
        | .collate s => [S "COLLATE=", .raw s.toList]
        | .charset s => [S "DEFAULT CHARSET=", .raw s.toList]) := by
      cases o <;> exact B.app (B_S _ (by decide)) (B_raw _)
    exact B.app (B.app (B_S " " (by decide)) h1) ih

theorem e_rCreate (d : Backend) (c : Create) : B d (rCreate d c) := by
  unfold rCreate
  simp only []
  have p1 : Bk d 1 ([S "CREATE "] ++ (if c.temporary = true then [S "TEMPORARY "] else []) ++ [S "TABLE "] ++
      (if c.ifNotExists = true then [S "IF NOT EXISTS "] else []) ++ Ddl.rOptTable 3 c.table ++ [S " ( "]) :=
    B.appk (B.app (B.app (B.app (B.app (B_S _ (by decide)) (B_ite (by bal) B_nil)) (B_S _ (by decide))) (B_ite (by bal) B_nil)) (e_rOptTable 3 c.table))
      (Bk_S " ( " 1 (by decide))
  have p2 := Bk.appB (Bk.appB (Bk.appB (Bk.appB p1 (e_rColumnDefs d c.cols true)) (e_rTableIndexes d c.indexes c.cols.isEmpty)) (e_rFks d c.fks (c.cols.isEmpty && c.indexes.isEmpty))) (e_rChecks d c.checks (c.cols.isEmpty && c.indexes.isEmpty && c.fks.isEmpty))
  have p3 : B d (_ ++ [S " )"]) := Bk.close (j := 0) p2 (Cl_S " )" (by decide))
  have hcom : B d (match c.comment with | some t => if (d == Backend.mysql) = true then [S " COMMENT ", rStrLit t] else [] | none => []) := by
    cases c.comment with
    | none => exact B_nil
    | some t => exact B_ite (by bal) B_nil
  have hext : B d (match c.extra with | some e => [S " ", Piece.raw e.toList] | none => []) := by
    cases c.extra with
    | none => exact B_nil
    | some e => exact B.app (B_S _ (by decide)) (B_raw _)
  exact B.app (B.app (B.app p3 hcom) (e_rTableOpts c.options)) hext

theorem e_pgAction (name : String) (s : Spec) : B .postgres (pgAction name s) := by
  cases s <;> simp only [pgAction]
  case default e => exact B.app (a := [S "ALTER COLUMN ", .id name, S " SET DEFAULT "]) (by bal) (b_ex _ e)
  case check e => exact B.app (B_S _ (by decide)) (e_rCheck _ e)
  case «using» e => exact B.app (B_S _ (by decide)) (b_ex _ e)
  case extra t => exact B_raw _
  all_goals bal

theorem e_rPgModifySpecs (name : String) : ∀ (l : List Spec) (first : Bool), B .postgres (rPgModifySpecs name first l) := by
  intro l; induction l with
  | nil => intro _; exact B_nil
  | cons s r ih => intro first; simp only [rPgModifySpecs]; exact B.app (B.app (B_ite (by bal) B_nil) (e_pgAction name s)) (ih _)

theorem e_rAlterOpt (d : Backend) (o : AlterOpt) : B d (rAlterOpt d o) := by
  cases o <;> simp only [rAlterOpt]
  case add c ine => exact B.app (B.app (B_S _ (by decide)) (B_ite (by bal) B_nil)) (e_rColumnDef d c)
  case modify c =>
    cases d <;> simp only
    · exact B.app (B_S _ (by decide)) (e_rColumnDef _ c)
    · refine B.app ?_ (e_rPgModifySpecs _ _ _)
      cases c.ty with
      | none => exact B_nil
      | some t => exact B.app (a := [S "ALTER COLUMN ", .id c.name, S " TYPE "]) (by bal) (e_rTypePg t)
    · exact B_bad
  case rename a b => bal
  case drop c => bal
  case addFk f => exact B_ite B_bad (e_rFkCreate d 2 f)
  case dropFk n => exact B_ite B_bad (e_rFkDrop d 2 _ _)

theorem e_rAlterOpts (d : Backend) : ∀ (l : List AlterOpt) (first : Bool), B d (rAlterOpts d first l) := by
  intro l; induction l with
  | nil => intro _; exact B_nil
  | cons c r ih => intro first; simp only [rAlterOpts]; exact B.app (B.app (b_sep first ", " (by decide)) (e_rAlterOpt d c)) (ih false)

theorem e_rAlter (d : Backend) (t : Option TName) (opts : List AlterOpt) : B d (rAlter d t opts) := by
  unfold rAlter
  refine B_ite B_bad (B_ite B_bad ?_)
  have h1 : B d (match t with | some t => rTable 3 t ++ [S " "] | none => []) := by
    cases t with
    | none => exact B_nil
    | some t => exact B.app (e_rTable 3 t) (B_S _ (by decide))
  exact B.app (B.app (B_S _ (by decide)) h1) (e_rAlterOpts d opts true)

theorem e_rDropOpts (d : Backend) : ∀ (l : List Nat), B d (rDropOpts d l) := by
  intro l; induction l with
  | nil => exact B_nil
  | cons o r ih => simp only [rDropOpts]; exact B.app (B_ite B_nil (by split <;> bal)) ih

theorem e_rTables : ∀ (l : List TName) (first : Bool), B d (rTables first l) := by
  intro l; induction l with
  | nil => intro _; exact B_nil
  | cons c r ih => intro first; simp only [rTables]; exact B.app (B.app (b_sep first ", " (by decide)) (e_rTable 3 c)) (ih false)

theorem e_rStrVs : ∀ (l : List String) (first : Bool), B d (rStrVs first l) := by
  intro l; induction l with
  | nil => intro _; exact B_nil
  | cons v r ih => intro first; simp only [rStrVs]; exact B.app (B.app (b_sep first ", " (by decide)) (by bal)) (ih false)

theorem e_rTypeRefs : ∀ (l : List (List String)) (first : Bool), B d (rTypeRefs first l) := by
  intro l; induction l with
  | nil => intro _; exact B_nil
  | cons c r ih => intro first; simp only [rTypeRefs]; exact B.app (B.app (b_sep first ", " (by decide)) (b_rParts c true)) (ih false)

theorem e_rTypeAlterOpt (o : TypeAlterOpt) : B d (rTypeAlterOpt o) := by
  cases o with
  | add v pl ine =>
    simp only [rTypeAlterOpt]
    refine B.app (B.app (B.app (B_S _ (by decide)) (B_ite (by bal) B_nil)) (by bal)) ?_
    cases pl with
    | none => exact B_nil
    | some q => obtain ⟨x, y⟩ := q; cases x <;> bal
  | rename n => simp only [rTypeAlterOpt]; bal
  | renameValue a b => simp only [rTypeAlterOpt]; bal

/-- **every schema statement is written with balanced parentheses** -/
theorem e_rStmt (d : Backend) (s : Ddl.Stmt) : B d (rStmt d s) := by
  cases s <;> simp only [rStmt]
  case create c => exact e_rCreate d c
  case alter t opts => exact e_rAlter d t opts
  case drop ts ie opts => exact B.app (B.app (B.app (B_S _ (by decide)) (B_ite (by bal) B_nil)) (e_rTables ts true)) (e_rDropOpts d opts)
  case rename a b =>
    cases d <;> simp only <;> exact B.app (B.app (B.app (B_S _ (by decide)) (e_rOptTable 3 a)) (B_S _ (by decide))) (e_rOptTable 3 b)
  case truncate t => exact B_ite B_bad (B.app (B_S _ (by decide)) (e_rOptTable 3 t))
  case indexCreate i => exact e_rIndexCreate d i
  case indexDrop n t ie => exact e_rIndexDrop d n t ie
  case fkCreate f => exact e_rFkCreate d 1 f
  case fkDrop n t => exact e_rFkDrop d 1 n t
  case typeCreate name asEnum values =>
    have hn : B d (match (generalizing := false) name with | some n => rParts true n | none => []) := by
      cases name with
      | none => exact B_nil
      | some n => exact b_rParts n true
    exact B.app (B.app (B.app (B_S _ (by decide)) hn) (B_ite (by bal) B_nil))
      (B_ite B_nil (Bk.close (j := 0) (Bk.appB (Bk_S " (" 1 (by decide)) (e_rStrVs values true)) (Cl_S ")" (by decide))))
  case typeDrop names ie opt =>
    have h3 : B d (match (generalizing := false) opt with | some o => [S " ", S (if (o == 0) = true then "CASCADE" else "RESTRICT")] | none => []) := by
      cases opt with
      | none => exact B_nil
      | some o => exact B.app (B_S _ (by decide)) (by split <;> bal)
    exact B.app (B.app (B.app (B_S _ (by decide)) (B_ite (by bal) B_nil)) (e_rTypeRefs names true)) h3
  case typeAlter name opt =>
    have hn : B d (match (generalizing := false) name with | some n => rParts true n | none => []) := by
      cases name with
      | none => exact B_nil
      | some n => exact b_rParts n true
    have ho : B d (match (generalizing := false) opt with | some o => rTypeAlterOpt o | none => []) := by
      cases opt with
      | none => exact B_nil
      | some o => exact e_rTypeAlterOpt o
    exact B.app (B.app (B_S _ (by decide)) hn) ho
  case extCreate name schema version cascade ine =>
    have h1 : B d (match (generalizing := false) schema with | some x => [S " WITH SCHEMA ", Piece.raw x.toList] | none => []) := by
      cases schema with
      | none => exact B_nil
      | some x => exact B.app (B_S _ (by decide)) (B_raw _)
    have h2 : B d (match (generalizing := false) version with | some x => [S " VERSION ", Piece.raw x.toList] | none => []) := by
      cases version with
      | none => exact B_nil
      | some x => exact B.app (B_S _ (by decide)) (B_raw _)
    exact B.app (B.app (B.app (B.app (B.app (B_S _ (by decide)) (B_ite (by bal) B_nil)) (B_raw _)) h1) h2) (B_ite (by bal) B_nil)
  case extDrop name ie cascade restrict =>
    exact B.app (B.app (B.app (B.app (B_S _ (by decide)) (B_ite (by bal) B_nil)) (B_raw _)) (B_ite (by bal) B_nil)) (B_ite (by bal) B_nil)

end SeaQ.Plain
