import SeaQ.Lemmas.Scan
/-!
Infrastructure for `render_safe`: a context-explicit form of `Scan.safe` that composes over `++`.

`safeN d inl pw nxt ps`: the piece list is safe when the previous character continues a word iff `pw`
and the character that follows the whole list is `nxt`.  `Scan.safe = safeN .. none`.
-/
namespace SeaQ.SafeN
open SeaQ.Escape SeaQ.Render SeaQ.Stmt SeaQ.Scan

/-- first character of the text of a piece list (independent of the parameter counter) -/
def headT (d : Backend) (inl : Bool) : Pieces → Option Char
  | [] => none
  | p :: r => match (pieceTxt d inl 0 p).head? with
    | some c => some c
    | none => headT d inl r

def orNext (h nxt : Option Char) : Option Char := match h with | some c => some c | none => nxt

def safeN (d : Backend) (inl : Bool) : Bool → Option Char → Pieces → Bool
  | _, _, [] => true
  | pw, nxt, p :: r => okPiece d inl pw (orNext (headT d inl r) nxt) p && safeN d inl (endWord d inl pw p) nxt r

def endWs (d : Backend) (inl : Bool) : Bool → Pieces → Bool
  | pw, [] => pw
  | pw, p :: r => endWs d inl (endWord d inl pw p) r

theorem pieceTxt_head (d : Backend) (inl : Bool) (k : Nat) (p : Piece) :
    (pieceTxt d inl k p).head? = (pieceTxt d inl 0 p).head? := by
  cases p <;> simp [pieceTxt]
  rename_i v
  cases inl <;> simp [placeholder]
  split <;> simp

theorem txt_head (d : Backend) (inl : Bool) : ∀ (ps : Pieces) (k : Nat), (txt d inl k ps).head? = headT d inl ps := by
  intro ps
  induction ps with
  | nil => intro k; rfl
  | cons p r ih =>
    intro k
    simp only [txt, headT, List.head?_append, ← pieceTxt_head d inl k p]
    cases h : (pieceTxt d inl k p).head? with
    | none => simp [ih]
    | some c => simp

theorem orNext_none (h : Option Char) : orNext h none = h := by cases h <;> rfl

theorem safe_eq_safeN (d : Backend) (inl : Bool) : ∀ (ps : Pieces) (pw : Bool) (k : Nat),
    safe d inl pw k ps = safeN d inl pw none ps := by
  intro ps
  induction ps with
  | nil => intro pw k; rfl
  | cons p r ih => intro pw k; simp only [safe, safeN, txt_head, orNext_none, ih]

theorem headT_append (d : Backend) (inl : Bool) (a b : Pieces) :
    headT d inl (a ++ b) = orNext (headT d inl a) (headT d inl b) := by
  induction a with
  | nil => simp [headT, orNext]
  | cons p r ih =>
    simp only [List.cons_append, headT]
    cases (pieceTxt d inl 0 p).head? with
    | none => simpa using ih
    | some c => rfl

theorem orNext_assoc (a b c : Option Char) : orNext (orNext a b) c = orNext a (orNext b c) := by
  cases a <;> rfl

theorem endWs_append (d : Backend) (inl : Bool) : ∀ (a b : Pieces) (pw : Bool),
    endWs d inl pw (a ++ b) = endWs d inl (endWs d inl pw a) b := by
  intro a
  induction a with
  | nil => intro b pw; rfl
  | cons p r ih => intro b pw; simp [endWs, ih]

/-- **composition** -/
theorem safeN_append (d : Backend) (inl : Bool) : ∀ (a b : Pieces) (pw : Bool) (nxt : Option Char),
    safeN d inl pw nxt (a ++ b) =
      (safeN d inl pw (orNext (headT d inl b) nxt) a && safeN d inl (endWs d inl pw a) nxt b) := by
  intro a
  induction a with
  | nil => intro b pw nxt; simp [safeN, endWs]
  | cons p r ih =>
    intro b pw nxt
    simp only [List.cons_append, safeN, endWs, ih, headT_append, orNext_assoc, Bool.and_assoc]

end SeaQ.SafeN

namespace SeaQ.SafeN
open SeaQ.Escape SeaQ.Render SeaQ.Stmt SeaQ.Scan

/-! ## content and context -/

/-- a following character after which nothing written before it can be misread -/
def okNext (nxt : Option Char) : Bool :=
  match nxt with
  | none => true
  | some c => !isWord c && c != '\'' && c != '"' && c != '`'

theorem okNext_orNext (h nxt : Option Char) (hh : ∀ c, h = some c → okNext (some c) = true) (hn : okNext nxt = true) :
    okNext (orNext h nxt) = true := by
  cases h with
  | none => exact hn
  | some c => exact hh c rfl

theorem quote2_facts (d : Backend) : (Ident.quoteOf d).2 = '"' ∨ (Ident.quoteOf d).2 = '`' := by cases d <;> decide

theorem plainFollow_okNext (d : Backend) (nxt : Option Char) (t : List Char) (h : okNext nxt = true) : plainFollow d nxt t = true := by
  cases nxt with
  | none => simp [plainFollow]
  | some c =>
    simp only [okNext, Bool.and_eq_true, bne_iff_ne, ne_eq] at h
    have : c ≠ '\'' := h.1.1.2
    simp [plainFollow, this]

/-- a literal-like piece is fine after a non-word character and before a separator-like one -/
theorem okPiece_sep (d : Backend) (inl : Bool) (nxt : Option Char) (p : Piece)
    (hc : contentOK d inl p = true) (hn : okNext nxt = true) : okPiece d inl false nxt p = true := by
  have hpf := fun t => plainFollow_okNext d nxt t hn
  have hq : nxt ≠ some '\'' := by
    intro h; subst h; simp [okNext] at hn
  have hq2 : nxt ≠ some (Ident.quoteOf d).2 := by
    intro h; subst h
    rcases quote2_facts d with h2 | h2 <;> simp [okNext, h2] at hn
  have hw : (nxt.map isWord).getD false = false := by
    cases nxt with
    | none => rfl
    | some c => simp only [okNext, Bool.and_eq_true, Bool.not_eq_true'] at hn; simpa using hn.1.1.1
  have hdg : (nxt.map Scan.isDigit).getD false = false := by
    cases nxt with
    | none => rfl
    | some c =>
      simp only [Option.map_some, Option.getD_some] at hw ⊢
      cases hd : Scan.isDigit c with
      | false => rfl
      | true => rw [isDigit_isWord c hd] at hw; cases hw
  have hlit : ∀ v, valOK d v = true → litOK d false nxt v = true := by
    intro v hv
    obtain ⟨ty, pl⟩ := v
    cases pl <;> simp_all [litOK, valOK]
  cases p with
  | s t => simp_all [okPiece, contentOK]
  | raw t =>
    simp only [contentOK, Bool.and_eq_true] at hc
    simp [okPiece, hc.2, hpf]
  | id n => simp_all [okPiece]
  | c v => simp only [contentOK] at hc; simp [okPiece, hlit v hc]
  | p v =>
    cases inl with
    | true => simp only [contentOK, Bool.not_true, Bool.false_or] at hc; simp [okPiece, hlit v hc]
    | false => cases hnd : numbered d <;> simp [okPiece, hnd, hw, hdg]
  | bad => simp [contentOK] at hc

/-- renderer text: preceded by anything; the only demand on what follows is the Postgres `E'` rule -/
theorem okPiece_s (d : Backend) (inl pw : Bool) (nxt : Option Char) (t : String)
    (hc : t.toList.all (plainChar d) = true) (hE : t.toList.getLast? ≠ some 'E' ∨ nxt ≠ some '\'') :
    okPiece d inl pw nxt (.s t) = true := by
  simp only [okPiece, hc, Bool.true_and, plainFollow]
  cases hE with
  | inl h => simp [h]
  | inr h => simp [h]

/-- characters the renderer's own text is made of: never a quote, a mark or `[` -/
def basicChar (c : Char) : Bool :=
  c != '\'' && c != '"' && c != '`' && c != '[' && c != '?' && c != '$'

theorem plain_of_basic (d : Backend) (t : List Char) (h : t.all basicChar = true) : t.all (plainChar d) = true := by
  simp only [List.all_eq_true] at h ⊢
  intro c hc
  have := h c hc
  simp only [basicChar, Bool.and_eq_true, bne_iff_ne, ne_eq] at this
  obtain ⟨⟨⟨⟨⟨h1, h2⟩, h3⟩, h4⟩, h5⟩, h6⟩ := this
  cases d <;> simp [plainChar, otherQuote, mark, Ident.quoteOf, SeaQ.Gen.Quote.mysqlQuote, SeaQ.Gen.Quote.postgresQuote,
    SeaQ.Gen.Quote.sqliteQuote, h1, h2, h3, h4, h5, h6]

theorem safeN_cons (d : Backend) (inl pw : Bool) (nxt : Option Char) (p : Piece) (r : Pieces) :
    safeN d inl pw nxt (p :: r) = (okPiece d inl pw (orNext (headT d inl r) nxt) p && safeN d inl (endWord d inl pw p) nxt r) := rfl

theorem safeN_nil (d : Backend) (inl pw : Bool) (nxt : Option Char) : safeN d inl pw nxt [] = true := rfl

end SeaQ.SafeN
