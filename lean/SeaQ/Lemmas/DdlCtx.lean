import SeaQ.Lemmas.RenderCtx
import SeaQ.Model.Ddl
/-!
`ctx` for everything the schema-statement renderer writes (`Model/Ddl.lean`), built from the
combinators of `RenderCtx` and the expression theorems `c_ex`, `c_holder`.
-/
namespace SeaQ.SafeN
open SeaQ.Escape SeaQ.Render SeaQ.Stmt SeaQ.Scan SeaQ.Ddl

theorem d_rTable (m : Nat) (n : TName) : CS (rTable m n) := by
  unfold rTable; exact CS_ite CS_bad (c_rParts _ true)

theorem d_rOptTable (m : Nat) (o : Option TName) : CS (Ddl.rOptTable m o) := by
  cases o with
  | none => exact CS_nil
  | some n => exact d_rTable m n

theorem notE_natText (n : Nat) : notE (natText n) = true := by
  have hd := digitChar_isDigit n
  have : digitChar n ≠ 'E' := by
    intro h; rw [h] at hd; revert hd; decide
  simp [notE, natText_getLast, this]

theorem CS_num (n : Nat) : CS [num n] := by
  intro pw k hk
  simp [ctx, ctxP, num, notE_natText, hK]

open SeaQ.Gen.ColTypes in
/-- no text of the template ends in `E` -/
def tplOK (t : List Seg) : Bool := t.all (fun | .lit s => notE s.toList | .par _ => true)

open SeaQ.Gen.ColTypes in
theorem d_segPieces (ρ : String → Nat) : ∀ (t : List Seg), tplOK t = true → CT (segPieces ρ t) := by
  intro t
  induction t with
  | nil => intro _; exact CT_nil
  | cons x r ih =>
    intro h
    simp only [tplOK, List.all_cons, Bool.and_eq_true] at h
    have ihr := ih (by simpa [tplOK] using h.2)
    cases x with
    | lit s =>
      intro pw k
      simp only [segPieces]
      exact ctx_cons _ _ pw k (by simp [ctxP, S, h.1]) (ihr _ k)
    | par n =>
      intro pw k
      simp only [segPieces]
      exact ctx_cons _ _ pw k (by simp [ctxP, num, notE_natText]) (ihr _ k)

open SeaQ.Gen.ColTypes in
def tableOK (table : List Arm) : Bool := table.all (fun a => a.templates.all tplOK)

open SeaQ.Gen.ColTypes in
theorem d_fromTable (table : List Arm) (ht : tableOK table = true) (v : String) (i : Nat) (ρ : String → Nat) :
    CT (fromTable table v i ρ) := by
  unfold fromTable
  cases hf : findArm table v with
  | none => exact CT_bad
  | some a =>
    simp only
    cases hcmp : a.computed with
    | true => simp only [↓reduceIte]; exact CT_bad
    | false =>
      simp only [Bool.false_eq_true, ↓reduceIte]
      cases hg : a.templates[i]? with
      | none => exact CT_bad
      | some t =>
        simp only
        apply d_segPieces
        have ha : a ∈ table := List.mem_of_find?_eq_some hf
        have htm : t ∈ a.templates := List.mem_of_getElem? hg
        simp only [tableOK, List.all_eq_true] at ht
        exact ht a ha t htm

theorem mysql_tableOK : tableOK SeaQ.Gen.ColTypes.mysql = true := by decide
theorem postgres_tableOK : tableOK SeaQ.Gen.ColTypes.postgres = true := by decide
theorem sqlite_tableOK : tableOK SeaQ.Gen.ColTypes.sqlite = true := by decide
theorem serial_tableOK : tableOK SeaQ.Gen.ColTypes.postgresSerial = true := by decide

theorem h_rEnumVariants (l : List String) : okK (hK (rEnumVariants false l)) = true := by cases l <;> ev [rEnumVariants]

theorem d_rEnumVariants : ∀ (l : List String) (first : Bool), CF first (rEnumVariants first l) := by
  intro l
  induction l with
  | nil => intro first pw k _ _; rfl
  | cons v r ih =>
    intro first pw k hpw hk
    have ih' : ∀ pw k, okK k = true → ctx pw k (rEnumVariants false r) = true := fun pw k hk => ih false pw k (by simp) hk
    have hh := h_rEnumVariants r
    cases first
    · ev [rEnumVariants, rStrLit]
    · have := hpw rfl; subst this; ev [rEnumVariants, rStrLit]

theorem d_rTypeMysql (t : ColType) : CS (rTypeMysql t) := by
  have gen : ∀ t, CS (fromTable SeaQ.Gen.ColTypes.mysql (variantName t) (idxMysql t).1 (idxMysql t).2 ++
      (if SeaQ.Gen.ColTypes.mysqlUnsigned.contains (variantName t) then [S " ", S "UNSIGNED"] else [])) := fun t =>
    CS.app (d_fromTable _ mysql_tableOK _ _ _).toS (CS_ite (by intro pw k hk; ev) CS_nil) (okK_ite (by ev) rfl)
  cases t
  case custom s => exact CS_raw _
  case «enum» n vs =>
    simp only [rTypeMysql]
    refine CS.app (CTE.appU (a := [S "ENUM("]) (by intro pw k; ev) (CU_ite ?_ (d_rEnumVariants vs true).toU)) (CS_S ")") (by ev)
    intro pw k hpw hk; subst hpw; ev [rStrLit]
  all_goals exact gen _

theorem d_rTypePg : ∀ (t : ColType), CS (rTypePg t) := by
  have gen : ∀ t, CS (fromTable SeaQ.Gen.ColTypes.postgres (variantName t) (idxPg t).1 (idxPg t).2) := fun t =>
    (d_fromTable _ postgres_tableOK _ _ _).toS
  intro t
  induction t with
  | array e ih => simp only [rTypePg]; exact CS.app ih (CS_S "[]") (by ev)
  | interval f p => cases f <;> cases p <;> (intro pw k hk; ev [rTypePg, num])
  | custom s => exact CS_raw _
  | «enum» n vs => exact CS_raw _
  | _ => exact gen _

theorem d_rTypeSqlite (a : Bool) (t : ColType) : CS (rTypeSqlite a t) := by
  have gen : ∀ t, CS (fromTable SeaQ.Gen.ColTypes.sqlite (variantName t) (idxSqlite a t).1 (idxSqlite a t).2) := fun t =>
    (d_fromTable _ sqlite_tableOK _ _ _).toS
  cases t
  case custom s => exact CS_raw _
  case decimal p =>
    cases p with
    | none => simp only [rTypeSqlite]; exact gen _
    | some q => obtain ⟨x, y⟩ := q; simp only [rTypeSqlite]; exact CS_ite CS_bad (d_fromTable _ sqlite_tableOK _ _ _).toS
  all_goals (simp only [rTypeSqlite]; exact gen _)

theorem d_rSerial (t : ColType) : CS (rSerial t) := (d_fromTable _ serial_tableOK _ _ _).toS

theorem d_rType (d : Backend) (specs : List Spec) (t : ColType) : CS (rType d specs t) := by
  cases d <;> simp only [rType]
  · exact d_rTypeMysql t
  · exact CS_ite (d_rSerial t) (d_rTypePg t)
  · exact d_rTypeSqlite _ t

theorem d_rCheck (d : Backend) (e : Ex) : CS (rCheck d e) := by
  unfold rCheck
  exact CS.app (CTE.appU (a := [S "CHECK ("]) (by intro pw k; ev) (c_ex d e)) (CS_S ")") (by ev)

theorem d_rSpec (d : Backend) (s : Spec) : CS (rSpec d s) := by
  cases s <;> simp only [rSpec]
  case null => exact CS_S _
  case notNull => exact CS_S _
  case default e => exact CTE.appU (a := [S "DEFAULT "]) (by intro pw k; ev) (c_ex d e)
  case autoIncrement => exact CS_S _
  case unique => exact CS_S _
  case primaryKey => exact CS_S _
  case check e => exact d_rCheck d e
  case generated e st =>
    exact CS.app (CS.app (CTE.appU (a := [S "GENERATED ALWAYS AS ("]) (by intro pw k; ev) (c_ex d e)) (CS_S ")") (by ev)) (CS_S _)
      (by cases st <;> ev)
  case extra x => exact CS_raw _
  case comment c => exact CS_ite (by intro pw k hk; ev [rStrLit]) CS_nil
  case «using» e => exact CS_nil

theorem h_rSpecs (d : Backend) : ∀ (l : List Spec), okK (hK (rSpecs d l)) = true := by
  intro l
  induction l with
  | nil => rfl
  | cons s r ih =>
    cases d <;> simp only [rSpecs] <;> (try split) <;> ev

theorem d_rSpecs (d : Backend) : ∀ (l : List Spec), CS (rSpecs d l) := by
  intro l
  induction l with
  | nil => exact CS_nil
  | cons s r ih =>
    simp only [rSpecs]
    exact CS.app (CS_ite CS_nil (CTE.appS (a := [S " "]) (by intro pw k; ev) (d_rSpec d s))) ih (h_rSpecs d r)

theorem d_rColumnDef (d : Backend) (c : Col) : CS (rColumnDef d c) := by
  unfold rColumnDef
  have h1 : CS (match c.ty with | some t => [S " "] ++ rType d c.specs t | none => []) := by
    cases c.ty with
    | none => exact CS_nil
    | some t => exact CTE.appS (a := [S " "]) (by intro pw k; ev) (d_rType d c.specs t)
  have h1h : okK (hK (match c.ty with | some t => [S " "] ++ rType d c.specs t | none => [])) = true := by
    cases c.ty <;> ev
  have x1 := CS.app (CS_id c.name) h1 h1h
  have x2 := CS.app x1 (d_rSpecs d c.specs) (h_rSpecs d c.specs)
  have x3 := CS.app x2 (CS_ite (c := (d == Backend.sqlite && c.specs.any Spec.isPk) = true) (b := []) (a := [S " ", S "PRIMARY KEY"])
    (by intro pw k hk; ev) CS_nil) (okK_ite (by ev) rfl)
  exact CS.app x3 (CS_ite (c := (d == Backend.sqlite && hasAuto c.specs) = true) (b := []) (a := [S " ", S "AUTOINCREMENT"])
    (by intro pw k hk; ev) CS_nil) (okK_ite (by ev) rfl)

theorem h_rColumnDefs (d : Backend) (l : List Col) : okK (hK (rColumnDefs d false l)) = true := by cases l <;> ev [rColumnDefs]

theorem d_rColumnDefs (d : Backend) : ∀ (l : List Col) (first : Bool), CS (rColumnDefs d first l) := by
  intro l
  induction l with
  | nil => intro first; exact CS_nil
  | cons c r ih =>
    intro first
    simp only [rColumnDefs]
    exact CS.app (CT.appS (ct_sep first ", " (by decide)) (d_rColumnDef d c)) (ih false) (h_rColumnDefs d r)

/-! ### indexes -/

theorem h_rIdxCols (d : Backend) (l : List IdxCol) : okK (hK (rIdxCols d false l)) = true := by cases l <;> ev [rIdxCols]

theorem d_rIdxCols (d : Backend) : ∀ (l : List IdxCol) (first : Bool), CS (rIdxCols d first l) := by
  intro l
  induction l with
  | nil => intro first; exact CS_nil
  | cons c r ih =>
    intro first
    simp only [rIdxCols]
    have h2 : CS (match c.pfx with | some n => if (d == Backend.sqlite) = true then [] else [S " (", num n, S ")"] | none => []) := by
      cases c.pfx with
      | none => exact CS_nil
      | some n => exact CS_ite CS_nil (by intro pw k hk; ev [num])
    have h2h : okK (hK (match c.pfx with | some n => if (d == Backend.sqlite) = true then [] else [S " (", num n, S ")"] | none => [])) = true := by
      cases c.pfx with
      | none => rfl
      | some n => exact okK_ite rfl (by ev)
    have h3 : CS (match c.order with | some false => [S " ASC"] | some true => [S " DESC"] | none => []) := by
      cases c.order with
      | none => exact CS_nil
      | some b => cases b <;> exact CS_S _
    have h3h : okK (hK (match c.order with | some false => [S " ASC"] | some true => [S " DESC"] | none => [])) = true := by
      cases c.order with
      | none => rfl
      | some b => cases b <;> ev
    exact CS.app (CS.app (CS.app (CT.appS (ct_sep first ", " (by decide)) (CS_id c.name)) h2 h2h) h3 h3h) (ih false) (h_rIdxCols d r)

theorem d_rIndexColumns (d : Backend) (cs : List IdxCol) : CS (rIndexColumns d cs) := by
  unfold rIndexColumns
  exact CS.app (CTE.appS (a := [S "("]) (by intro pw k; ev) (d_rIdxCols d cs true)) (CS_S ")") (by ev)

theorem d_rIndexPrefix (d : Backend) (i : Index) : CT (rIndexPrefix d i) := by
  cases d <;> simp only [rIndexPrefix]
  · refine CT.appT (CT.appT (CT_ite (by intro pw k; ev) CT_nil) (CT_ite (by intro pw k; ev) CT_nil)) ?_
    split <;> (intro pw k; ev)
  · exact CT.appT (CT_ite (by intro pw k; ev) CT_nil) (CT_ite (by intro pw k; ev) CT_nil)
  · exact CT_ite (by intro pw k; ev) (CT_ite (by intro pw k; ev) CT_nil)

theorem d_rIndexType (d : Backend) (t : Option IndexType) : CS (rIndexType d t) := by
  cases t with
  | none => exact CS_nil
  | some t => cases d <;> cases t <;> (intro pw k hk; ev [rIndexType])

theorem h_rIndexType (d : Backend) (t : Option IndexType) : okK (hK (rIndexType d t)) = true := by
  cases t with
  | none => rfl
  | some t => cases d <;> cases t <;> ev [rIndexType]

theorem d_rInclude (cs : List String) : CS (rInclude cs) := by
  unfold rInclude
  exact CS.app (CTE.appS (a := [S "INCLUDE ("]) (by intro pw k; ev) (c_rIdents cs true)) (CS_S ")") (by ev)

theorem d_rFilter (d : Backend) (h : Holder) : CS (rFilter d h) := by
  unfold rFilter; exact CS_ite CS_nil (c_holder d _ h)

theorem h_rFilter (d : Backend) (h : Holder) : okK (hK (rFilter d h)) = true := by
  unfold rFilter; exact okK_ite rfl (h_rHolder d _ h)

theorem d_optName (pre : Pieces) (post : Pieces) (name : Option String) (hpre : CT pre) (hpost : CT post) (hh : okK (hK post) = true) (hne : hK post ≠ .emp) :
    CT (match name with | some n => pre ++ [.id n] ++ post | none => []) := by
  cases name with
  | none => exact CT_nil
  | some n =>
    intro pw k
    refine ctx_app _ _ pw k (ctx_app _ _ pw _ (hpre pw _) ?_) (hpost _ k)
    have : okK ((hK post).orElse k) = true := by cases h : hK post <;> simp_all
    ev

theorem d_rTableIndex (d : Backend) (i : Index) : CS (rTableIndex d i) := by
  have hcols := d_rIndexColumns d i.cols
  have hcolsh : okK (hK (rIndexColumns d i.cols)) = true := by ev [rIndexColumns]
  cases d <;> simp only [rTableIndex]
  · have h1 : CT (rIndexPrefix .mysql i ++ [S "KEY "]) := CT.appT (d_rIndexPrefix .mysql i) (by intro pw k; ev)
    have h2 : CT (match i.name with | some n => [.id n, S " "] | none => []) := by
      cases i.name with
      | none => exact CT_nil
      | some n => intro pw k; ev
    have x3 := CT.appS (CT.appT h1 h2) (d_rIndexType .mysql i.indexType)
    have x4 := CS.app x3 (CS_ite (c := isFullText i.indexType = true) (a := [S " "]) (b := []) (CS_S _) CS_nil) (okK_ite (by ev) rfl)
    exact CS.app x4 hcols hcolsh
  · have h2 : CT (match i.name with | some n => [S "CONSTRAINT ", .id n, S " "] | none => []) := by
      cases i.name with
      | none => exact CT_nil
      | some n => intro pw k; ev
    have h3 : CT (if i.nullsNotDistinct = true then [S "NULLS NOT DISTINCT "] else []) := CT_ite (by intro pw k; ev) CT_nil
    have x3 := CT.appS (CT.appT (CT.appT h2 (d_rIndexPrefix .postgres i)) h3) hcols
    exact CS.app x3 (CS_ite CS_nil (CTE.appS (a := [S " "]) (by intro pw k; ev) (d_rInclude _))) (okK_ite rfl (by ev))
  · have h2 : CT (match i.name with | some n => [S "CONSTRAINT ", .id n, S " "] | none => []) := by
      cases i.name with
      | none => exact CT_nil
      | some n => intro pw k; ev
    exact CS.app (CT.appS (CT.appT h2 (d_rIndexPrefix .sqlite i)) hcols) (d_rFilter _ _) (h_rFilter _ _)

theorem h_rTableIndexes (d : Backend) (l : List Index) : okK (hK (rTableIndexes d false l)) = true := by cases l <;> ev [rTableIndexes]

theorem d_rTableIndexes (d : Backend) : ∀ (l : List Index) (first : Bool), CS (rTableIndexes d first l) := by
  intro l
  induction l with
  | nil => intro first; exact CS_nil
  | cons c r ih =>
    intro first
    simp only [rTableIndexes]
    exact CS.app (CT.appS (ct_sep first ", " (by decide)) (d_rTableIndex d c)) (ih false) (h_rTableIndexes d r)

theorem d_rIndexCreate (d : Backend) (i : Index) : CS (rIndexCreate d i) := by
  have hcols := d_rIndexColumns d i.cols
  have hname : CS (match i.name with | some n => [Piece.id n] | none => []) := by
    cases i.name with
    | none => exact CS_nil
    | some n => exact CS_id n
  have htab := d_rOptTable (idxParts d) i.table
  have hine : CT (if i.ifNotExists = true then [S "IF NOT EXISTS "] else []) := CT_ite (by intro pw k; ev) CT_nil
  have hinc : CS (if i.include_.isEmpty = true then [] else [S " "] ++ rInclude i.include_) :=
    CS_ite CS_nil (CTE.appS (a := [S " "]) (by intro pw k; ev) (d_rInclude _))
  have hinch : okK (hK (if i.include_.isEmpty = true then [] else [S " "] ++ rInclude i.include_)) = true := okK_ite rfl (by ev)
  have hnnd : CS (if i.nullsNotDistinct = true then [S " NULLS NOT DISTINCT"] else []) := CS_ite (CS_S _) CS_nil
  have hnndh : okK (hK (if i.nullsNotDistinct = true then [S " NULLS NOT DISTINCT"] else [])) = true := okK_ite (by ev) rfl
  cases d <;> simp only [rIndexCreate]
  · have p1 : CT ([S "CREATE "] ++ rIndexPrefix .mysql i ++ [S "INDEX "]) :=
      CT.appT (CT.appT (a := [S "CREATE "]) (by intro pw k; ev) (d_rIndexPrefix .mysql i)) (by intro pw k; ev)
    have p2 : CTE (_ ++ [S " ON "]) := CS.thenE (CT.appS p1 hname) (by intro pw k; ev) (by ev) (by ev)
    have p3 : CTE (_ ++ [S " "]) := CS.thenE (CTE.appS p2 htab) (by intro pw k; ev) (by ev) (by ev)
    exact CS.app (CTE.appS p3 hcols) (d_rIndexType _ _) (h_rIndexType _ _)
  · have p1 : CT ([S "CREATE "] ++ rIndexPrefix .postgres i ++ [S "INDEX "] ++ if i.ifNotExists = true then [S "IF NOT EXISTS "] else []) :=
      CT.appT (CT.appT (CT.appT (a := [S "CREATE "]) (by intro pw k; ev) (d_rIndexPrefix .postgres i)) (by intro pw k; ev)) hine
    have p2 : CTE (_ ++ [S " ON "]) := CS.thenE (CT.appS p1 hname) (by intro pw k; ev) (by ev) (by ev)
    have p3 := CS.app (CTE.appS p2 htab) (d_rIndexType .postgres i.indexType) (h_rIndexType _ _)
    have p4 : CTE (_ ++ [S " "]) := CS.thenE p3 (by intro pw k; ev) (by ev) (by ev)
    exact CS.app (CS.app (CS.app (CTE.appS p4 hcols) hinc hinch) hnnd hnndh) (d_rFilter _ _) (h_rFilter _ _)
  · have p1 : CT ([S "CREATE "] ++ rIndexPrefix .sqlite i ++ [S "INDEX "] ++ if i.ifNotExists = true then [S "IF NOT EXISTS "] else []) :=
      CT.appT (CT.appT (CT.appT (a := [S "CREATE "]) (by intro pw k; ev) (d_rIndexPrefix .sqlite i)) (by intro pw k; ev)) hine
    have p2 : CTE (_ ++ [S " ON "]) := CS.thenE (CT.appS p1 hname) (by intro pw k; ev) (by ev) (by ev)
    have p3 : CTE (_ ++ [S " "]) := CS.thenE (CTE.appS p2 htab) (by intro pw k; ev) (by ev) (by ev)
    exact CS.app (CTE.appS p3 hcols) (d_rFilter _ _) (h_rFilter _ _)

theorem d_rIndexDrop (d : Backend) (name : Option String) (table : Option TName) (ie : Bool) : CS (rIndexDrop d name table ie) := by
  have hname : CS (match name with | some n => [Piece.id n] | none => []) := by
    cases name with
    | none => exact CS_nil
    | some n => exact CS_id n
  have hie : CT (if ie = true then [S "IF EXISTS "] else []) := CT_ite (by intro pw k; ev) CT_nil
  cases d <;> simp only [rIndexDrop]
  · refine CS_ite CS_bad ?_
    have p2 : CTE (_ ++ [S " ON "]) := CS.thenE (CTE.appS (a := [S "DROP INDEX "]) (by intro pw k; ev) hname) (by intro pw k; ev) (by ev) (by ev)
    exact CTE.appS p2 (d_rOptTable 1 table)
  · have hsch : CT (match table with
        | none => []
        | some t => if t.alias.isSome = true then [Piece.bad] else
          match t.parts with
          | [_] => []
          | [s, _] => [.id s, S "."]
          | _ => [.bad]) := by
      cases table with
      | none => exact CT_nil
      | some t =>
        refine CT_ite CT_bad ?_
        split <;> (intro pw k; ev)
    exact CT.appS (CT.appT (CT.appT (a := [S "DROP INDEX "]) (by intro pw k; ev) hie) hsch) hname
  · exact CT.appS (CT.appT (a := [S "DROP INDEX "]) (by intro pw k; ev) hie) hname

/-! ### foreign keys -/

theorem d_rFkActions (f : Fk) : CS (rFkActions f) := by
  unfold rFkActions
  have h1 : CS (match f.onDelete with | some a => [S " ON DELETE ", S (fkAction a)] | none => []) := by
    cases f.onDelete with
    | none => exact CS_nil
    | some a => exact CTE.appS (a := [S " ON DELETE "]) (by intro pw k; ev) (CS_S _)
  have h2 : CS (match f.onUpdate with | some a => [S " ON UPDATE ", S (fkAction a)] | none => []) := by
    cases f.onUpdate with
    | none => exact CS_nil
    | some a => exact CTE.appS (a := [S " ON UPDATE "]) (by intro pw k; ev) (CS_S _)
  have h2h : okK (hK (match f.onUpdate with | some a => [S " ON UPDATE ", S (fkAction a)] | none => [])) = true := by
    cases f.onUpdate <;> ev
  exact CS.app h1 h2 h2h

theorem h_rFkActions (f : Fk) : okK (hK (rFkActions f)) = true := by
  unfold rFkActions
  cases f.onDelete <;> cases f.onUpdate <;> ev

theorem d_parenIdents (cs : List String) : CS ([S "("] ++ rIdents true cs ++ [S ")"]) :=
  CS.app (CTE.appS (a := [S "("]) (by intro pw k; ev) (c_rIdents cs true)) (CS_S ")") (by ev)

theorem d_rFkCreate (d : Backend) (mode : Nat) (f : Fk) : CS (rFkCreate d mode f) := by
  have hact := d_rFkActions f
  have hacth := h_rFkActions f
  have hadd : CT (if (mode != 0) = true then [S "ADD "] else []) := CT_ite (by intro pw k; ev) CT_nil
  cases d <;> simp only [rFkCreate]
  · -- MySQL
    have halt : CT (if (mode == 1) = true then [S "ALTER TABLE "] ++ Ddl.rOptTable 1 f.table ++ [S " "] else []) :=
      CT_ite (CS.thenE (CTE.appS (a := [S "ALTER TABLE "]) (by intro pw k; ev) (d_rOptTable 1 f.table)) (by intro pw k; ev) (by ev) (by ev)).toT CT_nil
    have hname : CS (match f.name with | some n => [Piece.id n] | none => []) := by
      cases f.name with
      | none => exact CS_nil
      | some n => exact CS_id n
    have p1 : CT (_ ++ [S "CONSTRAINT "]) := CT.appT (CT.appT halt hadd) (by intro pw k; ev)
    have p2 : CTE (_ ++ [S " FOREIGN KEY "]) := CS.thenE (CT.appS p1 hname) (by intro pw k; ev) (by ev) (by ev)
    have p3 : CTE (_ ++ [S " REFERENCES "]) := CS.thenE (CTE.appS p2 (d_parenIdents f.cols)) (by intro pw k; ev) (by ev) (by ev)
    have p4 : CTE (_ ++ [S " "]) := CS.thenE (CTE.appS p3 (d_rOptTable 1 f.refTable)) (by intro pw k; ev) (by ev) (by ev)
    exact CS.app (CTE.appS p4 (d_parenIdents f.refCols)) hact hacth
  · -- Postgres
    have halt : CT (if (mode == 1) = true then [S "ALTER TABLE "] ++ Ddl.rOptTable 3 f.table ++ [S " "] else []) :=
      CT_ite (CS.thenE (CTE.appS (a := [S "ALTER TABLE "]) (by intro pw k; ev) (d_rOptTable 3 f.table)) (by intro pw k; ev) (by ev) (by ev)).toT CT_nil
    have hname : CT (match f.name with | some n => [S "CONSTRAINT ", Piece.id n, S " "] | none => []) := by
      cases f.name with
      | none => exact CT_nil
      | some n => intro pw k; ev
    have p1 : CTE (_ ++ [S "FOREIGN KEY ("]) := CT.appE (CT.appT (CT.appT halt hadd) hname) (by intro pw k; ev)
    have p2 : CTE (_ ++ [S ")"]) := CS.thenE (CTE.appS p1 (c_rIdents f.cols true)) (by intro pw k; ev) (by ev) (by ev)
    have p3 : CTE (_ ++ [S " REFERENCES "]) := CTE.appE p2 (by intro pw k; ev)
    have p4 : CTE (_ ++ [S " "]) := CS.thenE (CTE.appS p3 (d_rOptTable 3 f.refTable)) (by intro pw k; ev) (by ev) (by ev)
    exact CS.app (CTE.appS p4 (d_parenIdents f.refCols)) hact hacth
  · -- SQLite
    refine CS_ite CS_bad ?_
    have p2 : CTE ([S "FOREIGN KEY ("] ++ rIdents true f.cols ++ [S ")"]) :=
      CS.thenE (CTE.appS (a := [S "FOREIGN KEY ("]) (by intro pw k; ev) (c_rIdents f.cols true)) (by intro pw k; ev) (by ev) (by ev)
    have p3 : CTE (_ ++ [S " REFERENCES "]) := CTE.appE p2 (by intro pw k; ev)
    have p4 : CTE (_ ++ [S " ("]) := CS.thenE (CTE.appS p3 (d_rOptTable 1 f.refTable)) (by intro pw k; ev) (by ev) (by ev)
    have p5 : CTE (_ ++ [S ")"]) := CS.thenE (CTE.appS p4 (c_rIdents f.refCols true)) (by intro pw k; ev) (by ev) (by ev)
    exact CTE.appS p5 hact

theorem d_rFkDrop (d : Backend) (mode : Nat) (name : Option String) (table : Option TName) : CS (rFkDrop d mode name table) := by
  have hname : CS (match name with | some n => [Piece.id n] | none => []) := by
    cases name with
    | none => exact CS_nil
    | some n => exact CS_id n
  cases d <;> simp only [rFkDrop]
  · have halt : CT (if (mode == 1) = true then [S "ALTER TABLE "] ++ Ddl.rOptTable 1 table ++ [S " "] else []) :=
      CT_ite (CS.thenE (CTE.appS (a := [S "ALTER TABLE "]) (by intro pw k; ev) (d_rOptTable 1 table)) (by intro pw k; ev) (by ev) (by ev)).toT CT_nil
    exact CT.appS (CT.appT halt (b := [S "DROP FOREIGN KEY "]) (by intro pw k; ev)) hname
  · have halt : CT (if (mode == 1) = true then [S "ALTER TABLE "] ++ Ddl.rOptTable 3 table ++ [S " "] else []) :=
      CT_ite (CS.thenE (CTE.appS (a := [S "ALTER TABLE "]) (by intro pw k; ev) (d_rOptTable 3 table)) (by intro pw k; ev) (by ev) (by ev)).toT CT_nil
    exact CT.appS (CT.appT halt (b := [S "DROP CONSTRAINT "]) (by intro pw k; ev)) hname
  · exact CS_ite CS_bad (CTE.appS (a := [S "DROP FOREIGN KEY "]) (by intro pw k; ev) hname)

theorem h_rFks (d : Backend) (l : List Fk) : okK (hK (rFks d false l)) = true := by cases l <;> ev [rFks]
theorem d_rFks (d : Backend) : ∀ (l : List Fk) (first : Bool), CS (rFks d first l) := by
  intro l
  induction l with
  | nil => intro first; exact CS_nil
  | cons c r ih =>
    intro first
    simp only [rFks]
    exact CS.app (CT.appS (ct_sep first ", " (by decide)) (d_rFkCreate d 0 c)) (ih false) (h_rFks d r)

theorem h_rChecks (d : Backend) (l : List Ex) : okK (hK (rChecks d false l)) = true := by cases l <;> ev [rChecks]
theorem d_rChecks (d : Backend) : ∀ (l : List Ex) (first : Bool), CS (rChecks d first l) := by
  intro l
  induction l with
  | nil => intro first; exact CS_nil
  | cons c r ih =>
    intro first
    simp only [rChecks]
    exact CS.app (CT.appS (ct_sep first ", " (by decide)) (d_rCheck d c)) (ih false) (h_rChecks d r)

theorem h_rTableOpts (l : List TableOpt) : okK (hK (rTableOpts l)) = true := by cases l <;> ev [rTableOpts]
theorem d_rTableOpts : ∀ (l : List TableOpt), CS (rTableOpts l) := by
  intro l
  induction l with
  | nil => exact CS_nil
  | cons o r ih =>
    simp only [rTableOpts]
    have h1 : CS (match o with
        | .engine s => [S "ENGINE=", Piece.raw s.toList]
        | .collate s => [S "COLLATE=", .raw s.toList]
        | .charset s => [S "DEFAULT CHARSET=", .raw s.toList]) := by
      cases o <;> (intro pw k hk; ev)
    exact CS.app (CTE.appS (a := [S " "]) (by intro pw k; ev) h1) ih (h_rTableOpts r)

/-! ### CREATE TABLE -/

/-- what has been written so far ends in renderer text (`first`) or may need a separator -/
def LL (f : Bool) (y : Pieces) : Prop := (f = true → CTE y) ∧ (f = false → CS y)

theorem LL.step {f : Bool} {y : Pieces} (R : Bool → Pieces) (isE : Bool) (hnil : isE = true → ∀ f, R f = [])
    (hcs : ∀ f, CS (R f)) (hh : isE = false → okK (hK (R false)) = true) (h : LL f y) : LL (f && isE) (y ++ R f) := by
  cases isE with
  | true => simpa [hnil rfl f] using h
  | false =>
    cases f with
    | true => exact ⟨by simp, fun _ => CTE.appS (h.1 rfl) (hcs true)⟩
    | false => exact ⟨by simp, fun _ => CS.app (h.2 rfl) (hcs false) (hh rfl)⟩

theorem LL.close {f : Bool} {y : Pieces} (h : LL f y) (t : Pieces) (ht : CTE t) (hh : okK (hK t) = true) (hne : hK t ≠ .emp) : CTE (y ++ t) := by
  cases f with
  | true => exact CTE.appE (h.1 rfl) ht
  | false => exact CS.thenE (h.2 rfl) ht hh hne

theorem d_rCreate (d : Backend) (c : Create) : CS (rCreate d c) := by
  unfold rCreate
  simp only []
  have p1 : CT ([S "CREATE "] ++ (if c.temporary = true then [S "TEMPORARY "] else []) ++ [S "TABLE "] ++
      if c.ifNotExists = true then [S "IF NOT EXISTS "] else []) :=
    CT.appT (CT.appT (CT.appT (a := [S "CREATE "]) (by intro pw k; ev) (CT_ite (by intro pw k; ev) CT_nil)) (by intro pw k; ev))
      (CT_ite (by intro pw k; ev) CT_nil)
  have p2 : CTE (_ ++ [S " ( "]) := CS.thenE (CT.appS p1 (d_rOptTable 3 c.table)) (by intro pw k; ev) (by ev) (by ev)
  have l0 : LL true _ := ⟨fun _ => p2, by simp⟩
  have l1 := LL.step (fun f => rColumnDefs d f c.cols) c.cols.isEmpty
    (by intro h f; simp only [List.isEmpty_iff] at h; simp [h, rColumnDefs]) (fun f => d_rColumnDefs d c.cols f) (fun _ => h_rColumnDefs d c.cols) l0
  have l2 := LL.step (fun f => rTableIndexes d f c.indexes) c.indexes.isEmpty
    (by intro h f; simp only [List.isEmpty_iff] at h; simp [h, rTableIndexes]) (fun f => d_rTableIndexes d c.indexes f) (fun _ => h_rTableIndexes d c.indexes) l1
  have l3 := LL.step (fun f => rFks d f c.fks) c.fks.isEmpty
    (by intro h f; simp only [List.isEmpty_iff] at h; simp [h, rFks]) (fun f => d_rFks d c.fks f) (fun _ => h_rFks d c.fks) l2
  have l4 := LL.step (fun f => rChecks d f c.checks) c.checks.isEmpty
    (by intro h f; simp only [List.isEmpty_iff] at h; simp [h, rChecks]) (fun f => d_rChecks d c.checks f) (fun _ => h_rChecks d c.checks) l3
  have p5 := LL.close l4 [S " )"] (by intro pw k; ev) (by ev) (by ev)
  simp only [Bool.true_and] at p5
  have hcom : CS (match c.comment with | some t => if (d == Backend.mysql) = true then [S " COMMENT ", rStrLit t] else [] | none => []) := by
    cases c.comment with
    | none => exact CS_nil
    | some t => exact CS_ite (by intro pw k hk; ev [rStrLit]) CS_nil
  have hcomh : okK (hK (match c.comment with | some t => if (d == Backend.mysql) = true then [S " COMMENT ", rStrLit t] else [] | none => [])) = true := by
    cases c.comment with
    | none => rfl
    | some t => exact okK_ite (by ev) rfl
  have hext : CS (match c.extra with | some e => [S " ", Piece.raw e.toList] | none => []) := by
    cases c.extra <;> (intro pw k hk; ev)
  have hexth : okK (hK (match c.extra with | some e => [S " ", Piece.raw e.toList] | none => [])) = true := by
    cases c.extra <;> ev
  exact CS.app (CS.app (CTE.appS p5 hcom) (d_rTableOpts c.options) (h_rTableOpts c.options)) hext hexth

/-! ### ALTER TABLE and the rest -/

theorem d_pgAction (name : String) (s : Spec) : CS (pgAction name s) := by
  cases s <;> simp only [pgAction]
  case default e => exact CTE.appU (a := [S "ALTER COLUMN ", .id name, S " SET DEFAULT "]) (by intro pw k; ev) (c_ex _ e)
  case check e => exact CTE.appS (a := [S "ADD "]) (by intro pw k; ev) (d_rCheck _ e)
  case «using» e => exact CTE.appU (a := [S " USING "]) (by intro pw k; ev) (c_ex _ e)
  all_goals (intro pw k hk; ev)

theorem h_rPgModifySpecs (name : String) : ∀ (l : List Spec), okK (hK (rPgModifySpecs name false l)) = true := by
  intro l
  induction l with
  | nil => rfl
  | cons s r ih => cases s <;> ev [rPgModifySpecs, pgWritesNothing, pgIsUsing, pgAction]

/-- the separator logic: after the first written action every further action follows `, ` (or is the
` USING ` suffix), and an action that writes nothing leaves the state unchanged -/
theorem d_rPgModifySpecs (name : String) : ∀ (l : List Spec) (first : Bool), CS (rPgModifySpecs name first l) := by
  intro l
  induction l with
  | nil => intro first; exact CS_nil
  | cons s r ih =>
    intro first
    simp only [rPgModifySpecs]
    have hact := d_pgAction name s
    cases hw : pgWritesNothing s with
    | true =>
      have hnil : pgAction name s = [] := by cases s <;> simp_all [pgWritesNothing, pgAction]
      simp only [hnil, Bool.not_true, Bool.and_false, Bool.false_and, Bool.false_eq_true, ↓reduceIte, List.nil_append, List.append_nil, Bool.and_true]
      exact ih first
    | false =>
      simp only [Bool.and_false]
      exact CS.app (CT.appS (CT_ite (by intro pw k; ev) CT_nil) hact) (ih false) (h_rPgModifySpecs name r)

theorem d_rAlterOpt (d : Backend) (o : AlterOpt) : CS (rAlterOpt d o) := by
  cases o <;> simp only [rAlterOpt]
  case add c ine =>
    exact CT.appS (CT.appT (a := [S "ADD COLUMN "]) (by intro pw k; ev) (CT_ite (by intro pw k; ev) CT_nil)) (d_rColumnDef d c)
  case modify c =>
    cases d <;> simp only
    · exact CTE.appS (a := [S "MODIFY COLUMN "]) (by intro pw k; ev) (d_rColumnDef _ c)
    · have h1 : CS (match c.ty with | some t => [S "ALTER COLUMN ", Piece.id c.name, S " TYPE "] ++ rTypePg t | none => []) := by
        cases c.ty with
        | none => exact CS_nil
        | some t => exact CTE.appS (a := [S "ALTER COLUMN ", .id c.name, S " TYPE "]) (by intro pw k; ev) (d_rTypePg t)
      cases hty : c.ty with
      | none => simpa [hty] using d_rPgModifySpecs c.name c.specs true
      | some t =>
        simp only [Option.isNone_some]
        exact CS.app (CTE.appS (a := [S "ALTER COLUMN ", .id c.name, S " TYPE "]) (by intro pw k; ev) (d_rTypePg t))
          (d_rPgModifySpecs c.name c.specs false) (h_rPgModifySpecs c.name c.specs)
    · exact CS_bad
  case rename a b => intro pw k hk; ev
  case drop c => intro pw k hk; ev
  case addFk f => exact CS_ite CS_bad (d_rFkCreate d 2 f)
  case dropFk n => exact CS_ite CS_bad (d_rFkDrop d 2 _ _)

theorem h_rAlterOpts (d : Backend) (l : List AlterOpt) : okK (hK (rAlterOpts d false l)) = true := by cases l <;> ev [rAlterOpts]
theorem d_rAlterOpts (d : Backend) : ∀ (l : List AlterOpt) (first : Bool), CS (rAlterOpts d first l) := by
  intro l
  induction l with
  | nil => intro first; exact CS_nil
  | cons c r ih =>
    intro first
    simp only [rAlterOpts]
    exact CS.app (CT.appS (ct_sep first ", " (by decide)) (d_rAlterOpt d c)) (ih false) (h_rAlterOpts d r)

theorem d_rAlter (d : Backend) (t : Option TName) (opts : List AlterOpt) : CS (rAlter d t opts) := by
  unfold rAlter
  refine CS_ite CS_bad (CS_ite CS_bad ?_)
  have h1 : CT (match t with | some t => rTable 3 t ++ [S " "] | none => []) := by
    cases t with
    | none => exact CT_nil
    | some t => exact (CS.thenE (d_rTable 3 t) (by intro pw k; ev) (by ev) (by ev)).toT
  exact CT.appS (CT.appT (a := [S "ALTER TABLE "]) (by intro pw k; ev) h1) (d_rAlterOpts d opts true)

theorem h_rDropOpts (d : Backend) : ∀ (l : List Nat), okK (hK (rDropOpts d l)) = true := by
  intro l
  induction l with
  | nil => rfl
  | cons o r ih => simp only [rDropOpts]; split <;> (try split) <;> ev
theorem d_rDropOpts (d : Backend) : ∀ (l : List Nat), CS (rDropOpts d l) := by
  intro l
  induction l with
  | nil => exact CS_nil
  | cons o r ih => simp only [rDropOpts]; exact CS.app (CS_ite CS_nil (CS_S _)) ih (h_rDropOpts d r)

theorem h_rTables (l : List TName) : okK (hK (rTables false l)) = true := by cases l <;> ev [rTables]
theorem d_rTables : ∀ (l : List TName) (first : Bool), CS (rTables first l) := by
  intro l
  induction l with
  | nil => intro first; exact CS_nil
  | cons c r ih =>
    intro first
    simp only [rTables]
    exact CS.app (CT.appS (ct_sep first ", " (by decide)) (d_rTable 3 c)) (ih false) (h_rTables r)

theorem h_rStrVs (l : List String) : okK (hK (rStrVs false l)) = true := by cases l <;> ev [rStrVs]
theorem d_rStrVs : ∀ (l : List String) (first : Bool), CF first (rStrVs first l) := by
  intro l
  induction l with
  | nil => intro first pw k _ _; rfl
  | cons v r ih =>
    intro first pw k hpw hk
    have ih' : ∀ pw k, okK k = true → ctx pw k (rStrVs false r) = true := fun pw k hk => ih false pw k (by simp) hk
    have hh := h_rStrVs r
    cases first
    · ev [rStrVs, strV]
    · have := hpw rfl; subst this; ev [rStrVs, strV]

theorem h_rTypeRefs (l : List (List String)) : okK (hK (rTypeRefs false l)) = true := by cases l <;> ev [rTypeRefs]
theorem d_rTypeRefs : ∀ (l : List (List String)) (first : Bool), CS (rTypeRefs first l) := by
  intro l
  induction l with
  | nil => intro first; exact CS_nil
  | cons c r ih =>
    intro first
    simp only [rTypeRefs]
    exact CS.app (CT.appS (ct_sep first ", " (by decide)) (c_rParts c true)) (ih false) (h_rTypeRefs r)

theorem d_rTypeAlterOpt (o : TypeAlterOpt) : CS (rTypeAlterOpt o) := by
  cases o with
  | add v pl ine =>
    simp only [rTypeAlterOpt]
    have h1 : CTE ([S " ADD VALUE "] ++ if ine = true then [S "IF NOT EXISTS "] else []) :=
      CTE.appK (by intro pw k; ev) (CT_ite (by intro pw k; ev) CT_nil) (by cases ine <;> ev)
    have h2 : CU [strV v] := by intro pw k hpw hk; subst hpw; ev [strV]
    have h3h : okK (hK (match (generalizing := false) pl with | some (false, b) => [S " BEFORE ", strV b] | some (true, a) => [S " AFTER ", strV a] | none => [])) = true := by
      cases pl with
      | none => rfl
      | some q => obtain ⟨x, y⟩ := q; cases x <;> ev
    have h3 : CS (match (generalizing := false) pl with | some (false, b) => [S " BEFORE ", strV b] | some (true, a) => [S " AFTER ", strV a] | none => []) := by
      cases pl with
      | none => exact CS_nil
      | some q => obtain ⟨x, y⟩ := q; cases x <;> (intro pw k hk; ev [strV])
    exact CS.app (CTE.appU h1 h2) h3 h3h
  | rename n => intro pw k hk; ev [rTypeAlterOpt, strV]
  | renameValue a b => intro pw k hk; ev [rTypeAlterOpt, strV]

/-- **everything the schema-statement renderer writes satisfies the context discipline** -/
theorem d_rStmt (d : Backend) (s : Ddl.Stmt) : CS (rStmt d s) := by
  cases s <;> simp only [rStmt]
  case create c => exact d_rCreate d c
  case alter t opts => exact d_rAlter d t opts
  case drop ts ie opts =>
    exact CS.app (CT.appS (CT.appT (a := [S "DROP TABLE "]) (by intro pw k; ev) (CT_ite (by intro pw k; ev) CT_nil)) (d_rTables ts true))
      (d_rDropOpts d opts) (h_rDropOpts d opts)
  case rename a b =>
    cases d <;> simp only
    · exact CTE.appS (CS.thenE (CTE.appS (a := [S "RENAME TABLE "]) (by intro pw k; ev) (d_rOptTable 3 a)) (b := [S " TO "]) (by intro pw k; ev) (by ev) (by ev)) (d_rOptTable 3 b)
    · exact CTE.appS (CS.thenE (CTE.appS (a := [S "ALTER TABLE "]) (by intro pw k; ev) (d_rOptTable 3 a)) (b := [S " RENAME TO "]) (by intro pw k; ev) (by ev) (by ev)) (d_rOptTable 3 b)
    · exact CTE.appS (CS.thenE (CTE.appS (a := [S "ALTER TABLE "]) (by intro pw k; ev) (d_rOptTable 3 a)) (b := [S " RENAME TO "]) (by intro pw k; ev) (by ev) (by ev)) (d_rOptTable 3 b)
  case truncate t => exact CS_ite CS_bad (CTE.appS (a := [S "TRUNCATE TABLE "]) (by intro pw k; ev) (d_rOptTable 3 t))
  case indexCreate i => exact d_rIndexCreate d i
  case indexDrop n t ie => exact d_rIndexDrop d n t ie
  case fkCreate f => exact d_rFkCreate d 1 f
  case fkDrop n t => exact d_rFkDrop d 1 n t
  case typeCreate name asEnum values =>
    have hn : CS (match (generalizing := false) name with | some n => rParts true n | none => []) := by
      cases name with
      | none => exact CS_nil
      | some n => exact c_rParts n true
    have x1 := CTE.appS (a := [S "CREATE TYPE "]) (by intro pw k; ev) hn
    have x2 := CS.app x1 (CS_ite (c := asEnum = true) (a := [S " AS ", S "ENUM"]) (b := []) (by intro pw k hk; ev) CS_nil) (okK_ite (by ev) rfl)
    exact CS.app x2 (CS_ite CS_nil (CS.app (CTE.appU (a := [S " ("]) (by intro pw k; ev) (d_rStrVs values true).toU) (CS_S ")") (by ev)))
      (okK_ite rfl (by ev))
  case typeDrop names ie opt =>
    have h3h : okK (hK (match (generalizing := false) opt with | some o => [S " ", S (if (o == 0) = true then "CASCADE" else "RESTRICT")] | none => [])) = true := by
      cases opt <;> ev
    have h3 : CS (match (generalizing := false) opt with | some o => [S " ", S (if (o == 0) = true then "CASCADE" else "RESTRICT")] | none => []) := by
      cases opt with
      | none => exact CS_nil
      | some o => exact CTE.appS (a := [S " "]) (by intro pw k; ev) (CS_S _)
    exact CS.app (CT.appS (CT.appT (a := [S "DROP TYPE "]) (by intro pw k; ev) (CT_ite (by intro pw k; ev) CT_nil)) (d_rTypeRefs names true)) h3 h3h
  case typeAlter name opt =>
    have hn : CS (match (generalizing := false) name with | some n => rParts true n | none => []) := by
      cases name with
      | none => exact CS_nil
      | some n => exact c_rParts n true
    have hoh : okK (hK (match (generalizing := false) opt with | some o => rTypeAlterOpt o | none => [])) = true := by
      cases opt with
      | none => rfl
      | some o => cases o <;> ev [rTypeAlterOpt]
    have ho : CS (match (generalizing := false) opt with | some o => rTypeAlterOpt o | none => []) := by
      cases opt with
      | none => exact CS_nil
      | some o => exact d_rTypeAlterOpt o
    exact CS.app (CTE.appS (a := [S "ALTER TYPE "]) (by intro pw k; ev) hn) ho hoh
  case extCreate name schema version cascade ine =>
    have h1h : okK (hK (match (generalizing := false) schema with | some x => [S " WITH SCHEMA ", Piece.raw x.toList] | none => [])) = true := by cases schema <;> ev
    have h2h : okK (hK (match (generalizing := false) version with | some x => [S " VERSION ", Piece.raw x.toList] | none => [])) = true := by cases version <;> ev
    have h1 : CS (match (generalizing := false) schema with | some x => [S " WITH SCHEMA ", Piece.raw x.toList] | none => []) := by
      cases schema <;> (intro pw k hk; ev)
    have h2 : CS (match (generalizing := false) version with | some x => [S " VERSION ", Piece.raw x.toList] | none => []) := by
      cases version <;> (intro pw k hk; ev)
    have x1 := CT.appS (CT.appT (a := [S "CREATE EXTENSION "]) (by intro pw k; ev) (CT_ite (c := ine = true) (a := [S "IF NOT EXISTS "]) (b := []) (by intro pw k; ev) CT_nil)) (CS_raw name.toList)
    exact CS.app (CS.app (CS.app x1 h1 h1h) h2 h2h) (CS_ite (CS_S _) CS_nil) (okK_ite (by ev) rfl)
  case extDrop name ie cascade restrict =>
    have x1 := CT.appS (CT.appT (a := [S "DROP EXTENSION "]) (by intro pw k; ev) (CT_ite (c := ie = true) (a := [S "IF EXISTS "]) (b := []) (by intro pw k; ev) CT_nil)) (CS_raw name.toList)
    exact CS.app (CS.app x1 (CS_ite (CS_S _) CS_nil) (okK_ite (by ev) rfl)) (CS_ite (CS_S _) CS_nil) (okK_ite (by ev) rfl)

end SeaQ.SafeN
