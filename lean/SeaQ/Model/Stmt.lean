import SeaQ.Model.Literal
import SeaQ.Model.Ident
/-!
Abstract syntax of query statements: one constructor per variant of the crate's
`SimpleExpr`, `ColumnRef`, `TableRef`, `Condition`, `ConditionHolder`, `SelectStatement`,
`InsertStatement`, `UpdateStatement`, `DeleteStatement`, `WithQuery` / `WithClause`,
`OnConflict`, `ReturningClause`, `WindowStatement`, `OrderExpr`, `LockClause`
(`src/expr.rs`, `src/types.rs`, `src/query/*.rs`).  Lists inside the mutual block are
spelled out (`ExList`, …) so every function over the syntax is structurally recursive and
every theorem an ordinary mutual induction.

Identifiers are strings (what `Iden::to_string` returns).  A value is a variant tag plus a
payload; payloads whose inline text is produced by a foreign `Display` impl (floats,
decimals, dates, uuids, …) carry that text (`num`: written as is; `quoted`: written
between single quotes, no escaping), because the statement model is about where values
go, not how each Rust type prints (that is C03 / C12).
-/
namespace SeaQ.Stmt
open SeaQ.Escape

inductive Payload where
  | null
  | bool (b : Bool)
  | int (i : Int)
  | num (t : String)
  | str (s : List Char)
  | bytes (b : List UInt8)
  | quoted (t : String)
  deriving DecidableEq, Repr, Inhabited

structure Val where
  ty : String
  v : Payload
  deriving DecidableEq, Repr, Inhabited

inductive ColRef where
  | col (c : String)
  | tcol (t c : String)
  | stcol (s t c : String)
  | star
  | tstar (t : String)
  deriving DecidableEq, Repr

/-- `BinOper`: ids as in `SeaQ.Dialects.opNames`; `Custom(&'static str)` carries its text -/
inductive Op where
  | std (id : Nat)
  | custom (s : String)
  deriving DecidableEq, Repr

/-- `Function`: 0 Max 1 Min 2 Sum 3 Avg 4 Abs 5 Coalesce 6 Count 7 IfNull 8 Greatest 9 Least
10 CharLength 11 Cast 12 Lower 13 Upper 14 BitAnd 15 BitOr 16 Random 17 Round 18 Md5;
`PgFunction`: 0 ToTsquery … 15 All (declaration order) -/
inductive Fn where
  | std (id : Nat)
  | custom (name : String)
  | pg (id : Nat)
  deriving DecidableEq, Repr

inductive Kw where
  | null | currentDate | currentTime | currentTimestamp
  | custom (s : String)
  deriving DecidableEq, Repr

inductive SubOp where
  | exists | any | some | all
  deriving DecidableEq, Repr

inductive Bound where
  | unboundedPreceding | preceding (n : Nat) | currentRow | following (n : Nat) | unboundedFollowing
  deriving DecidableEq, Repr

structure Frame where
  rows : Bool
  start : Bound
  stop : Option Bound
  deriving DecidableEq, Repr

inductive OrderKind where
  | asc | desc
  | field (vs : List Val)
  deriving DecidableEq, Repr

inductive Distinct where
  | all | distinct | distinctRow
  | distinctOn (cols : List ColRef)
  deriving DecidableEq, Repr

/-- MySQL index hint: type 0 USE 1 IGNORE 2 FORCE; scope 0 JOIN 1 ORDER BY 2 GROUP BY 3 all -/
structure Hint where
  index : String
  ty : Nat
  scope : Nat
  deriving DecidableEq, Repr

/-- Postgres TABLESAMPLE: method 0 BERNOULLI 1 SYSTEM; the two `f64`s as their `Display` text -/
structure Sample where
  method : Nat
  pct : String
  rep : Option String
  deriving DecidableEq, Repr

/-- a table reference made of names only: 1–3 name parts and an optional alias -/
structure TName where
  parts : List String
  alias : Option String
  deriving DecidableEq, Repr

/-- `LockClause`: type 0 UPDATE 1 NO KEY UPDATE 2 SHARE 3 KEY SHARE; behaviour 0 NOWAIT 1 SKIP LOCKED -/
structure Lock where
  ty : Nat
  tables : List TName
  behavior : Option Nat
  deriving DecidableEq, Repr

mutual
inductive Ex where
  | col (c : ColRef)
  | tuple (l : ExList)
  | unary (e : Ex)                                  -- `UnOper::Not`, the only unary operator
  | func (f : Fn) (distinct : List Bool) (args : ExList)
  | bin (l : Ex) (o : Op) (r : Ex)
  | subq (o : Option SubOp) (q : Query)
  | value (v : Val)
  | values (vs : List Val)
  | cust (s : String)
  | custWith (t : String) (vals : ExList)
  | keyword (k : Kw)
  | asEnum (ty : String) (e : Ex)
  | case (whens : CaseList) (els : Option Ex)
  | const (v : Val)
inductive ExList where
  | nil
  | cons (e : Ex) (r : ExList)
inductive CaseList where
  | nil
  | cons (c : Cond) (e : Ex) (r : CaseList)
/-- `Condition { negate, condition_type (any = true), conditions }` -/
inductive Cond where
  | mk (neg : Bool) (any : Bool) (items : CondItems)
inductive CondItems where
  | nil
  | consC (c : Cond) (r : CondItems)
  | consE (e : Ex) (r : CondItems)
/-- `ConditionHolderContents` -/
inductive Holder where
  | empty
  | chain (l : ChainList)
  | cond (c : Cond)
inductive ChainList where
  | nil
  | cons (isOr : Bool) (e : Ex) (r : ChainList)
/-- `SubQueryStatement` -/
inductive Query where
  | sel (s : Select)
  | ins (s : Insert)
  | upd (s : Update)
  | del (s : Delete)
  | withq (w : WithClause) (q : Query)
inductive Select where
  | mk (with_ : Option WithClause) (distinct : Option Distinct) (selects : SelList)
       (from_ : TRefList) (hints : List Hint) (sample : Option Sample) (joins : JoinList)
       (where_ : Holder) (groups : ExList) (having : Holder) (unions : UnionList)
       (orders : OrderList) (limit : Option Val) (offset : Option Val) (lock : Option Lock)
       (windowName : String) (window : Option Window)
inductive SelList where
  | nil
  | cons (e : Ex) (win : WinSel) (alias : Option String) (r : SelList)
inductive WinSel where
  | none
  | name (n : String)
  | query (w : Window)
inductive Window where
  | mk (partition : ExList) (orders : OrderList) (frame : Option Frame)
inductive OrderList where
  | nil
  | cons (e : Ex) (k : OrderKind) (nullsFirst : Option Bool) (r : OrderList)
inductive TRef where
  | named (n : TName)
  | subq (s : Select) (alias : String)
  | valuesList (rows : List (List Val)) (alias : String)
  | func (f : Fn) (distinct : List Bool) (args : ExList) (alias : String)
inductive TRefList where
  | nil
  | cons (t : TRef) (r : TRefList)
/-- join type 0 JOIN 1 CROSS 2 INNER 3 LEFT 4 RIGHT 5 FULL OUTER -/
inductive JoinList where
  | nil
  | cons (ty : Nat) (lateral : Bool) (t : TRef) (on : Holder) (r : JoinList)
/-- union type 0 INTERSECT 1 UNION 2 EXCEPT 3 UNION ALL -/
inductive UnionList where
  | nil
  | cons (ty : Nat) (s : Select) (r : UnionList)
inductive WithClause where
  | mk (recursive : Bool) (searchBreadth : Bool) (searchExpr : Option Ex) (searchAlias : String)
       (cycleExpr : Option Ex) (cycleSet cycleUsing : String) (ctes : CteList)
inductive CteList where
  | nil
  | cons (name : String) (cols : List String) (mat : Option Bool) (q : Query) (r : CteList)
inductive Insert where
  | mk (with_ : Option WithClause) (replace : Bool) (table : Option TRef) (columns : List String)
       (source : InsSource) (onConflict : Option OnConflict) (returning : Returning)
       (defaultValues : Option Nat)
inductive InsSource where
  | none
  | values (rows : RowList)
  | select (s : Select)
inductive RowList where
  | nil
  | cons (row : ExList) (r : RowList)
inductive OnConflict where
  | mk (targets : TargetList) (targetWhere : Holder) (action : Action) (actionWhere : Holder)
inductive TargetList where
  | nil
  | col (c : String) (r : TargetList)
  | expr (e : Ex) (r : TargetList)
inductive Action where
  | none
  | doNothing (pk : List String)
  | update (l : UpdList)
inductive UpdList where
  | nil
  | col (c : String) (r : UpdList)
  | expr (c : String) (e : Ex) (r : UpdList)
inductive Returning where
  | none
  | all
  | cols (cs : List ColRef)
  | exprs (es : ExList)
inductive Update where
  | mk (with_ : Option WithClause) (table : Option TRef) (sets : SetList) (where_ : Holder)
       (orders : OrderList) (limit : Option Val) (returning : Returning) (from_ : TRefList)
inductive SetList where
  | nil
  | cons (c : String) (e : Ex) (r : SetList)
inductive Delete where
  | mk (with_ : Option WithClause) (table : Option TRef) (where_ : Holder) (orders : OrderList)
       (limit : Option Val) (returning : Returning)
end

def ExList.toList : ExList → List Ex
  | .nil => []
  | .cons e r => e :: r.toList

def ExList.ofList : List Ex → ExList
  | [] => .nil
  | e :: r => .cons e (ExList.ofList r)

def ExList.length : ExList → Nat
  | .nil => 0
  | .cons _ r => r.length + 1

def ExList.isEmpty : ExList → Bool
  | .nil => true
  | _ => false

end SeaQ.Stmt
