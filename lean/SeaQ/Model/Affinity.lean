import SeaQ.Gen.ColTypes
/-!
SQLite's determination of column affinity from the declared type name
(https://www.sqlite.org/datatype3.html §3.1, the five rules, in order), and the
instantiation of a type-name template with numeric parameters.
-/
namespace SeaQ.Affinity
open SeaQ.Gen.ColTypes

inductive Aff | integer | text | blob | real | numeric
  deriving DecidableEq, Repr

def upper (c : Char) : Char := if 97 ≤ c.toNat && c.toNat ≤ 122 then Char.ofNat (c.toNat - 32) else c

/-- does `p` occur in `s` as a contiguous substring -/
def hasSub (p : List Char) : List Char → Bool
  | [] => p.isPrefixOf []
  | c :: r => p.isPrefixOf (c :: r) || hasSub p r

/-- the five rules, on the upper-cased declared type -/
def affinity (name : List Char) : Aff :=
  let u := name.map upper
  if hasSub "INT".toList u then .integer
  else if hasSub "CHAR".toList u || hasSub "CLOB".toList u || hasSub "TEXT".toList u then .text
  else if hasSub "BLOB".toList u || u.isEmpty then .blob
  else if hasSub "REAL".toList u || hasSub "FLOA".toList u || hasSub "DOUB".toList u then .real
  else .numeric

def digitChar (n : Nat) : Char := Char.ofNat (48 + n % 10)

/-- decimal digits (what `{}` of an unsigned integer writes) -/
def natText (n : Nat) : List Char :=
  if h : n < 10 then [digitChar n] else natText (n / 10) ++ [digitChar n]
termination_by n
decreasing_by omega

/-- a template with its parameters replaced by the decimal text of their values -/
def instantiate (ρ : String → Nat) : List Seg → List Char
  | [] => []
  | .lit s :: r => s.toList ++ instantiate ρ r
  | .par n :: r => natText (ρ n) ++ instantiate ρ r

/-- the affinity each abstract column type is meant to have (the property's list: integer, real, text, blob, numeric) -/
def intended : String → Option Aff
  | "TinyInteger" | "TinyUnsigned" | "SmallInteger" | "SmallUnsigned" | "Integer" | "Unsigned" | "BigInteger" | "BigUnsigned" => some .integer
  | "Float" | "Double" | "Decimal" | "Money" => some .real
  | "Char" | "String" | "Text" | "DateTime" | "Timestamp" | "TimestampWithTimeZone" | "Time" | "Date" | "Json" | "JsonBinary" | "Uuid" | "Enum" => some .text
  | "Binary" | "VarBinary" | "Blob" => some .blob
  | "Boolean" => some .numeric
  | _ => none

end SeaQ.Affinity
