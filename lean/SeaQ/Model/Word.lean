/-!
Word characters as the three engines' lexers see them (shared by the template model and the
engine-reading model `Model/Scan`).
-/
namespace SeaQ.Scan

def isDigit (c : Char) : Bool := 48 ≤ c.toNat && c.toNat ≤ 57

/-- characters that continue a word / number token in all three engines (`$` in Postgres and MySQL identifiers) -/
def isWord (c : Char) : Bool :=
  isDigit c || (65 ≤ c.toNat && c.toNat ≤ 90) || (97 ≤ c.toNat && c.toNat ≤ 122) || c == '_' || c == '$' || 128 ≤ c.toNat

/-- does the previous character continue a word after writing `t`? -/
def lastWord (pw : Bool) (t : List Char) : Bool :=
  match t.getLast? with
  | some c => isWord c
  | none => pw

end SeaQ.Scan
