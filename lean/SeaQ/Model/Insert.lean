/-!
Model of the row bookkeeping of `InsertStatement` (`src/query/insert.rs`): `columns`,
`values` (and `values_panic`), `select_from`, `or_default_values(_many)`, and the branch
structure of `prepare_insert_statement` that decides between `DEFAULT VALUES`, a `VALUES`
list and a `SELECT` source.  Columns and cells are abstract ids (`Nat`).
-/
namespace SeaQ.Insert

inductive Src where
  | none
  | values (rows : List (List Nat))
  | select (selects : List Nat)
  deriving DecidableEq, Repr

structure Ins where
  cols : List Nat
  src : Src
  dflt : Option Nat
  deriving DecidableEq, Repr

def Ins.new : Ins := { cols := [], src := .none, dflt := none }

inductive Call where
  | columns (cs : List Nat)
  | values (row : List Nat)
  | selectFrom (selects : List Nat)
  | defaults (n : Nat)
  deriving DecidableEq, Repr

/-- `Ok(())` or `Err(ColValNumMismatch { col_len, val_len })` -/
inductive Out where
  | ok
  | err (colLen valLen : Nat)
  deriving DecidableEq, Repr

def pushRow (src : Src) (row : List Nat) : Src :=
  match src with
  | .values rows => .values (rows ++ [row])
  | _ => .values [row]

/-- one builder call -/
def step (s : Ins) : Call → Ins × Out
  | .columns cs => ({ s with cols := cs }, .ok)
  | .values row =>
    if s.cols.length ≠ row.length then (s, .err s.cols.length row.length)
    else if row.isEmpty then (s, .ok)
    else ({ s with src := pushRow s.src row }, .ok)
  | .selectFrom sel =>
    if s.cols.length ≠ sel.length then (s, .err s.cols.length sel.length)
    else ({ s with src := .select sel }, .ok)
  | .defaults n => ({ s with dflt := some n }, .ok)

def run (h : List Call) : Ins := h.foldl (fun s c => (step s c).1) Ins.new

def Ins.rows (s : Ins) : List (List Nat) :=
  match s.src with
  | .values rows => rows
  | _ => []

/-- every stored row has exactly as many cells as there are columns -/
def Rect (s : Ins) : Prop := ∀ r ∈ s.rows, r.length = s.cols.length

/-- a `columns()` call that changes the column count while rows are stored -/
def Recount (s : Ins) : Call → Prop
  | .columns cs => cs.length ≠ s.cols.length ∧ s.rows ≠ []
  | _ => False

/-- which branch `prepare_insert_statement` takes -/
inductive Shape where
  | defaultValues (n : Nat)
  | valuesList (cols : List Nat) (rows : List (List Nat))
  | selectSrc (cols : List Nat) (selects : List Nat)
  | noSource (cols : List Nat)
  deriving DecidableEq, Repr

def shape (s : Ins) : Shape :=
  match s.dflt, s.cols, s.src with
  | some n, [], .none => .defaultValues n
  | _, cols, .values rows => .valuesList cols rows
  | _, cols, .select sel => .selectSrc cols sel
  | _, cols, .none => .noSource cols

end SeaQ.Insert
