import SeaQ.Gen.Quote
import SeaQ.Model.Escape
/-!
Layer A (identifiers): model of `Iden::prepare` / `Iden::quoted` (`src/types.rs`) with the
backends' `QUOTE` constants (generated), and the engines' quoted-identifier lexer
(specification: MySQL backtick identifiers, Postgres / SQLite double-quoted identifiers;
in all three the closing quote is escaped by doubling and nothing else is special).
-/
namespace SeaQ.Ident
open SeaQ.Escape SeaQ.Gen.Quote

def quoteOf : Backend → Char × Char
  | .mysql => mysqlQuote
  | .postgres => postgresQuote
  | .sqlite => sqliteQuote

/-- `Iden::quoted`: `to_string().replace(right, right right)` -/
def quoted (qt : Char × Char) (name : List Char) : List Char :=
  replaceChar qt.2 [qt.2, qt.2] name

/-- `Iden::prepare`: `left quoted right` -/
def prepare (qt : Char × Char) (name : List Char) : List Char :=
  qt.1 :: (quoted qt name ++ [qt.2])

/-- the positions where the crate writes `left name right` WITHOUT doubling -/
def prepareRaw (qt : Char × Char) (name : List Char) : List Char :=
  qt.1 :: (name ++ [qt.2])

def push (p : List Char) : Option (List Char × List Char) → Option (List Char × List Char)
  | some (a, r) => some (p ++ a, r)
  | none => none

/-- body of a quoted identifier closed by `r`; `r r` stands for one `r` -/
def identBody (r : Char) : List Char → Option (List Char × List Char)
  | [] => none
  | [c] => if c == r then some ([], []) else none
  | c :: n :: rest =>
    if c == r then (if n == r then push [r] (identBody r rest) else some ([], n :: rest))
    else push [c] (identBody r (n :: rest))

/-- the engine's quoted-identifier lexer at the start of `s` -/
def lexIdent (qt : Char × Char) : List Char → Option (List Char × List Char)
  | [] => none
  | c :: rest => if c == qt.1 then identBody qt.2 rest else none

end SeaQ.Ident
