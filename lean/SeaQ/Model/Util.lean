/-! Hex / line-protocol helpers shared by the driver. No proofs depend on this file. -/
namespace SeaQ.Util

def hexDigit (c : Char) : Option Nat :=
  if '0' ≤ c ∧ c ≤ '9' then some (c.toNat - '0'.toNat)
  else if 'a' ≤ c ∧ c ≤ 'f' then some (c.toNat - 'a'.toNat + 10)
  else if 'A' ≤ c ∧ c ≤ 'F' then some (c.toNat - 'A'.toNat + 10)
  else none

def hexDecodeAux : List Char → ByteArray → Option ByteArray
  | [], acc => some acc
  | [_], _ => none
  | a :: b :: rest, acc =>
    match hexDigit a, hexDigit b with
    | some x, some y => hexDecodeAux rest (acc.push (UInt8.ofNat (x * 16 + y)))
    | _, _ => none

def hexDecode (s : String) : Option ByteArray := hexDecodeAux s.toList ByteArray.empty

def nib (n : Nat) : Char := if n < 10 then Char.ofNat (48 + n) else Char.ofNat (87 + n)

def hexEncode (b : ByteArray) : String :=
  String.ofList (b.toList.flatMap (fun x => [nib (x.toNat / 16), nib (x.toNat % 16)]))

/-- `h:<hex of UTF-8>` → characters -/
def decodeStr (tok : String) : Option (List Char) :=
  if tok.startsWith "h:" then
    match hexDecode ((tok.drop 2).toString) with
    | some b => (String.fromUTF8? b).map String.toList
    | none => none
  else none

def encodeStr (cs : List Char) : String := "h:" ++ hexEncode (String.ofList cs).toUTF8

def decodeBytes (tok : String) : Option (List UInt8) :=
  if tok.startsWith "b:" then (hexDecode ((tok.drop 2).toString)).map ByteArray.toList else none

def decodeNat (tok : String) : Option Nat :=
  if tok.startsWith "i:" then ((tok.drop 2).toString).toNat? else none

end SeaQ.Util

namespace SeaQ.Util

/-- S-expressions for the recipe language -/
inductive Sexp where
  | atom (s : String)
  | list (l : List Sexp)
  deriving Repr, Inhabited

/-- tokens: `(`, `)`, and maximal runs of other non-space characters -/
def sexpTokens (s : String) : List String :=
  let step (st : List String × String) (c : Char) : List String × String :=
    let (acc, cur) := st
    let flush := if cur.isEmpty then acc else cur :: acc
    if c == '(' then ("(" :: flush, "")
    else if c == ')' then (")" :: flush, "")
    else if c == ' ' || c == '\t' || c == '\n' || c == '\r' then (flush, "")
    else (acc, cur.push c)
  let (acc, cur) := s.foldl step ([], "")
  (if cur.isEmpty then acc else cur :: acc).reverse

/-- parse one S-expression from a token list; fuel bounds the recursion -/
def parseSexp : Nat → List String → Option (Sexp × List String)
  | 0, _ => none
  | _, [] => none
  | f+1, t :: rest =>
    if t == "(" then parseList f rest []
    else if t == ")" then none
    else some (.atom t, rest)
where
  parseList : Nat → List String → List Sexp → Option (Sexp × List String)
    | 0, _, _ => none
    | _, [], _ => none
    | f+1, t :: rest, acc =>
      if t == ")" then some (.list acc.reverse, rest)
      else match parseSexp f (t :: rest) with
        | some (x, rest') => parseList f rest' (x :: acc)
        | none => none

def readSexp (s : String) : Option Sexp :=
  let toks := sexpTokens s
  match parseSexp (2 * toks.length + 2) toks with
  | some (x, []) => some x
  | _ => none

end SeaQ.Util
