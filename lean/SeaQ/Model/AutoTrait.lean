import SeaQ.Gen.Types
/-! The auto-trait rule (Send + Sync) on the public type graph regenerated from the source. -/
namespace SeaQ.AutoTrait
open SeaQ.Gen.Types

/-- the part of the auto-trait rule that does not depend on other local types -/
def okLocal (ts : Bool) (n : TypeNode) : Bool :=
  !n.notSync && !n.otherDyn &&
  (!n.usesRcOrArc || (if ts then arcUnderFeature else !rcWithoutFeature)) &&
  (!n.usesDynIden || (if ts then idenBoundsUnderFeature else !idenNoBoundsWithoutFeature))

/-- one round: a type stays Send + Sync iff it is locally fine and everything it mentions is -/
def step (ts : Bool) (cur : List Bool) : List Bool :=
  nodes.map (fun n => okLocal ts n && n.refs.all (fun i => cur.getD i false))

def iter (ts : Bool) : Nat → List Bool → List Bool
  | 0, cur => cur
  | k+1, cur => iter ts k (step ts cur)

/-- greatest fixpoint (|nodes| rounds suffice: each round only turns `true` into `false`) -/
def sendSync (ts : Bool) : List Bool := iter ts nodes.length (nodes.map (fun _ => true))

end SeaQ.AutoTrait
