import SeaQ.Model.Pratt
/-!
The engines' expression grammars as operator tables (trusted specification, DESIGN.md
Appendix A): binding powers, non-associative levels and the mixfix forms of MySQL 8.0,
PostgreSQL 16 and SQLite 3, transcribed from sql_yacc.yy, gram.y / the docs' precedence
table, and lang_expr.html.  A level `L` has `lbp = 2L`; a left-associative or
non-associative operator reads its right operand at `2L+1`.

Operator numbers are the positions of the crate's `BinOper` / `PgBinOper` / `SqliteBinOper`
variants (`opNames`; the generated policy file carries the same list and the check compares
them).
-/
namespace SeaQ.Dialects
open SeaQ.Pratt

def opNames : List (Nat × String) := [
  (0, "And"), (1, "Or"), (2, "Like"), (3, "NotLike"), (4, "Is"), (5, "IsNot"), (6, "In"), (7, "NotIn"),
  (8, "Between"), (9, "NotBetween"), (10, "Equal"), (11, "NotEqual"), (12, "SmallerThan"),
  (13, "GreaterThan"), (14, "SmallerThanOrEqual"), (15, "GreaterThanOrEqual"), (16, "Add"),
  (17, "Sub"), (18, "Mul"), (19, "Div"), (20, "Mod"), (21, "BitAnd"), (22, "BitOr"), (23, "LShift"),
  (24, "RShift"), (25, "As"), (26, "Escape"), (27, "Custom"),
  (30, "Pg.ILike"), (31, "Pg.NotILike"), (32, "Pg.Matches"), (33, "Pg.Contains"), (34, "Pg.Contained"),
  (35, "Pg.Concatenate"), (36, "Pg.Overlap"), (37, "Pg.Similarity"), (38, "Pg.WordSimilarity"),
  (39, "Pg.StrictWordSimilarity"), (40, "Pg.SimilarityDistance"), (41, "Pg.WordSimilarityDistance"),
  (42, "Pg.StrictWordSimilarityDistance"), (43, "Pg.GetJsonField"), (44, "Pg.CastJsonField"),
  (45, "Pg.Regex"), (46, "Pg.RegexCaseInsensitive"), (47, "Pg.EuclideanDistance"),
  (48, "Pg.NegativeInnerProduct"), (49, "Pg.CosineDistance"),
  (60, "Sqlite.Glob"), (61, "Sqlite.Match"), (62, "Sqlite.GetJsonField"), (63, "Sqlite.CastJsonField")]

/-- operator classes used by all three tables -/
def isCmp (o : Nat) : Bool := 10 ≤ o && o ≤ 15
def isArithAdd (o : Nat) : Bool := o == 16 || o == 17
def isArithMul (o : Nat) : Bool := o == 18 || o == 19 || o == 20
def isBetween (o : Nat) : Bool := o == 8 || o == 9
def isLike (o : Nat) : Bool := o == 2 || o == 3
def isIn (o : Nat) : Bool := o == 6 || o == 7
def isIs (o : Nat) : Bool := o == 4 || o == 5

/-- `ESCAPE` (26) is never a stand-alone operator; everything else is -/
def infxCommon (o : Nat) : Bool := o != 26

/-- ternary forms shared by the three engines -/
def mixCommon (o : Nat) : Option Nat :=
  if isBetween o then some 0 else if isLike o then some 26 else none

/-! ### SQLite (lang_expr.html): 1 OR; 2 AND; 3 NOT; 4 = == <> != IS IN LIKE GLOB MATCH BETWEEN;
5 < <= > >=; 6 ESCAPE; 7 & | << >>; 8 + -; 9 * / %; 10 || -> ->> -/
def sqliteLevel (o : Nat) : Nat :=
  if o == 1 then 1 else if o == 0 then 2
  else if o == 10 || o == 11 || isIs o || isIn o || isLike o || isBetween o || o == 60 || o == 61 then 4
  else if 12 ≤ o && o ≤ 15 then 5
  else if o == 21 || o == 22 || o == 23 || o == 24 || o == 27 then 7
  else if isArithAdd o then 8 else if isArithMul o then 9
  else if o == 62 || o == 63 then 10
  else if o == 25 then 0   -- `AS` inside CAST( ): weakest
  else 6

def sqlite : Tbl where
  infx := infxCommon
  lbp o := 2 * sqliteLevel o + (if o == 25 then 1 else 0)
  rbp o := if isBetween o then 5          -- lower bound: anything tighter than AND
           else 2 * sqliteLevel o + 1 + (if o == 25 then 1 else 0)
  nonassoc _ := false
  mix := mixCommon
  mand := isBetween
  rbp2 o := 2 * sqliteLevel o + 1         -- upper bound / escape character: above level 4
  nbp := 7

/-! ### MySQL 8.0 (sql_yacc.yy): expr: 1 OR; 2 XOR; 3 AND; 4 NOT; bool_pri: 5 comparison, IS;
predicate: 6 IN, BETWEEN, LIKE (left operand a bit_expr: non-associative); bit_expr: 7 |; 8 &;
9 << >>; 10 + -; 11 * / %; 12 ^; simple_expr: 13 -/
def mysqlLevel (o : Nat) : Nat :=
  if o == 1 then 1 else if o == 0 then 3
  else if isCmp o || isIs o then 5
  else if isIn o || isLike o || isBetween o then 6
  else if o == 22 || o == 27 then 7 else if o == 21 then 8
  else if o == 23 || o == 24 then 9
  else if isArithAdd o then 10 else if isArithMul o then 11
  else if o == 25 then 0
  else 6

def mysql : Tbl where
  infx := infxCommon
  lbp o := 2 * mysqlLevel o + (if o == 25 then 1 else 0)
  rbp o := if isBetween o then 14         -- lower bound: a bit_expr
           else if isLike o then 26       -- pattern: a simple_expr
           else if isIs o then 26         -- IS NULL / TRUE / FALSE / UNKNOWN
           else 2 * mysqlLevel o + 1 + (if o == 25 then 1 else 0)
  nonassoc o := isIn o || isLike o || isBetween o
  mix := mixCommon
  mand := isBetween
  rbp2 o := if isBetween o then 12        -- upper bound: a predicate
            else 26                       -- escape character: a simple_expr
  nbp := 9

/-! ### PostgreSQL 16 (gram.y): 1 OR; 2 AND; 3 NOT; 4 IS (nonassoc); 5 < > = <= >= <> (nonassoc);
6 BETWEEN IN LIKE ILIKE (nonassoc); 7 any other operator; 8 + -; 9 * / % -/
def pgLevel (o : Nat) : Nat :=
  if o == 1 then 1 else if o == 0 then 2
  else if isIs o then 4 else if isCmp o then 5
  else if isIn o || isLike o || isBetween o || o == 30 || o == 31 then 6
  else if isArithAdd o then 8
  else if isArithMul o || o == 37 then 9          -- `%` (similarity) is the modulo token
  else if o == 25 then 0
  else 7

def postgres : Tbl where
  infx := infxCommon
  lbp o := 2 * pgLevel o + (if o == 25 then 1 else 0)
  rbp o := if isBetween o then 14         -- lower bound: a b_expr (stricter than gram.y: see DESIGN)
           else 2 * pgLevel o + 1 + (if o == 25 then 1 else 0)
  nonassoc o := isIs o || isCmp o || isIn o || isLike o || isBetween o || o == 30 || o == 31
  mix o := if o == 30 || o == 31 then some 26 else mixCommon o   -- ILIKE .. ESCAPE
  mand := isBetween
  rbp2 o := 13                             -- upper bound / escape: %prec BETWEEN / LIKE
  nbp := 7

end SeaQ.Dialects
