import SeaQ.Model.Stmt
import SeaQ.Model.Template
import SeaQ.Gen.Spell
/-!
Model of the `prepare_*` call tree of `QueryBuilder` (`src/backend/query_builder.rs`) with
the overrides of the three backends (`src/backend/{mysql,postgres,sqlite}/query.rs`), of
`TableRefBuilder` (`src/backend/table_ref_builder.rs`) and of the two writers
(`impl SqlWriter for String`, `SqlWriterValues`; `src/prepare.rs`).

Rendering produces a list of *pieces*; the two writers are two interpretations of the same
piece list (`textP`: placeholders + collected values; `textI`: every value written as its
literal).  The crate has one call tree and two writers, so this is its structure, not an
idealisation; whether every call site really goes through the writer is what the
correspondence run compares.
-/
namespace SeaQ.Render
open SeaQ.Escape SeaQ.Stmt

inductive Piece where
  /-- text written by the renderer itself (keywords, punctuation, spaces) -/
  | s (t : String)
  /-- `Iden::prepare`: quoted, quote character doubled -/
  | id (name : String)
  /-- caller-supplied text written verbatim: `Expr::cust`, template chunks, `BinOper::Custom`,
  `Iden::unquoted` of `Function::Custom` / `Keyword::Custom`, f64 `Display` of TABLESAMPLE -/
  | raw (t : List Char)
  /-- `SqlWriter::push_param` -/
  | p (v : Val)
  /-- `value_to_string` written in both modes (`prepare_constant`, `ORDER BY FIELD` values) -/
  | c (v : Val)
  /-- the crate panics here (unsupported construct on this backend, bad template) -/
  | bad
  deriving DecidableEq, Repr

abbrev Pieces := List Piece

/-! ## the two writers -/

def digitChar (n : Nat) : Char := Char.ofNat (48 + n % 10)

/-- decimal digits of a number (what `{}` of an unsigned integer writes) -/
def natText (n : Nat) : List Char :=
  if h : n < 10 then [digitChar n] else natText (n / 10) ++ [digitChar n]
termination_by n
decreasing_by omega

/-- `{}` of a signed integer -/
def intText (i : Int) : List Char :=
  if i < 0 then '-' :: natText (-i).toNat else natText i.toNat

/-- `QueryBuilder::value_to_string_common` -/
def litText (d : Backend) (v : Val) : List Char :=
  match v.v with
  | .null => "NULL".toList
  | .bool b => if b then "TRUE".toList else "FALSE".toList
  | .int i => intText i
  | .num t => t.toList
  | .str s => Literal.writeStr d s
  | .bytes b => Literal.writeBytes d b
  | .quoted t => '\'' :: (t.toList ++ ['\''])

def numbered : Backend → Bool
  | .postgres => true
  | _ => false

def mark : Backend → Char
  | .postgres => '$'
  | _ => '?'

def placeholder (d : Backend) (k : Nat) : List Char :=
  if numbered d then mark d :: natText k else [mark d]

def identText (d : Backend) (name : String) : List Char := Ident.prepare (Ident.quoteOf d) name.toList

/-- `SqlWriterValues`: state = (counter, text so far is returned), values collected in order -/
def textPFrom (d : Backend) : Nat → Pieces → List Char × List Val
  | _, [] => ([], [])
  | k, .s t :: r => let (x, vs) := textPFrom d k r; (t.toList ++ x, vs)
  | k, .id n :: r => let (x, vs) := textPFrom d k r; (identText d n ++ x, vs)
  | k, .raw t :: r => let (x, vs) := textPFrom d k r; (t ++ x, vs)
  | k, .p v :: r => let (x, vs) := textPFrom d (k + 1) r; (placeholder d (k + 1) ++ x, v :: vs)
  | k, .c v :: r => let (x, vs) := textPFrom d k r; (litText d v ++ x, vs)
  | k, .bad :: r => textPFrom d k r

def textP (d : Backend) (ps : Pieces) : List Char × List Val := textPFrom d 0 ps

/-- `impl SqlWriter for String` -/
def textI (d : Backend) : Pieces → List Char
  | [] => []
  | .s t :: r => t.toList ++ textI d r
  | .id n :: r => identText d n ++ textI d r
  | .raw t :: r => t ++ textI d r
  | .p v :: r => litText d v ++ textI d r
  | .c v :: r => litText d v ++ textI d r
  | .bad :: r => textI d r

def panics (ps : Pieces) : Bool := ps.contains .bad

/-! ## operator classes and the parenthesis policy (`src/backend/mod.rs`, `query_builder.rs`) -/

inductive Oper where
  | un
  | bin (o : Op)
  deriving DecidableEq, Repr

def _root_.SeaQ.Stmt.Op.isStd (o : Op) (p : Nat → Bool) : Bool := match o with | .std i => p i | .custom _ => false

def Oper.isLogical : Oper → Bool
  | .un => true
  | .bin o => o.isStd (fun i => i == 0 || i == 1)
def Oper.isBin (x : Oper) (p : Nat → Bool) : Bool := match x with | .un => false | .bin o => o.isStd p
def Oper.isBetween (x : Oper) : Bool := x.isBin (fun i => i == 8 || i == 9)
def Oper.isLike (x : Oper) : Bool := x.isBin (fun i => i == 2 || i == 3)
/-- the operators whose right operand may be the nested `pattern ESCAPE character` pair: `LIKE`, `NOT LIKE` and Postgres'
`ILIKE`, `NOT ILIKE` (`Oper::is_like() || Oper::is_ilike()` in `binary_expr`) -/
def Oper.takesEscape (x : Oper) : Bool := x.isBin (fun i => i == 2 || i == 3 || i == 30 || i == 31)
def Oper.isIn (x : Oper) : Bool := x.isBin (fun i => i == 6 || i == 7)
def Oper.isIs (x : Oper) : Bool := x.isBin (fun i => i == 4 || i == 5)
def Oper.isShift (x : Oper) : Bool := x.isBin (fun i => i == 23 || i == 24)
def Oper.isArithmetic (x : Oper) : Bool := x.isBin (fun i => 16 ≤ i && i ≤ 20)
def Oper.isComparison (x : Oper) : Bool := x.isBin (fun i => 10 ≤ i && i ≤ 15)

/-- what the precedence decision looks at in the inner expression: its outermost constructor -/
inductive Shape where
  | atomic            -- Column, Tuple, Constant, FunctionCall, Value, Keyword, Case, SubQuery
  | bin (o : Op)
  | other             -- Unary, Values, Custom, CustomWithExpr, AsEnum
  deriving DecidableEq, Repr

def shapeOf : Ex → Shape
  | .col _ | .tuple _ | .const _ | .func _ _ _ | .value _ | .keyword _ | .case _ _ | .subq _ _ => .atomic
  | .bin _ o _ => .bin o
  | _ => .other

/-- `common_inner_expr_well_known_greater_precedence` -/
def greaterCommon (inner : Shape) (outer : Oper) : Bool :=
  match inner with
  | .atomic => true
  | .bin io =>
    let i := Oper.bin io
    if i.isArithmetic || i.isShift then
      outer.isComparison || outer.isBetween || outer.isIn || outer.isLike || outer.isLogical
    else if i.isComparison || i.isIn || i.isLike || i.isIs then outer.isLogical
    else false
  | .other => false

def isPgComparison (o : Op) : Bool :=
  o.isStd (fun i => i == 34 || i == 33 || i == 37 || i == 38 || i == 39 || i == 32)

/-- `PrecedenceDecider::inner_expr_well_known_greater_precedence` per backend -/
def greater (d : Backend) (inner : Shape) (outer : Oper) : Bool :=
  match d with
  | .postgres =>
    greaterCommon inner outer ||
      (match inner with
       | .bin io =>
         let i := Oper.bin io
         if i.isArithmetic || i.isShift then io.isStd (fun k => k == 30 || k == 31)
         else if isPgComparison io then outer.isLogical else false
       | _ => false)
  | .mysql =>
    -- MySQL's LIKE takes a simple_expr: a binary operand keeps its parentheses
    (match inner with
     | .bin _ => !outer.isLike && greaterCommon inner outer
     | _ => greaterCommon inner outer)
  | .sqlite => greaterCommon inner outer

/-- `OperLeftAssocDecider::well_known_left_associative` per backend -/
def leftAssoc (d : Backend) (o : Op) : Bool :=
  o.isStd (fun i => i == 0 || i == 1 || i == 16 || i == 17 || i == 18 || i == 20) ||
    (d == .postgres && o.isStd (fun i => i == 35))

/-! ## spellings -/

def S (t : String) : Piece := .s t

/-! the operator and function spellings are regenerated from the renderer's `match` tables on every
run (`Gen/Spell`, seaq-translate group `spell`) -/
export SeaQ.Gen.Spell (binOpCommon binOpPg binOpSqlite fnPg joinKw lockKw lockBehaviorKw subOpKw keywordKw)

/-- a keyword read from a regenerated table; a variant the table does not spell renders nothing and marks the statement -/
def kwPiece : Option String → Pieces
  | some t => [S t]
  | none => [.bad]

/-- `prepare_bin_oper` -/
def rOp (d : Backend) : Op → Pieces
  | .custom s => [.raw s.toList]
  | .std i =>
    match binOpCommon i with
    | some t => [S t]
    | none =>
      match d with
      | .postgres => (match binOpPg i with | some t => [S t] | none => [.bad])
      | .sqlite => (match binOpSqlite i with | some t => [S t] | none => [.bad])
      | .mysql => [.bad]

/-- `prepare_function_name_common` with the backend's hooks (`if_null_function`, ..) -/
def fnCommon (d : Backend) (i : Nat) : Option String :=
  match d with
  | .mysql => SeaQ.Gen.Spell.fnMysql i
  | .postgres => SeaQ.Gen.Spell.fnPostgres i
  | .sqlite => SeaQ.Gen.Spell.fnSqlite i

/-- `prepare_function_name` -/
def rFn (d : Backend) : Fn → Pieces
  | .custom n => [.raw n.toList]
  | .std i => (match fnCommon d i with | some t => [S t] | none => [.bad])
  | .pg i =>
    match d with
    | .postgres => (match fnPg i with | some t => [S t] | none => [.bad])
    | _ => [.bad]

/-- `prepare_keyword` -/
def rKw : Kw → Pieces
  | .null => kwPiece (keywordKw 0)
  | .currentDate => kwPiece (keywordKw 1)
  | .currentTime => kwPiece (keywordKw 2)
  | .currentTimestamp => kwPiece (keywordKw 3)
  | .custom s => [.raw s.toList]

/-- `prepare_sub_query_oper` -/
def rSubOp (d : Backend) : SubOp → Pieces
  | .exists => kwPiece (subOpKw 0)
  | .any => if d == .sqlite then [.bad] else kwPiece (subOpKw 1)
  | .some => if d == .sqlite then [.bad] else kwPiece (subOpKw 2)
  | .all => if d == .sqlite then [.bad] else kwPiece (subOpKw 3)

/-- `prepare_column_ref` -/
def rColRef : ColRef → Pieces
  | .col c => [.id c]
  | .tcol t c => [.id t, S ".", .id c]
  | .stcol s t c => [.id s, S ".", .id t, S ".", .id c]
  | .star => [S "*"]
  | .tstar t => [.id t, S ".*"]

def rColRefs : Bool → List ColRef → Pieces
  | _, [] => []
  | first, c :: r => (if first then [] else [S ", "]) ++ rColRef c ++ rColRefs false r

def rIdents : Bool → List String → Pieces
  | _, [] => []
  | first, c :: r => (if first then [] else [S ", "]) ++ [.id c] ++ rIdents false r

/-- name parts joined with `.` -/
def rParts : Bool → List String → Pieces
  | _, [] => []
  | first, c :: r => (if first then [] else [S "."]) ++ [.id c] ++ rParts false r

/-- `TableRefBuilder::prepare_table_ref_iden` -/
def rTName (n : TName) : Pieces :=
  rParts true n.parts ++ (match n.alias with | some a => [S " AS ", .id a] | none => [])

def rTNames : Bool → List TName → Pieces
  | _, [] => []
  | first, t :: r => (if first then [] else [S ", "]) ++ rTName t ++ rTNames false r

/-- a comma separated list of bound values -/
def rVals : Bool → List Val → Pieces
  | _, [] => []
  | first, v :: r => (if first then [] else [S ", "]) ++ [.p v] ++ rVals false r

/-- `prepare_values_list` rows -/
def rValueRows (d : Backend) : Bool → List (List Val) → Pieces
  | _, [] => []
  | first, row :: r =>
    (if first then [] else [S ", "]) ++ (if d == .mysql then [S "ROW"] else []) ++ [S "("] ++
      rVals true row ++ [S ")"] ++ rValueRows d false r

/-- `prepare_join_type` -/
def rJoinType (d : Backend) (n : Nat) : Pieces :=
  if d == .mysql && n == 5 then [.bad] else kwPiece (joinKw n)

def rUnionKw : Nat → String
  | 0 => " INTERSECT " | 1 => " UNION " | 2 => " EXCEPT " | _ => " UNION ALL "

/-- `prepare_frame` -/
def rBound : Bound → Pieces
  | .unboundedPreceding => [S "UNBOUNDED PRECEDING"]
  | .preceding n => [.p ⟨"Unsigned", .int n⟩, S " PRECEDING"]
  | .currentRow => [S "CURRENT ROW"]
  | .following n => [.p ⟨"Unsigned", .int n⟩, S " FOLLOWING"]
  | .unboundedFollowing => [S "UNBOUNDED FOLLOWING"]

def rFrame (f : Frame) : Pieces :=
  [S (if f.rows then " ROWS " else " RANGE ")] ++
    (match f.stop with
     | some e => [S "BETWEEN "] ++ rBound f.start ++ [S " AND "] ++ rBound e
     | none => rBound f.start)

def rOptFrame : Option Frame → Pieces
  | some f => rFrame f
  | none => []

/-- `prepare_select_distinct` -/
def rDistinct (d : Backend) : Distinct → Pieces
  | .all => [S "ALL"]
  | .distinct => [S "DISTINCT"]
  | .distinctRow => if d == .mysql then [S "DISTINCTROW"] else []
  | .distinctOn cols => if d == .postgres then [S "DISTINCT ON ("] ++ rColRefs true cols ++ [S ")"] else []

/-- MySQL `prepare_index_hints` -/
def rHints : Bool → List Hint → Pieces
  | _, [] => []
  | first, h :: r =>
    [S " "] ++
      [S (match h.ty with | 0 => "USE INDEX " | 1 => "IGNORE INDEX " | _ => "FORCE INDEX ")] ++
      (match h.scope with | 0 => [S "FOR JOIN "] | 1 => [S "FOR ORDER BY "] | 2 => [S "FOR GROUP BY "] | _ => []) ++
      [S "(", .id h.index, S ")"] ++ rHints (first && false) r

/-- Postgres `prepare_table_sample` -/
def rSample (s : Sample) : Pieces :=
  [S (if s.method == 0 then " TABLESAMPLE BERNOULLI" else " TABLESAMPLE SYSTEM"), S " (", .raw s.pct.toList, S ")"] ++
    (match s.rep with | some r => [S " REPEATABLE (", .raw r.toList, S ")"] | none => [])

def rLockBehavior : Option Nat → Pieces
  | some b => kwPiece (lockBehaviorKw b)
  | none => []

/-- `prepare_select_lock` (SQLite: nothing) -/
def rLock (d : Backend) (l : Lock) : Pieces :=
  if d == .sqlite then [] else
    [S "FOR "] ++ kwPiece (lockKw l.ty) ++
      (if l.tables.isEmpty then [] else [S " OF "] ++ rTNames true l.tables) ++
      rLockBehavior l.behavior

def rOrderKw : OrderKind → Pieces
  | .asc => [S " ASC"]
  | .desc => [S " DESC"]
  | .field _ => []

/-- the CASE arms of `prepare_field_order`, given the rendered key expression -/
def rFieldArms (key : Pieces) : Nat → List Val → Pieces
  | i, [] => [S "ELSE ", .raw (natText i), S " END"]
  | i, v :: r => [S "WHEN "] ++ key ++ [S "=", .c v, S " THEN ", .raw (natText i), S " "] ++ rFieldArms key (i + 1) r

/-- template expansion of `SimpleExpr::CustomWithExpr`: chunks are raw text, `val i` is the
rendering of the `i`-th supplied expression; `none` of `expand` = the crate panics -/
def rTemplate (d : Backend) (t : String) (rendered : List Pieces) : Pieces :=
  let toks := Token.tokenize (Token.cls Char.isAlpha) t.toList
  match Template.expand (mark d) (numbered d) rendered.length 0 toks with
  | none => [.bad]
  | some ps => ps.flatMap (fun | .lit s => [Piece.raw s] | .val i => rendered.getD i [.bad])

def wrap (dropParen : Bool) (ps : Pieces) : Pieces := if dropParen then ps else [S "("] ++ ps ++ [S ")"]

def isBinWith (e : Ex) (p : Op → Bool) : Bool := match e with | .bin _ o _ => p o | _ => false
def isCustom (e : Ex) : Bool := match e with | .cust _ => true | _ => false
def isEmptyTuple (e : Ex) : Bool := match e with | .tuple .nil => true | _ => false
/-- `prepare_logical_chain_oper`: `Binary(_, _, Binary(..))` -/
def bothBinary (e : Ex) : Bool := match e with | .bin _ _ (.bin _ _ _) => true | _ => false

def one : Val := ⟨"Int", .int 1⟩
def two : Val := ⟨"Int", .int 2⟩

def chainLen : ChainList → Nat
  | .nil => 0
  | .cons _ _ r => chainLen r + 1

def itemsLen : CondItems → Nat
  | .nil => 0
  | .consC _ r => itemsLen r + 1
  | .consE _ r => itemsLen r + 1

/-- `insert_default_values`: one default tuple per requested row -/
def rDefaultRows (d : Backend) : Bool → Nat → Pieces
  | _, 0 => []
  | first, n + 1 =>
    (if first then [] else [S ", "]) ++ [S (if d == .mysql then "()" else "(DEFAULT)")] ++ rDefaultRows d false n

/-- MySQL `ON DUPLICATE KEY UPDATE pk = pk` -/
def rSelfAssign : Bool → List String → Pieces
  | _, [] => []
  | first, c :: r => (if first then [] else [S ", "]) ++ [.id c, S " = ", .id c] ++ rSelfAssign false r

/-- `LIMIT n` / `OFFSET n` with a bound value -/
def rLimit (kw : String) : Option Val → Pieces
  | some v => [S kw, .p v]
  | none => []

def rAlias : Option String → Pieces
  | some a => [S " AS ", .id a]
  | none => []

def rOptDistinct (d : Backend) : Option Distinct → Pieces
  | some x => rDistinct d x ++ [S " "]
  | none => []

def rOptLock (d : Backend) : Option Lock → Pieces
  | some l => [S " "] ++ rLock d l
  | none => []

def rOptSample : Option Sample → Pieces
  | some s => rSample s
  | none => []

def rOptSubOp (d : Backend) : Option SubOp → Pieces
  | some o => rSubOp d o
  | none => []

def rMaterialized : Option Bool → Pieces
  | some true => [S " MATERIALIZED "]
  | some false => [S "NOT MATERIALIZED "]
  | none => []

/-- MySQL `prepare_update_column`: the table name that qualifies the SET columns -/
def updateQual : Option TRef → Option String
  | some (.named ⟨[t], none⟩) => some t
  | _ => none

def TRefList.isNil : TRefList → Bool | .nil => true | _ => false
def OrderList.isNil : OrderList → Bool | .nil => true | _ => false
def CteList.isNil : CteList → Bool | .nil => true | _ => false
def TargetList.isNil : TargetList → Bool | .nil => true | _ => false
def InsSource.isNone : InsSource → Bool | .none => true | _ => false

/-- the shape of `Condition::to_simple_expr()` without building it -/
def shapeC : Cond → Shape
  | .mk neg any items =>
    if neg then .other
    else match items with
      | .nil => .atomic
      | .consC c .nil => shapeC c
      | .consE e .nil => shapeOf e
      | _ => .bin (.std (if any then 1 else 0))

/-- the left operand and the operator of `binary_expr`, given the rendered left operand -/
def binLeft (d : Backend) (l : Ex) (o : Op) (rl : Pieces) : Pieces :=
  let dropL := greater d (shapeOf l) (.bin o) || (isBinWith l (· == o) && leftAssoc d o)
  wrap dropL rl ++ [S " "] ++ rOp d o ++ [S " "]

/-- may the parentheses around an operand of the AND / OR chain of a `Condition` be dropped?
(`binary_expr` on the chain built by `to_simple_expr`: the first operand is a left operand) -/
def dropItem (d : Backend) (any first : Bool) (sh : Shape) : Bool :=
  let o : Op := .std (if any then 1 else 0)
  greater d sh (.bin o) || (first && sh == .bin o)

def condSep (any first : Bool) : Pieces :=
  if first then [] else [S " ", S (if any then "OR" else "AND"), S " "]

mutual
/-- `prepare_simple_expr` (Postgres override for `AsEnum`, otherwise `prepare_simple_expr_common`) -/
def rEx (d : Backend) : Ex → Pieces
  | .col c => rColRef c
  | .tuple l => [S "("] ++ rExList d true l ++ [S ")"]
  | .unary e => [S "NOT", S " "] ++ wrap (greater d (shapeOf e) .un) (rEx d e)
  | .func f dist args => rFn d f ++ [S "("] ++ rArgs d true dist args ++ [S ")"]
  | .bin l o r =>
    let outer := Oper.bin o
    -- `IN ()` / `NOT IN ()` become `1 = 2` / `1 = 1` with bound values
    if o == .std 6 && isEmptyTuple r then [.p one, S " ", S "=", S " ", .p two]
    else if o == .std 7 && isEmptyTuple r then [.p one, S " ", S "=", S " ", .p one]
    else if outer.isBetween && isBinWith r (· == .std 0) then
      -- BETWEEN lo AND hi: the bounds are operands of BETWEEN
      binLeft d l o (rEx d l) ++ rBounds d outer r
    else
      let dropR := greater d (shapeOf r) outer || (outer.takesEscape && isBinWith r (· == .std 26)) ||
        (o == .std 25 && isCustom r)
      binLeft d l o (rEx d l) ++ wrap dropR (rEx d r)
  | .subq o q => rOptSubOp d o ++ [S "("] ++ rQuery d q ++ [S ")"]
  | .value v => [.p v]
  | .values vs => [S "("] ++ rVals true vs ++ [S ")"]
  | .cust s => [.raw s.toList]
  -- the empty raw piece writes nothing; it marks an expansion about which nothing is claimed (a template
  -- that is not lexically safe on its own, `Template.ok`)
  | .custWith t vals =>
    (if Template.ok (mark d) (numbered d) Char.isAlpha t.toList vals.length then [] else [.raw []]) ++
      rTemplate d t (rExEach d vals)
  | .keyword k => rKw k
  | .asEnum ty e =>
    match d with
    | .postgres =>
      [S "CAST("] ++ rEx d e ++ [S " AS "] ++
        (if ty.endsWith "[]" then [.id (ty.dropEnd 2).toString, S "[]"] else [.id ty]) ++ [S ")"]
    | _ => rEx d e
  | .case whens els =>
    [S "(CASE"] ++ rCase d whens ++ rOptEx d " ELSE " els ++ [S " END)"]
  | .const v => [.c v]
/-- the two bounds of `BETWEEN`, each parenthesised against BETWEEN itself -/
def rBounds (d : Backend) (outer : Oper) : Ex → Pieces
  | .bin lo _ hi =>
    wrap (greater d (shapeOf lo) outer) (rEx d lo) ++ [S " AND "] ++ wrap (greater d (shapeOf hi) outer) (rEx d hi)
  | _ => []
def rExList (d : Backend) : Bool → ExList → Pieces
  | _, .nil => []
  | first, .cons e r => (if first then [] else [S ", "]) ++ rEx d e ++ rExList d false r
def rExEach (d : Backend) : ExList → List Pieces
  | .nil => []
  | .cons e r => rEx d e :: rExEach d r
/-- an optional expression after a keyword -/
def rOptEx (d : Backend) (pre : String) : Option Ex → Pieces
  | some e => [S pre] ++ rEx d e
  | none => []
/-- `prepare_function_arguments` -/
def rArgs (d : Backend) : Bool → List Bool → ExList → Pieces
  | _, _, .nil => []
  | first, ms, .cons e r =>
    (if first then [] else [S ", "]) ++ (if ms.headD false then [S "DISTINCT "] else []) ++ rEx d e ++
      rArgs d false ms.tail r
/-- `prepare_case_statement` arms -/
def rCase (d : Backend) : CaseList → Pieces
  | .nil => []
  | .cons c e r => [S " WHEN ("] ++ rCond d c ++ [S ") THEN "] ++ rEx d e ++ rCase d r
/-- `prepare_condition_where`: the rendering of `Condition::to_simple_expr()` -/
def rCond (d : Backend) : Cond → Pieces
  | .mk neg any items =>
    -- no operand: the constant; one operand: the operand itself; otherwise the AND / OR chain
    let body := if itemsLen items == 0 then [.c ⟨"Bool", .bool (!any)⟩]
      else rItems d any (itemsLen items == 1) true items
    if neg then [S "NOT", S " "] ++ wrap (greater d (shapeC (.mk false any items)) .un) body else body
def rItems (d : Backend) (any single : Bool) : Bool → CondItems → Pieces
  | _, .nil => []
  | first, .consC c r =>
    condSep any first ++ wrap (single || dropItem d any first (shapeC c)) (rCond d c) ++ rItems d any single false r
  | first, .consE e r =>
    condSep any first ++ wrap (single || dropItem d any first (shapeOf e)) (rEx d e) ++ rItems d any single false r
/-- `prepare_condition(holder, keyword)` -/
def rHolder (d : Backend) (kw : String) : Holder → Pieces
  | .empty => []
  | .chain l => [S " ", S kw, S " "] ++ rChain d (chainLen l) true l
  | .cond c => [S " ", S kw, S " "] ++ rCond d c
/-- `prepare_logical_chain_oper` over the chain -/
def rChain (d : Backend) (len : Nat) : Bool → ChainList → Pieces
  | _, .nil => []
  | first, .cons isOr e r =>
    (if first then [] else [S " ", S (if isOr then "OR" else "AND"), S " "]) ++
      wrap (!(len > 1 && (bothBinary e || !greater d (shapeOf e) (.bin (.std 0))))) (rEx d e) ++ rChain d len false r
/-- `SubQueryStatement::prepare_statement` -/
def rQuery (d : Backend) : Query → Pieces
  | .sel s => rSelect d s
  | .ins s => rInsert d s
  | .upd s => rUpdate d s
  | .del s => rDelete d s
  | .withq w q => rWith d w ++ rQuery d q
/-- `prepare_select_statement` -/
def rSelect (d : Backend) : Select → Pieces
  | .mk with_ distinct selects from_ hints sample joins where_ groups having unions orders limit offset lock windowName window =>
    rOptWith d with_ ++
    [S "SELECT "] ++
    rOptDistinct d distinct ++
    rSelList d true selects ++
    (if TRefList.isNil from_ then []
     else [S " FROM "] ++ rTRefs d true from_ ++
        (if d == .mysql then rHints true hints else []) ++
        (if d == .postgres then rOptSample sample else [])) ++
    rJoins d joins ++
    rHolder d "WHERE" where_ ++
    (if groups.isEmpty then [] else [S " GROUP BY "] ++ rExList d true groups) ++
    rHolder d "HAVING" having ++
    rUnions d unions ++
    (if OrderList.isNil orders then [] else [S " ORDER BY "] ++ rOrders d true orders) ++
    rLimit " LIMIT " limit ++
    rLimit " OFFSET " offset ++
    rOptLock d lock ++
    rOptWindow d windowName window
def rOptWith (d : Backend) : Option WithClause → Pieces
  | some w => rWith d w
  | none => []
/-- the named `WINDOW` clause -/
def rOptWindow (d : Backend) (name : String) : Option Window → Pieces
  | some w => [S " WINDOW ", .id name, S " AS "] ++ rWindow d w
  | none => []
/-- `prepare_select_expr` -/
def rSelList (d : Backend) : Bool → SelList → Pieces
  | _, .nil => []
  | first, .cons e win alias r =>
    (if first then [] else [S ", "]) ++ rEx d e ++ rWinSel d win ++ rAlias alias ++ rSelList d false r
def rWinSel (d : Backend) : WinSel → Pieces
  | .none => []
  | .name n => [S " OVER ", .id n]
  | .query w => [S " OVER ", S "( "] ++ rWindow d w ++ [S " )"]
/-- `prepare_window_statement` -/
def rWindow (d : Backend) : Window → Pieces
  | .mk partition orders frame =>
    (if partition.isEmpty then [] else [S "PARTITION BY "] ++ rExList d true partition) ++
    (if OrderList.isNil orders then [] else [S " ORDER BY "] ++ rOrders d true orders) ++
    rOptFrame frame
/-- `prepare_order_expr` per backend, comma separated -/
def rOrders (d : Backend) : Bool → OrderList → Pieces
  | _, .nil => []
  | first, .cons e k nulls r =>
    let key := rEx d e
    let isField := match k with | .field _ => true | _ => false
    -- the ordered expression as an operand of `=` (FIELD order) / of `IS NULL` (MySQL emulation)
    let keyEq := wrap (greater d (shapeOf e) (.bin (.std 10))) key
    let keyIs := wrap (greater d (shapeOf e) (.bin (.std 4))) key
    let core := (if isField then [] else key) ++ rOrderKw k ++
      (match k with | .field vs => [S "CASE "] ++ rFieldArms keyEq 0 vs | _ => [])
    (if first then [] else [S ", "]) ++
      (match d with
       | .mysql =>
         (match nulls with
          | none => []
          | some false => keyIs ++ [S " IS NULL ASC, "]
          | some true => keyIs ++ [S " IS NULL DESC, "]) ++ core
       | _ =>
         core ++ (match nulls with | none => [] | some false => [S " NULLS LAST"] | some true => [S " NULLS FIRST"])) ++
      rOrders d false r
/-- `prepare_table_ref` -/
def rTRef (d : Backend) : TRef → Pieces
  | .named n => rTName n
  | .subq s a => [S "("] ++ rSelect d s ++ [S ")", S " AS ", .id a]
  | .valuesList rows a => [S "(", S "VALUES "] ++ rValueRows d true rows ++ [S ")", S " AS ", .id a]
  | .func f dist args a => rFn d f ++ [S "("] ++ rArgs d true dist args ++ [S ")", S " AS ", .id a]
def rTRefs (d : Backend) : Bool → TRefList → Pieces
  | _, .nil => []
  | first, .cons t r => (if first then [] else [S ", "]) ++ rTRef d t ++ rTRefs d false r
/-- `prepare_join_expr` -/
def rJoins (d : Backend) : JoinList → Pieces
  | .nil => []
  | .cons ty lateral t on r =>
    [S " "] ++ rJoinType d ty ++ [S " "] ++ (if lateral then [S "LATERAL "] else []) ++ rTRef d t ++
      rHolder d "ON" on ++ rJoins d r
/-- `prepare_union_statement` (SQLite: no parentheses) -/
def rUnions (d : Backend) : UnionList → Pieces
  | .nil => []
  | .cons ty s r =>
    (if d == .sqlite then [S (rUnionKw ty)] ++ rSelect d s
     else [S (rUnionKw ty), S "("] ++ rSelect d s ++ [S ")"]) ++ rUnions d r
/-- `prepare_with_clause` -/
def rWith (d : Backend) : WithClause → Pieces
  | .mk recursive searchBreadth searchExpr searchAlias cycleExpr cycleSet cycleUsing ctes =>
    [S "WITH "] ++ (if recursive then [S "RECURSIVE "] else []) ++
    (if CteList.isNil ctes then [.bad] else rCtes d true ctes) ++
    (if recursive && d == .postgres then
      rSearch d searchBreadth searchAlias searchExpr ++ rCycle d cycleSet cycleUsing cycleExpr
     else [])
def rSearch (d : Backend) (breadth : Bool) (alias : String) : Option Ex → Pieces
  | some e =>
    [S (if breadth then "SEARCH BREADTH FIRST BY " else "SEARCH DEPTH FIRST BY ")] ++ rEx d e ++ [S " SET ", .id alias, S " "]
  | none => []
def rCycle (d : Backend) (setAs using_ : String) : Option Ex → Pieces
  | some e => [S "CYCLE "] ++ rEx d e ++ [S " SET ", .id setAs, S " USING ", .id using_, S " "]
  | none => []
/-- `prepare_with_query_clause_common_table` -/
def rCtes (d : Backend) : Bool → CteList → Pieces
  | _, .nil => []
  | first, .cons name cols mat q r =>
    (if first then [] else [S ", "]) ++ [.id name] ++
      (if cols.isEmpty then [S " "] else [S " ("] ++ rIdents true cols ++ [S ") "]) ++
      [S "AS "] ++
      (if d == .mysql then [] else rMaterialized mat) ++
      [S "("] ++ rQuery d q ++ [S ") "] ++ rCtes d false r
/-- `prepare_insert_statement` -/
def rInsert (d : Backend) : Insert → Pieces
  | .mk with_ replace table columns source onConflict returning defaultValues =>
    rOptWith d with_ ++
    [S (if replace then "REPLACE" else "INSERT")] ++
    rOptTRef d " INTO " table ++
    (if defaultValues.isSome && columns.isEmpty && InsSource.isNone source then
       [S " "] ++ (if d == .sqlite then [S "DEFAULT VALUES"] else [S "VALUES "] ++ rDefaultRows d true (defaultValues.getD 0))
     else [S " ", S "("] ++ rIdents true columns ++ [S ")"] ++ rSource d source) ++
    rOptOnConflict d onConflict ++
    rReturning d returning
def rOptTRef (d : Backend) (pre : String) : Option TRef → Pieces
  | some t => [S pre] ++ rTRef d t
  | none => []
def rOptOnConflict (d : Backend) : Option OnConflict → Pieces
  | some oc => rOnConflict d oc
  | none => []
def rSource (d : Backend) : InsSource → Pieces
  | .none => []
  | .values rows => [S " ", S "VALUES "] ++ rRows d true rows
  | .select s => [S " "] ++ rSelect d s
def rRows (d : Backend) : Bool → RowList → Pieces
  | _, .nil => []
  | first, .cons row r => (if first then [] else [S ", "]) ++ [S "("] ++ rExList d true row ++ [S ")"] ++ rRows d false r
/-- `prepare_on_conflict` -/
def rOnConflict (d : Backend) : OnConflict → Pieces
  | .mk targets targetWhere action actionWhere =>
    [S (if d == .mysql then " ON DUPLICATE KEY" else " ON CONFLICT ")] ++
    (if d == .mysql || TargetList.isNil targets then [] else [S "("] ++ rTargets d true targets ++ [S ")"]) ++
    (if d == .mysql then [] else rHolder d "WHERE" targetWhere) ++
    rAction d action ++
    (if d == .mysql then [] else rHolder d "WHERE" actionWhere)
def rTargets (d : Backend) : Bool → TargetList → Pieces
  | _, .nil => []
  | first, .col c r => (if first then [] else [S ", "]) ++ [.id c] ++ rTargets d false r
  | first, .expr e r => (if first then [] else [S ", "]) ++ rEx d e ++ rTargets d false r
/-- `prepare_on_conflict_action` (MySQL override for DoNothing) -/
def rAction (d : Backend) : Action → Pieces
  | .none => []
  | .doNothing pk =>
    if d == .mysql then
      (if pk.isEmpty then [S " IGNORE"] else [S " UPDATE "] ++ rSelfAssign true pk)
    else [S " DO NOTHING"]
  | .update l => [S (if d == .mysql then " UPDATE " else " DO UPDATE SET ")] ++ rUpds d true l
def rUpds (d : Backend) : Bool → UpdList → Pieces
  | _, .nil => []
  | first, .col c r =>
    (if first then [] else [S ", "]) ++ [.id c, S " = "] ++
      (if d == .mysql then [S "VALUES(", .id c, S ")"] else [.id "excluded", S ".", .id c]) ++ rUpds d false r
  | first, .expr c e r => (if first then [] else [S ", "]) ++ [.id c, S " = "] ++ rEx d e ++ rUpds d false r
/-- `prepare_returning` (MySQL: nothing) -/
def rReturning (d : Backend) : Returning → Pieces
  | .none => []
  | .all => if d == .mysql then [] else [S " RETURNING ", S "*"]
  | .cols cs => if d == .mysql then [] else [S " RETURNING "] ++ rColRefs true cs
  | .exprs es => if d == .mysql then [] else [S " RETURNING "] ++ rExList d true es
/-- `prepare_update_statement` -/
def rUpdate (d : Backend) : Update → Pieces
  | .mk with_ table sets where_ orders limit returning from_ =>
    let hasFrom := !TRefList.isNil from_
    rOptWith d with_ ++
    [S "UPDATE "] ++
    rOptTable d table ++
    -- MySQL `prepare_update_join`: the first FROM table and the condition as `JOIN .. ON`
    (if d == .mysql then rUpdateJoin d (rHolder d "ON" where_) from_ else []) ++
    [S " SET "] ++
    rSets d (if d == .mysql && hasFrom then updateQual table else none) true sets ++
    (if d == .mysql || !hasFrom then [] else [S " FROM "] ++ rTRefs d true from_) ++
    (if d == .mysql && hasFrom then [] else rHolder d "WHERE" where_) ++
    rReturning d returning ++
    (if OrderList.isNil orders then [] else [S " ORDER BY "] ++ rOrders d true orders) ++
    rLimit " LIMIT " limit
def rOptTable (d : Backend) : Option TRef → Pieces
  | some t => rTRef d t
  | none => []
def rUpdateJoin (d : Backend) (on : Pieces) : TRefList → Pieces
  | .nil => []
  | .cons t _ => [S " JOIN "] ++ rTRef d t ++ on
/-- SET list; `qual` = the table name MySQL's `prepare_update_column` prefixes -/
def rSets (d : Backend) (qual : Option String) : Bool → SetList → Pieces
  | _, .nil => []
  | first, .cons c e r =>
    (if first then [] else [S ", "]) ++ (match qual with | some t => [.id t, S "."] | none => []) ++
      [.id c, S " = "] ++ rEx d e ++ rSets d qual false r
/-- `prepare_delete_statement` -/
def rDelete (d : Backend) : Delete → Pieces
  | .mk with_ table where_ orders limit returning =>
    rOptWith d with_ ++
    [S "DELETE "] ++
    rOptTRef d "FROM " table ++
    rHolder d "WHERE" where_ ++
    rReturning d returning ++
    (if OrderList.isNil orders then [] else [S " ORDER BY "] ++ rOrders d true orders) ++
    rLimit " LIMIT " limit
end

end SeaQ.Render
