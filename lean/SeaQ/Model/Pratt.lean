/-!
Layer C (expressions): the abstract expression tree the crate builds, its printer
(`binary_expr` + the `Unary` arm, parameterised by an arbitrary parenthesis-dropping
policy) and a reference precedence-climbing parser parameterised by a dialect table.

* `Ex.atom` — columns, values, constants, keywords, `Expr::cust` text (primary expressions);
* `Ex.un` — prefix `NOT`;
* `Ex.bin` — every binary operator; the ternary forms are the crate's nested-binary
  encodings (`x BETWEEN (a AND b)`, `x LIKE (p ESCAPE c)`), which the *parser* reads as the
  mixfix forms `x BETWEEN a AND b`, `x LIKE p ESCAPE c`;
* `Ex.node` — self-delimited constructs with sub-expressions (function calls, tuples, CASE,
  CAST(..), sub-selects): `open`, arguments separated by `comma`, `close`.

Operators and node kinds are numbers; the dialect table gives their binding powers.
-/
namespace SeaQ.Pratt

mutual
  inductive Ex where
    | atom (a : Nat)
    | un (e : Ex)
    | bin (l : Ex) (o : Nat) (r : Ex)
    | node (k : Nat) (args : ExList)
  inductive ExList where
    | nil
    | cons (h : Ex) (t : ExList)
end

inductive Tok where
  | atom (a : Nat)
  | op (o : Nat)
  | not
  | lp
  | rp
  | opn (k : Nat)
  | cls
  | comma
  deriving DecidableEq, Repr

/-- a dialect's operator table -/
structure Tbl where
  /-- is `o` a stand-alone infix operator of the expression grammar? -/
  infx : Nat → Bool
  /-- left binding power -/
  lbp : Nat → Nat
  /-- minimum binding power of the (first) right operand -/
  rbp : Nat → Nat
  /-- operators of this level do not chain (`a = b = c` is a syntax error) -/
  nonassoc : Nat → Bool
  /-- mixfix: the separator that introduces a second right operand (`BETWEEN .. AND ..`,
      `LIKE .. ESCAPE ..`) -/
  mix : Nat → Option Nat
  /-- is the separator mandatory (`BETWEEN`) or optional (`LIKE`)? -/
  mand : Nat → Bool
  /-- minimum binding power of the second right operand -/
  rbp2 : Nat → Nat
  /-- operand level of prefix `NOT` -/
  nbp : Nat

/-- may the printer omit the parentheses around a child?  `mixOf o = some s` records the
crate's nested-binary encodings of ternary forms (`BETWEEN`/`NOT BETWEEN` ↦ `AND`,
`LIKE`/`NOT LIKE` ↦ `ESCAPE`): the separator node is never parenthesised and its two
operands are decided by `dropML` / `dropMR` (the parent is the mixfix operator). -/
structure Policy where
  dropL : Nat → Ex → Bool
  dropR : Nat → Ex → Bool
  dropN : Ex → Bool
  mixOf : Nat → Option Nat
  dropML : Nat → Ex → Bool
  dropMR : Nat → Ex → Bool

/-- what the policy can see of a child -/
inductive Kind where
  | atom (cls : Nat)
  | un
  | bin (o : Nat)
  | node (k : Nat)
  deriving DecidableEq, Repr

/-- atoms are numbered `8 * id + cls` -/
def kindOf : Ex → Kind
  | .atom a => .atom (a % 8)
  | .un _ => .un
  | .bin _ o _ => .bin o
  | .node k _ => .node k

/-- the observed policy: which (outer, child kind, side) cells drop the parentheses -/
structure Cells where
  dropL : Nat → Kind → Bool
  dropR : Nat → Kind → Bool
  dropN : Kind → Bool
  /-- the crate's ternary encodings: `BETWEEN ↦ AND`, `LIKE ↦ ESCAPE` -/
  mixOf : Nat → Option Nat
  /-- first / second operand of a mixfix form, under the mixfix operator -/
  dropML : Nat → Kind → Bool
  dropMR : Nat → Kind → Bool

def policyOf (c : Cells) : Policy :=
  { dropL := fun o e => c.dropL o (kindOf e)
    dropR := fun o e => c.dropR o (kindOf e)
    dropN := fun e => c.dropN (kindOf e)
    mixOf := c.mixOf
    dropML := fun o e => c.dropML o (kindOf e)
    dropMR := fun o e => c.dropMR o (kindOf e) }

def wrap (b : Bool) (ts : List Tok) : List Tok := if b then ts else Tok.lp :: (ts ++ [Tok.rp])

mutual
  /-- the printer: `binary_expr`, the `Unary` arm, and delimited constructs -/
  def pr (p : Policy) : Ex → List Tok
    | .atom a => [Tok.atom a]
    | .un x => Tok.not :: wrap (p.dropN x) (pr p x)
    | .bin l o r@(.bin a s b) =>
      wrap (p.dropL o l) (pr p l) ++ Tok.op o ::
        (if p.mixOf o = some s then
           wrap (p.dropML o a) (pr p a) ++ Tok.op s :: wrap (p.dropMR o b) (pr p b)
         else wrap (p.dropR o r) (pr p r))
    | .bin l o r => wrap (p.dropL o l) (pr p l) ++ Tok.op o :: wrap (p.dropR o r) (pr p r)
    | .node k args => Tok.opn k :: prArgs p args
  def prArgs (p : Policy) : ExList → List Tok
    | .nil => [Tok.cls]
    | .cons h .nil => pr p h ++ [Tok.cls]
    | .cons h (.cons h2 t) => pr p h ++ Tok.comma :: prArgs p (.cons h2 t)
end

/-- what follows the first right operand of a mixfix operator -/
inductive MixNext where
  | plain
  | sep (rest : List Tok)
  | fail

def mixNext (t : Tbl) (o : Nat) (rest : List Tok) : MixNext :=
  match t.mix o with
  | none => .plain
  | some s =>
    match rest with
    | Tok.op s' :: rest2 => if s' = s then .sep rest2 else if t.mand o then .fail else .plain
    | _ => if t.mand o then .fail else .plain

/-- may the loop absorb operator `o` at level `m` after an operand whose last absorbed
operator level is `top`? `none` = syntax error (non-associative chain) -/
def absorb (t : Tbl) (m : Nat) (top : Option Nat) (o : Nat) : Option Bool :=
  if t.infx o && decide (m ≤ t.lbp o) then
    (if t.nonassoc o && decide (top = some (t.lbp o)) then none else some true)
  else some false

def expectRp : List Tok → Option (List Tok)
  | Tok.rp :: rest => some rest
  | _ => none

def headIsCls : List Tok → Bool
  | Tok.cls :: _ => true
  | _ => false

/-- what follows an argument of a delimited construct -/
inductive ArgSep where
  | more (rest : List Tok)
  | done (rest : List Tok)
  | bad

def argSep : List Tok → ArgSep
  | Tok.comma :: rest => .more rest
  | Tok.cls :: rest => .done rest
  | _ => .bad

mutual
  /-- parse an expression all of whose exposed operators bind at least `m` -/
  def parseE (t : Tbl) : Nat → Nat → List Tok → Option (Ex × List Tok)
    | 0, _, _ => none
    | f+1, m, ts =>
      match ts with
      | Tok.atom a :: rest => loop t f m none (.atom a) rest
      | Tok.lp :: rest =>
        match parseE t f 0 rest with
        | none => none
        | some (e, r1) =>
          match expectRp r1 with
          | none => none
          | some rest' => loop t f m none e rest'
      | Tok.not :: rest =>
        match parseE t f t.nbp rest with
        | some (e, rest') => loop t f m none (.un e) rest'
        | none => none
      | Tok.opn k :: rest =>
        match parseArgs t f rest with
        | some (args, rest') => loop t f m none (.node k args) rest'
        | none => none
      | _ => none
  /-- continue after a left operand `lhs`; `top` is the level of the operator that produced
  `lhs` in this loop (for the non-associativity check) -/
  def loop (t : Tbl) : Nat → Nat → Option Nat → Ex → List Tok → Option (Ex × List Tok)
    | 0, _, _, _, _ => none
    | f+1, m, top, lhs, ts =>
      match ts with
      | Tok.op o :: rest =>
        match absorb t m top o with
        | none => none
        | some false => some (lhs, ts)
        | some true =>
          match parseE t f (t.rbp o) rest with
          | none => none
          | some (r1, rest1) =>
            match mixNext t o rest1 with
            | .plain => loop t f m (some (t.lbp o)) (.bin lhs o r1) rest1
            | .fail => none
            | .sep rest2 =>
              match parseE t f (t.rbp2 o) rest2 with
              | none => none
              | some (r2, rest3) =>
                loop t f m (some (t.lbp o)) (.bin lhs o (.bin r1 ((t.mix o).getD 0) r2)) rest3
      | _ => some (lhs, ts)
  def parseArgs (t : Tbl) : Nat → List Tok → Option (ExList × List Tok)
    | 0, _ => none
    | f+1, ts =>
      if headIsCls ts then some (.nil, ts.tail)
      else
        match parseE t f 0 ts with
        | none => none
        | some (e, rest) =>
          match argSep rest with
          | .bad => none
          | .done rest' => some (.cons e .nil, rest')
          | .more rest' =>
            match parseArgs t f rest' with
            | none => none
            | some (es, r) => some (.cons e es, r)
end

end SeaQ.Pratt
