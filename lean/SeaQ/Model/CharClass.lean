/-!
ASCII character classes (`char::is_ascii_*`), shared by the derive model and the predicate
regenerated from `sea-query-derive` (`Gen/ValidIden`).
-/
namespace SeaQ.CharClass

def isUpper (c : Char) : Bool := 'A' ≤ c && c ≤ 'Z'
def isLower (c : Char) : Bool := 'a' ≤ c && c ≤ 'z'
def isDigit (c : Char) : Bool := '0' ≤ c && c ≤ '9'
def isAlpha (c : Char) : Bool := isUpper c || isLower c
def isAlnum (c : Char) : Bool := isUpper c || isLower c || isDigit c

end SeaQ.CharClass
