/-!
Model of `src/query/condition.rs`: `Condition` (`add`, `add_option`, `not`, `to_simple_expr`)
and `ConditionHolder::add_condition`, over abstract atoms.  The doc-hidden chain mode
(`and_or_where`) is outside the property's calls and is not modelled (mixing it with
`cond_where` panics in the crate).

Layer D: Kleene's strong three-valued logic is the SQL semantics of AND / OR / NOT.
-/
namespace SeaQ.Cond

/-- SQL truth values -/
inductive K3 | t | f | u
  deriving DecidableEq, Repr

def and3 : K3 → K3 → K3
  | .f, _ => .f
  | _, .f => .f
  | .t, .t => .t
  | _, _ => .u

def or3 : K3 → K3 → K3
  | .t, _ => .t
  | _, .t => .t
  | .f, .f => .f
  | _, _ => .u

def not3 : K3 → K3
  | .t => .f
  | .f => .t
  | .u => .u

/-- the fragment of `SimpleExpr` that `to_simple_expr` produces -/
inductive E (α : Type) where
  | atom (a : α)
  | tru
  | fls
  | and (l r : E α)
  | or (l r : E α)
  | not (e : E α)
  deriving Repr

def evalE {α} (ρ : α → K3) : E α → K3
  | .atom a => ρ a
  | .tru => .t
  | .fls => .f
  | .and l r => and3 (evalE ρ l) (evalE ρ r)
  | .or l r => or3 (evalE ρ l) (evalE ρ r)
  | .not e => not3 (evalE ρ e)

mutual
  /-- `ConditionExpression` -/
  inductive CExpr (α : Type) where
    | cond (c : Cnd α)
    | expr (e : α)
  /-- `Condition { negate, condition_type (any = true), conditions }` -/
  inductive Cnd (α : Type) where
    | mk (neg : Bool) (any : Bool) (ms : CList α)
  inductive CList (α : Type) where
    | nil
    | cons (h : CExpr α) (t : CList α)
end

namespace CList
def snoc {α} : CList α → CExpr α → CList α
  | .nil, x => .cons x .nil
  | .cons h t, x => .cons h (snoc t x)
def append {α} : CList α → CList α → CList α
  | .nil, b => b
  | .cons h t, b => .cons h (append t b)
end CList

def Cnd.neg {α} : Cnd α → Bool | .mk n _ _ => n
def Cnd.any {α} : Cnd α → Bool | .mk _ a _ => a
def Cnd.ms {α} : Cnd α → CList α | .mk _ _ m => m

/-- `Condition::all()` / `Condition::any()` -/
def Cnd.all0 {α} : Cnd α := .mk false false .nil
def Cnd.any0 {α} : Cnd α := .mk false true .nil

/-- "Skip the junction if there is only one": a non-negated group with exactly one member
is replaced by that member -/
def unwrap1 {α} : CExpr α → CExpr α
  | .cond (.mk false _ (.cons m .nil)) => m
  | x => x

/-- `Condition::add` -/
def Cnd.add {α} (c : Cnd α) (x : CExpr α) : Cnd α :=
  match c with
  | .mk n a ms => .mk n a (ms.snoc (unwrap1 x))

/-- `Condition::add_option` -/
def Cnd.addOption {α} (c : Cnd α) : Option (CExpr α) → Cnd α
  | some x => c.add x
  | none => c

/-- `Condition::not` -/
def Cnd.not {α} : Cnd α → Cnd α
  | .mk n a ms => .mk (!n) a ms

mutual
  /-- member expressions of `to_simple_expr`, in order -/
  def toEX {α} : CExpr α → E α
    | .cond c => toE c
    | .expr e => .atom e
  /-- `Condition::to_simple_expr` -/
  def toE {α} : Cnd α → E α
    | .mk n a ms =>
      let body := match ms with
        | .nil => if a then E.fls else E.tru
        | .cons h t => foldE a (toEX h) t
      if n then .not body else body
  /-- the left fold `out = out.or(e)` / `out.and(e)` -/
  def foldE {α} (a : Bool) (acc : E α) : CList α → E α
    | .nil => acc
    | .cons h t => foldE a (if a then .or acc (toEX h) else .and acc (toEX h)) t
end

/-- `ConditionHolderContents` without the chain mode -/
inductive Holder (α : Type) where
  | empty
  | cond (c : Cnd α)

/-- `ConditionHolder::add_condition` -/
def Holder.addCondition {α} : Holder α → Cnd α → Holder α
  | .empty, c => .cond c
  | .cond (.mk false false cms), .mk false false ams => .cond (.mk false false (cms.append ams))
  | .cond (.mk false false cms), c => .cond ((Cnd.mk false false cms).add (.cond c))
  | .cond cur, c => .cond ((Cnd.all0.add (.cond cur)).add (.cond c))

/-- `SimpleExpr::into_condition` = `Condition::all().add(e)` -/
def ofExpr {α} (e : α) : Cnd α := Cnd.all0.add (.expr e)

/-- what `prepare_condition` writes: nothing for `Empty`, else the keyword and the expression -/
def Holder.rendered {α} : Holder α → Option (E α)
  | .empty => none
  | .cond c => some (toE c)

/-! ## specification -/

mutual
  def evalX {α} (ρ : α → K3) : CExpr α → K3
    | .cond c => evalC ρ c
    | .expr e => ρ e
  /-- the meaning of a condition: any = OR of members (empty: false), all = AND (empty:
  true), negate = NOT -/
  def evalC {α} (ρ : α → K3) : Cnd α → K3
    | .mk n a ms => if n then not3 (evalMs ρ a ms) else evalMs ρ a ms
  def evalMs {α} (ρ : α → K3) (a : Bool) : CList α → K3
    | .nil => if a then .f else .t
    | .cons h t => if a then or3 (evalX ρ h) (evalMs ρ a t) else and3 (evalX ρ h) (evalMs ρ a t)
end

def evalH {α} (ρ : α → K3) : Holder α → K3
  | .empty => .t
  | .cond c => evalC ρ c

end SeaQ.Cond
