import SeaQ.Model.Render
import SeaQ.Gen.ColTypes
/-!
The schema-statement renderer (`TableBuilder`, `IndexBuilder`, `ForeignKeyBuilder` and their three
backend implementations): CREATE / ALTER / DROP / RENAME / TRUNCATE TABLE, CREATE / DROP INDEX,
ADD / DROP FOREIGN KEY.  Like the query renderer it produces a piece list; schema statements are
always written with the inline writer (`build` returns a `String`), so the text is `textI`.

Expressions (DEFAULT, CHECK, GENERATED, USING, partial-index WHERE) are the query model's `Ex` /
`Holder`, rendered by `rEx` / `rHolder`.  `.bad` marks a panic of the crate.
-/
namespace SeaQ.Ddl
open SeaQ.Escape SeaQ.Render SeaQ.Stmt

/-- `StringLen` -/
inductive StrLen where
  | none | n (k : Nat) | max
  deriving DecidableEq, Repr

/-- `ColumnType` -/
inductive ColType where
  | char (len : Option Nat) | string (l : StrLen) | text | blob
  | tinyInteger | smallInteger | integer | bigInteger
  | tinyUnsigned | smallUnsigned | unsigned | bigUnsigned
  | float | double | decimal (p : Option (Nat × Nat))
  | dateTime | timestamp | timestampTz | time | date | year
  | interval (fields : Option Nat) (prec : Option Nat)
  | binary (n : Nat) | varBinary (l : StrLen) | bit (n : Option Nat) | varBit (n : Nat)
  | boolean | money (p : Option (Nat × Nat)) | json | jsonBinary | uuid
  | custom (s : String) | enum (name : String) (variants : List String)
  | array (elem : ColType) | vector (n : Option Nat)
  | cidr | inet | macAddr | ltree
  deriving Repr

/-- `ColumnSpec` -/
inductive Spec where
  | null | notNull | default (e : Ex) | autoIncrement | unique | primaryKey
  | check (e : Ex) | generated (e : Ex) (stored : Bool) | extra (s : String) | comment (s : String)
  | using (e : Ex)

structure Col where
  name : String
  ty : Option ColType
  specs : List Spec

/-- `IndexColumn`; order: `some false` ASC, `some true` DESC -/
structure IdxCol where
  name : String
  pfx : Option Nat
  order : Option Bool

/-- `IndexType` -/
inductive IndexType where
  | btree | fullText | hash | custom (s : String)

/-- `IndexCreateStatement` -/
structure Index where
  name : Option String
  cols : List IdxCol
  table : Option TName
  primary : Bool
  unique : Bool
  nullsNotDistinct : Bool
  indexType : Option IndexType
  ifNotExists : Bool
  include_ : List String
  where_ : Holder

/-- `TableForeignKey`; actions 0 RESTRICT 1 CASCADE 2 SET NULL 3 NO ACTION 4 SET DEFAULT -/
structure Fk where
  name : Option String
  table : Option TName
  refTable : Option TName
  cols : List String
  refCols : List String
  onDelete : Option Nat
  onUpdate : Option Nat

/-- `TableOpt` -/
inductive TableOpt where
  | engine (s : String) | collate (s : String) | charset (s : String)

structure Create where
  table : Option TName
  cols : List Col
  options : List TableOpt
  indexes : List Index
  fks : List Fk
  ifNotExists : Bool
  checks : List Ex
  comment : Option String
  extra : Option String
  temporary : Bool

inductive AlterOpt where
  | add (c : Col) (ifNotExists : Bool)
  | modify (c : Col)
  | rename (a b : String)
  | drop (c : String)
  | addFk (f : Fk)
  | dropFk (n : String)

/-- `TypeAlterOpt`; placement: `some (false, v)` BEFORE v, `some (true, v)` AFTER v -/
inductive TypeAlterOpt where
  | add (value : String) (placement : Option (Bool × String)) (ifNotExists : Bool)
  | rename (n : String)
  | renameValue (a b : String)

inductive Stmt where
  | create (c : Create)
  | alter (table : Option TName) (opts : List AlterOpt)
  /-- options: 0 RESTRICT, 1 CASCADE -/
  | drop (tables : List TName) (ifExists : Bool) (opts : List Nat)
  | rename (a b : Option TName)
  | truncate (t : Option TName)
  | indexCreate (i : Index)
  | indexDrop (name : Option String) (table : Option TName) (ifExists : Bool)
  | fkCreate (f : Fk)
  | fkDrop (name : Option String) (table : Option TName)
  /-- Postgres `CREATE TYPE`: name parts, `AS ENUM`, values -/
  | typeCreate (name : Option (List String)) (asEnum : Bool) (values : List String)
  /-- option: 0 CASCADE, 1 RESTRICT -/
  | typeDrop (names : List (List String)) (ifExists : Bool) (opt : Option Nat)
  | typeAlter (name : Option (List String)) (opt : Option TypeAlterOpt)
  | extCreate (name : String) (schema version : Option String) (cascade ifNotExists : Bool)
  | extDrop (name : String) (ifExists cascade restrict : Bool)

/-! ## names -/

def num (n : Nat) : Piece := .raw (natText n)

/-- a table name of at most `maxParts` parts without alias (`prepare_table_ref_*_stmt`) -/
def rTable (maxParts : Nat) (n : TName) : Pieces :=
  if n.alias.isSome || n.parts.length > maxParts || n.parts.isEmpty then [.bad] else rParts true n.parts

def rOptTable (maxParts : Nat) : Option TName → Pieces
  | some n => rTable maxParts n
  | none => []

def fkParts : Backend → Nat
  | .postgres => 3
  | _ => 1

def idxParts : Backend → Nat
  | .postgres => 2
  | _ => 1

def rStrLit (s : String) : Piece := .c ⟨"String", .str s.toList⟩

/-! ## column types -/

def intervalFields : Nat → String
  | 0 => "YEAR" | 1 => "MONTH" | 2 => "DAY" | 3 => "HOUR" | 4 => "MINUTE" | 5 => "SECOND"
  | 6 => "YEAR TO MONTH" | 7 => "DAY TO HOUR" | 8 => "DAY TO MINUTE" | 9 => "DAY TO SECOND"
  | 10 => "HOUR TO MINUTE" | 11 => "HOUR TO SECOND" | _ => "MINUTE TO SECOND"

def rEnumVariants : Bool → List String → Pieces
  | _, [] => []
  | first, v :: r => (if first then [] else [S ", "]) ++ [rStrLit v] ++ rEnumVariants false r

/-! The type names are **not** written here: they are taken from the tables the translator regenerates from
`src/backend/{mysql,postgres,sqlite}/table.rs` (`Gen/ColTypes.lean`, one arm per `match column_type` arm with
the texts it can write, in source order).  What is written by hand is only *which* of an arm's texts is chosen
for which parameter shape (`idx*`), and the arms whose text is computed (`Custom`, `Enum`, `Array`,
Postgres `Interval`). -/

open SeaQ.Gen.ColTypes (Seg Arm)

/-- the Rust name of the variant -/
def variantName : ColType → String
  | .char _ => "Char" | .string _ => "String" | .text => "Text" | .blob => "Blob"
  | .tinyInteger => "TinyInteger" | .smallInteger => "SmallInteger" | .integer => "Integer" | .bigInteger => "BigInteger"
  | .tinyUnsigned => "TinyUnsigned" | .smallUnsigned => "SmallUnsigned" | .unsigned => "Unsigned" | .bigUnsigned => "BigUnsigned"
  | .float => "Float" | .double => "Double" | .decimal _ => "Decimal"
  | .dateTime => "DateTime" | .timestamp => "Timestamp" | .timestampTz => "TimestampWithTimeZone" | .time => "Time"
  | .date => "Date" | .year => "Year" | .interval _ _ => "Interval"
  | .binary _ => "Binary" | .varBinary _ => "VarBinary" | .bit _ => "Bit" | .varBit _ => "VarBit"
  | .boolean => "Boolean" | .money _ => "Money" | .json => "Json" | .jsonBinary => "JsonBinary" | .uuid => "Uuid"
  | .custom _ => "Custom" | .enum _ _ => "Enum" | .array _ => "Array" | .vector _ => "Vector"
  | .cidr => "Cidr" | .inet => "Inet" | .macAddr => "MacAddr" | .ltree => "LTree"

def findArm (table : List Arm) (v : String) : Option Arm := table.find? (fun a => a.variants.contains v)

/-- a template with its parameters written as decimal numbers -/
def segPieces (ρ : String → Nat) : List Seg → Pieces
  | [] => []
  | .lit s :: r => S s :: segPieces ρ r
  | .par n :: r => num (ρ n) :: segPieces ρ r

/-- the `i`-th text the arm of variant `v` can write; an arm that can write nothing panics (arms whose text is computed are
written by hand above and never looked up here) -/
def fromTable (table : List Arm) (v : String) (i : Nat) (ρ : String → Nat) : Pieces :=
  match findArm table v with
  | some a => if a.computed then [.bad] else (match a.templates[i]? with | some t => segPieces ρ t | none => [.bad])
  | none => [.bad]

def ρ0 : String → Nat := fun _ => 0
def ρ1 (n : Nat) : String → Nat := fun _ => n
def ρ2 (p s : Nat) : String → Nat := fun x => if x == "scale" then s else p

/-- which text of the arm is written, with the parameter values: MySQL -/
def idxMysql : ColType → Nat × (String → Nat)
  | .char (some n) | .bit (some n) | .binary n | .varBit n | .string (.n n) | .varBinary (.n n) => (0, ρ1 n)
  | .char none | .bit none | .string .none | .varBinary .none => (1, ρ0)
  | .string .max | .varBinary .max => (2, ρ0)
  | .decimal (some (p, s)) | .money (some (p, s)) => (0, ρ2 p s)
  | .decimal none | .money none => (1, ρ0)
  | _ => (0, ρ0)

def rTypeMysql : ColType → Pieces
  | .custom s => [.raw s.toList]
  | .enum _ vs => [S "ENUM("] ++ (if vs.isEmpty then [rStrLit ""] else rEnumVariants true vs) ++ [S ")"]
  | t =>
    fromTable SeaQ.Gen.ColTypes.mysql (variantName t) (idxMysql t).1 (idxMysql t).2 ++
      (if SeaQ.Gen.ColTypes.mysqlUnsigned.contains (variantName t) then [S " ", S "UNSIGNED"] else [])

/-- Postgres -/
def idxPg : ColType → Nat × (String → Nat)
  | .char (some n) | .bit (some n) | .vector (some n) | .varBit n | .string (.n n) => (0, ρ1 n)
  | .char none | .bit none | .vector none | .string .none | .string .max => (1, ρ0)
  | .decimal (some (p, s)) => (0, ρ2 p s)
  | .decimal none => (1, ρ0)
  | _ => (0, ρ0)

def rTypePg : ColType → Pieces
  | .interval f p =>
    [S "interval"] ++ (match f with | some i => [S " ", S (intervalFields i)] | none => []) ++
      (match p with | some n => [S "(", num n, S ")"] | none => [])
  | .array e => rTypePg e ++ [S "[]"]
  | .custom s => [.raw s.toList]
  | .enum name _ => [.raw name.toList]
  | t => fromTable SeaQ.Gen.ColTypes.postgres (variantName t) (idxPg t).1 (idxPg t).2

/-- SQLite (feature `option-sqlite-exact-column-type` off: the last text of the integer arms) -/
def idxSqlite (isAuto : Bool) : ColType → Nat × (String → Nat)
  | .char (some n) | .binary n | .string (.n n) | .varBinary (.n n) => (0, ρ1 n)
  | .char none | .string .none | .string .max | .varBinary .none | .varBinary .max => (1, ρ0)
  | .tinyInteger | .tinyUnsigned | .smallInteger | .smallUnsigned => (1, ρ0)
  | .bigInteger | .bigUnsigned => (if isAuto then 0 else 2, ρ0)
  | .decimal (some (p, s)) | .money (some (p, s)) => (0, ρ2 p s)
  | .decimal none | .money none => (1, ρ0)
  | _ => (0, ρ0)

def rTypeSqlite (isAuto : Bool) : ColType → Pieces
  | .custom s => [.raw s.toList]
  | .decimal (some (p, s)) =>
    if p > 16 then [.bad] else fromTable SeaQ.Gen.ColTypes.sqlite "Decimal" 0 (ρ2 p s)
  | t => fromTable SeaQ.Gen.ColTypes.sqlite (variantName t) (idxSqlite isAuto t).1 (idxSqlite isAuto t).2

/-- Postgres `prepare_column_auto_increment` -/
def rSerial (t : ColType) : Pieces := fromTable SeaQ.Gen.ColTypes.postgresSerial (variantName t) 0 ρ0

def Spec.isAuto : Spec → Bool | .autoIncrement => true | _ => false
def Spec.isPk : Spec → Bool | .primaryKey => true | _ => false
def Spec.isComment : Spec → Bool | .comment _ => true | _ => false

def hasAuto (specs : List Spec) : Bool := specs.any Spec.isAuto

/-- `prepare_column_type` as called from `prepare_column_def` -/
def rType (d : Backend) (specs : List Spec) (t : ColType) : Pieces :=
  match d with
  | .mysql => rTypeMysql t
  | .postgres => if hasAuto specs then rSerial t else rTypePg t
  | .sqlite => rTypeSqlite (hasAuto specs) t

/-! ## column specifications -/

def autoKeyword : Backend → String
  | .mysql => "AUTO_INCREMENT"
  | .postgres => ""
  | .sqlite => "AUTOINCREMENT"

def rCheck (d : Backend) (e : Ex) : Pieces := [S "CHECK ("] ++ rEx d e ++ [S ")"]

/-- `prepare_column_spec` -/
def rSpec (d : Backend) : Spec → Pieces
  | .null => [S "NULL"]
  | .notNull => [S "NOT NULL"]
  | .default e => [S "DEFAULT "] ++ rEx d e
  | .autoIncrement => [S (autoKeyword d)]
  | .unique => [S "UNIQUE"]
  | .primaryKey => [S "PRIMARY KEY"]
  | .check e => rCheck d e
  | .generated e stored => [S "GENERATED ALWAYS AS ("] ++ rEx d e ++ [S ")"] ++ [S (if stored then " STORED" else " VIRTUAL")]
  | .extra s => [.raw s.toList]
  | .comment c => if d == .mysql then [S "COMMENT ", rStrLit c] else []
  | .using _ => []

/-- the specifications `prepare_column_def` writes in place, each after a space -/
def rSpecs (d : Backend) : List Spec → Pieces
  | [] => []
  | s :: r =>
    let skip := match d with
      | .mysql => false
      | .postgres => s.isAuto || s.isComment
      | .sqlite => s.isPk || s.isAuto || s.isComment
    (if skip then [] else [S " "] ++ rSpec d s) ++ rSpecs d r

/-- `prepare_column_def` -/
def rColumnDef (d : Backend) (c : Col) : Pieces :=
  [.id c.name] ++
  (match c.ty with | some t => [S " "] ++ rType d c.specs t | none => []) ++
  rSpecs d c.specs ++
  (if d == .sqlite && c.specs.any Spec.isPk then [S " ", S "PRIMARY KEY"] else []) ++
  (if d == .sqlite && hasAuto c.specs then [S " ", S "AUTOINCREMENT"] else [])

def rColumnDefs (d : Backend) : Bool → List Col → Pieces
  | _, [] => []
  | first, c :: r => (if first then [] else [S ", "]) ++ rColumnDef d c ++ rColumnDefs d false r

/-! ## indexes -/

def rIdxCols (d : Backend) : Bool → List IdxCol → Pieces
  | _, [] => []
  | first, c :: r =>
    (if first then [] else [S ", "]) ++ [.id c.name] ++
      (match c.pfx with | some n => if d == .sqlite then [] else [S " (", num n, S ")"] | none => []) ++
      (match c.order with | some false => [S " ASC"] | some true => [S " DESC"] | none => []) ++
      rIdxCols d false r

def rIndexColumns (d : Backend) (cs : List IdxCol) : Pieces := [S "("] ++ rIdxCols d true cs ++ [S ")"]

def rIndexPrefix (d : Backend) (i : Index) : Pieces :=
  match d with
  | .mysql =>
    (if i.primary then [S "PRIMARY "] else []) ++ (if i.unique then [S "UNIQUE "] else []) ++
      (match i.indexType with | some .fullText => [S "FULLTEXT "] | _ => [])
  | .postgres => (if i.primary then [S "PRIMARY KEY "] else []) ++ (if i.unique then [S "UNIQUE "] else [])
  | .sqlite => if i.primary then [S "PRIMARY KEY "] else if i.unique then [S "UNIQUE "] else []

def rIndexType (d : Backend) : Option IndexType → Pieces
  | none => []
  | some t =>
    match d with
    | .mysql =>
      (match t with
       | .btree => [S " USING ", S "BTREE"] | .hash => [S " USING ", S "HASH"]
       | .custom s => [S " USING ", .raw s.toList] | .fullText => [])
    | .postgres =>
      (match t with
       | .btree => [S " USING ", S "BTREE"] | .hash => [S " USING ", S "HASH"]
       | .custom s => [S " USING ", .raw s.toList] | .fullText => [S " USING ", S "GIN"])
    | .sqlite => []

def isFullText : Option IndexType → Bool | some .fullText => true | _ => false

def rInclude (cs : List String) : Pieces := [S "INCLUDE ("] ++ rIdents true cs ++ [S ")"]

/-- `prepare_filter` (nothing in MySQL) -/
def rFilter (d : Backend) (h : Holder) : Pieces := if d == .mysql then [] else rHolder d "WHERE" h

/-- `prepare_table_index_expression` -/
def rTableIndex (d : Backend) (i : Index) : Pieces :=
  match d with
  | .mysql =>
    rIndexPrefix d i ++ [S "KEY "] ++ (match i.name with | some n => [.id n, S " "] | none => []) ++
      rIndexType d i.indexType ++ (if isFullText i.indexType then [S " "] else []) ++ rIndexColumns d i.cols
  | .postgres =>
    (match i.name with | some n => [S "CONSTRAINT ", .id n, S " "] | none => []) ++ rIndexPrefix d i ++
      (if i.nullsNotDistinct then [S "NULLS NOT DISTINCT "] else []) ++ rIndexColumns d i.cols ++
      (if i.include_.isEmpty then [] else [S " "] ++ rInclude i.include_)
  | .sqlite =>
    (match i.name with | some n => [S "CONSTRAINT ", .id n, S " "] | none => []) ++ rIndexPrefix d i ++
      rIndexColumns d i.cols ++ rFilter d i.where_

def rTableIndexes (d : Backend) : Bool → List Index → Pieces
  | _, [] => []
  | first, i :: r => (if first then [] else [S ", "]) ++ rTableIndex d i ++ rTableIndexes d false r

/-- `prepare_index_create_statement` -/
def rIndexCreate (d : Backend) (i : Index) : Pieces :=
  let name := match i.name with | some n => [.id n] | none => []
  let table := rOptTable (idxParts d) i.table
  match d with
  | .mysql =>
    [S "CREATE "] ++ rIndexPrefix d i ++ [S "INDEX "] ++ name ++ [S " ON "] ++ table ++ [S " "] ++
      rIndexColumns d i.cols ++ rIndexType d i.indexType
  | .postgres =>
    [S "CREATE "] ++ rIndexPrefix d i ++ [S "INDEX "] ++ (if i.ifNotExists then [S "IF NOT EXISTS "] else []) ++ name ++
      [S " ON "] ++ table ++ rIndexType d i.indexType ++ [S " "] ++ rIndexColumns d i.cols ++
      (if i.include_.isEmpty then [] else [S " "] ++ rInclude i.include_) ++
      (if i.nullsNotDistinct then [S " NULLS NOT DISTINCT"] else []) ++ rFilter d i.where_
  | .sqlite =>
    [S "CREATE "] ++ rIndexPrefix d i ++ [S "INDEX "] ++ (if i.ifNotExists then [S "IF NOT EXISTS "] else []) ++ name ++
      [S " ON "] ++ table ++ [S " "] ++ rIndexColumns d i.cols ++ rFilter d i.where_

/-- `prepare_index_drop_statement` -/
def rIndexDrop (d : Backend) (name : Option String) (table : Option TName) (ifExists : Bool) : Pieces :=
  let nm := match name with | some n => [.id n] | none => []
  match d with
  | .mysql =>
    if ifExists then [.bad] else [S "DROP INDEX "] ++ nm ++ [S " ON "] ++ rOptTable 1 table
  | .postgres =>
    [S "DROP INDEX "] ++ (if ifExists then [S "IF EXISTS "] else []) ++
      (match table with
       | none => []
       | some t =>
         if t.alias.isSome then [.bad] else
         match t.parts with
         | [_] => []
         | [s, _] => [.id s, S "."]
         | _ => [.bad]) ++ nm
  | .sqlite => [S "DROP INDEX "] ++ (if ifExists then [S "IF EXISTS "] else []) ++ nm

/-! ## foreign keys -/

def fkAction : Nat → String
  | 0 => "RESTRICT" | 1 => "CASCADE" | 2 => "SET NULL" | 3 => "NO ACTION" | _ => "SET DEFAULT"

def rFkActions (f : Fk) : Pieces :=
  (match f.onDelete with | some a => [S " ON DELETE ", S (fkAction a)] | none => []) ++
  (match f.onUpdate with | some a => [S " ON UPDATE ", S (fkAction a)] | none => [])

/-- mode: 0 Creation (inside CREATE TABLE), 1 Alter (own statement), 2 TableAlter (inside ALTER TABLE) -/
def rFkCreate (d : Backend) (mode : Nat) (f : Fk) : Pieces :=
  let cols := [S "("] ++ rIdents true f.cols ++ [S ")"]
  let refs := [S "("] ++ rIdents true f.refCols ++ [S ")"]
  match d with
  | .sqlite =>
    if mode != 0 then [.bad] else
      [S "FOREIGN KEY ("] ++ rIdents true f.cols ++ [S ")"] ++ [S " REFERENCES "] ++ rOptTable 1 f.refTable ++ [S " ("] ++
        rIdents true f.refCols ++ [S ")"] ++ rFkActions f
  | .mysql =>
    (if mode == 1 then [S "ALTER TABLE "] ++ rOptTable 1 f.table ++ [S " "] else []) ++
      (if mode != 0 then [S "ADD "] else []) ++ [S "CONSTRAINT "] ++
      (match f.name with | some n => [.id n] | none => []) ++ [S " FOREIGN KEY "] ++ cols ++
      [S " REFERENCES "] ++ rOptTable 1 f.refTable ++ [S " "] ++ refs ++ rFkActions f
  | .postgres =>
    (if mode == 1 then [S "ALTER TABLE "] ++ rOptTable 3 f.table ++ [S " "] else []) ++
      (if mode != 0 then [S "ADD "] else []) ++
      (match f.name with | some n => [S "CONSTRAINT ", .id n, S " "] | none => []) ++ [S "FOREIGN KEY ("] ++
      rIdents true f.cols ++ [S ")"] ++
      [S " REFERENCES "] ++ rOptTable 3 f.refTable ++ [S " "] ++ refs ++ rFkActions f

def rFkDrop (d : Backend) (mode : Nat) (name : Option String) (table : Option TName) : Pieces :=
  let nm := match name with | some n => [.id n] | none => []
  match d with
  | .sqlite => if mode != 0 then [.bad] else [S "DROP FOREIGN KEY "] ++ nm
  | .mysql =>
    (if mode == 1 then [S "ALTER TABLE "] ++ rOptTable 1 table ++ [S " "] else []) ++ [S "DROP FOREIGN KEY "] ++ nm
  | .postgres =>
    (if mode == 1 then [S "ALTER TABLE "] ++ rOptTable 3 table ++ [S " "] else []) ++ [S "DROP CONSTRAINT "] ++ nm

def rFks (d : Backend) : Bool → List Fk → Pieces
  | _, [] => []
  | first, f :: r => (if first then [] else [S ", "]) ++ rFkCreate d 0 f ++ rFks d false r

/-! ## CREATE TABLE -/

def rChecks (d : Backend) : Bool → List Ex → Pieces
  | _, [] => []
  | first, e :: r => (if first then [] else [S ", "]) ++ rCheck d e ++ rChecks d false r

def rTableOpts : List TableOpt → Pieces
  | [] => []
  | o :: r =>
    [S " "] ++ (match o with
      | .engine s => [S "ENGINE=", .raw s.toList]
      | .collate s => [S "COLLATE=", .raw s.toList]
      | .charset s => [S "DEFAULT CHARSET=", .raw s.toList]) ++ rTableOpts r

/-- `prepare_table_create_statement` -/
def rCreate (d : Backend) (c : Create) : Pieces :=
  let noCols := c.cols.isEmpty
  let noIdx := c.indexes.isEmpty
  let noFk := c.fks.isEmpty
  [S "CREATE "] ++ (if c.temporary then [S "TEMPORARY "] else []) ++ [S "TABLE "] ++
  (if c.ifNotExists then [S "IF NOT EXISTS "] else []) ++
  rOptTable 3 c.table ++
  [S " ( "] ++
  rColumnDefs d true c.cols ++
  rTableIndexes d noCols c.indexes ++
  rFks d (noCols && noIdx) c.fks ++
  rChecks d (noCols && noIdx && noFk) c.checks ++
  [S " )"] ++
  (match c.comment with | some t => if d == .mysql then [S " COMMENT ", rStrLit t] else [] | none => []) ++
  rTableOpts c.options ++
  (match c.extra with | some e => [S " ", .raw e.toList] | none => [])

/-! ## ALTER TABLE -/

/-- specifications that write no ALTER TABLE action of their own (Postgres `ModifyColumn`) -/
def pgWritesNothing : Spec → Bool
  | .autoIncrement | .generated _ _ | .comment _ => true
  | _ => false

def pgIsUsing : Spec → Bool
  | .using _ => true
  | _ => false

/-- the ALTER TABLE action Postgres writes for one specification of a modified column -/
def pgAction (name : String) : Spec → Pieces
  | .autoIncrement => []
  | .null => [S "ALTER COLUMN ", .id name, S " DROP NOT NULL"]
  | .notNull => [S "ALTER COLUMN ", .id name, S " SET NOT NULL"]
  | .default e => [S "ALTER COLUMN ", .id name, S " SET DEFAULT "] ++ rEx .postgres e
  | .unique => [S "ADD UNIQUE (", .id name, S ")"]
  | .primaryKey => [S "ADD PRIMARY KEY (", .id name, S ")"]
  | .check e => [S "ADD "] ++ rCheck .postgres e
  | .generated _ _ => []
  | .extra t => [.raw t.toList]
  | .comment _ => []
  | .using e => [S " USING "] ++ rEx .postgres e

/-- Postgres `ModifyColumn`: one action per specification; `first` = nothing has been written yet -/
def rPgModifySpecs (name : String) : Bool → List Spec → Pieces
  | _, [] => []
  | first, s :: r =>
    (if !first && !pgWritesNothing s && !pgIsUsing s then [S ", "] else []) ++ pgAction name s ++
      rPgModifySpecs name (first && pgWritesNothing s) r

def rAlterOpt (d : Backend) : AlterOpt → Pieces
  | .add c ine =>
    [S "ADD COLUMN "] ++ (if ine && d != .sqlite then [S "IF NOT EXISTS "] else []) ++ rColumnDef d c
  | .modify c =>
    (match d with
     | .mysql => [S "MODIFY COLUMN "] ++ rColumnDef d c
     | .postgres =>
       (match c.ty with
        | some t => [S "ALTER COLUMN ", .id c.name, S " TYPE "] ++ rTypePg t
        | none => []) ++ rPgModifySpecs c.name c.ty.isNone c.specs
     | .sqlite => [.bad])
  | .rename a b => [S "RENAME COLUMN ", .id a, S " TO ", .id b]
  | .drop c => [S "DROP COLUMN ", .id c]
  | .addFk f => if d == .sqlite then [.bad] else rFkCreate d 2 f
  | .dropFk n => if d == .sqlite then [.bad] else rFkDrop d 2 (some n) none

def rAlterOpts (d : Backend) : Bool → List AlterOpt → Pieces
  | _, [] => []
  | first, o :: r => (if first then [] else [S ", "]) ++ rAlterOpt d o ++ rAlterOpts d false r

/-- `prepare_table_alter_statement` -/
def rAlter (d : Backend) (table : Option TName) (opts : List AlterOpt) : Pieces :=
  if opts.isEmpty then [.bad]
  else if d == .sqlite && opts.length > 1 then [.bad]
  else
    [S "ALTER TABLE "] ++ (match table with | some t => rTable 3 t ++ [S " "] | none => []) ++ rAlterOpts d true opts

/-! ## the other statements -/

def rDropOpts (d : Backend) : List Nat → Pieces
  | [] => []
  | o :: r => (if d == .sqlite then [] else [S (if o == 0 then " RESTRICT" else " CASCADE")]) ++ rDropOpts d r

def rTables : Bool → List TName → Pieces
  | _, [] => []
  | first, t :: r => (if first then [] else [S ", "]) ++ rTable 3 t ++ rTables false r

/-- `prepare_value` of a string (a value written through the writer) -/
def strV (s : String) : Piece := .p ⟨"String", .str s.toList⟩

def rStrVs : Bool → List String → Pieces
  | _, [] => []
  | first, v :: r => (if first then [] else [S ", "]) ++ [strV v] ++ rStrVs false r

def rTypeRefs : Bool → List (List String) → Pieces
  | _, [] => []
  | first, n :: r => (if first then [] else [S ", "]) ++ rParts true n ++ rTypeRefs false r

/-- `prepare_alter_type_opt` -/
def rTypeAlterOpt : TypeAlterOpt → Pieces
  | .add v placement ine =>
    [S " ADD VALUE "] ++ (if ine then [S "IF NOT EXISTS "] else []) ++ [strV v] ++
      (match placement with
       | some (false, b) => [S " BEFORE ", strV b]
       | some (true, a) => [S " AFTER ", strV a]
       | none => [])
  | .rename n => [S " RENAME TO ", strV n]
  | .renameValue a b => [S " RENAME VALUE ", strV a, S " TO ", strV b]

def rStmt (d : Backend) : Stmt → Pieces
  | .create c => rCreate d c
  | .alter t opts => rAlter d t opts
  | .drop ts ie opts => [S "DROP TABLE "] ++ (if ie then [S "IF EXISTS "] else []) ++ rTables true ts ++ rDropOpts d opts
  | .rename a b =>
    (match d with
     | .mysql => [S "RENAME TABLE "] ++ rOptTable 3 a ++ [S " TO "] ++ rOptTable 3 b
     | _ => [S "ALTER TABLE "] ++ rOptTable 3 a ++ [S " RENAME TO "] ++ rOptTable 3 b)
  | .truncate t => if d == .sqlite then [.bad] else [S "TRUNCATE TABLE "] ++ rOptTable 3 t
  | .indexCreate i => rIndexCreate d i
  | .indexDrop n t ie => rIndexDrop d n t ie
  | .fkCreate f => rFkCreate d 1 f
  | .fkDrop n t => rFkDrop d 1 n t
  | .typeCreate name asEnum values =>
    [S "CREATE TYPE "] ++ (match name with | some n => rParts true n | none => []) ++
      (if asEnum then [S " AS ", S "ENUM"] else []) ++
      (if values.isEmpty then [] else [S " ("] ++ rStrVs true values ++ [S ")"])
  | .typeDrop names ie opt =>
    [S "DROP TYPE "] ++ (if ie then [S "IF EXISTS "] else []) ++ rTypeRefs true names ++
      (match opt with | some o => [S " ", S (if o == 0 then "CASCADE" else "RESTRICT")] | none => [])
  | .typeAlter name opt =>
    [S "ALTER TYPE "] ++ (match name with | some n => rParts true n | none => []) ++
      (match opt with | some o => rTypeAlterOpt o | none => [])
  | .extCreate name schema version cascade ine =>
    [S "CREATE EXTENSION "] ++ (if ine then [S "IF NOT EXISTS "] else []) ++ [.raw name.toList] ++
      (match schema with | some x => [S " WITH SCHEMA ", .raw x.toList] | none => []) ++
      (match version with | some x => [S " VERSION ", .raw x.toList] | none => []) ++
      (if cascade then [S " CASCADE"] else [])
  | .extDrop name ie cascade restrict =>
    [S "DROP EXTENSION "] ++ (if ie then [S "IF EXISTS "] else []) ++ [.raw name.toList] ++
      (if cascade then [S " CASCADE"] else []) ++ (if restrict then [S " RESTRICT"] else [])

end SeaQ.Ddl
