import SeaQ.Model.Token
import SeaQ.Model.Word
/-!
Model of custom SQL templates (`SimpleExpr::CustomWithExpr` arm of
`prepare_simple_expr_common`, `src/backend/query_builder.rs`) and of `inject_parameters`
(`src/prepare.rs`), on top of the tokenizer model.

A rendering is a list of *pieces*: literal text, or the `i`-th supplied value.  The
parameterised form writes a placeholder per value piece (running number) and collects the
values; the inline form writes the value's literal.
-/
namespace SeaQ.Template
open SeaQ.Token

inductive Piece where
  | lit (s : List Char)
  | val (i : Nat)
  deriving DecidableEq, Repr

def isMark (mark : Char) (t : Token) : Bool := t.kind == .punct && t.text == [mark]

/-- decimal parse of an unquoted token (`str::parse::<usize>`): digits only, non-empty -/
def parseNat (s : List Char) : Option Nat :=
  if s.isEmpty || !s.all isAsciiDigit then none
  else
    let n := s.foldl (fun n c => 10 * n + (c.toNat - 48)) 0
    if n ≤ 18446744073709551615 then some n else none   -- usize overflow is a parse error

/-- the `while let Some(token) = tokenizer.next()` loop; `none` = the crate panics
(index out of range / `num - 1` underflow).  `count` is the positional counter. -/
def expand (mark : Char) (numbered : Bool) (nvals : Nat) : Nat → List Token → Option (List Piece)
  | _, [] => some []
  | count, [t] =>
    if isMark mark t then (if count < nvals then some [.val count] else none)
    else some [.lit t.text]
  | count, t :: t2 :: rest =>
    if isMark mark t then
      if isMark mark t2 then (expand mark numbered nvals count rest).map (.lit [mark] :: ·)
      else if numbered && t2.kind == .unquoted then
        match parseNat t2.text with
        | some n =>
          if 0 < n && n ≤ nvals then (expand mark numbered nvals count rest).map (.val (n - 1) :: ·) else none
        | none => expand mark numbered nvals count rest
      else if count < nvals then (expand mark numbered nvals (count + 1) (t2 :: rest)).map (.val count :: ·)
      else none
    else (expand mark numbered nvals count (t2 :: rest)).map (.lit t.text :: ·)

/-! ### templates whose expansion is lexically safe whatever the values are

A decidable condition on the expansion alone (the supplied expressions play no part): every
chunk of literal text is non-empty; a value is not glued to a word character before it, nor to a
word character, a digit or a quote character after it (two values are never adjacent); a chunk
ending in `E` is not followed by a quote or a value (Postgres `E'..'`). -/

/-- what may follow a value: nothing, or text starting with a separator-like character -/
def sepHead : List Piece → Bool
  | [] => true
  | .lit (c :: _) :: _ => !Scan.isWord c && c != '\'' && c != '"' && c != '`'
  | .lit [] :: _ => false
  | .val _ :: _ => false

/-- text ending in `E` must not come to stand before a quote or a value -/
def noEQuote (s : List Char) : List Piece → Bool
  | [] => true
  | .lit (c :: _) :: _ => s.getLast? != some 'E' || c != '\''
  | .lit [] :: _ => false
  | .val _ :: _ => s.getLast? != some 'E'

/-- `pw`: does the character before continue a word? -/
def tctx : Bool → List Piece → Bool
  | _, [] => true
  | pw, .lit s :: r =>
    !s.isEmpty && noEQuote s r && tctx (Scan.lastWord pw s) r
  | pw, .val _ :: r => !pw && sepHead r && tctx true r

/-- the template `t`, used with `nvals` values, expands (no panic) to a lexically safe sequence -/
def ok (mark : Char) (numbered : Bool) (α : Char → Bool) (t : List Char) (nvals : Nat) : Bool :=
  match expand mark numbered nvals 0 (tokenize (cls α) t) with
  | some ps => tctx false ps
  | none => false

def natDigits (n : Nat) : List Char := (toString n).toList

/-- parameterised text: running placeholder per value piece; returns (text, value indices in order) -/
def renderParam (mark : Char) (numbered : Bool) : Nat → List Piece → List Char × List Nat
  | _, [] => ([], [])
  | k, .lit s :: r => let (t, v) := renderParam mark numbered k r; (s ++ t, v)
  | k, .val i :: r =>
    let (t, v) := renderParam mark numbered (k + 1) r
    ((if numbered then mark :: natDigits (k + 1) else [mark]) ++ t, i :: v)

def renderInline (lits : List (List Char)) : List Piece → List Char
  | [] => []
  | .lit s :: r => s ++ renderInline lits r
  | .val i :: r => lits.getD i [] ++ renderInline lits r

/-- `inject_parameters` on a token list: `params` are the literals of the bound values -/
def inject (mark : Char) (numbered : Bool) (params : List (List Char)) : Nat → List Token → Option (List Char)
  | _, [] => some []
  | counter, [t] =>
    if isMark mark t && !numbered then
      (if counter < params.length then some (params.getD counter []) else none)
    else some t.text
  | counter, t :: t2 :: rest =>
    if isMark mark t && !numbered then
      if counter < params.length then (inject mark numbered params (counter + 1) (t2 :: rest)).map (params.getD counter [] ++ ·)
      else none
    else if isMark mark t && numbered && t2.kind == .unquoted && (parseNat t2.text).isSome then
      match parseNat t2.text with
      | some n => if 0 < n && n ≤ params.length then (inject mark numbered params counter rest).map (params.getD (n - 1) [] ++ ·) else none
      | none => none
    else (inject mark numbered params counter (t2 :: rest)).map (t.text ++ ·)

end SeaQ.Template
