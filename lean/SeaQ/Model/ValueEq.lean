/-!
Model of `mod hashable_value` (`src/value.rs`): `impl PartialEq / Eq / Hash for Value`.

Payloads with derived equality are abstract codes (`Nat`: equal code = equal payload).
Floats are classified from their bit pattern: NaN (any payload / sign), zero (either sign),
or any other number (identified by its bits) — `OrderedFloat`'s `eq` is "both NaN or IEEE
equal" and its `hash` uses one canonical NaN, one canonical zero, raw bits otherwise
(ordered-float 4.6); IEEE equality of non-NaN values is "same bits or both zero".
JSON values are compared / hashed by their serialisation (a code for the text).
The hasher is modelled by the *key* it is fed: equal keys ⇒ equal hashes for every hasher.
-/
namespace SeaQ.ValueEq

inductive F where
  | nan (payload : Nat) (neg : Bool)
  | zero (neg : Bool)
  | num (bits : Nat)
  deriving DecidableEq, Repr

/-- `OrderedFloat(l).eq(&OrderedFloat(r))` -/
def F.eq : F → F → Bool
  | .nan _ _, .nan _ _ => true
  | .zero _, .zero _ => true
  | .num a, .num b => a == b
  | _, _ => false

/-- what `OrderedFloat::hash` feeds the hasher -/
def F.key : F → Nat × Nat
  | .nan _ _ => (0, 0)
  | .zero _ => (1, 0)
  | .num b => (2, b)

/-- `cmp_f32` / `cmp_f64` / derived `Option` equality, given the payload equality -/
def optEq {α} (eq : α → α → Bool) : Option α → Option α → Bool
  | some a, some b => eq a b
  | none, none => true
  | _, _ => false

/-- `cmp_vector`: same length and element-wise `cmp_f32` -/
def vecEq : List F → List F → Bool
  | [], [] => true
  | a :: as, b :: bs => F.eq a b && vecEq as bs
  | _, _ => false

mutual
  inductive Val where
    /-- variants compared with `l == r` and hashed with `v.hash(state)` -/
    | plain (tag : Nat) (p : Option Nat)
    /-- `Float` / `Double` -/
    | flt (tag : Nat) (p : Option F)
    | json (p : Option Nat)
    | vector (p : Option (List F))
    /-- `Array(ty, values)`: `ty_l == ty_r && values_l == values_r` (recursively this equality) -/
    | array (ty : Nat) (p : Option VList)
  inductive VList where
    | nil
    | cons (h : Val) (t : VList)
end

mutual
  /-- `impl PartialEq for Value` -/
  def valueEq : Val → Val → Bool
    | .plain t p, .plain t' p' => t == t' && optEq (· == ·) p p'
    | .flt t p, .flt t' p' => t == t' && optEq F.eq p p'
    | .json p, .json p' => optEq (· == ·) p p'
    | .vector p, .vector p' => optEq vecEq p p'
    | .array ty none, .array ty' none => ty == ty'
    | .array ty (some l), .array ty' (some l') => ty == ty' && listEq l l'
    | _, _ => false
  def listEq : VList → VList → Bool
    | .nil, .nil => true
    | .cons a as, .cons b bs => valueEq a b && listEq as bs
    | _, _ => false
end

/-- the key fed to the hasher (the discriminant first, then the payload's key) -/
inductive HK where
  | plain (tag : Nat) (p : Option Nat)
  | flt (tag : Nat) (k : Option (Nat × Nat))
  | json (p : Option Nat)
  | vector (k : Option (List (Nat × Nat)))
  | array (ty : Nat) (k : Option (List HK))

mutual
  /-- `impl Hash for Value` -/
  def hashKey : Val → HK
    | .plain t p => .plain t p
    | .flt t p => .flt t (p.map F.key)
    | .json p => .json p
    | .vector p => .vector (p.map (·.map F.key))
    | .array ty none => .array ty none
    | .array ty (some l) => .array ty (some (listKey l))
  def listKey : VList → List HK
    | .nil => []
    | .cons h t => hashKey h :: listKey t
end

/-- which variant (constructor and tag) a value belongs to -/
def variantOf : Val → Nat × Nat
  | .plain t _ => (0, t)
  | .flt t _ => (1, t)
  | .json _ => (2, 0)
  | .vector _ => (3, 0)
  | .array _ _ => (4, 0)

end SeaQ.ValueEq
