import SeaQ.Model.Ident
import SeaQ.Model.CharClass
import SeaQ.Gen.ValidIden
/-!
Model of the naming logic of `sea-query-derive` (`derive(Iden)`, `derive(IdenStatic)`,
`#[enum_def]`): heck 0.4's `to_snake_case` / `to_pascal_case` on ASCII identifiers (the crate
depends on heck with `default-features = false`, so words are split at every
non-alphanumeric character), `must_be_valid_iden` (translated from the source: `Gen/ValidIden`), and the choice between a variant's
rename / method / default name.  Non-ASCII identifiers are outside the model.
-/
namespace SeaQ.Derive

export SeaQ.CharClass (isUpper isLower isDigit isAlpha isAlnum)
def toLower (c : Char) : Char := if isUpper c then Char.ofNat (c.toNat + 32) else c
def toUpper (c : Char) : Char := if isLower c then Char.ofNat (c.toNat - 32) else c

inductive Mode | boundary | lower | upper
  deriving DecidableEq

/-- heck's `transform` on one alphanumeric word: the sub-words it emits.  `cur` is
`word[init..i]`, `mode` the case of the last cased character. -/
def splitWord : List Char → Mode → List Char → List (List Char)
  | _, _, [] => []
  | cur, _, [c] => [cur ++ [c]]
  | cur, mode, c :: n :: rest =>
    let nextMode := if isLower c then Mode.lower else if isUpper c then Mode.upper else mode
    if nextMode == Mode.lower && isUpper n then (cur ++ [c]) :: splitWord [] Mode.boundary (n :: rest)
    else if mode == Mode.upper && isUpper c && isLower n then cur :: splitWord [c] Mode.boundary (n :: rest)
    else splitWord (cur ++ [c]) nextMode (n :: rest)

/-- split at every non-alphanumeric character (`get_iterator` without the unicode feature) -/
def splitAlnum : List Char → List Char → List (List Char)
  | cur, [] => [cur]
  | cur, c :: rest => if isAlnum c then splitAlnum (cur ++ [c]) rest else cur :: splitAlnum [] rest

def words (s : List Char) : List (List Char) :=
  (splitAlnum [] s).flatMap (fun w => splitWord [] Mode.boundary w)

/-- `to_snake_case` -/
def snake (s : List Char) : List Char :=
  ([' '] : List Char).drop 1 ++ (List.intercalate ['_'] ((words s).map (·.map toLower)))

def capitalize : List Char → List Char
  | [] => []
  | c :: r => toUpper c :: r.map toLower

/-- `to_pascal_case` -/
def pascal (s : List Char) : List Char := ((words s).map capitalize).flatten

/-- `must_be_valid_iden`: regenerated from the macro crate's source on every run -/
abbrev mustBeValidIden (n : List Char) : Bool := SeaQ.Gen.ValidIden.mustBeValidIden n

inductive Attr where
  | rename (name : List Char)
  | method (result : List Char)   -- the string the named method returns at run time
  | none

/-- the identifier a variant spells (`write_variant_name` / `table_or_snake_case`) -/
def variantName (ident : List Char) (attr : Attr) (tableName : List Char) : List Char :=
  match attr with
  | .rename r => r
  | .method m => m
  | .none => if ident == "Table".toList then tableName else snake ident

/-- the container's table name (`get_table_name`) -/
def tableName (typeIdent : List Char) (containerRename : Option (List Char)) : List Char :=
  match containerRename with
  | some r => r
  | none => snake typeIdent

/-- per-variant part of the fast-path predicate (`IdenVariant::must_be_valid_iden`);
`flatten` variants and `method` variants never qualify -/
def variantValid (ident : List Char) (attr : Attr) (flatten : Bool) (tbl : List Char) : Bool :=
  if flatten then false
  else match attr with
    | .rename r => mustBeValidIden r
    | .method _ => false
    | .none => mustBeValidIden (if ident == "Table".toList then tbl else snake ident)

end SeaQ.Derive
