import SeaQ.Model.Escape
/-!
Layer A (literals).  Two things live here:

* the model of the crate's literal writers — `write_string_quoted` (default and the
  Postgres override with its `E` switch), `write_bytes` (default `x'..'`, Postgres
  `'\x..'`) and the `Value::Char` arm of `value_to_string_common`;
* the *reference lexers* of the three engines for string and binary literals.  These are
  the trusted specification (transcribed from the MySQL 8.0, PostgreSQL 16 and SQLite
  manuals; SQLite's is validated against the real engine by the check).
-/
namespace SeaQ.Literal
open SeaQ.Escape

def q : Char := '\''
def bsl : Char := '\\'

/-! ## the crate's writers -/

/-- `QueryBuilder::write_string_quoted` (MySQL/SQLite: default; Postgres: override) -/
def writeStr (b : Backend) (s : List Char) : List Char :=
  match b with
  | .postgres =>
    let e := escape b s
    if e.contains bsl then 'E' :: q :: (e ++ [q]) else q :: (e ++ [q])
  | _ => q :: (escape b s ++ [q])

def hexDigitU (n : Nat) : Char := if n < 10 then Char.ofNat (48 + n) else Char.ofNat (55 + n)

/-- `{b:02X}` for every byte -/
def hexU (bs : List UInt8) : List Char :=
  bs.flatMap (fun b => [hexDigitU (b.toNat / 16), hexDigitU (b.toNat % 16)])

/-- `QueryBuilder::write_bytes` -/
def writeBytes (b : Backend) (bs : List UInt8) : List Char :=
  match b with
  | .postgres => q :: bsl :: 'x' :: (hexU bs ++ [q])
  | _ => 'x' :: q :: (hexU bs ++ [q])

/-- `Value::Char(Some(v))` arm: `write_string_quoted(v.encode_utf8(..))` -/
def charLit (b : Backend) (c : Char) : List Char := writeStr b [c]

/-! ## engine lexers (specification) -/

def push (p : List Char) : Option (List Char × List Char) → Option (List Char × List Char)
  | some (a, r) => some (p ++ a, r)
  | none => none

/-- body of `'…'` without backslash escapes (SQLite; Postgres standard-conforming strings):
only `''` is special.  Returns (decoded content, text after the closing quote). -/
def bodyPlain : List Char → Option (List Char × List Char)
  | [] => none
  | [c] => if c == q then some ([], []) else none
  | c :: n :: r =>
    if c == q then (if n == q then push [q] (bodyPlain r) else some ([], n :: r))
    else push [c] (bodyPlain (n :: r))

def escStep (f : Char → Option (List Char)) (n : Char)
    (k : Option (List Char × List Char)) : Option (List Char × List Char) :=
  match f n with
  | some d => push d k
  | none => none

/-- body of `'…'` with backslash escapes decoded by `f` (MySQL default mode; Postgres `E'…'`) -/
def bodyEsc (f : Char → Option (List Char)) : List Char → Option (List Char × List Char)
  | [] => none
  | [c] => if c == q then some ([], []) else none
  | c :: n :: r =>
    if c == q then (if n == q then push [q] (bodyEsc f r) else some ([], n :: r))
    else if c == bsl then escStep f n (bodyEsc f r)
    else push [c] (bodyEsc f (n :: r))

/-- MySQL 8.0 Reference Manual §9.1.1, Table 9.1 (sql_mode without NO_BACKSLASH_ESCAPES) -/
def mysqlEsc (n : Char) : Option (List Char) :=
  if n == '0' then some [Char.ofNat 0]
  else if n == 'b' then some [Char.ofNat 8]
  else if n == 'n' then some [Char.ofNat 10]
  else if n == 'r' then some [Char.ofNat 13]
  else if n == 't' then some [Char.ofNat 9]
  else if n == 'Z' then some [Char.ofNat 26]
  else if n == '%' then some [bsl, '%']
  else if n == '_' then some [bsl, '_']
  else some [n]

/-- PostgreSQL 16 §4.1.2.2 (`E'…'`).  Octal / hex / Unicode escapes span several characters
and are not modelled: `none` (the crate emits such a sequence only for NUL, `\0`, which
Postgres cannot represent anyway). -/
def pgEsc (n : Char) : Option (List Char) :=
  if n == 'b' then some [Char.ofNat 8]
  else if n == 'f' then some [Char.ofNat 12]
  else if n == 'n' then some [Char.ofNat 10]
  else if n == 'r' then some [Char.ofNat 13]
  else if n == 't' then some [Char.ofNat 9]
  else if ('0' ≤ n && n ≤ '7') || n == 'x' || n == 'u' || n == 'U' then none
  else some [n]

/-- the engine's string-literal lexer at the start of `s` -/
def lexStr (b : Backend) (s : List Char) : Option (List Char × List Char) :=
  match b, s with
  | .mysql, c :: r => if c == q then bodyEsc mysqlEsc r else none
  | .sqlite, c :: r => if c == q then bodyPlain r else none
  | .postgres, c :: r =>
    if c == q then bodyPlain r
    else match r with
      | d :: r' => if c == 'E' && d == q then bodyEsc pgEsc r' else none
      | [] => none
  | _, [] => none

def hexVal (c : Char) : Option Nat :=
  if '0' ≤ c && c ≤ '9' then some (c.toNat - 48)
  else if 'A' ≤ c && c ≤ 'F' then some (c.toNat - 55)
  else if 'a' ≤ c && c ≤ 'f' then some (c.toNat - 87)
  else none

def pushB (b : UInt8) : Option (List UInt8 × List Char) → Option (List UInt8 × List Char)
  | some (a, r) => some (b :: a, r)
  | none => none

def hexPair (a b : Char) (k : Option (List UInt8 × List Char)) : Option (List UInt8 × List Char) :=
  match hexVal a, hexVal b with
  | some x, some y => pushB (UInt8.ofNat (x * 16 + y)) k
  | _, _ => none

/-- hex digits up to the closing quote -/
def hexBody : List Char → Option (List UInt8 × List Char)
  | [] => none
  | [c] => if c == q then some ([], []) else none
  | c :: n :: r => if c == q then some ([], n :: r) else hexPair c n (hexBody r)

/-- the engine's binary-literal reading: MySQL/SQLite `x'…'`; Postgres: a standard string
whose content is the bytea hex input format `\x…` -/
def lexBytes (b : Backend) (s : List Char) : Option (List UInt8 × List Char) :=
  match b, s with
  | .postgres, c :: d :: e :: r => if c == q && d == bsl && e == 'x' then hexBody r else none
  | .postgres, _ => none
  | _, c :: d :: r => if (c == 'x' || c == 'X') && d == q then hexBody r else none
  | _, _ => none

end SeaQ.Literal
