import SeaQ.Gen.Token
/-!
Model of `src/token.rs` (`Tokenizer`, `Token`).

The character classes come from `SeaQ.Gen.Token` (regenerated from the source);
the Unicode `is_alphabetic` predicate is a parameter `α`, so every theorem holds
for any such predicate.  Control flow (`space`, `unquoted`, `quoted`,
`punctuation`, `next`, `unquote`) is modelled by hand and tied to the crate by
the correspondence run.
-/
namespace SeaQ.Token
open SeaQ.Gen.Token

structure Cls where
  space : Char → Bool
  alnum : Char → Bool
  ident : Char → Bool
  dstart : Char → Bool
  /-- `dend start c` -/
  dend : Char → Char → Bool
  /-- `desc start c`: `c` doubles the delimiter of `start` -/
  desc : Char → Char → Bool
  esc : Char → Bool

def isAsciiDigit (c : Char) : Bool := 48 ≤ c.toNat && c.toNat ≤ 57

def lookupPair (tbl : List (Char × Char)) (start c : Char) : Bool :=
  tbl.any (fun p => p.1 == start && p.2 == c)

/-- the crate's classes, for an arbitrary alphabetic predicate `α` -/
def cls (α : Char → Bool) : Cls where
  space c := spaceChars.contains c
  alnum c := α c || isAsciiDigit c
  ident c := identChars.contains c
  dstart c := delimStartChars.contains c
  dend s c := lookupPair delimEndFor s c
  desc s c := lookupPair stringEscapeFor s c
  esc c := c == escapeChar

inductive Kind | quoted | unquoted | space | punct
  deriving DecidableEq, Repr

structure Token where
  kind : Kind
  text : List Char
  deriving DecidableEq, Repr

def span (p : Char → Bool) : List Char → List Char × List Char
  | [] => ([], [])
  | c :: rest => if p c then ((span p rest).1.cons c, (span p rest).2) else ([], c :: rest)

/-- `Tokenizer::unquoted` -/
def unquoted (k : Cls) : List Char → List Char × List Char
  | [] => ([], [])
  | c :: rest =>
    if k.alnum c then
      ((span (fun c => k.alnum c || k.ident c) rest).1.cons c, (span (fun c => k.alnum c || k.ident c) rest).2)
    else ([], c :: rest)

def cons1 (c : Char) (r : List Char × List Char) : List Char × List Char := (c :: r.1, r.2)
def cons2 (c n : Char) (r : List Char × List Char) : List Char × List Char := (c :: n :: r.1, r.2)

/-- the loop of `Tokenizer::quoted` after the opening delimiter; `esc` is the `escape` flag -/
def qbody (k : Cls) (start : Char) : Bool → List Char → List Char × List Char
  | _, [] => ([], [])
  | _, [c] => ([c], [])
  | esc, c :: n :: rest =>
    if !esc && k.dend start c then
      (if k.desc start n then cons2 c n (qbody k start false rest) else ([c], n :: rest))
    else cons1 c (qbody k start (!esc && k.esc c) (n :: rest))

/-- `Tokenizer::quoted` -/
def quoted (k : Cls) : List Char → List Char × List Char
  | [] => ([], [])
  | c :: rest => if k.dstart c then cons1 c (qbody k c false rest) else ([], c :: rest)

/-- `Tokenizer::punctuation` -/
def punct (k : Cls) : List Char → List Char × List Char
  | [] => ([], [])
  | c :: rest => if !k.space c && !k.alnum c then ([c], rest) else ([], c :: rest)

/-- one step of `Iterator::next` -/
def next (k : Cls) (s : List Char) : Option (Token × List Char) :=
  if (span k.space s).1 ≠ [] then some (⟨.space, (span k.space s).1⟩, (span k.space s).2)
  else if (unquoted k s).1 ≠ [] then some (⟨.unquoted, (unquoted k s).1⟩, (unquoted k s).2)
  else if (quoted k s).1 ≠ [] then some (⟨.quoted, (quoted k s).1⟩, (quoted k s).2)
  else if (punct k s).1 ≠ [] then some (⟨.punct, (punct k s).1⟩, (punct k s).2)
  else none

/-- iterate `next`; the fuel is only a device for structural recursion: `fuel_done`
    (Props/C16) proves `|s|` always suffices. Returns tokens and the unconsumed rest. -/
def tokenizeFuel (k : Cls) : Nat → List Char → List Token × List Char
  | 0, s => ([], s)
  | f+1, s => match next k s with
    | none => ([], s)
    | some (t, r) => ((tokenizeFuel k f r).1.cons t, (tokenizeFuel k f r).2)

def tokenize (k : Cls) (s : List Char) : List Token := (tokenizeFuel k s.length s).1

/-- the loop of `Tokenizer::unquote` after the opening delimiter -/
def uqbody (k : Cls) (start : Char) : Bool → List Char → List Char
  | _, [] => []
  | esc, [c] => if !esc && k.dend start c then [] else [c]
  | esc, c :: n :: rest =>
    if !esc && k.dend start c then
      (if k.desc start n then c :: uqbody k start false rest else [])
    else c :: uqbody k start (!esc && k.esc c) (n :: rest)

/-- `Tokenizer::unquote` (private) on the token text -/
def unquoteText (k : Cls) : List Char → List Char
  | [] => []
  | c :: rest => if k.dstart c then uqbody k c false rest else []

/-- `Token::unquote` -/
def Token.unquote (k : Cls) (t : Token) : Option (List Char) :=
  if t.kind = .quoted then some (unquoteText k t.text) else none

end SeaQ.Token
