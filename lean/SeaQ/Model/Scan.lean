import SeaQ.Model.Render
/-!
Engine-side reading of a whole statement text (specification): the text is cut into
*items* — a quoted identifier or string literal read as a unit by the engine's lexer for
that form (`Ident.lexIdent`, `Literal.lexStr`: the lexers C03 / C04 are stated against), a
parameter placeholder outside quoted text, or a single other character.  Anything outside
this fragment (a second quoting style, `?1`, `a$1`, `$x`) makes the reading fail, so a
statement about `segment … = some items` also says the text stays inside the fragment.

`substitute` is the property's "parameterised form with each placeholder replaced by the
literal of the corresponding value".
-/
namespace SeaQ.Scan
open SeaQ.Escape SeaQ.Render

inductive Item where
  | ch (c : Char)
  /-- a quoted region, with its exact text -/
  | q (raw : List Char)
  /-- a placeholder: bare (`none`) or numbered -/
  | ph (k : Option Nat)
  deriving DecidableEq, Repr

def parseNat (s : List Char) : Nat := s.foldl (fun a c => 10 * a + (c.toNat - 48)) 0

/-- the part of `s` that was consumed when `rest` is what is left -/
def consumed (s rest : List Char) : List Char := s.take (s.length - rest.length)

/-- quote-like characters this specification does not read in the given dialect
(MySQL `"` strings, SQLite's alternative identifier quotes, the Postgres operator character `` ` ``) -/
def otherQuote (d : Backend) (c : Char) : Bool :=
  match d with
  | .mysql => c == '"'
  | .postgres => c == '`'
  | .sqlite => c == '`' || c == '['

/-- `pw`: the previous character continues a word -/
def seg (d : Backend) : Nat → Bool → List Char → Option (List Item)
  | _, _, [] => some []
  | 0, _, _ :: _ => none
  | f + 1, pw, c :: r =>
    if c == '\'' || (d == .postgres && !pw && c == 'E' && r.head? == some '\'') then
      match Literal.lexStr d (c :: r) with
      | some (_, rest) => (seg d f false rest).map (Item.q (consumed (c :: r) rest) :: ·)
      | none => none
    else if c == (Ident.quoteOf d).1 then
      match Ident.lexIdent (Ident.quoteOf d) (c :: r) with
      | some (_, rest) => (seg d f false rest).map (Item.q (consumed (c :: r) rest) :: ·)
      | none => none
    else if otherQuote d c then none
    else if c == mark d then
      if numbered d then
        let ds := r.takeWhile isDigit
        let rest := r.dropWhile isDigit
        if pw || ds.isEmpty || (rest.head?.map isWord).getD false then none
        else (seg d f true rest).map (Item.ph (some (parseNat ds)) :: ·)
      else
        if (r.head?.map isDigit).getD false then none
        else (seg d f false r).map (Item.ph none :: ·)
    else (seg d f (isWord c) r).map (Item.ch c :: ·)

def segment (d : Backend) (s : List Char) : Option (List Item) := seg d s.length false s

def placeholders : List Item → List (Option Nat)
  | [] => []
  | .ph k :: r => k :: placeholders r
  | _ :: r => placeholders r

/-- re-print, a bare placeholder replaced by the literal of its position in reading order, a numbered one by the literal it names -/
def printSubst (lits : List (List Char)) : Nat → List Item → List Char
  | _, [] => []
  | i, .ch c :: r => c :: printSubst lits i r
  | i, .q raw :: r => raw ++ printSubst lits i r
  | i, .ph none :: r => lits.getD i [] ++ printSubst lits (i + 1) r
  | i, .ph (some k) :: r => lits.getD (k - 1) [] ++ printSubst lits (i + 1) r

def substitute (d : Backend) (sql : List Char) (lits : List (List Char)) : Option (List Char) :=
  (segment d sql).map (printSubst lits 0)

/-- what C01 asks of the placeholder list for `n` values -/
def expectedMarks (d : Backend) (n : Nat) : List (Option Nat) :=
  if numbered d then (List.range n).map (fun i => some (i + 1)) else List.replicate n none

end SeaQ.Scan

namespace SeaQ.Scan
open SeaQ.Escape SeaQ.Render SeaQ.Stmt

/-! ## the adjacency / content discipline (`Safe`) and the piece-wise reading -/

/-- a character that is read as itself wherever it stands -/
def plainChar (d : Backend) (c : Char) : Bool :=
  c != '\'' && c != (Ident.quoteOf d).1 && !otherQuote d c && c != mark d

/-- plain text `t` followed by `nxt`: a Postgres `E` must not come to stand before a quote -/
def plainFollow (d : Backend) (nxt : Option Char) (t : List Char) : Bool :=
  !(d == .postgres && nxt == some '\'' && t.getLast? == some 'E')

/-- characters a string literal of the dialect cannot carry (C03) -/
def excludedChars : Backend → List Char
  | .postgres => [Char.ofNat 0]
  | _ => []

/-- one value literal, written after a character that continues a word iff `pw` and before `nxt` -/
def litOK (d : Backend) (pw : Bool) (nxt : Option Char) (v : Val) : Bool :=
  match v.v with
  | .num t => t.toList.all (plainChar d) && plainFollow d nxt t.toList
  | .str s => s.all (fun c => !(excludedChars d).contains c) && nxt != some '\'' &&
      (!((Literal.writeStr d s).head? == some 'E') || !pw)
  | .quoted t => t.toList.all (fun c => c != '\'' && c != '\\') && nxt != some '\''
  | .bytes _ => nxt != some '\''
  | _ => plainFollow d nxt (litText d v)

def litEndWord (pw : Bool) (v : Val) : Bool :=
  match v.v with
  | .num t => lastWord pw t.toList
  | .str _ | .quoted _ | .bytes _ => false
  | _ => true

def okPiece (d : Backend) (inl : Bool) (pw : Bool) (nxt : Option Char) : Piece → Bool
  | .s t => t.toList.all (plainChar d) && plainFollow d nxt t.toList
  | .raw t => t.all (plainChar d) && plainFollow d nxt t
  | .id _ => nxt != some (Ident.quoteOf d).2
  | .c v => litOK d pw nxt v
  | .p v =>
    if inl then litOK d pw nxt v
    else if numbered d then !pw && !(nxt.map isWord).getD false
    else !(nxt.map isDigit).getD false
  | .bad => false

def endWord (d : Backend) (inl : Bool) (pw : Bool) : Piece → Bool
  | .s t => lastWord pw t.toList
  | .raw t => lastWord pw t
  | .id _ => false
  | .c v => litEndWord pw v
  | .p v => if inl then litEndWord pw v else numbered d
  | .bad => pw

/-- text of one piece: `inl` = the inline writer, otherwise `SqlWriterValues` after `k` parameters -/
def pieceTxt (d : Backend) (inl : Bool) (k : Nat) : Piece → List Char
  | .s t => t.toList
  | .id n => identText d n
  | .raw t => t
  | .c v => litText d v
  | .p v => if inl then litText d v else placeholder d (k + 1)
  | .bad => []

def nextK (inl : Bool) (k : Nat) : Piece → Nat
  | .p _ => if inl then k else k + 1
  | _ => k

def txt (d : Backend) (inl : Bool) : Nat → Pieces → List Char
  | _, [] => []
  | k, p :: r => pieceTxt d inl k p ++ txt d inl (nextK inl k p) r

/-- **Safe**: every piece is well-formed where it stands -/
def safe (d : Backend) (inl : Bool) : Bool → Nat → Pieces → Bool
  | _, _, [] => true
  | pw, k, p :: r =>
    okPiece d inl pw (txt d inl (nextK inl k p) r).head? p && safe d inl (endWord d inl pw p) (nextK inl k p) r

def litItems (d : Backend) (v : Val) : List Item :=
  match v.v with
  | .str s => [.q (Literal.writeStr d s)]
  | .quoted t => [.q ('\'' :: (t.toList ++ ['\'']))]
  | .bytes b =>
    match d with
    | .postgres => [.q (Literal.writeBytes d b)]
    | _ => [.ch 'x', .q ('\'' :: (Literal.hexU b ++ ['\'']))]
  | _ => (litText d v).map .ch

def pieceItems (d : Backend) (inl : Bool) (k : Nat) : Piece → List Item
  | .s t => t.toList.map .ch
  | .raw t => t.map .ch
  | .id n => [.q (identText d n)]
  | .c v => litItems d v
  | .p v => if inl then litItems d v else [.ph (if numbered d then some (k + 1) else none)]
  | .bad => []

/-- the piece-wise reading of a piece list -/
def items (d : Backend) (inl : Bool) : Nat → Pieces → List Item
  | _, [] => []
  | k, p :: r => pieceItems d inl k p ++ items d inl (nextK inl k p) r

/-! ## the per-piece content condition (hypothesis of `render_safe`) -/

/-- what a value must satisfy on its own to be written inline -/
def valOK (d : Backend) (v : Val) : Bool :=
  match v.v with
  | .num t => t.toList.all (plainChar d)
  | .str s => s.all (fun c => !(excludedChars d).contains c)
  | .quoted t => t.toList.all (fun c => c != '\'' && c != '\\')
  | _ => true

/-- what a piece must satisfy on its own: renderer text without quote characters or marks, no
panic marker, representable values, and caller-supplied raw text only when it is non-empty plain
string (which also excludes the template expansions of `CustomWithExpr`: they start with an empty
raw piece) -/
def contentOK (d : Backend) (inl : Bool) : Piece → Bool
  | .s t => t.toList.all (plainChar d)
  | .raw t => !t.isEmpty && t.all (plainChar d)
  | .id _ => true
  | .c v => valOK d v
  | .p v => !inl || valOK d v
  | .bad => false

end SeaQ.Scan
