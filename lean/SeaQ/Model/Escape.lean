import SeaQ.Gen.Escape
/-!
Model of `EscapeBuilder::{escape_string, unescape_string}` (`src/backend/mod.rs`) and the
SQLite overrides.  The replacement tables are generated; `str::replace` is modelled for
one- and two-character patterns (leftmost, non-overlapping), which is all the crate uses
(`chainSupported` is checked on the generated tables).
-/
namespace SeaQ.Escape
open SeaQ.Gen.Escape

inductive Backend | mysql | postgres | sqlite
  deriving DecidableEq, Repr

/-- `str::replace(c, rep)` for a one-character pattern -/
def replaceChar (c : Char) (rep : List Char) (s : List Char) : List Char :=
  s.flatMap (fun x => if x == c then rep else [x])

/-- `str::replace("ab", rep)` for a two-character pattern: leftmost, non-overlapping -/
def replace2 (a b : Char) (rep : List Char) : List Char → List Char
  | [] => []
  | [x] => [x]
  | x :: y :: rest =>
    if x == a && y == b then rep ++ replace2 a b rep rest
    else x :: replace2 a b rep (y :: rest)

def applyReplace (pr : List Char × List Char) (s : List Char) : List Char :=
  match pr.1 with
  | [c] => replaceChar c pr.2 s
  | [a, b] => replace2 a b pr.2 s
  | _ => s

def chainSupported (ch : Chain) : Bool := ch.all (fun pr => pr.1.length == 1 || pr.1.length == 2)

/-- a chain of `.replace` calls, applied left to right -/
def applyChain (ch : Chain) (s : List Char) : List Char := ch.foldl (fun acc pr => applyReplace pr acc) s

def lookupArm (arms : List (Char × Char)) (c : Char) : Char :=
  match arms.find? (fun p => p.1 == c) with
  | some p => p.2
  | none => c

/-- the loop of the default `unescape_string`; the flag is `escape` -/
def unescGo (e : Char) (arms : List (Char × Char)) : Bool → List Char → List Char
  | _, [] => []
  | false, c :: r => if c == e then unescGo e arms true r else c :: unescGo e arms false r
  | true, c :: r => lookupArm arms c :: unescGo e arms false r

def defaultUnescape (s : List Char) : List Char := unescGo defaultUnescapeEsc defaultUnescapeArms false s

def escapeOverride : Backend → Option Chain
  | .mysql => mysqlEscapeOverride
  | .postgres => postgresEscapeOverride
  | .sqlite => sqliteEscapeOverride

def unescapeOverride : Backend → Option Chain
  | .mysql => mysqlUnescapeOverride
  | .postgres => postgresUnescapeOverride
  | .sqlite => sqliteUnescapeOverride

/-- `B.escape_string(s)` -/
def escape (b : Backend) (s : List Char) : List Char :=
  match escapeOverride b with
  | some ch => applyChain ch s
  | none => applyChain defaultEscape s

/-- `B.unescape_string(s)` -/
def unescape (b : Backend) (s : List Char) : List Char :=
  match unescapeOverride b with
  | some ch => applyChain ch s
  | none => defaultUnescape s

end SeaQ.Escape
