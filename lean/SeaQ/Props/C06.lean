import SeaQ.Lemmas.Condition
/-!
# C06 — WHERE / HAVING / ON mean the conjunction of the conditions that were added

`evalC` is the specification (any = OR, empty any = FALSE; all = AND, empty all = TRUE;
negate = NOT) under Kleene's three-valued logic; `ρ` assigns a truth value (TRUE / FALSE /
UNKNOWN) to every atom.  The theorems cover every condition tree (unbounded depth and width)
and every history of condition-adding calls.  All of `and_where`, `and_where_option`,
`cond_where`, `and_having`, `cond_having`, join conditions, CASE WHEN, ON CONFLICT and
partial-index filters go through the two functions modelled here (`Condition::add`,
`ConditionHolder::add_condition`) and `Condition::to_simple_expr`.
-/
namespace SeaQ.Props.C06
open SeaQ.Cond

mutual
  theorem eval_toEX {α} (ρ : α → K3) : ∀ x : CExpr α, evalE ρ (toEX x) = evalX ρ x
    | .cond c => by simp only [toEX, evalX]; exact eval_toE ρ c
    | .expr e => by simp [toEX, evalX, evalE]
  /-- the expression built by `to_simple_expr` means what the condition means -/
  theorem eval_toE {α} (ρ : α → K3) : ∀ c : Cnd α, evalE ρ (toE c) = evalC ρ c
    | .mk n a .nil => by
      cases n <;> cases a <;> simp [toE, evalE, evalC_mk, evalMs_nil, unit]
    | .mk n a (.cons h t) => by
      have hf := eval_foldE ρ a (toEX h) t
      rw [eval_toEX ρ h] at hf
      cases n <;> simp [toE, evalE, evalC_mk, evalMs_cons, hf]
  theorem eval_foldE {α} (ρ : α → K3) (a : Bool) (acc : E α) :
      ∀ t : CList α, evalE ρ (foldE a acc t) = op a (evalE ρ acc) (evalMs ρ a t)
    | .nil => by simp [foldE, evalMs_nil]
    | .cons h t => by
      simp only [foldE]
      rw [eval_foldE ρ a _ t, evalE_op, eval_toEX ρ h, evalMs_cons, op_assoc]
end

/-- `Condition::add` appends one member to the junction, and keeps the group's kind and
negation (the single-member unwrapping is meaning-preserving) -/
theorem eval_add {α} (ρ : α → K3) (c : Cnd α) (x : CExpr α) :
    (c.add x).neg = c.neg ∧ (c.add x).any = c.any ∧
    evalMs ρ c.any (c.add x).ms = op c.any (evalMs ρ c.any c.ms) (evalX ρ x) := by
  cases c with
  | mk n a ms => simp [Cnd.add, Cnd.neg, Cnd.any, Cnd.ms, evalMs_snoc, evalX_unwrap1]

theorem eval_addOption_none {α} (c : Cnd α) : c.addOption none = c := rfl

theorem eval_not {α} (ρ : α → K3) (c : Cnd α) : evalC ρ c.not = not3 (evalC ρ c) := by
  cases c with
  | mk n a ms => cases n <;> simp [Cnd.not, evalC_mk] <;> cases evalMs ρ a ms <;> rfl

theorem eval_ofExpr {α} (ρ : α → K3) (e : α) : evalC ρ (ofExpr e) = ρ e := by
  simp [ofExpr, Cnd.all0, Cnd.add, unwrap1, CList.snoc, evalC_mk, evalMs_cons, evalMs_nil, evalX, op, unit]

/-- one `cond_where` / `and_where` / `cond_having` … call conjoins the new condition -/
theorem eval_addCondition {α} (ρ : α → K3) (h : Holder α) (c : Cnd α) :
    evalH ρ (h.addCondition c) = and3 (evalH ρ h) (evalC ρ c) := by
  cases h with
  | empty => simp [Holder.addCondition, evalH]
  | cond cur =>
    obtain ⟨cn, ca, cms⟩ := cur
    obtain ⟨n, a, ams⟩ := c
    cases cn <;> cases ca <;> cases n <;> cases a <;>
      simp [Holder.addCondition, evalH, evalC_mk, Cnd.add, Cnd.all0, CList.snoc, evalMs_snoc,
        evalMs_append, evalMs_cons, evalMs_nil, evalX_unwrap1, evalX, op, unit]

/-- **C06.** For every history of condition-adding calls, the holder means the AND of the
supplied conditions. -/
theorem C06_history {α} (ρ : α → K3) (cs : List (Cnd α)) :
    evalH ρ (cs.foldl Holder.addCondition .empty) = (cs.map (evalC ρ)).foldl and3 .t := by
  suffices h : ∀ (h0 : Holder α), evalH ρ (cs.foldl Holder.addCondition h0)
      = (cs.map (evalC ρ)).foldl and3 (evalH ρ h0) from h .empty
  induction cs with
  | nil => intro h0; rfl
  | cons c cs ih => intro h0; simp [List.foldl, ih, eval_addCondition]

/-- … and what is rendered (`to_simple_expr` of the held condition) means the same. -/
theorem C06_rendered_meaning {α} (ρ : α → K3) (cs : List (Cnd α)) (e : E α)
    (h : (cs.foldl Holder.addCondition .empty).rendered = some e) :
    evalE ρ e = (cs.map (evalC ρ)).foldl and3 .t := by
  rw [← C06_history]
  cases hh : cs.foldl Holder.addCondition Holder.empty with
  | empty => rw [hh] at h; cases h
  | cond c =>
    rw [hh] at h
    simp only [Holder.rendered, Option.some.injEq] at h
    subst h
    simp [evalH, eval_toE]

theorem addCondition_ne_empty {α} (h : Holder α) (c : Cnd α) : h.addCondition c ≠ .empty := by
  cases h with
  | empty => simp [Holder.addCondition]
  | cond cur =>
    obtain ⟨cn, ca, cms⟩ := cur
    obtain ⟨n, a, ams⟩ := c
    cases cn <;> cases ca <;> cases n <;> cases a <;> simp [Holder.addCondition]

/-- A statement that was given no condition renders no predicate at all, and only such a
statement does. -/
theorem C06_none {α} (cs : List (Cnd α)) :
    (cs.foldl Holder.addCondition .empty).rendered = none ↔ cs = [] := by
  constructor
  · intro h
    cases cs with
    | nil => rfl
    | cons c cs =>
      exfalso
      have : ∀ (l : List (Cnd α)) (h0 : Holder α), h0 ≠ .empty →
          l.foldl Holder.addCondition h0 ≠ .empty := by
        intro l
        induction l with
        | nil => intro h0 hne; exact hne
        | cons d l ih => intro h0 _; exact ih _ (addCondition_ne_empty h0 d)
      have hne := this cs (Holder.empty.addCondition c) (addCondition_ne_empty _ _)
      simp only [List.foldl] at h
      cases hh : cs.foldl Holder.addCondition (Holder.empty.addCondition c) with
      | empty => exact hne hh
      | cond d => rw [hh] at h; simp [Holder.rendered] at h
  · intro h; subst h; rfl

/-! Non-vacuity: a history with an empty `any`, a negated single-member group and a nested
group; the rendered expression and its meaning under one assignment. -/
def exHist : List (Cnd Nat) :=
  [Cnd.any0, ofExpr 0, (Cnd.all0.add (.expr 1)).not, (Cnd.any0.add (.expr 2)).add (.cond (ofExpr 3))]
example : evalH (fun n => if n = 2 then K3.u else K3.t) (exHist.foldl Holder.addCondition .empty) = K3.f := by
  decide
example : (exHist.foldl Holder.addCondition .empty).rendered ≠ none := by decide

end SeaQ.Props.C06
