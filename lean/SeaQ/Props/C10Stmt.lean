import SeaQ.Model.Render
import SeaQ.Props.C10
/-!
# C10 at the statement renderer

`Props/C10` is about the row bookkeeping of `InsertStatement` over abstract cells and about which
branch `prepare_insert_statement` takes (`Insert.shape`).  The statement model renders an INSERT
directly (`Render.rInsert`).  This file joins the two:

* `absI` forgets what the cells are (a row becomes its length);
* `rInsert_branch` — the body the statement model writes between `INTO t` and the upsert clause is
  chosen exactly as `Insert.shape` says: the default-rows form iff the abstract state is a bare
  `or_default_values`, otherwise the parenthesised column list followed by the source;
* `rect_statement` — the invariant of C10 (`Insert.Rect`, proved for every call history without a
  re-declared column count) says at the statement level that every VALUES tuple written has exactly as
  many expressions as the column list has names.
-/
namespace SeaQ.Props.C10Stmt
open SeaQ.Escape SeaQ.Stmt SeaQ.Render

def rowLens : RowList → List Nat
  | .nil => []
  | .cons row r => row.length :: rowLens r

def selLen : SelList → Nat
  | .nil => 0
  | .cons _ _ _ r => selLen r + 1

def selectsOf : Select → SelList
  | .mk _ _ selects _ _ _ _ _ _ _ _ _ _ _ _ _ _ => selects

/-- the abstract state of C10's model: cells are forgotten, lengths kept -/
def absI : Stmt.Insert → SeaQ.Insert.Ins
  | .mk _ _ _ columns source _ _ dv =>
    { cols := List.replicate columns.length 0
      src := match source with
        | .none => .none
        | .values rows => .values ((rowLens rows).map (fun n => List.replicate n 0))
        | .select s => .select (List.replicate (selLen (selectsOf s)) 0)
      dflt := dv }

/-- **the branch of the renderer is the branch of C10's model** -/
theorem rInsert_branch (d : Backend) (w : Option WithClause) (rep : Bool) (t : Option TRef) (cols : List String)
    (src : InsSource) (oc : Option OnConflict) (ret : Returning) (dv : Option Nat) :
    rInsert d (.mk w rep t cols src oc ret dv) =
      rOptWith d w ++ [S (if rep then "REPLACE" else "INSERT")] ++ rOptTRef d " INTO " t ++
      (match SeaQ.Insert.shape (absI (.mk w rep t cols src oc ret dv)) with
       | .defaultValues n =>
         [S " "] ++ (if d == .sqlite then [S "DEFAULT VALUES"] else [S "VALUES "] ++ rDefaultRows d true n)
       | _ => [S " ", S "("] ++ rIdents true cols ++ [S ")"] ++ rSource d src) ++
      rOptOnConflict d oc ++ rReturning d ret := by
  cases dv <;> cases cols <;> cases src <;>
    simp [rInsert, absI, SeaQ.Insert.shape, InsSource.isNone, List.replicate]

/-- **rectangular statements**: under C10's invariant every VALUES tuple has as many expressions as there are
column names -/
theorem rect_statement (w : Option WithClause) (rep : Bool) (t : Option TRef) (cols : List String)
    (rows : RowList) (oc : Option OnConflict) (ret : Returning) (dv : Option Nat)
    (h : SeaQ.Insert.Rect (absI (.mk w rep t cols (.values rows) oc ret dv))) :
    ∀ n ∈ rowLens rows, n = cols.length := by
  intro n hn
  have hm : List.replicate n 0 ∈ (absI (.mk w rep t cols (.values rows) oc ret dv)).rows := by
    simp only [absI, SeaQ.Insert.Ins.rows, List.mem_map]
    exact ⟨n, hn, rfl⟩
  have := h (List.replicate n 0) hm
  simpa [absI] using this

/-- what is written for a row list: one parenthesised tuple per row -/
theorem rRows_shape (d : Backend) : ∀ (first : Bool) (rows : RowList),
    rRows d first rows = match rows with
      | .nil => []
      | .cons row r => (if first then [] else [S ", "]) ++ [S "("] ++ rExList d true row ++ [S ")"] ++ rRows d false r
  | _, .nil => by simp [rRows]
  | first, .cons row r => by simp [rRows]

end SeaQ.Props.C10Stmt
