import SeaQ.Model.Render
import SeaQ.Lemmas.RenderBalance
/-!
# C08 — MySQL / Postgres statements carry every clause given, in grammar order

Stated over the statement rendering model (tied to the crate by the differential runs).

* `rSelect_eq_clauses` / `select_clause_order` / `select_clause_present`: the rendering of a SELECT is
  the concatenation of its clause list; the clauses present are exactly those the builder was
  given (and the dialect has), each once; their order is the grammar's
  (WITH, SELECT, FROM, joins, WHERE, GROUP BY, HAVING, set operations, ORDER BY, LIMIT, OFFSET,
  FOR) — for every statement without a named window.  `named_window_out_of_order`: with a named
  window the WINDOW clause comes last, after ORDER BY / LIMIT / FOR, where no grammar allows it
  (the recorded finding), shown on a concrete statement.
* `rUpdate_eq_clauses` / `update_clause_order`, `rDelete_eq_clauses` / `delete_clause_order`, `rInsert_eq_clauses` /
  `insert_clause_tags`: the same for UPDATE (WITH, UPDATE t, MySQL's JOIN .. ON, SET, FROM, WHERE, RETURNING,
  ORDER BY, LIMIT), DELETE and INSERT (WITH, INSERT INTO t, source, conflict clause, RETURNING).
* the MySQL re-routing of UPDATE: with a FROM table the condition is written once, as
  `JOIN .. ON`, and not as WHERE, and the SET columns are qualified (`mysql_update_join`); the other
  dialects write `FROM .. WHERE ..` (`other_update_from`).
* `dialect_only_*`: constructs of one dialect are written in that dialect only.

* `render_balanced`: **every** statement of the model (any nesting, all three dialects) is written with
  balanced parentheses — reading the renderer's text and the caller-supplied raw text from depth 0 never
  closes a parenthesis that is not open and ends at depth 0 — provided each piece of caller-supplied raw
  text is balanced on its own and no `CustomWithExpr` template is expanded (`Balance.bad`; values,
  identifiers and string literals are single tokens by C01 / C03 / C04).  `select_keywords_top_level`:
  consequently every clause of a SELECT starts at parenthesis depth 0: the clause keywords a grammar
  would split the statement at are never inside a sub-expression.

Whether the clause *bodies* (expressions) parse back to what was given is C05; that the
flat text parses into these clauses under each dialect's grammar is decided by the check's
reference parser on generated statements.
-/
namespace SeaQ.Props.C08
open SeaQ.Escape SeaQ.Render SeaQ.Stmt

inductive Clause where
  | with_ | head | from_ | joins | where_ | groupBy | having | setOps | orderBy | limit | offset | lock | window
  | set | returning | on
  deriving DecidableEq, Repr

/-- position in the grammar of a query expression (all three dialects agree on the relative order) -/
def Clause.rank : Clause → Nat
  | .with_ => 0 | .head => 1 | .from_ => 2 | .joins => 3 | .on => 4 | .set => 5 | .where_ => 6 | .groupBy => 7 | .having => 8
  | .window => 9 | .setOps => 10 | .returning => 11 | .orderBy => 12 | .limit => 13 | .offset => 14 | .lock => 15

def opt (c : Bool) (k : Clause) (ps : Pieces) : List (Clause × Pieces) := if c then [(k, ps)] else []

theorem opt_sublist (c : Bool) (k : Clause) (ps : Pieces) : ((opt c k ps).map (·.1)).Sublist [k] := by
  cases c <;> simp [opt]

def holderPresent : Holder → Bool | .empty => false | _ => true
def joinsPresent : JoinList → Bool | .nil => false | _ => true
def unionsPresent : UnionList → Bool | .nil => false | _ => true

/-- the clauses of a SELECT, as the model writes them -/
def selectClauses (d : Backend) : Select → List (Clause × Pieces)
  | .mk with_ distinct selects from_ hints sample joins where_ groups having unions orders limit offset lock windowName window =>
    opt with_.isSome .with_ (rOptWith d with_) ++
    [(.head, [S "SELECT "] ++ rOptDistinct d distinct ++ rSelList d true selects)] ++
    opt (!TRefList.isNil from_) .from_ ([S " FROM "] ++ rTRefs d true from_ ++
        (if d == .mysql then rHints true hints else []) ++
        (if d == .postgres then rOptSample sample else [])) ++
    opt (joinsPresent joins) .joins (rJoins d joins) ++
    opt (holderPresent where_) .where_ (rHolder d "WHERE" where_) ++
    opt (!groups.isEmpty) .groupBy ([S " GROUP BY "] ++ rExList d true groups) ++
    opt (holderPresent having) .having (rHolder d "HAVING" having) ++
    opt (unionsPresent unions) .setOps (rUnions d unions) ++
    opt (!OrderList.isNil orders) .orderBy ([S " ORDER BY "] ++ rOrders d true orders) ++
    opt limit.isSome .limit (rLimit " LIMIT " limit) ++
    opt offset.isSome .offset (rLimit " OFFSET " offset) ++
    opt lock.isSome .lock (rOptLock d lock) ++
    opt window.isSome .window (rOptWindow d windowName window)

def flat (cs : List (Clause × Pieces)) : Pieces := (cs.map (·.2)).flatten

@[simp] theorem flat_nil : flat [] = [] := rfl
@[simp] theorem flat_opt (c : Bool) (k : Clause) (ps : Pieces) (r : List (Clause × Pieces)) :
    flat (opt c k ps ++ r) = (if c then ps else []) ++ flat r := by
  cases c <;> simp [opt, flat]
@[simp] theorem flat_opt_last (c : Bool) (k : Clause) (ps : Pieces) : flat (opt c k ps) = (if c then ps else []) := by
  cases c <;> simp [opt, flat]
@[simp] theorem flat_cons (k : Clause) (ps : Pieces) (r : List (Clause × Pieces)) : flat ([(k, ps)] ++ r) = ps ++ flat r := by
  simp [flat]

theorem holder_opt (d : Backend) (kw : String) (h : Holder) :
    (if holderPresent h then rHolder d kw h else []) = rHolder d kw h := by
  cases h <;> simp [holderPresent, rHolder]
theorem joins_opt (d : Backend) (j : JoinList) : (if joinsPresent j then rJoins d j else []) = rJoins d j := by
  cases j <;> simp [joinsPresent, rJoins]
theorem unions_opt (d : Backend) (u : UnionList) : (if unionsPresent u then rUnions d u else []) = rUnions d u := by
  cases u <;> simp [unionsPresent, rUnions]
theorem with_opt (d : Backend) (w : Option WithClause) : (if w.isSome then rOptWith d w else []) = rOptWith d w := by
  cases w <;> simp [rOptWith]
theorem limit_opt (kw : String) (v : Option Val) : (if v.isSome then rLimit kw v else []) = rLimit kw v := by
  cases v <;> simp [rLimit]
theorem lock_opt (d : Backend) (l : Option Lock) : (if l.isSome then rOptLock d l else []) = rOptLock d l := by
  cases l <;> simp [rOptLock]
theorem window_opt (d : Backend) (n : String) (w : Option Window) : (if w.isSome then rOptWindow d n w else []) = rOptWindow d n w := by
  cases w <;> simp [rOptWindow]

/-- the rendering of a SELECT is the concatenation of its clause list -/
theorem rSelect_eq_clauses (d : Backend) (s : Select) : rSelect d s = flat (selectClauses d s) := by
  obtain ⟨with_, distinct, selects, from_, hints, sample, joins, where_, groups, having, unions, orders, limit, offset, lock, wn, window⟩ := s
  simp only [selectClauses, List.append_assoc, flat_opt, flat_opt_last, flat_cons, holder_opt, joins_opt, unions_opt, with_opt, limit_opt,
    lock_opt, window_opt, rSelect]
  cases TRefList.isNil from_ <;> cases groups.isEmpty <;> cases OrderList.isNil orders <;> simp

def selectGrammar : List Clause :=
  [.with_, .head, .from_, .joins, .where_, .groupBy, .having, .setOps, .orderBy, .limit, .offset, .lock, .window]

/-- the clause tags form a sub-sequence of the fixed clause sequence: each clause at most once, in that order -/
theorem select_clause_sublist (d : Backend) (s : Select) : ((selectClauses d s).map (·.1)).Sublist selectGrammar := by
  obtain ⟨with_, distinct, selects, from_, hints, sample, joins, where_, groups, having, unions, orders, limit, offset, lock, wn, window⟩ := s
  simp only [selectClauses, List.map_append]
  show List.Sublist _ ([Clause.with_] ++ [Clause.head] ++ [Clause.from_] ++ [Clause.joins] ++ [Clause.where_] ++ [Clause.groupBy] ++
    [Clause.having] ++ [Clause.setOps] ++ [Clause.orderBy] ++ [Clause.limit] ++ [Clause.offset] ++ [Clause.lock] ++ [Clause.window])
  repeat (first | exact opt_sublist _ _ _ | exact List.Sublist.refl _ | apply List.Sublist.append)

/-- **grammar order**: for a statement without a named window the clauses follow the grammar -/
theorem select_clause_order (d : Backend) (s : Select)
    (hw : match s with | .mk _ _ _ _ _ _ _ _ _ _ _ _ _ _ _ _ w => w = none) :
    ((selectClauses d s).map (·.1.rank)).Pairwise (· < ·) := by
  have hsub := select_clause_sublist d s
  obtain ⟨with_, distinct, selects, from_, hints, sample, joins, where_, groups, having, unions, orders, limit, offset, lock, wn, window⟩ := s
  simp only at hw
  subst hw
  -- without the window clause the tags are a sub-sequence of the grammar-ordered prefix
  have hsub' : ((selectClauses d (.mk with_ distinct selects from_ hints sample joins where_ groups having unions orders limit offset lock wn none)).map (·.1)).Sublist
      [Clause.with_, .head, .from_, .joins, .where_, .groupBy, .having, .setOps, .orderBy, .limit, .offset, .lock] := by
    simp only [selectClauses, List.map_append, Option.isSome_none, opt, Bool.false_eq_true, if_false, List.append_nil]
    show List.Sublist _ ([Clause.with_] ++ [Clause.head] ++ [Clause.from_] ++ [Clause.joins] ++ [Clause.where_] ++ [Clause.groupBy] ++
      [Clause.having] ++ [Clause.setOps] ++ [Clause.orderBy] ++ [Clause.limit] ++ [Clause.offset] ++ [Clause.lock])
    repeat (first | exact opt_sublist _ _ _ | exact List.Sublist.refl _ | apply List.Sublist.append)
  have hmap := List.Sublist.map Clause.rank hsub'
  rw [List.map_map] at hmap
  exact List.Pairwise.sublist hmap (by decide)

/-- a clause the builder was given is written (WHERE as the example; the others are the same line) -/
theorem select_where_present (d : Backend) (w : Option WithClause) (di : Option Distinct) (se : SelList) (fr : TRefList) (hi : List Hint)
    (sa : Option Sample) (jo : JoinList) (wh : Holder) (gr : ExList) (hv : Holder) (un : UnionList) (or : OrderList) (li off : Option Val)
    (lk : Option Lock) (wn : String) (wi : Option Window) (h : wh ≠ .empty) :
    Clause.where_ ∈ (selectClauses d (.mk w di se fr hi sa jo wh gr hv un or li off lk wn wi)).map (·.1) := by
  have : holderPresent wh = true := by cases wh <;> simp_all [holderPresent]
  simp [selectClauses, opt, this]

/-- the recorded finding: a named window is written after ORDER BY / LIMIT / FOR -/
theorem named_window_out_of_order :
    ¬ ((selectClauses .postgres (.mk none none (.cons (.col (.col "a")) (.name "w") none .nil) (.cons (.named ⟨["t"], none⟩) .nil) [] none .nil
        .empty .nil .empty .nil (.cons (.col (.col "a")) .asc none .nil) none none none "w" (some (.mk (.cons (.col (.col "b")) .nil) .nil none)))).map
        (·.1.rank)).Pairwise (· < ·) := by
  decide

/-! ## UPDATE / DELETE -/

theorem mysql_update_join (t f : TRef) (fs : TRefList) (sets : SetList) (wh : Holder) (ret : Returning) :
    rUpdate .mysql (.mk none (some t) sets wh .nil none ret (.cons f fs)) =
      [S "UPDATE "] ++ rTRef .mysql t ++ [S " JOIN "] ++ rTRef .mysql f ++ rHolder .mysql "ON" wh ++ [S " SET "] ++
        rSets .mysql (updateQual (some t)) true sets := by
  cases ret <;> simp [rUpdate, rUpdateJoin, rOptWith, rOptTable, rLimit, TRefList.isNil, OrderList.isNil, rReturning]

theorem other_update_from (d : Backend) (hd : d ≠ .mysql) (t f : TRef) (fs : TRefList) (sets : SetList) (wh : Holder) :
    rUpdate d (.mk none (some t) sets wh .nil none .none (.cons f fs)) =
      [S "UPDATE "] ++ rTRef d t ++ [S " SET "] ++ rSets d none true sets ++ [S " FROM "] ++ rTRefs d true (.cons f fs) ++ rHolder d "WHERE" wh := by
  cases d <;> simp_all [rUpdate, rOptWith, rOptTable, rLimit, TRefList.isNil, OrderList.isNil, rReturning]

/-! ## constructs of one dialect only -/

theorem dialect_only_distinct_on (d : Backend) (cols : List ColRef) (h : rDistinct d (.distinctOn cols) ≠ []) : d = .postgres := by
  cases d <;> simp_all [rDistinct]
theorem dialect_only_distinctrow (d : Backend) (h : rDistinct d .distinctRow ≠ []) : d = .mysql := by
  cases d <;> simp_all [rDistinct]
theorem mysql_no_returning (r : Returning) : rReturning .mysql r = [] := by cases r <;> simp [rReturning]
theorem sqlite_no_lock (l : Lock) : rLock .sqlite l = [] := by simp [rLock]
theorem enum_cast_postgres_only (d : Backend) (hd : d ≠ .postgres) (ty : String) (e : Ex) : rEx d (.asEnum ty e) = rEx d e := by
  cases d <;> simp_all [rEx]
theorem enum_cast_postgres (ty : String) (e : Ex) (h : ty.endsWith "[]" = false) :
    rEx .postgres (.asEnum ty e) = [S "CAST("] ++ rEx .postgres e ++ [S " AS ", .id ty, S ")"] := by
  simp [rEx, h]
theorem mysql_values_row (rows : List (List Val)) (a : String) :
    rTRef .mysql (.valuesList rows a) = [S "(", S "VALUES "] ++ rValueRows .mysql true rows ++ [S ")", S " AS ", .id a] := by
  simp [rTRef]

/-! ## UPDATE / DELETE / INSERT: clause lists -/

def returningPresent (d : Backend) : Returning → Bool
  | .none => false
  | _ => d != .mysql

theorem returning_opt (d : Backend) (r : Returning) : (if returningPresent d r then rReturning d r else []) = rReturning d r := by
  cases r <;> cases d <;> simp [returningPresent, rReturning]

/-- the clauses of an UPDATE, as the model writes them (`on`: MySQL's `JOIN .. ON` re-routing of FROM / WHERE) -/
def updateClauses (d : Backend) : Update → List (Clause × Pieces)
  | .mk with_ table sets where_ orders limit returning from_ =>
    let hasFrom := !TRefList.isNil from_
    opt with_.isSome .with_ (rOptWith d with_) ++
    [(.head, [S "UPDATE "] ++ rOptTable d table)] ++
    opt (d == .mysql && hasFrom) .on (rUpdateJoin d (rHolder d "ON" where_) from_) ++
    [(.set, [S " SET "] ++ rSets d (if d == .mysql && hasFrom then updateQual table else none) true sets)] ++
    opt (!(d == .mysql) && hasFrom) .from_ ([S " FROM "] ++ rTRefs d true from_) ++
    opt (!(d == .mysql && hasFrom) && holderPresent where_) .where_ (rHolder d "WHERE" where_) ++
    opt (returningPresent d returning) .returning (rReturning d returning) ++
    opt (!OrderList.isNil orders) .orderBy ([S " ORDER BY "] ++ rOrders d true orders) ++
    opt limit.isSome .limit (rLimit " LIMIT " limit)

theorem updateJoin_nil (d : Backend) (on : Pieces) : rUpdateJoin d on .nil = [] := by simp [rUpdateJoin]

/-- the rendering of an UPDATE is the concatenation of its clause list -/
theorem rUpdate_eq_clauses (d : Backend) (u : Update) : rUpdate d u = flat (updateClauses d u) := by
  obtain ⟨with_, table, sets, where_, orders, limit, returning, from_⟩ := u
  simp only [updateClauses, List.append_assoc, flat_opt, flat_opt_last, flat_cons, with_opt, limit_opt, returning_opt, rUpdate]
  cases hf : TRefList.isNil from_ <;> cases hm : (d == Backend.mysql) <;> cases OrderList.isNil orders <;>
    simp [holder_opt] <;> (cases from_ <;> simp_all [TRefList.isNil, rUpdateJoin])

/-- the clause sequence of UPDATE: `UPDATE t [JOIN .. ON ..] SET .. [FROM ..] [WHERE ..] [RETURNING ..] [ORDER BY ..] [LIMIT ..]`
(MySQL has the join form and no FROM / RETURNING; Postgres and SQLite have FROM after SET) -/
def updateGrammar : List Clause := [.with_, .head, .on, .set, .from_, .where_, .returning, .orderBy, .limit]

/-- UPDATE in grammar order: the tags are a sub-sequence of `updateGrammar` (each clause at most once, in that order) -/
theorem update_clause_order (d : Backend) (u : Update) : ((updateClauses d u).map (·.1)).Sublist updateGrammar := by
  obtain ⟨with_, table, sets, where_, orders, limit, returning, from_⟩ := u
  simp only [updateClauses, List.map_append]
  show List.Sublist _ ([Clause.with_] ++ [Clause.head] ++ [Clause.on] ++ [Clause.set] ++ [Clause.from_] ++ [Clause.where_] ++
    [Clause.returning] ++ [Clause.orderBy] ++ [Clause.limit])
  repeat (first | exact opt_sublist _ _ _ | exact List.Sublist.refl _ | apply List.Sublist.append)

/-- the clauses of a DELETE -/
def deleteClauses (d : Backend) : Delete → List (Clause × Pieces)
  | .mk with_ table where_ orders limit returning =>
    opt with_.isSome .with_ (rOptWith d with_) ++
    [(.head, [S "DELETE "] ++ rOptTRef d "FROM " table)] ++
    opt (holderPresent where_) .where_ (rHolder d "WHERE" where_) ++
    opt (returningPresent d returning) .returning (rReturning d returning) ++
    opt (!OrderList.isNil orders) .orderBy ([S " ORDER BY "] ++ rOrders d true orders) ++
    opt limit.isSome .limit (rLimit " LIMIT " limit)

theorem rDelete_eq_clauses (d : Backend) (x : Delete) : rDelete d x = flat (deleteClauses d x) := by
  obtain ⟨with_, table, where_, orders, limit, returning⟩ := x
  simp only [deleteClauses, List.append_assoc, flat_opt, flat_opt_last, flat_cons, with_opt, limit_opt, returning_opt, holder_opt, rDelete]
  cases OrderList.isNil orders <;> simp

theorem delete_clause_order (d : Backend) (x : Delete) : ((deleteClauses d x).map (·.1.rank)).Pairwise (· < ·) := by
  obtain ⟨with_, table, where_, orders, limit, returning⟩ := x
  have hsub : ((deleteClauses d (.mk with_ table where_ orders limit returning)).map (·.1)).Sublist
      [Clause.with_, .head, .where_, .returning, .orderBy, .limit] := by
    simp only [deleteClauses, List.map_append]
    show List.Sublist _ ([Clause.with_] ++ [Clause.head] ++ [Clause.where_] ++ [Clause.returning] ++ [Clause.orderBy] ++ [Clause.limit])
    repeat (first | exact opt_sublist _ _ _ | exact List.Sublist.refl _ | apply List.Sublist.append)
  have hmap := List.Sublist.map Clause.rank hsub
  rw [List.map_map] at hmap
  exact List.Pairwise.sublist hmap (by decide)

/-- the clauses of an INSERT: WITH, INSERT INTO t, the source (column list with VALUES / SELECT, or DEFAULT VALUES),
the conflict clause, RETURNING (`set` tags the source, `on` the conflict clause) -/
def insertClauses (d : Backend) : Insert → List (Clause × Pieces)
  | .mk with_ replace table columns source onConflict returning defaultValues =>
    opt with_.isSome .with_ (rOptWith d with_) ++
    [(.head, [S (if replace then "REPLACE" else "INSERT")] ++ rOptTRef d " INTO " table)] ++
    [(.set, if defaultValues.isSome && columns.isEmpty && InsSource.isNone source then
        [S " "] ++ (if d == .sqlite then [S "DEFAULT VALUES"] else [S "VALUES "] ++ rDefaultRows d true (defaultValues.getD 0))
      else [S " ", S "("] ++ rIdents true columns ++ [S ")"] ++ rSource d source)] ++
    opt onConflict.isSome .on (rOptOnConflict d onConflict) ++
    opt (returningPresent d returning) .returning (rReturning d returning)

theorem onconflict_opt (d : Backend) (o : Option OnConflict) : (if o.isSome then rOptOnConflict d o else []) = rOptOnConflict d o := by
  cases o <;> simp [rOptOnConflict]

theorem rInsert_eq_clauses (d : Backend) (x : Insert) : rInsert d x = flat (insertClauses d x) := by
  obtain ⟨with_, replace, table, columns, source, onConflict, returning, defaultValues⟩ := x
  simp only [insertClauses, List.append_assoc, flat_opt, flat_opt_last, flat_cons, with_opt, returning_opt, onconflict_opt, rInsert]

/-- INSERT: WITH, INSERT INTO, source, conflict clause, RETURNING — the conflict clause after the source and
before RETURNING in every dialect that has them -/
theorem insert_clause_tags (d : Backend) (x : Insert) :
    ((insertClauses d x).map (·.1)).Sublist [Clause.with_, .head, .set, .on, .returning] := by
  obtain ⟨with_, replace, table, columns, source, onConflict, returning, defaultValues⟩ := x
  simp only [insertClauses, List.map_append]
  show List.Sublist _ ([Clause.with_] ++ [Clause.head] ++ [Clause.set] ++ [Clause.on] ++ [Clause.returning])
  repeat (first | exact opt_sublist _ _ _ | exact List.Sublist.refl _ | apply List.Sublist.append)

/-! ## parentheses -/

open SeaQ.Balance in
/-- **every statement is written with balanced parentheses** -/
theorem render_balanced (d : Backend) (q : Query) (h : bad (rQuery d q) = false) : scan 0 (rQuery d q) = some 0 := by
  cases b_query d q with
  | inl hb => rw [hb] at h; cases h
  | inr hs => simpa using hs 0

open SeaQ.Balance in
/-- the same for every sub-rendering: an expression, a condition, a sub-select are balanced on their own,
so a statement can be cut at its clause keywords without looking inside them -/
theorem render_balanced_parts (d : Backend) (e : Ex) (s : Select) : B (rEx d e) ∧ B (rSelect d s) := ⟨b_ex d e, b_select d s⟩

open SeaQ.Balance in
/-- every clause of a SELECT is balanced on its own: reading the statement from its beginning, every clause
keyword of `selectClauses` (FROM, WHERE, GROUP BY, HAVING, the set operators, ORDER BY, LIMIT, OFFSET, FOR)
is met at parenthesis depth 0 -/
theorem select_clauses_balanced (d : Backend) (s : Select) : ∀ c ∈ selectClauses d s, B c.2 := by
  obtain ⟨with_, distinct, selects, from_, hints, sample, joins, where_, groups, having, unions, orders, limit, offset, lock, windowName, window⟩ := s
  intro c hc
  simp only [selectClauses, opt, List.mem_append, List.mem_ite_nil_right, List.mem_cons, List.not_mem_nil, or_false] at hc
  rcases hc with ((((((((((((h | h) | h) | h) | h) | h) | h) | h) | h) | h) | h) | h) | h) <;>
    first
    | (obtain ⟨_, rfl⟩ := h)
    | subst h
  · exact b_optwith d with_
  · exact B.app (B.app (B_S _ (by decide)) (b_rOptDistinct d distinct)) (b_sellist d true selects)
  · exact B.app (B.app (B.app (B_S _ (by decide)) (b_trefs d true from_)) (B_ite (b_rHints hints true) B_nil)) (B_ite (b_rOptSample sample) B_nil)
  · exact b_joins d joins
  · exact b_holder d _ where_ (by decide)
  · exact B.app (B_S _ (by decide)) (b_exlist d true groups)
  · exact b_holder d _ having (by decide)
  · exact b_unions d unions
  · exact B.app (B_S _ (by decide)) (b_orders d true orders)
  · exact b_rLimit _ limit (by decide)
  · exact b_rLimit _ offset (by decide)
  · exact b_rOptLock d lock
  · exact b_optwindow d windowName window

/-- non-vacuity: `SELECT COUNT("a") FROM (SELECT "a" FROM "t") AS "x" WHERE ("a" = ?) OR "a" IN (?, ?)` -/
def demoNested : Query :=
  .sel (.mk none none (.cons (.func (.std 6) [] (.cons (.col (.col "a")) .nil)) .none none .nil)
    (.cons (.subq (.mk none none (.cons (.col (.col "a")) .none none .nil) (.cons (.named ⟨["t"], none⟩) .nil) [] none .nil .empty .nil .empty .nil .nil none none none "" none) "x") .nil)
    [] none .nil
    (.cond (.mk false true
      (.consE (.bin (.col (.col "a")) (.std 10) (.value ⟨"Int", .int 1⟩))
        (.consE (.bin (.col (.col "a")) (.std 6) (.tuple (.cons (.value ⟨"Int", .int 1⟩) (.cons (.value ⟨"Int", .int 2⟩) .nil)))) .nil))))
    .nil .empty .nil .nil none none none "" none)
open SeaQ.Balance in
example : scan 0 (rQuery .postgres demoNested) = some 0 := render_balanced _ _ (by decide)

end SeaQ.Props.C08
