import SeaQ.Props.C01
/-!
# C02 — inline rendering = parameterised rendering with every placeholder replaced by the
literal of the corresponding bound value

The model renders a statement once (a piece list) and interprets the list twice: `textP`
(`SqlWriterValues`) and `textI` (`impl SqlWriter for String`).  `Scan.substitute` reads the
parameterised text the way the engine does and re-prints it with each placeholder replaced
by the given literal; the theorem says that this is exactly the inline text — same
structure, clause order and parentheses, because nothing but the placeholders changes.

That the crate really has this structure (one call tree, two writers, no call site that
bypasses the writer in one mode) is the correspondence: every public entry point is compared
with the model's two texts on every generated statement.
-/
namespace SeaQ.Props.C02
open SeaQ.Escape SeaQ.Render SeaQ.Stmt SeaQ.Scan SeaQ.Props.C01

theorem printSubst_append_chars (lits : List (List Char)) (i : Nat) (t : List Char) (r : List Item) :
    printSubst lits i (t.map Item.ch ++ r) = t ++ printSubst lits i r := by
  induction t with
  | nil => rfl
  | cons c t ih => simp [printSubst, ih]

theorem printSubst_lit (d : Backend) (lits : List (List Char)) (i : Nat) (v : Val) (r : List Item) :
    printSubst lits i (litItems d v ++ r) = litText d v ++ printSubst lits i r := by
  obtain ⟨ty, pl⟩ := v
  cases pl <;> simp [litItems, litText, printSubst, printSubst_append_chars]
  cases d <;> simp [printSubst, Literal.writeBytes, Literal.q]

/-- re-printing the piece-wise reading of the parameterised text with the literals of the
remaining values gives the inline text (`pre` = literals of the `k` parameters already written) -/
theorem printSubst_items (d : Backend) : ∀ (ps : Pieces) (k : Nat) (pre : List (List Char)), pre.length = k →
    printSubst (pre ++ (paramsOf ps).map (litText d)) k (items d false k ps) = txt d true k ps := by
  intro ps
  induction ps with
  | nil => intro k pre _; simp [items, txt, printSubst]
  | cons p r ih =>
    intro k pre hk
    cases p with
    | p v =>
      have hget : (pre ++ litText d v :: (paramsOf r).map (litText d)).getD k [] = litText d v := by
        simp [List.getD, hk]
      have ih' := ih (k + 1) (pre ++ [litText d v]) (by simp [hk])
      simp only [List.append_assoc, List.singleton_append] at ih'
      simp only [items, pieceItems, nextK, Bool.false_eq_true, if_false, paramsOf, List.map_cons, txt, pieceTxt,
        if_true, List.cons_append, List.nil_append]
      by_cases hn : numbered d = true
      · simp only [hn, if_true, printSubst, Nat.add_sub_cancel, hget]
        rw [ih']
        -- the inline text does not depend on the counter
        have : ∀ k k' : Nat, txt d true k r = txt d true k' r := by
          intro a b; rw [txt_inline, txt_inline]
        rw [this (k + 1) k]
      · have hn' : numbered d = false := by simpa using hn
        simp only [hn', Bool.false_eq_true, if_false, printSubst, hget]
        rw [ih']
        have : ∀ k k' : Nat, txt d true k r = txt d true k' r := by
          intro a b; rw [txt_inline, txt_inline]
        rw [this (k + 1) k]
    | s t => simpa [items, pieceItems, nextK, paramsOf, txt, pieceTxt, printSubst_append_chars] using ih k pre hk
    | raw t => simpa [items, pieceItems, nextK, paramsOf, txt, pieceTxt, printSubst_append_chars] using ih k pre hk
    | id n => simpa [items, pieceItems, nextK, paramsOf, txt, pieceTxt, printSubst] using ih k pre hk
    | c v => simpa [items, pieceItems, nextK, paramsOf, txt, pieceTxt, printSubst_lit] using ih k pre hk
    | bad => simpa [items, pieceItems, nextK, paramsOf, txt, pieceTxt] using ih k pre hk

/-- **C02.** -/
theorem C02_substitute (d : Backend) (ps : Pieces) (h : safe d false false 0 ps = true) :
    substitute d (textP d ps).1 ((textP d ps).2.map (litText d)) = some (textI d ps) := by
  have hseg := segment_txt d false ps h
  rw [txt_param] at hseg
  have := printSubst_items d ps 0 [] rfl
  simp only [List.nil_append] at this
  rw [txt_inline] at this
  simp only [substitute, textP] at hseg ⊢
  rw [hseg, Option.map_some, values_eq_params, this]

/-- the instance for the rendering of a statement: `to_string` is `build` with the literals substituted -/
theorem C02_statement (d : Backend) (s : Query) (h : safe d false false 0 (rQuery d s) = true) :
    substitute d (textP d (rQuery d s)).1 ((textP d (rQuery d s)).2.map (litText d)) = some (textI d (rQuery d s)) :=
  C02_substitute d (rQuery d s) h

/-- **C02 for every statement of the model without caller-supplied raw text** (the bound values are
arbitrary; constants written inline must be representable) -/
theorem C02_all_statements (d : Backend) (q : Query) (hc : (rQuery d q).all (contentOK d false) = true) :
    substitute d (textP d (rQuery d q)).1 ((textP d (rQuery d q)).2.map (litText d)) = some (textI d (rQuery d q)) :=
  C02_statement d q (render_safe d false q hc)

example : substitute .postgres (textP .postgres (rQuery .postgres demoQ)).1
    ((textP .postgres (rQuery .postgres demoQ)).2.map (litText .postgres)) = some (textI .postgres (rQuery .postgres demoQ)) :=
  C02_all_statements .postgres demoQ (by decide)

/-- the two texts carry the same values: the inline form binds nothing -/
theorem inline_has_no_values (d : Backend) (ps : Pieces) : paramsOf ps = (textP d ps).2 :=
  (values_eq_params d ps 0).symm

/-! Non-vacuity (the demo statement of C01): the substituted text is the inline text. -/
example : substitute .postgres (textP .postgres demo).1 ((textP .postgres demo).2.map (litText .postgres)) =
    some (textI .postgres demo) := C02_substitute .postgres demo (by decide)

end SeaQ.Props.C02
