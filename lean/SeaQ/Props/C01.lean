import SeaQ.Lemmas.Scan
import SeaQ.Lemmas.RenderCtx
import SeaQ.Lemmas.RenderPlain
/-!
# C01 — placeholders and bound values correspond one-to-one, in order

The statement model renders to a list of pieces (`SeaQ.Render`); `SqlWriterValues` is the
interpretation `textP` (text with placeholders, values collected).  The engine-side reading
of a text is `SeaQ.Scan.segment` (quoted identifiers and string literals are read by the
lexers of C03 / C04; a placeholder counts only outside them).

* `values_eq_params`: the values returned are exactly the values of the parameter pieces, in
  rendering order — none lost, duplicated or moved (for every piece list, no hypothesis).
* `C01_placeholders`: under `Safe` the engine reads the parameterised text piece by piece, and
  the placeholders it sees outside quoted text are `?`×n (MySQL, SQLite) or `$1..$n`, each once,
  ascending (Postgres), where n is the number of returned values; the i-th placeholder is
  the one written for the i-th value.
* `C01_statement`: the instance for the rendering of any statement of the model.
* `render_safe`: **every** statement of the model whose pieces are individually well-formed
  (`contentOK`: no panic marker, representable constant values, caller-supplied raw text (custom expressions, function
  names, operators, keywords) only when it is non-empty and free of quote characters and placeholder marks,
  no `CustomWithExpr` template) renders to a `Safe` list — by mutual structural
  induction over the 41 render functions (`Lemmas/RenderCtx.lean`), for every nesting depth,
  every dialect, both writers.  `C01_all_statements` is C01 for all those statements with no
  `Safe` hypothesis left.

`Safe` (`SeaQ.Scan.safe`, decidable) says every piece is well-formed where it stands: text
written by the renderer and caller-supplied raw text contain no quote character and no
placeholder mark, a quoted name is not followed by its quote character, a string literal
is representable (C03) and not followed by `'`, a Postgres `E'..'` / `$n` does not follow a
word character, a placeholder is not followed by a digit / word character.  The check
evaluates `safe` on the rendering of every generated statement whose raw text is closed
(the harness's `tame` statements) and requires it to hold; for statements with caller-supplied
raw text (custom expressions, operators, function names, templates) `Safe` is decided per case,
for all others it is a theorem (`render_safe`).
-/
namespace SeaQ.Props.C01
open SeaQ.Escape SeaQ.Render SeaQ.Stmt SeaQ.Scan

/-- the values of the parameter pieces, in order -/
def paramsOf : Pieces → List Val
  | [] => []
  | .p v :: r => v :: paramsOf r
  | _ :: r => paramsOf r

/-- **no value lost, duplicated or moved**: what `SqlWriterValues` collects -/
theorem values_eq_params (d : Backend) : ∀ (ps : Pieces) (k : Nat), (textPFrom d k ps).2 = paramsOf ps := by
  intro ps
  induction ps with
  | nil => intro k; rfl
  | cons p r ih => intro k; cases p <;> simp [textPFrom, paramsOf, ih]

theorem paramsOf_append (a b : Pieces) : paramsOf (a ++ b) = paramsOf a ++ paramsOf b := by
  induction a with
  | nil => rfl
  | cons p r ih => cases p <;> simp [paramsOf, ih]

/-- the marks the parameterised writer produces after `k` earlier parameters -/
def marksFrom (d : Backend) (k n : Nat) : List (Option Nat) :=
  if numbered d then (List.range n).map (fun i => some (k + i + 1)) else List.replicate n none

theorem placeholders_append (a b : List Item) : placeholders (a ++ b) = placeholders a ++ placeholders b := by
  induction a with
  | nil => rfl
  | cons x r ih => cases x <;> simp [placeholders, ih]

theorem placeholders_chars (t : List Char) : placeholders (t.map Item.ch) = [] := by
  induction t with
  | nil => rfl
  | cons c r ih => simp [placeholders, ih]

theorem placeholders_lit (d : Backend) (v : Val) : placeholders (litItems d v) = [] := by
  obtain ⟨ty, pl⟩ := v
  cases pl <;> simp [litItems, placeholders, placeholders_chars]
  cases d <;> simp [placeholders]

theorem placeholders_items (d : Backend) : ∀ (ps : Pieces) (k : Nat),
    placeholders (items d false k ps) = marksFrom d k (paramsOf ps).length := by
  intro ps
  induction ps with
  | nil => intro k; simp [items, placeholders, marksFrom, paramsOf]
  | cons p r ih =>
    intro k
    cases p with
    | p v =>
      simp only [items, pieceItems, nextK, Bool.false_eq_true, if_false, paramsOf, List.length_cons,
        List.cons_append, List.nil_append, placeholders, ih]
      unfold marksFrom
      by_cases hn : numbered d = true
      · simp only [hn, if_true, List.range_succ_eq_map, List.map_cons, List.map_map]
        simp [Function.comp_def, Nat.add_assoc, Nat.add_comm 1]
      · simp [hn, List.replicate_succ]
    | s t => simp [items, pieceItems, nextK, paramsOf, placeholders_append, placeholders_chars, ih]
    | raw t => simp [items, pieceItems, nextK, paramsOf, placeholders_append, placeholders_chars, ih]
    | id n => simp [items, pieceItems, nextK, paramsOf, placeholders, ih]
    | c v => simp [items, pieceItems, nextK, paramsOf, placeholders_append, placeholders_lit, ih]
    | bad => simp [items, pieceItems, nextK, paramsOf, ih]

theorem marksFrom_zero (d : Backend) (n : Nat) : marksFrom d 0 n = expectedMarks d n := by
  simp [marksFrom, expectedMarks]

/-- **C01.** -/
theorem C01_placeholders (d : Backend) (ps : Pieces) (h : safe d false false 0 ps = true) :
    ∃ its, segment d (textP d ps).1 = some its ∧
      placeholders its = expectedMarks d (textP d ps).2.length ∧
      (textP d ps).2 = paramsOf ps := by
  refine ⟨items d false 0 ps, ?_, ?_, values_eq_params d ps 0⟩
  · have := segment_txt d false ps h
    rwa [txt_param] at this
  · rw [placeholders_items, marksFrom_zero, textP, values_eq_params]

/-- the instance for the rendering of a statement -/
theorem C01_statement (d : Backend) (s : Query) (h : safe d false false 0 (rQuery d s) = true) :
    ∃ its, segment d (textP d (rQuery d s)).1 = some its ∧
      placeholders its = expectedMarks d (textP d (rQuery d s)).2.length :=
  let ⟨its, h1, h2, _⟩ := C01_placeholders d (rQuery d s) h
  ⟨its, h1, h2⟩

/-- **every statement whose pieces are individually well-formed renders to a safe list** -/
theorem render_safe (d : Backend) (inl : Bool) (q : Query)
    (hc : (rQuery d q).all (contentOK d inl) = true) : safe d inl false 0 (rQuery d q) = true := by
  rw [SafeN.safe_eq_safeN]
  exact SafeN.ctx_sound d inl _ false false .emp none (by simp) rfl hc (SafeN.c_query d q false .emp rfl)

/-- what the *caller* must supply for `render_safe`: nothing is asked of the renderer's own text -/
def userOK (d : Backend) (inl : Bool) : Piece → Bool
  | .s _ => true
  | p => contentOK d inl p

theorem plain_of_okP (d : Backend) (t : String) (h : SeaQ.Plain.okP d (.s t) = true) : t.toList.all (plainChar d) = true := by
  simp only [SeaQ.Plain.okP, Bool.or_eq_true, Bool.and_eq_true, beq_iff_eq] at h
  cases h with
  | inl h => exact SafeN.plain_of_basic d _ h
  | inr h => obtain ⟨hd, ht⟩ := h; subst hd; subst ht; decide

/-- **the renderer's own text is plain**: every `.s` piece of every rendering consists of characters that are read as
themselves in the dialect (no quote character, no placeholder mark) — by the induction of `RenderPlain.lean` -/
theorem renderer_text_plain (d : Backend) (q : Query) (hm : SeaQ.Plain.bad (rQuery d q) = false) :
    ∀ t, Piece.s t ∈ rQuery d q → t.toList.all (plainChar d) = true := by
  intro t ht
  cases SeaQ.Plain.b_query d q with
  | inl hb => rw [hb] at hm; cases hm
  | inr hall => exact plain_of_okP d t (List.all_eq_true.mp hall _ ht)

/-- `render_safe` with the condition on the caller's input only: no panic marker, representable inline constants,
caller-supplied raw text non-empty and free of quote characters and marks, templates lexically safe on their own (`Template.ok`) -/
theorem render_safe_user (d : Backend) (inl : Bool) (q : Query)
    (hu : (rQuery d q).all (userOK d inl) = true) : safe d inl false 0 (rQuery d q) = true := by
  apply render_safe
  have hm : SeaQ.Plain.bad (rQuery d q) = false := by
    cases hb : SeaQ.Plain.bad (rQuery d q) with
    | false => rfl
    | true =>
      simp only [SeaQ.Plain.bad, List.any_eq_true] at hb
      obtain ⟨p, hp, hbp⟩ := hb
      have := List.all_eq_true.mp hu p hp
      cases p with
      | raw t => simp_all [SeaQ.Plain.badP, userOK, contentOK]
      | _ => simp [SeaQ.Plain.badP] at hbp
  rw [List.all_eq_true] at hu ⊢
  intro p hp
  cases p with
  | s t => exact renderer_text_plain d q hm t hp
  | _ => simpa [userOK] using hu _ hp

/-- **C01 for every statement of the model without caller-supplied raw text** -/
theorem C01_all_statements (d : Backend) (q : Query) (hc : (rQuery d q).all (contentOK d false) = true) :
    ∃ its, segment d (textP d (rQuery d q)).1 = some its ∧
      placeholders its = expectedMarks d (textP d (rQuery d q)).2.length :=
  C01_statement d q (render_safe d false q hc)

/-- for the parameterised writer the bound values are unconstrained: any value may be bound -/
example (d : Backend) (v : Val) : contentOK d false (.p v) = true := rfl

/-- a statement meeting the hypothesis: `SELECT "a" FROM "t" WHERE "a" = ? AND "b" IN (?, ?) ORDER BY "a" DESC LIMIT ?` -/
def demoQ : Query :=
  .sel (.mk none none (.cons (.col (.col "a")) .none none .nil) (.cons (.named ⟨["t"], none⟩) .nil) [] none .nil
    (.cond (.mk false false
      (.consE (.bin (.col (.col "a")) (.std 10) (.value ⟨"String", .str "x?'".toList⟩))
        (.consE (.bin (.col (.col "b")) (.std 6) (.tuple (.cons (.value ⟨"Int", .int 1⟩) (.cons (.value ⟨"Int", .int 2⟩) .nil)))) .nil))))
    .nil .empty .nil (.cons (.col (.col "a")) .desc none .nil) (some ⟨"Unsigned", .int 3⟩) none none "" none)
example : (rQuery .postgres demoQ).all (contentOK .postgres false) = true := by decide
example : (rQuery .mysql demoQ).all (contentOK .mysql true) = true := by decide
/-- custom templates are covered when they are lexically safe on their own (`Template.ok`: chunks non-empty, no
value glued to a word character, a digit or a quote; decidable from the template text and the number of values):
`SELECT "a" FROM "t" WHERE "a" + ? < abs(?)` written as `cust_with_values("? + ? < abs(?)", [a, 1, 2])` -/
def demoT : Query :=
  .sel (.mk none none (.cons (.col (.col "a")) .none none .nil) (.cons (.named ⟨["t"], none⟩) .nil) [] none .nil
    (.cond (.mk false false
      (.consE (.custWith "? + ? < abs(?)" (.cons (.col (.col "a")) (.cons (.value ⟨"Int", .int 1⟩) (.cons (.value ⟨"Int", .int 2⟩) .nil)))) .nil)))
    .nil .empty .nil .nil none none none "" none)
example : (rQuery .postgres demoT).all (contentOK .postgres false) = true := by decide
example : (rQuery .sqlite demoT).all (contentOK .sqlite true) = true := by decide
/-- … and a template that glues a value to a word is not (`?abc`): it keeps its mark and stays outside the hypothesis -/
example : (rEx .mysql (.custWith "x = ?abc" (.cons (.value ⟨"Int", .int 1⟩) .nil))).head? = some (.raw []) := by decide
/-! Non-vacuity: a statement with a quoted name containing the mark, a string literal
containing marks and quotes, and three parameters; and a text the reading rejects. -/
def demo : Pieces :=
  [.s "SELECT ", .id "a?$1", .s " FROM ", .id "t", .s " WHERE ", .id "x", .s " = ", .p ⟨"Int", .int 5⟩, .s " AND ",
   .c ⟨"String", .str "it's ? $2".toList⟩, .s " <> ", .p ⟨"String", .str "q".toList⟩, .s " LIMIT ", .p ⟨"BigUnsigned", .int 10⟩]

example : safe .postgres false false 0 demo = true := by decide
example : safe .mysql false false 0 demo = true := by decide
example : (segment .postgres (textP .postgres demo).1).map placeholders = some [some 1, some 2, some 3] := by
  obtain ⟨its, h1, h2, _⟩ := C01_placeholders .postgres demo (by decide)
  rw [h1, Option.map_some, h2]; rfl
/-- a placeholder glued to a word is not a placeholder: the reading fails, `Safe` is false -/
example : safe .postgres false false 0 [.s "x", .p ⟨"Int", .int 1⟩] = false := by decide

end SeaQ.Props.C01
