import SeaQ.Lemmas.StmtPolicy
/-!
# C05 at the statement renderer

`Props/C05` proves `parse ∘ print = id` for the abstract printer `Pratt.pr` under the
parenthesis policy *observed* from the crate (`Gen/Policy`, cells indexed by outer operator,
child kind and side).  The statement model (`Model/Render.rEx`, tied to the crate by the
statement correspondence of C01 / C02 / C07 / C08) makes its own parenthesis decisions
(`greater`, `leftAssoc`, the BETWEEN / LIKE .. ESCAPE / AS special cases).  This file links the
two:

* `agree*` — finite obligations (kernel-evaluated): for every operator of the dialect and
  every child kind, the decision the statement renderer takes is the observed cell;
* `stmt_prints_as_pratt` — for EVERY operator tree `pe` (any depth) over arbitrary leaves, the
  statement renderer writes for `conc pe` exactly the concretisation of the token list
  `Pratt.pr (observed policy) pe` (same text, same pieces up to the chunking of renderer
  text), so the policy really is a function of (outer, kind, side) for the renderer that
  C01 / C02 / C08 reason about;
* `stmt_roundtrip_{sqlite,postgres,mysql}` — hence the tokens the statement renderer writes for an operator tree
  re-parse, under the engine's table, to that tree (C05 for the statement model).

Leaves are arbitrary statement-model expressions of the right shape class (columns, values,
constants, keywords, CASE, sub-queries, function calls, casts for the "atomic" classes;
`Expr::cust`; templates / value lists / enum casts for the always-parenthesised class).
-/
namespace SeaQ.Props.C05Stmt
open SeaQ.Escape SeaQ.Stmt SeaQ.Render

/-! ### what the decisions see of a concrete operand -/

theorem opOf_eq_iff (cop : String) (i o : Nat) : opOf cop i = opOf cop o ↔ i = o := by
  unfold opOf
  by_cases hi : i = 27 <;> by_cases ho : o = 27 <;> simp_all <;> omega

theorem opOf_eq_std (cop : String) (i n : Nat) (hn : n ≠ 27) : opOf cop i = .std n ↔ i = n := by
  unfold opOf
  by_cases hi : i = 27
  · subst hi; simp; omega
  · simp [hi]

theorem leaf_view {cls : Nat} {e : Ex} (h : leafOK cls e = true) :
    shapeOf e = (if cls ≤ 3 then .atomic else .other) ∧ (∀ q, isBinWith e q = false) ∧
      isCustom e = decide (cls = 4) ∧ isEmptyTuple e = false := by
  unfold leafOK at h
  by_cases h3 : cls ≤ 3
  · have h4 : cls ≠ 4 := by omega
    cases e <;> simp_all [shapeOf, isBinWith, isCustom, isEmptyTuple]
  · by_cases h4 : cls = 4
    · cases e <;> simp_all [shapeOf, isBinWith, isCustom, isEmptyTuple]
    · cases e <;> simp_all [shapeOf, isBinWith, isCustom, isEmptyTuple]

section view
variable (ρ : Env) (hρ : ∀ a, leafOK (a % 8) (ρ.leaf a) = true)
include hρ

theorem view_shape : ∀ pe : Pratt.Ex, shapeOf (conc ρ pe) = shapeK ρ.cop (Pratt.kindOf pe)
  | .atom a => by simp [conc, Pratt.kindOf, shapeK, (leaf_view (hρ a)).1]
  | .un x => by simp [conc, Pratt.kindOf, shapeK, shapeOf]
  | .bin l o r => by simp [conc, Pratt.kindOf, shapeK, shapeOf]
  | .node k args => by
    by_cases hk : k = 0 <;> simp [conc, Pratt.kindOf, shapeK, shapeOf, hk]

theorem view_bin (q : Op → Bool) : ∀ pe : Pratt.Ex,
    isBinWith (conc ρ pe) q = kindBin ρ.cop (Pratt.kindOf pe) q
  | .atom a => by simp [conc, Pratt.kindOf, kindBin, (leaf_view (hρ a)).2.1]
  | .un x => by simp [conc, Pratt.kindOf, kindBin, isBinWith]
  | .bin l o r => by simp [conc, Pratt.kindOf, kindBin, isBinWith]
  | .node k args => by
    by_cases hk : k = 0 <;> simp [conc, Pratt.kindOf, kindBin, isBinWith, hk]

theorem view_custom : ∀ pe : Pratt.Ex, isCustom (conc ρ pe) = (Pratt.kindOf pe == .atom 4)
  | .atom a => by
    simp only [conc, Pratt.kindOf, (leaf_view (hρ a)).2.2.1]
    by_cases h : a % 8 = 4 <;> simp [h]
  | .un x => by simp [conc, Pratt.kindOf, isCustom]
  | .bin l o r => by simp [conc, Pratt.kindOf, isCustom]
  | .node k args => by
    by_cases hk : k = 0 <;> simp [conc, Pratt.kindOf, isCustom, hk]

theorem view_empty (ops : List Nat) : ∀ pe : Pratt.Ex, inFrag ops pe = true → isEmptyTuple (conc ρ pe) = false
  | .atom a, _ => by simp [conc, (leaf_view (hρ a)).2.2.2]
  | .un x, _ => by simp [conc, isEmptyTuple]
  | .bin l o r, _ => by simp [conc, isEmptyTuple]
  | .node k args, h => by
    by_cases hk : k = 0
    · subst hk
      cases args with
      | nil => simp [inFrag, isNilP] at h
      | cons a t => simp [conc, concL, isEmptyTuple]
    · simp [conc, isEmptyTuple, hk]

end view

/-! ### frames -/

theorem toks_wrap (d : Backend) (ρ : Env) (b : Bool) (ts : List Tok) :
    toks d ρ (Pratt.wrap b ts) = wrap b (toks d ρ ts) := by
  cases b <;> simp [Pratt.wrap, wrap, tok, S]

theorem canon_wrap_congr {b : Bool} {ps qs : Pieces} (h : canon ps = canon qs) :
    canon (wrap b ps) = canon (wrap b qs) := by
  cases b with
  | true => simpa [wrap] using h
  | false => simp only [wrap, Bool.false_eq_true, if_false, canon_append, h]

/-- the separator of the BETWEEN bounds is written in one piece -/
theorem canon_and : canon [S " AND "] = canon [S " "] ++ (canon [S "AND"] ++ canon [S " "]) := by decide

theorem rArgs_nil (d : Backend) : ∀ (first : Bool) (l : ExList), rArgs d first [] l = rExList d first l
  | _, .nil => by simp [rArgs, rExList]
  | first, .cons e r => by simp [rArgs, rExList, rArgs_nil d false r]

theorem rEx_bin (d : Backend) (L : Ex) (O : Op) (R : Ex) (hne : isEmptyTuple R = false) :
    rEx d (.bin L O R) = binLeft d L O (rEx d L) ++
      (if (Oper.bin O).isBetween && isBinWith R (· == .std 0) then rBounds d (.bin O) R
       else wrap (greater d (shapeOf R) (.bin O) || ((Oper.bin O).takesEscape && isBinWith R (· == .std 26)) ||
          (O == .std 25 && isCustom R)) (rEx d R)) := by
  simp only [rEx, hne, Bool.and_false]
  simp
  split <;> rfl

theorem isBetween_opOf (cop : String) (o : Nat) : (Oper.bin (opOf cop o)).isBetween = (o == 8 || o == 9) := by
  simp only [Oper.isBetween, Oper.isBin, isStd_opOf]
  by_cases h : o = 27
  · subst h; decide
  · simp [h]

theorem mixN_cases {o s : Nat} (h : mixN o = some s) :
    ((o = 8 ∨ o = 9) ∧ s = 0) ∨ ((o = 2 ∨ o = 3 ∨ o = 30 ∨ o = 31) ∧ s = 26) := by
  unfold mixN at h
  split at h
  · left; simp_all
  · split at h
    · rename_i h1 h2
      right
      refine ⟨?_, by simpa using h.symm⟩
      simpa [or_assoc] using h2
    · simp at h

theorem kindBin_eq (cop : String) (k : Kind) (o : Nat) : kindBin cop k (· == opOf cop o) = (k == .bin o) := by
  cases k <;> simp [kindBin]
  rw [Bool.eq_iff_iff]; simp [opOf_eq_iff]

theorem kindBin_std (cop : String) (k : Kind) (n : Nat) (hn : n ≠ 27) : kindBin cop k (· == .std n) = (k == .bin n) := by
  cases k <;> simp [kindBin]
  rw [Bool.eq_iff_iff]; simp [opOf_eq_std _ _ _ hn]

theorem mem_kinds (d : Backend) : ∀ pe : Pratt.Ex, inFrag (opsOf d) pe = true → Pratt.kindOf pe ∈ kindsOf d
  | .atom a, _ => by
    have h8 : a % 8 < 8 := Nat.mod_lt _ (by decide)
    simp only [Pratt.kindOf, kindsOf]
    generalize a % 8 = c at h8
    have : c = 0 ∨ c = 1 ∨ c = 2 ∨ c = 3 ∨ c = 4 ∨ c = 5 ∨ c = 6 ∨ c = 7 := by omega
    rcases this with h | h | h | h | h | h | h | h <;> subst h <;> simp
  | .un x, _ => by simp [Pratt.kindOf, kindsOf]
  | .bin l o r, h => by
    have ho : o ∈ opsOf d := by simp [inFrag] at h; exact h.1.1
    simp [Pratt.kindOf, kindsOf, ho]
  | .node k args, h => by
    have hk : k = 0 ∨ k = 1 := by simp [inFrag] at h; omega
    rcases hk with hk | hk <;> subst hk <;> simp [Pratt.kindOf, kindsOf]

/-! ### the decisions of the renderer on a concrete operand are the observed cells -/

section decisions
variable (d : Backend) (ρ : Env) (hρ : ∀ a, leafOK (a % 8) (ρ.leaf a) = true)
include hρ

theorem decL {l : Pratt.Ex} {o : Nat} (hl : inFrag (opsOf d) l = true) (ho : o ∈ opsOf d) :
    (greater d (shapeOf (conc ρ l)) (.bin (opOf ρ.cop o)) ||
      (isBinWith (conc ρ l) (· == opOf ρ.cop o) && leftAssoc d (opOf ρ.cop o))) =
      (cellsOf d).dropL o (Pratt.kindOf l) := by
  rw [view_shape ρ hρ, view_bin ρ hρ, kindBin_eq]
  have := agreeL d o ho _ (mem_kinds d l hl)
  rw [← this, ← mDropL_cop d ρ.cop]; rfl

theorem decR {r : Pratt.Ex} {o : Nat} (hr : inFrag (opsOf d) r = true) (ho : o ∈ opsOf d)
    (hreg : regular o (Pratt.kindOf r) = true) :
    (greater d (shapeOf (conc ρ r)) (.bin (opOf ρ.cop o)) ||
      ((Oper.bin (opOf ρ.cop o)).takesEscape && isBinWith (conc ρ r) (· == .std 26)) ||
      (opOf ρ.cop o == .std 25 && isCustom (conc ρ r))) =
      (cellsOf d).dropR o (Pratt.kindOf r) := by
  rw [view_shape ρ hρ, view_bin ρ hρ, view_custom ρ hρ, kindBin_std _ _ 26 (by decide)]
  have h25 : (opOf ρ.cop o == Op.std 25) = (o == 25) := by
    rw [Bool.eq_iff_iff]; simp [opOf_eq_std _ _ 25 (by decide)]
  rw [h25]
  have := agreeR d o ho _ (mem_kinds d r hr) hreg
  rw [← this, ← mDropR_cop d ρ.cop]; rfl

theorem decN {x : Pratt.Ex} (hx : inFrag (opsOf d) x = true) :
    greater d (shapeOf (conc ρ x)) .un = (cellsOf d).dropN (Pratt.kindOf x) := by
  rw [view_shape ρ hρ]
  have := agreeN d _ (mem_kinds d x hx)
  rw [← this, ← mDropN_cop d ρ.cop]; rfl

theorem decB {x : Pratt.Ex} {o : Nat} (hx : inFrag (opsOf d) x = true) (ho : o = 8 ∨ o = 9) :
    greater d (shapeOf (conc ρ x)) (.bin (.std o)) = (cellsOf d).dropML o (Pratt.kindOf x) ∧
    greater d (shapeOf (conc ρ x)) (.bin (.std o)) = (cellsOf d).dropMR o (Pratt.kindOf x) := by
  rw [view_shape ρ hρ]
  have hm : o ∈ [8, 9] := by rcases ho with h | h <;> subst h <;> simp
  have := agreeB d o hm _ (mem_kinds d x hx)
  have hstd : Op.std o = opOf ρ.cop o := by rcases ho with h | h <;> subst h <;> rfl
  rw [hstd, ← this.1, ← this.2, ← mBound_cop d ρ.cop]
  exact ⟨rfl, rfl⟩

end decisions

/-! ### the renderer writes the tokens of the abstract printer -/

section main
variable (d : Backend) (ρ : Env) (hρ : ∀ a, leafOK (a % 8) (ρ.leaf a) = true)

/-- the observed policy -/
abbrev pol (d : Backend) : Pratt.Policy := Pratt.policyOf (cellsOf d)

/-- the statement of the induction: the expression itself, and the expression read as the two
bounds of a BETWEEN -/
def Link (pe : Pratt.Ex) : Prop :=
  canon (rEx d (conc ρ pe)) = canon (toks d ρ (Pratt.pr (pol d) pe)) ∧
  ∀ o, (o = 8 ∨ o = 9) → ∀ a b, pe = .bin a 0 b →
    canon (rBounds d (.bin (.std o)) (conc ρ pe)) =
      canon (toks d ρ (Pratt.wrap ((cellsOf d).dropML o (Pratt.kindOf a)) (Pratt.pr (pol d) a) ++
        Pratt.Tok.op 0 :: Pratt.wrap ((cellsOf d).dropMR o (Pratt.kindOf b)) (Pratt.pr (pol d) b)))

theorem frame_bin {L : Ex} {o : Nat} {tl Y : List Tok} {X : Pieces} {cl : Bool}
    (hl : canon (rEx d L) = canon (toks d ρ tl)) (hx : canon X = canon (toks d ρ Y))
    (hd : (greater d (shapeOf L) (.bin (opOf ρ.cop o)) ||
      (isBinWith L (· == opOf ρ.cop o) && leftAssoc d (opOf ρ.cop o))) = cl) :
    canon (binLeft d L (opOf ρ.cop o) (rEx d L) ++ X) =
      canon (toks d ρ (Pratt.wrap cl tl ++ Pratt.Tok.op o :: Y)) := by
  simp only [binLeft, hd, toks_append, toks_cons, toks_wrap, canon_append, tok, canon_wrap_congr hl, hx,
    List.append_assoc]

include hρ

set_option linter.unusedSectionVars false in
mutual
theorem link : ∀ pe : Pratt.Ex, inFrag (opsOf d) pe = true → Link d ρ pe
  | .atom a, _ => by
    refine ⟨by simp [conc, Pratt.pr, tok], ?_⟩
    intro o _ a b h; cases h
  | .un x, h => by
    have hx : inFrag (opsOf d) x = true := by simpa [inFrag] using h
    have ih := (link x hx).1
    refine ⟨?_, ?_⟩
    · simp only [conc, rEx, Pratt.pr, toks_cons, toks_wrap, tok, canon_append, decN d ρ hρ hx]
      rw [canon_wrap_congr ih]; rfl
    · intro o _ a b h; cases h
  | .node k args, h => by
    have hh : k ≤ 1 ∧ (k ≠ 0 ∨ isNilP args = false) ∧ inFragL (opsOf d) args = true := by
      simpa [inFrag, and_assoc] using h
    have ih := linkL args hh.2.2
    refine ⟨?_, ?_⟩
    · by_cases hk : k = 0
      · subst hk
        simp only [conc, beq_self_eq_true, if_true, rEx, Pratt.pr, toks_cons, tok, canon_append, List.append_assoc]
        rw [← canon_append, ih]
      · have hb : (k == 0) = false := by simp [hk]
        simp only [conc, hb, Bool.false_eq_true, if_false, rEx, Pratt.pr, toks_cons, tok, canon_append,
          List.append_assoc, rArgs_nil]
        rw [← canon_append (rExList _ _ _), ih]
    · intro o _ a b h; cases h
  | .bin l o r, h => by
    have hh : o ∈ opsOf d ∧ inFrag (opsOf d) l = true ∧ inFrag (opsOf d) r = true := by
      simpa [inFrag, and_assoc] using h
    obtain ⟨ho, hl, hr⟩ := hh
    have ihl := (link l hl).1
    have ihr := link r hr
    have hne := view_empty ρ hρ (opsOf d) r hr
    have hmixo : (pol d).mixOf o = mixN o := agreeMix d o ho
    refine ⟨?_, ?_⟩
    · simp only [conc]
      rw [rEx_bin d _ _ _ hne]
      by_cases hreg : regular o (Pratt.kindOf r) = true
      · -- the right operand is an ordinary operand
        have hcond : ((Oper.bin (opOf ρ.cop o)).isBetween && isBinWith (conc ρ r) (· == .std 0)) = false := by
          rw [isBetween_opOf, view_bin ρ hρ, kindBin_std _ _ 0 (by decide)]
          unfold regular mixN at hreg
          by_cases h89 : (o == 8 || o == 9) = true
          · simp only [h89, if_true] at hreg
            simpa [h89] using hreg
          · simp [h89]
        have hmp : Pratt.mixParts (pol d) o r = none := by
          unfold Pratt.mixParts
          rw [hmixo]
          unfold regular at hreg
          cases hm : mixN o with
          | none => rfl
          | some s =>
            rw [hm] at hreg
            cases r with
            | bin a s' b =>
              have : s' ≠ s := by simpa [Pratt.kindOf] using hreg
              simp [this]
            | _ => rfl
        rw [hcond, Pratt.pr_bin_reg hmp]
        simp only [Bool.false_eq_true, if_false]
        refine frame_bin d ρ ihl ?_ (decL d ρ hρ hl ho)
        rw [toks_wrap, decR d ρ hρ hr ho hreg]
        exact canon_wrap_congr ihr.1
      · -- the right operand is the separator node of a ternary form
        unfold regular at hreg
        cases hm : mixN o with
        | none => simp [hm] at hreg
        | some s =>
          rw [hm] at hreg
          cases r with
          | atom x => simp [Pratt.kindOf] at hreg
          | un x => simp [Pratt.kindOf] at hreg
          | node x y => simp [Pratt.kindOf] at hreg
          | bin a s' b =>
            have hs' : s' = s := by simpa [Pratt.kindOf] using hreg
            subst hs'
            have hmix : (pol d).mixOf o = some s' := hmixo.trans hm
            rw [Pratt.pr_bin_mix hmix]
            rcases mixN_cases hm with ⟨h89, hs⟩ | ⟨h23, hs⟩
            · -- BETWEEN lo AND hi
              subst hs
              have hcond : ((Oper.bin (opOf ρ.cop o)).isBetween &&
                  isBinWith (conc ρ (.bin a 0 b)) (· == .std 0)) = true := by
                rw [isBetween_opOf]
                rcases h89 with h | h <;> subst h <;> simp [conc, isBinWith, opOf]
              have hstd : opOf ρ.cop o = .std o := by rcases h89 with h | h <;> subst h <;> rfl
              rw [hcond]
              simp only [if_true]
              refine frame_bin d ρ ihl ?_ (decL d ρ hρ hl ho)
              rw [hstd]
              exact ihr.2 o h89 a b rfl
            · -- LIKE pattern ESCAPE character
              subst hs
              have h26 : (26 : Nat) ∈ opsOf d := by
                have : (26 ∈ opsOf d ∧ inFrag (opsOf d) a = true) ∧ inFrag (opsOf d) b = true := by
                  simpa [inFrag] using hr
                exact this.1.1
              have hcond : ((Oper.bin (opOf ρ.cop o)).isBetween &&
                  isBinWith (conc ρ (.bin a 26 b)) (· == .std 0)) = false := by
                rw [isBetween_opOf]
                rcases h23 with h | h | h | h <;> subst h <;> simp
              have hlike : (Oper.bin (opOf ρ.cop o)).takesEscape = true := by
                rcases h23 with h | h | h | h <;> subst h <;> rfl
              have hesc : isBinWith (conc ρ (.bin a 26 b)) (· == .std 26) = true := by
                simp [conc, isBinWith, opOf]
              rw [hcond, hlike, hesc]
              simp only [Bool.false_eq_true, if_false, Bool.and_self, Bool.or_true, Bool.true_or, wrap, if_true]
              refine frame_bin d ρ ihl ?_ (decL d ρ hρ hl ho)
              have hab : inFrag (opsOf d) a = true ∧ inFrag (opsOf d) b = true := by
                have : (26 ∈ opsOf d ∧ inFrag (opsOf d) a = true) ∧ inFrag (opsOf d) b = true := by
                  simpa [inFrag] using hr
                exact ⟨this.1.2, this.2⟩
              have ho23 : o ∈ [2, 3, 30, 31] := by rcases h23 with h | h | h | h <;> subst h <;> simp
              have hea := agreeE d o ho23 ho _ (mem_kinds d a hab.1)
              have heb := agreeE d o ho23 ho _ (mem_kinds d b hab.2)
              have hmp : Pratt.mixParts (pol d) 26 b = none := by
                unfold Pratt.mixParts
                have : (pol d).mixOf 26 = none := (agreeMix d 26 h26).trans (by decide)
                rw [this]
              have hpr := Pratt.pr_bin_reg (p := pol d) (l := a) (o := 26) (r := b) hmp
              have : Pratt.wrap ((cellsOf d).dropML o (Pratt.kindOf a)) (Pratt.pr (pol d) a) ++
                  Pratt.Tok.op 26 :: Pratt.wrap ((cellsOf d).dropMR o (Pratt.kindOf b)) (Pratt.pr (pol d) b) =
                  Pratt.pr (pol d) (.bin a 26 b) := by
                rw [hpr, hea.1, heb.2]; rfl
              show _ = canon (toks d ρ (Pratt.wrap ((cellsOf d).dropML o (Pratt.kindOf a)) (Pratt.pr (pol d) a) ++
                  Pratt.Tok.op 26 :: Pratt.wrap ((cellsOf d).dropMR o (Pratt.kindOf b)) (Pratt.pr (pol d) b)))
              rw [this]
              exact ihr.1
    · -- read as the bounds of a BETWEEN
      intro o' ho' a b hab
      cases hab
      have hstd : opOf ρ.cop 0 = .std 0 := rfl
      simp only [conc, hstd, rBounds, toks_append, toks_cons, toks_wrap, tok, rOp, binOpCommon, canon_append]
      rw [(decB d ρ hρ hl ho').1, (decB d ρ hρ hr ho').2, canon_wrap_congr ihl, canon_wrap_congr ihr.1]
      simp only [canon_and, List.append_assoc]
theorem linkL : ∀ args : Pratt.ExList, inFragL (opsOf d) args = true →
    canon (rExList d true (concL ρ args) ++ [S ")"]) = canon (toks d ρ (Pratt.prArgs (pol d) args))
  | .nil, _ => by simp [concL, rExList, Pratt.prArgs, tok]
  | .cons h .nil, hh => by
    have hh' : inFrag (opsOf d) h = true := by simpa [inFragL] using hh
    have ih := (link h hh').1
    simp [concL, rExList, Pratt.prArgs, tok, ih]
  | .cons h (.cons h2 t), hh => by
    have h3 : inFrag (opsOf d) h = true ∧ inFrag (opsOf d) h2 = true ∧ inFragL (opsOf d) t = true := by
      simpa [inFragL, and_assoc] using hh
    have ih1 := (link h h3.1).1
    have ih2 := linkL (.cons h2 t) (by simp [inFragL, h3.2.1, h3.2.2])
    simp only [concL, rExList, if_true, List.nil_append, List.append_assoc, canon_append] at ih2
    simp only [concL, rExList, if_true, Bool.false_eq_true, if_false, List.nil_append, List.append_assoc,
      canon_append, Pratt.prArgs, toks_append, toks_cons, tok, ih1, ih2]
end

end main

/-! ## the property theorems -/

/-- **The statement renderer follows the observed policy.**  For every dialect, every operator
tree `pe` over the dialect's operators (any depth; NOT, all binary operators, the
BETWEEN / LIKE .. ESCAPE encodings, tuples, function calls) and every choice of leaves of the
right shape class, what `rEx` writes for the concrete expression is the concretisation of the
abstract printer's tokens under the policy cells observed from the crate — same pieces up to
the chunking of verbatim text. -/
theorem stmt_prints_as_pratt (d : Backend) (ρ : Env) (hρ : ∀ a, leafOK (a % 8) (ρ.leaf a) = true)
    (pe : Pratt.Ex) (hf : inFrag (opsOf d) pe = true) :
    canon (rEx d (conc ρ pe)) = canon (toks d ρ (Pratt.pr (pol d) pe)) :=
  (link d ρ hρ pe hf).1

/-- the same, for what both writers produce: inline text, parameterised text, bound values -/
theorem stmt_text_as_pratt (d : Backend) (ρ : Env) (hρ : ∀ a, leafOK (a % 8) (ρ.leaf a) = true)
    (pe : Pratt.Ex) (hf : inFrag (opsOf d) pe = true) :
    textI d (rEx d (conc ρ pe)) = textI d (toks d ρ (Pratt.pr (pol d) pe)) ∧
    textP d (rEx d (conc ρ pe)) = textP d (toks d ρ (Pratt.pr (pol d) pe)) :=
  texts_of_canon (stmt_prints_as_pratt d ρ hρ pe hf)

/-- **C05 for the statement model, SQLite**: the token list whose text the statement renderer
writes re-parses, under SQLite's table, to the tree that was built. -/
theorem stmt_roundtrip_sqlite (ρ : Env) (hρ : ∀ a, leafOK (a % 8) (ρ.leaf a) = true) (pe : Pratt.Ex)
    (hw : Pratt.wf Dialects.sqlite Gen.Policy.sqliteOps pe = true)
    (hf : inFrag Gen.Policy.sqliteOps pe = true) :
    ∃ ts f, canon (rEx .sqlite (conc ρ pe)) = canon (toks .sqlite ρ ts) ∧
      Pratt.parseE Dialects.sqlite f 0 ts = some (pe, []) := by
  obtain ⟨f, hp⟩ := C05.sqlite_roundtrip pe hw
  exact ⟨_, f, stmt_prints_as_pratt .sqlite ρ hρ pe hf, hp⟩

/-- **C05 for the statement model, PostgreSQL.** -/
theorem stmt_roundtrip_postgres (ρ : Env) (hρ : ∀ a, leafOK (a % 8) (ρ.leaf a) = true) (pe : Pratt.Ex)
    (hw : Pratt.wf Dialects.postgres Gen.Policy.postgresOps pe = true)
    (hf : inFrag Gen.Policy.postgresOps pe = true) :
    ∃ ts f, canon (rEx .postgres (conc ρ pe)) = canon (toks .postgres ρ ts) ∧
      Pratt.parseE Dialects.postgres f 0 ts = some (pe, []) := by
  obtain ⟨f, hp⟩ := C05.postgres_roundtrip pe hw
  exact ⟨_, f, stmt_prints_as_pratt .postgres ρ hρ pe hf, hp⟩

/-- **C05 for the statement model, MySQL.** -/
theorem stmt_roundtrip_mysql (ρ : Env) (hρ : ∀ a, leafOK (a % 8) (ρ.leaf a) = true) (pe : Pratt.Ex)
    (hw : Pratt.wf Dialects.mysql Gen.Policy.mysqlOps pe = true)
    (hf : inFrag Gen.Policy.mysqlOps pe = true) :
    ∃ ts f, canon (rEx .mysql (conc ρ pe)) = canon (toks .mysql ρ ts) ∧
      Pratt.parseE Dialects.mysql f 0 ts = some (pe, []) := by
  obtain ⟨f, hp⟩ := C05.mysql_roundtrip pe hw
  exact ⟨_, f, stmt_prints_as_pratt .mysql ρ hρ pe hf, hp⟩

/-! Non-vacuity: leaves of every class, and the tree of `Props/C05.ex1` (NOT over a BETWEEN whose lower
bound is a comparison, LIKE .. ESCAPE over a function call). -/
def demoEnv : Env where
  leaf a := match a % 8 with
    | 0 => .col (.col "c") | 1 => .value ⟨"Int", .int 7⟩ | 2 => .const ⟨"Bool", .bool true⟩ | 3 => .keyword .null
    | 4 => .cust "x" | _ => .values []
  fn := .std 5
  cop := "!="

theorem demoEnv_ok : ∀ a, leafOK (a % 8) (demoEnv.leaf a) = true := by
  intro a
  have h8 : a % 8 < 8 := Nat.mod_lt _ (by decide)
  simp only [demoEnv]
  generalize a % 8 = c at h8
  have : c = 0 ∨ c = 1 ∨ c = 2 ∨ c = 3 ∨ c = 4 ∨ c = 5 ∨ c = 6 ∨ c = 7 := by omega
  rcases this with h | h | h | h | h | h | h | h <;> subst h <;> decide

example : inFrag Gen.Policy.sqliteOps C05.ex1 = true ∧ inFrag Gen.Policy.postgresOps C05.ex1 = true ∧
    inFrag Gen.Policy.mysqlOps C05.ex1 = true := by decide
/-- the instance, evaluated: the statement model's text for `ex1` -/
example : textI .sqlite (rEx .sqlite (conc demoEnv C05.ex1)) =
    "(NOT (\"c\" BETWEEN (\"c\" = \"c\") AND \"c\" + \"c\")) AND \"c\" LIKE COALESCE(\"c\" * \"c\") ESCAPE TRUE".toList := by
  decide

end SeaQ.Props.C05Stmt
