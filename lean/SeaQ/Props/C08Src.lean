import SeaQ.Gen.Clauses
import SeaQ.Props.C08
/-!
# C08 — the clause order of the model is the call order of the source

`Props/C08` proves that the clauses the statement *model* writes follow the grammar.  The model's
renderers are hand-written; here the order in which the crate's four statement renderers call their
clause emitters (`Gen/Clauses`, read from the bodies of `prepare_{select,insert,update,delete}_statement`
on every run) is mapped to clause tags and compared with the order the model uses.  `prepare_output`
(MSSQL-style OUTPUT, empty on the three backends), `quote` and the DEFAULT VALUES helper carry no clause.
-/
namespace SeaQ.Props.C08Src
open SeaQ.Props.C08 SeaQ.Gen.Clauses

/-- consecutive repetitions once -/
def squash : List Clause → List Clause
  | [] => []
  | [c] => [c]
  | c :: d :: r => if c == d then squash (d :: r) else c :: squash (d :: r)

def selectTag (s : String) : Option Clause :=
  if s == "prepare_with_clause" then some .with_
  else if s == "prepare_select_distinct" || s == "prepare_select_expr" then some .head
  else if s == "prepare_table_ref" || s == "prepare_index_hints" || s == "prepare_table_sample" then some .from_
  else if s == "prepare_join_expr" then some .joins
  else if s == "prepare_condition:WHERE" then some .where_
  else if s == "prepare_simple_expr" then some .groupBy
  else if s == "prepare_condition:HAVING" then some .having
  else if s == "prepare_union_statement" then some .setOps
  else if s == "prepare_order_expr" then some .orderBy
  else if s == "prepare_select_limit_offset" then some .limit
  else if s == "prepare_select_lock" then some .lock
  else if s == "prepare_window_statement" then some .window
  else none

/-- the SELECT renderer emits its clauses in the order of the model's clause list (LIMIT and OFFSET are one
emitter; the named WINDOW clause after the lock is the recorded finding) -/
theorem select_source_order :
    squash (selectCalls.filterMap selectTag) =
      [.with_, .head, .from_, .joins, .where_, .groupBy, .having, .setOps, .orderBy, .limit, .lock, .window] := by decide

/-- … which is the model's grammar sequence without the OFFSET tag -/
theorem select_source_order_is_model :
    squash (selectCalls.filterMap selectTag) = selectGrammar.filter (· != .offset) := by decide

def updateTag (s : String) : Option Clause :=
  if s == "prepare_with_clause" then some .with_
  else if s == "prepare_table_ref" then some .head
  else if s == "prepare_update_join" then some .on
  else if s == "prepare_update_column" || s == "prepare_simple_expr" then some .set
  else if s == "prepare_update_from" then some .from_
  else if s == "prepare_update_condition" then some .where_
  else if s == "prepare_returning" then some .returning
  else if s == "prepare_update_order_by" then some .orderBy
  else if s == "prepare_update_limit" then some .limit
  else none

theorem update_source_order : squash (updateCalls.filterMap updateTag) = updateGrammar := by decide

def deleteTag (s : String) : Option Clause :=
  if s == "prepare_with_clause" then some .with_
  else if s == "prepare_table_ref" then some .head
  else if s == "prepare_condition:WHERE" then some .where_
  else if s == "prepare_returning" then some .returning
  else if s == "prepare_delete_order_by" then some .orderBy
  else if s == "prepare_delete_limit" then some .limit
  else none

theorem delete_source_order :
    squash (deleteCalls.filterMap deleteTag) = [.with_, .head, .where_, .returning, .orderBy, .limit] := by decide

def insertTag (s : String) : Option Clause :=
  if s == "prepare_with_clause" then some .with_
  else if s == "prepare_insert" || s == "prepare_table_ref" then some .head
  else if s == "insert_default_values" || s == "prepare_simple_expr" || s == "prepare_select_statement" then some .set
  else if s == "prepare_on_conflict" then some .on
  else if s == "prepare_returning" then some .returning
  else none

theorem insert_source_order :
    squash (insertCalls.filterMap insertTag) = [.with_, .head, .set, .on, .returning] := by decide

end SeaQ.Props.C08Src
