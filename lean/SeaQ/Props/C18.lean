import SeaQ.Model.ValueEq
import SeaQ.Gen.Hashable
/-!
# C18 — `Value` equality and hashing are coherent (`hashable-value`)

`valueEq` / `hashKey` model `impl PartialEq / Hash for Value`; which helper each variant uses is
regenerated from the source (`Gen/Hashable`) and `arms_ok` checks that every variant has
exactly one diagonal equality arm and a hash arm of the same kind, and that the helper bodies
are the ones modelled.  The theorems hold for all payloads, NaNs of every payload and sign,
both zeros, vectors of any length and arbitrarily nested arrays.
-/
namespace SeaQ.Props.C18
open SeaQ.ValueEq

/-! floats -/
theorem F.eq_refl (a : F) : F.eq a a = true := by cases a <;> simp [F.eq]
theorem F.eq_symm (a b : F) : F.eq a b = F.eq b a := by
  cases a <;> cases b <;> simp [F.eq, Bool.beq_comm]
theorem F.eq_trans (a b c : F) (h1 : F.eq a b = true) (h2 : F.eq b c = true) : F.eq a c = true := by
  cases a <;> cases b <;> cases c <;> simp_all [F.eq]
theorem F.eq_key (a b : F) (h : F.eq a b = true) : F.key a = F.key b := by
  cases a <;> cases b <;> simp_all [F.eq, F.key]

/-! options over an equivalence -/
theorem optEq_refl {α} (eq : α → α → Bool) (hr : ∀ a, eq a a = true) (p : Option α) :
    optEq eq p p = true := by cases p <;> simp [optEq, hr]
theorem optEq_symm {α} (eq : α → α → Bool) (hs : ∀ a b, eq a b = eq b a) (p q : Option α) :
    optEq eq p q = optEq eq q p := by cases p <;> cases q <;> simp [optEq, hs]
theorem optEq_trans {α} (eq : α → α → Bool) (ht : ∀ a b c, eq a b = true → eq b c = true → eq a c = true)
    (p q r : Option α) (h1 : optEq eq p q = true) (h2 : optEq eq q r = true) : optEq eq p r = true := by
  cases p <;> cases q <;> cases r <;> simp_all [optEq]
  exact ht _ _ _ h1 h2

theorem optEq_key {α β} (eq : α → α → Bool) (k : α → β) (hk : ∀ a b, eq a b = true → k a = k b)
    (p q : Option α) (h : optEq eq p q = true) : p.map k = q.map k := by
  cases p <;> cases q <;> simp_all [optEq]
  exact hk _ _ h

/-! vectors -/
theorem vecEq_refl : ∀ l : List F, vecEq l l = true
  | [] => rfl
  | a :: as => by simp [vecEq, F.eq_refl, vecEq_refl as]
theorem vecEq_symm : ∀ l m : List F, vecEq l m = vecEq m l
  | [], [] => rfl
  | [], _ :: _ => rfl
  | _ :: _, [] => rfl
  | a :: as, b :: bs => by simp [vecEq, F.eq_symm a b, vecEq_symm as bs]
theorem vecEq_trans : ∀ l m n : List F, vecEq l m = true → vecEq m n = true → vecEq l n = true
  | [], [], [], _, _ => rfl
  | a :: as, b :: bs, c :: cs, h1, h2 => by
    simp only [vecEq, Bool.and_eq_true] at h1 h2 ⊢
    exact ⟨F.eq_trans a b c h1.1 h2.1, vecEq_trans as bs cs h1.2 h2.2⟩
  | [], [], _ :: _, _, h2 => by simp [vecEq] at h2
  | [], _ :: _, _, h1, _ => by simp [vecEq] at h1
  | _ :: _, [], _, h1, _ => by simp [vecEq] at h1
  | _ :: _, _ :: _, [], _, h2 => by simp [vecEq] at h2
theorem vecEq_key : ∀ l m : List F, vecEq l m = true → l.map F.key = m.map F.key
  | [], [], _ => rfl
  | a :: as, b :: bs, h => by
    simp only [vecEq, Bool.and_eq_true] at h
    simp [F.eq_key a b h.1, vecEq_key as bs h.2]
  | [], _ :: _, h => by simp [vecEq] at h
  | _ :: _, [], h => by simp [vecEq] at h

mutual
  /-- reflexive — even for NaN -/
  theorem valueEq_refl : ∀ v : Val, valueEq v v = true
    | .plain t p => by simp [valueEq, optEq_refl]
    | .flt t p => by simp [valueEq, optEq_refl _ F.eq_refl]
    | .json p => by simp [valueEq, optEq_refl]
    | .vector p => by simp [valueEq, optEq_refl _ vecEq_refl]
    | .array ty none => by simp [valueEq]
    | .array ty (some l) => by simp [valueEq, listEq_refl l]
  theorem listEq_refl : ∀ l : VList, listEq l l = true
    | .nil => rfl
    | .cons h t => by simp [listEq, valueEq_refl h, listEq_refl t]
end

mutual
  theorem valueEq_symm : ∀ v w : Val, valueEq v w = valueEq w v
    | .plain t p, w => by
      cases w with
      | plain t' p' =>
        simp only [valueEq]
        rw [optEq_symm _ (fun a b => Bool.beq_comm) p p', Bool.beq_comm]
      | array ty' p' => cases p' <;> simp [valueEq]
      | _ => simp [valueEq]
    | .flt t p, w => by
      cases w with
      | flt t' p' =>
        simp only [valueEq]
        rw [optEq_symm _ F.eq_symm p p', Bool.beq_comm]
      | array ty' p' => cases p' <;> simp [valueEq]
      | _ => simp [valueEq]
    | .json p, w => by
      cases w with
      | json p' =>
        simp only [valueEq]
        rw [optEq_symm _ (fun a b => Bool.beq_comm) p p']
      | array ty' p' => cases p' <;> simp [valueEq]
      | _ => simp [valueEq]
    | .vector p, w => by
      cases w with
      | vector p' =>
        simp only [valueEq]
        rw [optEq_symm _ vecEq_symm p p']
      | array ty' p' => cases p' <;> simp [valueEq]
      | _ => simp [valueEq]
    | .array ty none, w => by
      cases w with
      | array ty' p' => cases p' <;> simp [valueEq, Bool.beq_comm]
      | _ => simp [valueEq]
    | .array ty (some l), w => by
      cases w with
      | array ty' p' =>
        cases p' with
        | none => simp [valueEq]
        | some l' => simp [valueEq, listEq_symm l l', Bool.beq_comm]
      | _ => simp [valueEq]
  theorem listEq_symm : ∀ l m : VList, listEq l m = listEq m l
    | .nil, .nil => rfl
    | .nil, .cons _ _ => rfl
    | .cons _ _, .nil => rfl
    | .cons a as, .cons b bs => by simp [listEq, valueEq_symm a b, listEq_symm as bs]
end

mutual
  theorem valueEq_trans : ∀ u v w : Val, valueEq u v = true → valueEq v w = true → valueEq u w = true
    | .plain t p, v, w, h1, h2 => by
      cases v with
      | plain t' p' =>
        cases w with
        | plain t'' p'' =>
          simp only [valueEq, Bool.and_eq_true, beq_iff_eq] at h1 h2 ⊢
          exact ⟨h1.1.trans h2.1, optEq_trans _ (fun a b c h h' => by simp_all) _ _ _ h1.2 h2.2⟩
        | array ty' q => cases q <;> simp [valueEq] at h2
        | _ => simp [valueEq] at h2
      | array ty' q => cases q <;> simp [valueEq] at h1
      | _ => simp [valueEq] at h1
    | .flt t p, v, w, h1, h2 => by
      cases v with
      | flt t' p' =>
        cases w with
        | flt t'' p'' =>
          simp only [valueEq, Bool.and_eq_true, beq_iff_eq] at h1 h2 ⊢
          exact ⟨h1.1.trans h2.1, optEq_trans _ F.eq_trans _ _ _ h1.2 h2.2⟩
        | array ty' q => cases q <;> simp [valueEq] at h2
        | _ => simp [valueEq] at h2
      | array ty' q => cases q <;> simp [valueEq] at h1
      | _ => simp [valueEq] at h1
    | .json p, v, w, h1, h2 => by
      cases v with
      | json p' =>
        cases w with
        | json p'' =>
          simp only [valueEq] at h1 h2 ⊢
          exact optEq_trans _ (fun a b c h h' => by simp_all) _ _ _ h1 h2
        | array ty' q => cases q <;> simp [valueEq] at h2
        | _ => simp [valueEq] at h2
      | array ty' q => cases q <;> simp [valueEq] at h1
      | _ => simp [valueEq] at h1
    | .vector p, v, w, h1, h2 => by
      cases v with
      | vector p' =>
        cases w with
        | vector p'' =>
          simp only [valueEq] at h1 h2 ⊢
          exact optEq_trans _ vecEq_trans _ _ _ h1 h2
        | array ty' q => cases q <;> simp [valueEq] at h2
        | _ => simp [valueEq] at h2
      | array ty' q => cases q <;> simp [valueEq] at h1
      | _ => simp [valueEq] at h1
    | .array ty none, v, w, h1, h2 => by
      cases v with
      | array ty' p' =>
        cases p' with
        | none =>
          cases w with
          | array ty'' p'' => cases p'' <;> simp_all [valueEq]
          | _ => simp [valueEq] at h2
        | some l' => simp [valueEq] at h1
      | _ => simp [valueEq] at h1
    | .array ty (some l), v, w, h1, h2 => by
      cases v with
      | array ty' p' =>
        cases p' with
        | none => simp [valueEq] at h1
        | some l' =>
          cases w with
          | array ty'' p'' =>
            cases p'' with
            | none => simp [valueEq] at h2
            | some l'' =>
              simp only [valueEq, Bool.and_eq_true, beq_iff_eq] at h1 h2 ⊢
              exact ⟨h1.1.trans h2.1, listEq_trans l l' l'' h1.2 h2.2⟩
          | _ => simp [valueEq] at h2
      | _ => simp [valueEq] at h1
  theorem listEq_trans : ∀ l m n : VList, listEq l m = true → listEq m n = true → listEq l n = true
    | .nil, .nil, .nil, _, _ => rfl
    | .cons a as, .cons b bs, .cons c cs, h1, h2 => by
      simp only [listEq, Bool.and_eq_true] at h1 h2 ⊢
      exact ⟨valueEq_trans a b c h1.1 h2.1, listEq_trans as bs cs h1.2 h2.2⟩
    | .nil, .nil, .cons _ _, _, h2 => by simp [listEq] at h2
    | .nil, .cons _ _, _, h1, _ => by simp [listEq] at h1
    | .cons _ _, .nil, _, h1, _ => by simp [listEq] at h1
    | .cons _ _, .cons _ _, .nil, _, h2 => by simp [listEq] at h2
end

mutual
  /-- **equal values hash equally** -/
  theorem valueEq_hash : ∀ v w : Val, valueEq v w = true → hashKey v = hashKey w
    | .plain t p, w, h => by
      cases w with
      | plain t' p' =>
        simp only [valueEq, Bool.and_eq_true, beq_iff_eq] at h
        have := optEq_key (· == ·) id (fun a b hab => by simpa using hab) p p' h.2
        simp only [Option.map_id_fun, id_eq] at this
        simp [hashKey, h.1, this]
      | array ty' q => cases q <;> simp [valueEq] at h
      | _ => simp [valueEq] at h
    | .flt t p, w, h => by
      cases w with
      | flt t' p' =>
        simp only [valueEq, Bool.and_eq_true, beq_iff_eq] at h
        simp [hashKey, h.1, optEq_key F.eq F.key F.eq_key p p' h.2]
      | array ty' q => cases q <;> simp [valueEq] at h
      | _ => simp [valueEq] at h
    | .json p, w, h => by
      cases w with
      | json p' =>
        simp only [valueEq] at h
        have := optEq_key (· == ·) id (fun a b hab => by simpa using hab) p p' h
        simp only [Option.map_id_fun, id_eq] at this
        simp [hashKey, this]
      | array ty' q => cases q <;> simp [valueEq] at h
      | _ => simp [valueEq] at h
    | .vector p, w, h => by
      cases w with
      | vector p' =>
        simp only [valueEq] at h
        simp [hashKey, optEq_key vecEq (·.map F.key) vecEq_key p p' h]
      | array ty' q => cases q <;> simp [valueEq] at h
      | _ => simp [valueEq] at h
    | .array ty none, w, h => by
      cases w with
      | array ty' p' => cases p' <;> simp_all [valueEq, hashKey]
      | _ => simp [valueEq] at h
    | .array ty (some l), w, h => by
      cases w with
      | array ty' p' =>
        cases p' with
        | none => simp [valueEq] at h
        | some l' =>
          simp only [valueEq, Bool.and_eq_true, beq_iff_eq] at h
          simp [hashKey, h.1, listEq_hash l l' h.2]
      | _ => simp [valueEq] at h
  theorem listEq_hash : ∀ l m : VList, listEq l m = true → listKey l = listKey m
    | .nil, .nil, _ => rfl
    | .cons a as, .cons b bs, h => by
      simp only [listEq, Bool.and_eq_true] at h
      simp [listKey, valueEq_hash a b h.1, listEq_hash as bs h.2]
    | .nil, .cons _ _, h => by simp [listEq] at h
    | .cons _ _, .nil, h => by simp [listEq] at h
end

/-- values of different variants are never equal -/
theorem diff_variant (v w : Val) (h : variantOf v ≠ variantOf w) : valueEq v w = false := by
  cases v with
  | array ty p =>
    cases p <;> (cases w with
      | array ty' q => simp [variantOf] at h
      | _ => simp [valueEq])
  | plain t p =>
    cases w with
    | plain t' p' =>
      have : t ≠ t' := fun e => h (by simp [variantOf, e])
      simp [valueEq, this]
    | array ty' q => cases q <;> simp [valueEq]
    | _ => simp [valueEq]
  | flt t p =>
    cases w with
    | flt t' p' =>
      have : t ≠ t' := fun e => h (by simp [variantOf, e])
      simp [valueEq, this]
    | array ty' q => cases q <;> simp [valueEq]
    | _ => simp [valueEq]
  | json p =>
    cases w with
    | json p' => simp [variantOf] at h
    | array ty' q => cases q <;> simp [valueEq]
    | _ => simp [valueEq]
  | vector p =>
    cases w with
    | vector p' => simp [variantOf] at h
    | array ty' q => cases q <;> simp [valueEq]
    | _ => simp [valueEq]

/-- **C18**: `valueEq` is an equivalence relation -/
theorem C18_equivalence : (∀ v, valueEq v v = true) ∧ (∀ v w, valueEq v w = valueEq w v) ∧
    (∀ u v w, valueEq u v = true → valueEq v w = true → valueEq u w = true) :=
  ⟨valueEq_refl, valueEq_symm, valueEq_trans⟩

/-- value tuples (derived `PartialEq` / `Hash` over `Value`) inherit both properties -/
theorem C18_tuple (l m : VList) (h : listEq l m = true) : listKey l = listKey m := listEq_hash l m h

/-! the wiring regenerated from the source -/
open SeaQ.Gen.Hashable in
/-- every variant has exactly one equality arm, on the diagonal, and a hash arm of the same
kind; the fall-through arm is `false`; the helper bodies are the modelled ones -/
theorem arms_ok : armsOK = true := by decide

/-! Non-vacuity: NaNs with different payloads are equal and hash equally; +0 / -0 likewise;
a nested array. -/
example : valueEq (.flt 9 (some (.nan 1 false))) (.flt 9 (some (.nan 77 true))) = true := by decide
example : valueEq (.flt 9 (some (.zero false))) (.flt 9 (some (.zero true))) = true := by decide
example : valueEq (.flt 9 (some (.nan 1 false))) (.flt 9 none) = false := by decide
example : valueEq (.array 3 (some (.cons (.array 3 (some (.cons (.flt 9 (some (.zero true))) .nil))) .nil)))
    (.array 3 (some (.cons (.array 3 (some (.cons (.flt 9 (some (.zero false))) .nil))) .nil))) = true := by decide

end SeaQ.Props.C18
