import SeaQ.Model.Affinity
/-!
# C14 — MySQL / Postgres schema statements: the type mapping

Over the type-name tables regenerated from `src/backend/{mysql,postgres}/table.rs`
(`SeaQ.Gen.ColTypes`), for every `ColumnType` variant and every value of its numeric parameters:

* `*_types_defined_partial`: the written name is a type the dialect defines, in a form it defines
  (plain, or with as many parameters as the type takes).  One arm is excluded, with its witness:
  MySQL writes the word `unsupported` for `Interval` (`mysql_interval_not_a_type`; MySQL has no
  interval type, so there is nothing to map it to).  (Postgres used to write `money(p, s)` although
  `money` takes no modifier; that is repaired and `postgres_types_defined` has no exclusion.)
* `params_in_text`: every parameter of a template appears in the written name as its decimal
  digits — lengths, precisions and scales are preserved wherever the template mentions them —
  and `parameterised_forms`: the variants that carry a length / precision have a template that
  mentions it, in order.
* `mysql_unsigned_exact`: ` UNSIGNED` follows exactly the four unsigned variants.
* `postgres_serial_form`: an auto-increment column is written smallserial / serial / bigserial for
  SmallInteger / Integer / BigInteger and for nothing else.

That whole statements parse into exactly the declared elements is decided by the check's
reference DDL grammar on generated statements.
-/
namespace SeaQ.Props.C14
open SeaQ.Affinity SeaQ.Gen.ColTypes

/-- the literal prefix of a template up to its first `(` -/
def baseName (t : List Seg) : String :=
  match t with
  | .lit s :: _ => String.ofList (s.toList.takeWhile (· != '('))
  | _ => ""

def parNames : List Seg → List String
  | [] => []
  | .par n :: r => n :: parNames r
  | .lit _ :: r => parNames r

/-- does the template have the shape `name`, `name(<p>)` or `name(<p>, <q>)` (or a fixed literal such as `varchar(255)`) -/
def wellShaped : List Seg → Bool
  | [.lit _] => true
  | [.lit a, .par _, .lit b] => a.toList.getLast? == some '(' && b == ")"
  | [.lit a, .par _, .lit m, .par _, .lit b] => a.toList.getLast? == some '(' && m == ", " && b == ")"
  | _ => false

/-- MySQL 8.0 data types the table may name, with the number of parameters the type accepts -/
def mysqlDefined : List (String × Nat) :=
  [("char", 1), ("varchar", 1), ("text", 0), ("tinyint", 0), ("smallint", 0), ("int", 0), ("bigint", 0), ("float", 0), ("double", 0),
   ("decimal", 2), ("datetime", 0), ("timestamp", 0), ("time", 0), ("date", 0), ("year", 0), ("binary", 1), ("varbinary", 1), ("blob", 0),
   ("bit", 1), ("bool", 0), ("json", 0)]

/-- PostgreSQL 16 data types the table may name, with the number of modifiers the type accepts -/
def postgresDefined : List (String × Nat) :=
  [("char", 1), ("varchar", 1), ("text", 0), ("smallint", 0), ("integer", 0), ("bigint", 0), ("real", 0), ("double precision", 0), ("decimal", 2),
   ("timestamp without time zone", 0), ("timestamp", 0), ("timestamp with time zone", 0), ("time", 0), ("date", 0), ("bytea", 0), ("bit", 1),
   ("varbit", 1), ("bool", 0), ("money", 0), ("json", 0), ("jsonb", 0), ("uuid", 0), ("vector", 1), ("cidr", 0), ("inet", 0), ("macaddr", 0), ("ltree", 0)]

def templateOK (defined : List (String × Nat)) (t : List Seg) : Bool :=
  wellShaped t && (match defined.find? (·.1 == baseName t) with
    | some (_, k) => (parNames t).length ≤ k
    | none => false)

/-- arms whose text is computed (custom identifier, enum name, the element type of an array, interval fields) are not type-name templates -/
def armOK (defined : List (String × Nat)) (excluded : List String) (arm : Arm) : Bool :=
  arm.computed || arm.variants.any excluded.contains || arm.templates.all (templateOK defined)

theorem mysql_types_defined_partial : mysql.all (armOK mysqlDefined ["Interval"]) = true := by decide
theorem mysql_interval_not_a_type : (mysql.filter (·.variants.contains "Interval")).all (armOK mysqlDefined []) = false := by decide

theorem postgres_types_defined : postgres.all (armOK postgresDefined []) = true := by decide

/-! ## parameters -/

/-- a parameter of the template appears in the instantiated name as its decimal digits -/
theorem params_in_text (ρ : String → Nat) : ∀ (t : List Seg) (n : String), n ∈ parNames t → natText (ρ n) <:+: instantiate ρ t := by
  intro t
  induction t with
  | nil => intro n h; simp [parNames] at h
  | cons seg r ih =>
    intro n h
    cases seg with
    | lit s =>
      simp only [parNames] at h
      obtain ⟨a, b, hab⟩ := ih n h
      exact ⟨s.toList ++ a, b, by simp [instantiate, ← hab, List.append_assoc]⟩
    | par m =>
      simp only [parNames, List.mem_cons] at h
      cases h with
      | inl h => subst h; exact ⟨[], instantiate ρ r, by simp [instantiate]⟩
      | inr h =>
        obtain ⟨a, b, hab⟩ := ih n h
        exact ⟨natText (ρ m) ++ a, b, by simp [instantiate, ← hab, List.append_assoc]⟩

/-- the variants that carry a length / precision have a template mentioning it, parameters in order -/
def hasForm (table : List Arm) (v : String) (ps : List String) : Bool :=
  table.any (fun arm => arm.variants.contains v && arm.templates.any (fun t => parNames t == ps))

theorem parameterised_forms :
    (hasForm mysql "Char" ["length"] && hasForm mysql "String" ["length"] && hasForm mysql "Decimal" ["precision", "scale"] &&
     hasForm mysql "Binary" ["length"] && hasForm mysql "VarBinary" ["length"] && hasForm mysql "Bit" ["length"] &&
     hasForm postgres "Char" ["length"] && hasForm postgres "String" ["length"] && hasForm postgres "Decimal" ["precision", "scale"] &&
     hasForm postgres "Bit" ["length"] && hasForm postgres "VarBit" ["length"] && hasForm postgres "Vector" ["size"]) = true := by decide

/-- no template mentions a parameter twice or out of the declared order -/
theorem parameter_order : (mysql ++ postgres ++ sqlite).all (fun arm => arm.computed || arm.templates.all (fun t =>
    parNames t == [] || parNames t == ["length"] || parNames t == ["precision", "scale"] || parNames t == ["size"])) = true := by decide

/-! ## unsigned, auto-increment -/

theorem mysql_unsigned_exact :
    mysqlUnsigned.all ["TinyUnsigned", "SmallUnsigned", "Unsigned", "BigUnsigned"].contains = true ∧
    ["TinyUnsigned", "SmallUnsigned", "Unsigned", "BigUnsigned"].all mysqlUnsigned.contains = true := by decide

def serialOf (v : String) : Option (List (List Seg)) :=
  (postgresSerial.find? (·.variants.contains v)).map (·.templates)

theorem postgres_serial_form :
    serialOf "SmallInteger" = some [[.lit "smallserial"]] ∧ serialOf "Integer" = some [[.lit "serial"]] ∧
    serialOf "BigInteger" = some [[.lit "bigserial"]] ∧
    (postgresSerial.filter (fun arm => !arm.unsupported)).all (fun arm => arm.variants.all ["SmallInteger", "Integer", "BigInteger"].contains) = true := by
  decide

/-! Non-vacuity: a length survives into the text. -/
example : natText 4096 <:+: instantiate (fun _ => 4096) [.lit "varchar(", .par "length", .lit ")"] :=
  params_in_text (fun _ => 4096) [.lit "varchar(", .par "length", .lit ")"] "length" (by decide)

end SeaQ.Props.C14
