import SeaQ.Lemmas.TokenTables
/-!
# C16 — the SQL tokenizer is lossless and always terminates

All theorems hold for every input string and every alphabetic predicate `α`
(the Unicode table is not part of the model).  `cls α` is built from the tables
generated from `src/token.rs`.
-/
namespace SeaQ.Props.C16
open SeaQ.Token SeaQ.Gen.Token

/-- Concatenating the tokens reproduces the input exactly. -/
theorem tokenize_concat (α : Char → Bool) (s : List Char) :
    ((tokenize (cls α) s).map Token.text).flatten = s := by
  have h1 := fuel_concat (cls α) s.length s
  have h2 := fuel_done (cls α) s.length s (Nat.le_refl _)
  rw [h2] at h1; simpa [tokenize] using h1

/-- Every token is non-empty. -/
theorem tokenize_nonempty (α : Char → Bool) (s : List Char) :
    ∀ t ∈ tokenize (cls α) s, t.text ≠ [] := by
  unfold tokenize
  generalize s.length = f
  induction f generalizing s with
  | zero => simp [tokenizeFuel]
  | succ f ih =>
    unfold tokenizeFuel
    split
    · simp
    · rename_i t r h
      intro t' ht'
      simp at ht'
      rcases ht' with rfl | h'
      · exact (next_eq (cls α) s _ r h).2
      · exact ih r t' h'

/-- Termination: iterating `next` consumes the whole input within `|s|` steps (each step
consumes at least one character), and `next` never gets stuck on a non-empty input. -/
theorem tokenize_total (α : Char → Bool) (s : List Char) :
    (tokenizeFuel (cls α) s.length s).2 = [] :=
  fuel_done (cls α) s.length s (Nat.le_refl _)

theorem next_progress (α : Char → Bool) (c : Char) (rest : List Char) :
    ∃ t r, next (cls α) (c :: rest) = some (t, r) ∧ r.length < (c :: rest).length := by
  obtain ⟨t, r, h⟩ := next_some (cls α) c rest
  refine ⟨t, r, h, ?_⟩
  have := next_eq (cls α) _ t r h
  have h1 : (t.text ++ r).length = (c :: rest).length := by rw [this.1]
  have h2 : 0 < t.text.length := List.length_pos_iff.mpr this.2
  simp at h1 ⊢; omega

/-- Quoted text is one token: for every delimiter pair `p` of the crate's table, at a token
boundary, `op · units · cl` followed by anything that is not a doubling of `cl` is scanned as
exactly one `Quoted` token containing all of it.  `units` is the independent specification
of quoted content (`QUnit`): plain characters, doubled closing delimiters (where the
delimiter doubles), and backslash-escaped characters (including escaped delimiters). -/
theorem quoted_one_token (α : Char → Bool) (p : Char × Char) (hp : p ∈ delimEndFor)
    (hα : α p.1 = false)
    (us : List QUnit) (hu : ∀ u ∈ us, u.ok (delimOf p) escapeChar) (post : List Char)
    (hpost : (delimOf p).dbl = true → post.head? ≠ some p.2) :
    next (cls α) (p.1 :: (flat (delimOf p) escapeChar us ++ p.2 :: post))
      = some (⟨.quoted, p.1 :: (flat (delimOf p) escapeChar us ++ [p.2])⟩, post) := by
  have hk := delimOK α p hp
  have hq := qbody_units (cls α) (delimOf p) escapeChar hk us hu post hpost
  have hstart : delimStartChars.contains p.1 = true := by
    have := List.all_eq_true.mp start_is_delim p hp
    simpa using this
  have hns := List.all_eq_true.mp start_not_space p.1 (by simpa using hstart)
  simp only [Bool.and_eq_true, Bool.not_eq_true'] at hns
  have e1 : (cls α).space p.1 = false := hns.1
  have e2 : (cls α).alnum p.1 = false := by
    show (α p.1 || isAsciiDigit p.1) = false
    simp [hα, hns.2]
  have h1 : (span (cls α).space (p.1 :: (flat (delimOf p) escapeChar us ++ p.2 :: post))).1 = [] := by
    simp [span, e1]
  have h2 : (unquoted (cls α) (p.1 :: (flat (delimOf p) escapeChar us ++ p.2 :: post))).1 = [] := by
    simp [unquoted, e2]
  have h3 : quoted (cls α) (p.1 :: (flat (delimOf p) escapeChar us ++ p.2 :: post))
      = (p.1 :: (flat (delimOf p) escapeChar us ++ [p.2]), post) := by
    have hd : (cls α).dstart p.1 = true := hstart
    simp only [quoted, hd, if_true]
    have : qbody (cls α) p.1 false (flat (delimOf p) escapeChar us ++ p.2 :: post)
        = (flat (delimOf p) escapeChar us ++ [p.2], post) := hq
    rw [this]; rfl
  unfold next
  rw [h1, h2, h3]
  simp

/-- … and the tokenizer continues after it as if started afresh on `post`. -/
theorem quoted_then_rest (α : Char → Bool) (p : Char × Char) (hp : p ∈ delimEndFor)
    (hα : α p.1 = false)
    (us : List QUnit) (hu : ∀ u ∈ us, u.ok (delimOf p) escapeChar) (post : List Char)
    (hpost : (delimOf p).dbl = true → post.head? ≠ some p.2) (f : Nat) :
    (tokenizeFuel (cls α) (f+1) (p.1 :: (flat (delimOf p) escapeChar us ++ p.2 :: post))).1
      = ⟨.quoted, p.1 :: (flat (delimOf p) escapeChar us ++ [p.2])⟩
          :: (tokenizeFuel (cls α) f post).1 := by
  simp [tokenizeFuel, quoted_one_token α p hp hα us hu post hpost]

/-- A placeholder mark (or any other character) inside quotes is never seen as punctuation:
the only token produced from the quoted span is the `Quoted` one. -/
theorem mark_inside_quotes_not_punct (α : Char → Bool) (p : Char × Char) (hp : p ∈ delimEndFor)
    (hα : α p.1 = false)
    (us : List QUnit) (hu : ∀ u ∈ us, u.ok (delimOf p) escapeChar) (post : List Char)
    (hpost : (delimOf p).dbl = true → post.head? ≠ some p.2) :
    ∃ t, next (cls α) (p.1 :: (flat (delimOf p) escapeChar us ++ p.2 :: post)) = some (t, post)
      ∧ t.kind = .quoted := ⟨_, quoted_one_token α p hp hα us hu post hpost, rfl⟩

/-- `Token::unquote` of such a token yields the content with doubled delimiters collapsed
(backslash escapes are kept verbatim, as the crate does). -/
theorem unquote_quoted (α : Char → Bool) (p : Char × Char) (hp : p ∈ delimEndFor)
    (us : List QUnit) (hu : ∀ u ∈ us, u.ok (delimOf p) escapeChar) :
    Token.unquote (cls α) ⟨.quoted, p.1 :: (flat (delimOf p) escapeChar us ++ [p.2])⟩
      = some (decodedAll (delimOf p) escapeChar us) := by
  have hk := delimOK α p hp
  have hstart : (cls α).dstart p.1 = true := by
    have := List.all_eq_true.mp start_is_delim p hp
    show delimStartChars.contains p.1 = true
    simpa using this
  have := uqbody_units (cls α) (delimOf p) escapeChar hk us hu
  simp only [Token.unquote, unquoteText, hstart, if_true]
  exact congrArg some this

/-! Non-vacuity: the hypotheses are met by concrete, non-trivial inputs. -/
example : (Char.ofNat 39, Char.ofNat 39) ∈ delimEndFor := by decide
example : (Char.ofNat 91, Char.ofNat 93) ∈ delimEndFor := by decide
example : ∀ u ∈ [QUnit.plain 'a', .doubled, .escaped '\'', .plain '?'],
    u.ok (delimOf (Char.ofNat 39, Char.ofNat 39)) escapeChar := by
  intro u hu
  simp at hu
  rcases hu with rfl | rfl | rfl | rfl
  · exact ⟨by decide, by decide⟩
  · show (delimOf _).dbl = true
    decide
  · trivial
  · exact ⟨by decide, by decide⟩
example : (tokenize (cls fun c => c.isAlpha) "a='x''?\\'?' ?".toList).map (·.kind)
    = [.unquoted, .punct, .quoted, .space, .punct] := by decide

end SeaQ.Props.C16
