import SeaQ.Lemmas.Literal
/-!
# C03 — inlined text and binary literals decode to exactly the supplied value

`lexStr b` / `lexBytes b` are the engines' literal lexers (specification, `Model/Literal`).
`writeStr` / `writeBytes` / `charLit` model the crate's writers over the escape tables
regenerated from the source.  Each theorem says: what the crate writes, followed by any
text that does not continue the literal, is read by the engine as ONE literal whose decoded
content is the supplied value, and the engine stops exactly at the end of what was written.

Status on the current tree: three defects found by this check were repaired in sea-query
(`fix:` commits, see `known_findings.json`): `Value::Char` outside ASCII, unescaped MySQL
ENUM labels, and U+001A written as `\\z`.  The only exclusion left is NUL on Postgres,
which has no representation in a Postgres literal (the property excludes it itself).
-/
namespace SeaQ.Props.C03
open SeaQ.Escape SeaQ.Literal SeaQ.Gen.Escape

/-- characters for which the claim is not made (see the header) -/
def excluded : Backend → List Char
  | .mysql => []
  | .postgres => [Char.ofNat 0]
  | .sqlite => []

def Representable (b : Backend) (s : List Char) : Prop := ∀ x ∈ s, x ∉ excluded b

def chainOf (b : Backend) : Chain := (escapeOverride b).getD defaultEscape

theorem escape_eq (b : Backend) (s : List Char) : escape b s = applyChain (chainOf b) s := by
  unfold escape chainOf
  cases escapeOverride b <;> rfl

/-- table obligations, re-checked on every regeneration -/
theorem mysql_ok : litOKE mysqlEsc (excluded .mysql) (chainOf .mysql) = true := by decide
theorem postgres_ok : litOKE pgEsc (excluded .postgres) (chainOf .postgres) = true := by decide
theorem sqlite_ok : litOKP (chainOf .sqlite) = true := by decide

theorem single (b : Backend) : allSingle (chainOf b) = true := by cases b <;> decide

/-- **C03, strings.** -/
theorem strLit_decodes (b : Backend) (s : List Char) (h : Representable b s) (rest : List Char)
    (hr : rest.head? ≠ some q) : lexStr b (writeStr b s ++ rest) = some (s, rest) := by
  have hmap := applyChain_is_map (chainOf b) (single b) s
  cases b with
  | mysql =>
    have hg : ∀ x ∈ s, goodEB mysqlEsc x (applyChain (chainOf .mysql) [x]) = true :=
      fun x hx => goodE_all _ _ _ mysql_ok x (h x hx)
    have := bodyEsc_units mysqlEsc _ s hg rest hr
    simp only [writeStr, escape_eq, hmap, lexStr, List.cons_append, List.append_assoc,
      beq_self_eq_true, if_true]
    exact this
  | sqlite =>
    have hg : ∀ x ∈ s, goodPB x (applyChain (chainOf .sqlite) [x]) = true :=
      fun x _ => goodP_all _ sqlite_ok x
    have := bodyPlain_units _ s hg rest hr
    simp only [writeStr, escape_eq, hmap, lexStr, List.cons_append, List.append_assoc,
      beq_self_eq_true, if_true]
    exact this
  | postgres =>
    have hg : ∀ x ∈ s, goodEB pgEsc x (applyChain (chainOf .postgres) [x]) = true :=
      fun x hx => goodE_all _ _ _ postgres_ok x (h x hx)
    simp only [writeStr, escape_eq, hmap]
    split
    · -- `E'…'`
      have := bodyEsc_units pgEsc _ s hg rest hr
      have e1 : ('E' == q) = false := by decide
      simp only [lexStr, List.cons_append, List.append_assoc, e1,
        Bool.false_eq_true, if_false, beq_self_eq_true, Bool.and_self, if_true]
      exact this
    · -- no backslash was produced: a standard-conforming string
      rename_i hnb
      have hnb' : bsl ∉ s.flatMap (fun x => applyChain (chainOf .postgres) [x]) := by
        simpa using hnb
      have hg' : ∀ x ∈ s, goodPB x (applyChain (chainOf .postgres) [x]) = true := by
        intro x hx
        refine goodE_noBsl pgEsc x _ (hg x hx) ?_
        intro hmem
        exact hnb' (List.mem_flatMap.mpr ⟨x, hx, hmem⟩)
      have := bodyPlain_units _ s hg' rest hr
      simp only [lexStr, List.cons_append, List.append_assoc,
        beq_self_eq_true, if_true]
      exact this

/-- **C03, byte strings** (all 256 byte values, any length). -/
theorem bytesLit_decodes (b : Backend) (bs : List UInt8) (rest : List Char) :
    lexBytes b (writeBytes b bs ++ rest) = some (bs, rest) := by
  have := hexBody_hexU bs rest
  cases b <;> simp [writeBytes, lexBytes, this] <;> decide

/-- **C03, characters** (every Unicode scalar value). -/
theorem charLit_decodes (b : Backend) (c : Char) (h : Representable b [c]) (rest : List Char)
    (hr : rest.head? ≠ some q) : lexStr b (charLit b c ++ rest) = some ([c], rest) :=
  strLit_decodes b [c] h rest hr

/-! Non-vacuity. -/
example : Representable .postgres "it's \\ \"q\" \n é 😀".toList := by
  intro x hx; revert x; decide
example : lexStr .postgres (writeStr .postgres "a'b\\".toList ++ " rest".toList) = some ("a'b\\".toList, " rest".toList) := by decide
example : lexStr .mysql "'a\\'b\\\\' rest".toList = some ("a'b\\".toList, " rest".toList) := by decide
example : lexBytes .postgres (writeBytes .postgres [0xAB, 0x01] ++ ")".toList) = some ([0xAB, 0x01], ")".toList) := by decide
example : Representable .mysql [Char.ofNat 26, Char.ofNat 0, 'é'] := by
  intro x hx; revert x; decide

end SeaQ.Props.C03
