import SeaQ.Lemmas.Escape
/-!
# C17 — `unescape_string (escape_string s) = s` on every backend, for every string

The replacement chains and the unescape table are generated from the source; the
decidable side condition `pairOK` (re-checked by `decide` on every regeneration) is what
makes the sequential `.replace` calls act as one per-character map whose image the
unescape loop decodes.
-/
namespace SeaQ.Props.C17
open SeaQ.Escape SeaQ.Gen.Escape

/-- the two shapes of (escape, unescape) pair for which the inverse law is proved -/
def pairOK (esc unesc : Option Chain) : Bool :=
  match esc, unesc with
  | none, none => chainOK defaultEscape defaultUnescapeEsc defaultUnescapeArms
  | some ch, none => chainOK ch defaultUnescapeEsc defaultUnescapeArms
  | some [([q], [q1, q2])], some [([q3, q4], [q5])] =>
      q1 == q && q2 == q && q3 == q && q4 == q && q5 == q
  | _, _ => false

/-- the nine sequential `replace` calls of the default `escape_string` act as one
per-character map -/
theorem escape_chain_is_map (s : List Char) :
    applyChain defaultEscape s = s.flatMap (fun x => applyChain defaultEscape [x]) :=
  applyChain_is_map defaultEscape (by decide) s

theorem unescape_escape_of_pairOK (esc unesc : Option Chain) (h : pairOK esc unesc = true)
    (s : List Char) :
    (match unesc with | some ch => applyChain ch | none => defaultUnescape)
      ((match esc with | some ch => applyChain ch | none => applyChain defaultEscape) s) = s := by
  match esc, unesc, h with
  | none, none, h => exact unesc_escape_machine _ _ _ h s
  | some ch, none, h => exact unesc_escape_machine _ _ _ h s
  | some [([q], [q1, q2])], some [([q3, q4], [q5])], h =>
    simp only [pairOK, Bool.and_eq_true, beq_iff_eq] at h
    obtain ⟨⟨⟨⟨rfl, rfl⟩, rfl⟩, rfl⟩, rfl⟩ := h
    exact replace2_double _ s

theorem pairOK_all : ∀ b : Backend, pairOK (escapeOverride b) (unescapeOverride b) = true := by
  intro b; cases b <;> decide

/-- **C17.** -/
theorem unescape_escape (b : Backend) (s : List Char) : unescape b (escape b s) = s := by
  have := unescape_escape_of_pairOK _ _ (pairOK_all b) s
  unfold unescape escape
  cases h1 : escapeOverride b <;> cases h2 : unescapeOverride b <;> simp only [h1, h2] at this ⊢
    <;> exact this

/-! Non-vacuity / sanity: the model computes what the crate's tests expect. -/
example : unescape .mysql (escape .mysql "a\\b'c\"\n\\n".toList) = "a\\b'c\"\n\\n".toList := by decide
example : unescape .sqlite (escape .sqlite "it's ''".toList) = "it's ''".toList := by decide
example : escape .mysql "\\n".toList ≠ "\\n".toList := by decide

end SeaQ.Props.C17
