import SeaQ.Model.Ident
/-!
# C04 — identifiers are quoted so that they decode to exactly the supplied name

For every backend (quote characters regenerated from the source), every name — any Unicode
string, including the empty one and ones made of quote characters — is written as one
quoted-identifier token that the engine decodes to exactly that name, and the engine stops
exactly at the closing quote the crate wrote: the name cannot close its own quotes.

The positions where the crate writes a name between quote characters *without* doubling
(`prepareRaw`) satisfy the claim only for names that do not contain the quote character;
`raw_breaks` shows the failure otherwise (finding, see `known_findings.json`).
-/
namespace SeaQ.Props.C04
open SeaQ.Escape SeaQ.Ident

theorem identBody_close (r : Char) (rest : List Char) (hr : rest.head? ≠ some r) :
    identBody r (r :: rest) = some ([], rest) := by
  cases rest with
  | nil => simp [identBody]
  | cons n t =>
    have : (n == r) = false := by simpa using hr
    simp [identBody, this]

theorem identBody_quoted (r : Char) (name rest : List Char) (hr : rest.head? ≠ some r) :
    identBody r (replaceChar r [r, r] name ++ r :: rest) = some (name, rest) := by
  induction name with
  | nil => simpa [replaceChar] using identBody_close r rest hr
  | cons x s ih =>
    simp only [replaceChar, List.flatMap_cons] at ih ⊢
    obtain ⟨n, t, hnt⟩ : ∃ n t,
        List.flatMap (fun x => if (x == r) = true then [r, r] else [x]) s ++ r :: rest = n :: t := by
      cases h : List.flatMap (fun x => if (x == r) = true then [r, r] else [x]) s ++ r :: rest with
      | nil => simp at h
      | cons n t => exact ⟨n, t, rfl⟩
    by_cases hx : x = r
    · subst hx
      simp only [beq_self_eq_true, if_true, List.cons_append, List.nil_append,
        identBody]
      rw [ih]; rfl
    · have hne : (x == r) = false := beq_false_of_ne hx
      simp only [hne, Bool.false_eq_true, if_false, List.cons_append, List.nil_append]
      rw [hnt]
      simp only [identBody, hne, Bool.false_eq_true, if_false]
      rw [← hnt, ih]; rfl

/-- **C04** for an arbitrary pair of quote characters … -/
theorem ident_decodes_quote (qt : Char × Char) (name rest : List Char)
    (hr : rest.head? ≠ some qt.2) :
    lexIdent qt (prepare qt name ++ rest) = some (name, rest) := by
  have := identBody_quoted qt.2 name rest hr
  simp only [lexIdent, prepare, quoted, List.cons_append, List.append_assoc,
    beq_self_eq_true, if_true]
  simpa using this

/-- … in particular for every backend's `QUOTE`. -/
theorem ident_decodes (b : Backend) (name rest : List Char)
    (hr : rest.head? ≠ some (quoteOf b).2) :
    lexIdent (quoteOf b) (prepare (quoteOf b) name ++ rest) = some (name, rest) :=
  ident_decodes_quote (quoteOf b) name rest hr

/-- the undoubled positions are correct exactly for names without the quote character -/
theorem raw_decodes_partial (qt : Char × Char) (name rest : List Char) (hn : qt.2 ∉ name)
    (hr : rest.head? ≠ some qt.2) :
    lexIdent qt (prepareRaw qt name ++ rest) = some (name, rest) := by
  have h : replaceChar qt.2 [qt.2, qt.2] name = name := by
    induction name with
    | nil => rfl
    | cons x s ih =>
      have hx : (x == qt.2) = false := beq_false_of_ne (fun e => hn (by simp [e]))
      have := ih (fun h => hn (List.mem_cons_of_mem _ h))
      simp only [replaceChar, List.flatMap_cons, hx] at this ⊢
      rw [this]; rfl
  have := ident_decodes_quote qt name rest hr
  simpa [prepare, quoted, prepareRaw, h] using this

/-! Non-vacuity and the shape of the failure at the undoubled positions. -/
example : lexIdent (quoteOf .mysql) (prepare (quoteOf .mysql) "a`b\"c".toList ++ ".x".toList) = some ("a`b\"c".toList, ".x".toList) := by decide
example : lexIdent (quoteOf .postgres) ("\"a\"\"b\" rest".toList) = some ("a\"b".toList, " rest".toList) := by decide
/-- a name containing the quote closes its own quotes when written undoubled -/
theorem raw_breaks : lexIdent (quoteOf .postgres) (prepareRaw (quoteOf .postgres) "ix\" ON t; --".toList)
    = some ("ix".toList, " ON t; --\"".toList) := by decide

end SeaQ.Props.C04
