import SeaQ.Model.Render
import SeaQ.Props.C11
/-!
# C11 at the statement renderer

`Props/C11` is about the template loop over abstract pieces (`Template.expand`, `renderInline`,
`renderParam`).  The statement model expands a `CustomWithExpr` template into its own pieces
(`Render.rTemplate`) and writes them with the two writers of every statement.  For
`cust_with_values` (every designated operand is a bound value) the two coincide:

* `template_inline` — the inline writer's text of the expansion is `renderInline` of the
  abstract expansion over the values' literals;
* `template_values` — the parameterised writer binds exactly the designated values, in order of
  appearance (`renderParam`'s index list, looked up in the supplied values);
* `template_panics` — the statement model marks a panic exactly when the abstract loop fails.

So the step lemmas of `Props/C11` (a quoted token is never substituted, `??` is one literal
mark, `$n` designates value `n`, …) speak about the text a statement carries.
-/
namespace SeaQ.Props.C11Stmt
open SeaQ.Escape SeaQ.Stmt SeaQ.Render SeaQ.Template

/-- the operands of `cust_with_values`: one bound value each -/
def pvals (vs : List Val) : List Pieces := vs.map (fun v => [Piece.p v])

/-- the statement model's pieces of one abstract piece -/
def pieceT (rendered : List Pieces) : Template.Piece → Pieces
  | .lit s => [Render.Piece.raw s]
  | .val i => rendered.getD i [.bad]

/-- the statement model's pieces of an abstract expansion -/
def realT (rendered : List Pieces) (l : List Template.Piece) : Pieces := l.flatMap (pieceT rendered)

theorem rTemplate_eq (d : Backend) (t : String) (rendered : List Pieces) :
    rTemplate d t rendered =
      match expand (mark d) (numbered d) rendered.length 0 (Token.tokenize (Token.cls Char.isAlpha) t.toList) with
      | none => [.bad]
      | some ps => realT rendered ps := by
  simp only [rTemplate]
  split
  · rename_i h; rw [h]
  · rename_i ps h
    rw [h]
    simp only [realT]
    congr 1

theorem textI_append (d : Backend) : ∀ a b : Pieces, textI d (a ++ b) = textI d a ++ textI d b
  | [], _ => rfl
  | p :: r, b => by cases p <;> simp [textI, textI_append d r b]

theorem pieceT_pvals (vs : List Val) (i : Nat) :
    pieceT (pvals vs) (.val i) = match vs[i]? with | some v => [Piece.p v] | none => [.bad] := by
  simp only [pieceT, pvals, List.getD_eq_getElem?_getD, List.getElem?_map]
  cases vs[i]? <;> rfl

/-- **inline text** of an expansion over bound values -/
theorem template_inline_pieces (d : Backend) (vs : List Val) :
    ∀ ps : List Template.Piece, textI d (realT (pvals vs) ps) = renderInline (vs.map (litText d)) ps
  | [] => rfl
  | .lit s :: r => by
    have ih := template_inline_pieces d vs r
    simp only [realT, List.flatMap_cons, pieceT] at ih ⊢
    simp only [List.cons_append, List.nil_append, textI, renderInline, ih]
  | .val i :: r => by
    have ih := template_inline_pieces d vs r
    simp only [realT, List.flatMap_cons] at ih ⊢
    rw [textI_append, ih, pieceT_pvals]
    simp only [renderInline, List.getD_eq_getElem?_getD, List.getElem?_map]
    cases vs[i]? <;> simp [textI]

theorem textPFrom_vals_append (d : Backend) : ∀ (a b : Pieces) (k : Nat),
    ∃ k', (textPFrom d k (a ++ b)).2 = (textPFrom d k a).2 ++ (textPFrom d k' b).2
  | [], b, k => ⟨k, by simp [textPFrom]⟩
  | p :: r, b, k => by
    cases p with
    | p v =>
      obtain ⟨k', h⟩ := textPFrom_vals_append d r b (k + 1)
      exact ⟨k', by simp [textPFrom, h]⟩
    | s t => obtain ⟨k', h⟩ := textPFrom_vals_append d r b k; exact ⟨k', by simp [textPFrom, h]⟩
    | id t => obtain ⟨k', h⟩ := textPFrom_vals_append d r b k; exact ⟨k', by simp [textPFrom, h]⟩
    | raw t => obtain ⟨k', h⟩ := textPFrom_vals_append d r b k; exact ⟨k', by simp [textPFrom, h]⟩
    | c t => obtain ⟨k', h⟩ := textPFrom_vals_append d r b k; exact ⟨k', by simp [textPFrom, h]⟩
    | bad => obtain ⟨k', h⟩ := textPFrom_vals_append d r b k; exact ⟨k', by simp [textPFrom, h]⟩

/-- **bound values** of an expansion over bound values: the designated ones that were supplied, in order of
appearance (whatever the running placeholder numbers are) -/
theorem template_values_pieces (d : Backend) (vs : List Val) :
    ∀ (ps : List Template.Piece) (k k' : Nat),
      (textPFrom d k (realT (pvals vs) ps)).2 = ((renderParam (mark d) (numbered d) k' ps).2.filterMap (fun i => vs[i]?))
  | [], _, _ => rfl
  | .lit s :: r, k, k' => by
    have ih := template_values_pieces d vs r k k'
    simp only [realT, List.flatMap_cons, pieceT] at ih ⊢
    simp only [List.cons_append, List.nil_append, textPFrom, renderParam, ih]
  | .val i :: r, k, k' => by
    simp only [realT, List.flatMap_cons, renderParam, List.filterMap_cons]
    obtain ⟨k2, h2⟩ := textPFrom_vals_append d (pieceT (pvals vs) (.val i)) ((r.flatMap (pieceT (pvals vs)))) k
    rw [h2, pieceT_pvals]
    have ih := template_values_pieces d vs r k2 (k' + 1)
    simp only [realT] at ih
    cases h : vs[i]? with
    | none => simp [textPFrom, ih]
    | some v => simp [textPFrom, ih]

/-! ## the statement level -/

/-- **C11 for the statement model**: `cust_with_values(t, vs)` inside any statement.  When the abstract
template loop succeeds with pieces `ps`, the inline writer writes `renderInline` of `ps` over the values'
literals and the parameterised writer binds the designated values in order of appearance; when it fails, the
statement model marks the panic. -/
theorem C11_statement (d : Backend) (t : String) (vs : List Val) :
    match expand (mark d) (numbered d) vs.length 0 (Token.tokenize (Token.cls Char.isAlpha) t.toList) with
    | some ps =>
      textI d (rTemplate d t (pvals vs)) = renderInline (vs.map (litText d)) ps ∧
      (textP d (rTemplate d t (pvals vs))).2 = (renderParam (mark d) (numbered d) 0 ps).2.filterMap (fun i => vs[i]?)
    | none => rTemplate d t (pvals vs) = [.bad] := by
  have hl : (pvals vs).length = vs.length := by simp [pvals]
  rw [rTemplate_eq, hl]
  split
  · rename_i ps h
    simp only [h]
    exact ⟨template_inline_pieces d vs ps, template_values_pieces d vs ps 0 0⟩
  · rename_i h
    simp only [h]

/-- the operands of `cust_with_values` are what `rExEach` makes of a list of value expressions -/
theorem rExEach_values (d : Backend) : ∀ vs : List Val,
    rExEach d (ExList.ofList (vs.map Ex.value)) = pvals vs
  | [] => by simp [ExList.ofList, rExEach, pvals]
  | v :: r => by simp [ExList.ofList, rExEach, rEx, pvals, rExEach_values d r]

/-! Non-vacuity: `cust_with_values("a = $2 AND b = '$1' OR c $$ $1", [1, 2])` on Postgres. -/
example : textI .postgres (rTemplate .postgres "a = $2 AND b = '$1' OR c $$ $1" (pvals [⟨"Bool", .bool true⟩, ⟨"Bool", .bool false⟩])) =
    "a = FALSE AND b = '$1' OR c $ TRUE".toList := by decide

end SeaQ.Props.C11Stmt
