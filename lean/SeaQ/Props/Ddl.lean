import SeaQ.Lemmas.DdlCtx
import SeaQ.Lemmas.DdlBalance
import SeaQ.Lemmas.DdlPlain
import SeaQ.Props.C01
import SeaQ.Model.Affinity
import SeaQ.Props.C13
import SeaQ.Props.C14
/-!
# Schema statements (shared by C13 and C14)

Theorems about the schema-statement model (`Model/Ddl.lean`), which is tied to the crate by the
differential run of generated schema statements (`harness/src/ddl.rs`).

* `ddl_safe`, `ddl_read`: **lexical well-formedness** — for every schema statement whose pieces are
  individually well-formed (`contentOK`: no panic marker, representable strings, caller-supplied raw
  text only when non-empty and free of quote characters and marks), the engine's lexer reads the rendered text exactly as the sequence
  of items the statement was written from: every declared name as one quoted identifier (C04),
  every comment / enum variant / default string as one string literal (C03), nothing glued.
* `ddl_balanced`: parentheses are balanced in every schema statement.
* `create_items`: **completeness and order** of `CREATE TABLE` — the parenthesised body is the
  `, `-separated list of the column definitions, then the table-level keys, then the foreign keys,
  then the checks, each rendered by its own function, none dropped, none reordered.
-/
namespace SeaQ.Props.Ddl
open SeaQ.Escape SeaQ.Render SeaQ.Stmt SeaQ.Scan SeaQ.Ddl SeaQ.SafeN

/-- every schema statement whose pieces are individually well-formed renders to a safe list -/
theorem ddl_safe (d : Backend) (inl : Bool) (s : SeaQ.Ddl.Stmt)
    (hc : (rStmt d s).all (contentOK d inl) = true) : safe d inl false 0 (rStmt d s) = true := by
  rw [safe_eq_safeN]
  exact ctx_sound d inl _ false false .emp none (by simp) rfl hc (d_rStmt d s false .emp rfl)

/-- the renderer's own text in a schema statement is plain (type names come from the regenerated tables: `tableBal`) -/
theorem ddl_text_plain (d : Backend) (s : SeaQ.Ddl.Stmt) (hm : SeaQ.Plain.bad (rStmt d s) = false) :
    ∀ t, Piece.s t ∈ rStmt d s → t.toList.all (plainChar d) = true := by
  intro t ht
  cases SeaQ.Plain.e_rStmt d s with
  | inl hb => rw [hb] at hm; cases hm
  | inr hall => exact SeaQ.Props.C01.plain_of_okP d t (List.all_eq_true.mp hall _ ht)

/-- `ddl_safe` with the condition on the caller's input only (names are free; comments, enum labels and default
strings representable; raw text — custom type names, options, extra — non-empty and free of quotes and marks) -/
theorem ddl_safe_user (d : Backend) (inl : Bool) (s : SeaQ.Ddl.Stmt)
    (hu : (rStmt d s).all (SeaQ.Props.C01.userOK d inl) = true) : safe d inl false 0 (rStmt d s) = true := by
  apply ddl_safe
  have hm : SeaQ.Plain.bad (rStmt d s) = false := by
    cases hb : SeaQ.Plain.bad (rStmt d s) with
    | false => rfl
    | true =>
      simp only [SeaQ.Plain.bad, List.any_eq_true] at hb
      obtain ⟨p, hp, hbp⟩ := hb
      have := List.all_eq_true.mp hu p hp
      cases p with
      | raw t => simp_all [SeaQ.Plain.badP, SeaQ.Props.C01.userOK, contentOK]
      | _ => simp [SeaQ.Plain.badP] at hbp
  rw [List.all_eq_true] at hu ⊢
  intro p hp
  cases p with
  | s t => exact ddl_text_plain d s hm t hp
  | _ => simpa [SeaQ.Props.C01.userOK] using hu _ hp

/-- the engine reads the text of a schema statement item by item, as it was written -/
theorem ddl_read (d : Backend) (s : SeaQ.Ddl.Stmt) (hc : (rStmt d s).all (contentOK d true) = true) :
    segment d (textI d (rStmt d s)) = some (items d true 0 (rStmt d s)) := by
  have := segment_txt d true (rStmt d s) (ddl_safe d true s hc)
  rwa [txt_inline] at this

/-- **every schema statement is written with balanced parentheses** (renderer text and raw text read from depth 0
never close an unopened parenthesis and end at depth 0), given that each caller-supplied raw text (custom type
names, options, `extra`) is balanced on its own and no template expression is used in a DEFAULT / CHECK -/
theorem ddl_balanced (d : Backend) (s : SeaQ.Ddl.Stmt) (h : SeaQ.Balance.bad (rStmt d s) = false) :
    SeaQ.Balance.scan 0 (rStmt d s) = some 0 := by
  cases SeaQ.Balance.e_rStmt d s with
  | inl hb => rw [hb] at h; cases h
  | inr hs => simpa using hs 0

/-! ## CREATE TABLE: the body is the separated list of the declared elements -/

/-- `, `-separated concatenation; `first` = nothing written before -/
def sepJoin : Bool → List Pieces → Pieces
  | _, [] => []
  | first, x :: r => (if first then [] else [S ", "]) ++ x ++ sepJoin false r

theorem sepJoin_append : ∀ (a b : List Pieces) (f : Bool), sepJoin f (a ++ b) = sepJoin f a ++ sepJoin (f && a.isEmpty) b := by
  intro a
  induction a with
  | nil => intro b f; simp [sepJoin]
  | cons x r ih => intro b f; simp [sepJoin, ih]

theorem columnDefs_eq (d : Backend) : ∀ (l : List Col) (f : Bool), rColumnDefs d f l = sepJoin f (l.map (rColumnDef d)) := by
  intro l; induction l with
  | nil => intro f; rfl
  | cons c r ih => intro f; simp [rColumnDefs, sepJoin, ih]
theorem tableIndexes_eq (d : Backend) : ∀ (l : List Index) (f : Bool), rTableIndexes d f l = sepJoin f (l.map (rTableIndex d)) := by
  intro l; induction l with
  | nil => intro f; rfl
  | cons c r ih => intro f; simp [rTableIndexes, sepJoin, ih]
theorem fks_eq (d : Backend) : ∀ (l : List Fk) (f : Bool), rFks d f l = sepJoin f (l.map (rFkCreate d 0)) := by
  intro l; induction l with
  | nil => intro f; rfl
  | cons c r ih => intro f; simp [rFks, sepJoin, ih]
theorem checks_eq (d : Backend) : ∀ (l : List Ex) (f : Bool), rChecks d f l = sepJoin f (l.map (rCheck d)) := by
  intro l; induction l with
  | nil => intro f; rfl
  | cons c r ih => intro f; simp [rChecks, sepJoin, ih]

/-- the declared elements of a `CREATE TABLE`, in the order the grammar wants them -/
def elements (d : Backend) (c : Create) : List Pieces :=
  c.cols.map (rColumnDef d) ++ c.indexes.map (rTableIndex d) ++ c.fks.map (rFkCreate d 0) ++ c.checks.map (rCheck d)

def createHead (c : Create) : Pieces :=
  [S "CREATE "] ++ (if c.temporary then [S "TEMPORARY "] else []) ++ [S "TABLE "] ++
  (if c.ifNotExists then [S "IF NOT EXISTS "] else []) ++ SeaQ.Ddl.rOptTable 3 c.table ++ [S " ( "]

def createTail (d : Backend) (c : Create) : Pieces :=
  [S " )"] ++
  (match c.comment with | some t => if d == .mysql then [S " COMMENT ", rStrLit t] else [] | none => []) ++
  rTableOpts c.options ++
  (match c.extra with | some e => [S " ", .raw e.toList] | none => [])

/-- **C14 / C13 completeness**: head, the separated list of all declared elements in order, tail -/
theorem create_items (d : Backend) (c : Create) :
    rCreate d c = createHead c ++ sepJoin true (elements d c) ++ createTail d c := by
  simp only [rCreate, createHead, createTail, elements, sepJoin_append, columnDefs_eq, tableIndexes_eq, fks_eq, checks_eq,
    List.isEmpty_map, Bool.true_and, List.append_assoc]
  cases c.comment <;> cases c.extra <;> rfl

theorem sepJoin_mem (x : Pieces) : ∀ (l : List Pieces) (f : Bool), x ∈ l → x <:+: sepJoin f l := by
  intro l
  induction l with
  | nil => intro f h; cases h
  | cons y r ih =>
    intro f h
    simp only [sepJoin]
    cases List.mem_cons.mp h with
    | inl hxy => subst hxy; exact ⟨_, _, rfl⟩
    | inr hr =>
      obtain ⟨a, b, hab⟩ := ih false hr
      exact ⟨(if f then [] else [S ", "]) ++ y ++ a, b, by simp [← hab]⟩

/-- every declared column, key, foreign key and check is written, as rendered by its own function -/
theorem create_complete (d : Backend) (c : Create) (x : Pieces) (hx : x ∈ elements d c) : x <:+: rCreate d c := by
  rw [create_items]
  obtain ⟨a, b, hab⟩ := sepJoin_mem x (elements d c) true hx
  exact ⟨createHead c ++ a, b ++ createTail d c, by simp [← hab]⟩

/-! ## column definitions -/

/-- SQLite: `PRIMARY KEY` and `AUTOINCREMENT` are moved to the end of the column definition, adjacent and in
this order (the only place SQLite's grammar accepts `AUTOINCREMENT`), wherever they stood among the specifications -/
theorem sqlite_pk_autoincrement_last (c : Col) (hp : c.specs.any Spec.isPk = true) (ha : hasAuto c.specs = true) :
    ∃ pre, rColumnDef .sqlite c = pre ++ [S " ", S "PRIMARY KEY", S " ", S "AUTOINCREMENT"] := by
  refine ⟨[.id c.name] ++ (match c.ty with | some t => [S " "] ++ rType .sqlite c.specs t | none => []) ++ rSpecs .sqlite c.specs, ?_⟩
  cases hty : c.ty <;> simp [rColumnDef, hp, ha, hty]

/-- SQLite: neither keyword is written in place -/
theorem sqlite_specs_skip (s : Spec) (r : List Spec) (h : s.isPk = true ∨ s.isAuto = true ∨ s.isComment = true) :
    rSpecs .sqlite (s :: r) = rSpecs .sqlite r := by
  rcases h with h | h | h <;> simp [rSpecs, h]

/-- SQLite: an auto-increment column of any integer type that can be one is declared exactly `integer`
(so that `INTEGER PRIMARY KEY` makes it the rowid alias `AUTOINCREMENT` requires) — over the regenerated table -/
theorem sqlite_autoincrement_integer (specs : List Spec) (t : ColType) (ha : hasAuto specs = true)
    (ht : t = .integer ∨ t = .unsigned ∨ t = .bigInteger ∨ t = .bigUnsigned) :
    rType .sqlite specs t = [S "integer"] := by
  rcases ht with h | h | h | h <;> subst h <;> simp only [rType, ha] <;> decide

/-- Postgres: an auto-increment column is declared with the serial type of its integer type (regenerated
table `postgresSerial`), and the specification itself writes nothing -/
theorem postgres_autoincrement_serial (specs : List Spec) (ha : hasAuto specs = true) :
    rType .postgres specs .smallInteger = [S "smallserial"] ∧ rType .postgres specs .integer = [S "serial"] ∧
      rType .postgres specs .bigInteger = [S "bigserial"] := by
  simp only [rType, ha]; decide

theorem postgres_auto_not_written (r : List Spec) : rSpecs .postgres (.autoIncrement :: r) = rSpecs .postgres r := by
  simp [rSpecs, Spec.isAuto]

/-- MySQL: the unsigned integer types are the signed type followed by `UNSIGNED` -/
theorem mysql_unsigned (t u : ColType)
    (h : (t, u) = (.tinyInteger, .tinyUnsigned) ∨ (t, u) = (.smallInteger, .smallUnsigned) ∨ (t, u) = (.integer, .unsigned) ∨
      (t, u) = (.bigInteger, .bigUnsigned)) :
    rTypeMysql u = rTypeMysql t ++ [S " ", S "UNSIGNED"] := by
  rcases h with h | h | h | h <;> (cases h; decide)

/-! ## the type names are the regenerated ones -/

theorem natText_eq (n : Nat) : SeaQ.Affinity.natText n = SeaQ.Render.natText n := by
  induction n using Nat.strongRecOn with
  | _ n ih =>
    unfold SeaQ.Affinity.natText SeaQ.Render.natText
    split
    · rfl
    · rename_i h; rw [ih (n / 10) (by omega)]; rfl

open SeaQ.Gen.ColTypes in
/-- the text of a template written as pieces is its instantiation (`Affinity.instantiate`: the object of the
C13 affinity theorem and of the C14 type-mapping theorems) -/
theorem textI_segPieces (d : Backend) (ρ : String → Nat) : ∀ (t : List Seg), textI d (segPieces ρ t) = SeaQ.Affinity.instantiate ρ t := by
  intro t
  induction t with
  | nil => rfl
  | cons x r ih => cases x <;> simp [segPieces, textI, SeaQ.Affinity.instantiate, ih, S, num, natText_eq]

open SeaQ.Gen.ColTypes in
/-- whatever `fromTable` writes is an instance of a text of the variant's arm in the regenerated table -/
theorem fromTable_instance (d : Backend) (table : List Arm) (v : String) (i : Nat) (ρ : String → Nat)
    (h : (fromTable table v i ρ).contains .bad = false) :
    ∃ arm ∈ table, v ∈ arm.variants ∧ ∃ t ∈ arm.templates, textI d (fromTable table v i ρ) = SeaQ.Affinity.instantiate ρ t := by
  unfold fromTable at h ⊢
  cases hf : findArm table v with
  | none => simp [hf] at h
  | some a =>
    have hfa := List.find?_some hf
    cases hcmp : a.computed with
    | true => simp [hf, hcmp] at h
    | false =>
      cases hg : a.templates[i]? with
      | none => simp [hf, hcmp, hg] at h
      | some t =>
        refine ⟨a, List.mem_of_find?_eq_some hf, by simpa using hfa, t, List.mem_of_getElem? hg, ?_⟩
        simp only [hcmp, hg, Bool.false_eq_true, ↓reduceIte, textI_segPieces]

/-- **C13 at statement level**: the type name a SQLite column definition carries has the affinity intended for the
abstract type, whatever its parameters and whether or not the column is auto-increment (model rendering →
regenerated table → `affinity_intended`) -/
theorem sqlite_column_type_affinity (isAuto : Bool) (t : ColType) (a : SeaQ.Affinity.Aff)
    (ha : SeaQ.Affinity.intended (variantName t) = some a) (hb : (rTypeSqlite isAuto t).contains .bad = false) :
    SeaQ.Affinity.affinity (textI .sqlite (rTypeSqlite isAuto t)) = a := by
  have key : ∀ (v : String) (i : Nat) (ρ : String → Nat), SeaQ.Affinity.intended v = some a →
      (fromTable SeaQ.Gen.ColTypes.sqlite v i ρ).contains .bad = false →
      SeaQ.Affinity.affinity (textI .sqlite (fromTable SeaQ.Gen.ColTypes.sqlite v i ρ)) = a := by
    intro v i ρ hv hbad
    obtain ⟨arm, harm, hva, tpl, htpl, htxt⟩ := fromTable_instance .sqlite _ v i ρ hbad
    rw [htxt]
    exact SeaQ.Props.C13.affinity_intended arm harm v hva a hv tpl htpl ρ
  cases t
  case custom s => simp [variantName, SeaQ.Affinity.intended] at ha
  case decimal p =>
    cases p with
    | none => simp only [rTypeSqlite] at hb ⊢; exact key _ _ _ ha hb
    | some q =>
      obtain ⟨x, y⟩ := q
      simp only [rTypeSqlite] at hb ⊢
      split at hb
      · simp at hb
      · rename_i hgt; simp only [hgt, ↓reduceIte]; exact key _ _ _ ha hb
  all_goals (simp only [rTypeSqlite] at hb ⊢; exact key _ _ _ ha hb)

/-- **C14 at statement level**: every type name Postgres is given that comes from a non-computed arm is a
defined type in a defined form (`templateOK postgresDefined`), with its parameters as decimal digits -/
theorem postgres_column_type_defined (v : String) (i : Nat) (ρ : String → Nat)
    (hb : (fromTable SeaQ.Gen.ColTypes.postgres v i ρ).contains .bad = false) :
    ∃ arm ∈ SeaQ.Gen.ColTypes.postgres, v ∈ arm.variants ∧ ∃ tpl ∈ arm.templates,
      textI .postgres (fromTable SeaQ.Gen.ColTypes.postgres v i ρ) = SeaQ.Affinity.instantiate ρ tpl ∧
      (arm.computed = true ∨ SeaQ.Props.C14.templateOK SeaQ.Props.C14.postgresDefined tpl = true) := by
  obtain ⟨arm, harm, hva, tpl, htpl, htxt⟩ := fromTable_instance .postgres _ v i ρ hb
  refine ⟨arm, harm, hva, tpl, htpl, htxt, ?_⟩
  have hok := List.all_eq_true.mp SeaQ.Props.C14.postgres_types_defined arm harm
  simp only [SeaQ.Props.C14.armOK, Bool.or_eq_true, List.any_eq_true, List.contains_nil, Bool.false_eq_true, and_false, exists_false, or_false] at hok
  cases hok with
  | inl h => exact Or.inl h
  | inr h => exact Or.inr (List.all_eq_true.mp h tpl htpl)

/-- the same for MySQL, except the `Interval` arm (recorded finding: it writes `unsupported`) -/
theorem mysql_column_type_defined (v : String) (i : Nat) (ρ : String → Nat)
    (hb : (fromTable SeaQ.Gen.ColTypes.mysql v i ρ).contains .bad = false) :
    ∃ arm ∈ SeaQ.Gen.ColTypes.mysql, v ∈ arm.variants ∧ ∃ tpl ∈ arm.templates,
      textI .mysql (fromTable SeaQ.Gen.ColTypes.mysql v i ρ) = SeaQ.Affinity.instantiate ρ tpl ∧
      (arm.computed = true ∨ arm.variants.contains "Interval" = true ∨ SeaQ.Props.C14.templateOK SeaQ.Props.C14.mysqlDefined tpl = true) := by
  obtain ⟨arm, harm, hva, tpl, htpl, htxt⟩ := fromTable_instance .mysql _ v i ρ hb
  refine ⟨arm, harm, hva, tpl, htpl, htxt, ?_⟩
  have hok := List.all_eq_true.mp SeaQ.Props.C14.mysql_types_defined_partial arm harm
  simp only [SeaQ.Props.C14.armOK, Bool.or_eq_true, List.any_eq_true] at hok
  rcases hok with (h | h) | h
  · exact Or.inl h
  · obtain ⟨x, hx, hx2⟩ := h
    have : x = "Interval" := by simpa using hx2
    subst this
    exact Or.inr (Or.inl (by simpa using hx))
  · exact Or.inr (Or.inr (List.all_eq_true.mp h tpl htpl))

/-- every specification MySQL is given is written, in the order given, each after one space -/
theorem mysql_specs_all (l : List Spec) : rSpecs .mysql l = l.flatMap (fun s => [S " "] ++ rSpec .mysql s) := by
  induction l with
  | nil => rfl
  | cons s r ih => simp [rSpecs, ih]

/-! ## non-vacuity -/

def demoCreate : SeaQ.Ddl.Stmt :=
  .create ⟨some ⟨["glyph"], none⟩,
    [⟨"id", some .integer, [.notNull, .autoIncrement, .primaryKey]⟩,
     ⟨"na\"me", some .text, [.default (.value ⟨"String", .str "it's".toList⟩), .comment "c"]⟩],
    [], [⟨some "k", [⟨"na\"me", none, some true⟩], none, false, true, false, none, false, [], .empty⟩],
    [⟨some "fk", none, some ⟨["font"], none⟩, ["id"], ["id"], some 1, none⟩], true, [], none, none, false⟩

example : (rStmt .sqlite demoCreate).all (contentOK .sqlite true) = true := by decide
example : (rStmt .mysql demoCreate).all (contentOK .mysql true) = true := by decide
example : (rStmt .postgres demoCreate).all (contentOK .postgres true) = true := by decide
example : SeaQ.Balance.scan 0 (rStmt .mysql demoCreate) = some 0 := ddl_balanced _ _ (by decide)

end SeaQ.Props.Ddl
