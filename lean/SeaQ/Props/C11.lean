import SeaQ.Model.Template
import SeaQ.Props.C16
/-!
# C11 — custom SQL templates and `inject_parameters` replace exactly the placeholders

`expand` models the template loop (tokenize, peek one token, positional / numbered lookup),
`inject` models `inject_parameters`; both run on the token list produced by the tokenizer of
C16, so "outside quoted text" is exactly "a Punctuation token" there.

Status on the current tree (recorded in `known_findings.json`, replayed each run): on
Postgres a mark followed by a non-numeric word swallows the word (`$x` → nothing) and `$0`
underflows; `expand_step_numbered_word` states the first precisely instead of hiding it.
-/
namespace SeaQ.Props.C11
open SeaQ.Token SeaQ.Template

/-- a token that is not the bare mark is copied verbatim and nothing else happens -/
theorem expand_step_lit (mark : Char) (numbered : Bool) (nvals count : Nat) (t : Token) (rest : List Token)
    (h : isMark mark t = false) :
    expand mark numbered nvals count (t :: rest)
      = (expand mark numbered nvals count rest).map (.lit t.text :: ·) := by
  cases rest with
  | nil => simp [expand, h]
  | cons t2 r => simp [expand, h]

/-- in particular quoted text — whatever marks it contains — is never substituted -/
theorem quoted_kept (mark : Char) (numbered : Bool) (nvals count : Nat) (t : Token) (rest : List Token)
    (hq : t.kind = .quoted) :
    expand mark numbered nvals count (t :: rest)
      = (expand mark numbered nvals count rest).map (.lit t.text :: ·) :=
  expand_step_lit mark numbered nvals count t rest (by simp [isMark, hq])

/-- a doubled mark stands for one literal mark -/
theorem expand_step_doubled (mark : Char) (numbered : Bool) (nvals count : Nat) (t t2 : Token)
    (rest : List Token) (h1 : isMark mark t = true) (h2 : isMark mark t2 = true) :
    expand mark numbered nvals count (t :: t2 :: rest)
      = (expand mark numbered nvals count rest).map (.lit [mark] :: ·) := by
  simp [expand, h1, h2]

/-- a positional mark takes the next value -/
theorem expand_step_positional (mark : Char) (nvals count : Nat) (t t2 : Token) (rest : List Token)
    (h1 : isMark mark t = true) (h2 : isMark mark t2 = false) (hc : count < nvals) :
    expand mark false nvals count (t :: t2 :: rest)
      = (expand mark false nvals (count + 1) (t2 :: rest)).map (.val count :: ·) := by
  simp [expand, h1, h2, hc]

/-- a numbered mark `$n` takes value `n` (1-based), and does not advance the positional counter -/
theorem expand_step_numbered (mark : Char) (nvals count n : Nat) (t t2 : Token) (rest : List Token)
    (h1 : isMark mark t = true) (h2 : t2.kind = .unquoted) (hp : parseNat t2.text = some n)
    (hn : 0 < n ∧ n ≤ nvals) :
    expand mark true nvals count (t :: t2 :: rest)
      = (expand mark true nvals count rest).map (.val (n - 1) :: ·) := by
  have hm : isMark mark t2 = false := by simp [isMark, h2]
  simp [expand, h1, hm, h2, hp, hn.1, hn.2]

/-- (finding) a numbered mark followed by a word that is not a number: the word is consumed and
NOTHING is emitted — the fragment's characters are not preserved -/
theorem expand_step_numbered_word (mark : Char) (nvals count : Nat) (t t2 : Token) (rest : List Token)
    (h1 : isMark mark t = true) (h2 : t2.kind = .unquoted) (hp : parseNat t2.text = none) :
    expand mark true nvals count (t :: t2 :: rest) = expand mark true nvals count rest := by
  have hm : isMark mark t2 = false := by simp [isMark, h2]
  simp [expand, h1, hm, h2, hp]

/-- a template without any bare mark is emitted unchanged, character for character -/
theorem expand_verbatim (mark : Char) (numbered : Bool) (nvals count : Nat) :
    ∀ toks : List Token, (∀ t ∈ toks, isMark mark t = false) →
      expand mark numbered nvals count toks = some (toks.map (fun t => .lit t.text))
  | [], _ => rfl
  | t :: rest, h => by
    rw [expand_step_lit mark numbered nvals count t rest (h t List.mem_cons_self),
      expand_verbatim mark numbered nvals count rest (fun u hu => h u (List.mem_cons_of_mem _ hu))]
    rfl

theorem renderInline_lits (lits : List (List Char)) :
    ∀ toks : List Token, renderInline lits (toks.map (fun t => Piece.lit t.text)) = (toks.map Token.text).flatten
  | [] => rfl
  | t :: rest => by simp [renderInline, renderInline_lits lits rest]

/-- … so, with C16's losslessness, such a template renders as itself -/
theorem template_without_marks (α : Char → Bool) (mark : Char) (numbered : Bool) (s : List Char)
    (h : ∀ t ∈ tokenize (cls α) s, isMark mark t = false) (lits : List (List Char)) :
    (expand mark numbered lits.length 0 (tokenize (cls α) s)).map (renderInline lits) = some s := by
  rw [expand_verbatim mark numbered lits.length 0 _ h]
  simp [renderInline_lits, SeaQ.Props.C16.tokenize_concat]

/-! ### inject_parameters (positional backends) -/

inductive Seg where
  | tok (t : Token)
  | ph
  deriving Repr

/-- the token stream of a parameterised statement whose placeholders are bare marks -/
def tokP (mark : Char) : List Seg → List Token
  | [] => []
  | .tok t :: r => t :: tokP mark r
  | .ph :: r => ⟨.punct, [mark]⟩ :: tokP mark r

/-- the inline form of the same statement -/
def inl (params : List (List Char)) : Nat → List Seg → List Char
  | _, [] => []
  | k, .tok t :: r => t.text ++ inl params k r
  | k, .ph :: r => params.getD k [] ++ inl params (k + 1) r

def phCount : List Seg → Nat
  | [] => 0
  | .tok _ :: r => phCount r
  | .ph :: r => phCount r + 1

theorem inject_step (mark : Char) (params : List (List Char)) (k : Nat) (t : Token) (rest : List Token) :
    inject mark false params k (t :: rest) =
      if isMark mark t then
        (if k < params.length then (inject mark false params (k + 1) rest).map (params.getD k [] ++ ·) else none)
      else (inject mark false params k rest).map (t.text ++ ·) := by
  cases rest with
  | nil => by_cases h : isMark mark t <;> by_cases hk : k < params.length <;> simp [inject, h, hk]
  | cons t2 r => by_cases h : isMark mark t <;> simp [inject, h]

/-- **inject_parameters yields the inline form** (MySQL / SQLite placeholder style), provided no
literal token of the statement is itself a bare mark and enough values are supplied -/
theorem inject_inline (mark : Char) (params : List (List Char)) :
    ∀ (segs : List Seg) (k : Nat), (∀ t, Seg.tok t ∈ segs → isMark mark t = false) →
      k + phCount segs ≤ params.length →
      inject mark false params k (tokP mark segs) = some (inl params k segs)
  | [], _, _, _ => rfl
  | .tok t :: r, k, h, hl => by
    have ht := h t List.mem_cons_self
    simp only [tokP, inject_step, ht, Bool.false_eq_true, if_false]
    rw [inject_inline mark params r k (fun u hu => h u (List.mem_cons_of_mem _ hu)) (by simpa [phCount] using hl)]
    simp [inl]
  | .ph :: r, k, h, hl => by
    have hm : isMark mark ⟨.punct, [mark]⟩ = true := by simp [isMark]
    have hk : k < params.length := by simp [phCount] at hl; omega
    simp only [tokP, inject_step, hm, if_true, hk]
    rw [inject_inline mark params r (k + 1) (fun u hu => h u (List.mem_cons_of_mem _ hu)) (by simp [phCount] at hl ⊢; omega)]
    simp [inl]

/-! Non-vacuity. -/
example : (expand '?' false 2 0 (tokenize (cls fun c => c.isAlpha) "a = ? AND b = '?' OR c ?? ?".toList)).map
    (renderInline ["1".toList, "2".toList]) = some "a = 1 AND b = '?' OR c ? 2".toList := by decide
example : (expand '$' true 2 0 (tokenize (cls fun c => c.isAlpha) "x $2 y $1 $$".toList)).map
    (fun ps => (renderParam '$' true 0 ps)) = some ("x $1 y $2 $".toList, [1, 0]) := by decide

end SeaQ.Props.C11
