import SeaQ.Model.Derive
import SeaQ.Props.C04
/-!
# C19 — derived identifiers spell the documented names

* `fast_path_eq`: whenever the derive's predicate `must_be_valid_iden` holds for a name, the
  generated `prepare()` (left quote, the name verbatim, right quote) is exactly what the
  general identifier quoting (`Iden::prepare`, C04) produces, for every quote character that
  is not itself an identifier character — so the fast path is sound for every name it is
  chosen for;
* `enum_fast_path_sound`: the per-type predicate (all variants valid; none `method` /
  `flatten`) gives that for every variant of the type;
* `name_of_*`: rename / method override, `Table` spells the table name, everything else is
  snake_case;
* the case conversion itself (heck 0.4 on ASCII) is modelled executably; its agreement with
  the real macro is a TEST (the harness compiles types against /repo's macro and compares),
  and a table of characteristic conversions is checked here by `decide`.
-/
namespace SeaQ.Props.C19
open SeaQ.Derive SeaQ.Ident SeaQ.Escape

theorem valid_no_quote (n : List Char) (h : mustBeValidIden n = true) (qc : Char)
    (hq : qc ≠ '_' ∧ isAlnum qc = false) : qc ∉ n := by
  intro hm
  simp only [mustBeValidIden, SeaQ.Gen.ValidIden.mustBeValidIden, Bool.and_eq_true, List.all_eq_true] at h
  have := h.2 qc hm
  simp only [Bool.or_eq_true, beq_iff_eq] at this
  rcases this with e | e
  · exact hq.1 e
  · rw [hq.2] at e; cases e

theorem replaceChar_id (c : Char) (r : List Char) : ∀ n : List Char, c ∉ n → replaceChar c r n = n
  | [], _ => rfl
  | x :: s, h => by
    have hx : (x == c) = false := beq_false_of_ne (fun e => h (by simp [e]))
    have ih := replaceChar_id c r s (fun hm => h (List.mem_cons_of_mem _ hm))
    simp only [replaceChar, List.flatMap_cons, hx] at ih ⊢
    rw [ih]; rfl

/-- **the fast path equals the general quoting** -/
theorem fast_path_eq (qt : Char × Char) (n : List Char) (h : mustBeValidIden n = true)
    (hq : qt.2 ≠ '_' ∧ isAlnum qt.2 = false) : prepareRaw qt n = prepare qt n := by
  have := replaceChar_id qt.2 [qt.2, qt.2] n (valid_no_quote n h qt.2 hq)
  simp [prepareRaw, prepare, quoted, this]

/-- … in particular for the three backends' quote characters -/
theorem fast_path_eq_backends (b : Backend) (n : List Char) (h : mustBeValidIden n = true) :
    prepareRaw (quoteOf b) n = prepare (quoteOf b) n :=
  fast_path_eq (quoteOf b) n h (by cases b <;> decide)

/-- the per-type predicate: every variant valid -/
def typeValid (variants : List (List Char × Attr × Bool)) (tbl : List Char) : Bool :=
  variants.all (fun v => variantValid v.1 v.2.1 v.2.2 tbl)

/-- **if the type takes the fast path, every non-flattened variant's name is valid** -/
theorem enum_fast_path_sound (variants : List (List Char × Attr × Bool)) (tbl : List Char)
    (h : typeValid variants tbl = true) (v : List Char × Attr × Bool) (hv : v ∈ variants) :
    v.2.2 = false ∧ mustBeValidIden (variantName v.1 v.2.1 tbl) = true := by
  have := List.all_eq_true.mp h v hv
  unfold variantValid at this
  cases hf : v.2.2 with
  | true => simp [hf] at this
  | false =>
    refine ⟨rfl, ?_⟩
    simp only [hf, Bool.false_eq_true, if_false] at this
    cases ha : v.2.1 with
    | rename r => simpa [ha, variantName] using this
    | method m => simp [ha] at this
    | none => simpa [ha, variantName] using this

theorem name_of_rename (i r t) : variantName i (.rename r) t = r := rfl
theorem name_of_method (i m t) : variantName i (.method m) t = m := rfl
theorem name_of_table (t) : variantName "Table".toList .none t = t := by simp [variantName]
theorem name_of_default (i t) (h : i ≠ "Table".toList) : variantName i .none t = snake i := by
  unfold variantName
  simp only [beq_iff_eq]
  rw [if_neg h]

/-! characteristic conversions of the case-conversion model (tests of the model, not the claim) -/
example : snake "FontSize".toList = "font_size".toList := by decide
example : snake "XMLHttpRequest".toList = "xml_http_request".toList := by decide
example : snake "SizeW".toList = "size_w".toList := by decide
example : snake "Abc123Def".toList = "abc123_def".toList := by decide
example : snake "A1Bc".toList = "a1_bc".toList := by decide
example : snake "snake_case__x".toList = "snake_case_x".toList := by decide
example : snake "ID".toList = "id".toList := by decide
example : pascal "created_at".toList = "CreatedAt".toList := by decide
example : pascal "x_y2z".toList = "XY2z".toList := by decide
example : mustBeValidIden "font_size".toList = true ∧ mustBeValidIden "a\"b".toList = false
    ∧ mustBeValidIden "1a".toList = false ∧ mustBeValidIden [] = true := by decide

end SeaQ.Props.C19
