import SeaQ.Props.C05Stmt
import SeaQ.Props.C06Stmt
/-!
# C05 and C06 together, at the statement renderer

The WHERE / HAVING / ON clause of a statement is (C06Stmt) the expression renderer applied to
`to_simple_expr` of the held condition, an AND / OR / NOT tree over the member expressions; an
operator tree over leaves is (C05Stmt) written as the tokens of the abstract printer, which re-parse
under the engine's table to the tree (C05).  Here the two meet, for every condition whose member
expressions are built from binary operators and NOT over primary expressions (columns, values,
function calls, sub-queries, CASE, custom text, …):

* `toP` is the operator tree of the whole clause — the AND / OR / NOT tree of the condition with the
  members' own operator trees (`exP`) below it — its primary expressions numbered in order,
* `conc_toP`: its concretisation over those primary expressions IS `to_simple_expr`,
* `where_reparses_*`: when that tree is well-formed for the dialect (`Pratt.wf`, decidable: operators of
  the dialect, BETWEEN with its AND node, …), the clause the statement carries is the keyword followed by
  the text of a token list that re-parses, under the dialect's operator table, to exactly that tree —
  whose AND / OR / NOT part is the tree C06 proves to mean the conjunction of the conditions added.
-/
namespace SeaQ.Props.WhereParse
open SeaQ.Escape SeaQ.Stmt SeaQ.Render
open SeaQ.Props.C05Stmt SeaQ.Props.C06Stmt

/-- the shape class of a member that can stand at a leaf (6 = not a leaf) -/
def clsOf (e : Ex) : Nat :=
  if shapeOf e == .atomic && !isEmptyTuple e then 0
  else if isCustom e then 4
  else match e with
    | .values _ | .custWith _ _ | .asEnum _ _ => 5
    | _ => 6

theorem leafOK_cls (e : Ex) (h : clsOf e ≤ 5) : leafOK (clsOf e) e = true := by
  unfold clsOf at h ⊢
  unfold leafOK
  by_cases h1 : (shapeOf e == .atomic && !isEmptyTuple e) = true
  · simp only [h1, if_true]; simpa using h1
  · simp only [h1, Bool.false_eq_true, if_false] at h ⊢
    by_cases h2 : isCustom e = true
    · simp [h2]
    · simp only [h2, Bool.false_eq_true, if_false] at h ⊢
      cases e <;> simp_all

/-- a leaf of each class, for atom numbers no member stands behind -/
def dfl (k : Nat) : Ex := if k ≤ 3 then .keyword .null else if k == 4 then .cust "x" else .values []

theorem leafOK_dfl (k : Nat) : leafOK k (dfl k) = true := by
  unfold dfl leafOK
  by_cases h3 : k ≤ 3
  · simp [h3, shapeOf, isEmptyTuple]
  · by_cases h4 : k = 4
    · subst h4; simp [isCustom]
    · simp [h3, h4]

/-- atom `8 * j + k` is the `j`-th member when that member is a leaf of class `k` -/
def envOf (ms : List Ex) : Env where
  leaf a := match ms[a / 8]? with
    | some e => if clsOf e == a % 8 && decide (clsOf e ≤ 5) then e else dfl (a % 8)
    | none => dfl (a % 8)
  fn := .std 5
  cop := ""

theorem envOf_ok (ms : List Ex) : ∀ a, leafOK (a % 8) ((envOf ms).leaf a) = true := by
  intro a
  simp only [envOf]
  cases h : ms[a / 8]? with
  | none => exact leafOK_dfl _
  | some e =>
    simp only
    by_cases hc : (clsOf e == a % 8 && decide (clsOf e ≤ 5)) = true
    · simp only [hc, if_true]
      simp only [Bool.and_eq_true, beq_iff_eq, decide_eq_true_eq] at hc
      rw [← hc.1]; exact leafOK_cls e hc.2
    · simp only [hc, Bool.false_eq_true, if_false]; exact leafOK_dfl _

/-- the number the abstract tree uses for an operator -/
def codeOf : Op → Nat
  | .std n => n
  | .custom _ => 27

/-- the primary expressions of a member expression, in order -/
def leavesE : Ex → List Ex
  | .bin l _ r => leavesE l ++ leavesE r
  | .unary e => leavesE e
  | e => [e]

/-- the operator tree of a member expression; its primary expressions are the atoms `i, i+1, ..` -/
def exP (i : Nat) : Ex → Pratt.Ex
  | .bin l o r => .bin (exP i l) (codeOf o) (exP (i + (leavesE l).length) r)
  | .unary e => .un (exP i e)
  | e => .atom (8 * i + clsOf e)

/-- the operators of a member expression are the numbered ones, or the one custom operator of `cop` -/
def opsFit (cop : String) : Ex → Bool
  | .bin l o r => (opOf cop (codeOf o) == o) && opsFit cop l && opsFit cop r
  | .unary e => opsFit cop e
  | _ => true

mutual
  /-- the primary expressions of a condition, in order (an empty junction contributes its constant) -/
  def leavesC : Cond → List Ex
    | .mk _ any items => match items with
      | .nil => [Ex.const ⟨"Bool", .bool (!any)⟩]
      | .consC c r => leavesC c ++ leavesI r
      | .consE e r => leavesE e ++ leavesI r
  def leavesI : CondItems → List Ex
    | .nil => []
    | .consC c r => leavesC c ++ leavesI r
    | .consE e r => leavesE e ++ leavesI r
end

mutual
  def opsFitC (cop : String) : Cond → Bool
    | .mk _ _ items => opsFitI cop items
  def opsFitI (cop : String) : CondItems → Bool
    | .nil => true
    | .consC c r => opsFitC cop c && opsFitI cop r
    | .consE e r => opsFit cop e && opsFitI cop r
end

def jn (any : Bool) : Nat := if any then 1 else 0

mutual
  /-- the operator tree of a clause; its primary expressions are the atoms `i, i+1, ..` -/
  def toP (i : Nat) : Cond → Pratt.Ex
    | .mk neg any items =>
      let body := match items with
        | .nil => Pratt.Ex.atom (8 * i)
        | .consC c r => foldP any (i + (leavesC c).length) (toP i c) r
        | .consE e r => foldP any (i + (leavesE e).length) (exP i e) r
      if neg then .un body else body
  def foldP (any : Bool) (i : Nat) (acc : Pratt.Ex) : CondItems → Pratt.Ex
    | .nil => acc
    | .consC c r => foldP any (i + (leavesC c).length) (.bin acc (jn any) (toP i c)) r
    | .consE e r => foldP any (i + (leavesE e).length) (.bin acc (jn any) (exP i e)) r
end

/-- `ρ` puts the members `ms` behind the atoms numbered from `i` -/
def Agree (ρ : Env) (i : Nat) (ms : List Ex) : Prop :=
  ∀ j (h : j < ms.length), ρ.leaf (8 * (i + j) + clsOf ms[j]) = ms[j]

theorem Agree.left {ρ : Env} {i : Nat} {a b : List Ex} (h : Agree ρ i (a ++ b)) : Agree ρ i a := by
  intro j hj
  have := h j (by simp; omega)
  simpa [List.getElem_append_left hj] using this

theorem Agree.right {ρ : Env} {i : Nat} {a b : List Ex} (h : Agree ρ i (a ++ b)) : Agree ρ (i + a.length) b := by
  intro j hj
  have := h (a.length + j) (by simp; omega)
  simpa [List.getElem_append_right, Nat.add_assoc] using this

theorem Agree.head {ρ : Env} {i : Nat} {e : Ex} {r : List Ex} (h : Agree ρ i (e :: r)) : ρ.leaf (8 * i + clsOf e) = e := by
  have := h 0 (by simp)
  simpa only [Nat.add_zero, List.getElem_cons_zero] using this

theorem Agree.tail {ρ : Env} {i : Nat} {e : Ex} {r : List Ex} (h : Agree ρ i (e :: r)) : Agree ρ (i + 1) r := by
  have := Agree.right (a := [e]) (b := r) (by simpa using h)
  simpa using this

theorem opOf_jn (cop : String) (any : Bool) : opOf cop (jn any) = junc any := by
  cases any <;> rfl

/-! ### the concretisation of the tree is `to_simple_expr` -/

theorem conc_exP (ρ : Env) : ∀ (e : Ex) (i : Nat), Agree ρ i (leavesE e) → opsFit ρ.cop e = true → conc ρ (exP i e) = e
  | .bin l o r, i, h, hf => by
    simp only [opsFit, Bool.and_eq_true, beq_iff_eq] at hf
    have h' : Agree ρ i (leavesE l ++ leavesE r) := by simpa [leavesE] using h
    simp only [exP, conc, conc_exP ρ l i h'.left hf.1.2, conc_exP ρ r _ h'.right hf.2, hf.1.1]
  | .unary e, i, h, hf => by
    simp only [exP, conc, conc_exP ρ e i (by simpa [leavesE] using h) (by simpa [opsFit] using hf)]
  | .col c, i, h, _ => by simpa [exP, conc, leavesE] using Agree.head (by simpa [leavesE] using h)
  | .tuple l, i, h, _ => by simpa [exP, conc, leavesE] using Agree.head (by simpa [leavesE] using h)
  | .func f dd l, i, h, _ => by simpa [exP, conc, leavesE] using Agree.head (by simpa [leavesE] using h)
  | .subq o q, i, h, _ => by simpa [exP, conc, leavesE] using Agree.head (by simpa [leavesE] using h)
  | .value v, i, h, _ => by simpa [exP, conc, leavesE] using Agree.head (by simpa [leavesE] using h)
  | .values v, i, h, _ => by simpa [exP, conc, leavesE] using Agree.head (by simpa [leavesE] using h)
  | .cust t, i, h, _ => by simpa [exP, conc, leavesE] using Agree.head (by simpa [leavesE] using h)
  | .custWith t l, i, h, _ => by simpa [exP, conc, leavesE] using Agree.head (by simpa [leavesE] using h)
  | .keyword k, i, h, _ => by simpa [exP, conc, leavesE] using Agree.head (by simpa [leavesE] using h)
  | .asEnum t e, i, h, _ => by simpa [exP, conc, leavesE] using Agree.head (by simpa [leavesE] using h)
  | .case w e, i, h, _ => by simpa [exP, conc, leavesE] using Agree.head (by simpa [leavesE] using h)
  | .const v, i, h, _ => by simpa [exP, conc, leavesE] using Agree.head (by simpa [leavesE] using h)

mutual
theorem conc_toP (ρ : Env) : ∀ (c : Cond) (i : Nat), Agree ρ i (leavesC c) → opsFitC ρ.cop c = true →
    conc ρ (toP i c) = toSimple c
  | .mk neg any .nil, i, h, _ => by
    have hh := Agree.head (by simpa [leavesC] using h) (ρ := ρ) (i := i) (e := Ex.const ⟨"Bool", .bool (!any)⟩) (r := [])
    have hc : clsOf (Ex.const ⟨"Bool", .bool (!any)⟩) = 0 := by simp [clsOf, shapeOf, isEmptyTuple]
    rw [hc, Nat.add_zero] at hh
    cases neg <;> simp [toP, toSimple, conc, hh]
  | .mk neg any (.consE e r), i, h, hf => by
    have hf' : opsFit ρ.cop e = true ∧ opsFitI ρ.cop r = true := by simpa [opsFitC, opsFitI] using hf
    have h' : Agree ρ i (leavesE e ++ leavesI r) := by simpa [leavesC] using h
    have he := conc_exP ρ e i h'.left hf'.1
    have hfo := conc_foldP ρ any r (i + (leavesE e).length) (exP i e) h'.right hf'.2
    cases neg <;> simp [toP, toSimple, conc, hfo, he]
  | .mk neg any (.consC c r), i, h, hf => by
    have hf' : opsFitC ρ.cop c = true ∧ opsFitI ρ.cop r = true := by simpa [opsFitC, opsFitI] using hf
    have h' : Agree ρ i (leavesC c ++ leavesI r) := by simpa [leavesC] using h
    have ihc := conc_toP ρ c i h'.left hf'.1
    have hfo := conc_foldP ρ any r (i + (leavesC c).length) (toP i c) h'.right hf'.2
    cases neg <;> simp [toP, toSimple, conc, hfo, ihc]
theorem conc_foldP (ρ : Env) (any : Bool) : ∀ (r : CondItems) (i : Nat) (acc : Pratt.Ex), Agree ρ i (leavesI r) →
    opsFitI ρ.cop r = true → conc ρ (foldP any i acc r) = foldS any (conc ρ acc) r
  | .nil, _, _, _, _ => by simp [foldP, foldS]
  | .consE e r, i, acc, h, hf => by
    have hf' : opsFit ρ.cop e = true ∧ opsFitI ρ.cop r = true := by simpa [opsFitI] using hf
    have h' : Agree ρ i (leavesE e ++ leavesI r) := by simpa [leavesI] using h
    have he := conc_exP ρ e i h'.left hf'.1
    have ih := conc_foldP ρ any r (i + (leavesE e).length) (.bin acc (jn any) (exP i e)) h'.right hf'.2
    simp only [foldP, foldS, ih, conc, opOf_jn, he]
  | .consC c r, i, acc, h, hf => by
    have hf' : opsFitC ρ.cop c = true ∧ opsFitI ρ.cop r = true := by simpa [opsFitI] using hf
    have h' : Agree ρ i (leavesC c ++ leavesI r) := by simpa [leavesI] using h
    have ihc := conc_toP ρ c i h'.left hf'.1
    have ih := conc_foldP ρ any r (i + (leavesC c).length) (.bin acc (jn any) (toP i c)) h'.right hf'.2
    simp only [foldP, foldS, ih, conc, opOf_jn, ihc]
end

theorem envOf_agree (ms : List Ex) (hl : ∀ e ∈ ms, clsOf e ≤ 5) : Agree (envOf ms) 0 ms := by
  intro j hj
  have hk : clsOf ms[j] ≤ 5 := hl _ (List.getElem_mem hj)
  have h1 : (8 * (0 + j) + clsOf ms[j]) / 8 = j := by omega
  have h2 : (8 * (0 + j) + clsOf ms[j]) % 8 = clsOf ms[j] := by omega
  simp only [envOf, h1, h2, List.getElem?_eq_getElem hj, beq_self_eq_true, hk, decide_true, Bool.and_self, if_true]

/-! ## the property theorems -/

/-- the environment: the primary expressions of the clause behind their atoms; `cop` is the text of the custom
operator the clause uses, if it uses one -/
def envFor (cop : String) (c : Cond) : Env := { envOf (leavesC c) with cop := cop }

/-- the generic statement: given C05's round trip for the dialect, the clause re-parses to its operator tree -/
theorem where_reparses (d : Backend) (kw cop : String) (c : Cond) (hl : ∀ e ∈ leavesC c, clsOf e ≤ 5)
    (hops : opsFitC cop c = true)
    (hw : Pratt.wf (tblOf d) (opsOf d) (toP 0 c) = true) (hf : inFrag (opsOf d) (toP 0 c) = true)
    (round : ∀ pe, Pratt.wf (tblOf d) (opsOf d) pe = true →
      ∃ f, Pratt.parseE (tblOf d) f 0 (Pratt.pr (pol d) pe) = some (pe, [])) :
    ∃ (ts : List Tok) (f : Nat),
      conc (envFor cop c) (toP 0 c) = toSimple c ∧
      canon (rHolder d kw (.cond c)) = canon ([S " ", S kw, S " "] ++ toks d (envFor cop c) ts) ∧
      Pratt.parseE (tblOf d) f 0 ts = some (toP 0 c, []) := by
  have hρ : ∀ a, leafOK (a % 8) ((envFor cop c).leaf a) = true := envOf_ok (leavesC c)
  have hag : Agree (envFor cop c) 0 (leavesC c) := envOf_agree _ hl
  have hconc : conc (envFor cop c) (toP 0 c) = toSimple c := conc_toP _ c 0 hag hops
  obtain ⟨f, hp⟩ := round (toP 0 c) hw
  refine ⟨_, f, hconc, ?_, hp⟩
  have hs := stmt_prints_as_pratt d (envFor cop c) hρ (toP 0 c) hf
  rw [hconc] at hs
  have hr : rHolder d kw (.cond c) = [S " ", S kw, S " "] ++ rEx d (toSimple c) := by
    simp [rHolder, (rCond_eq d c).1]
  rw [hr, canon_append, canon_append, hs]

/-- **SQLite**: the WHERE / HAVING / ON clause of a statement re-parses to its operator tree -/
theorem where_reparses_sqlite (kw cop : String) (c : Cond) (hl : ∀ e ∈ leavesC c, clsOf e ≤ 5)
    (hops : opsFitC cop c = true)
    (hw : Pratt.wf Dialects.sqlite Gen.Policy.sqliteOps (toP 0 c) = true)
    (hf : inFrag Gen.Policy.sqliteOps (toP 0 c) = true) :
    ∃ (ts : List Tok) (f : Nat), conc (envFor cop c) (toP 0 c) = toSimple c ∧
      canon (rHolder .sqlite kw (.cond c)) = canon ([S " ", S kw, S " "] ++ toks .sqlite (envFor cop c) ts) ∧
      Pratt.parseE Dialects.sqlite f 0 ts = some (toP 0 c, []) :=
  where_reparses .sqlite kw cop c hl hops hw hf (fun pe h => C05.sqlite_roundtrip pe h)

/-- **PostgreSQL** -/
theorem where_reparses_postgres (kw cop : String) (c : Cond) (hl : ∀ e ∈ leavesC c, clsOf e ≤ 5)
    (hops : opsFitC cop c = true)
    (hw : Pratt.wf Dialects.postgres Gen.Policy.postgresOps (toP 0 c) = true)
    (hf : inFrag Gen.Policy.postgresOps (toP 0 c) = true) :
    ∃ (ts : List Tok) (f : Nat), conc (envFor cop c) (toP 0 c) = toSimple c ∧
      canon (rHolder .postgres kw (.cond c)) = canon ([S " ", S kw, S " "] ++ toks .postgres (envFor cop c) ts) ∧
      Pratt.parseE Dialects.postgres f 0 ts = some (toP 0 c, []) :=
  where_reparses .postgres kw cop c hl hops hw hf (fun pe h => C05.postgres_roundtrip pe h)

/-- **MySQL** -/
theorem where_reparses_mysql (kw cop : String) (c : Cond) (hl : ∀ e ∈ leavesC c, clsOf e ≤ 5)
    (hops : opsFitC cop c = true)
    (hw : Pratt.wf Dialects.mysql Gen.Policy.mysqlOps (toP 0 c) = true)
    (hf : inFrag Gen.Policy.mysqlOps (toP 0 c) = true) :
    ∃ (ts : List Tok) (f : Nat), conc (envFor cop c) (toP 0 c) = toSimple c ∧
      canon (rHolder .mysql kw (.cond c)) = canon ([S " ", S kw, S " "] ++ toks .mysql (envFor cop c) ts) ∧
      Pratt.parseE Dialects.mysql f 0 ts = some (toP 0 c, []) :=
  where_reparses .mysql kw cop c hl hops hw hf (fun pe h => C05.mysql_roundtrip pe h)

/-! ### any expression position (select list, SET values, ORDER BY keys, function arguments, …) -/

/-- the environment of a single expression -/
def envForE (cop : String) (e : Ex) : Env := { envOf (leavesE e) with cop := cop }

/-- wherever the statement renderer writes an expression built from binary operators and NOT over primary
expressions, the text is that of a token list that re-parses, under the dialect's table, to the expression's
operator tree -/
theorem expr_reparses (d : Backend) (cop : String) (e : Ex) (hl : ∀ x ∈ leavesE e, clsOf x ≤ 5)
    (hops : opsFit cop e = true)
    (hw : Pratt.wf (tblOf d) (opsOf d) (exP 0 e) = true) (hf : inFrag (opsOf d) (exP 0 e) = true)
    (round : ∀ pe, Pratt.wf (tblOf d) (opsOf d) pe = true →
      ∃ f, Pratt.parseE (tblOf d) f 0 (Pratt.pr (pol d) pe) = some (pe, [])) :
    ∃ (ts : List Tok) (f : Nat),
      conc (envForE cop e) (exP 0 e) = e ∧
      canon (rEx d e) = canon (toks d (envForE cop e) ts) ∧
      Pratt.parseE (tblOf d) f 0 ts = some (exP 0 e, []) := by
  have hρ : ∀ a, leafOK (a % 8) ((envForE cop e).leaf a) = true := envOf_ok (leavesE e)
  have hag : Agree (envForE cop e) 0 (leavesE e) := envOf_agree _ hl
  have hconc : conc (envForE cop e) (exP 0 e) = e := conc_exP _ e 0 hag hops
  obtain ⟨f, hp⟩ := round (exP 0 e) hw
  refine ⟨_, f, hconc, ?_, hp⟩
  have hs := stmt_prints_as_pratt d (envForE cop e) hρ (exP 0 e) hf
  rwa [hconc] at hs

theorem expr_reparses_sqlite (cop : String) (e : Ex) (hl : ∀ x ∈ leavesE e, clsOf x ≤ 5) (hops : opsFit cop e = true)
    (hw : Pratt.wf Dialects.sqlite Gen.Policy.sqliteOps (exP 0 e) = true) (hf : inFrag Gen.Policy.sqliteOps (exP 0 e) = true) :
    ∃ (ts : List Tok) (f : Nat), conc (envForE cop e) (exP 0 e) = e ∧
      canon (rEx .sqlite e) = canon (toks .sqlite (envForE cop e) ts) ∧
      Pratt.parseE Dialects.sqlite f 0 ts = some (exP 0 e, []) :=
  expr_reparses .sqlite cop e hl hops hw hf (fun pe h => C05.sqlite_roundtrip pe h)
theorem expr_reparses_postgres (cop : String) (e : Ex) (hl : ∀ x ∈ leavesE e, clsOf x ≤ 5) (hops : opsFit cop e = true)
    (hw : Pratt.wf Dialects.postgres Gen.Policy.postgresOps (exP 0 e) = true) (hf : inFrag Gen.Policy.postgresOps (exP 0 e) = true) :
    ∃ (ts : List Tok) (f : Nat), conc (envForE cop e) (exP 0 e) = e ∧
      canon (rEx .postgres e) = canon (toks .postgres (envForE cop e) ts) ∧
      Pratt.parseE Dialects.postgres f 0 ts = some (exP 0 e, []) :=
  expr_reparses .postgres cop e hl hops hw hf (fun pe h => C05.postgres_roundtrip pe h)
theorem expr_reparses_mysql (cop : String) (e : Ex) (hl : ∀ x ∈ leavesE e, clsOf x ≤ 5) (hops : opsFit cop e = true)
    (hw : Pratt.wf Dialects.mysql Gen.Policy.mysqlOps (exP 0 e) = true) (hf : inFrag Gen.Policy.mysqlOps (exP 0 e) = true) :
    ∃ (ts : List Tok) (f : Nat), conc (envForE cop e) (exP 0 e) = e ∧
      canon (rEx .mysql e) = canon (toks .mysql (envForE cop e) ts) ∧
      Pratt.parseE Dialects.mysql f 0 ts = some (exP 0 e, []) :=
  expr_reparses .mysql cop e hl hops hw hf (fun pe h => C05.mysql_roundtrip pe h)

/-! Non-vacuity: `WHERE "a" = 1 AND NOT ("b" LIKE 'x' OR "c" BETWEEN 1 AND 2)`: the hypotheses hold on all three
dialects, and the tree. -/
def demoW : Cond :=
  .mk false false (.consE (.bin (.col (.col "a")) (.std 10) (.value ⟨"Bool", .bool true⟩))
    (.consC (.mk true true (.consE (.bin (.col (.col "b")) (.std 2) (.value ⟨"Bool", .bool false⟩))
      (.consE (.bin (.col (.col "c")) (.std 8) (.bin (.value ⟨"Bool", .bool true⟩) (.std 0) (.value ⟨"Bool", .bool false⟩))) .nil))) .nil))
def demoTree : Pratt.Ex :=
  .bin (.bin (.atom 0) 10 (.atom 8)) 0 (.un (.bin (.bin (.atom 16) 2 (.atom 24)) 1 (.bin (.atom 32) 8 (.bin (.atom 40) 0 (.atom 48)))))
theorem demoW_tree : toP 0 demoW = demoTree := by
  simp [toP, foldP, exP, demoW, demoTree, leavesC, leavesI, leavesE, clsOf, shapeOf, isEmptyTuple, jn, codeOf]
example : ∀ e ∈ leavesC demoW, clsOf e ≤ 5 := by
  simp [demoW, leavesC, leavesI, leavesE, clsOf, shapeOf, isEmptyTuple]
example : opsFitC "" demoW = true := by simp [demoW, opsFitC, opsFitI, opsFit, codeOf, opOf]
example : Pratt.wf Dialects.sqlite Gen.Policy.sqliteOps demoTree = true ∧ inFrag Gen.Policy.sqliteOps demoTree = true ∧
    Pratt.wf Dialects.postgres Gen.Policy.postgresOps demoTree = true ∧ inFrag Gen.Policy.postgresOps demoTree = true ∧
    Pratt.wf Dialects.mysql Gen.Policy.mysqlOps demoTree = true ∧ inFrag Gen.Policy.mysqlOps demoTree = true := by decide

end SeaQ.Props.WhereParse
