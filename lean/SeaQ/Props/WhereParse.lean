import SeaQ.Props.C05Stmt
import SeaQ.Props.C06Stmt
/-!
# C05 and C06 together, at the statement renderer

The WHERE / HAVING / ON clause of a statement is (C06Stmt) the expression renderer applied to
`to_simple_expr` of the held condition, an AND / OR / NOT tree over the member expressions; an
operator tree over leaves is (C05Stmt) written as the tokens of the abstract printer, which re-parse
under the engine's table to the tree (C05).  Here the two meet: for every condition whose members are
primary expressions (columns, values, function calls, sub-queries, CASE, custom text, … — anything
but a bare binary / NOT expression, which would itself be part of the operator tree),

* `toP` is the AND / OR / NOT tree of the condition with its members numbered in order,
* `conc_toP`: its concretisation over those members IS `to_simple_expr`,
* `where_reparses_*`: the clause the statement carries is the keyword followed by the text of a token
  list that re-parses, under the dialect's operator table, to exactly that tree — the tree whose
  three-valued meaning C06 proves to be the conjunction of the conditions that were added.
-/
namespace SeaQ.Props.WhereParse
open SeaQ.Escape SeaQ.Stmt SeaQ.Render
open SeaQ.Props.C05Stmt SeaQ.Props.C06Stmt

/-- the shape class of a member that can stand at a leaf (6 = not a leaf) -/
def clsOf (e : Ex) : Nat :=
  if shapeOf e == .atomic && !isEmptyTuple e then 0
  else if isCustom e then 4
  else match e with
    | .values _ | .custWith _ _ | .asEnum _ _ => 5
    | _ => 6

theorem leafOK_cls (e : Ex) (h : clsOf e ≤ 5) : leafOK (clsOf e) e = true := by
  unfold clsOf at h ⊢
  unfold leafOK
  by_cases h1 : (shapeOf e == .atomic && !isEmptyTuple e) = true
  · simp only [h1, if_true]; simpa using h1
  · simp only [h1, Bool.false_eq_true, if_false] at h ⊢
    by_cases h2 : isCustom e = true
    · simp [h2]
    · simp only [h2, Bool.false_eq_true, if_false] at h ⊢
      cases e <;> simp_all

/-- a leaf of each class, for atom numbers no member stands behind -/
def dfl (k : Nat) : Ex := if k ≤ 3 then .keyword .null else if k == 4 then .cust "x" else .values []

theorem leafOK_dfl (k : Nat) : leafOK k (dfl k) = true := by
  unfold dfl leafOK
  by_cases h3 : k ≤ 3
  · simp [h3, shapeOf, isEmptyTuple]
  · by_cases h4 : k = 4
    · subst h4; simp [isCustom]
    · simp [h3, h4]

/-- atom `8 * j + k` is the `j`-th member when that member is a leaf of class `k` -/
def envOf (ms : List Ex) : Env where
  leaf a := match ms[a / 8]? with
    | some e => if clsOf e == a % 8 && decide (clsOf e ≤ 5) then e else dfl (a % 8)
    | none => dfl (a % 8)
  fn := .std 5
  cop := ""

theorem envOf_ok (ms : List Ex) : ∀ a, leafOK (a % 8) ((envOf ms).leaf a) = true := by
  intro a
  simp only [envOf]
  cases h : ms[a / 8]? with
  | none => exact leafOK_dfl _
  | some e =>
    simp only
    by_cases hc : (clsOf e == a % 8 && decide (clsOf e ≤ 5)) = true
    · simp only [hc, if_true]
      simp only [Bool.and_eq_true, beq_iff_eq, decide_eq_true_eq] at hc
      rw [← hc.1]; exact leafOK_cls e hc.2
    · simp only [hc, Bool.false_eq_true, if_false]; exact leafOK_dfl _

mutual
  /-- the member expressions of a condition, in order (an empty junction contributes its constant) -/
  def leavesC : Cond → List Ex
    | .mk _ any items => match items with
      | .nil => [Ex.const ⟨"Bool", .bool (!any)⟩]
      | .consC c r => leavesC c ++ leavesI r
      | .consE e r => e :: leavesI r
  def leavesI : CondItems → List Ex
    | .nil => []
    | .consC c r => leavesC c ++ leavesI r
    | .consE e r => e :: leavesI r
end

def jn (any : Bool) : Nat := if any then 1 else 0

mutual
  /-- the AND / OR / NOT tree of a condition; its members are the atoms `i, i+1, ..` -/
  def toP (i : Nat) : Cond → Pratt.Ex
    | .mk neg any items =>
      let body := match items with
        | .nil => Pratt.Ex.atom (8 * i)
        | .consC c r => foldP any (i + (leavesC c).length) (toP i c) r
        | .consE e r => foldP any (i + 1) (.atom (8 * i + clsOf e)) r
      if neg then .un body else body
  def foldP (any : Bool) (i : Nat) (acc : Pratt.Ex) : CondItems → Pratt.Ex
    | .nil => acc
    | .consC c r => foldP any (i + (leavesC c).length) (.bin acc (jn any) (toP i c)) r
    | .consE e r => foldP any (i + 1) (.bin acc (jn any) (.atom (8 * i + clsOf e))) r
end

/-- `ρ` puts the members `ms` behind the atoms numbered from `i` -/
def Agree (ρ : Env) (i : Nat) (ms : List Ex) : Prop :=
  ∀ j (h : j < ms.length), ρ.leaf (8 * (i + j) + clsOf ms[j]) = ms[j]

theorem Agree.left {ρ : Env} {i : Nat} {a b : List Ex} (h : Agree ρ i (a ++ b)) : Agree ρ i a := by
  intro j hj
  have := h j (by simp; omega)
  simpa [List.getElem_append_left hj] using this

theorem Agree.right {ρ : Env} {i : Nat} {a b : List Ex} (h : Agree ρ i (a ++ b)) : Agree ρ (i + a.length) b := by
  intro j hj
  have := h (a.length + j) (by simp; omega)
  simpa [List.getElem_append_right, Nat.add_assoc] using this

theorem Agree.head {ρ : Env} {i : Nat} {e : Ex} {r : List Ex} (h : Agree ρ i (e :: r)) : ρ.leaf (8 * i + clsOf e) = e := by
  have := h 0 (by simp)
  simpa only [Nat.add_zero, List.getElem_cons_zero] using this

theorem Agree.tail {ρ : Env} {i : Nat} {e : Ex} {r : List Ex} (h : Agree ρ i (e :: r)) : Agree ρ (i + 1) r := by
  have := Agree.right (a := [e]) (b := r) (by simpa using h)
  simpa using this

theorem opOf_jn (cop : String) (any : Bool) : opOf cop (jn any) = junc any := by
  cases any <;> rfl

/-! ### the concretisation of the tree is `to_simple_expr` -/

mutual
theorem conc_toP (ρ : Env) : ∀ (c : Cond) (i : Nat), Agree ρ i (leavesC c) → conc ρ (toP i c) = toSimple c
  | .mk neg any .nil, i, h => by
    have hh := Agree.head (by simpa [leavesC] using h) (ρ := ρ) (i := i) (e := Ex.const ⟨"Bool", .bool (!any)⟩) (r := [])
    have hc : clsOf (Ex.const ⟨"Bool", .bool (!any)⟩) = 0 := by simp [clsOf, shapeOf, isEmptyTuple]
    rw [hc, Nat.add_zero] at hh
    cases neg <;> simp [toP, toSimple, conc, hh]
  | .mk neg any (.consE e r), i, h => by
    have h' : Agree ρ i (e :: leavesI r) := by simpa [leavesC] using h
    have hf := conc_foldP ρ any r (i + 1) (.atom (8 * i + clsOf e)) h'.tail
    cases neg <;> simp [toP, toSimple, conc, hf, h'.head]
  | .mk neg any (.consC c r), i, h => by
    have h' : Agree ρ i (leavesC c ++ leavesI r) := by simpa [leavesC] using h
    have ihc := conc_toP ρ c i h'.left
    have hf := conc_foldP ρ any r (i + (leavesC c).length) (toP i c) h'.right
    cases neg <;> simp [toP, toSimple, conc, hf, ihc]
theorem conc_foldP (ρ : Env) (any : Bool) : ∀ (r : CondItems) (i : Nat) (acc : Pratt.Ex), Agree ρ i (leavesI r) →
    conc ρ (foldP any i acc r) = foldS any (conc ρ acc) r
  | .nil, _, _, _ => by simp [foldP, foldS]
  | .consE e r, i, acc, h => by
    have h' : Agree ρ i (e :: leavesI r) := by simpa [leavesI] using h
    have ih := conc_foldP ρ any r (i + 1) (.bin acc (jn any) (.atom (8 * i + clsOf e))) h'.tail
    simp only [foldP, foldS, ih, conc, opOf_jn, h'.head]
  | .consC c r, i, acc, h => by
    have h' : Agree ρ i (leavesC c ++ leavesI r) := by simpa [leavesI] using h
    have ihc := conc_toP ρ c i h'.left
    have ih := conc_foldP ρ any r (i + (leavesC c).length) (.bin acc (jn any) (toP i c)) h'.right
    simp only [foldP, foldS, ih, conc, opOf_jn, ihc]
end

theorem envOf_agree (ms : List Ex) (hl : ∀ e ∈ ms, clsOf e ≤ 5) : Agree (envOf ms) 0 ms := by
  intro j hj
  have hk : clsOf ms[j] ≤ 5 := hl _ (List.getElem_mem hj)
  have h1 : (8 * (0 + j) + clsOf ms[j]) / 8 = j := by omega
  have h2 : (8 * (0 + j) + clsOf ms[j]) % 8 = clsOf ms[j] := by omega
  simp only [envOf, h1, h2, List.getElem?_eq_getElem hj, beq_self_eq_true, hk, decide_true, Bool.and_self, if_true]

/-! ### the tree is in the fragment and well-formed -/

mutual
theorem inFrag_toP (ops : List Nat) (h0 : 0 ∈ ops) (h1 : 1 ∈ ops) : ∀ (c : Cond) (i : Nat), inFrag ops (toP i c) = true
  | .mk neg any .nil, i => by cases neg <;> simp [toP, inFrag]
  | .mk neg any (.consE e r), i => by
    have := inFrag_foldP ops h0 h1 any r (i + 1) (.atom (8 * i + clsOf e)) (by simp [inFrag])
    cases neg <;> simp [toP, inFrag, this]
  | .mk neg any (.consC c r), i => by
    have := inFrag_foldP ops h0 h1 any r (i + (leavesC c).length) (toP i c) (inFrag_toP ops h0 h1 c i)
    cases neg <;> simp [toP, inFrag, this]
theorem inFrag_foldP (ops : List Nat) (h0 : 0 ∈ ops) (h1 : 1 ∈ ops) (any : Bool) : ∀ (r : CondItems) (i : Nat) (acc : Pratt.Ex),
    inFrag ops acc = true → inFrag ops (foldP any i acc r) = true
  | .nil, _, _, h => by simpa [foldP] using h
  | .consE e r, i, acc, h => by
    have hj : jn any ∈ ops := by cases any <;> simpa [jn]
    exact inFrag_foldP ops h0 h1 any r _ _ (by simp [inFrag, h, hj])
  | .consC c r, i, acc, h => by
    have hj : jn any ∈ ops := by cases any <;> simpa [jn]
    exact inFrag_foldP ops h0 h1 any r _ _ (by simp [inFrag, h, hj, inFrag_toP ops h0 h1 c i])
end

/-- what `wf` asks of the two junction operators: in the table, stand-alone infix, no ternary form -/
def juncOK (t : Pratt.Tbl) (ops : List Nat) : Bool :=
  ops.contains 0 && ops.contains 1 && t.infx 0 && t.infx 1 && t.mix 0 == none && t.mix 1 == none

theorem wf_bin_junc (t : Pratt.Tbl) (ops : List Nat) (hj : juncOK t ops = true) (any : Bool) (l r : Pratt.Ex)
    (hl : Pratt.wf t ops l = true) (hr : Pratt.wf t ops r = true) : Pratt.wf t ops (.bin l (jn any) r) = true := by
  simp only [juncOK, Bool.and_eq_true, beq_iff_eq] at hj
  obtain ⟨⟨⟨⟨⟨c0, c1⟩, i0⟩, i1⟩, m0⟩, m1⟩ := hj
  have hms : Pratt.isMixShape t (jn any) r = false := by
    cases any <;> cases r <;> simp [Pratt.isMixShape, jn, m0, m1]
  have c0' : 0 ∈ ops := by simpa using c0
  have c1' : 1 ∈ ops := by simpa using c1
  cases any
  · have h0 : Pratt.isMixShape t 0 r = false := by simpa [jn] using hms
    simp [Pratt.wf, jn, c0', i0, m0, hl, hr, h0]
  · have h1 : Pratt.isMixShape t 1 r = false := by simpa [jn] using hms
    simp [Pratt.wf, jn, c1', i1, m1, hl, hr, h1]

mutual
theorem wf_toP (t : Pratt.Tbl) (ops : List Nat) (hj : juncOK t ops = true) : ∀ (c : Cond) (i : Nat), Pratt.wf t ops (toP i c) = true
  | .mk neg any .nil, i => by cases neg <;> simp [toP, Pratt.wf]
  | .mk neg any (.consE e r), i => by
    have := wf_foldP t ops hj any r (i + 1) (.atom (8 * i + clsOf e)) (by simp [Pratt.wf])
    cases neg <;> simp [toP, Pratt.wf, this]
  | .mk neg any (.consC c r), i => by
    have := wf_foldP t ops hj any r (i + (leavesC c).length) (toP i c) (wf_toP t ops hj c i)
    cases neg <;> simp [toP, Pratt.wf, this]
theorem wf_foldP (t : Pratt.Tbl) (ops : List Nat) (hj : juncOK t ops = true) (any : Bool) : ∀ (r : CondItems) (i : Nat) (acc : Pratt.Ex),
    Pratt.wf t ops acc = true → Pratt.wf t ops (foldP any i acc r) = true
  | .nil, _, _, h => by simpa [foldP] using h
  | .consE e r, i, acc, h => wf_foldP t ops hj any r _ _ (wf_bin_junc t ops hj any _ _ h (by simp [Pratt.wf]))
  | .consC c r, i, acc, h => wf_foldP t ops hj any r _ _ (wf_bin_junc t ops hj any _ _ h (wf_toP t ops hj c i))
end

/-! ## the property theorems -/

theorem juncOK_sqlite : juncOK Dialects.sqlite Gen.Policy.sqliteOps = true := by decide
theorem juncOK_postgres : juncOK Dialects.postgres Gen.Policy.postgresOps = true := by decide
theorem juncOK_mysql : juncOK Dialects.mysql Gen.Policy.mysqlOps = true := by decide

/-- the generic statement: given C05's round trip for the dialect, the clause re-parses to the condition's tree -/
theorem where_reparses (d : Backend) (kw : String) (c : Cond) (hl : ∀ e ∈ leavesC c, clsOf e ≤ 5)
    (hj : juncOK (tblOf d) (opsOf d) = true)
    (round : ∀ pe, Pratt.wf (tblOf d) (opsOf d) pe = true →
      ∃ f, Pratt.parseE (tblOf d) f 0 (Pratt.pr (pol d) pe) = some (pe, [])) :
    ∃ (ρ : Env) (ts : List Tok) (f : Nat),
      (∀ a, leafOK (a % 8) (ρ.leaf a) = true) ∧
      conc ρ (toP 0 c) = toSimple c ∧
      canon (rHolder d kw (.cond c)) = canon ([S " ", S kw, S " "] ++ toks d ρ ts) ∧
      Pratt.parseE (tblOf d) f 0 ts = some (toP 0 c, []) := by
  have hj' := hj
  simp only [juncOK, Bool.and_eq_true, beq_iff_eq, List.contains_iff_mem] at hj'
  have h0 : 0 ∈ opsOf d := hj'.1.1.1.1.1
  have h1 : 1 ∈ opsOf d := hj'.1.1.1.1.2
  let ρ := envOf (leavesC c)
  have hρ := envOf_ok (leavesC c)
  have hconc : conc ρ (toP 0 c) = toSimple c := conc_toP ρ c 0 (envOf_agree _ hl)
  obtain ⟨f, hp⟩ := round (toP 0 c) (wf_toP _ _ hj c 0)
  refine ⟨ρ, _, f, hρ, hconc, ?_, hp⟩
  have hs := stmt_prints_as_pratt d ρ hρ (toP 0 c) (inFrag_toP _ h0 h1 c 0)
  rw [hconc] at hs
  have hr : rHolder d kw (.cond c) = [S " ", S kw, S " "] ++ rEx d (toSimple c) := by
    simp [rHolder, (rCond_eq d c).1]
  rw [hr, canon_append, canon_append, hs]

/-- **SQLite**: the WHERE / HAVING / ON clause of a statement re-parses to the AND / OR / NOT tree of the held condition -/
theorem where_reparses_sqlite (kw : String) (c : Cond) (hl : ∀ e ∈ leavesC c, clsOf e ≤ 5) :
    ∃ (ρ : Env) (ts : List Tok) (f : Nat),
      (∀ a, leafOK (a % 8) (ρ.leaf a) = true) ∧ conc ρ (toP 0 c) = toSimple c ∧
      canon (rHolder .sqlite kw (.cond c)) = canon ([S " ", S kw, S " "] ++ toks .sqlite ρ ts) ∧
      Pratt.parseE Dialects.sqlite f 0 ts = some (toP 0 c, []) :=
  where_reparses .sqlite kw c hl juncOK_sqlite (fun pe hw => C05.sqlite_roundtrip pe hw)

/-- **PostgreSQL** -/
theorem where_reparses_postgres (kw : String) (c : Cond) (hl : ∀ e ∈ leavesC c, clsOf e ≤ 5) :
    ∃ (ρ : Env) (ts : List Tok) (f : Nat),
      (∀ a, leafOK (a % 8) (ρ.leaf a) = true) ∧ conc ρ (toP 0 c) = toSimple c ∧
      canon (rHolder .postgres kw (.cond c)) = canon ([S " ", S kw, S " "] ++ toks .postgres ρ ts) ∧
      Pratt.parseE Dialects.postgres f 0 ts = some (toP 0 c, []) :=
  where_reparses .postgres kw c hl juncOK_postgres (fun pe hw => C05.postgres_roundtrip pe hw)

/-- **MySQL** -/
theorem where_reparses_mysql (kw : String) (c : Cond) (hl : ∀ e ∈ leavesC c, clsOf e ≤ 5) :
    ∃ (ρ : Env) (ts : List Tok) (f : Nat),
      (∀ a, leafOK (a % 8) (ρ.leaf a) = true) ∧ conc ρ (toP 0 c) = toSimple c ∧
      canon (rHolder .mysql kw (.cond c)) = canon ([S " ", S kw, S " "] ++ toks .mysql ρ ts) ∧
      Pratt.parseE Dialects.mysql f 0 ts = some (toP 0 c, []) :=
  where_reparses .mysql kw c hl juncOK_mysql (fun pe hw => C05.mysql_roundtrip pe hw)

/-! Non-vacuity: the condition of `Props/C06Stmt.demoC` (`NOT (a OR (b AND x)) AND x`): its members are leaves,
and its tree. -/
example : ∀ e ∈ leavesC C06Stmt.demoC, clsOf e ≤ 5 := by decide
example : toP 0 C06Stmt.demoC =
    .bin (.un (.bin (.atom 0) 1 (.bin (.atom 8) 0 (.atom 16)))) 0 (.atom 24) := by
  simp [toP, foldP, C06Stmt.demoC, leavesC, leavesI, clsOf, shapeOf, isEmptyTuple, jn, C06Stmt.cA, C06Stmt.cB, C06Stmt.cX]

end SeaQ.Props.WhereParse
