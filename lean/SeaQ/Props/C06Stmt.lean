import SeaQ.Model.Render
import SeaQ.Props.C06
/-!
# C06 at the statement renderer

`Props/C06` is about `Condition::to_simple_expr` over abstract atoms: the expression it builds
means the conjunction of what was added.  The statement model renders a condition directly
(`Render.rCond` / `rItems`: the separators and the parenthesis decisions of the AND / OR chain).
This file shows that the shortcut is the composition the crate performs:

* `toSimple` — `Condition::to_simple_expr` inside the statement model's own expression type
  (left fold with `AND` / `OR`, `TRUE` / `FALSE` for an empty junction, `NOT` for `negate`);
* `rCond_eq` — for EVERY condition tree and dialect, `rCond d c = rEx d (toSimple c)`, piece
  for piece: the WHERE / HAVING / ON text of a statement is the expression renderer applied to
  the folded expression;
* `toSimple_abs` — `toSimple` is C06's `toE` (the abstraction forgets what the atoms are), so
  `C06_rendered_meaning` speaks about the very expression whose text the statement carries.
-/
namespace SeaQ.Props.C06Stmt
open SeaQ.Escape SeaQ.Stmt SeaQ.Render

/-- the junction's operator -/
def junc (any : Bool) : Op := .std (if any then 1 else 0)

mutual
  /-- `Condition::to_simple_expr` -/
  def toSimple : Cond → Ex
    | .mk neg any items =>
      let body := match items with
        | .nil => Ex.const ⟨"Bool", .bool (!any)⟩
        | .consC c r => foldS any (toSimple c) r
        | .consE e r => foldS any e r
      if neg then .unary body else body
  /-- `out_expr = out_expr.and(e)` / `.or(e)` over the remaining members -/
  def foldS (any : Bool) (acc : Ex) : CondItems → Ex
    | .nil => acc
    | .consC c r => foldS any (.bin acc (junc any) (toSimple c)) r
    | .consE e r => foldS any (.bin acc (junc any) e) r
end

theorem rEx_junc (d : Backend) (any : Bool) (L R : Ex) :
    rEx d (.bin L (junc any) R) = binLeft d L (junc any) (rEx d L) ++
      wrap (greater d (shapeOf R) (.bin (junc any))) (rEx d R) := by
  have h25 : ∀ n : Nat, n ≤ 1 → (Op.std n == Op.std 25) = false := by
    intro n hn; rw [beq_eq_false_iff_ne]; intro h; injection h with h; omega
  cases any <;> simp [rEx, junc, Oper.isBetween, Oper.isLike, Oper.takesEscape, Oper.isBin, Op.isStd, h25]

theorem isBinWith_shape (e : Ex) (o : Op) : isBinWith e (· == o) = (shapeOf e == .bin o) := by
  cases e <;> simp [isBinWith, shapeOf]
  rw [Bool.eq_iff_iff]; simp

theorem leftAssoc_junc (d : Backend) (any : Bool) : leftAssoc d (junc any) = true := by
  cases any <;> simp [leftAssoc, junc, Op.isStd]

theorem rOp_junc (d : Backend) (any : Bool) : rOp d (junc any) = [S (if any then "OR" else "AND")] := by
  cases any <;> rfl

/-- a member written as the left end of the chain -/
def leftOf (d : Backend) (any : Bool) (m : Ex) : Pieces :=
  wrap (dropItem d any true (shapeOf m)) (rEx d m)

theorem binLeft_junc (d : Backend) (any : Bool) (L : Ex) :
    binLeft d L (junc any) (rEx d L) = leftOf d any L ++ condSep any false := by
  have hl := leftAssoc_junc d any
  have ho := rOp_junc d any
  simp only [binLeft, leftOf, dropItem, isBinWith_shape, condSep]
  rw [show Op.std (if any = true then 1 else 0) = junc any from rfl, hl, ho]
  simp [S]

theorem leftOf_chain (d : Backend) (any : Bool) (acc : Ex) (h : shapeOf acc = .bin (junc any)) :
    leftOf d any acc = rEx d acc := by
  have : dropItem d any true (shapeOf acc) = true := by
    rw [h]; simp [dropItem, junc]
  simp [leftOf, this, wrap]

/-- one more member after an expression `acc` -/
theorem step (d : Backend) (any : Bool) (acc x : Ex) :
    rEx d (.bin acc (junc any) x) = leftOf d any acc ++ condSep any false ++
      wrap (false || dropItem d any false (shapeOf x)) (rEx d x) := by
  rw [rEx_junc, binLeft_junc]
  simp [dropItem, junc]

/-- the body of a condition, before `negate`, as the renderer writes it -/
def bodyR (d : Backend) (any : Bool) (items : CondItems) : Pieces :=
  if itemsLen items == 0 then [.c ⟨"Bool", .bool (!any)⟩]
  else rItems d any (itemsLen items == 1) true items

/-- … and as `to_simple_expr` builds it -/
def bodyS (any : Bool) : CondItems → Ex
  | .nil => Ex.const ⟨"Bool", .bool (!any)⟩
  | .consC c r => foldS any (toSimple c) r
  | .consE e r => foldS any e r

theorem rCond_unfold (d : Backend) (neg any : Bool) (items : CondItems) :
    rCond d (.mk neg any items) =
      if neg then [S "NOT", S " "] ++ wrap (greater d (shapeC (.mk false any items)) .un) (bodyR d any items)
      else bodyR d any items := by
  simp [rCond, bodyR]

theorem toSimple_unfold (neg any : Bool) (items : CondItems) :
    toSimple (.mk neg any items) = if neg then .unary (bodyS any items) else bodyS any items := by
  cases items <;> simp [toSimple, bodyS]

variable (d : Backend)

mutual
/-- **the condition renderer is the expression renderer applied to `to_simple_expr`** (and the
shape the parenthesis decisions look at is the shape of that expression) -/
theorem rCond_eq : ∀ c : Cond, rCond d c = rEx d (toSimple c) ∧ shapeC c = shapeOf (toSimple c)
  | .mk neg any items => by
    have core : bodyR d any items = rEx d (bodyS any items) ∧
        shapeC (.mk false any items) = shapeOf (bodyS any items) := by
      match items with
      | .nil => simp [bodyR, bodyS, itemsLen, rEx, shapeC, shapeOf]
      | .consE e .nil =>
        simp [bodyR, bodyS, itemsLen, rItems, condSep, wrap, foldS, shapeC]
      | .consC c .nil =>
        have ih := rCond_eq c
        simp [bodyR, bodyS, itemsLen, rItems, condSep, wrap, foldS, shapeC, ih.1, ih.2]
      | .consE e (.consE x r) =>
        have h := start any (.consE x r) e (by simp)
        simp only [bodyR, bodyS, itemsLen, rItems, condSep, shapeC] at h ⊢
        simp [h.1, h.2, leftOf, junc]
      | .consE e (.consC x r) =>
        have h := start any (.consC x r) e (by simp)
        simp only [bodyR, bodyS, itemsLen, rItems, condSep, shapeC] at h ⊢
        simp [h.1, h.2, leftOf, junc]
      | .consC c (.consE x r) =>
        have ih := rCond_eq c
        have h := start any (.consE x r) (toSimple c) (by simp)
        simp only [bodyR, bodyS, itemsLen, rItems, condSep, shapeC] at h ⊢
        simp [h.1, h.2, leftOf, junc, ih.1, ih.2]
      | .consC c (.consC x r) =>
        have ih := rCond_eq c
        have h := start any (.consC x r) (toSimple c) (by simp)
        simp only [bodyR, bodyS, itemsLen, rItems, condSep, shapeC] at h ⊢
        simp [h.1, h.2, leftOf, junc, ih.1, ih.2]
    rw [rCond_unfold, toSimple_unfold]
    cases neg with
    | false => simpa using core
    | true =>
      have hs : shapeC (.mk true any items) = .other := by unfold shapeC; simp
      simp [rEx, core.1, core.2, hs, shapeOf]
/-- the first member `m` followed by at least one more -/
theorem start : ∀ (any : Bool) (R : CondItems) (m : Ex), R ≠ .nil →
    rEx d (foldS any m R) = leftOf d any m ++ rItems d any false false R ∧
      shapeOf (foldS any m R) = .bin (junc any)
  | any, .nil, _, h => absurd rfl h
  | any, .consE x r, m, _ => by
    have hc := chain any r (.bin m (junc any) x) rfl
    simp only [foldS, rItems]
    rw [hc.1, step]
    exact ⟨by simp, hc.2⟩
  | any, .consC c r, m, _ => by
    have ih := rCond_eq c
    have hc := chain any r (.bin m (junc any) (toSimple c)) rfl
    simp only [foldS, rItems]
    rw [hc.1, step, ih.1, ih.2]
    exact ⟨by simp, hc.2⟩
/-- further members after a chain `acc` -/
theorem chain : ∀ (any : Bool) (r : CondItems) (acc : Ex), shapeOf acc = .bin (junc any) →
    rEx d (foldS any acc r) = rEx d acc ++ rItems d any false false r ∧
      shapeOf (foldS any acc r) = .bin (junc any)
  | any, .nil, acc, h => by simp [foldS, rItems, h]
  | any, .consE x r, acc, h => by
    have hc := chain any r (.bin acc (junc any) x) rfl
    simp only [foldS, rItems]
    rw [hc.1, step, leftOf_chain d any acc h]
    exact ⟨by simp, hc.2⟩
  | any, .consC c r, acc, h => by
    have ih := rCond_eq c
    have hc := chain any r (.bin acc (junc any) (toSimple c)) rfl
    simp only [foldS, rItems]
    rw [hc.1, step, leftOf_chain d any acc h, ih.1, ih.2]
    exact ⟨by simp, hc.2⟩
end

/-! ## the folded expression is C06's `toE` -/

mutual
  /-- forget what the member expressions are: the condition over atoms that C06 speaks about -/
  def absC : Cond → SeaQ.Cond.Cnd Ex
    | .mk n a items => .mk n a (absL items)
  def absL : CondItems → SeaQ.Cond.CList Ex
    | .nil => .nil
    | .consC c r => .cons (.cond (absC c)) (absL r)
    | .consE e r => .cons (.expr e) (absL r)
end

/-- C06's expression fragment inside the statement model's expression type -/
def embed : SeaQ.Cond.E Ex → Ex
  | .atom e => e
  | .tru => .const ⟨"Bool", .bool true⟩
  | .fls => .const ⟨"Bool", .bool false⟩
  | .and l r => .bin (embed l) (.std 0) (embed r)
  | .or l r => .bin (embed l) (.std 1) (embed r)
  | .not e => .unary (embed e)

mutual
theorem toSimple_abs : ∀ c : Cond, embed (SeaQ.Cond.toE (absC c)) = toSimple c
  | .mk n a .nil => by cases n <;> cases a <;> simp [absC, absL, SeaQ.Cond.toE, toSimple, embed]
  | .mk n a (.consE e r) => by
    have h := foldS_abs a r (.atom e)
    cases n <;> simp [absC, absL, SeaQ.Cond.toE, SeaQ.Cond.toEX, toSimple, embed, h]
  | .mk n a (.consC c r) => by
    have ih := toSimple_abs c
    have h := foldS_abs a r (SeaQ.Cond.toE (absC c))
    cases n <;> simp [absC, absL, SeaQ.Cond.toE, SeaQ.Cond.toEX, toSimple, embed, h, ih]
theorem foldS_abs : ∀ (a : Bool) (r : CondItems) (acc : SeaQ.Cond.E Ex),
    embed (SeaQ.Cond.foldE a acc (absL r)) = foldS a (embed acc) r
  | a, .nil, acc => by simp [absL, SeaQ.Cond.foldE, foldS]
  | a, .consE e r, acc => by
    have h := foldS_abs a r (if a then .or acc (.atom e) else .and acc (.atom e))
    cases a <;> simp_all [absL, SeaQ.Cond.foldE, SeaQ.Cond.toEX, foldS, embed, junc]
  | a, .consC c r, acc => by
    have ih := toSimple_abs c
    have h := foldS_abs a r (if a then .or acc (SeaQ.Cond.toE (absC c)) else .and acc (SeaQ.Cond.toE (absC c)))
    cases a <;> simp_all [absL, SeaQ.Cond.foldE, SeaQ.Cond.toEX, foldS, embed, junc]
end

/-! ## the property at the statement level -/

/-- **C06 for the statement model.**  Whatever history of `and_where` / `cond_where` /
`and_having` … calls produced the held condition `c`, the clause the statement carries is the
keyword followed by the expression renderer's text of an expression `e` which (i) is
`to_simple_expr` of the held condition and (ii) means, under every assignment of SQL truth
values to the member expressions, the conjunction of the conditions that were added. -/
theorem C06_statement (d : Backend) (kw : String) (cs : List (SeaQ.Cond.Cnd Ex)) (c : Cond)
    (h : cs.foldl SeaQ.Cond.Holder.addCondition .empty = .cond (absC c)) (ρ : Ex → SeaQ.Cond.K3) :
    rHolder d kw (.cond c) = [S " ", S kw, S " "] ++ rEx d (toSimple c) ∧
    toSimple c = embed (SeaQ.Cond.toE (absC c)) ∧
    SeaQ.Cond.evalE ρ (SeaQ.Cond.toE (absC c)) =
      (cs.map (SeaQ.Cond.evalC ρ)).foldl SeaQ.Cond.and3 .t := by
  refine ⟨by simp [rHolder, (rCond_eq d c).1], (toSimple_abs c).symm, ?_⟩
  exact C06.C06_rendered_meaning ρ cs _ (by rw [h]; rfl)

/-- a statement that was given no condition carries no clause -/
theorem C06_statement_none (d : Backend) (kw : String) : rHolder d kw .empty = [] := by simp [rHolder]

/-! Non-vacuity: `cond_where(any![a, all![b, c]].not())` then `and_where(x)`: the held
condition, the history that produces it, and the text. -/
def cA : Ex := .col (.col "a")
def cB : Ex := .col (.col "b")
def cX : Ex := .col (.col "x")
def demoC : Cond :=
  .mk false false (.consC (.mk true true (.consE cA (.consC (.mk false false (.consE cB (.consE cX .nil))) .nil)))
    (.consE cX .nil))
def demoHist : List (SeaQ.Cond.Cnd Ex) :=
  [((SeaQ.Cond.Cnd.any0.add (.expr cA)).add
      (.cond ((SeaQ.Cond.Cnd.all0.add (.expr cB)).add (.expr cX)))).not, SeaQ.Cond.ofExpr cX]
example : demoHist.foldl SeaQ.Cond.Holder.addCondition .empty = .cond (absC demoC) := by
  simp [demoHist, demoC, absC, absL, SeaQ.Cond.Holder.addCondition, SeaQ.Cond.Cnd.add, SeaQ.Cond.Cnd.not,
    SeaQ.Cond.Cnd.any0, SeaQ.Cond.Cnd.all0, SeaQ.Cond.ofExpr, SeaQ.Cond.unwrap1, SeaQ.Cond.CList.snoc]
example : textI .sqlite (rHolder .sqlite "WHERE" (.cond demoC)) =
    " WHERE (NOT (\"a\" OR (\"b\" AND \"x\"))) AND \"x\"".toList := by decide

end SeaQ.Props.C06Stmt
