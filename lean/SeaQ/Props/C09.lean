import SeaQ.Model.Render
/-!
# C09 — portable statements denote the same query on the three backends

The behavioural content of the property lives in the engines; what a proof can carry is
the equivalence of the backend-specific *emulations* to the native forms, stated over the
usual semantics of SQL values (`none` = NULL), and that the model emits exactly these forms:

* MySQL has no `NULLS FIRST / LAST`; the crate writes an extra leading key `expr IS NULL ASC`
  (`DESC` for FIRST).  `nulls_last_emulation` / `nulls_first_emulation`: the two-key ordering is
  the native NULLS LAST / FIRST ordering, whatever the engine's default placement of NULL and
  for both directions of the key.
* `IFNULL(a, b)` (MySQL, SQLite) and `COALESCE(a, b)` (Postgres): `ifnull_eq_coalesce`.
* `GREATEST / LEAST` (MySQL) and multi-argument `MAX / MIN` (SQLite) are both NULL-propagating:
  `greatest_eq_max`.  Postgres' `GREATEST` ignores NULL arguments; that is an engine
  difference no rendering can remove (stated as `pgGreatest_differs`, excluded from the claim).

That the three renderings of a portable statement really return the same rows is decided
by execution (the check's engine stage).
-/
namespace SeaQ.Props.C09
open SeaQ.Escape SeaQ.Render SeaQ.Stmt

/-! ## ordering with NULLs -/

/-- comparison of two sort keys; `nullsSmall`: the engine's default puts NULL before every value -/
def cmpKey (nullsSmall : Bool) (desc : Bool) : Option Int → Option Int → Ordering
  | none, none => .eq
  | none, some _ => if nullsSmall != desc then .lt else .gt
  | some _, none => if nullsSmall != desc then .gt else .lt
  | some a, some b => if desc then compare b a else compare a b

/-- the native forms -/
def cmpNullsLast (desc : Bool) : Option Int → Option Int → Ordering
  | none, none => .eq
  | none, some _ => .gt
  | some _, none => .lt
  | some a, some b => if desc then compare b a else compare a b

def cmpNullsFirst (desc : Bool) : Option Int → Option Int → Ordering
  | none, none => .eq
  | none, some _ => .lt
  | some _, none => .gt
  | some a, some b => if desc then compare b a else compare a b

/-- `x IS NULL` as a sort key: 0 / 1, never NULL -/
def isNullKey (x : Option Int) : Int := if x.isNone then 1 else 0

/-- lexicographic: first key decides unless equal -/
def lex (a b : Ordering) : Ordering := match a with | .eq => b | o => o

/-- MySQL `ORDER BY x IS NULL ASC, x <dir>` -/
def cmpEmulLast (nullsSmall desc : Bool) (x y : Option Int) : Ordering :=
  lex (compare (isNullKey x) (isNullKey y)) (cmpKey nullsSmall desc x y)

/-- MySQL `ORDER BY x IS NULL DESC, x <dir>` -/
def cmpEmulFirst (nullsSmall desc : Bool) (x y : Option Int) : Ordering :=
  lex (compare (isNullKey y) (isNullKey x)) (cmpKey nullsSmall desc x y)

theorem nulls_last_emulation (nullsSmall desc : Bool) (x y : Option Int) :
    cmpEmulLast nullsSmall desc x y = cmpNullsLast desc x y := by
  cases x <;> cases y <;> simp [cmpEmulLast, cmpNullsLast, cmpKey, isNullKey, lex, compare, compareOfLessAndEq]

theorem nulls_first_emulation (nullsSmall desc : Bool) (x y : Option Int) :
    cmpEmulFirst nullsSmall desc x y = cmpNullsFirst desc x y := by
  cases x <;> cases y <;> simp [cmpEmulFirst, cmpNullsFirst, cmpKey, isNullKey, lex, compare, compareOfLessAndEq]

/-- the model writes exactly the emulated keys for MySQL and the native suffix for the others -/
theorem mysql_nulls_last_form (e : Ex) :
    rOrders .mysql true (.cons e .asc (some false) .nil) =
      wrap (greater .mysql (shapeOf e) (.bin (.std 4))) (rEx .mysql e) ++ [S " IS NULL ASC, "] ++ rEx .mysql e ++ [S " ASC"] := by
  simp [rOrders, rOrderKw]

theorem mysql_nulls_first_form (e : Ex) :
    rOrders .mysql true (.cons e .desc (some true) .nil) =
      wrap (greater .mysql (shapeOf e) (.bin (.std 4))) (rEx .mysql e) ++ [S " IS NULL DESC, "] ++ rEx .mysql e ++ [S " DESC"] := by
  simp [rOrders, rOrderKw]

theorem native_nulls_form (d : Backend) (hd : d ≠ .mysql) (e : Ex) (first : Bool) :
    rOrders d true (.cons e .asc (some first) .nil) =
      rEx d e ++ [S " ASC"] ++ [S (if first then " NULLS FIRST" else " NULLS LAST")] := by
  cases d <;> cases first <;> simp_all [rOrders, rOrderKw]

/-! ## function-name substitutions -/

def ifnull (a b : Option Int) : Option Int := match a with | some x => some x | none => b
def coalesce : List (Option Int) → Option Int
  | [] => none
  | some x :: _ => some x
  | none :: r => coalesce r

theorem ifnull_eq_coalesce (a b : Option Int) : ifnull a b = coalesce [a, b] := by
  cases a <;> cases b <;> rfl

/-- MySQL `GREATEST`: NULL if any argument is NULL -/
def mysqlGreatest : List (Option Int) → Option Int
  | [] => none
  | [x] => x
  | x :: r => match x, mysqlGreatest r with | some a, some b => some (max a b) | _, _ => none
/-- SQLite multi-argument `MAX`: NULL if any argument is NULL -/
def sqliteMax : List (Option Int) → Option Int
  | [] => none
  | [x] => x
  | x :: r => match sqliteMax r, x with | some b, some a => some (max a b) | _, _ => none

theorem greatest_eq_max (xs : List (Option Int)) : mysqlGreatest xs = sqliteMax xs := by
  induction xs with
  | nil => rfl
  | cons x r ih =>
    cases r with
    | nil => rfl
    | cons y t => simp only [mysqlGreatest, sqliteMax, ih]; cases x <;> cases sqliteMax (y :: t) <;> rfl

/-- Postgres `GREATEST` ignores NULL arguments -/
def pgGreatest (xs : List (Option Int)) : Option Int :=
  (xs.filterMap id).foldl (fun acc a => some (match acc with | some b => max a b | none => a)) none

theorem pgGreatest_differs : pgGreatest [some 1, none] ≠ mysqlGreatest [some 1, none] := by decide

/-- the names the model writes -/
theorem function_names :
    fnCommon .mysql 7 = some "IFNULL" ∧ fnCommon .sqlite 7 = some "IFNULL" ∧ fnCommon .postgres 7 = some "COALESCE" ∧
    fnCommon .mysql 8 = some "GREATEST" ∧ fnCommon .postgres 8 = some "GREATEST" ∧ fnCommon .sqlite 8 = some "MAX" ∧
    fnCommon .mysql 9 = some "LEAST" ∧ fnCommon .sqlite 9 = some "MIN" ∧
    fnCommon .mysql 10 = some "CHAR_LENGTH" ∧ fnCommon .sqlite 10 = some "LENGTH" ∧
    fnCommon .mysql 16 = some "RAND" ∧ fnCommon .sqlite 16 = some "RANDOM" := by decide

/-! Non-vacuity: NULL placement differs between engines, the emulation does not care. -/
example : cmpKey true false none (some 1) = .lt ∧ cmpKey false false none (some 1) = .gt := by decide
example : cmpEmulLast true false none (some 1) = .gt ∧ cmpEmulLast false false none (some 1) = .gt := by decide

end SeaQ.Props.C09
