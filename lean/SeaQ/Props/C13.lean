import SeaQ.Model.Affinity
/-!
# C13 — each abstract column type is written with a type name that carries the intended
storage affinity (SQLite)

The type-name table is regenerated from `src/backend/sqlite/table.rs` on every run
(`SeaQ.Gen.ColTypes.sqlite`: per `ColumnType` variant the templates `prepare_column_type` can
write).  `affinity_intended`: for every variant SQLite supports, every template of its arm
and **every** value of the numeric parameters (length, precision, scale), SQLite's five-rule
affinity of the written name is the intended one.  The parameters are handled by
`hasSub_digits`: a block of decimal digits can neither contain nor complete one of the
letter patterns, so the affinity of an instantiated template is that of its literal runs.

That the statements execute and the catalogue reports the declared schema is decided by
execution on SQLite (the check's engine stage).
-/
namespace SeaQ.Props.C13
open SeaQ.Affinity SeaQ.Gen.ColTypes

def isDigit (c : Char) : Bool := 48 ≤ c.toNat && c.toNat ≤ 57

/-- a search pattern of the affinity rules: non-empty, no digit -/
def LetterPat (p : List Char) : Prop := p ≠ [] ∧ ∀ c ∈ p, isDigit c = false

theorem letterPat_of (p : List Char) (h : (!p.isEmpty && p.all (fun c => !isDigit c)) = true) : LetterPat p := by
  simp only [Bool.and_eq_true, Bool.not_eq_true', List.all_eq_true] at h
  exact ⟨by intro hp; subst hp; simp at h, fun c hc => by simpa using h.2 c hc⟩

theorem isPrefixOf_digit (p x : List Char) (d : Char) (y : List Char) (hp : ∀ c ∈ p, isDigit c = false) (hd : isDigit d = true) :
    p.isPrefixOf (x ++ d :: y) = p.isPrefixOf x := by
  induction p generalizing x with
  | nil => simp
  | cons c p ih =>
    cases x with
    | nil =>
      have : c ≠ d := by intro h; subst h; simp [hp c (by simp)] at hd
      simp [List.isPrefixOf, this]
    | cons e x => simp [List.isPrefixOf, ih x (fun c hc => hp c (by simp [hc]))]

theorem hasSub_split (p : List Char) (hp : LetterPat p) (x : List Char) (d : Char) (y : List Char) (hd : isDigit d = true) :
    hasSub p (x ++ d :: y) = (hasSub p x || hasSub p (d :: y)) := by
  induction x with
  | nil =>
    have : p.isPrefixOf [] = false := by cases p with | nil => exact absurd rfl hp.1 | cons _ _ => rfl
    simp [hasSub, this]
  | cons e x ih =>
    simp only [List.cons_append, hasSub, ih]
    have := isPrefixOf_digit p (e :: x) d y hp.2 hd
    simp only [List.cons_append] at this
    rw [this, Bool.or_assoc]

theorem hasSub_skip_digits (p : List Char) (hp : LetterPat p) (ds b : List Char) (hds : ∀ c ∈ ds, isDigit c = true) :
    hasSub p (ds ++ b) = hasSub p b := by
  induction ds with
  | nil => rfl
  | cons d ds ih =>
    have hne : p.isPrefixOf (d :: (ds ++ b)) = false := by
      cases p with
      | nil => exact absurd rfl hp.1
      | cons c p =>
        have : c ≠ d := by intro h; subst h; have := hp.2 c (by simp); simp [hds c (by simp)] at this
        simp [List.isPrefixOf, this]
    simp only [List.cons_append, hasSub, hne, Bool.false_or]
    exact ih (fun c hc => hds c (by simp [hc]))

/-- **digits neither contain nor complete a letter pattern** -/
theorem hasSub_digits (p : List Char) (hp : LetterPat p) (a ds b : List Char) (hne : ds ≠ []) (hds : ∀ c ∈ ds, isDigit c = true) :
    hasSub p (a ++ ds ++ b) = (hasSub p a || hasSub p b) := by
  cases ds with
  | nil => exact absurd rfl hne
  | cons d ds =>
    rw [List.append_assoc, List.cons_append, hasSub_split p hp a d (ds ++ b) (hds d (by simp))]
    have := hasSub_skip_digits p hp (d :: ds) b hds
    simp only [List.cons_append] at this
    rw [this]

/-! ## templates -/

/-- the literal runs of a template: maximal stretches of literal text between parameters -/
def runs : List Seg → List (List Char) → List (List Char)
  | [], acc => acc
  | .lit s :: r, [] => runs r [s.toList]
  | .lit s :: r, cur :: acc => runs r ((cur ++ s.toList) :: acc)
  | .par _ :: r, acc => runs r ([] :: acc)

theorem digitChar_isDigit (n : Nat) : isDigit (digitChar n) = true := by
  have h : (digitChar n).toNat = 48 + n % 10 := by
    unfold digitChar
    have : 48 + n % 10 < 0xd800 := by omega
    simp [Char.ofNat, Nat.isValidChar, this, Char.ofNatAux, Char.toNat]
    omega
  simp [isDigit, h]; omega

theorem natText_digits (n : Nat) : natText n ≠ [] ∧ ∀ c ∈ natText n, isDigit c = true := by
  induction n using Nat.strongRecOn with
  | _ n ih =>
    unfold natText
    split
    · exact ⟨by simp, fun c hc => by simp at hc; subst hc; exact digitChar_isDigit n⟩
    · refine ⟨by simp, fun c hc => ?_⟩
      simp only [List.mem_append, List.mem_singleton] at hc
      cases hc with
      | inl h => exact (ih (n / 10) (by omega)).2 c h
      | inr h => subst h; exact digitChar_isDigit n

theorem upper_digit (c : Char) (h : isDigit c = true) : upper c = c := by
  simp [isDigit] at h
  simp [upper]; omega

/-- pattern search in an instantiated template, with `pre` the literal text since the last parameter -/
theorem hasSub_instantiate (p : List Char) (hp : LetterPat p) (ρ : String → Nat) : ∀ (t : List Seg) (pre : List Char),
    hasSub p ((pre ++ instantiate ρ t).map upper) =
      (match t.foldl (fun (st : List Char × Bool) seg => match seg with
          | .lit s => (st.1 ++ s.toList.map upper, st.2)
          | .par _ => ([], st.2 || hasSub p st.1)) (pre.map upper, false) with
       | (cur, found) => found || hasSub p cur) := by
  intro t
  -- generalised over the accumulated `found`
  suffices h : ∀ (t : List Seg) (pre : List Char) (found : Bool),
      (found || hasSub p ((pre ++ instantiate ρ t).map upper)) =
        (match t.foldl (fun (st : List Char × Bool) seg => match seg with
            | .lit s => (st.1 ++ s.toList.map upper, st.2)
            | .par _ => ([], st.2 || hasSub p st.1)) (pre.map upper, found) with
         | (cur, f) => f || hasSub p cur) by
    intro pre; simpa using h t pre false
  intro t
  induction t with
  | nil => intro pre found; simp [instantiate]
  | cons seg r ih =>
    intro pre found
    cases seg with
    | lit s =>
      have := ih (pre ++ s.toList) found
      simpa [instantiate, List.foldl, List.append_assoc] using this
    | par n =>
      have hd := natText_digits (ρ n)
      have hmap : (natText (ρ n)).map upper = natText (ρ n) := by
        have : (natText (ρ n)).map upper = (natText (ρ n)).map id :=
          List.map_congr_left (fun c hc => upper_digit c (hd.2 c hc))
        rw [this, List.map_id]
      have key := hasSub_digits p hp (pre.map upper) (natText (ρ n)) ((instantiate ρ r).map upper) hd.1 hd.2
      have := ih [] (found || hasSub p (pre.map upper))
      simp only [List.nil_append, List.map_nil] at this
      simp only [instantiate, List.foldl, List.map_append, hmap]
      rw [← this, ← List.append_assoc, key, Bool.or_assoc]

/-- pattern search over a template, independent of the parameter values -/
def searchT (p : List Char) (t : List Seg) : Bool :=
  match t.foldl (fun (st : List Char × Bool) seg => match seg with
      | .lit s => (st.1 ++ s.toList.map upper, st.2)
      | .par _ => ([], st.2 || hasSub p st.1)) (([] : List Char), false) with
  | (cur, found) => found || hasSub p cur

theorem hasSub_inst (p : List Char) (hp : LetterPat p) (ρ : String → Nat) (t : List Seg) :
    hasSub p ((instantiate ρ t).map upper) = searchT p t := by
  have := hasSub_instantiate p hp ρ t []
  simpa [searchT] using this

def emptyT : List Seg → Bool
  | [] => true
  | .lit s :: r => s.toList.isEmpty && emptyT r
  | .par _ :: _ => false

theorem instantiate_empty (ρ : String → Nat) (t : List Seg) : ((instantiate ρ t).map upper).isEmpty = emptyT t := by
  induction t with
  | nil => rfl
  | cons seg r ih =>
    cases seg with
    | lit s => simp only [instantiate, emptyT, List.map_append]; rw [← ih]; cases s.toList <;> simp
    | par n =>
      have := (natText_digits (ρ n)).1
      simp only [instantiate, emptyT, List.map_append]
      cases h : natText (ρ n) with
      | nil => exact absurd h this
      | cons _ _ => simp

/-- SQLite's affinity of a template's instances -/
def affinityT (t : List Seg) : Aff :=
  if searchT "INT".toList t then .integer
  else if searchT "CHAR".toList t || searchT "CLOB".toList t || searchT "TEXT".toList t then .text
  else if searchT "BLOB".toList t || emptyT t then .blob
  else if searchT "REAL".toList t || searchT "FLOA".toList t || searchT "DOUB".toList t then .real
  else .numeric

theorem affinity_instantiate (ρ : String → Nat) (t : List Seg) : affinity (instantiate ρ t) = affinityT t := by
  have h : ∀ p : List Char, LetterPat p → hasSub p ((instantiate ρ t).map upper) = searchT p t := fun p hp => hasSub_inst p hp ρ t
  simp only [affinity, affinityT, instantiate_empty,
    h "INT".toList (letterPat_of _ (by decide)), h "CHAR".toList (letterPat_of _ (by decide)), h "CLOB".toList (letterPat_of _ (by decide)),
    h "TEXT".toList (letterPat_of _ (by decide)), h "BLOB".toList (letterPat_of _ (by decide)), h "REAL".toList (letterPat_of _ (by decide)),
    h "FLOA".toList (letterPat_of _ (by decide)), h "DOUB".toList (letterPat_of _ (by decide))]

/-- the obligation on the regenerated table: every template of every arm has the intended affinity -/
def armOK (arm : Arm) : Bool :=
  arm.variants.all (fun v => match intended v with
    | some a => !arm.computed && !arm.templates.isEmpty && arm.templates.all (fun t => affinityT t == a)
    | none => true)

theorem sqlite_table_ok : sqlite.all armOK = true := by decide

/-- every type the property lists has an arm -/
theorem sqlite_table_complete :
    ["TinyInteger", "TinyUnsigned", "SmallInteger", "SmallUnsigned", "Integer", "Unsigned", "BigInteger", "BigUnsigned", "Float", "Double",
     "Decimal", "Money", "Char", "String", "Text", "DateTime", "Timestamp", "TimestampWithTimeZone", "Time", "Date", "Json", "JsonBinary",
     "Uuid", "Enum", "Binary", "VarBinary", "Blob", "Boolean"].all (fun v => sqlite.any (fun arm => arm.variants.contains v)) = true := by decide

/-- **C13, affinity.**  Whatever the lengths / precisions, the written type name has the intended affinity. -/
theorem affinity_intended (arm : Arm) (harm : arm ∈ sqlite) (v : String) (hv : v ∈ arm.variants) (a : Aff) (ha : intended v = some a)
    (t : List Seg) (ht : t ∈ arm.templates) (ρ : String → Nat) : affinity (instantiate ρ t) = a := by
  have hok := List.all_eq_true.mp sqlite_table_ok arm harm
  have hv' := List.all_eq_true.mp hok v hv
  rw [ha] at hv'
  simp only [Bool.and_eq_true] at hv'
  have := List.all_eq_true.mp hv'.2 t ht
  rw [affinity_instantiate]
  simpa using this

/-! Non-vacuity: a parameterised name, for one and for all parameter values. -/
example (n : Nat) : affinity (instantiate (fun _ => n) [.lit "varbinary_blob(", .par "length", .lit ")"]) = .blob := by
  rw [affinity_instantiate]; decide
example : (sqlite.filter (·.variants.contains "VarBinary")).all (fun arm => !arm.templates.isEmpty && arm.templates.all (fun t => affinityT t == .blob)) = true := by
  decide
/-- a name that would break the rule: `char` inside a blob type name -/
example : affinityT [.lit "varbinary_char_blob"] = .text := by decide

end SeaQ.Props.C13
