import SeaQ.Gen.Values
/-!
# C12 — Rust values survive the trip through `Value` unchanged

`Value` is modelled as (variant tag, optional payload); payloads are opaque, so every
theorem holds for every value of every listed type.  What can go wrong in the crate is the
*wiring* — which variant each `From`, `Nullable` and `ValueType::try_from` names, the
`Option<T>` null comparison, `as_null` / `dummy_value` arms, tuple constructors and arities —
and that wiring is observed from the compiled crate on every run (`Gen/Values`, built with
all features, i.e. under the `hashable-value` equality) and checked here by `decide`.
The per-value identity for payload-transforming impls (`uuid::fmt::*`, the
`DateTime<FixedOffset>` normalisation, `Cow<str>`) and the float bit patterns are TESTS in the
harness run, labelled as tests in the evidence.
-/
namespace SeaQ.Props.C12
open SeaQ.Gen.Values

/-- a value: variant tag and payload (`none` = SQL NULL of that variant) -/
structure V (P : Type) where
  tag : String
  payload : Option P
  deriving DecidableEq

variable {P : Type}

def fromT (r : ConvRow) (x : P) : V P := ⟨r.fromTag, some x⟩
def nullT (r : ConvRow) : V P := ⟨r.nullTag, none⟩

/-- `ValueType::try_from`: succeeds exactly on a non-NULL value of an accepted variant -/
def tryFrom (r : ConvRow) (v : V P) : Option P :=
  if r.accepts.contains v.tag then v.payload else none

/-- `From<Option<T>>` -/
def fromOpt (r : ConvRow) : Option P → V P
  | some x => fromT r x
  | none => nullT r

/-- `ValueType for Option<T>`: `if v == T::null() { None } else { Some(T::try_from(v)?) }` -/
def tryFromOpt [DecidableEq P] (r : ConvRow) (v : V P) : Option (Option P) :=
  if v = nullT r then some none else (tryFrom r v).map some

/-- the wiring of one type is right: its own variant, and only that, is accepted; its NULL is
the NULL of the same variant -/
def RowOK (r : ConvRow) : Bool :=
  (r.accepts == [r.fromTag] || (r.fromTag == "Array" && (r.accepts == ["Array"] || r.accepts == [])))
    && r.acceptsNull == [] && r.nullTag == r.fromTag && r.nullIsNull && variants.contains r.fromTag

/-- **finite obligation** on the observed table -/
theorem rows_ok : rows.all RowOK = true := by decide

/-- scalar rows (everything but arrays, whose acceptance also depends on the element type) -/
def Scalar (r : ConvRow) : Prop := r.accepts = [r.fromTag] ∧ r.nullTag = r.fromTag

theorem roundtrip (r : ConvRow) (h : Scalar r) (x : P) : tryFrom r (fromT r x) = some x := by
  simp [tryFrom, fromT, h.1]

theorem mismatch (r : ConvRow) (h : Scalar r) (v : V P) (hv : v.tag ≠ r.fromTag) :
    tryFrom r v = none := by
  simp [tryFrom, h.1, hv]

theorem null_fails (r : ConvRow) (h : Scalar r) : tryFrom r (nullT r : V P) = none := by
  simp [tryFrom, nullT, h.1, h.2]

theorem option_none [DecidableEq P] (r : ConvRow) :
    fromOpt r (none : Option P) = nullT r ∧ tryFromOpt r (nullT r : V P) = some none := by
  simp [fromOpt, tryFromOpt]

/-- a present optional never extracts as absent -/
theorem option_some [DecidableEq P] (r : ConvRow) (h : Scalar r) (x : P) :
    tryFromOpt r (fromOpt r (some x)) = some (some x) := by
  have hne : (fromT r x : V P) ≠ nullT r := by
    intro e
    have := congrArg V.payload e
    simp [fromT, nullT] at this
  simp [tryFromOpt, fromOpt, hne, roundtrip r h x]

/-- every observed scalar row satisfies the hypotheses -/
theorem scalar_of_rowOK (r : ConvRow) (h : RowOK r = true) (hs : r.fromTag ≠ "Array") : Scalar r := by
  simp only [RowOK, Bool.and_eq_true, Bool.or_eq_true, beq_iff_eq] at h
  obtain ⟨⟨⟨⟨h1, _⟩, h3⟩, _⟩, _⟩ := h
  rcases h1 with h1 | ⟨ha, _⟩
  · exact ⟨h1, h3⟩
  · exact absurd ha hs

/-- `as_null` / `dummy_value` keep the variant; the first is NULL, the second is not -/
theorem asNull_ok : asNullObs.all (fun p => p.1 == p.2.1 && p.2.2) = true := by decide
theorem dummy_ok : dummyObs.all (fun p => p.1 == p.2.1 && !p.2.2) = true := by decide
theorem asNull_covers : variants.all (fun v => asNullObs.any (fun p => p.1 == v)) = true := by decide

/-- tuples keep their arity: arity n is carried by One / Two / Three / Many(n) -/
def shapeOf (n : Nat) : String := if n = 1 then "One" else if n = 2 then "Two" else if n = 3 then "Three" else "Many"
theorem tuple_shapes : tupleShapes.all (fun p => p.2.1 == shapeOf p.1 && p.2.2 == p.1) = true := by decide
theorem tuple_arities : (tupleShapes.map (·.1)) = [1, 2, 3, 4, 5, 6, 7, 8, 9, 10, 11, 12] := by decide
/-- extraction succeeds iff source length = target arity -/
theorem tuple_extract : tupleExtract.all (fun p => p.2.2 == (p.1 == p.2.1)) = true := by decide

/-! Non-vacuity. -/
example : (rows.filter (fun r => r.ty == "Json" && r.accepts == [r.fromTag] && r.nullTag == r.fromTag)).length = 1 := by
  decide
example : tryFromOpt (P := Nat) ⟨"i32", "Int", "Int", true, ["Int"], []⟩ ⟨"Int", some 5⟩ = some (some 5) := by decide

end SeaQ.Props.C12
