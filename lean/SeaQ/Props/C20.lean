import SeaQ.Gen.Types
/-!
# C20 — with `thread-safe`, every public type is Send + Sync

The public type graph (every `pub struct` / `pub enum` / `pub type` with the local types,
`RcOrArc`, `dyn Iden`, other trait objects, `Rc` / `Cell` / raw pointers its fields mention) is
regenerated from the source; `sendSync ts` is the greatest fixpoint of the auto-trait rule on
it.  The deciding oracle for the property itself is rustc (the generated probe crate, compiled
with and without the feature); this model explains and localises, and the check compares its
prediction with what the compiler reports, type by type.
-/
namespace SeaQ.Props.C20
open SeaQ.Gen.Types

/-- the part of the auto-trait rule that does not depend on other local types -/
def okLocal (ts : Bool) (n : TypeNode) : Bool :=
  !n.notSync && !n.otherDyn &&
  (!n.usesRcOrArc || (if ts then arcUnderFeature else !rcWithoutFeature)) &&
  (!n.usesDynIden || (if ts then idenBoundsUnderFeature else !idenNoBoundsWithoutFeature))

/-- one round: a type stays Send + Sync iff it is locally fine and everything it mentions is -/
def step (ts : Bool) (cur : List Bool) : List Bool :=
  nodes.map (fun n => okLocal ts n && n.refs.all (fun i => cur.getD i false))

def iter (ts : Bool) : Nat → List Bool → List Bool
  | 0, cur => cur
  | k+1, cur => iter ts k (step ts cur)

/-- greatest fixpoint (|nodes| rounds suffice: each round only turns `true` into `false`) -/
def sendSync (ts : Bool) : List Bool := iter ts nodes.length (nodes.map (fun _ => true))

def allTrue : List Bool := nodes.map (fun _ => true)

/-- **C20** on the current type graph: "every public type is Send + Sync" is a fixpoint of the
auto-trait rule under `thread-safe` — hence it is the greatest fixpoint, i.e. what rustc
derives. -/
theorem C20 : step true allTrue = allTrue := by decide +kernel

/-- every node is locally fine under the feature (what `C20` unfolds to) -/
theorem C20_local : nodes.all (okLocal true) = true := by decide +kernel

/-- non-vacuity: without the feature some type is locally not Send + Sync (the identifier
handle `SeaRc`, an `Rc`; `dyn Iden` without bounds) — the feature is what makes C20 true -/
theorem C20_needs_feature : nodes.all (okLocal false) = false := by decide +kernel

end SeaQ.Props.C20
