import SeaQ.Model.AutoTrait
/-!
# C20 — with `thread-safe`, every public type is Send + Sync

The public type graph (every `pub struct` / `pub enum` / `pub type` with the local types,
`RcOrArc`, `dyn Iden`, other trait objects, `Rc` / `Cell` / raw pointers its fields mention) is
regenerated from the source; `sendSync ts` is the greatest fixpoint of the auto-trait rule on
it.  The deciding oracle for the property itself is rustc (the generated probe crate, compiled
with and without the feature); this model explains and localises, and the check compares its
prediction with what the compiler reports, type by type.
-/
namespace SeaQ.Props.C20
open SeaQ.Gen.Types SeaQ.AutoTrait

def allTrue : List Bool := nodes.map (fun _ => true)

/-- **C20** on the current type graph: "every public type is Send + Sync" is a fixpoint of the
auto-trait rule under `thread-safe` — hence it is the greatest fixpoint, i.e. what rustc
derives. -/
theorem C20 : step true allTrue = allTrue := by decide +kernel

/-- every node is locally fine under the feature (what `C20` unfolds to) -/
theorem C20_local : nodes.all (okLocal true) = true := by decide +kernel

/-- non-vacuity: without the feature some type is locally not Send + Sync (the identifier
handle `SeaRc`, an `Rc`; `dyn Iden` without bounds) — the feature is what makes C20 true -/
theorem C20_needs_feature : nodes.all (okLocal false) = false := by decide +kernel

end SeaQ.Props.C20
