import SeaQ.Model.Derive
/-!
C19, the default names: the snake_case of an identifier is always a name the derive's fast path accepts.

`snake s` (the model of heck's `to_snake_case` that the correspondence run compares with the real heck) consists of
lower-cased alphanumeric words joined by `_`, whatever `s` is; and when `s` starts with a letter, so does `snake s`.
Hence `mustBeValidIden (snake s)` — the predicate regenerated from the macro crate — holds for every identifier that
starts with a letter: a variant without attributes never disables the quoting fast path (`variantValid`), and by
`fast_path_eq` (Props/C19) the fast path writes exactly what the general identifier quoting writes.
-/
namespace SeaQ.Props.C19Snake
open SeaQ.Derive SeaQ.CharClass

theorem toNat_ofNat_small (n : Nat) (h : n < 55296) : (Char.ofNat n).toNat = n := by
  simp [Char.ofNat, Char.toNat, Nat.isValidChar, h, Char.ofNatAux]

theorem le_iff (a b : Char) : (a ≤ b) ↔ a.toNat ≤ b.toNat := by
  rw [Char.le_def, UInt32.le_iff_toNat_le]; rfl

theorem isUpper_iff (c : Char) : isUpper c = true ↔ 65 ≤ c.toNat ∧ c.toNat ≤ 90 := by
  simp [isUpper, le_iff]
theorem isLower_iff (c : Char) : isLower c = true ↔ 97 ≤ c.toNat ∧ c.toNat ≤ 122 := by
  simp [isLower, le_iff]
theorem isDigit_iff (c : Char) : isDigit c = true ↔ 48 ≤ c.toNat ∧ c.toNat ≤ 57 := by
  simp [isDigit, le_iff]


/-- lower-casing keeps a character alphanumeric, and makes a letter a lower-case letter -/
theorem toLower_alnum (c : Char) (h : isAlnum c = true) : isAlnum (toLower c) = true := by
  unfold toLower
  split
  · rename_i hu
    have hu' := (isUpper_iff c).1 hu
    have ht : (Char.ofNat (c.toNat + 32)).toNat = c.toNat + 32 := toNat_ofNat_small _ (by omega)
    have : isLower (Char.ofNat (c.toNat + 32)) = true := (isLower_iff _).2 (by omega)
    simp [isAlnum, this]
  · exact h

theorem toLower_alpha (c : Char) (h : isAlpha c = true) : isAlpha (toLower c) = true := by
  unfold toLower
  split
  · rename_i hu
    have hu' := (isUpper_iff c).1 hu
    have ht : (Char.ofNat (c.toNat + 32)).toNat = c.toNat + 32 := toNat_ofNat_small _ (by omega)
    have : isLower (Char.ofNat (c.toNat + 32)) = true := (isLower_iff _).2 (by omega)
    simp [isAlpha, this]
  · exact h

def AllAlnum (w : List Char) : Prop := ∀ c ∈ w, isAlnum c = true

/-- `splitWord` only cuts: every piece consists of characters of `cur ++ w` -/
theorem splitWord_alnum : ∀ (w cur : List Char) (m : Mode), AllAlnum cur → AllAlnum w →
    ∀ x ∈ splitWord cur m w, AllAlnum x
  | [], cur, m, _, _ => by intro x hx; simp [splitWord] at hx
  | [c], cur, m, hc, hw => by
    intro x hx
    simp [splitWord] at hx
    subst hx
    intro d hd
    rcases List.mem_append.1 hd with h | h
    · exact hc d h
    · exact hw d (by simpa using h)
  | c :: n :: rest, cur, m, hc, hw => by
    have hcc : AllAlnum (cur ++ [c]) := by
      intro d hd
      rcases List.mem_append.1 hd with h | h
      · exact hc d h
      · exact hw d (by simp at h; simp [h])
    have hrest : AllAlnum (n :: rest) := fun d hd => hw d (List.mem_cons_of_mem _ hd)
    have hnil : AllAlnum ([] : List Char) := fun d hd => by cases hd
    have hone : AllAlnum [c] := fun d hd => hw d (by simp at hd; simp [hd])
    intro x hx
    simp only [splitWord] at hx
    repeat' split at hx
    all_goals first
      | exact splitWord_alnum (n :: rest) (cur ++ [c]) _ hcc hrest x hx
      | (rcases List.mem_cons.1 hx with h | h
         · subst h; first | exact hcc | exact hc
         · first
           | exact splitWord_alnum (n :: rest) [] _ hnil hrest x h
           | exact splitWord_alnum (n :: rest) [c] _ hone hrest x h)

/-- `splitAlnum` yields alphanumeric words only -/
theorem splitAlnum_alnum : ∀ (s cur : List Char), AllAlnum cur → ∀ w ∈ splitAlnum cur s, AllAlnum w
  | [], cur, hc => by intro w hw; simp [splitAlnum] at hw; subst hw; exact hc
  | c :: rest, cur, hc => by
    intro w hw
    simp only [splitAlnum] at hw
    split at hw
    · rename_i ha
      refine splitAlnum_alnum rest (cur ++ [c]) ?_ w hw
      intro d hd
      rcases List.mem_append.1 hd with h | h
      · exact hc d h
      · simp at h; subst h; exact ha
    · rcases List.mem_cons.1 hw with h | h
      · subst h; exact hc
      · exact splitAlnum_alnum rest [] (fun d hd => by cases hd) w h

theorem words_alnum (s : List Char) : ∀ w ∈ words s, AllAlnum w := by
  intro w hw
  simp only [words, List.mem_flatMap] at hw
  obtain ⟨v, hv, hwv⟩ := hw
  exact splitWord_alnum v [] _ (fun d hd => by cases hd) (splitAlnum_alnum s [] (fun d hd => by cases hd) v hv) w hwv

/-- every character of an `_`-joined list of words is `_` or a character of a word -/
theorem mem_intercalate {ws : List (List Char)} {c : Char} (h : c ∈ List.intercalate ['_'] ws) :
    c = '_' ∨ ∃ w ∈ ws, c ∈ w := by
  induction ws with
  | nil => simp [List.intercalate] at h
  | cons w r ih =>
    cases r with
    | nil => simp [List.intercalate] at h; exact Or.inr ⟨w, by simp, h⟩
    | cons w2 r2 =>
      have : List.intercalate ['_'] (w :: w2 :: r2) = w ++ '_' :: List.intercalate ['_'] (w2 :: r2) := by
        simp [List.intercalate, List.intersperse]
      rw [this] at h
      rcases List.mem_append.1 h with h1 | h1
      · exact Or.inr ⟨w, by simp, h1⟩
      · rcases List.mem_cons.1 h1 with h2 | h2
        · exact Or.inl h2
        · rcases ih h2 with h3 | ⟨v, hv, hcv⟩
          · exact Or.inl h3
          · exact Or.inr ⟨v, List.mem_cons_of_mem _ hv, hcv⟩

/-- **Every character of `snake s` is `_` or alphanumeric — for every `s`.** -/
theorem snake_chars (s : List Char) : ∀ c ∈ snake s, c = '_' ∨ isAlnum c = true := by
  intro c hc
  have hc' : c ∈ List.intercalate ['_'] ((words s).map (·.map toLower)) := by simpa [snake] using hc
  rcases mem_intercalate hc' with h | ⟨w, hw, hcw⟩
  · exact Or.inl h
  · right
    obtain ⟨v, hv, rfl⟩ := List.mem_map.1 hw
    obtain ⟨d, hd, rfl⟩ := List.mem_map.1 hcw
    exact toLower_alnum d (words_alnum s v hv d hd)


/-! ## the first character -/

/-- the first character of the first piece -/
def firstChar (l : List (List Char)) : Option Char := l.head?.bind (·.head?)

theorem head_append_singleton (cur : List Char) (c : Char) (h : cur ≠ []) : (cur ++ [c]).head? = cur.head? := by
  cases cur with
  | nil => exact absurd rfl h
  | cons a r => rfl

/-- with something already collected, the first piece starts with it -/
theorem splitWord_first_cur : ∀ (w cur : List Char) (m : Mode), w ≠ [] → cur ≠ [] →
    firstChar (splitWord cur m w) = cur.head?
  | [], _, _, hw, _ => absurd rfl hw
  | [c], cur, m, _, hc => by simp [splitWord, firstChar, head_append_singleton cur c hc]
  | c :: n :: rest, cur, m, _, hc => by
    have hcc : cur ++ [c] ≠ [] := by simp
    simp only [splitWord]
    repeat' split
    all_goals first
      | (rw [splitWord_first_cur (n :: rest) (cur ++ [c]) _ (by simp) hcc]; exact head_append_singleton cur c hc)
      | (simp [firstChar, head_append_singleton cur c hc]; done)

/-- at the start of a word the first piece starts with the word's first character -/
theorem splitWord_first (c : Char) (w : List Char) : firstChar (splitWord [] Mode.boundary (c :: w)) = some c := by
  cases w with
  | nil => simp [splitWord, firstChar]
  | cons n rest =>
    simp only [splitWord]
    repeat' split
    all_goals first
      | (rw [List.nil_append, splitWord_first_cur (n :: rest) [c] _ (by simp) (by simp)]; rfl)
      | (rename_i h; simp at h; done)
      | (simp [firstChar]; done)

/-- the first word `splitAlnum` returns starts with what was already collected -/
theorem splitAlnum_first : ∀ (s cur : List Char), ∃ pre rest, splitAlnum cur s = (cur ++ pre) :: rest
  | [], cur => ⟨[], [], by simp [splitAlnum]⟩
  | c :: r, cur => by
    simp only [splitAlnum]
    split
    · obtain ⟨pre, rest, h⟩ := splitAlnum_first r (cur ++ [c])
      exact ⟨c :: pre, rest, by rw [h]; simp⟩
    · exact ⟨[], splitAlnum [] r, by simp⟩

theorem firstChar_append (a b : List (List Char)) (h : a ≠ []) : firstChar (a ++ b) = firstChar a := by
  cases a with
  | nil => exact absurd rfl h
  | cons x r => rfl

theorem words_first (c : Char) (r : List Char) (h : isAlnum c = true) : firstChar (words (c :: r)) = some c := by
  obtain ⟨pre, rest, hs⟩ := splitAlnum_first r [c]
  have h1 : splitAlnum [] (c :: r) = (c :: pre) :: rest := by
    simp only [splitAlnum, h, if_true, List.nil_append]; rw [hs]; rfl
  have hf := splitWord_first c pre
  have hne : splitWord [] Mode.boundary (c :: pre) ≠ [] := by
    intro h0; rw [h0] at hf; simp [firstChar] at hf
  simp only [words, h1, List.flatMap_cons]
  rw [firstChar_append _ _ hne]; exact hf

theorem head_intercalate (w : List Char) (ws : List (List Char)) (h : w ≠ []) :
    (List.intercalate ['_'] (w :: ws)).head? = w.head? := by
  cases w with
  | nil => exact absurd rfl h
  | cons a r => cases ws <;> simp [List.intercalate, List.intersperse]

/-- **`snake` of an identifier that starts with a letter starts with that letter, lower-cased.** -/
theorem snake_head (c : Char) (r : List Char) (h : isAlpha c = true) : (snake (c :: r)).head? = some (toLower c) := by
  have ha : isAlnum c = true := by simp [isAlnum]; simp [isAlpha] at h; rcases h with h | h <;> simp [h]
  have hf := words_first c r ha
  cases hw : words (c :: r) with
  | nil => rw [hw] at hf; simp [firstChar] at hf
  | cons w ws =>
    rw [hw] at hf
    cases w with
    | nil => simp [firstChar] at hf
    | cons a t =>
      have : a = c := by simpa [firstChar] using hf
      subst this
      have : snake (a :: r) = List.intercalate ['_'] ((a :: t).map toLower :: ws.map (·.map toLower)) := by
        simp [snake, hw]
      rw [this, head_intercalate _ _ (by simp)]
      rfl

/-- **The default name of a variant is always a name the fast path accepts**: for every identifier that starts with a
letter, `must_be_valid_iden` (regenerated from the macro crate's source) holds of its snake_case. -/
theorem snake_valid (c : Char) (r : List Char) (h : isAlpha c = true) : mustBeValidIden (snake (c :: r)) = true := by
  have hh := snake_head c r h
  have hc := snake_chars (c :: r)
  have hl := toLower_alpha c h
  unfold mustBeValidIden SeaQ.Gen.ValidIden.mustBeValidIden
  simp only [Bool.and_eq_true, List.all_eq_true]
  constructor
  · intro x hx
    cases hs : snake (c :: r) with
    | nil => rw [hs] at hx; simp at hx
    | cons y t =>
      rw [hs] at hx hh
      have hy : y = toLower c := by simpa using hh
      have : x = y := by simpa using hx
      subst this; subst hy
      simp [hl]
  · intro x hx
    rcases hc x hx with h1 | h1
    · subst h1; simp
    · simp [h1]

/-- hence an attribute-free variant (not `Table`) whose identifier starts with a letter never disables the fast path -/
theorem default_variant_valid (c : Char) (r tbl : List Char) (h : isAlpha c = true) (hn : c :: r ≠ "Table".toList) :
    variantValid (c :: r) .none false tbl = true := by
  simp only [variantValid, Bool.false_eq_true, if_false]
  have : ((c :: r) == "Table".toList) = false := by simpa using hn
  rw [this]
  exact snake_valid c r h

example : mustBeValidIden (snake "XMLHttpRequest2".toList) = true := by decide

/-! ## the shape of the name: lower case, single underscores between non-empty words -/

theorem toLower_not_upper (c : Char) (_h : isAlnum c = true) : isUpper (toLower c) = false := by
  unfold toLower
  split
  · rename_i hu
    have hu' := (isUpper_iff c).1 hu
    have ht : (Char.ofNat (c.toNat + 32)).toNat = c.toNat + 32 := toNat_ofNat_small _ (by omega)
    cases hx : isUpper (Char.ofNat (c.toNat + 32)) with
    | false => rfl
    | true => have := (isUpper_iff _).1 hx; omega
  · rename_i hu; simpa using hu

/-- **No upper-case letter survives in `snake s`.** -/
theorem snake_lower (s : List Char) : ∀ c ∈ snake s, isUpper c = false := by
  intro c hc
  have hc' : c ∈ List.intercalate ['_'] ((words s).map (·.map toLower)) := by simpa [snake] using hc
  rcases mem_intercalate hc' with h | ⟨w, hw, hcw⟩
  · subst h; decide
  · obtain ⟨v, hv, rfl⟩ := List.mem_map.1 hw
    obtain ⟨d, hd, rfl⟩ := List.mem_map.1 hcw
    exact toLower_not_upper d (words_alnum s v hv d hd)

/-- every piece `splitWord` cuts is non-empty (in upper mode something has always been collected) -/
theorem splitWord_nonempty : ∀ (w cur : List Char) (m : Mode), (m = Mode.upper → cur ≠ []) →
    ∀ x ∈ splitWord cur m w, x ≠ []
  | [], _, _, _ => by intro x hx; simp [splitWord] at hx
  | [c], cur, m, _ => by intro x hx; simp [splitWord] at hx; subst hx; simp
  | c :: n :: rest, cur, m, hinv => by
    intro x hx
    simp only [splitWord] at hx
    repeat' split at hx
    all_goals first
      | exact splitWord_nonempty (n :: rest) (cur ++ [c]) _ (fun _ => by simp) x hx
      | (rcases List.mem_cons.1 hx with h | h
         · subst h
           first
             | (simp; done)
             | (rename_i hcond; apply hinv; simp at hcond; exact (by simpa using hcond.1.1))
         · first
           | exact splitWord_nonempty (n :: rest) [] _ (fun h0 => by cases h0) x h
           | exact splitWord_nonempty (n :: rest) [c] _ (fun h0 => by cases h0) x h)

theorem words_nonempty (s : List Char) : ∀ w ∈ words s, w ≠ [] := by
  intro w hw
  simp only [words, List.mem_flatMap] at hw
  obtain ⟨v, _, hwv⟩ := hw
  exact splitWord_nonempty v [] _ (fun h0 => by cases h0) w hwv

/-- hence `snake s` is its non-empty lower-case alphanumeric words joined by single `_` -/
theorem snake_words (s : List Char) :
    snake s = List.intercalate ['_'] ((words s).map (·.map toLower)) ∧ (∀ w ∈ words s, w ≠ [] ∧ AllAlnum w) :=
  ⟨by simp [snake], fun w hw => ⟨words_nonempty s w hw, words_alnum s w hw⟩⟩

/-! ## no `_` at either end, no two in a row -/

/-- no two `_` in a row -/
def noDouble : List Char → Bool
  | a :: b :: r => !(a == '_' && b == '_') && noDouble (b :: r)
  | _ => true

def UFree (w : List Char) : Prop := ∀ c ∈ w, c ≠ '_'

theorem noDouble_ufree_append : ∀ (w l : List Char), UFree w → noDouble l = true → noDouble (w ++ l) = true
  | [], l, _, h => h
  | [a], l, hw, h => by
    have ha : a ≠ '_' := hw a (by simp)
    cases l with
    | nil => rfl
    | cons b r => simp [noDouble, ha, h]
  | a :: b :: r, l, hw, h => by
    have ha : a ≠ '_' := hw a (by simp)
    have ih := noDouble_ufree_append (b :: r) l (fun c hc => hw c (List.mem_cons_of_mem _ hc)) h
    simp only [List.cons_append] at ih ⊢
    simp [noDouble, ha, ih]

theorem getLast?_append_cons (w : List Char) (x : Char) (l : List Char) : (w ++ x :: l).getLast? = (x :: l).getLast? := by
  induction w with
  | nil => rfl
  | cons a r ih => cases h : r ++ x :: l with
    | nil => simp at h
    | cons y t => simp only [List.cons_append, h, List.getLast?_cons_cons]; rw [← h]; exact ih

/-- `_`-joined non-empty `_`-free words: no `_` at either end, no two in a row -/
theorem intercalate_shape : ∀ (ws : List (List Char)), (∀ w ∈ ws, w ≠ [] ∧ UFree w) →
    (List.intercalate ['_'] ws).head? ≠ some '_' ∧ (List.intercalate ['_'] ws).getLast? ≠ some '_' ∧
      noDouble (List.intercalate ['_'] ws) = true
  | [], _ => by simp [List.intercalate, noDouble]
  | [w], h => by
    have ⟨_, hu⟩ := h w (by simp)
    have e : List.intercalate ['_'] [w] = w := by simp [List.intercalate]
    rw [e]
    refine ⟨?_, ?_, ?_⟩
    · intro hh; cases w with
      | nil => simp at hh
      | cons a r => simp at hh; exact hu a (by simp) hh
    · intro hh
      have := List.mem_of_getLast? hh
      exact hu _ this rfl
    · simpa using noDouble_ufree_append w [] hu rfl
  | w :: w2 :: r, h => by
    have ⟨hne, hu⟩ := h w (by simp)
    have ih := intercalate_shape (w2 :: r) (fun v hv => h v (List.mem_cons_of_mem _ hv))
    have e : List.intercalate ['_'] (w :: w2 :: r) = w ++ '_' :: List.intercalate ['_'] (w2 :: r) := by
      simp [List.intercalate, List.intersperse]
    have hne2 : List.intercalate ['_'] (w2 :: r) ≠ [] := by
      have ⟨h2, _⟩ := h w2 (by simp)
      cases r with
      | nil => simpa [List.intercalate] using h2
      | cons w3 r3 =>
        have : List.intercalate ['_'] (w2 :: w3 :: r3) = w2 ++ '_' :: List.intercalate ['_'] (w3 :: r3) := by
          simp [List.intercalate, List.intersperse]
        rw [this]; simp
    rw [e]
    refine ⟨?_, ?_, ?_⟩
    · cases w with
      | nil => exact absurd rfl hne
      | cons a t => intro hh; simp at hh; exact hu a (by simp) hh
    · rw [getLast?_append_cons]
      cases hl : List.intercalate ['_'] (w2 :: r) with
      | nil => exact absurd hl hne2
      | cons y t => rw [List.getLast?_cons_cons, ← hl]; exact ih.2.1
    · apply noDouble_ufree_append w _ hu
      cases hl : List.intercalate ['_'] (w2 :: r) with
      | nil => exact absurd hl hne2
      | cons y t =>
        have hy : y ≠ '_' := by
          have := ih.1; rw [hl] at this; simpa using this
        have := ih.2.2; rw [hl] at this
        simp [noDouble, hy, this]

theorem underscore_not_alnum : isAlnum '_' = false := by decide

/-- **`snake s` never starts or ends with `_` and never has two `_` in a row.** -/
theorem snake_shape (s : List Char) :
    (snake s).head? ≠ some '_' ∧ (snake s).getLast? ≠ some '_' ∧ noDouble (snake s) = true := by
  have e : snake s = List.intercalate ['_'] ((words s).map (·.map toLower)) := by simp [snake]
  rw [e]
  apply intercalate_shape
  intro w hw
  obtain ⟨v, hv, rfl⟩ := List.mem_map.1 hw
  refine ⟨by simpa using words_nonempty s v hv, ?_⟩
  intro c hc
  obtain ⟨d, hd, rfl⟩ := List.mem_map.1 hc
  intro h0
  have := toLower_alnum d (words_alnum s v hv d hd)
  rw [h0, underscore_not_alnum] at this
  cases this

end SeaQ.Props.C19Snake
