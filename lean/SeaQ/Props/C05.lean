import SeaQ.Lemmas.PrattBridge
import SeaQ.Model.Dialects
import SeaQ.Gen.Policy
/-!
# C05 — rendered expressions re-parse to the expression tree that was built

* `parse_print` (Lemmas/PrattRound): for ANY dialect table and ANY parenthesis policy, a
  printed expression all of whose omitted parentheses are licensed by the table re-parses to
  itself — prefix NOT, every binary operator, non-associative levels, the ternary forms
  `BETWEEN .. AND ..` / `LIKE .. ESCAPE ..` in the crate's nested-binary encoding, and
  delimited constructs (function calls, tuples, CASE, CAST, sub-selects) of any depth.
* `parse_print_of_table` (Lemmas/PrattBridge): licensing of every well-formed tree follows from
  a FINITE obligation on (table, policy cells) — `TableOKD`, decidable.
* Here: the obligation is decided, per dialect, on the policy cells OBSERVED from the current
  crate (`Gen/Policy`, regenerated on every run: every outer operator x child kind x side)
  against the dialect tables of `Model/Dialects` (the specification).

Status on the current tree: two defects found by this obligation were repaired in sea-query:
the BETWEEN bounds (`fix:` a5a273d) and, on MySQL, a bare arithmetic / shift pattern after LIKE
(`a LIKE b + c` is `(a LIKE b) + c` in MySQL, whose LIKE pattern must be a simple_expr; `fix:`
03bd74c).  All three dialects are proved in full.
-/
namespace SeaQ.Props.C05
open SeaQ.Pratt SeaQ.Dialects SeaQ.Gen.Policy

/-- the operator numbering of the generated file is the one the tables are written for -/
theorem opNames_agree : SeaQ.Gen.Policy.opNames = SeaQ.Dialects.opNames := by decide

/-- **Finite obligations** (kernel-evaluated on the regenerated cells). -/
theorem sqlite_table_ok : TableOKD sqlite sqliteCells sqliteOps := by decide +kernel
theorem postgres_table_ok : TableOKD postgres postgresCells postgresOps := by decide +kernel

theorem mysql_table_ok : TableOKD mysql mysqlCells mysqlOps := by decide +kernel

/-- **C05, SQLite.** -/
theorem sqlite_roundtrip (e : Ex) (hw : wf sqlite sqliteOps e = true) :
    ∃ f, parseE sqlite f 0 (pr (policyOf sqliteCells) e) = some (e, []) :=
  parse_print_of_table (TableOK.ofD sqlite_table_ok) e hw

/-- **C05, PostgreSQL.** -/
theorem postgres_roundtrip (e : Ex) (hw : wf postgres postgresOps e = true) :
    ∃ f, parseE postgres f 0 (pr (policyOf postgresCells) e) = some (e, []) :=
  parse_print_of_table (TableOK.ofD postgres_table_ok) e hw

/-- **C05, MySQL.** (Since fix 03bd74c a binary operand of LIKE keeps its parentheses on MySQL, whose
LIKE pattern must be a simple_expr; before it, this obligation failed on exactly those cells.) -/
theorem mysql_roundtrip (e : Ex) (hw : wf mysql mysqlOps e = true) :
    ∃ f, parseE mysql f 0 (pr (policyOf mysqlCells) e) = some (e, []) :=
  parse_print_of_table (TableOK.ofD mysql_table_ok) e hw

/-! Non-vacuity: a well-formed tree with BETWEEN bounds, LIKE..ESCAPE, NOT and a function call,
and what the crate's policy prints for it. -/
def ex1 : Ex :=
  .bin (.un (.bin (.atom 8) 8 (.bin (.bin (.atom 16) 10 (.atom 24)) 0 (.bin (.atom 32) 16 (.atom 40))))) 0
    (.bin (.atom 48) 2 (.bin (.node 1 (.cons (.bin (.atom 56) 18 (.atom 64)) .nil)) 26 (.atom 2)))
example : wf sqlite sqliteOps ex1 = true := by decide
example : wf postgres postgresOps ex1 = true := by decide
example : wf mysql mysqlOps ex1 = true := by decide
/-- the parser consumes the whole printed form (and printing the result gives it back) -/
example : (parseE sqlite 40 0 (pr (policyOf sqliteCells) ex1)).map
      (fun r => (pr (policyOf sqliteCells) r.1, r.2)) = some (pr (policyOf sqliteCells) ex1, []) := by
  decide +kernel

end SeaQ.Props.C05
