import SeaQ.Gen.Take
/-!
# C15 — take, clone and clear behave as value operations on builders

A builder is a record of field values (abstract codes; `0` = the value `new()` /
`Default::default()` puts there).  `take()` builds the returned statement field by field; the
per-field expressions are regenerated from the source (`Gen/Take`).  The theorems say: if
the regenerated table lists every field exactly once with a value-preserving action, the
taken statement equals the statement before the call, in every field; if moreover every
action is a move (query statements), what is left equals a newly constructed statement; a
clear / reset function empties exactly its target field.  The table predicates are decided on
the regenerated table, so a field added to a struct but not to `take()`, a `..Default::default()`
rest, a copy-paste slip between two fields, or a reset that touches a second field is caught
here, whatever the call history.
-/
namespace SeaQ.Props.C15
open SeaQ.Gen.Take

abbrev Rec := String → Nat

/-- value-preserving actions -/
def preserves (a : String) : Bool :=
  a == "move" || a == "copy" || a == "clone" || a == "replace"

/-- what `take()` leaves behind in a field -/
def leftBy (a : String) (v : Nat) : Nat := if a == "move" then 0 else v

def actionOf (t : TakeInfo) (f : String) : Option String := (t.actions.find? (·.1 == f)).map (·.2)

/-- `take()`: (returned statement, statement left behind) -/
def take (t : TakeInfo) (s : Rec) : Rec × Rec :=
  (fun f => match actionOf t f with
     | some a => if preserves a then s f else 0
     | none => if t.hasRest then 0 else s f,
   fun f => match actionOf t f with
     | some a => leftBy a (s f)
     | none => s f)

/-- the table obligations for one struct -/
def takeOK (t : TakeInfo) : Bool :=
  !t.hasRest && t.derives.contains "Clone" &&
  t.fields.all (fun f => (t.actions.filter (·.1 == f)).length == 1) &&
  t.actions.all (fun p => t.fields.contains p.1 && preserves p.2)

def allMoves (t : TakeInfo) : Bool :=
  t.actions.all (fun p => p.2 == "move") && t.newIsDefault && t.derives.contains "PartialEq"

theorem takes_ok : takes.all takeOK = true := by decide

/-- the query statements with a `take()` -/
def queryStmts : List String := ["SelectStatement", "WindowStatement"]
theorem query_takes_move : (takes.filter (fun t => queryStmts.contains t.name)).all allMoves = true := by decide
theorem query_takes_present : queryStmts.all (fun n => takes.any (·.name == n)) = true := by decide

theorem find_of_filter_one {α} (l : List α) (p : α → Bool) (h : (l.filter p).length = 1) :
    ∃ x, l.find? p = some x ∧ p x = true := by
  induction l with
  | nil => simp at h
  | cons a l ih =>
    by_cases hp : p a = true
    · exact ⟨a, by simp [List.find?, hp], hp⟩
    · have hp' : p a = false := by simpa using hp
      simp only [List.filter, hp'] at h
      obtain ⟨x, hx, hpx⟩ := ih h
      exact ⟨x, by simp [List.find?, hp', hx], hpx⟩

/-- **take returns the statement** (every declared field, whatever its value) -/
theorem take_returns (t : TakeInfo) (h : takeOK t = true) (s : Rec) (f : String) (hf : f ∈ t.fields) :
    (take t s).1 f = s f := by
  simp only [takeOK, Bool.and_eq_true, Bool.not_eq_true', List.all_eq_true, beq_iff_eq] at h
  obtain ⟨⟨⟨_, _⟩, h3⟩, h4⟩ := h
  obtain ⟨x, hx, _⟩ := find_of_filter_one t.actions (·.1 == f) (h3 f hf)
  have hmem : x ∈ t.actions := List.mem_of_find?_eq_some hx
  have hp := (h4 x hmem)
  simp [take, actionOf, hx, hp.2]

/-- **take leaves a newly constructed statement behind** (query statements) -/
theorem take_leaves_default (t : TakeInfo) (h : takeOK t = true) (hm : allMoves t = true) (s : Rec)
    (f : String) (hf : f ∈ t.fields) : (take t s).2 f = 0 := by
  simp only [takeOK, Bool.and_eq_true, Bool.not_eq_true', List.all_eq_true, beq_iff_eq] at h
  obtain ⟨⟨⟨_, _⟩, h3⟩, _⟩ := h
  obtain ⟨x, hx, _⟩ := find_of_filter_one t.actions (·.1 == f) (h3 f hf)
  have hmem : x ∈ t.actions := List.mem_of_find?_eq_some hx
  unfold allMoves at hm
  simp only [Bool.and_eq_true, List.all_eq_true, beq_iff_eq] at hm
  have := hm.1.1 x hmem
  simp [take, actionOf, hx, leftBy, this]

/-- a clear / reset function: empties its listed fields, keeps everything else -/
def clear (targets : List String) (s : Rec) : Rec := fun f => if targets.contains f then 0 else s f

theorem clear_only (targets : List String) (s : Rec) :
    (∀ f ∈ targets, clear targets s f = 0) ∧ (∀ f, f ∉ targets → clear targets s f = s f) := by
  constructor
  · intro f hf; simp [clear, hf]
  · intro f hf; simp [clear, hf]

/-- every clear / reset function of the source empties exactly one field, and nothing else
is in its body -/
theorem clearers_ok : clearers.all (fun c => c.2.2.1.length == 1 && c.2.2.2) = true := by decide
/-- … the documented one -/
theorem clearers_target : clearers.all (fun c =>
    (c.2.1 != "clear_selects" || c.2.2.1 == ["selects"]) && (c.2.1 != "from_clear" || c.2.2.1 == ["from"]) &&
    (c.2.1 != "reset_limit" || c.2.2.1 == ["limit"]) && (c.2.1 != "reset_offset" || c.2.2.1 == ["offset"]) &&
    (c.2.1 != "clear_order_by" || c.2.2.1 == ["orders"] || c.2.2.1 == ["order_by"])) = true := by decide
theorem clearers_present : ["clear_selects", "from_clear", "reset_limit", "reset_offset", "clear_order_by"].all
    (fun n => clearers.any (fun c => c.1 == "SelectStatement" && c.2.1 == n)) = true := by decide

/-- clone is the identity on values; a later change to either copy is invisible in the other
(records are values) -/
theorem clone_independent (s : Rec) (f : String) (v : Nat) :
    let c := s
    let s' : Rec := fun g => if g = f then v else s g
    (∀ g, c g = s g) ∧ (∀ g, g ≠ f → s' g = c g) := by
  exact ⟨fun _ => rfl, fun g hg => by simp [hg]⟩

/-! Non-vacuity. -/
example : (takes.filter (fun t => t.name == "SelectStatement" && t.fields.contains "window" && t.fields.contains "lock")).length = 1 := by decide

end SeaQ.Props.C15
