import SeaQ.Model.Insert
/-!
# C10 — INSERT rows always match the column list; mismatches are reported

State machine over `columns` / `values` (= `values_panic`) / `select_from` /
`or_default_values(_many)`, for every call history and every row length.

Status on the current tree: the per-call contract holds for every state.  The consequence
"every rendered INSERT is rectangular" holds for every history that does not re-declare
`columns()` with a different count after rows were accepted (`NoRecount`); such a history
keeps the old rows and renders a non-rectangular statement (`rect_counterexample`, recorded
in `known_findings.json`, replayed on the real crate by the check).
-/
namespace SeaQ.Props.C10
open SeaQ.Insert

/-- a row is accepted iff it has exactly as many cells as the declared column list -/
theorem values_ok_iff (s : Ins) (row : List Nat) :
    (step s (.values row)).2 = .ok ↔ row.length = s.cols.length := by
  unfold step
  by_cases h : s.cols.length = row.length
  · simp only [h, ne_eq, not_true_eq_false, if_false]
    split <;> simp
  · simp only [ne_eq, h, not_false_eq_true, if_true]
    constructor
    · intro h'; cases h'
    · intro h'; exact absurd h'.symm h

/-- a mismatching row is rejected with both counts and leaves the statement unchanged -/
theorem values_err (s : Ins) (row : List Nat) (h : row.length ≠ s.cols.length) :
    step s (.values row) = (s, .err s.cols.length row.length) := by
  have : s.cols.length ≠ row.length := fun e => h e.symm
  simp [step, this]

/-- an accepted non-empty row is appended after all earlier rows; nothing else changes -/
theorem values_ok_appends (s : Ins) (row : List Nat) (h : row.length = s.cols.length)
    (hne : row ≠ []) :
    (step s (.values row)).1.rows = s.rows ++ [row] ∧ (step s (.values row)).1.cols = s.cols
      ∧ (step s (.values row)).1.dflt = s.dflt := by
  have h1 : ¬ s.cols.length ≠ row.length := fun e => e h.symm
  have h2 : row.isEmpty = false := by cases row <;> simp_all
  simp only [step, h1, if_false, h2, Bool.false_eq_true]
  cases hs : s.src <;> simp [Ins.rows, pushRow, hs]

/-- an accepted empty row (no columns declared) changes nothing -/
theorem values_empty_noop (s : Ins) (h : s.cols = []) : step s (.values []) = (s, .ok) := by
  simp [step, h]

theorem selectFrom_ok_iff (s : Ins) (sel : List Nat) :
    (step s (.selectFrom sel)).2 = .ok ↔ sel.length = s.cols.length := by
  unfold step
  by_cases h : s.cols.length = sel.length
  · simp [h]
  · simp only [ne_eq, h, not_false_eq_true, if_true]
    constructor
    · intro h'; cases h'
    · intro h'; exact absurd h'.symm h

theorem selectFrom_err (s : Ins) (sel : List Nat) (h : sel.length ≠ s.cols.length) :
    step s (.selectFrom sel) = (s, .err s.cols.length sel.length) := by
  have : s.cols.length ≠ sel.length := fun e => h e.symm
  simp [step, this]

/-- rectangularity is preserved by every call that is not a re-count -/
theorem rect_step (s : Ins) (c : Call) (hr : Rect s) (hc : ¬ Recount s c) : Rect (step s c).1 := by
  cases c with
  | columns cs =>
    intro r hr'
    have hr'' : r ∈ s.rows := by simpa [step, Ins.rows] using hr'
    by_cases hl : cs.length = s.cols.length
    · simpa [step, hl] using hr r hr''
    · exact absurd ⟨hl, List.ne_nil_of_mem hr''⟩ hc
  | values row =>
    by_cases h : row.length = s.cols.length
    · by_cases hne : row = []
      · subst hne
        have : s.cols.length = 0 := by simpa using h.symm
        simpa [step, this] using hr
      · obtain ⟨h1, h2, _⟩ := values_ok_appends s row h hne
        intro r hr'
        rw [h1] at hr'
        rw [h2]
        rcases List.mem_append.mp hr' with h' | h'
        · exact hr r h'
        · simp at h'; rw [h']; exact h
    · rw [values_err s row h]; exact hr
  | selectFrom sel =>
    by_cases h : sel.length = s.cols.length
    · have : ¬ s.cols.length ≠ sel.length := fun e => e h.symm
      intro r hr'
      simp [step, this, Ins.rows] at hr'
    · rw [selectFrom_err s sel h]; exact hr
  | defaults n =>
    intro r hr'
    have hr'' : r ∈ s.rows := by simpa [step, Ins.rows] using hr'
    simpa [step] using hr r hr''

/-- no call of the history re-counts the columns over stored rows -/
def NoRecount : Ins → List Call → Prop
  | _, [] => True
  | s, c :: h => ¬ Recount s c ∧ NoRecount (step s c).1 h

theorem rect_fold (h : List Call) : ∀ (s : Ins), Rect s → NoRecount s h →
    Rect (h.foldl (fun s c => (step s c).1) s) := by
  induction h with
  | nil => intro s hs _; exact hs
  | cons c h ih => intro s hs hn'; exact ih _ (rect_step s c hs hn'.1) hn'.2

/-- **C10 (partial: histories without a re-count).** -/
theorem rect_history_partial (h : List Call) (hn : NoRecount Ins.new h) : Rect (run h) :=
  rect_fold h Ins.new (by intro r hr; simp [Ins.new, Ins.rows] at hr) hn

/-- rows appear exactly as accepted, in call order; rejected rows leave no trace -/
theorem rows_are_accepted (cs : List Nat) (rows : List (List Nat)) :
    (run (.columns cs :: rows.map .values)).rows
      = rows.filter (fun r => r.length = cs.length ∧ r ≠ []) := by
  suffices hh : ∀ (s : Ins), s.cols = cs →
      ((rows.map Call.values).foldl (fun s c => (step s c).1) s).rows
        = s.rows ++ rows.filter (fun r => r.length = cs.length ∧ r ≠ []) by
    have := hh (step Ins.new (.columns cs)).1 (by simp [step])
    simpa [run, step, Ins.new, Ins.rows] using this
  induction rows with
  | nil => intro s _; simp
  | cons r rows ih =>
    intro s hs
    simp only [List.map_cons, List.foldl_cons]
    by_cases h : r.length = s.cols.length
    · by_cases hne : r = []
      · subst hne
        have h0 : s.cols = [] := List.eq_nil_of_length_eq_zero (by simpa using h.symm)
        rw [values_empty_noop s h0, ih s hs]
        simp
      · obtain ⟨h1, h2, _⟩ := values_ok_appends s r h hne
        rw [ih _ (h2.trans hs), h1]
        have : (r.length = cs.length ∧ r ≠ []) := ⟨by rw [← hs]; exact h, hne⟩
        simp [this]
    · rw [values_err s r h, ih s hs]
      have : ¬ (r.length = cs.length ∧ r ≠ []) := fun hh => h (by rw [hs]; exact hh.1)
      simp [this]

/-- the default-values form is rendered only when nothing else was declared -/
theorem default_only_when_bare (s : Ins) (n : Nat) :
    shape s = .defaultValues n ↔ (s.dflt = some n ∧ s.cols = [] ∧ s.src = .none) := by
  obtain ⟨cols, src, dflt⟩ := s
  cases dflt <;> cases cols <;> cases src <;> simp [shape]

/-- The full consequence is false on the current tree: re-declaring the columns after a row
was accepted leaves a non-rectangular statement. -/
theorem rect_counterexample :
    ¬ Rect (run [.columns [0, 1], .values [5, 6], .columns [0]]) := by
  intro h
  have := h [5, 6] (by decide)
  revert this; decide

/-! Non-vacuity. -/
example : NoRecount Ins.new [.columns [0, 1], .values [5, 6], .values [7], .columns [2, 3], .values [8, 9]] := by
  refine ⟨?_, ?_, ?_, ?_, ?_, trivial⟩ <;> simp [Recount, step, Ins.new, Ins.rows, pushRow]
example : (run [.columns [0, 1], .values [5, 6], .values [7], .values [8, 9]]).rows = [[5, 6], [8, 9]] := by decide

end SeaQ.Props.C10
