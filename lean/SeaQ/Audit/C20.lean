import SeaQ.Props.C20
#print axioms SeaQ.Props.C20.C20
#print axioms SeaQ.Props.C20.C20_local
#print axioms SeaQ.Props.C20.C20_needs_feature
