import SeaQ.Props.C17
#print axioms SeaQ.Props.C17.escape_chain_is_map
#print axioms SeaQ.Props.C17.unescape_escape_of_pairOK
#print axioms SeaQ.Props.C17.pairOK_all
#print axioms SeaQ.Props.C17.unescape_escape
