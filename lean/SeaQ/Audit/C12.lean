import SeaQ.Props.C12
#print axioms SeaQ.Props.C12.rows_ok
#print axioms SeaQ.Props.C12.roundtrip
#print axioms SeaQ.Props.C12.mismatch
#print axioms SeaQ.Props.C12.null_fails
#print axioms SeaQ.Props.C12.option_none
#print axioms SeaQ.Props.C12.option_some
#print axioms SeaQ.Props.C12.scalar_of_rowOK
#print axioms SeaQ.Props.C12.asNull_ok
#print axioms SeaQ.Props.C12.dummy_ok
#print axioms SeaQ.Props.C12.asNull_covers
#print axioms SeaQ.Props.C12.tuple_shapes
#print axioms SeaQ.Props.C12.tuple_arities
#print axioms SeaQ.Props.C12.tuple_extract
