import SeaQ.Props.C13
#print axioms SeaQ.Props.C13.letterPat_of
#print axioms SeaQ.Props.C13.isPrefixOf_digit
#print axioms SeaQ.Props.C13.hasSub_split
#print axioms SeaQ.Props.C13.hasSub_skip_digits
#print axioms SeaQ.Props.C13.hasSub_digits
#print axioms SeaQ.Props.C13.digitChar_isDigit
#print axioms SeaQ.Props.C13.natText_digits
#print axioms SeaQ.Props.C13.upper_digit
#print axioms SeaQ.Props.C13.hasSub_instantiate
#print axioms SeaQ.Props.C13.hasSub_inst
#print axioms SeaQ.Props.C13.instantiate_empty
#print axioms SeaQ.Props.C13.affinity_instantiate
#print axioms SeaQ.Props.C13.sqlite_table_ok
#print axioms SeaQ.Props.C13.sqlite_table_complete
#print axioms SeaQ.Props.C13.affinity_intended
