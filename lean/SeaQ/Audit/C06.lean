import SeaQ.Props.C06
#print axioms SeaQ.Props.C06.eval_toEX
#print axioms SeaQ.Props.C06.eval_toE
#print axioms SeaQ.Props.C06.eval_foldE
#print axioms SeaQ.Props.C06.eval_add
#print axioms SeaQ.Props.C06.eval_addOption_none
#print axioms SeaQ.Props.C06.eval_not
#print axioms SeaQ.Props.C06.eval_ofExpr
#print axioms SeaQ.Props.C06.eval_addCondition
#print axioms SeaQ.Props.C06.C06_history
#print axioms SeaQ.Props.C06.C06_rendered_meaning
#print axioms SeaQ.Props.C06.addCondition_ne_empty
#print axioms SeaQ.Props.C06.C06_none
