import SeaQ.Props.C10
import SeaQ.Props.C10Stmt
#print axioms SeaQ.Props.C10.values_ok_iff
#print axioms SeaQ.Props.C10.values_err
#print axioms SeaQ.Props.C10.values_ok_appends
#print axioms SeaQ.Props.C10.values_empty_noop
#print axioms SeaQ.Props.C10.selectFrom_ok_iff
#print axioms SeaQ.Props.C10.selectFrom_err
#print axioms SeaQ.Props.C10.rect_step
#print axioms SeaQ.Props.C10.rect_fold
#print axioms SeaQ.Props.C10.rect_history_partial
#print axioms SeaQ.Props.C10.rows_are_accepted
#print axioms SeaQ.Props.C10.default_only_when_bare
#print axioms SeaQ.Props.C10.rect_counterexample
#print axioms SeaQ.Props.C10Stmt.rInsert_branch
#print axioms SeaQ.Props.C10Stmt.rect_statement
#print axioms SeaQ.Props.C10Stmt.rRows_shape
