import SeaQ.Props.C19
#print axioms SeaQ.Props.C19.valid_no_quote
#print axioms SeaQ.Props.C19.replaceChar_id
#print axioms SeaQ.Props.C19.fast_path_eq
#print axioms SeaQ.Props.C19.fast_path_eq_backends
#print axioms SeaQ.Props.C19.enum_fast_path_sound
#print axioms SeaQ.Props.C19.name_of_rename
#print axioms SeaQ.Props.C19.name_of_method
#print axioms SeaQ.Props.C19.name_of_table
#print axioms SeaQ.Props.C19.name_of_default
