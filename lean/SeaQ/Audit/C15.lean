import SeaQ.Props.C15
#print axioms SeaQ.Props.C15.takes_ok
#print axioms SeaQ.Props.C15.query_takes_move
#print axioms SeaQ.Props.C15.query_takes_present
#print axioms SeaQ.Props.C15.find_of_filter_one
#print axioms SeaQ.Props.C15.take_returns
#print axioms SeaQ.Props.C15.take_leaves_default
#print axioms SeaQ.Props.C15.clear_only
#print axioms SeaQ.Props.C15.clearers_ok
#print axioms SeaQ.Props.C15.clearers_target
#print axioms SeaQ.Props.C15.clearers_present
#print axioms SeaQ.Props.C15.clone_independent
