import SeaQ.Props.C04
#print axioms SeaQ.Props.C04.identBody_close
#print axioms SeaQ.Props.C04.identBody_quoted
#print axioms SeaQ.Props.C04.ident_decodes_quote
#print axioms SeaQ.Props.C04.ident_decodes
#print axioms SeaQ.Props.C04.raw_decodes_partial
#print axioms SeaQ.Props.C04.raw_breaks
