import SeaQ.Props.C03
#print axioms SeaQ.Props.C03.escape_eq
#print axioms SeaQ.Props.C03.mysql_ok
#print axioms SeaQ.Props.C03.postgres_ok
#print axioms SeaQ.Props.C03.sqlite_ok
#print axioms SeaQ.Props.C03.single
#print axioms SeaQ.Props.C03.strLit_decodes
#print axioms SeaQ.Props.C03.bytesLit_decodes
#print axioms SeaQ.Props.C03.charLit_decodes
