import SeaQ.Props.C16
import SeaQ.Lemmas.TokenTables
#print axioms SeaQ.Props.C16.tokenize_concat
#print axioms SeaQ.Props.C16.tokenize_nonempty
#print axioms SeaQ.Props.C16.tokenize_total
#print axioms SeaQ.Props.C16.next_progress
#print axioms SeaQ.Props.C16.quoted_one_token
#print axioms SeaQ.Props.C16.quoted_then_rest
#print axioms SeaQ.Props.C16.mark_inside_quotes_not_punct
#print axioms SeaQ.Props.C16.unquote_quoted
#print axioms SeaQ.Token.endFor_distinct
#print axioms SeaQ.Token.escFor_distinct
#print axioms SeaQ.Token.escFor_subset
#print axioms SeaQ.Token.end_ne_escape
#print axioms SeaQ.Token.start_is_delim
#print axioms SeaQ.Token.start_complete
#print axioms SeaQ.Token.start_not_space
#print axioms SeaQ.Token.alnum_shape
#print axioms SeaQ.Token.delimOK
