import SeaQ.Props.C11
#print axioms SeaQ.Props.C11.expand_step_lit
#print axioms SeaQ.Props.C11.quoted_kept
#print axioms SeaQ.Props.C11.expand_step_doubled
#print axioms SeaQ.Props.C11.expand_step_positional
#print axioms SeaQ.Props.C11.expand_step_numbered
#print axioms SeaQ.Props.C11.expand_step_numbered_word
#print axioms SeaQ.Props.C11.expand_verbatim
#print axioms SeaQ.Props.C11.renderInline_lits
#print axioms SeaQ.Props.C11.template_without_marks
#print axioms SeaQ.Props.C11.inject_step
#print axioms SeaQ.Props.C11.inject_inline
