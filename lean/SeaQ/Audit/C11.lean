import SeaQ.Props.C11
import SeaQ.Props.C11Stmt
#print axioms SeaQ.Props.C11.expand_step_lit
#print axioms SeaQ.Props.C11.quoted_kept
#print axioms SeaQ.Props.C11.expand_step_doubled
#print axioms SeaQ.Props.C11.expand_step_positional
#print axioms SeaQ.Props.C11.expand_step_numbered
#print axioms SeaQ.Props.C11.expand_step_numbered_word
#print axioms SeaQ.Props.C11.expand_verbatim
#print axioms SeaQ.Props.C11.renderInline_lits
#print axioms SeaQ.Props.C11.template_without_marks
#print axioms SeaQ.Props.C11.inject_step
#print axioms SeaQ.Props.C11.inject_inline
#print axioms SeaQ.Props.C11Stmt.rTemplate_eq
#print axioms SeaQ.Props.C11Stmt.textI_append
#print axioms SeaQ.Props.C11Stmt.pieceT_pvals
#print axioms SeaQ.Props.C11Stmt.template_inline_pieces
#print axioms SeaQ.Props.C11Stmt.textPFrom_vals_append
#print axioms SeaQ.Props.C11Stmt.template_values_pieces
#print axioms SeaQ.Props.C11Stmt.C11_statement
#print axioms SeaQ.Props.C11Stmt.rExEach_values
