import SeaQ.Props.C09
#print axioms SeaQ.Props.C09.nulls_last_emulation
#print axioms SeaQ.Props.C09.nulls_first_emulation
#print axioms SeaQ.Props.C09.mysql_nulls_last_form
#print axioms SeaQ.Props.C09.mysql_nulls_first_form
#print axioms SeaQ.Props.C09.native_nulls_form
#print axioms SeaQ.Props.C09.ifnull_eq_coalesce
#print axioms SeaQ.Props.C09.greatest_eq_max
#print axioms SeaQ.Props.C09.pgGreatest_differs
#print axioms SeaQ.Props.C09.function_names
