import SeaQ.Props.C05
import SeaQ.Lemmas.PrattRound
import SeaQ.Lemmas.PrattBridge
#print axioms SeaQ.Props.C05.opNames_agree
#print axioms SeaQ.Props.C05.sqlite_table_ok
#print axioms SeaQ.Props.C05.postgres_table_ok
#print axioms SeaQ.Props.C05.mysql_table_ok
#print axioms SeaQ.Props.C05.sqlite_roundtrip
#print axioms SeaQ.Props.C05.postgres_roundtrip
#print axioms SeaQ.Props.C05.mysql_roundtrip
#print axioms SeaQ.Pratt.main_atom
#print axioms SeaQ.Pratt.main_un
#print axioms SeaQ.Pratt.main_bin_reg
#print axioms SeaQ.Pratt.main_bin_mix
#print axioms SeaQ.Pratt.main_node
#print axioms SeaQ.Pratt.mainL_nil
#print axioms SeaQ.Pratt.mainL_cons
#print axioms SeaQ.Pratt.main_all
#print axioms SeaQ.Pratt.parse_print
#print axioms SeaQ.Pratt.isMixShape_true
#print axioms SeaQ.Pratt.mixParts_of_shape
#print axioms SeaQ.Pratt.mixParts_none
#print axioms SeaQ.Pratt.wf_bin
#print axioms SeaQ.Pratt.wfMix_bin
#print axioms SeaQ.Pratt.bare_allGE
#print axioms SeaQ.Pratt.ne_un_of_cell
#print axioms SeaQ.Pratt.left_ok
#print axioms SeaQ.Pratt.kind_bin_mem
#print axioms SeaQ.Pratt.child_allGE
#print axioms SeaQ.Pratt.licL_of_wf
#print axioms SeaQ.Pratt.bridge_step
#print axioms SeaQ.Pratt.bridge
#print axioms SeaQ.Pratt.lic_of_wf
#print axioms SeaQ.Pratt.parse_print_of_table
