import SeaQ.Props.C14
#print axioms SeaQ.Props.C14.mysql_types_defined_partial
#print axioms SeaQ.Props.C14.mysql_interval_not_a_type
#print axioms SeaQ.Props.C14.postgres_types_defined
#print axioms SeaQ.Props.C14.params_in_text
#print axioms SeaQ.Props.C14.parameterised_forms
#print axioms SeaQ.Props.C14.parameter_order
#print axioms SeaQ.Props.C14.mysql_unsigned_exact
#print axioms SeaQ.Props.C14.postgres_serial_form
