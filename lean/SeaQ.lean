import SeaQ.Props.C16
import SeaQ.Props.C17
