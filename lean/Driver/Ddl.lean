import Driver.Stmt
import SeaQ.Model.Ddl
/-!
Driver glue for the schema-statement model: `ddl <backend> <recipe>` → `ok <text> safe:<b> content:<b>` | `panic`.
-/
namespace Driver.Ddl
open SeaQ.Util SeaQ.Stmt SeaQ.Render SeaQ.Escape SeaQ.Ddl Driver.Stmt

def optNat : Sexp → Option (Option Nat)
  | .atom "-" => some none
  | x => (nat x).map some

def toStrLen : Sexp → Option StrLen
  | .atom "none" => some .none
  | .atom "max" => some .max
  | x => (nat x).map .n

def optPair : List Sexp → Option (Option (Nat × Nat))
  | [.atom "-"] => some none
  | [a, b] => match nat a, nat b with | some a, some b => some (some (a, b)) | _, _ => none
  | _ => none

partial def toColType : Sexp → Option ColType
  | .list [.atom "ct", .atom "Char", l] => (optNat l).map .char
  | .list [.atom "ct", .atom "String", l] => (toStrLen l).map .string
  | .list [.atom "ct", .atom "Text"] => some .text
  | .list [.atom "ct", .atom "Blob"] => some .blob
  | .list [.atom "ct", .atom "TinyInteger"] => some .tinyInteger
  | .list [.atom "ct", .atom "SmallInteger"] => some .smallInteger
  | .list [.atom "ct", .atom "Integer"] => some .integer
  | .list [.atom "ct", .atom "BigInteger"] => some .bigInteger
  | .list [.atom "ct", .atom "TinyUnsigned"] => some .tinyUnsigned
  | .list [.atom "ct", .atom "SmallUnsigned"] => some .smallUnsigned
  | .list [.atom "ct", .atom "Unsigned"] => some .unsigned
  | .list [.atom "ct", .atom "BigUnsigned"] => some .bigUnsigned
  | .list [.atom "ct", .atom "Float"] => some .float
  | .list [.atom "ct", .atom "Double"] => some .double
  | .list (.atom "ct" :: .atom "Decimal" :: r) => (optPair r).map .decimal
  | .list [.atom "ct", .atom "DateTime"] => some .dateTime
  | .list [.atom "ct", .atom "Timestamp"] => some .timestamp
  | .list [.atom "ct", .atom "TimestampWithTimeZone"] => some .timestampTz
  | .list [.atom "ct", .atom "Time"] => some .time
  | .list [.atom "ct", .atom "Date"] => some .date
  | .list [.atom "ct", .atom "Year"] => some .year
  | .list [.atom "ct", .atom "Interval", f, p] => match optNat f, optNat p with | some f, some p => some (.interval f p) | _, _ => none
  | .list [.atom "ct", .atom "Binary", n] => (nat n).map .binary
  | .list [.atom "ct", .atom "VarBinary", l] => (toStrLen l).map .varBinary
  | .list [.atom "ct", .atom "Bit", l] => (optNat l).map .bit
  | .list [.atom "ct", .atom "VarBit", n] => (nat n).map .varBit
  | .list [.atom "ct", .atom "Boolean"] => some .boolean
  | .list (.atom "ct" :: .atom "Money" :: r) => (optPair r).map .money
  | .list [.atom "ct", .atom "Json"] => some .json
  | .list [.atom "ct", .atom "JsonBinary"] => some .jsonBinary
  | .list [.atom "ct", .atom "Uuid"] => some .uuid
  | .list [.atom "ct", .atom "Custom", s] => (str s).map .custom
  | .list [.atom "ct", .atom "Enum", n, .list vs] => match str n, mapM' str vs with | some n, some vs => some (.enum n vs) | _, _ => none
  | .list [.atom "ct", .atom "Array", e] => (toColType e).map .array
  | .list [.atom "ct", .atom "Vector", l] => (optNat l).map .vector
  | .list [.atom "ct", .atom "Cidr"] => some .cidr
  | .list [.atom "ct", .atom "Inet"] => some .inet
  | .list [.atom "ct", .atom "MacAddr"] => some .macAddr
  | .list [.atom "ct", .atom "LTree"] => some .ltree
  | _ => none

def toSpec : Sexp → Option Spec
  | .atom "null" => some .null
  | .atom "notnull" => some .notNull
  | .atom "auto" => some .autoIncrement
  | .atom "unique" => some .unique
  | .atom "pk" => some .primaryKey
  | .list [.atom "default", e] => (toEx e).map .default
  | .list [.atom "check", e] => (toEx e).map .check
  | .list [.atom "gen", e, b] => match toEx e, bool b with | some e, some b => some (.generated e b) | _, _ => none
  | .list [.atom "extra", s] => (str s).map .extra
  | .list [.atom "comment", s] => (str s).map .comment
  | .list [.atom "using", e] => (toEx e).map .using
  | _ => none

def toCol : Sexp → Option Col
  | .list [.atom "col", n, t, .list specs] =>
    match str n, (match t with | .atom "-" => some none | x => (toColType x).map some), mapM' toSpec specs with
    | some n, some t, some ss => some ⟨n, t, ss⟩
    | _, _, _ => none
  | _ => none

def toIdxCol : Sexp → Option IdxCol
  | .list [.atom "ic", n, p, o] =>
    match str n, optNat p, (match o with | .atom "-" => some none | x => (bool x).map some) with
    | some n, some p, some o => some ⟨n, p, o⟩
    | _, _, _ => none
  | _ => none

def toIndexType : Sexp → Option (Option IndexType)
  | .atom "-" => some none
  | .atom "bt" => some (some .btree)
  | .atom "ft" => some (some .fullText)
  | .atom "hash" => some (some .hash)
  | .list [.atom "cu", s] => (str s).map (fun s => some (.custom s))
  | _ => none

def optTName : Sexp → Option (Option TName)
  | .atom "-" => some none
  | x => (toTName x).map some

def toIndex : Sexp → Option Index
  | .list [.atom "idx", n, .list cols, t, p, u, nnd, it, ine, .list inc, w] =>
    match optStr n, mapM' toIdxCol cols, optTName t, bool p, bool u, bool nnd, toIndexType it, bool ine, mapM' str inc, toHolder w with
    | some n, some cols, some t, some p, some u, some nnd, some it, some ine, some inc, some w =>
      some ⟨n, cols, t, p, u, nnd, it, ine, inc, w⟩
    | _, _, _, _, _, _, _, _, _, _ => none
  | _ => none

def toFk : Sexp → Option Fk
  | .list [.atom "fk", n, t, rt, .list cols, .list refs, od, ou] =>
    match optStr n, optTName t, optTName rt, mapM' str cols, mapM' str refs, optNat od, optNat ou with
    | some n, some t, some rt, some cols, some refs, some od, some ou => some ⟨n, t, rt, cols, refs, od, ou⟩
    | _, _, _, _, _, _, _ => none
  | _ => none

def toTableOpt : Sexp → Option TableOpt
  | .list [.atom "engine", s] => (str s).map .engine
  | .list [.atom "collate", s] => (str s).map .collate
  | .list [.atom "charset", s] => (str s).map .charset
  | _ => none

def toAlterOpt : Sexp → Option AlterOpt
  | .list [.atom "add", c, b] => match toCol c, bool b with | some c, some b => some (.add c b) | _, _ => none
  | .list [.atom "modify", c] => (toCol c).map .modify
  | .list [.atom "rename", a, b] => match str a, str b with | some a, some b => some (.rename a b) | _, _ => none
  | .list [.atom "dropc", c] => (str c).map .drop
  | .list [.atom "addfk", f] => (toFk f).map .addFk
  | .list [.atom "dropfk", n] => (str n).map .dropFk
  | _ => none

def optParts : Sexp → Option (Option (List String))
  | .atom "-" => some none
  | .list ps => (mapM' str ps).map some
  | _ => none

def toTypeAlterOpt : Sexp → Option (Option TypeAlterOpt)
  | .atom "-" => some none
  | .list [.atom "add", v, ine, .atom "-"] => match str v, bool ine with | some v, some ine => some (some (.add v none ine)) | _, _ => none
  | .list [.atom "add", v, ine, .list [.atom "before", b]] => match str v, bool ine, str b with | some v, some ine, some b => some (some (.add v (some (false, b)) ine)) | _, _, _ => none
  | .list [.atom "add", v, ine, .list [.atom "after", b]] => match str v, bool ine, str b with | some v, some ine, some b => some (some (.add v (some (true, b)) ine)) | _, _, _ => none
  | .list [.atom "rename", n] => (str n).map (fun n => some (.rename n))
  | .list [.atom "renamevalue", a, b] => match str a, str b with | some a, some b => some (some (.renameValue a b)) | _, _ => none
  | _ => none

def toStmt : Sexp → Option SeaQ.Ddl.Stmt
  | .list [.atom "create", t, .list cols, .list opts, .list idx, .list fks, ine, .list checks, comment, extra, temp] =>
    match optTName t, mapM' toCol cols, mapM' toTableOpt opts, mapM' toIndex idx, mapM' toFk fks, bool ine, mapM' toEx checks,
      optStr comment, optStr extra, bool temp with
    | some t, some cols, some opts, some idx, some fks, some ine, some checks, some comment, some extra, some temp =>
      some (.create ⟨t, cols, opts, idx, fks, ine, checks, comment, extra, temp⟩)
    | _, _, _, _, _, _, _, _, _, _ => none
  | .list (.atom "alter" :: t :: opts) =>
    match optTName t, mapM' toAlterOpt opts with | some t, some opts => some (.alter t opts) | _, _ => none
  | .list [.atom "drop", .list ts, ie, .list opts] =>
    match mapM' toTName ts, bool ie, mapM' nat opts with | some ts, some ie, some opts => some (.drop ts ie opts) | _, _, _ => none
  | .list [.atom "rename", a, b] => match optTName a, optTName b with | some a, some b => some (.rename a b) | _, _ => none
  | .list [.atom "truncate", t] => (optTName t).map .truncate
  | .list [.atom "idxcreate", i] => (toIndex i).map .indexCreate
  | .list [.atom "idxdrop", n, t, ie] =>
    match optStr n, optTName t, bool ie with | some n, some t, some ie => some (.indexDrop n t ie) | _, _, _ => none
  | .list [.atom "fkcreate", f] => (toFk f).map .fkCreate
  | .list [.atom "fkdrop", n, t] => match optStr n, optTName t with | some n, some t => some (.fkDrop n t) | _, _ => none
  | .list [.atom "typecreate", n, e, .list vs] =>
    match optParts n, bool e, mapM' str vs with | some n, some e, some vs => some (.typeCreate n e vs) | _, _, _ => none
  | .list [.atom "typedrop", .list ns, ie, o] =>
    match mapM' (fun x => match x with | .list ps => mapM' str ps | _ => none) ns, bool ie, optNat o with
    | some ns, some ie, some o => some (.typeDrop ns ie o) | _, _, _ => none
  | .list [.atom "typealter", n, o] => match optParts n, toTypeAlterOpt o with | some n, some o => some (.typeAlter n o) | _, _ => none
  | .list [.atom "extcreate", n, sc, v, c, ine] =>
    match str n, optStr sc, optStr v, bool c, bool ine with
    | some n, some sc, some v, some c, some ine => some (.extCreate n sc v c ine) | _, _, _, _, _ => none
  | .list [.atom "extdrop", n, ie, c, r] =>
    match str n, bool ie, bool c, bool r with | some n, some ie, some c, some r => some (.extDrop n ie c r) | _, _, _, _ => none
  | _ => none

/-- `ddl <backend> <recipe>` -/
def run (s : String) : String :=
  match s.splitOn " " with
  | b :: rest =>
    match backendOf b, readSexp (" ".intercalate rest) with
    | some d, some sx =>
      (match toStmt sx with
       | some q =>
         let ps := rStmt d q
         if panics ps then "panic"
         else
           let fl (b : Bool) := if b then "1" else "0"
           "ok " ++ encodeStr (textI d ps) ++ " safe:" ++ fl (SeaQ.Scan.safe d true false 0 ps) ++
             " content:" ++ fl (ps.all (SeaQ.Scan.contentOK d true))
       | none => "bad-op")
    | _, _ => "bad-op"
  | _ => "bad-op"

end Driver.Ddl
