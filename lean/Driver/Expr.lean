import SeaQ.Model.Util
import SeaQ.Model.Pratt
import SeaQ.Gen.Policy
/-! Driver glue for C05: print an expression tree with the generated policy of a backend. -/
namespace Driver.Expr
open SeaQ.Util SeaQ.Pratt

mutual
  partial def toEx : Sexp → Option Ex
    | .atom s => if s.startsWith "a" then ((s.drop 1).toString).toNat?.map Ex.atom else none
    | .list [.atom "not", x] => (toEx x).map Ex.un
    | .list [.atom "bin", l, .atom o, r] =>
      match toEx l, o.toNat?, toEx r with
      | some l, some o, some r => some (.bin l o r)
      | _, _, _ => none
    | .list (.atom "node" :: .atom k :: args) =>
      match k.toNat?, toExL args with
      | some k, some as => some (.node k as)
      | _, _ => none
    | _ => none
  partial def toExL : List Sexp → Option ExList
    | [] => some .nil
    | x :: xs => match toEx x, toExL xs with
      | some e, some es => some (.cons e es)
      | _, _ => none
end

def cellsOf : String → Option Cells
  | "mysql" => some SeaQ.Gen.Policy.mysqlCells
  | "postgres" => some SeaQ.Gen.Policy.postgresCells
  | "sqlite" => some SeaQ.Gen.Policy.sqliteCells
  | _ => none

def showTok : Tok → String
  | .atom a => if a % 8 == 3 then "A3" else s!"A{a}"
  | .op o => s!"O{o}"
  | .not => "NOT"
  | .lp => "("
  | .rp => ")"
  | .opn k => if k == 1 then "COALESCE (" else "("
  | .cls => ")"
  | .comma => ","

def run (s : String) : String :=
  match s.splitOn " " with
  | b :: rest =>
    match cellsOf b, readSexp (" ".intercalate rest) with
    | some c, some sx =>
      (match toEx sx with
       | some e => "toks " ++ " ".intercalate ((pr (policyOf c) e).map showTok)
       | none => "bad-op")
    | _, _ => "bad-op"
  | _ => "bad-op"

end Driver.Expr
