import SeaQ.Model.AutoTrait
/-! Driver glue for C20: which types the model predicts NOT Send + Sync. -/
namespace Driver.Types
open SeaQ.Gen.Types SeaQ.AutoTrait

def run (s : String) : String :=
  let ts := s.trimAscii.toString == "1"
  let res := sendSync ts
  let bad := (nodes.zip res).filter (fun p => !p.2) |>.map (fun p => p.1.name)
  "notsendsync " ++ " ".intercalate bad
end Driver.Types
