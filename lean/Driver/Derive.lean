import SeaQ.Model.Util
import SeaQ.Model.Derive
namespace Driver.Derive
open SeaQ.Util SeaQ.Derive

def run (args : List String) : String :=
  match args with
  | ["snake", s] => (match decodeStr s with | some cs => "ok " ++ encodeStr (snake cs) | none => "bad-op")
  | ["pascal", s] => (match decodeStr s with | some cs => "ok " ++ encodeStr (pascal cs) | none => "bad-op")
  | ["valid", s] => (match decodeStr s with | some cs => (if mustBeValidIden cs then "ok 1" else "ok 0") | none => "bad-op")
  | _ => "bad-op"
end Driver.Derive
