import SeaQ.Model.Util
import SeaQ.Model.Insert
/-! Driver glue for C10. Recipe: `(ins (columns n) (values n) (values_panic n) (select_from n) (defaults n) …)`;
columns are `0..n-1`, cells are numbered by a running counter across the whole history. -/
namespace Driver.Ins
open SeaQ.Util SeaQ.Insert

def showList (l : List Nat) : String := "[" ++ ",".intercalate (l.map toString) ++ "]"

def showShape : Shape → String
  | .defaultValues n => s!"default {n}"
  | .valuesList cols rows => s!"values {showList cols} [{",".intercalate (rows.map showList)}]"
  | .selectSrc cols sel => s!"select {showList cols} {showList sel}"
  | .noSource cols => s!"nosource {showList cols}"

structure St where
  s : Ins
  ctr : Nat
  outs : List String
  dead : Bool

def fresh (ctr n : Nat) : List Nat := (List.range n).map (· + ctr)

def stepCall1 (st : St) : Sexp → Option St
  | .list [.atom k, .atom a] =>
    match a.toNat? with
    | none => none
    | some n =>
      if st.dead then some { st with outs := st.outs } else
      if k == "columns" then
        some { st with s := (step st.s (.columns (List.range n))).1, outs := st.outs ++ ["ok"] }
      else if k == "values" || k == "values_panic" then
        let row := fresh st.ctr n
        let (s', o) := step st.s (.values row)
        match o with
        | .ok => some { st with s := s', ctr := st.ctr + n, outs := st.outs ++ ["ok"] }
        | .err c v =>
          if k == "values" then some { st with s := s', ctr := st.ctr + n, outs := st.outs ++ [s!"err:{c}:{v}"] }
          else some { st with ctr := st.ctr + n, outs := st.outs ++ ["panic"], dead := true }
      else if k == "select_from" then
        let sel := fresh st.ctr n
        let (s', o) := step st.s (.selectFrom sel)
        match o with
        | .ok => some { st with s := s', ctr := st.ctr + n, outs := st.outs ++ ["ok"] }
        | .err c v => some { st with s := s', ctr := st.ctr + n, outs := st.outs ++ [s!"err:{c}:{v}"] }
      else if k == "defaults" then
        some { st with s := (step st.s (.defaults n)).1, outs := st.outs ++ ["ok"] }
      else none
  | _ => none

def stepCall (st : St) : Sexp → Option St
  | .list (.atom "values_from" :: ns) =>
    if st.dead then some st else
    -- `values_from_panic(rows)` = `values_panic(row)` for each row, in order
    ns.foldl (fun acc n => acc.bind (fun st' => stepCall1 st' (.list [.atom "values_panic", n]))) (some st)
      |>.map (fun st' =>
        -- one outcome for the whole batch
        let news := st'.outs.drop st.outs.length
        { st' with outs := st.outs ++ [if news.contains "panic" then "panic" else "ok"] })
  | x => stepCall1 st x

def run (s : String) : String :=
  match readSexp s with
  | some (.list (.atom "ins" :: cs)) =>
    match cs.foldl (fun acc c => acc.bind (fun st => stepCall st c)) (some ⟨Ins.new, 100, [], false⟩) with
    | some st => "outs " ++ ",".intercalate st.outs ++ " | " ++ (if st.dead then "dead" else showShape (shape st.s))
    | none => "bad-op"
  | _ => "bad-op"

end Driver.Ins
