import SeaQ.Model.Util
import SeaQ.Model.Condition
/-! Driver glue for C06: build conditions through the modelled API calls, print `E`. -/
namespace Driver.Cond
open SeaQ.Util SeaQ.Cond

def atomIx (s : String) : Option Nat :=
  if s.startsWith "a" then ((s.drop 1).toString).toNat? else none

mutual
  /-- a member: atom, `none` (add_option(None)), or nested group -/
  partial def member (c : Cnd Nat) : Sexp → Option (Cnd Nat)
    | .atom "none" => some (c.addOption none)
    | .atom s => (atomIx s).map (fun n => c.add (.expr n))
    | g => (group g).map (fun d => c.add (.cond d))
  /-- `(any|all [not] m*)` built with Condition::any()/all(), .add(..)*, then .not() -/
  partial def group : Sexp → Option (Cnd Nat)
    | .list (.atom k :: rest) =>
      let base : Option (Cnd Nat) := if k == "any" then some Cnd.any0 else if k == "all" then some Cnd.all0 else none
      match base with
      | none => none
      | some b =>
        let (neg, ms) := match rest with
          | .atom "not" :: ms => (true, ms)
          | ms => (false, ms)
        let built := ms.foldl (fun acc m => acc.bind (fun c => member c m)) (some b)
        built.map (fun c => if neg then c.not else c)
    | _ => none
end

/-- one condition-adding call: an atom is `and_where(atom)`, a group is `cond_where(group)` -/
def call : Sexp → Option (Cnd Nat)
  | .atom s => (atomIx s).map ofExpr
  | g => group g

def showE : E Nat → String
  | .atom a => s!"a{a}"
  | .tru => "true"
  | .fls => "false"
  | .and l r => s!"(and {showE l} {showE r})"
  | .or l r => s!"(or {showE l} {showE r})"
  | .not e => s!"(not {showE e})"

/-- `(hist c*)` → the rendered predicate as an S-expression, or `none` -/
def run (s : String) : String :=
  match readSexp s with
  | some (.list (.atom "hist" :: cs)) =>
    match cs.foldl (fun acc c => acc.bind (fun h => (call c).map (fun d => Holder.addCondition h d))) (some Holder.empty) with
    | some h => (match h.rendered with | some e => "pred " ++ showE e | none => "nopred")
    | none => "bad-op"
  | _ => "bad-op"

end Driver.Cond
