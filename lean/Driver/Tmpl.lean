import SeaQ.Model.Util
import SeaQ.Model.Template
/-! Driver glue for C11. -/
namespace Driver.Tmpl
open SeaQ.Util SeaQ.Token SeaQ.Template

def markOf : String → Option (Char × Bool)
  | "mysql" => some ('?', false) | "sqlite" => some ('?', false) | "postgres" => some ('$', true) | _ => none

def decodeList (toks : List String) : Option (List (List Char)) :=
  toks.foldr (fun t acc => match decodeStr t, acc with | some s, some l => some (s :: l) | _, _ => none) (some [])

/-- `tmpl <backend> <template> <alphabetic> <lit>*` → inline text, parameterised text, value order -/
def runTmpl (args : List String) : String :=
  match args with
  | b :: t :: a :: lits =>
    match markOf b, decodeStr t, decodeStr a, decodeList lits with
    | some (mark, numbered), some cs, some al, some ls =>
      let k := cls (fun c => al.contains c)
      let toks := tokenize k cs
      (match expand mark numbered ls.length 0 toks with
       | none => "panic"
       | some ps =>
         let (pt, order) := renderParam mark numbered 0 ps
         "ok " ++ encodeStr (renderInline ls ps) ++ " " ++ encodeStr pt ++ " [" ++ ",".intercalate (order.map toString) ++ "]")
    | _, _, _, _ => "bad-op"
  | _ => "bad-op"

/-- `inj <backend> <sql> <alphabetic> <param literal>*` -/
def runInj (args : List String) : String :=
  match args with
  | b :: t :: a :: lits =>
    match markOf b, decodeStr t, decodeStr a, decodeList lits with
    | some (mark, numbered), some cs, some al, some ls =>
      let k := cls (fun c => al.contains c)
      (match inject mark numbered ls 0 (tokenize k cs) with
       | none => "panic"
       | some out => "ok " ++ encodeStr out)
    | _, _, _, _ => "bad-op"
  | _ => "bad-op"

end Driver.Tmpl
