import SeaQ.Model.Util
import SeaQ.Model.Token
import SeaQ.Model.Escape
import SeaQ.Model.Literal
import SeaQ.Model.Ident
import Driver.Cond
import Driver.Ins
import Driver.Expr
import Driver.VEq
import Driver.Types
import Driver.Tmpl
import Driver.Derive
import Driver.Stmt
import Driver.Ddl
/-! Line-protocol driver: one request per line on stdin, one canonical result line on stdout. -/
open SeaQ SeaQ.Util

def kindTag : Token.Kind → String
  | .quoted => "q" | .unquoted => "u" | .space => "s" | .punct => "p"

def backendOf : String → Option Escape.Backend
  | "mysql" => some .mysql | "postgres" => some .postgres | "sqlite" => some .sqlite | _ => none

def handleWords (line : String) : String :=
  match line.trimAscii.toString.splitOn " " with
  | ["tok", s, a] =>
    match decodeStr s, decodeStr a with
    | some cs, some al =>
      let k := Token.cls (fun c => al.contains c)
      let (ts, rest) := Token.tokenizeFuel k cs.length cs
      let body := " ".intercalate (ts.map (fun t => kindTag t.kind ++ ":" ++ (encodeStr t.text).drop 2))
      (if rest.isEmpty then "toks " else "stuck ") ++ body
    | _, _ => "bad-op"
  | ["unq", s, a] =>
    match decodeStr s, decodeStr a with
    | some cs, some al =>
      let k := Token.cls (fun c => al.contains c)
      "ok " ++ encodeStr (Token.unquoteText k cs)
    | _, _ => "bad-op"
  | ["esc", b, s] =>
    match backendOf b, decodeStr s with
    | some b, some cs => "ok " ++ encodeStr (Escape.escape b cs)
    | _, _ => "bad-op"
  | ["unesc", b, s] =>
    match backendOf b, decodeStr s with
    | some b, some cs => "ok " ++ encodeStr (Escape.unescape b cs)
    | _, _ => "bad-op"
  | ["lit", b, "str", s] =>
    match backendOf b, decodeStr s with
    | some b, some cs => "ok " ++ encodeStr (Literal.writeStr b cs)
    | _, _ => "bad-op"
  | ["lit", b, "char", n] =>
    match backendOf b, decodeNat n with
    | some b, some k =>
      "ok " ++ encodeStr (Literal.charLit b (Char.ofNat k))
    | _, _ => "bad-op"
  | ["lit", b, "bytes", s] =>
    match backendOf b, decodeBytes s with
    | some b, some bs => "ok " ++ encodeStr (Literal.writeBytes b bs)
    | _, _ => "bad-op"
  | ["ident", b, s] =>
    match backendOf b, decodeStr s with
    | some b, some cs => "ok " ++ encodeStr (Ident.prepare (Ident.quoteOf b) cs)
    | _, _ => "bad-op"
  | "derive" :: args => Driver.Derive.run args
  | "tmpl" :: args => Driver.Tmpl.runTmpl args
  | "inj" :: args => Driver.Tmpl.runInj args
  | _ => "bad-op"

/-- requests whose argument is an S-expression take the rest of the line -/
def handle (line : String) : String :=
  let l := line.trimAscii.toString
  if l.startsWith "cond " then Driver.Cond.run (l.drop 5).toString
  else if l.startsWith "ins " then Driver.Ins.run (l.drop 4).toString
  else if l.startsWith "pexpr " then Driver.Expr.run (l.drop 6).toString
  else if l.startsWith "veq " then Driver.VEq.run (l.drop 4).toString
  else if l.startsWith "stmt " then Driver.Stmt.run (l.drop 5).toString
  else if l.startsWith "ddl " then Driver.Ddl.run (l.drop 4).toString
  else if l.startsWith "types " then Driver.Types.run (l.drop 6).toString
  else handleWords l

partial def loop (hin hout : IO.FS.Stream) : IO Unit := do
  let line ← hin.getLine
  if line.isEmpty then return ()
  hout.putStrLn (handle line)
  loop hin hout

def main : IO Unit := do
  let hin ← IO.getStdin
  let hout ← IO.getStdout
  loop hin hout
  hout.flush
