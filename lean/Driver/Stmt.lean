import SeaQ.Model.Util
import SeaQ.Model.Render
import SeaQ.Model.Scan
/-!
Driver glue for the statement model: reads a statement recipe (S-expression, one constructor
per AST node; names and text hex-encoded as `h:…`), renders it for a backend and prints
the parameterised text, the collected values and the inline text.
-/
namespace Driver.Stmt
open SeaQ.Util SeaQ.Stmt SeaQ.Render SeaQ.Escape

def str (s : Sexp) : Option String :=
  match s with
  | .atom a => (decodeStr a).map String.ofList
  | _ => none

def optStr (s : Sexp) : Option (Option String) :=
  match s with
  | .atom "-" => some none
  | x => (str x).map some

def nat (s : Sexp) : Option Nat :=
  match s with
  | .atom a => a.toNat?
  | _ => none

def int (s : Sexp) : Option Int :=
  match s with
  | .atom a => a.toInt?
  | _ => none

def bool (s : Sexp) : Option Bool :=
  match s with
  | .atom "1" => some true
  | .atom "0" => some false
  | _ => none

def mapM' {α} (f : Sexp → Option α) : List Sexp → Option (List α)
  | [] => some []
  | x :: xs => match f x, mapM' f xs with
    | some a, some as => some (a :: as)
    | _, _ => none

def toVal : Sexp → Option Val
  | .list [.atom "v", .atom ty, .atom "null"] => some ⟨ty, .null⟩
  | .list [.atom "v", .atom ty, .atom "b", b] => (bool b).map (fun b => ⟨ty, .bool b⟩)
  | .list [.atom "v", .atom ty, .atom "i", i] => (int i).map (fun i => ⟨ty, .int i⟩)
  | .list [.atom "v", .atom ty, .atom "n", t] => (str t).map (fun t => ⟨ty, .num t⟩)
  | .list [.atom "v", .atom ty, .atom "s", .atom t] => (decodeStr t).map (fun t => ⟨ty, .str t⟩)
  | .list [.atom "v", .atom ty, .atom "y", .atom t] => (decodeBytes t).map (fun t => ⟨ty, .bytes t⟩)
  | .list [.atom "v", .atom ty, .atom "q", t] => (str t).map (fun t => ⟨ty, .quoted t⟩)
  | _ => none

def optVal : Sexp → Option (Option Val)
  | .atom "-" => some none
  | x => (toVal x).map some

def toColRef : Sexp → Option ColRef
  | .list [.atom "c", c] => (str c).map .col
  | .list [.atom "tc", t, c] => match str t, str c with | some t, some c => some (.tcol t c) | _, _ => none
  | .list [.atom "stc", s, t, c] =>
    match str s, str t, str c with | some s, some t, some c => some (.stcol s t c) | _, _, _ => none
  | .list [.atom "star"] => some .star
  | .list [.atom "tstar", t] => (str t).map .tstar
  | _ => none

def toOp : Sexp → Option Op
  | .atom a => a.toNat?.map .std
  | .list [.atom "cu", s] => (str s).map .custom
  | _ => none

def toFn : Sexp → Option Fn
  | .list [.atom "f", i] => (nat i).map .std
  | .list [.atom "fc", n] => (str n).map .custom
  | .list [.atom "fp", i] => (nat i).map .pg
  | _ => none

def toFlags : Sexp → Option (List Bool)
  | .atom "-" => some []
  | .atom a => some (a.toList.map (· == '1'))
  | _ => none

def toKw : Sexp → Option Kw
  | .atom "null" => some .null
  | .atom "cd" => some .currentDate
  | .atom "ct" => some .currentTime
  | .atom "cts" => some .currentTimestamp
  | .list [.atom "cu", s] => (str s).map .custom
  | _ => none

def toSubOp : Sexp → Option (Option SubOp)
  | .atom "-" => some none
  | .atom "exists" => some (some .exists)
  | .atom "any" => some (some .any)
  | .atom "some" => some (some .some)
  | .atom "all" => some (some .all)
  | _ => none

def toBound : Sexp → Option Bound
  | .atom "up" => some .unboundedPreceding
  | .atom "cr" => some .currentRow
  | .atom "uf" => some .unboundedFollowing
  | .list [.atom "p", n] => (nat n).map .preceding
  | .list [.atom "f", n] => (nat n).map .following
  | _ => none

def toFrame : Sexp → Option (Option Frame)
  | .atom "-" => some none
  | .list [.atom "fr", rows, st, .atom "-"] =>
    match bool rows, toBound st with | some r, some s => some (some ⟨r, s, none⟩) | _, _ => none
  | .list [.atom "fr", rows, st, en] =>
    match bool rows, toBound st, toBound en with | some r, some s, some e => some (some ⟨r, s, some e⟩) | _, _, _ => none
  | _ => none

def toOrderKind : Sexp → Option OrderKind
  | .atom "asc" => some .asc
  | .atom "desc" => some .desc
  | .list (.atom "field" :: vs) => (mapM' toVal vs).map .field
  | _ => none

def toNulls : Sexp → Option (Option Bool)
  | .atom "-" => some none
  | .atom "first" => some (some true)
  | .atom "last" => some (some false)
  | _ => none

def toDistinct : Sexp → Option (Option Distinct)
  | .atom "-" => some none
  | .atom "all" => some (some .all)
  | .atom "distinct" => some (some .distinct)
  | .atom "row" => some (some .distinctRow)
  | .list (.atom "on" :: cs) => (mapM' toColRef cs).map (fun cs => some (.distinctOn cs))
  | _ => none

def toHint : Sexp → Option Hint
  | .list [.atom "h", n, t, s] => match str n, nat t, nat s with | some n, some t, some s => some ⟨n, t, s⟩ | _, _, _ => none
  | _ => none

def toSample : Sexp → Option (Option Sample)
  | .atom "-" => some none
  | .list [.atom "s", m, p, r] =>
    match nat m, str p, optStr r with | some m, some p, some r => some (some ⟨m, p, r⟩) | _, _, _ => none
  | _ => none

def toTName : Sexp → Option TName
  | .list [.atom "t", .list parts, a] =>
    match mapM' str parts, optStr a with | some ps, some a => some ⟨ps, a⟩ | _, _ => none
  | _ => none

def toLock : Sexp → Option (Option Lock)
  | .atom "-" => some none
  | .list [.atom "l", t, .list tables, b] =>
    match nat t, mapM' toTName tables, (match b with | .atom "-" => some none | x => (nat x).map some) with
    | some t, some ts, some b => some (some ⟨t, ts, b⟩)
    | _, _, _ => none
  | _ => none

mutual
  partial def toEx : Sexp → Option Ex
    | .list [.atom "col", c] => (toColRef c).map .col
    | .list (.atom "tuple" :: es) => (toExL es).map .tuple
    | .list [.atom "not", e] => (toEx e).map .unary
    | .list (.atom "fn" :: f :: fl :: es) =>
      match toFn f, toFlags fl, toExL es with | some f, some fl, some es => some (.func f fl es) | _, _, _ => none
    | .list [.atom "bin", l, o, r] =>
      match toEx l, toOp o, toEx r with | some l, some o, some r => some (.bin l o r) | _, _, _ => none
    | .list [.atom "subq", o, q] =>
      match toSubOp o, toQuery q with | some o, some q => some (.subq o q) | _, _ => none
    | .list [.atom "val", v] => (toVal v).map .value
    | .list (.atom "vals" :: vs) => (mapM' toVal vs).map .values
    | .list [.atom "cust", s] => (str s).map .cust
    | .list (.atom "custw" :: t :: es) =>
      match str t, toExL es with | some t, some es => some (.custWith t es) | _, _ => none
    | .list [.atom "kw", k] => (toKw k).map .keyword
    | .list [.atom "enum", t, e] => match str t, toEx e with | some t, some e => some (.asEnum t e) | _, _ => none
    | .list [.atom "case", .list whens, .atom "-"] => (toCases whens).map (fun w => .case w none)
    | .list [.atom "case", .list whens, e] =>
      match toCases whens, toEx e with | some w, some e => some (.case w (some e)) | _, _ => none
    | .list [.atom "const", v] => (toVal v).map .const
    | _ => none
  partial def toExL : List Sexp → Option ExList
    | [] => some .nil
    | x :: xs => match toEx x, toExL xs with | some e, some es => some (.cons e es) | _, _ => none
  partial def toCases : List Sexp → Option CaseList
    | [] => some .nil
    | .list [.atom "w", c, e] :: xs =>
      match toCond c, toEx e, toCases xs with | some c, some e, some r => some (.cons c e r) | _, _, _ => none
    | _ => none
  partial def toCond : Sexp → Option Cond
    | .list (.atom "cond" :: n :: a :: items) =>
      match bool n, bool a, toItems items with | some n, some a, some it => some (.mk n a it) | _, _, _ => none
    | _ => none
  partial def toItems : List Sexp → Option CondItems
    | [] => some .nil
    | x@(.list (.atom "cond" :: _)) :: xs =>
      match toCond x, toItems xs with | some c, some r => some (.consC c r) | _, _ => none
    | x :: xs => match toEx x, toItems xs with | some e, some r => some (.consE e r) | _, _ => none
  partial def toHolder : Sexp → Option Holder
    | .atom "-" => some .empty
    | .list (.atom "chain" :: xs) => (toChain xs).map .chain
    | x => (toCond x).map .cond
  partial def toChain : List Sexp → Option ChainList
    | [] => some .nil
    | .list [.atom "and", e] :: xs => match toEx e, toChain xs with | some e, some r => some (.cons false e r) | _, _ => none
    | .list [.atom "or", e] :: xs => match toEx e, toChain xs with | some e, some r => some (.cons true e r) | _, _ => none
    | _ => none
  partial def toQuery : Sexp → Option Query
    | x@(.list (.atom "sel" :: _)) => (toSelect x).map .sel
    | x@(.list (.atom "ins" :: _)) => (toInsert x).map .ins
    | x@(.list (.atom "upd" :: _)) => (toUpdate x).map .upd
    | x@(.list (.atom "del" :: _)) => (toDelete x).map .del
    | .list [.atom "with", w, q] => match toWith w, toQuery q with | some w, some q => some (.withq w q) | _, _ => none
    | _ => none
  partial def toOptWith : Sexp → Option (Option WithClause)
    | .atom "-" => some none
    | x => (toWith x).map some
  partial def toSelect : Sexp → Option Select
    | .list [.atom "sel", w, di, .list sels, .list fr, .list hints, sa, .list joins, wh, .list groups, hv,
             .list unions, .list orders, li, off, lk, wn] =>
      match toOptWith w, toDistinct di, toSelList sels, toTRefs fr, mapM' toHint hints, toSample sa, toJoins joins,
            toHolder wh, toExL groups, toHolder hv, toUnions unions, toOrders orders, optVal li, optVal off, toLock lk,
            toNamedWindow wn with
      | some w, some di, some sels, some fr, some hints, some sa, some joins, some wh, some groups, some hv,
        some unions, some orders, some li, some off, some lk, some (wname, wn) =>
        some (.mk w di sels fr hints sa joins wh groups hv unions orders li off lk wname wn)
      | _, _, _, _, _, _, _, _, _, _, _, _, _, _, _, _ => none
    | _ => none
  partial def toNamedWindow : Sexp → Option (String × Option Window)
    | .atom "-" => some ("", none)
    | .list [.atom "w", n, w] => match str n, toWindow w with | some n, some w => some (n, some w) | _, _ => none
    | _ => none
  partial def toSelList : List Sexp → Option SelList
    | [] => some .nil
    | .list [.atom "si", e, win, a] :: xs =>
      match toEx e, toWinSel win, optStr a, toSelList xs with
      | some e, some win, some a, some r => some (.cons e win a r)
      | _, _, _, _ => none
    | _ => none
  partial def toWinSel : Sexp → Option WinSel
    | .atom "-" => some .none
    | .list [.atom "n", n] => (str n).map .name
    | .list [.atom "q", w] => (toWindow w).map .query
    | _ => none
  partial def toWindow : Sexp → Option Window
    | .list [.atom "win", .list part, .list orders, fr] =>
      match toExL part, toOrders orders, toFrame fr with | some p, some o, some f => some (.mk p o f) | _, _, _ => none
    | _ => none
  partial def toOrders : List Sexp → Option OrderList
    | [] => some .nil
    | .list [.atom "o", e, k, n] :: xs =>
      match toEx e, toOrderKind k, toNulls n, toOrders xs with
      | some e, some k, some n, some r => some (.cons e k n r)
      | _, _, _, _ => none
    | _ => none
  partial def toTRef : Sexp → Option TRef
    | x@(.list (.atom "t" :: _)) => (toTName x).map .named
    | .list [.atom "tsub", s, a] => match toSelect s, str a with | some s, some a => some (.subq s a) | _, _ => none
    | .list (.atom "tvals" :: a :: rows) =>
      match str a, mapM' (fun r => match r with | .list (.atom "r" :: vs) => mapM' toVal vs | _ => none) rows with
      | some a, some rows => some (.valuesList rows a)
      | _, _ => none
    | .list (.atom "tfn" :: f :: fl :: a :: es) =>
      match toFn f, toFlags fl, str a, toExL es with
      | some f, some fl, some a, some es => some (.func f fl es a)
      | _, _, _, _ => none
    | _ => none
  partial def toOptTRef : Sexp → Option (Option TRef)
    | .atom "-" => some none
    | x => (toTRef x).map some
  partial def toTRefs : List Sexp → Option TRefList
    | [] => some .nil
    | x :: xs => match toTRef x, toTRefs xs with | some t, some r => some (.cons t r) | _, _ => none
  partial def toJoins : List Sexp → Option JoinList
    | [] => some .nil
    | .list [.atom "j", ty, lat, t, on] :: xs =>
      match nat ty, bool lat, toTRef t, toHolder on, toJoins xs with
      | some ty, some lat, some t, some on, some r => some (.cons ty lat t on r)
      | _, _, _, _, _ => none
    | _ => none
  partial def toUnions : List Sexp → Option UnionList
    | [] => some .nil
    | .list [.atom "u", ty, s] :: xs =>
      match nat ty, toSelect s, toUnions xs with | some ty, some s, some r => some (.cons ty s r) | _, _, _ => none
    | _ => none
  partial def toWith : Sexp → Option WithClause
    | .list (.atom "wc" :: rec :: sb :: se :: sa :: ce :: cs :: cu :: ctes) =>
      match bool rec, bool sb, toOptEx se, str sa, toOptEx ce, str cs, str cu, toCtes ctes with
      | some rec, some sb, some se, some sa, some ce, some cs, some cu, some ctes => some (.mk rec sb se sa ce cs cu ctes)
      | _, _, _, _, _, _, _, _ => none
    | _ => none
  partial def toOptEx : Sexp → Option (Option Ex)
    | .atom "-" => some none
    | x => (toEx x).map some
  partial def toCtes : List Sexp → Option CteList
    | [] => some .nil
    | .list [.atom "cte", n, .list cols, mat, q] :: xs =>
      match str n, mapM' str cols, (match mat with | .atom "-" => some none | m => (bool m).map some), toQuery q, toCtes xs with
      | some n, some cols, some mat, some q, some r => some (.cons n cols mat q r)
      | _, _, _, _, _ => none
    | _ => none
  partial def toInsert : Sexp → Option Insert
    | .list [.atom "ins", w, rep, t, .list cols, src, oc, ret, dv] =>
      match toOptWith w, bool rep, toOptTRef t, mapM' str cols, toSource src, toOptOnConflict oc, toReturning ret,
            (match dv with | .atom "-" => some none | n => (nat n).map some) with
      | some w, some rep, some t, some cols, some src, some oc, some ret, some dv => some (.mk w rep t cols src oc ret dv)
      | _, _, _, _, _, _, _, _ => none
    | _ => none
  partial def toSource : Sexp → Option InsSource
    | .atom "-" => some .none
    | .list (.atom "values" :: rows) => (toRows rows).map .values
    | .list [.atom "select", s] => (toSelect s).map .select
    | _ => none
  partial def toRows : List Sexp → Option RowList
    | [] => some .nil
    | .list (.atom "r" :: es) :: xs => match toExL es, toRows xs with | some e, some r => some (.cons e r) | _, _ => none
    | _ => none
  partial def toOptOnConflict : Sexp → Option (Option OnConflict)
    | .atom "-" => some none
    | .list [.atom "oc", .list targets, tw, act, aw] =>
      match toTargets targets, toHolder tw, toAction act, toHolder aw with
      | some t, some tw, some a, some aw => some (some (.mk t tw a aw))
      | _, _, _, _ => none
    | _ => none
  partial def toTargets : List Sexp → Option TargetList
    | [] => some .nil
    | .list [.atom "tc", c] :: xs => match str c, toTargets xs with | some c, some r => some (.col c r) | _, _ => none
    | .list [.atom "te", e] :: xs => match toEx e, toTargets xs with | some e, some r => some (.expr e r) | _, _ => none
    | _ => none
  partial def toAction : Sexp → Option Action
    | .atom "-" => some .none
    | .list (.atom "nothing" :: pk) => (mapM' str pk).map .doNothing
    | .list (.atom "update" :: us) => (toUpds us).map .update
    | _ => none
  partial def toUpds : List Sexp → Option UpdList
    | [] => some .nil
    | .list [.atom "uc", c] :: xs => match str c, toUpds xs with | some c, some r => some (.col c r) | _, _ => none
    | .list [.atom "ue", c, e] :: xs =>
      match str c, toEx e, toUpds xs with | some c, some e, some r => some (.expr c e r) | _, _, _ => none
    | _ => none
  partial def toReturning : Sexp → Option Returning
    | .atom "-" => some .none
    | .atom "all" => some .all
    | .list (.atom "cols" :: cs) => (mapM' toColRef cs).map .cols
    | .list (.atom "exprs" :: es) => (toExL es).map .exprs
    | _ => none
  partial def toUpdate : Sexp → Option Update
    | .list [.atom "upd", w, t, .list sets, wh, .list orders, li, ret, .list fr] =>
      match toOptWith w, toOptTRef t, toSets sets, toHolder wh, toOrders orders, optVal li, toReturning ret, toTRefs fr with
      | some w, some t, some sets, some wh, some o, some li, some ret, some fr => some (.mk w t sets wh o li ret fr)
      | _, _, _, _, _, _, _, _ => none
    | _ => none
  partial def toSets : List Sexp → Option SetList
    | [] => some .nil
    | .list [.atom "set", c, e] :: xs =>
      match str c, toEx e, toSets xs with | some c, some e, some r => some (.cons c e r) | _, _, _ => none
    | _ => none
  partial def toDelete : Sexp → Option Delete
    | .list [.atom "del", w, t, wh, .list orders, li, ret] =>
      match toOptWith w, toOptTRef t, toHolder wh, toOrders orders, optVal li, toReturning ret with
      | some w, some t, some wh, some o, some li, some ret => some (.mk w t wh o li ret)
      | _, _, _, _, _, _ => none
    | _ => none
end

def hexOf (s : List Char) : String := (encodeStr s).drop 2 |>.toString

def showVal (v : Val) : String :=
  v.ty ++ "/" ++
    (match v.v with
     | .null => "null"
     | .bool b => if b then "b1" else "b0"
     | .int i => "i" ++ toString i
     | .num t => "n" ++ hexOf t.toList
     | .str s => "s" ++ hexOf s
     | .bytes b => "y" ++ hexEncode (ByteArray.mk b.toArray)
     | .quoted t => "q" ++ hexOf t.toList)

def backendOf : String → Option Backend
  | "mysql" => some .mysql | "postgres" => some .postgres | "sqlite" => some .sqlite | _ => none

/-- `stmt <backend> <recipe>` → `ok <param text> [values] <inline text>` | `panic` -/
def run (s : String) : String :=
  match s.splitOn " " with
  | b :: rest =>
    match backendOf b, readSexp (" ".intercalate rest) with
    | some d, some sx =>
      (match toQuery sx with
       | some q =>
         let ps := rQuery d q
         if panics ps then "panic"
         else
           let (t, vs) := textP d ps
           -- `safe`: the hypothesis of the C01 / C02 theorems, evaluated on this rendering (both writers)
           let fl (b : Bool) := if b then "1" else "0"
           "ok " ++ encodeStr t ++ " [" ++ ",".intercalate (vs.map showVal) ++ "] " ++ encodeStr (textI d ps) ++
             " safe:" ++ fl (SeaQ.Scan.safe d false false 0 ps) ++ fl (SeaQ.Scan.safe d true false 0 ps) ++
             -- `content`: the hypothesis of `render_safe` (then `safe` is a theorem, not an evaluation)
             " content:" ++ fl (ps.all (SeaQ.Scan.contentOK d false)) ++ fl (ps.all (SeaQ.Scan.contentOK d true))
       | none => "bad-op")
    | _, _ => "bad-op"
  | _ => "bad-op"

end Driver.Stmt
