import SeaQ.Model.Util
import SeaQ.Model.ValueEq
/-! Driver glue for C18: `veq <v> <w>` → model equality and hash-key equality. -/
namespace Driver.VEq
open SeaQ.Util SeaQ.ValueEq

def natOf (s : String) : Option Nat := s.toNat?

def toF : Sexp → Option F
  | .list [.atom "nan", .atom p, .atom n] => (natOf p).map (fun p => F.nan p (n == "1"))
  | .list [.atom "zero", .atom n] => some (F.zero (n == "1"))
  | .list [.atom "num", .atom b] => (natOf b).map F.num
  | _ => none

def allSome {α} : List (Option α) → Option (List α)
  | [] => some []
  | some x :: r => (allSome r).map (x :: ·)
  | none :: _ => none

mutual
  partial def toVal : Sexp → Option Val
    | .list [.atom "p", .atom t, .atom "n"] => (natOf t).map (fun t => Val.plain t none)
    | .list [.atom "p", .atom t, .atom c] => match natOf t, natOf c with
      | some t, some c => some (Val.plain t (some c)) | _, _ => none
    | .list [.atom "f", .atom t, .atom "n"] => (natOf t).map (fun t => Val.flt t none)
    | .list [.atom "f", .atom t, x] => match natOf t, toF x with
      | some t, some f => some (Val.flt t (some f)) | _, _ => none
    | .list [.atom "j", .atom "n"] => some (Val.json none)
    | .list [.atom "j", .atom c] => (natOf c).map (fun c => Val.json (some c))
    | .list [.atom "v", .atom "n"] => some (Val.vector none)
    | .list (.atom "v" :: .atom "l" :: xs) => (allSome (xs.map toF)).map (fun l => Val.vector (some l))
    | .list [.atom "a", .atom ty, .atom "n"] => (natOf ty).map (fun ty => Val.array ty none)
    | .list (.atom "a" :: .atom ty :: .atom "l" :: xs) => match natOf ty, toVList xs with
      | some ty, some l => some (Val.array ty (some l)) | _, _ => none
    | _ => none
  partial def toVList : List Sexp → Option VList
    | [] => some .nil
    | x :: xs => match toVal x, toVList xs with
      | some v, some l => some (.cons v l) | _, _ => none
end

mutual
  partial def hkEq : HK → HK → Bool
    | .plain t p, .plain t' p' => t == t' && p == p'
    | .flt t k, .flt t' k' => t == t' && k == k'
    | .json p, .json p' => p == p'
    | .vector k, .vector k' => k == k'
    | .array ty none, .array ty' none => ty == ty'
    | .array ty (some l), .array ty' (some l') => ty == ty' && hkListEq l l'
    | _, _ => false
  partial def hkListEq : List HK → List HK → Bool
    | [], [] => true
    | a :: as, b :: bs => hkEq a b && hkListEq as bs
    | _, _ => false
end

def run (s : String) : String :=
  match readSexp ("(" ++ s ++ ")") with
  | some (.list [a, b]) =>
    match toVal a, toVal b with
    | some v, some w => s!"eq {if valueEq v w then 1 else 0} hk {if hkEq (hashKey v) (hashKey w) then 1 else 0}"
    | _, _ => "bad-op"
  | _ => "bad-op"

end Driver.VEq
