"""Per-property configuration for bin/check and bin/manifest."""

PROPS = {}

PROPS["C16"] = dict(
    groups=["token"],
    lean_props=["SeaQ.Props.C16"],
    lean_obligations=["SeaQ.Lemmas.TokenTables"],
    technique="Lean 4 proof (induction on the input / on quoted units) over a model of src/token.rs whose character-class tables are regenerated from the source; model tied by exhaustive + random differential run against the real Tokenizer",
    level_text="Machine-checked proof, for every string and every alphabetic predicate, that the tokenizer model is lossless, yields only non-empty tokens, terminates within |s| steps, and scans delimiter·units·delimiter as exactly one Quoted token (so a mark inside quotes is never punctuation). The class tables are regenerated from src/token.rs on every run (table side conditions re-proved by decide); the hand-modelled control flow is compared with the real Tokenizer on all strings over a 14-symbol alphabet up to length 5 (quick) / 6 (thorough) plus random Unicode.",
    level_note="Trusted: Lean kernel (+propext, Quot.sound); the syn-based translator for the character classes; the differential run for the loops of space/unquoted/quoted/punctuation/next/unquote (modelled, not verified); Rust's char::is_alphabetic enters only as a parameter (theorems hold for any predicate; the harness passes the real classification of the characters in each case).",
    design_ref="§6 C16",
    scope="all strings (unbounded), all alphabetic predicates",
    assumptions=["the quote characters are not alphabetic (hypothesis hα of quoted_one_token; true of Rust's is_alphabetic, checked on every differential case)"],
)

PROPS["C17"] = dict(
    groups=["escape"],
    lean_props=["SeaQ.Props.C17"],
    lean_obligations=[],
    technique="Lean 4 proof (per-character map lemma + induction) over replacement chains and the unescape table regenerated from src/backend/mod.rs and the backend overrides; str::replace and the unescape loop tied by exhaustive + random differential run",
    level_text="Machine-checked proof that unescape(escape(s)) = s for every string on all three backends. The nine sequential .replace calls, the unescape match arms and the SQLite overrides are regenerated from the source on every run; the decidable side condition (pairOK: the chain acts as one per-character map whose images the unescape loop decodes) is re-proved by decide on the regenerated tables, so reordering the chain or adding a one-sided escape breaks the proof.",
    level_note="Trusted: Lean kernel; translator; the model of str::replace (one- and two-character patterns) and of the unescape loop, both compared with the real crate on all strings over a 17-symbol escape-relevant alphabet up to length 4 (quick) / 5 (thorough) x 3 backends plus random Unicode.",
    design_ref="§6 C17",
    scope="all strings (unbounded) x {mysql, postgres, sqlite}",
)
