"""Per-property configuration for bin/check and bin/manifest."""

PROPS = {}

# Every translated table is ALSO tied to the code by the correspondence run of each property that uses it (tokenizer
# differential, escape / quote round trips, value pools, take / clear histories, the rustc probe, the DDL engine and grammar
# stages, the statement correspondence, derived types x quotes).  When the source no longer fits a translator's small Rust
# subset (a harmless rewrite does that as easily as a harmful one), the committed table is restored, the run says so in its
# evidence, the correspondence of that run is escalated to the thorough tier, and its verdict decides.  When the translator
# succeeds, the theorems are re-checked against the regenerated table as before, and a proof that no longer checks is a
# broken obligation.
GROUP_FILES = {"token": ["Token.lean"], "escape": ["Escape.lean"], "quote": ["Quote.lean"], "hashable": ["Hashable.lean"],
               "take": ["Take.lean"], "types": ["Types.lean", "types.list"], "coltypes": ["ColTypes.lean"],
               "derive": ["ValidIden.lean"], "spell": ["Spell.lean"], "clauses": ["Clauses.lean"]}
SOFT_GROUPS = set(GROUP_FILES)

PROPS["C16"] = dict(
    groups=["token"],
    lean_props=["SeaQ.Props.C16"],
    lean_obligations=["SeaQ.Lemmas.TokenTables"],
    technique="Lean 4 proof (induction on the input / on quoted units) over a model of src/token.rs whose character-class tables are regenerated from the source; model tied by exhaustive + random differential run against the real Tokenizer",
    level_text="Machine-checked proof, for every string and every alphabetic predicate, that the tokenizer model is lossless, yields only non-empty tokens, terminates within |s| steps, and scans delimiter·units·delimiter as exactly one Quoted token (so a mark inside quotes is never punctuation). The class tables are regenerated from src/token.rs on every run (table side conditions re-proved by decide); the hand-modelled control flow is compared with the real Tokenizer on all strings over a 14-symbol alphabet and over the 13 characters SQL comments / casts / dollar quotes are made of, up to length 5 (quick) / 6 (thorough), plus random Unicode with special code points (BOM, NUL, Unicode spaces, separators) at the edges.",
    level_note="Trusted: Lean kernel (+propext, Quot.sound); the syn-based translator for the character classes; the differential run for the loops of space/unquoted/quoted/punctuation/next/unquote (modelled, not verified); Rust's char::is_alphabetic enters only as a parameter (theorems hold for any predicate; the harness passes the real classification of the characters in each case).",
    design_ref="§6 C16",
    scope="all strings (unbounded), all alphabetic predicates",
    assumptions=["the quote characters are not alphabetic (hypothesis hα of quoted_one_token; true of Rust's is_alphabetic, checked on every differential case)"],
)

PROPS["C17"] = dict(
    groups=["escape"],
    lean_props=["SeaQ.Props.C17"],
    lean_obligations=[],
    technique="Lean 4 proof (per-character map lemma + induction) over replacement chains and the unescape table regenerated from src/backend/mod.rs and the backend overrides; str::replace and the unescape loop tied by exhaustive + random differential run",
    level_text="Machine-checked proof that unescape(escape(s)) = s for every string on all three backends. The nine sequential .replace calls, the unescape match arms and the SQLite overrides are regenerated from the source on every run; the decidable side condition (pairOK: the chain acts as one per-character map whose images the unescape loop decodes) is re-proved by decide on the regenerated tables, so reordering the chain or adding a one-sided escape breaks the proof.",
    level_note="Trusted: Lean kernel; translator; the model of str::replace (one- and two-character patterns) and of the unescape loop, both compared with the real crate on all strings over a 17-symbol escape-relevant alphabet up to length 4 (quick) / 5 (thorough) x 3 backends plus random Unicode.",
    design_ref="§6 C17",
    scope="all strings (unbounded) x {mysql, postgres, sqlite}",
)

PROPS["C03"] = dict(
    groups=["escape"],
    lean_props=["SeaQ.Props.C03"],
    lean_obligations=[],
    technique="Lean 4 proof that the engines' literal lexers (specification) read back what the model of write_string_quoted / write_bytes / Value::Char writes, over escape tables regenerated from the source; writers tied by exhaustive + random differential run; every inlining position checked on the real crate with an independent reference lexer",
    level_text="Machine-checked proof, for every string (minus the explicitly excluded characters), every byte string and every character, that the literal the crate writes is read by the target engine's lexer as ONE literal whose decoded content is the supplied value and that the lexer stops exactly where the crate stopped writing (no early termination = no injection). The MySQL / Postgres (E'' switch, bytea hex) / SQLite lexers are the specification; the escape chain is regenerated from the source and the per-dialect side condition re-proved by decide. 'Every position' (query values, constants, ORDER BY FIELD, LIKE ESCAPE, INSERT, DEFAULT, COMMENT, ENUM labels, CREATE/ALTER TYPE) is checked on the real crate's output with an independent Rust re-implementation of the three lexers.",
    level_note="Trusted: Lean kernel; translator; the three literal lexers as transcribed from the engines' manuals (SQLite's validated against the real engine in the C07/C13 engine runs; MySQL/Postgres cannot be validated here); differential run for write_string_quoted/write_bytes/Char arm (modelled, not verified). U+001A (written `\\z`) is a recorded finding and excluded in the theorem statement for MySQL/Postgres; NUL is excluded for Postgres (no representation).",
    design_ref="§6 C03",
    scope="all strings / byte strings / chars x 3 backends (writer level); positions by oracle",
)

PROPS["C04"] = dict(
    groups=["quote"],
    lean_props=["SeaQ.Props.C04"],
    lean_obligations=[],
    technique="Lean 4 proof (induction on the name) that the engine's quoted-identifier lexer reads back Iden::prepare's output, for the QUOTE constants regenerated from the source; Iden::prepare tied by exhaustive + random differential run; every identifier position checked on the real crate by a metamorphic oracle under an independent reference lexer",
    level_text="Machine-checked proof, for every name (any Unicode string, including quote characters and the empty name) and every backend, that the crate's quoting is read by the engine's identifier lexer as ONE identifier token decoding to exactly the name, stopping at the closing quote the crate wrote. The quote characters are regenerated from the backends' QUOTE constants. Every identifier position of ~25 query and schema statement templates (incl. index / constraint / FK names, type names, the enum-cast type) is checked on the real crate: the token stream with nasty names must equal the plain-name token stream name for name.",
    level_note="Trusted: Lean kernel; translator (QUOTE constants); the identifier lexers as specified (doubling the closing quote is the only escape in MySQL backtick and Postgres/SQLite double-quote identifiers); differential run for Iden::quoted/prepare; the position templates (a position not in a template is not seen; the derive macro's fast path is C19).",
    design_ref="§6 C04",
    scope="all names x 3 backends (quoting level); positions by metamorphic oracle",
)

PROPS["C06"] = dict(
    groups=["token", "escape", "quote", "spell"],
    lean_props=["SeaQ.Props.C06", "SeaQ.Props.C06Stmt"],
    lean_obligations=[],
    technique="Lean 4 proof (mutual structural induction over condition trees, list induction over call histories, Kleene-logic case analysis) over a hand-written model of Condition::add/not/add_option/to_simple_expr and ConditionHolder::add_condition; model tied by comparing the parse tree of the rendered predicate with the model's expression on bounded-exhaustive and random histories; 3-valued truth-table oracle on the real crate",
    level_text="Machine-checked proof, for every condition tree (any depth/width, every negate flag, empty groups, optional members) and every history of condition-adding calls, that what the holder renders is equivalent under SQL three-valued logic to the AND of the supplied conditions (any = OR, empty any = FALSE, all = AND, empty all = TRUE, negated = NOT), and that no predicate is rendered iff no condition was given. Every rewrite the builder performs while adding (single-member unwrapping, all+all merging, wrapping) is inside the theorem. Carried over to the statement renderer (Props/C06Stmt): for every condition tree and dialect the statement model's condition renderer is the expression renderer applied to to_simple_expr, which is the expression the abstract model evaluates.",
    level_note="Trusted: Lean kernel; the hand-written model of the five functions in src/query/condition.rs (modelled, not verified: tied by the differential run through 16 statement positions (WHERE / HAVING / ON of every join type / CASE WHEN / UPDATE .. FROM / ON CONFLICT) x 3 backends, comparing the *parse tree* of the rendered predicate under an independent SQL predicate parser with the model's tree); Kleene's K3 as the meaning of SQL AND/OR/NOT; the chain mode (doc-hidden and_or_where) is not modelled.",
    design_ref="§6 C06",
    scope="all condition trees x all call histories x all 3-valued assignments",
)

PROPS["C10"] = dict(
    groups=["token", "escape", "quote", "spell"],
    lean_props=["SeaQ.Props.C10", "SeaQ.Props.C10Stmt"],
    lean_obligations=[],
    technique="Lean 4 proof (invariant by induction over call histories) over a hand-written state-machine model of InsertStatement::columns/values/select_from/or_default_values and the branch structure of prepare_insert_statement; model tied by ALL call histories up to length 4/5 plus random longer ones against the real crate (outcomes, == after rejection, INSERT shape parsed back from the SQL on 3 backends)",
    level_text="Machine-checked proof, for every state and every row, that values()/select_from() succeed iff the lengths match, that a mismatch returns the error with both counts and leaves the state unchanged, that accepted rows are appended in call order and rejected rows leave no trace, and — by induction over arbitrary call histories — that every stored row matches the column list unless columns() is re-declared with a different count over stored rows (that exception is a recorded finding: rect_counterexample, reproduced on the real crate each run). Carried over to the statement renderer (Props/C10Stmt): the INSERT body the statement model writes is chosen exactly as the abstract branch function says, and under the invariant every VALUES tuple has as many expressions as the column list has names.",
    level_note="Trusted: Lean kernel; the hand-written model of the five builder calls and of the DEFAULT VALUES / VALUES / SELECT branch (modelled, not verified: tied exhaustively on all histories of length <= 4 (quick) / 5 (thorough) over 18 calls, on 3 backends); cells and columns are abstract ids. values_from_panic is values_panic repeated.",
    design_ref="§6 C10",
    scope="all call histories, all row lengths; full rectangularity only under NoRecount (finding)",
)

PROPS["C05"] = dict(
    groups=[],
    pregen=[("gen-policy", "SeaQ/Gen/Policy.lean")],
    lean_props=["SeaQ.Props.C05"],
    lean_obligations=["SeaQ.Lemmas.PrattRound", "SeaQ.Lemmas.PrattBridge"],
    technique="Lean 4 proof: generic print/parse round trip for a precedence-climbing grammar with prefix NOT, non-associative levels, mixfix BETWEEN/LIKE..ESCAPE and delimited constructs (induction on expression size, fuel monotonicity), plus a bridge reducing licensing of all trees to a finite obligation on (dialect table, policy cells) decided by kernel evaluation on cells observed exhaustively from the current crate; printer tied by differential token-stream comparison; independent reference parser as oracle",
    level_text="Machine-checked proof that every well-formed expression tree (any depth; NOT, every binary operator incl. Postgres/SQLite extension and custom operators, the nested-binary encodings of BETWEEN..AND and LIKE..ESCAPE, function calls, tuples, CASE, CAST, sub-selects) printed with the crate's parenthesis policy re-parses, under the dialect's binding powers / non-associativity / mixfix forms, to exactly the tree that was built. The policy is not copied: it is observed from the compiled crate on every run for every (outer operator, child kind, side, backend) and the finite licensing obligation is re-decided by the kernel, so a policy change that is licensed stays green and one that is not breaks the proof and is turned into a concrete expression. All three dialects in full (the MySQL exception — a bare arithmetic pattern after LIKE — was repaired in sea-query: fix 03bd74c).",
    level_note="Trusted: Lean kernel; the three dialect tables (Model/Dialects.lean, transcribed from the engines' grammars; Postgres' b_expr lower bound of BETWEEN is approximated by a stricter threshold); the observation that the crate's policy depends only on (outer operator, child kind, side) — validated by the random-tree differential run (model printing vs crate rendering, token for token); option-more-parentheses only removes drops (checked in the thorough tier by a second build). AsEnum (transparent on MySQL/SQLite) and the empty-IN rewrite are outside the Lean model and covered by the reference-parser oracle only.",
    design_ref="§6 C05",
    scope="all well-formed trees x 3 dialect tables; policy cells exhaustive",
    timeout=3000,
)

PROPS["C12"] = dict(
    groups=[],
    pregen=[("gen-values", "SeaQ/Gen/Values.lean")],
    lean_props=["SeaQ.Props.C12"],
    lean_obligations=[],
    technique="Lean 4: payload-parametric model of Value conversions; the finite wiring table (which variant each From / Nullable / try_from / as_null / dummy_value / tuple impl uses) is observed from the compiled crate on every run and the consistency obligations are decided by the kernel; value-level round trips (exhaustive 8/16-bit, boundaries, float bit patterns, chars, feature types) are tests run beside the theorems",
    level_text="Machine-checked: for every type whose observed wiring row is consistent (own variant accepted and only that, NULL of the same variant) the round trip, the Option<T> laws (None becomes that NULL and extracts as None; a present value never extracts as absent), failure on every other variant, tuple arity/shape/extraction rules and as_null/dummy_value variant preservation hold for EVERY payload. The consistency of all 38 observed rows x 32 variants is decided by `decide` on the table regenerated from the running crate (all features incl. hashable-value equality). Identity of payload-transforming impls and bit-exactness of floats are tested, not proved.",
    level_note="Trusted: Lean kernel; the observation harness (tags via an exhaustive match on Value; one non-null + one NULL sample per variant for acceptance); opaque payloads: that try_from returns the stored payload unchanged is a test (all 8/16-bit integers, boundaries, random 32/64-bit, f32/f64 by bits, chars, strings, bytes, JSON, chrono/time/decimal/uuid/network types). A type added to the crate but not to the harness's type list is not seen.",
    design_ref="§6 C12",
    scope="wiring: all listed types x all variants (exhaustive); values: tests",
)

PROPS["C18"] = dict(
    groups=["hashable"],
    lean_props=["SeaQ.Props.C18"],
    lean_obligations=[],
    technique="Lean 4 proof (mutual structural induction over values and nested arrays) that the modelled Value equality is an equivalence, separates variants, and that equal values have equal hash keys; the arm tables of PartialEq / Hash and the helper bodies are regenerated from src/value.rs by the translator and checked by decide; model tied by all pairs over a value pool against the real == and a fixed hasher",
    level_text="Machine-checked proof, for all payloads (every NaN payload and sign, both zeros, vectors of any length, arbitrarily nested arrays), that Value equality is reflexive (also for NaN), symmetric and transitive, that values of different variants are never equal, and that equal values feed the hasher equal keys (hence hash equally under every hasher), also for value tuples. Which helper each variant uses for == and for hash is extracted from the source on every run; `arms_ok` requires one diagonal equality arm and a hash arm of the same kind per variant and the helper bodies to be the modelled ones.",
    level_note="Trusted: Lean kernel; translator; the reading of ordered-float 4.6 (eq: both NaN or IEEE-equal; hash: canonical NaN, canonical zero, raw bits) and IEEE equality of non-NaN values as 'same bits or both zero'; derived ==/Hash of payload types (std, chrono, time, uuid, decimal …) are coherent; serde_json::to_string is a function. The model's valueEq is compared with the real == on all ordered pairs of a 150-250-value pool, all triples are checked for transitivity on the real ==.",
    design_ref="§6 C18",
    scope="all values (unbounded payloads / nesting); wiring: all variants",
)

PROPS["C15"] = dict(
    groups=["take"],
    lean_props=["SeaQ.Props.C15"],
    lean_obligations=[],
    technique="Lean 4: record model of take()/clear()/clone over per-struct field-action tables regenerated from the source (every struct with a take(); the clear/reset bodies); table predicates (every field listed once with a value-preserving action, no `..` rest, all moves for query statements, each clearer empties exactly its field) decided by the kernel and lifted to all states by parametric lemmas; random builder histories with take/clone/clear inserted at every position on the real crate",
    level_text="Machine-checked: for every struct with a take(), if the regenerated table says every declared field is listed exactly once with a value-preserving expression (move / copy / clone / replace) and there is no struct-update rest, then the taken statement equals the statement before the call in every field for every state; for the query statements (SelectStatement, WindowStatement) all actions are moves that leave the Default value, and new() is Default, so what is left equals a new statement; each clear/reset function empties exactly its documented field and its body does nothing else. The table predicates are decided on the source as it is now.",
    level_note="Trusted: Lean kernel; translator (struct fields, take() struct literal, clear bodies); Rust semantics of Option::take / mem::take / mem::replace / Copy / Clone; derive(Clone, PartialEq) being field-wise and SeaRc<dyn Iden> cloning by pointer with no mutating API (clone independence is by value semantics; checked dynamically). Rendering equality, == and independence are checked on the real crate over random histories (per-field coverage counted in the evidence); schema statements have no PartialEq, their equality is Debug text plus renderings.",
    design_ref="§6 C15",
    scope="all states x all call positions (parametric); tables: all 12 structs with take(), 8 clearers",
)

from stages import stage_c20  # noqa: E402

PROPS["C20"] = dict(
    groups=["types"],
    lean_props=["SeaQ.Props.C20"],
    lean_obligations=[],
    extra=[stage_c20],
    harness=False,
    technique="rustc decides (generated probe crate instantiating Send + Sync at every public type, compiled against /repo with and without thread-safe); Lean 4 model of the auto-trait rule on the public type graph regenerated from the source, with the fixpoint obligation decided by the kernel and its per-type prediction compared with rustc's answer in both configurations",
    level_text="The Lean theorem states that 'every public type is Send + Sync' is a fixpoint of the auto-trait rule on the type graph extracted from the current source under thread-safe (RcOrArc = Arc, Iden: Send + Sync), and that without the feature some type is not. The authoritative decision is the compiler's: a generated crate asks rustc, for each of the ~125 public non-generic types, whether it is Send + Sync, with the feature (all must be) and without (must be exactly the types the model predicts) — a disagreement either way is a broken correspondence, a `false` under the feature is a violation naming the type.",
    level_note="Trusted: rustc (auto traits); the translator's type graph (field types by identifier; Box/Vec/Option/tuples transparent; external feature types assumed Send + Sync, which rustc confirms or refutes in the probe); generic public types (SeaRc<I>) are covered through their instantiations in other types.",
    design_ref="§6 C20",
    scope="all public non-generic types x {thread-safe on, off}",
    timeout=3000,
)

PROPS["C11"] = dict(
    groups=["token", "escape", "quote", "spell"],
    lean_props=["SeaQ.Props.C11", "SeaQ.Props.C11Stmt"],
    lean_obligations=[],
    technique="Lean 4 proof over a model of the template loop (CustomWithExpr arm) and of inject_parameters on top of the C16 tokenizer model: step lemmas for every token situation, verbatim emission of everything that is not a bare mark (with C16 losslessness), and inject_parameters = inline form by induction over statement segments; models tied by structured template generation against cust_with_values (to_string and build) and inject_parameters on 3 backends; independent quote-aware specification as oracle",
    level_text="Machine-checked: for every template and every value list, a token that is not a bare mark (in particular every quoted token, whatever marks it contains) is emitted unchanged; a doubled mark yields one literal mark; `?` takes the next value and `$n` the n-th without disturbing the positional counter; a template without bare marks renders as itself character for character; and for the positional backends inject_parameters over the token stream of a parameterised statement yields its inline form provided no literal token is a bare mark. The Postgres `$word` case is stated as what the code does (the word is swallowed) rather than hidden — it is one of four recorded findings. Carried over to the statement renderer (Props/C11Stmt): for cust_with_values inside any statement the inline writer's text is renderInline of the abstract expansion and the parameterised writer binds exactly the designated values in order of appearance.",
    level_note="Trusted: Lean kernel; translator (tokenizer classes); the hand-written models of the template loop and of inject_parameters (compared with the crate on ~40k structured templates x value lists and on every (sql, values) pair build() produced); usize::parse modelled for ASCII digit strings with overflow = error. The numbered-placeholder variant of inject_inline (Postgres) is covered by the differential run and the oracle, not by a theorem.",
    design_ref="§6 C11",
    scope="all templates / token lists / value lists (step lemmas, verbatim theorem, inject_inline for positional backends)",
)

PROPS["C19"] = dict(
    groups=["derive", "quote"],
    lean_props=["SeaQ.Props.C19", "SeaQ.Props.C19Snake"],
    lean_obligations=[],
    technique="Lean 4 proof that the derive's fast-path prepare() equals the general identifier quoting for every name satisfying must_be_valid_iden (any quote character that is not an identifier character), lifted to every variant of a type that takes the fast path, and of the rename / method / Table / snake_case decision; the predicate must_be_valid_iden is translated from sea-query-derive's source on every run (seaq-translate group derive); executable model of heck 0.4's case conversion compared with heck on generated identifiers; ~200 derived items expanded by /repo's macros at harness build time (one type per punctuation character) compared with the documented names and with the general quoting for the three backends' quotes and for every quote a custom backend may pass",
    level_text="Machine-checked: for every name the derive deems a valid identifier the generated quoting fast path produces exactly the text of the general identifier quoting (which C04 proves decodes to the name), for every quote character that is not an identifier character (the three backends' among them); if a type takes the fast path, every variant's spelled name is valid and no variant is a method / flatten one; rename and method attributes override, `Table` spells the table name, anything else the snake_case of the identifier; and (Props/C19Snake) the snake_case of ANY string consists of `_` and lower-cased alphanumerics, starts with the lower-cased first letter when the identifier starts with a letter, hence always satisfies must_be_valid_iden: an attribute-free variant never disables the fast path (snake_valid, default_variant_valid); it has no upper-case letter, no `_` at either end and no two in a row (snake_lower, snake_shape). The snake_case / PascalCase conversion is an executable model of heck 0.4 checked against the real heck on 60k+ generated ASCII identifiers; the macro itself is exercised through types compiled against /repo (enums, unit structs, IdenStatic, enum_def with prefix / suffix / table_name, container and variant renames, flattened variants).",
    level_note="Trusted: Lean kernel; rustc / proc-macro expansion; heck 0.4.1 as the meaning of 'snake_case' (ASCII identifiers; non-ASCII identifiers are outside the model); the static list of derived items in the harness (a naming pattern not in the list and not in the generated identifiers is not seen; the unit-struct format-string defect was repaired: fix 9be3e67). must_be_valid_iden is regenerated from the source by the translator (an expression outside its small Rust subset fails the check); the per-type combination (every variant valid, none method / flatten) is hand-modelled and seen through the derived items.",
    design_ref="§6 C19",
    scope="all names (fast path, decision logic); case conversion by model-vs-heck testing",
)

_STMT_MODEL_NOTE = ("Trusted: Lean kernel; the hand-written statement model (lean/SeaQ/Model/Stmt.lean, Render.lean: the prepare_* call tree of "
    "QueryBuilder with the three backends' overrides and the two writers), tied to the crate by the correspondence run on generated statement "
    "recipes (all five statement kinds, nesting up to depth 4) through every public entry point; the engines' lexical rules as specified in "
    "SeaQ.Scan.segment (strings and quoted identifiers by the C03 / C04 lexers, placeholders outside them; MySQL \"..\" strings, SQLite [..] / `..` "
    "identifiers and the U& / x / b / n literal prefixes are outside the fragment and make the reading fail); Display of floats, decimals, dates, "
    "uuids (their text is an input of the model). `Safe` is proved sufficient, and evaluated on every generated statement whose raw text is plain; "
    "that every raw-free statement renders to a safe piece list is not yet a theorem (DESIGN.md).")

PROPS["C01"] = dict(
    groups=["token", "escape", "quote", "spell"],
    lean_props=["SeaQ.Props.C01"],
    lean_obligations=["SeaQ.Lemmas.Scan", "SeaQ.Lemmas.SafeBasics", "SeaQ.Lemmas.Ctx", "SeaQ.Lemmas.RenderCtx", "SeaQ.Lemmas.Plain", "SeaQ.Lemmas.RenderPlain"],
    technique="Lean 4 proof over the statement rendering model: for every piece list (unbounded), the values returned are the parameter pieces' values in order (no hypothesis), and under the decidable Safe discipline the engine-side reading of the parameterised text is the piece-wise one, so the placeholders outside quoted text are ?xn / $1..$n ascending, one per value; Safe itself is a theorem (render_safe, mutual structural induction over the 41 render functions) for every statement of the model without caller-supplied raw text, any bound values; model tied to the crate by differential runs of generated statements through build / build_any / build_collect*, with an independent reference-lexer oracle on the crate's output",
    level_text="Machine-checked for every piece list, hence for the rendering of every statement of the model (any nesting): (textP ps).values = parameter pieces in order; Safe ps -> segment(text) = piece-wise items, placeholders = expectedMarks n. render_safe / render_safe_user: for EVERY statement of the model (unbounded nesting, all five statement kinds, three dialects) whose caller-supplied pieces are individually well-formed (the renderer's own text is proved plain: renderer_text_plain; contentOK: no panic marker, representable inline constants, raw text (custom expressions / functions / operators / keywords) only when non-empty and free of quotes and marks, no CustomWithExpr template; bound values arbitrary) the rendering is Safe, so C01_all_statements holds with no Safe hypothesis. For statements with caller-supplied raw text Safe is evaluated by the model per generated case (plain raw text: must hold). The evidence counts how many generated cases meet the theorem's hypothesis.",
    level_note=_STMT_MODEL_NOTE,
    design_ref="§6 C01",
    scope="all statements of the model whose caller-supplied raw text is plain and whose custom templates are lexically safe on their own (Template.ok; theorem, no Safe hypothesis); all piece lists under Safe; generated statements for the tie",
)

PROPS["C02"] = dict(
    groups=["token", "escape", "quote", "spell"],
    lean_props=["SeaQ.Props.C02"],
    lean_obligations=["SeaQ.Lemmas.Scan", "SeaQ.Lemmas.SafeBasics", "SeaQ.Lemmas.Ctx", "SeaQ.Lemmas.RenderCtx", "SeaQ.Lemmas.Plain", "SeaQ.Lemmas.RenderPlain", "SeaQ.Props.C01"],
    technique="Lean 4 proof over the statement rendering model: for every Safe piece list, reading the parameterised text the way the engine does and re-printing it with each placeholder replaced by the literal of its value gives exactly the inline text (C02_substitute); the crate's entry points (to_string, build, build_any, build_collect, build_collect_any, String and SqlWriterValues writers) are compared with the model's two texts and with each other on every generated statement, rendering twice and Debug-equality before/after rendering included",
    level_text="Machine-checked: substitute d (textP ps).sql (values.map lit) = some (textI ps) for every Safe piece list (unbounded nesting); C02_all_statements: for every statement of the model without caller-supplied raw text (contentOK; bound values arbitrary) with no Safe hypothesis, via render_safe. Entry-point agreement, repeatability and non-modification are checked on every generated statement (differential / metamorphic, not a theorem). Execution of both forms on SQLite is part of C07.",
    level_note=_STMT_MODEL_NOTE,
    design_ref="§6 C02",
    scope="all statements of the model whose caller-supplied raw text is plain and whose custom templates are lexically safe on their own (Template.ok; theorem, no Safe hypothesis); all piece lists under Safe; generated statements for the tie and the entry points",
)

from stages import stage_c07
PROPS["C07"] = dict(
    groups=["token", "escape", "quote", "spell"],
    lean_props=["SeaQ.Props.C02"],
    lean_obligations=["SeaQ.Lemmas.Scan", "SeaQ.Lemmas.SafeBasics", "SeaQ.Lemmas.Ctx", "SeaQ.Lemmas.RenderCtx", "SeaQ.Lemmas.Plain", "SeaQ.Lemmas.RenderPlain", "SeaQ.Props.C01"],
    extra=[stage_c07],
    technique="Lean 4 statement rendering model (SQLite dialect) tied to the crate by differential runs; the machine-checked part is that the inline and the parameterised form are the same statement (C02_substitute) with the placeholders bound one-to-one (C01_placeholders); what the statement DOES is decided by execution: every generated statement over a fixed schema is run on a real SQLite (python sqlite3) as inline text, as parameterised text with bound values and as an independently written fully explicit rendering of the same builder calls, and rows, RETURNING rows and table contents are compared; WHERE clauses built by call histories (and_where / cond_where sequences incl. empty any / all) are executed against the explicit conjunction; every convenience method of the builders (expression operators, joins, FROM forms, ORDER BY families, locks, unions, windows, insert / update helpers: ~115 methods) is compared with the general form it abbreviates on random arguments (same Debug structure, same rendering on three backends)",
    level_text="Partial by nature: execution semantics live in the engine. Proved (Lean): both rendering modes are one statement for every Safe rendering, and every statement without caller-supplied raw text renders Safe (render_safe). Validated by execution on the engine: acceptance of both forms and equality of effect with the explicit reference rendering, for generated statements over the property's SQLite feature list.",
    level_note=_STMT_MODEL_NOTE + " The explicit reference renderer (harness/src/c07.rs, written from SQLite's grammar) and the SQLite library linked into python3 are trusted for the engine stage.",
    design_ref="§6 C07",
    scope="generated statements over a fixed schema; theorem part: all Safe renderings",
)

from stages import stage_c09
PROPS["C09"] = dict(
    groups=["token", "escape", "quote", "spell"],
    lean_props=["SeaQ.Props.C09"],
    lean_obligations=[],
    extra=[stage_c09],
    technique="Lean 4 proofs that the backend-specific emulations are equivalent to the native forms over SQL value semantics (MySQL's `x IS NULL ASC|DESC, x` two-key ordering = NULLS LAST | FIRST for either default NULL placement and either direction; IFNULL = COALESCE on two arguments; GREATEST / LEAST = multi-argument MAX / MIN, both NULL-propagating) and that the statement model writes exactly these forms and names; the model is tied to the crate by differential runs on all three backends; sameness of the three renderings is decided by execution: each portable statement's MySQL and Postgres renderings are transliterated lexically (literals decoded by the source dialect's rules) and executed on SQLite next to the SQLite rendering and an explicit reference",
    level_text="Partial by nature: 'return identical results' is engine behaviour. Proved: emulation equivalences and the emitted forms. Validated by execution: pairwise agreement of the six texts (3 backends x inline / parameterised) with the reference on generated portable statements. Postgres' NULL-ignoring GREATEST / LEAST and the engines' different default NULL placement are engine differences outside the claim.",
    level_note=_STMT_MODEL_NOTE + " The transliterator (harness/src/c09.rs over the reference lexers) and the explicit reference renderer are trusted for the engine stage; only SQLite is available, so MySQL / Postgres semantics enter through their lexical rules and the documented substitutions only.",
    design_ref="§6 C09",
    scope="generated portable statements; theorem part: all key values / argument lists",
)

PROPS["C08"] = dict(
    groups=["token", "escape", "quote", "spell", "clauses"],
    pregen=[("gen-policy", "SeaQ/Gen/Policy.lean")],
    lean_props=["SeaQ.Props.C08", "SeaQ.Props.C08Src", "SeaQ.Props.C05Stmt", "SeaQ.Props.WhereParse"],
    lean_obligations=["SeaQ.Lemmas.Balance", "SeaQ.Lemmas.RenderBalance", "SeaQ.Lemmas.StmtPolicy"],
    technique="Lean 4 proofs over the statement rendering model: every statement of the model (all five kinds, any nesting, three dialects) is written with balanced parentheses and every clause of a SELECT is balanced on its own, so clause keywords stand at depth 0 (render_balanced, select_clauses_balanced: mutual structural induction over the 41 render functions); the rendering of a SELECT is the concatenation of a clause list whose tags are a sub-sequence of the grammar's clause sequence (each clause at most once, in grammar order, present iff given) for every statement without a named window, the MySQL UPDATE re-routing (condition once, as JOIN .. ON), dialect-only constructs (DISTINCT ON, DISTINCTROW, RETURNING, locking, enum casts, VALUES ROW); expressions inside statements: for every operator tree of any depth over arbitrary leaves the statement renderer writes exactly the tokens of C05's abstract printer under the parenthesis policy observed from the crate (stmt_prints_as_pratt: the renderer's own decisions equal the observed cells, a finite obligation re-decided by the kernel on every run), hence they re-parse to the tree that was built under each dialect's operator table (stmt_roundtrip_*); the WHERE / HAVING / ON clause of a statement whose condition members are primary expressions re-parses to the AND / OR / NOT tree of the held condition (where_reparses_*: C05 and C06 joined at the statement renderer); the model is tied to the crate by differential runs; that the flat text parses into these clauses is decided by a reference parser of each dialect's statement grammar (precedence tables of C05): the tree of the crate's text must equal the tree of an independent, fully explicit rendering of the same builder calls",
    level_text="Machine-checked (model): balanced parentheses for every statement (given caller-supplied raw text balanced on its own; custom templates included when each chunk is balanced on its own), clause list = rendering, clause order / uniqueness / presence for SELECT, re-routing and dialect exclusivity lemmas, operator trees inside statements re-parse to themselves (C05 carried over to the statement renderer). Validated on generated statements (MySQL, Postgres, SQLite as third leg): parse of inline and parameterised text under the dialect's reference grammar and tree equality with the explicit reference rendering. The grammars are the trusted specification (no MySQL / Postgres engine in the sandbox).",
    level_note=_STMT_MODEL_NOTE + " The reference grammar (harness/src/sqlparse.rs), the explicit reference renderer (harness/src/explicit.rs) and the operator levels of C05 are trusted specifications.",
    design_ref="§6 C08",
    scope="all statements of the model for the clause theorems; generated statements for parse / tree equality",
)

from stages import stage_c13
PROPS["C13"] = dict(
    groups=["token", "escape", "quote", "spell", "coltypes"],
    lean_props=["SeaQ.Props.C13", "SeaQ.Props.Ddl"],
    lean_obligations=["SeaQ.Lemmas.Scan", "SeaQ.Lemmas.SafeBasics", "SeaQ.Lemmas.Ctx", "SeaQ.Lemmas.RenderCtx", "SeaQ.Lemmas.DdlCtx", "SeaQ.Lemmas.Balance", "SeaQ.Lemmas.RenderBalance", "SeaQ.Lemmas.DdlBalance", "SeaQ.Lemmas.Plain", "SeaQ.Lemmas.RenderPlain", "SeaQ.Lemmas.DdlPlain", "SeaQ.Props.C01"],
    extra=[stage_c13],
    technique="Lean 4 model of the schema-statement renderer (Model/Ddl: CREATE / ALTER / DROP / RENAME TABLE, CREATE / DROP INDEX, foreign keys; SQLite dialect here) tied to the crate by differential runs of generated schema statements through build / to_string / build_any, with theorems for every statement of the model: the engine's lexer reads the rendered text item by item as written (ddl_read: declared names as single quoted identifiers, strings as single literals), parentheses are balanced (ddl_balanced), CREATE TABLE is head + the ', '-separated list of all declared columns, keys, foreign keys and checks in order + tail (create_items, create_complete), PRIMARY KEY / AUTOINCREMENT are moved to the end adjacent and in this order and an auto-increment integer column is declared exactly 'integer'; plus the proof over the SQLite type-name table regenerated from src/backend/sqlite/table.rs on every run: for every supported ColumnType variant, every template its arm can write and every value of the length / precision / scale parameters, SQLite's five-rule affinity of the written name is the intended one (digits can neither contain nor complete a letter pattern: hasSub_digits); execution and the catalogue are decided on the engine: generated scenarios of CREATE TABLE / CREATE INDEX / ALTER / RENAME / DROP are executed on SQLite and PRAGMA table_xinfo / index_list / index_xinfo / foreign_key_list, CAST-observed affinity and evaluated defaults are compared with the catalogue expected from the scenario description",
    level_text="Machine-checked for every schema statement of the model (unbounded lists, nested expressions): ddl_safe / ddl_read (lexical well-formedness under the decidable per-piece condition contentOK), create_items / create_complete, sqlite_pk_autoincrement_last, sqlite_autoincrement_integer; and affinity_intended for all parameter values over the regenerated table (translator: seaq-translate group coltypes; an arm it does not understand fails the check). Validated by execution: acceptance of every generated schema statement and equality of the reported catalogue (columns in order, nullability, default, primary key, uniqueness, autoincrement, checks, index columns / direction / uniqueness / partial, foreign-key columns and actions) with the declaration.",
    level_note="Trusted: Lean kernel; seaq-translate (syn) for the type-name table; SQLite's documented affinity rules as written in SeaQ.Affinity.affinity (cross-checked against the engine through CAST on every generated column); the expected-catalogue rules of the harness (rowid alias, automatic indexes, default actions); the SQLite library linked into python3. The schema-statement model (Model/Ddl.lean) is hand-written from src/backend/{table,index,foreign_key}_builder.rs and the three backends' table.rs / index.rs / foreign_key.rs and validated against the crate on every run (3 000 generated statements per quick run, panics included); CREATE TYPE / EXTENSION and the feature option-sqlite-exact-column-type are not modelled.",
    design_ref="§6 C13",
    scope="all parameter values for the affinity theorem; generated scenarios for execution",
)

PROPS["C14"] = dict(
    groups=["token", "escape", "quote", "spell", "coltypes"],
    lean_props=["SeaQ.Props.C14", "SeaQ.Props.Ddl"],
    lean_obligations=["SeaQ.Lemmas.Scan", "SeaQ.Lemmas.SafeBasics", "SeaQ.Lemmas.Ctx", "SeaQ.Lemmas.RenderCtx", "SeaQ.Lemmas.DdlCtx", "SeaQ.Lemmas.Balance", "SeaQ.Lemmas.RenderBalance", "SeaQ.Lemmas.DdlBalance", "SeaQ.Lemmas.Plain", "SeaQ.Lemmas.RenderPlain", "SeaQ.Lemmas.DdlPlain", "SeaQ.Props.C01"],
    technique="Lean 4 model of the schema-statement renderer (Model/Ddl: CREATE / ALTER / DROP / RENAME / TRUNCATE TABLE, CREATE / DROP INDEX, ADD / DROP FOREIGN KEY, Postgres CREATE / ALTER / DROP TYPE and CREATE / DROP EXTENSION; MySQL and Postgres dialects here) tied to the crate by differential runs of generated schema statements through build / to_string / build_any, with theorems for every statement of the model: the engine's lexer reads the rendered text item by item as written (ddl_read), parentheses are balanced (ddl_balanced), CREATE TABLE is head + the ', '-separated list of all declared columns, keys, foreign keys and checks in order + tail (create_items, create_complete), every MySQL column specification is written in the order given (mysql_specs_all), unsigned types are the signed type + UNSIGNED, Postgres auto-increment columns are declared smallserial / serial / bigserial and the specification writes nothing; plus Lean 4 proofs over the MySQL / Postgres type-name tables regenerated from src/backend/{mysql,postgres}/table.rs on every run: every template of every supported ColumnType arm names a type the dialect defines in a form it defines (for all parameter values), parameters appear in the written name as their decimal digits and in declaration order, UNSIGNED follows exactly the unsigned variants, auto-increment is AUTO_INCREMENT / smallserial-serial-bigserial; whole statements are decided by a reference DDL grammar per dialect: the parse tree of every generated schema statement must equal the tree expected from the scenario (each column one type and each specification once, table-level elements, options, ALTER option separators, index / foreign-key / type / extension statements)",
    level_text="Machine-checked for every schema statement of the model: ddl_safe / ddl_read (lexical well-formedness under contentOK), create_items / create_complete, mysql_specs_all, mysql_unsigned, postgres_autoincrement_serial; type mapping obligations over the regenerated tables, lifted to all parameter values (params_in_text). Validated on generated statements: acceptance by the reference DDL grammar and tree equality with the declaration. The grammars and the per-dialect lists of defined types are the trusted specification (no MySQL / Postgres engine in the sandbox). That the text is a sentence of the dialect's grammar beyond the lexical level is decided by the reference grammar on generated statements, not by a theorem.",
    level_note="The schema-statement model (Model/Ddl.lean) is hand-written from the crate's builders and validated against the crate on every run (4 000 generated statements per quick run, panics included); Trusted: Lean kernel; seaq-translate (syn) for the tables; SeaQ.Props.C14.mysqlDefined / postgresDefined (transcribed from the manuals); harness/src/c14.rs (reference grammar and expected trees) with the reference lexers.",
    design_ref="§6 C14",
    scope="all parameter values for the mapping theorems; generated statements for the grammar",
)
