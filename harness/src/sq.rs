//! Backend dispatch helpers over the real crate.
use crate::reflex::B;
use sea_query::*;

pub fn qb(b: B) -> Box<dyn QueryBuilder> {
    match b { B::Mysql => Box::new(MysqlQueryBuilder), B::Postgres => Box::new(PostgresQueryBuilder), B::Sqlite => Box::new(SqliteQueryBuilder) }
}
pub fn sb(b: B) -> Box<dyn SchemaBuilder> {
    match b { B::Mysql => Box::new(MysqlQueryBuilder), B::Postgres => Box::new(PostgresQueryBuilder), B::Sqlite => Box::new(SqliteQueryBuilder) }
}

/// inline rendering of a query statement; None = the crate panicked
pub fn to_string_q<S: QueryStatementWriter>(b: B, s: &S) -> Option<String> {
    std::panic::catch_unwind(std::panic::AssertUnwindSafe(|| match b {
        B::Mysql => s.to_string(MysqlQueryBuilder),
        B::Postgres => s.to_string(PostgresQueryBuilder),
        B::Sqlite => s.to_string(SqliteQueryBuilder),
    })).ok()
}
pub fn build_q<S: QueryStatementWriter>(b: B, s: &S) -> Option<(String, Values)> {
    std::panic::catch_unwind(std::panic::AssertUnwindSafe(|| match b {
        B::Mysql => s.build(MysqlQueryBuilder),
        B::Postgres => s.build(PostgresQueryBuilder),
        B::Sqlite => s.build(SqliteQueryBuilder),
    })).ok()
}
pub fn to_string_s<S: SchemaStatementBuilder>(b: B, s: &S) -> Option<String> {
    std::panic::catch_unwind(std::panic::AssertUnwindSafe(|| match b {
        B::Mysql => s.to_string(MysqlQueryBuilder),
        B::Postgres => s.to_string(PostgresQueryBuilder),
        B::Sqlite => s.to_string(SqliteQueryBuilder),
    })).ok()
}
pub fn value_to_string(b: B, v: &Value) -> Option<String> {
    let v = v.clone();
    std::panic::catch_unwind(std::panic::AssertUnwindSafe(move || qb(b).value_to_string(&v))).ok()
}
pub fn alias(s: &str) -> Alias { Alias::new(s) }
