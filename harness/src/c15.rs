//! C15: take / clone / clear as value operations — random builder histories with the operation
//! inserted at every position, on every type that has take() or Clone.
use crate::reflex::B;
use crate::sq::*;
use crate::*;
use sea_query::extension::mysql::{IndexHintScope, MySqlSelectStatementExt};
use sea_query::extension::postgres::{PostgresSelectStatementExt, SampleMethod};
use sea_query::*;

fn a(s: &str) -> Alias { Alias::new(s) }

pub type Call<S> = (&'static str, fn(&mut S, u64));

/// a nested statement that has the clauses the outer clearers remove, so that a clear reaching into nested statements shows
fn nested(k: u64) -> SelectStatement {
    let mut q = Query::select();
    q.column(a("uc")).from(a("ut")).order_by(a("uo"), if k % 2 == 0 { Order::Desc } else { Order::Asc }).limit(k % 3 + 1).offset(k % 2 + 1);
    if k % 4 == 0 { q.union(UnionType::All, Query::select().column(a("vc")).from(a("vt")).order_by(a("vo"), Order::Asc).limit(2).to_owned()); }
    q
}

/// a value for the k-th call: mostly small integers, and the values whose equality is delicate (NaN in a float, in a vector and
/// in an array, negative zero, a decimal with trailing zeros, JSON, typed NULLs) — a statement holding one must still be equal to
/// its clone and to what take() returns
pub fn kv(k: u64) -> Value {
    match k % 16 {
        6 => Value::Float(Some(f32::NAN)), 7 => Value::Double(Some(-0.0)), 8 => Value::Vector(Some(Box::new(pgvector::Vector::from(vec![1.0f32, f32::NAN, -0.0])))),
        9 => Value::Array(ArrayType::Double, Some(Box::new(vec![Value::Double(Some(f64::NAN)), Value::Double(None), Value::Double(Some(1.5))]))),
        10 => Value::Json(Some(Box::new(serde_json::json!({"a": [1, null, -0.0], "b": "x"})))), 11 => Value::Decimal(Some(Box::new(rust_decimal::Decimal::new(1500, 3)))),
        12 => Value::String(None), 13 => Value::Array(ArrayType::Int, None), 14 => Value::Double(Some(f64::NAN)),
        _ => Value::Int(Some(k as i32)),
    }
}
pub fn select_calls() -> Vec<Call<SelectStatement>> {
    vec![
        ("distinct", |s, _| { s.distinct(); }),
        ("selects", |s, k| { if k % 2 == 0 { s.column(a("c1")); } else { s.expr_as(Expr::col(a("c2")).add(k as i32), a("e")); } }),
        ("from", |s, k| { if k % 3 == 2 { s.from_subquery(nested(k), a("sq")); } else { s.from(a(if k % 2 == 0 { "t" } else { "u" })); } }),
        ("join", |s, k| { s.left_join(a("j"), Expr::col((a("j"), a("id"))).equals((a("t"), a("id"))).and(Expr::col(a("x")).eq(k as i32))); }),
        ("where", |s, k| { s.and_where(Expr::col(a("w")).eq(kv(k))); }),
        ("groups", |s, _| { s.group_by_col(a("g")); }),
        ("having", |s, k| { s.and_having(Expr::col(a("h")).gt(kv(k))); }),
        ("unions", |s, k| { s.union(if k % 2 == 0 { UnionType::All } else { UnionType::Distinct }, nested(k)); }),
        ("orders", |s, k| { s.order_by(a("o"), if k % 2 == 0 { Order::Asc } else { Order::Desc }); }),
        ("limit", |s, k| { s.limit(k % 7 + 1); }),
        ("offset", |s, k| { s.offset(k % 5 + 1); }),
        ("lock", |s, k| { match k % 3 { 0 => { s.lock(LockType::Update); } 1 => { s.lock_with_tables(LockType::Share, [a("lt"), a("lu")]); } _ => { s.lock_with_tables_behavior(LockType::KeyShare, [a("lt")], LockBehavior::SkipLocked); } } }),
        ("window", |s, _| { s.window(a("w"), WindowStatement::partition_by(a("p"))); }),
        ("with", |s, _| { s.with_cte(CommonTableExpression::new().query(nested(7)).table_name(a("cte")).to_owned()); }),
        ("table_sample", |s, k| { s.table_sample(SampleMethod::SYSTEM, (k % 50) as f64, None); }),
        ("index_hints", |s, _| { s.use_index(a("ix"), IndexHintScope::All); }),
    ]
}

fn render_q<S: QueryStatementWriter>(s: &S) -> Vec<Option<String>> { B::all().iter().map(|b| to_string_q(*b, s)).collect() }
fn render_s<S: SchemaStatementBuilder>(s: &S) -> Vec<Option<String>> { B::all().iter().map(|b| to_string_s(*b, s)).collect() }

struct Spec<S> {
    name: &'static str,
    mk: fn() -> S,
    calls: Vec<Call<S>>,
    take: Option<fn(&mut S) -> S>,
    eq: fn(&S, &S) -> bool,
    render: fn(&S) -> Vec<Option<String>>,
    left_is_new: bool,
    /// (function name, field it must empty, the call)
    clearers: Vec<(&'static str, &'static str, fn(&mut S))>,
}

fn run_spec<S: Clone + std::fmt::Debug>(ctx: &mut Ctx, sp: &Spec<S>, nhist: usize) {
    for _ in 0..nhist {
        let mut r = ctx.rng.fork();
        let len = 1 + r.below(8) as usize;
        let hist: Vec<(usize, u64)> = (0..len).map(|_| (r.below(sp.calls.len() as u64) as usize, r.below(100))).collect();
        let hname: Vec<String> = hist.iter().map(|(i, k)| format!("{}({})", sp.calls[*i].0, k)).collect();
        for (i, _) in &hist { ctx.count(&format!("field.{}.{}", sp.name, sp.calls[*i].0)); }
        let apply = |s: &mut S, h: &[(usize, u64)]| { for (i, k) in h { (sp.calls[*i].1)(s, *k); } };
        for pos in 0..=len {
            let mut st = (sp.mk)();
            apply(&mut st, &hist[..pos]);
            let before = st.clone();
            let info = || serde_json::json!({"type": sp.name, "history": hname, "position": pos});
            ctx.eval_only(&format!("{} {:?} {}", sp.name, hname, pos), true);
            // clone: equal, renders identically, independent afterwards
            if !(sp.eq)(&before, &st) || (sp.render)(&before) != (sp.render)(&st) { ctx.oracle_fail("a clone is not equal to / does not render like its source", info()); }
            {
                let mut c = st.clone();
                if pos < len { apply(&mut c, &hist[pos..pos + 1]); }
                if !(sp.eq)(&before, &st) { ctx.oracle_fail("changing a clone changed the source", info()); }
                let mut s2 = st.clone();
                let keep = c.clone();
                if pos < len { apply(&mut s2, &hist[pos..pos + 1]); }
                if !(sp.eq)(&keep, &c) { ctx.oracle_fail("changing the source changed a clone", info()); }
            }
            // clone_from into a statement that already holds something else (the rest of the history): afterwards it is the source
            {
                let mut d = (sp.mk)();
                apply(&mut d, &hist[pos..]);
                d.clone_from(&st);
                if !(sp.eq)(&d, &st) || (sp.render)(&d) != (sp.render)(&st) { ctx.oracle_fail("clone_from does not make the destination equal to / render like its source", { let mut v = info(); v["destination"] = serde_json::json!((sp.render)(&d)); v["source"] = serde_json::json!((sp.render)(&st)); v }); }
            }
            // take
            if let Some(take) = sp.take {
                let mut st2 = st.clone();
                let taken = take(&mut st2);
                if !(sp.eq)(&taken, &before) { ctx.oracle_fail("the taken statement is not equal to the statement before take()", { let mut v = info(); v["taken"] = serde_json::json!(format!("{:?}", taken)); v["before"] = serde_json::json!(format!("{:?}", before)); v }); }
                if (sp.render)(&taken) != (sp.render)(&before) { ctx.oracle_fail("the taken statement renders differently from the statement before take()", { let mut v = info(); v["taken"] = serde_json::json!((sp.render)(&taken)); v["before"] = serde_json::json!((sp.render)(&before)); v }); }
                if sp.left_is_new && !(sp.eq)(&st2, &(sp.mk)()) { ctx.oracle_fail("take() did not leave a newly constructed statement behind", { let mut v = info(); v["left"] = serde_json::json!(format!("{:?}", st2)); v }); }
                // the taken statement behaves like the original under the rest of the history
                let (mut x, mut y) = (taken, before.clone());
                apply(&mut x, &hist[pos..]); apply(&mut y, &hist[pos..]);
                if !(sp.eq)(&x, &y) || (sp.render)(&x) != (sp.render)(&y) { ctx.oracle_fail("the taken statement diverges from the original under further calls", info()); }
            }
            // clear / reset: equals the history without the calls that set that field
            for (fname, field, f) in &sp.clearers {
                let mut cleared = st.clone();
                f(&mut cleared);
                let filtered: Vec<(usize, u64)> = hist[..pos].iter().filter(|(i, _)| sp.calls[*i].0 != *field).cloned().collect();
                let mut expect = (sp.mk)();
                apply(&mut expect, &filtered);
                if !(sp.eq)(&cleared, &expect) || (sp.render)(&cleared) != (sp.render)(&expect) {
                    ctx.oracle_fail("a clear / reset function did not remove exactly its clause", { let mut v = info(); v["function"] = serde_json::json!(fname); v["got"] = serde_json::json!((sp.render)(&cleared)); v["expected"] = serde_json::json!((sp.render)(&expect)); v });
                }
            }
        }
    }
}

fn dbg_eq<S: std::fmt::Debug>(x: &S, y: &S) -> bool { format!("{:?}", x) == format!("{:?}", y) }

pub fn run(ctx: &mut Ctx) {
    let n = if ctx.tier_thorough { 6000 } else { 600 };
    ctx.rule = format!("{} random call histories (1..8 calls, each call touching exactly one field) per type on SelectStatement (all 16 fields), WindowStatement, ColumnDef, TableCreate/Alter/Drop/Rename/Truncate, IndexCreate, ForeignKeyCreate, Insert / Update / Delete (clone); at EVERY position: clone (==, renderings on 3 backends, independence both ways), take (taken == before, renders identically, left == new() for query statements, same behaviour under the rest of the history), and every clear_* / reset_* / from_clear (equals the history without that field's calls). Schema statements have no PartialEq: equality is Debug text. Non-trivial = every (history, position).", n);
    run_spec(ctx, &Spec::<SelectStatement> { name: "SelectStatement", mk: SelectStatement::new, calls: select_calls(), take: Some(|s| s.take()), eq: |x, y| x == y, render: render_q, left_is_new: true,
        clearers: vec![("clear_selects", "selects", |s| { s.clear_selects(); }), ("from_clear", "from", |s| { s.from_clear(); }), ("reset_limit", "limit", |s| { s.reset_limit(); }), ("reset_offset", "offset", |s| { s.reset_offset(); }), ("clear_order_by", "orders", |s| { s.clear_order_by(); })] }, n);
    run_spec(ctx, &Spec::<WindowStatement> { name: "WindowStatement", mk: WindowStatement::new, calls: vec![
            ("partition_by", |s, _| { s.add_partition_by(Expr::col(a("p")).into()); }), ("order_by", |s, k| { s.order_by(a("o"), if k % 2 == 0 { Order::Asc } else { Order::Desc }); }),
            ("frame", |s, k| { match k % 6 { 0 | 1 => { s.frame_start(FrameType::Rows, Frame::Preceding((k % 3) as u32)); } 2 => { s.frame_start(FrameType::Range, Frame::Preceding(1 + (k % 4) as u32)); }
                3 => { s.frame_between(FrameType::Range, Frame::CurrentRow, Frame::Following(1 + (k % 5) as u32)); } 4 => { s.frame_between(FrameType::Range, Frame::UnboundedPreceding, Frame::CurrentRow); }
                _ => { s.frame_between(FrameType::Rows, Frame::Preceding(2), Frame::UnboundedFollowing); } } })],
        take: Some(|s| s.take()), eq: |x, y| x == y, render: |w| { let q = Query::select().expr_window(Expr::col(a("c")), w.clone()).to_owned(); render_q(&q) }, left_is_new: true,
        clearers: vec![("clear_order_by", "order_by", |s| { s.clear_order_by(); })] }, n);
    run_spec(ctx, &Spec::<ColumnDef> { name: "ColumnDef", mk: || ColumnDef::new(a("c")), calls: vec![
            ("types", |s, k| { if k % 2 == 0 { s.integer(); } else { s.string_len(10 + k as u32); } }), ("spec", |s, k| { match k % 4 { 0 => { s.not_null(); } 1 => { s.default(k as i32); } 2 => { s.unique_key(); } _ => { s.comment("x"); } } })],
        take: Some(|s| s.take()), eq: dbg_eq, render: |c| { let t = Table::create().table(a("t")).col(c.clone()).to_owned(); render_s(&t) }, left_is_new: false, clearers: vec![] }, n / 2);
    run_spec(ctx, &Spec::<TableCreateStatement> { name: "TableCreateStatement", mk: TableCreateStatement::new, calls: vec![
            ("table", |s, _| { s.table(a("t")); }), ("columns", |s, k| { s.col(ColumnDef::new(a(if k % 2 == 0 { "c1" } else { "c2" })).integer()); }),
            ("options", |s, k| { if k % 2 == 0 { s.engine("InnoDB"); } else { s.collate("utf8mb4_unicode_ci"); } }), ("indexes", |s, _| { s.index(Index::create().unique().name("ix").col(a("c1"))); }),
            ("foreign_keys", |s, _| { s.foreign_key(ForeignKey::create().name("fk").from(a("t"), a("c1")).to(a("u"), a("id"))); }), ("if_not_exists", |s, _| { s.if_not_exists(); }),
            ("check", |s, k| { s.check(Expr::col(a("c1")).gt(k as i32)); }), ("comment", |s, _| { s.comment("cm"); }), ("extra", |s, _| { s.extra("EXTRA"); }), ("temporary", |s, _| { s.temporary(); })],
        take: Some(|s| s.take()), eq: dbg_eq, render: render_s, left_is_new: false, clearers: vec![] }, n);
    run_spec(ctx, &Spec::<TableAlterStatement> { name: "TableAlterStatement", mk: TableAlterStatement::new, calls: vec![
            ("table", |s, _| { s.table(a("t")); }), ("options", |s, k| { match k % 3 { 0 => { s.add_column(ColumnDef::new(a("n")).integer()); } 1 => { s.drop_column(a("d")); } _ => { s.rename_column(a("x"), a("y")); } } })],
        take: Some(|s| s.take()), eq: dbg_eq, render: render_s, left_is_new: false, clearers: vec![] }, n / 2);
    run_spec(ctx, &Spec::<IndexCreateStatement> { name: "IndexCreateStatement", mk: IndexCreateStatement::new, calls: vec![
            ("table", |s, _| { s.table(a("t")); }), ("index", |s, k| { if k % 2 == 0 { s.name("ix"); } else { s.col(a("c")); } }), ("primary", |s, _| { s.primary(); }), ("unique", |s, _| { s.unique(); }),
            ("nulls_not_distinct", |s, _| { s.nulls_not_distinct(); }), ("index_type", |s, k| { s.index_type(if k % 2 == 0 { IndexType::BTree } else { IndexType::Hash }); }), ("if_not_exists", |s, _| { s.if_not_exists(); }),
            ("where", |s, k| { s.and_where(Expr::col(a("c")).gt(k as i32)); }), ("include_columns", |s, _| { s.include(a("inc")); })],
        take: Some(|s| s.take()), eq: dbg_eq, render: render_s, left_is_new: false, clearers: vec![] }, n);
    run_spec(ctx, &Spec::<ForeignKeyCreateStatement> { name: "ForeignKeyCreateStatement", mk: ForeignKeyCreateStatement::new, calls: vec![
            ("name", |s, _| { s.name("fk"); }), ("from", |s, _| { s.from(a("t"), a("c")); }), ("to", |s, _| { s.to(a("u"), a("id")); }),
            ("on_delete", |s, k| { s.on_delete(if k % 2 == 0 { ForeignKeyAction::Cascade } else { ForeignKeyAction::SetNull }); }), ("on_update", |s, _| { s.on_update(ForeignKeyAction::Restrict); })],
        take: Some(|s| s.take()), eq: dbg_eq, render: render_s, left_is_new: false, clearers: vec![] }, n / 2);
    run_spec(ctx, &Spec::<TableDropStatement> { name: "TableDropStatement", mk: TableDropStatement::new, calls: vec![
            ("tables", |s, k| { s.table(a(if k % 2 == 0 { "t" } else { "u" })); }), ("options", |s, k| { if k % 2 == 0 { s.cascade(); } else { s.restrict(); } }), ("if_exists", |s, _| { s.if_exists(); })],
        take: Some(|s| s.take()), eq: dbg_eq, render: render_s, left_is_new: false, clearers: vec![] }, n / 3);
    run_spec(ctx, &Spec::<TableRenameStatement> { name: "TableRenameStatement", mk: TableRenameStatement::new, calls: vec![("names", |s, k| { s.table(a("t"), a(if k % 2 == 0 { "u" } else { "v" })); })],
        take: Some(|s| s.take()), eq: dbg_eq, render: render_s, left_is_new: false, clearers: vec![] }, n / 6);
    run_spec(ctx, &Spec::<TableTruncateStatement> { name: "TableTruncateStatement", mk: TableTruncateStatement::new, calls: vec![("table", |s, _| { s.table(a("t")); })],
        take: Some(|s| s.take()), eq: dbg_eq, render: render_s, left_is_new: false, clearers: vec![] }, n / 6);
    // clone-only statements
    run_spec(ctx, &Spec::<InsertStatement> { name: "InsertStatement", mk: InsertStatement::new, calls: vec![
            ("table", |s, _| { s.into_table(a("t")); }), ("columns", |s, _| { s.columns([a("x"), a("y")]); }), ("values", |s, k| { let _ = s.values([Expr::val(kv(k)).into(), Expr::val(1).into()]); }),
            ("returning", |s, _| { s.returning_col(a("x")); }), ("on_conflict", |s, _| { s.on_conflict(OnConflict::column(a("x")).update_column(a("y")).to_owned()); }), ("default_values", |s, _| { s.or_default_values(); })],
        take: None, eq: |x, y| x == y, render: render_q, left_is_new: false, clearers: vec![] }, n / 2);
    run_spec(ctx, &Spec::<UpdateStatement> { name: "UpdateStatement", mk: UpdateStatement::new, calls: vec![
            ("table", |s, _| { s.table(a("t")); }), ("values", |s, k| { s.value(a("x"), kv(k)); }), ("where", |s, k| { s.and_where(Expr::col(a("w")).eq(kv(k))); }),
            ("orders", |s, _| { s.order_by(a("o"), Order::Asc); }), ("limit", |s, k| { s.limit(k + 1); }), ("returning", |s, _| { s.returning_col(a("x")); }), ("from", |s, _| { s.from(a("f")); })],
        take: None, eq: |x, y| x == y, render: render_q, left_is_new: false, clearers: vec![("clear_order_by", "orders", |s| { s.clear_order_by(); })] }, n / 2);
    run_spec(ctx, &Spec::<DeleteStatement> { name: "DeleteStatement", mk: DeleteStatement::new, calls: vec![
            ("table", |s, _| { s.from_table(a("t")); }), ("where", |s, k| { s.and_where(Expr::col(a("w")).eq(kv(k))); }), ("orders", |s, _| { s.order_by(a("o"), Order::Desc); }),
            ("limit", |s, k| { s.limit(k + 1); }), ("returning", |s, _| { s.returning_all(); })],
        take: None, eq: |x, y| x == y, render: render_q, left_is_new: false, clearers: vec![("clear_order_by", "orders", |s| { s.clear_order_by(); })] }, n / 2);
}
