//! C09: statements from the portable feature subset are rendered for MySQL, Postgres and SQLite;
//! the MySQL and Postgres texts are transliterated token by token to SQLite spelling (identifier
//! quotes, placeholder style, literal syntax decoded by the source dialect's rules, set-operation
//! parentheses, the documented function-name substitutions) and all renderings — inline and
//! parameterised — are executed on SQLite together with the explicit reference rendering.
use crate::c07::*;
use crate::reflex::{self, B, Tok};
use crate::stmt::*;
use crate::*;
use std::io::Write as _;

fn sq_str(s: &str) -> String { format!("'{}'", s.replace('\'', "''")) }

/// MySQL writes `UPDATE t .. FROM f WHERE c` as `UPDATE t JOIN f ON c SET ..` (with the assigned columns qualified by the updated
/// table): back to the portable form `UPDATE t SET .. FROM f WHERE c`.  A qualifier on an assigned column must be the name under
/// which the updated table is in scope (its alias if it has one) and is dropped; anything else is reported.
fn mysql_update_join(toks: Vec<Tok>) -> Result<(Vec<Tok>, Option<Vec<usize>>), String> {
    let is_word = |t: &Tok, w: &str| matches!(t, Tok::Word(x) if x.eq_ignore_ascii_case(w));
    let punct = |t: &Tok, p: &str| matches!(t, Tok::Punct(x) if x == p);
    let mut depth = 0i32;
    let (mut upd, mut join, mut on, mut set) = (None, None, None, None);
    for (i, t) in toks.iter().enumerate() {
        if punct(t, "(") { depth += 1; } else if punct(t, ")") { depth -= 1; }
        if depth != 0 { continue; }
        if upd.is_none() { if is_word(t, "UPDATE") { upd = Some(i); } continue; }
        if set.is_none() && is_word(t, "SET") { set = Some(i); break; }
        if join.is_none() && is_word(t, "JOIN") { join = Some(i); }
        else if join.is_some() && on.is_none() && is_word(t, "ON") { on = Some(i); }
    }
    let (Some(u), Some(j), Some(o), Some(s)) = (upd, join, on, set) else { return Ok((toks, None)) };
    let target = &toks[u + 1..j];
    let visible = match target.iter().position(|t| is_word(t, "AS")) { Some(k) => target.get(k + 1), None => target.iter().rev().find(|t| matches!(t, Tok::Ident(_))) };
    let Some(Tok::Ident(visible)) = visible else { return Err("cannot tell the name of the updated table".into()) };
    // assignments: drop the qualifier of each assigned column
    let mut assigns: Vec<Tok> = Vec::new();
    let mut depth = 0i32; let mut at_start = true; let mut i = s + 1;
    while i < toks.len() {
        let t = &toks[i];
        if at_start && depth == 0 {
            if let (Tok::Ident(q), Some(dot), Some(Tok::Ident(_)), Some(eq)) = (t, toks.get(i + 1), toks.get(i + 2), toks.get(i + 3)) {
                if punct(dot, ".") && punct(eq, "=") {
                    if q != visible { return Err(format!("the assigned column is qualified with `{q}`, but the updated table is in scope as `{visible}`")); }
                    i += 2; at_start = false; continue;
                }
            }
        }
        at_start = false;
        if punct(t, "(") { depth += 1; } else if punct(t, ")") { depth -= 1; } else if depth == 0 && punct(t, ",") { at_start = true; }
        assigns.push(t.clone());
        i += 1;
    }
    let mut out: Vec<Tok> = toks[..=u].to_vec();
    out.extend_from_slice(target);
    out.push(Tok::Word("SET".into())); out.extend(assigns);
    out.push(Tok::Word("FROM".into())); out.extend_from_slice(&toks[j + 1..o]);
    out.push(Tok::Word("WHERE".into())); out.extend_from_slice(&toks[o + 1..s]);
    // the placeholders are positional: the values follow their clauses (original order: .. target, joined, ON, SET)
    let count = |r: std::ops::Range<usize>| toks[r].iter().filter(|t| matches!(t, Tok::Param(_))).count();
    let (n0, nt, nj, non, nset) = (count(0..u + 1), count(u + 1..j), count(j + 1..o), count(o + 1..s), count(s + 1..toks.len()));
    let base = |k: usize, n: usize| (k..k + n).collect::<Vec<usize>>();
    let mut perm = base(0, n0 + nt);
    perm.extend(base(n0 + nt + nj + non, nset)); perm.extend(base(n0 + nt, nj)); perm.extend(base(n0 + nt + nj, non));
    Ok((out, Some(perm)))
}

/// token-by-token transliteration of `sql` (dialect `b`) to SQLite spelling
pub fn translit(b: B, sql: &str) -> Result<(String, Option<Vec<usize>>), String> {
    let (mut toks, spans) = reflex::lex_impl(b, sql)?;
    // Postgres spells a byte string as the plain literal '\x<hex>' (a text value with a backslash is always written E'..'): decode it
    if b == B::Postgres {
        let cs: Vec<char> = sql.chars().collect();
        for (k, t) in toks.iter_mut().enumerate() {
            let plain = spans.get(k).map(|(a, _)| cs.get(*a) == Some(&'\'')).unwrap_or(false);
            if let Tok::Str(x) = t { if plain { if let Some(h) = x.strip_prefix("\\x") { if h.len() % 2 == 0 && h.chars().all(|c| c.is_ascii_hexdigit()) {
                *t = Tok::Bytes((0..h.len() / 2).map(|j| u8::from_str_radix(&h[2 * j..2 * j + 2], 16).unwrap()).collect());
            } } } }
        }
    }
    let (toks, perm) = if b == B::Mysql { mysql_update_join(toks)? } else { (toks, None) };
    // set-operation operands are parenthesised on MySQL / Postgres and must not be on SQLite
    let mut drop = vec![false; toks.len()];
    let is_word = |t: &Tok, w: &str| matches!(t, Tok::Word(x) if x.eq_ignore_ascii_case(w));
    let mut i = 0;
    while i < toks.len() {
        if is_word(&toks[i], "UNION") || is_word(&toks[i], "INTERSECT") || is_word(&toks[i], "EXCEPT") {
            let mut j = i + 1;
            if j < toks.len() && is_word(&toks[j], "ALL") { j += 1; }
            if j < toks.len() && toks[j] == Tok::Punct("(".into()) {
                let mut depth = 0i32; let mut k = j;
                while k < toks.len() { if toks[k] == Tok::Punct("(".into()) { depth += 1; } if toks[k] == Tok::Punct(")".into()) { depth -= 1; if depth == 0 { break; } } k += 1; }
                if k >= toks.len() { return Err("unbalanced set-operation operand".into()); }
                drop[j] = true; drop[k] = true;
            }
        }
        i += 1;
    }
    // a MySQL table value constructor spells its rows ROW(..): `( VALUES ROW ( .. ) , ROW ( .. ) )`; SQLite writes them bare
    if b == B::Mysql {
        let lp = Tok::Punct("(".into()); let rp = Tok::Punct(")".into()); let comma = Tok::Punct(",".into());
        let mut i = 0;
        while i + 1 < toks.len() {
            if toks[i] == lp && is_word(&toks[i + 1], "VALUES") {
                let mut j = i + 2;
                loop {
                    if j >= toks.len() || !is_word(&toks[j], "ROW") || toks.get(j + 1) != Some(&lp) { return Err("a row of a MySQL table value constructor is not written ROW(..)".into()); }
                    drop[j] = true;
                    let mut depth = 0i32; let mut k = j + 1;
                    while k < toks.len() { if toks[k] == lp { depth += 1; } if toks[k] == rp { depth -= 1; if depth == 0 { break; } } k += 1; }
                    if k >= toks.len() { return Err("unbalanced row of a table value constructor".into()); }
                    if toks.get(k + 1) == Some(&comma) { j = k + 2; } else { break; }
                }
            }
            i += 1;
        }
    }
    let mut out: Vec<String> = Vec::new();
    for (i, t) in toks.iter().enumerate() {
        if drop[i] { continue; }
        out.push(match t {
            Tok::Str(s) => sq_str(s), Tok::Bytes(v) => format!("x'{}'", hex(v)), Tok::Ident(n) => format!("\"{}\"", n.replace('"', "\"\"")),
            Tok::Word(w) => match w.to_ascii_uppercase().as_str() { "GREATEST" => "MAX".into(), "LEAST" => "MIN".into(), "CHAR_LENGTH" => "LENGTH".into(), "RAND" => "RANDOM".into(), _ => w.clone() },
            Tok::Num(n) => n.clone(), Tok::Param(_) => "?".into(), Tok::Punct(p) => p.clone(),
        });
    }
    Ok((out.join(" "), perm))
}

fn bind_json(v: &sea_query::Value) -> serde_json::Value {
    match crate::stmt::payload_of(v) {
        Some(Pay::Null) | None => serde_json::json!({"t": "null"}), Some(Pay::Bool(b)) => serde_json::json!({"t": "int", "v": b as i64}),
        Some(Pay::Int(i)) => serde_json::json!({"t": "int", "v": i.to_string()}), Some(Pay::Num(t)) => serde_json::json!({"t": "real", "v": t}),
        Some(Pay::Str(s)) | Some(Pay::Quoted(s)) => serde_json::json!({"t": "text", "v": s}), Some(Pay::Bytes(b)) => serde_json::json!({"t": "blob", "v": hex(&b)}),
    }
}

/// reduce a generated statement to the portable subset; `None` when nothing portable is left
fn portable(q: Query) -> Option<Query> {
    match q {
        Query::Sel(s) => Some(Query::Sel(s)),
        Query::With(w, q) => Some(Query::With(w, q)),
        Query::Ins(mut i) => { if matches!(i.source, Source::None) { return None; } i.replace = false; i.on_conflict = None; i.returning = Ret::None; i.default_values = None; Some(Query::Ins(i)) }
        Query::Upd(mut u) => { u.orders.clear(); u.limit = None; u.returning = Ret::None; Some(Query::Upd(u)) }
        Query::Del(mut d) => { d.orders.clear(); d.limit = None; d.returning = Ret::None; Some(Query::Del(d)) }
    }
}

pub fn run(ctx: &mut Ctx) {
    ctx.rule = "statements from the portable subset (no dialect-specific operator, function, join type, clause or type name) over the fixed schema of C07; each is rendered inline and parameterised for MySQL, Postgres and SQLite; the MySQL / Postgres texts are transliterated token by token to SQLite spelling with literals decoded by the source dialect's lexical rules; all six texts and the explicit reference rendering are executed on SQLite and must return the same rows and leave the same table contents".into();
    let n = if ctx.tier_thorough { 12000 } else { 1500 };
    let dir = std::env::var("VERIF_WORK").unwrap_or_else(|_| "/verif/work".into());
    let _ = std::fs::create_dir_all(&dir);
    let path = format!("{dir}/C09_cases.jsonl");
    let mut out = std::io::BufWriter::new(std::fs::File::create(&path).expect("cannot write cases file"));
    writeln!(out, "{}", serde_json::json!({"schema": SCHEMA})).unwrap();
    let mut rng = ctx.rng.fork();
    let mut made = 0;
    while made < n {
        let depth = match rng.below(10) { 0..=2 => 1, 3..=7 => 2, _ => 3 };
        let mut g = Gen7::portable(rng.fork());
        let Some(mut q) = portable(g.statement(depth)) else { continue };
        made += 1;
        // a VALUES list as a table is common to the three engines (only its column names are not): every 20th statement reads
        // one through `*` / COUNT(*), with rows of one, two or three values
        if made % 20 == 0 {
            let w = 1 + rng.below(3) as usize; let nrows = 1 + rng.below(3) as usize;
            let tys: Vec<char> = (0..w).map(|_| *rng.pick(&['i', 't', 'r'])).collect();
            let rows: Vec<Vec<crate::stmt::Val>> = (0..nrows).map(|_| tys.iter().map(|t| g.value7(*t)).collect()).collect();
            let mut s = Select::default();
            s.selects.push(SelItem { e: if rng.chance(1, 2) { Ex::Col(ColRef::Star) } else { Ex::Func(Fun::Std(6), false, vec![Ex::Col(ColRef::Star)]) }, win: WinSel::None, alias: None });
            s.from.push(TRef::Vals(rows, "v1".into()));
            q = Query::Sel(s);
        }
        let recipe = q.sexp();
        let Some(real) = catch(|| q.real()) else { ctx.count("build.panic"); continue };
        let mut forms = vec![serde_json::json!({"name": "explicit", "sql": xq(&q), "values": []})];
        let mut ok = true;
        for b in B::all() {
            // every backend's rendering also goes to the Lean model
            let r = crate::c01::render(&real, b);
            let sq = recipe.clone();
            ctx.case_norm(format!("stmt {} {recipe}", b.name()), crate::c01::expect_line(&r), true, &move || format!("{} {}", b.name(), sq), crate::c01::strip_flags(false));
            let Some(r) = r else { ctx.oracle_fail("a portable statement cannot be rendered (the crate panics)", serde_json::json!({"backend": b.name(), "recipe": recipe})); ok = false; continue };
            for (mode, text, vals) in [("inline", &r.inline, vec![]), ("param", &r.sql, r.values.iter().map(bind_json).collect::<Vec<_>>())] {
                let sql = if b == B::Sqlite { Ok((text.clone(), None)) } else { translit(b, text) };
                match sql {
                    Ok((sql, perm)) => { let vals = match &perm { Some(p) if p.len() == vals.len() => p.iter().map(|i| vals[*i].clone()).collect(), _ => vals }; forms.push(serde_json::json!({"name": format!("{}.{mode}", b.name()), "sql": sql, "values": vals, "original": text})) }
                    Err(e) => { ctx.oracle_fail(if e.starts_with("the assigned column") { "MySQL's UPDATE .. JOIN form of a portable UPDATE .. FROM names a table that is not in scope" } else { if e.starts_with("a row of a MySQL") { "MySQL requires the rows of a VALUES list used as a table to be written ROW(..)" } else { "a rendering of a portable statement does not lex under its engine's lexical rules" } }, serde_json::json!({"backend": b.name(), "mode": mode, "sql": text, "error": e, "recipe": recipe})); ok = false; }
                }
            }
        }
        ctx.count(match &q { Query::Sel(_) => "kind.select", Query::Ins(_) => "kind.insert", Query::Upd(_) => "kind.update", Query::Del(_) => "kind.delete", Query::With(_, _) => "kind.with" });
        if ok { writeln!(out, "{}", serde_json::json!({"recipe": recipe, "forms": forms, "class": if g.field_nulls { Some("C09.field_order_with_nulls") } else { None }})).unwrap(); }
    }
    out.flush().unwrap();
    ctx.notes.push(format!("engine cases written to {path}"));
    // call sequences (a setter called twice, an abbreviation) must build the statement their general form builds — on every backend,
    // or the three renderings part ways (e.g. a default row requested twice is one row on SQLite whatever the others write)
    crate::api::run(ctx);
}
