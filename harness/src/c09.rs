//! C09: statements from the portable feature subset are rendered for MySQL, Postgres and SQLite;
//! the MySQL and Postgres texts are transliterated token by token to SQLite spelling (identifier
//! quotes, placeholder style, literal syntax decoded by the source dialect's rules, set-operation
//! parentheses, the documented function-name substitutions) and all renderings — inline and
//! parameterised — are executed on SQLite together with the explicit reference rendering.
use crate::c07::*;
use crate::reflex::{self, B, Tok};
use crate::stmt::*;
use crate::*;
use std::io::Write as _;

fn sq_str(s: &str) -> String { format!("'{}'", s.replace('\'', "''")) }

/// token-by-token transliteration of `sql` (dialect `b`) to SQLite spelling
pub fn translit(b: B, sql: &str) -> Result<String, String> {
    let toks = reflex::lex(b, sql)?;
    // set-operation operands are parenthesised on MySQL / Postgres and must not be on SQLite
    let mut drop = vec![false; toks.len()];
    let is_word = |t: &Tok, w: &str| matches!(t, Tok::Word(x) if x.eq_ignore_ascii_case(w));
    let mut i = 0;
    while i < toks.len() {
        if is_word(&toks[i], "UNION") || is_word(&toks[i], "INTERSECT") || is_word(&toks[i], "EXCEPT") {
            let mut j = i + 1;
            if j < toks.len() && is_word(&toks[j], "ALL") { j += 1; }
            if j < toks.len() && toks[j] == Tok::Punct("(".into()) {
                let mut depth = 0i32; let mut k = j;
                while k < toks.len() { if toks[k] == Tok::Punct("(".into()) { depth += 1; } if toks[k] == Tok::Punct(")".into()) { depth -= 1; if depth == 0 { break; } } k += 1; }
                if k >= toks.len() { return Err("unbalanced set-operation operand".into()); }
                drop[j] = true; drop[k] = true;
            }
        }
        i += 1;
    }
    let mut out: Vec<String> = Vec::new();
    for (i, t) in toks.iter().enumerate() {
        if drop[i] { continue; }
        out.push(match t {
            Tok::Str(s) => sq_str(s), Tok::Bytes(v) => format!("x'{}'", hex(v)), Tok::Ident(n) => format!("\"{}\"", n.replace('"', "\"\"")),
            Tok::Word(w) => match w.to_ascii_uppercase().as_str() { "GREATEST" => "MAX".into(), "LEAST" => "MIN".into(), "CHAR_LENGTH" => "LENGTH".into(), "RAND" => "RANDOM".into(), _ => w.clone() },
            Tok::Num(n) => n.clone(), Tok::Param(_) => "?".into(), Tok::Punct(p) => p.clone(),
        });
    }
    Ok(out.join(" "))
}

fn bind_json(v: &sea_query::Value) -> serde_json::Value {
    match crate::stmt::payload_of(v) {
        Some(Pay::Null) | None => serde_json::json!({"t": "null"}), Some(Pay::Bool(b)) => serde_json::json!({"t": "int", "v": b as i64}),
        Some(Pay::Int(i)) => serde_json::json!({"t": "int", "v": i.to_string()}), Some(Pay::Num(t)) => serde_json::json!({"t": "real", "v": t}),
        Some(Pay::Str(s)) | Some(Pay::Quoted(s)) => serde_json::json!({"t": "text", "v": s}), Some(Pay::Bytes(b)) => serde_json::json!({"t": "blob", "v": hex(&b)}),
    }
}

/// reduce a generated statement to the portable subset; `None` when nothing portable is left
fn portable(q: Query) -> Option<Query> {
    match q {
        Query::Sel(s) => Some(Query::Sel(s)),
        Query::With(w, q) => Some(Query::With(w, q)),
        Query::Ins(mut i) => { if matches!(i.source, Source::None) { return None; } i.replace = false; i.on_conflict = None; i.returning = Ret::None; i.default_values = None; Some(Query::Ins(i)) }
        Query::Upd(mut u) => { if !u.from.is_empty() { return None; } u.orders.clear(); u.limit = None; u.returning = Ret::None; Some(Query::Upd(u)) }
        Query::Del(mut d) => { d.orders.clear(); d.limit = None; d.returning = Ret::None; Some(Query::Del(d)) }
    }
}

pub fn run(ctx: &mut Ctx) {
    ctx.rule = "statements from the portable subset (no dialect-specific operator, function, join type, clause or type name) over the fixed schema of C07; each is rendered inline and parameterised for MySQL, Postgres and SQLite; the MySQL / Postgres texts are transliterated token by token to SQLite spelling with literals decoded by the source dialect's lexical rules; all six texts and the explicit reference rendering are executed on SQLite and must return the same rows and leave the same table contents".into();
    let n = if ctx.tier_thorough { 12000 } else { 1500 };
    let dir = std::env::var("VERIF_WORK").unwrap_or_else(|_| "/verif/work".into());
    let _ = std::fs::create_dir_all(&dir);
    let path = format!("{dir}/C09_cases.jsonl");
    let mut out = std::io::BufWriter::new(std::fs::File::create(&path).expect("cannot write cases file"));
    writeln!(out, "{}", serde_json::json!({"schema": SCHEMA})).unwrap();
    let mut rng = ctx.rng.fork();
    let mut made = 0;
    while made < n {
        let depth = match rng.below(10) { 0..=2 => 1, 3..=7 => 2, _ => 3 };
        let mut g = Gen7::portable(rng.fork());
        let Some(q) = portable(g.statement(depth)) else { continue };
        made += 1;
        let recipe = q.sexp();
        let Some(real) = catch(|| q.real()) else { ctx.count("build.panic"); continue };
        let mut forms = vec![serde_json::json!({"name": "explicit", "sql": xq(&q), "values": []})];
        let mut ok = true;
        for b in B::all() {
            // every backend's rendering also goes to the Lean model
            let r = crate::c01::render(&real, b);
            let sq = recipe.clone();
            ctx.case_norm(format!("stmt {} {recipe}", b.name()), crate::c01::expect_line(&r), true, &move || format!("{} {}", b.name(), sq), crate::c01::strip_flags(false));
            let Some(r) = r else { ctx.oracle_fail("a portable statement cannot be rendered (the crate panics)", serde_json::json!({"backend": b.name(), "recipe": recipe})); ok = false; continue };
            for (mode, text, vals) in [("inline", &r.inline, vec![]), ("param", &r.sql, r.values.iter().map(bind_json).collect::<Vec<_>>())] {
                let sql = if b == B::Sqlite { Ok(text.clone()) } else { translit(b, text) };
                match sql {
                    Ok(sql) => forms.push(serde_json::json!({"name": format!("{}.{mode}", b.name()), "sql": sql, "values": vals, "original": text})),
                    Err(e) => { ctx.oracle_fail("a rendering of a portable statement does not lex under its engine's lexical rules", serde_json::json!({"backend": b.name(), "mode": mode, "sql": text, "error": e, "recipe": recipe})); ok = false; }
                }
            }
        }
        ctx.count(match &q { Query::Sel(_) => "kind.select", Query::Ins(_) => "kind.insert", Query::Upd(_) => "kind.update", Query::Del(_) => "kind.delete", Query::With(_, _) => "kind.with" });
        if ok { writeln!(out, "{}", serde_json::json!({"recipe": recipe, "forms": forms, "class": if g.field_nulls { Some("C09.field_order_with_nulls") } else { None }})).unwrap(); }
    }
    out.flush().unwrap();
    ctx.notes.push(format!("engine cases written to {path}"));
}
