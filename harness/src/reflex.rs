//! Reference lexers of the three engines (independent of the crate and of the Lean model).
//! Used as implementation-level oracle: what would MySQL 8 / PostgreSQL 16 / SQLite 3 see?
//! Transcribed from the manuals (MySQL 8.0 §9.1, PostgreSQL 16 §4.1, SQLite tokenize.c).

#[derive(Clone, Copy, PartialEq, Eq, Debug)]
pub enum B { Mysql, Postgres, Sqlite }

impl B {
    pub fn name(self) -> &'static str { match self { B::Mysql => "mysql", B::Postgres => "postgres", B::Sqlite => "sqlite" } }
    pub fn all() -> [B; 3] { [B::Mysql, B::Postgres, B::Sqlite] }
    pub fn quote(self) -> char { if self == B::Mysql { '`' } else { '"' } }
}

#[derive(Clone, PartialEq, Eq, Debug)]
pub enum Tok {
    Str(String),
    Bytes(Vec<u8>),
    Ident(String),
    Word(String),
    Num(String),
    /// `?` (None) or `$n` / `?n` (Some(n))
    Param(Option<u32>),
    Punct(String),
}

fn is_word_start(c: char) -> bool { c.is_ascii_alphabetic() || c == '_' || (c as u32) >= 0x80 }
fn is_word(c: char) -> bool { c.is_ascii_alphanumeric() || c == '_' || c == '$' || (c as u32) >= 0x80 }

/// quoted identifier / plain string: closing quote doubled = one quote; nothing else special
fn scan_doubled(cs: &[char], mut i: usize, close: char) -> Result<(String, usize), String> {
    let mut out = String::new();
    loop {
        if i >= cs.len() { return Err("unterminated quoted text".into()); }
        let c = cs[i];
        if c == close {
            if i + 1 < cs.len() && cs[i + 1] == close { out.push(close); i += 2; continue; }
            return Ok((out, i + 1));
        }
        out.push(c);
        i += 1;
    }
}

/// MySQL string body (default sql_mode): backslash escapes + doubled quote
fn scan_mysql_str(cs: &[char], mut i: usize, close: char) -> Result<(String, usize), String> {
    let mut out = String::new();
    loop {
        if i >= cs.len() { return Err("unterminated string".into()); }
        let c = cs[i];
        if c == close {
            if i + 1 < cs.len() && cs[i + 1] == close { out.push(close); i += 2; continue; }
            return Ok((out, i + 1));
        }
        if c == '\\' {
            if i + 1 >= cs.len() { return Err("unterminated string (trailing backslash)".into()); }
            let n = cs[i + 1];
            match n {
                '0' => out.push('\0'),
                'b' => out.push('\x08'),
                'n' => out.push('\n'),
                'r' => out.push('\r'),
                't' => out.push('\t'),
                'Z' => out.push('\x1a'),
                '%' => { out.push('\\'); out.push('%'); }
                '_' => { out.push('\\'); out.push('_'); }
                other => out.push(other),
            }
            i += 2;
            continue;
        }
        out.push(c);
        i += 1;
    }
}

/// PostgreSQL E'…' body
fn scan_pg_estr(cs: &[char], mut i: usize) -> Result<(String, usize), String> {
    let mut out = String::new();
    loop {
        if i >= cs.len() { return Err("unterminated string".into()); }
        let c = cs[i];
        if c == '\'' {
            if i + 1 < cs.len() && cs[i + 1] == '\'' { out.push('\''); i += 2; continue; }
            return Ok((out, i + 1));
        }
        if c == '\\' {
            if i + 1 >= cs.len() { return Err("unterminated string (trailing backslash)".into()); }
            let n = cs[i + 1];
            i += 2;
            match n {
                'b' => out.push('\x08'),
                'f' => out.push('\x0c'),
                'n' => out.push('\n'),
                'r' => out.push('\r'),
                't' => out.push('\t'),
                '0'..='7' => {
                    let mut v = n.to_digit(8).unwrap();
                    let mut k = 0;
                    while k < 2 && i < cs.len() && ('0'..='7').contains(&cs[i]) { v = v * 8 + cs[i].to_digit(8).unwrap(); i += 1; k += 1; }
                    let v = v & 0xff;
                    if v == 0 { return Err("invalid byte sequence: \\0 in E'' string".into()); }
                    if v >= 0x80 { return Err("octal escape >= 0x80 (encoding dependent)".into()); }
                    out.push(v as u8 as char);
                }
                'x' => {
                    let mut v = 0u32; let mut k = 0;
                    while k < 2 && i < cs.len() && cs[i].is_ascii_hexdigit() { v = v * 16 + cs[i].to_digit(16).unwrap(); i += 1; k += 1; }
                    if k == 0 { out.push('x'); } else {
                        if v == 0 { return Err("invalid byte sequence: \\x00".into()); }
                        if v >= 0x80 { return Err("hex escape >= 0x80 (encoding dependent)".into()); }
                        out.push(v as u8 as char);
                    }
                }
                'u' | 'U' => {
                    let want = if n == 'u' { 4 } else { 8 };
                    let mut v = 0u32; let mut k = 0;
                    while k < want && i < cs.len() && cs[i].is_ascii_hexdigit() { v = v * 16 + cs[i].to_digit(16).unwrap(); i += 1; k += 1; }
                    if k != want { return Err("invalid Unicode escape".into()); }
                    match char::from_u32(v) { Some(ch) if v != 0 => out.push(ch), _ => return Err("invalid Unicode escape value".into()) }
                }
                other => out.push(other),
            }
            continue;
        }
        out.push(c);
        i += 1;
    }
}

fn scan_hex(cs: &[char], mut i: usize) -> Result<(Vec<u8>, usize), String> {
    let mut out = Vec::new();
    loop {
        if i >= cs.len() { return Err("unterminated hex literal".into()); }
        if cs[i] == '\'' { return Ok((out, i + 1)); }
        if i + 1 >= cs.len() { return Err("odd hex literal".into()); }
        let h = cs[i].to_digit(16).ok_or("bad hex digit")?;
        let l = cs[i + 1].to_digit(16).ok_or("bad hex digit")?;
        out.push((h * 16 + l) as u8);
        i += 2;
    }
}

const PG_OP_CHARS: &str = "+-*/<>=~!@#%^&|`?";
const MULTI_OPS: [&str; 14] = ["<=>", "->>", "<<", ">>", "<=", ">=", "<>", "!=", "==", "||", "&&", "->", ":=", "::"];

pub fn lex(b: B, sql: &str) -> Result<Vec<Tok>, String> { lex_impl(b, sql).map(|x| x.0) }

/// byte spans (start, end, number) of the placeholder tokens of `sql`, in reading order
pub fn param_spans(b: B, sql: &str) -> Result<Vec<(usize, usize, Option<u32>)>, String> {
    let (toks, spans) = lex_impl(b, sql)?;
    let offs: Vec<usize> = sql.char_indices().map(|(i, _)| i).chain(std::iter::once(sql.len())).collect();
    Ok(toks.iter().zip(spans.iter()).filter_map(|(t, (s, e))| if let Tok::Param(p) = t { Some((offs[*s], offs[*e], *p)) } else { None }).collect())
}

/// tokens with their (start, end) character spans
pub fn lex_impl(b: B, sql: &str) -> Result<(Vec<Tok>, Vec<(usize, usize)>), String> {
    let cs: Vec<char> = sql.chars().collect();
    let mut i = 0;
    let mut out: Vec<Tok> = Vec::new();
    let mut spans: Vec<(usize, usize)> = Vec::new();
    let mut start = 0;
    while i < cs.len() {
        if out.len() > spans.len() { spans.push((start, i)); }
        let c = cs[i];
        if c == ' ' || c == '\t' || c == '\n' || c == '\r' || c == '\x0c' { i += 1; continue; }
        start = i;
        // comments are never produced by the crate on purpose: flag them
        if c == '-' && i + 1 < cs.len() && cs[i + 1] == '-' { return Err(format!("comment start `--` at {i}")); }
        if c == '/' && i + 1 < cs.len() && cs[i + 1] == '*' { return Err(format!("comment start `/*` at {i}")); }
        if c == '#' && b == B::Mysql { return Err(format!("comment start `#` at {i}")); }
        if c == '\0' { return Err("NUL in statement text".into()); }
        // strings
        if c == '\'' {
            let (s, j) = match b {
                B::Mysql => scan_mysql_str(&cs, i + 1, '\'')?,
                _ => scan_doubled(&cs, i + 1, '\'')?,
            };
            out.push(Tok::Str(s)); i = j; continue;
        }
        if c == '"' {
            match b {
                B::Mysql => { let (s, j) = scan_mysql_str(&cs, i + 1, '"')?; out.push(Tok::Str(s)); i = j; }
                _ => { let (s, j) = scan_doubled(&cs, i + 1, '"')?; out.push(Tok::Ident(s)); i = j; }
            }
            continue;
        }
        if c == '`' {
            match b {
                B::Postgres => { out.push(Tok::Punct("`".into())); i += 1; }
                _ => { let (s, j) = scan_doubled(&cs, i + 1, '`')?; out.push(Tok::Ident(s)); i = j; }
            }
            continue;
        }
        if c == '[' && b == B::Sqlite {
            let mut j = i + 1; let mut s = String::new();
            while j < cs.len() && cs[j] != ']' { s.push(cs[j]); j += 1; }
            if j >= cs.len() { return Err("unterminated [identifier]".into()); }
            out.push(Tok::Ident(s)); i = j + 1; continue;
        }
        // prefixed literals
        if (c == 'x' || c == 'X') && i + 1 < cs.len() && cs[i + 1] == '\'' {
            let (v, j) = scan_hex(&cs, i + 2)?;
            out.push(Tok::Bytes(v)); i = j; continue;
        }
        if (c == 'E' || c == 'e') && b == B::Postgres && i + 1 < cs.len() && cs[i + 1] == '\'' {
            let (s, j) = scan_pg_estr(&cs, i + 2)?;
            out.push(Tok::Str(s)); i = j; continue;
        }
        // placeholders
        if c == '?' && b != B::Postgres {
            let mut j = i + 1; let mut n = String::new();
            if b == B::Sqlite { while j < cs.len() && cs[j].is_ascii_digit() { n.push(cs[j]); j += 1; } }
            out.push(Tok::Param(if n.is_empty() { None } else { n.parse().ok() })); i = j; continue;
        }
        if c == '$' && b == B::Postgres {
            let mut j = i + 1; let mut n = String::new();
            while j < cs.len() && cs[j].is_ascii_digit() { n.push(cs[j]); j += 1; }
            if n.is_empty() { return Err(format!("`$` not followed by a parameter number at {i}")); }
            if j < cs.len() && is_word_start(cs[j]) { return Err(format!("trailing junk after parameter `${n}` at {j}")); }
            out.push(Tok::Param(n.parse().ok())); i = j; continue;
        }
        // numbers / words
        if c.is_ascii_digit() || (c == '.' && i + 1 < cs.len() && cs[i + 1].is_ascii_digit()) {
            let mut j = i; let mut s = String::new();
            while j < cs.len() && cs[j].is_ascii_digit() { s.push(cs[j]); j += 1; }
            if j < cs.len() && cs[j] == '.' { s.push('.'); j += 1; while j < cs.len() && cs[j].is_ascii_digit() { s.push(cs[j]); j += 1; } }
            if j < cs.len() && (cs[j] == 'e' || cs[j] == 'E') {
                let mut k = j + 1;
                if k < cs.len() && (cs[k] == '+' || cs[k] == '-') { k += 1; }
                if k < cs.len() && cs[k].is_ascii_digit() {
                    s.push('e'); for x in &cs[j + 1..k] { s.push(*x); }
                    while k < cs.len() && cs[k].is_ascii_digit() { s.push(cs[k]); k += 1; }
                    j = k;
                }
            }
            if j < cs.len() && is_word(cs[j]) {
                // digits immediately followed by word characters
                match b {
                    B::Mysql => {
                        // MySQL lexes e.g. `1PRECEDING` as an identifier
                        let mut w = s.clone();
                        while j < cs.len() && is_word(cs[j]) { w.push(cs[j]); j += 1; }
                        out.push(Tok::Word(w)); i = j; continue;
                    }
                    _ => return Err(format!("trailing junk after numeric literal `{s}` at {j}")),
                }
            }
            out.push(Tok::Num(s)); i = j; continue;
        }
        if is_word_start(c) || (c == '$' && b != B::Postgres) || (c == '@' && b == B::Mysql) {
            let mut j = i; let mut s = String::new();
            while j < cs.len() && (is_word(cs[j]) || (j == i && cs[j] == '@')) { s.push(cs[j]); j += 1; }
            out.push(Tok::Word(s)); i = j; continue;
        }
        // operators / punctuation
        if "(),.;[]{}:".contains(c) && !(c == ':' && i + 1 < cs.len() && (cs[i + 1] == ':' || cs[i + 1] == '=')) {
            out.push(Tok::Punct(c.to_string())); i += 1; continue;
        }
        if b == B::Postgres && PG_OP_CHARS.contains(c) {
            let mut j = i; let mut s = String::new();
            while j < cs.len() && PG_OP_CHARS.contains(cs[j]) {
                if cs[j] == '-' && j + 1 < cs.len() && cs[j + 1] == '-' { break; }
                if cs[j] == '/' && j + 1 < cs.len() && cs[j + 1] == '*' { break; }
                s.push(cs[j]); j += 1;
            }
            // a multi-character operator cannot end in + or - unless it contains ~!@#%^&|`?
            while s.len() > 1 && (s.ends_with('+') || s.ends_with('-')) && !s.chars().any(|x| "~!@#%^&|`?".contains(x)) { s.pop(); j -= 1; }
            out.push(Tok::Punct(s)); i = j; continue;
        }
        let rest: String = cs[i..(i + 3).min(cs.len())].iter().collect();
        if let Some(op) = MULTI_OPS.iter().find(|op| rest.starts_with(**op)) {
            out.push(Tok::Punct(op.to_string())); i += op.chars().count(); continue;
        }
        if "+-*/%<>=!&|^~@:".contains(c) { out.push(Tok::Punct(c.to_string())); i += 1; continue; }
        return Err(format!("unexpected character {:?} at {i}", c));
    }
    if out.len() > spans.len() { spans.push((start, i)); }
    Ok((out, spans))
}

pub fn strings(toks: &[Tok]) -> Vec<String> { toks.iter().filter_map(|t| if let Tok::Str(s) = t { Some(s.clone()) } else { None }).collect() }
pub fn idents(toks: &[Tok]) -> Vec<String> { toks.iter().filter_map(|t| if let Tok::Ident(s) = t { Some(s.clone()) } else { None }).collect() }
pub fn params(toks: &[Tok]) -> Vec<Option<u32>> { toks.iter().filter_map(|t| if let Tok::Param(p) = t { Some(*p) } else { None }).collect() }
