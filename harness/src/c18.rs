//! C18: Value equality / hashing coherence (hashable-value): pairs and triples over a pool.
use crate::c12::tag;
use crate::*;
use sea_query::*;
use std::collections::hash_map::DefaultHasher;
use std::collections::HashSet;
use std::hash::{Hash, Hasher};

fn h(v: &Value) -> u64 { let mut s = DefaultHasher::new(); v.hash(&mut s); s.finish() }
fn ht(v: &ValueTuple) -> u64 { let mut s = DefaultHasher::new(); v.hash(&mut s); s.finish() }

fn fsexp(bits: u64, exp_mask: u64, man_mask: u64, sign: u64) -> String {
    let neg = (bits & sign != 0) as u8;
    if bits & exp_mask == exp_mask && bits & man_mask != 0 { format!("(nan {} {})", bits & man_mask, neg) }
    else if bits & !sign == 0 { format!("(zero {neg})") } else { format!("(num {bits})") }
}
fn f32s(x: f32) -> String { fsexp(x.to_bits() as u64, 0x7f80_0000, 0x007f_ffff, 0x8000_0000) }
fn f64s(x: f64) -> String { fsexp(x.to_bits(), 0x7ff0_0000_0000_0000, 0x000f_ffff_ffff_ffff, 1 << 63) }

const TAGS: [&str; 32] = ["Bool", "TinyInt", "SmallInt", "Int", "BigInt", "TinyUnsigned", "SmallUnsigned", "Unsigned", "BigUnsigned", "Float", "Double", "String", "Char", "Bytes", "Json", "ChronoDate", "ChronoTime", "ChronoDateTime", "ChronoDateTimeUtc", "ChronoDateTimeLocal", "ChronoDateTimeWithTimeZone", "TimeDate", "TimeTime", "TimeDateTime", "TimeDateTimeWithTimeZone", "Uuid", "Decimal", "BigDecimal", "Array", "Vector", "IpNetwork", "MacAddress"];

/// model syntax of a value; payload codes for derived-equality variants come from a table of Debug strings
fn vsexp(v: &Value, codes: &mut Vec<String>) -> String {
    let t = TAGS.iter().position(|x| *x == tag(v)).unwrap();
    let null = crate::c12::is_null(v);
    match v {
        Value::Float(x) => match x { None => format!("(f {t} n)"), Some(x) => format!("(f {t} {})", f32s(*x)) },
        Value::Double(x) => match x { None => format!("(f {t} n)"), Some(x) => format!("(f {t} {})", f64s(*x)) },
        Value::Json(x) => match x { None => "(j n)".into(), Some(j) => { let k = serde_json::to_string(j).unwrap(); format!("(j {})", code(codes, k)) } },
        Value::Vector(x) => match x { None => "(v n)".into(), Some(vv) => format!("(v l{})", vv.as_slice().iter().map(|e| format!(" {}", f32s(*e))).collect::<String>()) },
        Value::Array(ty, x) => { let tyc = code(codes, format!("arrty:{:?}", ty)); match x { None => format!("(a {tyc} n)"), Some(vs) => format!("(a {tyc} l{})", vs.iter().map(|e| format!(" {}", vsexp(e, codes))).collect::<String>()) } }
        // payloads whose own equality is coarser than their text: the code is taken from a canonical form
        Value::ChronoDateTimeWithTimeZone(Some(dt)) => format!("(p {t} {})", code(codes, format!("instant:{:?}", dt.naive_utc()))),
        Value::TimeDateTimeWithTimeZone(Some(dt)) => format!("(p {t} {})", code(codes, format!("instant:{}", dt.unix_timestamp_nanos()))),
        Value::Decimal(Some(x)) => format!("(p {t} {})", code(codes, format!("dec:{}", x.normalize()))),
        Value::BigDecimal(Some(x)) => format!("(p {t} {})", code(codes, format!("big:{}", x.normalized()))),
        _ => if null { format!("(p {t} n)") } else { format!("(p {t} {})", code(codes, format!("{:?}", v))) },
    }
}
fn code(codes: &mut Vec<String>, k: String) -> usize { if let Some(i) = codes.iter().position(|x| *x == k) { i } else { codes.push(k); codes.len() - 1 } }

pub fn value_pool(r: &mut SplitMix64, extra: usize) -> Vec<Value> {
    let mut p = crate::c12::pool();
    let f32bits = [0u32, 0x8000_0000, 0x7fc0_0000, 0x7fc0_0001, 0xffc0_0000, 0x7f80_0001, 0x7f80_0000, 0xff80_0000, 1, 0x8000_0001, 0x3f80_0000];
    for b in f32bits { p.push(f32::from_bits(b).into()); }
    let f64bits = [0u64, 1 << 63, 0x7ff8_0000_0000_0000, 0x7ff8_0000_0000_0001, 0xfff8_0000_0000_0000, 0x7ff0_0000_0000_0001, 0x7ff0_0000_0000_0000, 0xfff0_0000_0000_0000, 1, 0x3ff0_0000_0000_0000];
    for b in f64bits { p.push(f64::from_bits(b).into()); }
    p.push(serde_json::json!({"a": 1, "b": [1, 2]}).into()); p.push(serde_json::json!({"b": [1, 2], "a": 1}).into());
    for j in [serde_json::json!(0.0), serde_json::json!(-0.0), serde_json::json!(0), serde_json::json!({"a": 0.0}), serde_json::json!({"a": -0.0}), serde_json::json!([0.0, 1]), serde_json::json!([-0.0, 1]),
        serde_json::json!(1), serde_json::json!(1.0), serde_json::json!({"k": {"n": [{"z": -0.0}]}}), serde_json::json!({"k": {"n": [{"z": 0.0}]}}), serde_json::json!(1e300), serde_json::json!(u64::MAX), serde_json::json!(-1)] { p.push(j.into()); }
    p.push(serde_json::Value::Null.into()); p.push(serde_json::json!("null").into()); p.push(serde_json::json!({"a": 1.0}).into());
    for v in [vec![], vec![0.0f32], vec![-0.0], vec![f32::NAN], vec![1.0, 2.0], vec![1.0, 2.0, 3.0], vec![1.0], vec![f32::from_bits(0xffc0_0000), 2.0]] { p.push(pgvector::Vector::from(v).into()); }
    p.push(Vec::<i32>::new().into()); p.push(Vec::<i64>::new().into()); p.push(vec![1i32].into()); p.push(vec![1i32, 2].into()); p.push(vec![0.0f64].into()); p.push(vec![-0.0f64].into()); p.push(vec![f64::NAN].into());
    p.push(Value::Array(ArrayType::Int, Some(Box::new(vec![Value::Array(ArrayType::Float, Some(Box::new(vec![0.0f32.into(), f32::NAN.into()]))), Value::Int(None)]))));
    p.push(Value::Array(ArrayType::Int, Some(Box::new(vec![Value::Array(ArrayType::Float, Some(Box::new(vec![(-0.0f32).into(), f32::from_bits(0x7fc0_0005).into()]))), Value::Int(None)]))));
    p.push(Value::Array(ArrayType::Int, Some(Box::new(vec![Value::Array(ArrayType::Float, Some(Box::new(vec![0.0f32.into()]))), Value::Int(None)]))));
    // NULL arrays of different element types, alone and nested
    for ty in [ArrayType::Int, ArrayType::String, ArrayType::Float, ArrayType::Bool] { p.push(Value::Array(ty, None)); }
    p.push(Value::Array(ArrayType::Int, Some(Box::new(vec![Value::Array(ArrayType::Int, None)]))));
    p.push(Value::Array(ArrayType::Int, Some(Box::new(vec![Value::Array(ArrayType::String, None)]))));
    // the same instant written in different offsets (equal), the same wall-clock reading in different offsets (different)
    { use chrono::TimeZone;
      let inst = chrono::Utc.with_ymd_and_hms(2024, 3, 10, 12, 0, 0).unwrap();
      for secs in [0, 8 * 3600, -5 * 3600, 1800] { p.push(inst.with_timezone(&chrono::FixedOffset::east_opt(secs).unwrap()).into()); }
      for secs in [0, 8 * 3600] { p.push(chrono::FixedOffset::east_opt(secs).unwrap().with_ymd_and_hms(2024, 3, 10, 12, 0, 0).unwrap().into()); }
      p.push(inst.into()); p.push(inst.with_timezone(&chrono::Local).into());
      let t0 = time::OffsetDateTime::from_unix_timestamp(1_710_072_000).unwrap();
      for h in [0i8, 8, -5] { p.push(t0.to_offset(time::UtcOffset::from_hms(h, 0, 0).unwrap()).into()); }
    }
    // numerically equal decimals with different scales
    for t in ["1.0", "1.00", "1", "-0", "0.0", "100", "1e2"] { if let Ok(d) = t.parse::<rust_decimal::Decimal>() { p.push(d.into()); } if let Ok(d) = t.parse::<bigdecimal::BigDecimal>() { p.push(d.into()); } }
    p.push("".into()); p.push("s".into()); p.push(String::from("s").into()); p.push(0i32.into()); p.push(0i64.into()); p.push(0u8.into()); p.push(false.into());
    p.push(Vec::<u8>::new().into()); p.push(vec![0u8].into()); p.push('\0'.into());
    for _ in 0..extra {
        match r.below(6) { 0 => p.push(f32::from_bits(r.next() as u32).into()), 1 => p.push(f64::from_bits(r.next()).into()), 2 => p.push((r.next() as i32 % 3).into()),
            3 => { let n = r.below(3); p.push(pgvector::Vector::from((0..n).map(|_| *r.pick(&[0.0f32, -0.0, f32::NAN, 1.0])).collect::<Vec<f32>>()).into()) }
            4 => { let n = r.below(3); p.push((0..n).map(|_| *r.pick(&[0.0f64, -0.0, f64::NAN, 1.0])).collect::<Vec<f64>>().into()) }
            _ => p.push(random_string(r, 2).into()) }
    }
    p
}

pub fn run(ctx: &mut Ctx) {
    let thorough = ctx.tier_thorough;
    let extra = if thorough { 120 } else { 40 };
    let mut r = ctx.rng.fork();
    let pool = value_pool(&mut r, extra);
    let n = pool.len();
    ctx.rule = format!("pool of {n} values: every variant (one non-NULL, one NULL), NaNs with different payloads and signs, +0/-0, infinities, subnormals for f32 and f64, JSON with permuted keys / null / \"null\" / +0.0 and -0.0 at several depths / 1 and 1.0, vectors (empty, prefixes, NaN, -0), arrays (empty of two element types, NULL of four element types alone and nested, nested with floats), date-times with the same instant in different offsets and the same reading in different offsets, decimals equal up to scale, empty and equal strings/bytes, plus {extra} random values; ALL ordered pairs (==, hash with a fixed DefaultHasher, symmetry, variant separation, model agreement) and ALL triples for transitivity; HashSet membership; ValueTuple: all pairs and triples of ~200 tuples of every shape (One / Two / Three / Many of length 0..4) over ten members (==, hash, reflexive / symmetric / transitive, HashSet lookup). Non-trivial = every pair; distinct by pair.");
    let mut codes: Vec<String> = Vec::new();
    let sx: Vec<String> = pool.iter().map(|v| vsexp(v, &mut codes)).collect();
    let hs: Vec<u64> = pool.iter().map(h).collect();
    let mut eqm = vec![vec![false; n]; n];
    for i in 0..n { for j in 0..n {
        let e = pool[i] == pool[j];
        eqm[i][j] = e;
        let hk = hs[i] == hs[j];
        // the model predicts equality exactly; equal keys imply equal hashes (the converse need not hold)
        let (a, b) = (sx[i].clone(), sx[j].clone());
        ctx.case_norm(format!("veq {} {}", sx[i], sx[j]), format!("eq {}", e as u8), true, &|| format!("{} == {}", a, b), Box::new(|m: &str| m.split(" hk").next().unwrap_or("").to_string()));
        if e && !hk { ctx.oracle_fail("equal values hash differently", serde_json::json!({"a": format!("{:?}", pool[i]), "b": format!("{:?}", pool[j])})); }
        if e && tag(&pool[i]) != tag(&pool[j]) { ctx.oracle_fail("values of different variants compare equal", serde_json::json!({"a": format!("{:?}", pool[i]), "b": format!("{:?}", pool[j])})); }
        if i == j && !e { ctx.oracle_fail("equality is not reflexive", serde_json::json!({"a": format!("{:?}", pool[i])})); }
        // equal payloads (same Debug text) must be equal
        if !e && format!("{:?}", pool[i]) == format!("{:?}", pool[j]) && !format!("{:?}", pool[i]).contains("NaN") { ctx.oracle_fail("values with equal payloads are not equal", serde_json::json!({"a": format!("{:?}", pool[i])})); }
    } }
    for i in 0..n { for j in 0..n { if eqm[i][j] != eqm[j][i] { ctx.oracle_fail("equality is not symmetric", serde_json::json!({"a": format!("{:?}", pool[i]), "b": format!("{:?}", pool[j])})); } } }
    for i in 0..n { for j in 0..n { if !eqm[i][j] { continue; } for k in 0..n {
        ctx.evaluations += 0;
        if eqm[j][k] && !eqm[i][k] { ctx.oracle_fail("equality is not transitive", serde_json::json!({"a": format!("{:?}", pool[i]), "b": format!("{:?}", pool[j]), "c": format!("{:?}", pool[k])})); }
    } } }
    ctx.count(&format!("pool.{n}"));
    ctx.count(&format!("triples.{}", n * n * n));
    // HashSet membership agrees with ==
    let set: HashSet<Value> = pool.iter().cloned().collect();
    for v in &pool { ctx.eval_only(&format!("set {:?}", v), true); if !set.contains(v) { ctx.oracle_fail("a value inserted into a HashSet is not found again", serde_json::json!({"a": format!("{:?}", v)})); } }
    let classes = (0..n).filter(|i| (0..*i).all(|j| !eqm[*i][j])).count();
    if set.len() != classes { ctx.oracle_fail("HashSet size differs from the number of equality classes", serde_json::json!({"set": set.len(), "classes": classes})); }
    // value tuples
    for i in (0..n).step_by(3) { for j in (0..n).step_by(5) {
        let (a, b) = (ValueTuple::Two(pool[i].clone(), pool[j].clone()), ValueTuple::Two(pool[j].clone(), pool[i].clone()));
        let (c, d) = (ValueTuple::Many(vec![pool[i].clone(), pool[j].clone()]), ValueTuple::Two(pool[i].clone(), pool[j].clone()));
        ctx.eval_only(&format!("tuple {i} {j}"), true);
        if (a == b) != (eqm[i][j] && eqm[j][i]) { ctx.oracle_fail("ValueTuple equality is not component-wise", serde_json::json!({"i": i, "j": j})); }
        if a == b && ht(&a) != ht(&b) { ctx.oracle_fail("equal ValueTuples hash differently", serde_json::json!({"a": format!("{:?}", a)})); }
        if d == ValueTuple::Two(pool[i].clone(), pool[j].clone()) && ht(&d) != ht(&ValueTuple::Two(pool[i].clone(), pool[j].clone())) { ctx.oracle_fail("equal ValueTuples hash differently", serde_json::json!({})); }
        let _ = c;
    } }
    // value tuples of every shape over a small member pool: equality must be an equivalence and agree with hashing, whatever
    // the shapes are (One / Two / Three / Many of any length)
    let members: Vec<Value> = vec![1i32.into(), 1i64.into(), 2i32.into(), Value::Int(None), f64::NAN.into(), 0.0f64.into(), (-0.0f64).into(), "s".into(), serde_json::json!({"a": 1, "b": 2}).into(), serde_json::json!({"b": 2, "a": 1}).into()];
    let m = members.len();
    let mut tuples: Vec<ValueTuple> = vec![ValueTuple::Many(vec![])];
    for a in 0..m {
        tuples.push(ValueTuple::One(members[a].clone())); tuples.push(ValueTuple::Many(vec![members[a].clone()]));
        for b in 0..m {
            if (a + b) % 2 == 1 { continue; }
            tuples.push(ValueTuple::Two(members[a].clone(), members[b].clone())); tuples.push(ValueTuple::Many(vec![members[a].clone(), members[b].clone()]));
            let c = (a + 2 * b) % m;
            tuples.push(ValueTuple::Three(members[a].clone(), members[b].clone(), members[c].clone())); tuples.push(ValueTuple::Many(vec![members[a].clone(), members[b].clone(), members[c].clone()]));
            if a == b { tuples.push(ValueTuple::Many(vec![members[a].clone(), members[b].clone(), members[c].clone(), members[a].clone()])); }
        }
    }
    let nt = tuples.len();
    ctx.count(&format!("tuples.{nt}"));
    let th: Vec<u64> = tuples.iter().map(ht).collect();
    let mut teq = vec![vec![false; nt]; nt];
    for i in 0..nt { for j in 0..nt {
        teq[i][j] = tuples[i] == tuples[j];
        ctx.eval_only(&format!("vt {i} {j}"), true);
        if teq[i][j] && th[i] != th[j] { ctx.oracle_fail("equal ValueTuples hash differently", serde_json::json!({"a": format!("{:?}", tuples[i]), "b": format!("{:?}", tuples[j])})); }
        if i == j && !teq[i][j] { ctx.oracle_fail("ValueTuple equality is not reflexive", serde_json::json!({"a": format!("{:?}", tuples[i])})); }
    } }
    for i in 0..nt { for j in 0..nt {
        if teq[i][j] != teq[j][i] { ctx.oracle_fail("ValueTuple equality is not symmetric", serde_json::json!({"a": format!("{:?}", tuples[i]), "b": format!("{:?}", tuples[j])})); }
        if !teq[i][j] { continue; }
        for k in 0..nt { if teq[j][k] && !teq[i][k] { ctx.oracle_fail("ValueTuple equality is not transitive", serde_json::json!({"a": format!("{:?}", tuples[i]), "b": format!("{:?}", tuples[j]), "c": format!("{:?}", tuples[k])})); } }
    } }
    // as keys: a map keyed by every tuple finds a key exactly when an equal key was inserted
    let tset: HashSet<ValueTuple> = tuples.iter().step_by(2).cloned().collect();
    for (j, t) in tuples.iter().enumerate() {
        let want = (0..nt).step_by(2).any(|i| teq[i][j]);
        if tset.contains(t) != want { ctx.oracle_fail("HashSet<ValueTuple> membership disagrees with ==", serde_json::json!({"key": format!("{:?}", t), "found": tset.contains(t), "an_equal_key_was_inserted": want})); }
    }
}
