//! The convenience methods of the builders abbreviate general forms (`left_join(t, c)` = `join(JoinType::LeftJoin, t, c)`,
//! `gte(v)` = `binary(BinOper::GreaterThanOrEqual, v)`, `order_by_columns_with_nulls([..])` = one `order_by_with_nulls` per element, ...).
//! The statement correspondence builds recipes through the general forms; this module checks, on random arguments, that every
//! abbreviation builds exactly what its general form builds (same `Debug` structure, same rendering on the three backends,
//! same bound values) — "the built statement is what the builder calls say" for the part of the API the recipes do not go through.
use crate::reflex::B;
use crate::stmt::Gen;
use crate::util::*;
use sea_query::*;

fn id(s: &str) -> Alias { Alias::new(s) }

struct A { a: String, b: String, c: String, t: String, u: String, e1: SimpleExpr, e2: SimpleExpr, e3: SimpleExpr, v1: Value, v2: Value, v3: Value, cond: Condition, n: u64, flag: bool }

fn args(g: &mut Gen) -> A {
    let names = crate::stmt::PLAIN_NAMES;
    let mut nm = || g.rng.pick(names).to_string();
    let (a, b, c, t, u) = (nm(), nm(), nm(), nm(), nm());
    let e1 = g.ex(1).build(); let e2 = g.ex(1).build(); let e3 = g.ex(2).build();
    let (v1, v2, v3) = (g.value().real, g.value().real, g.value().real);
    let cond = g.cond(1).build();
    A { a, b, c, t, u, e1, e2, e3, v1, v2, v3, cond, n: match g.rng.below(4) { 0 => 0, 1 => 1, _ => g.rng.below(1000) }, flag: g.rng.chance(1, 2) }
}

fn render_q<S: QueryStatementWriter + std::fmt::Debug>(s: &S) -> Vec<Option<(String, String, String)>> {
    B::all().iter().map(|b| catch(|| { let q = crate::sq::qb(*b); let (sql, vals) = s.build_any(&*q); (sql, format!("{vals:?}"), s.to_string(MysqlQueryBuilder).len().to_string()) })).collect()
}

fn cmp<S: QueryStatementWriter + std::fmt::Debug>(ctx: &mut crate::Ctx, what: &str, sugar: Option<S>, general: Option<S>, seed_note: &str) {
    ctx.eval_only(&format!("api {what} {seed_note}"), true);
    ctx.count(&format!("api.{what}"));
    match (sugar, general) {
        (Some(x), Some(y)) => {
            let (dx, dy) = (format!("{x:?}"), format!("{y:?}"));
            let (rx, ry) = (render_q(&x), render_q(&y));
            if dx != dy || rx != ry {
                let k = (0..3).find(|i| rx[*i] != ry[*i]).unwrap_or(0);
                ctx.oracle_fail("a convenience builder method does not build what the general form it abbreviates builds",
                    serde_json::json!({"method": what, "abbreviation_renders": rx[k].as_ref().map(|r| r.0.clone()), "general_form_renders": ry[k].as_ref().map(|r| r.0.clone()), "backend": B::all()[k].name(),
                        "abbreviation_debug": dx.chars().take(600).collect::<String>(), "general_debug": dy.chars().take(600).collect::<String>()}));
            }
        }
        (None, None) => ctx.count("api.both-panic"),
        (x, _) => ctx.oracle_fail("a convenience builder method and its general form do not both succeed", serde_json::json!({"method": what, "abbreviation_panicked": x.is_none()})),
    }
}

fn al(e: SimpleExpr, name: &str) -> SelectExpr { SelectExpr { expr: e, alias: Some(sea_query::SeaRc::new(id(name))), window: None } }
fn sel(a: &A) -> SelectStatement { let mut s = Query::select(); s.column(id(&a.a)).from(id(&a.t)); s }
fn sub(a: &A) -> SelectStatement { let mut s = Query::select(); s.column(id(&a.b)).from(id(&a.u)).and_where(a.e2.clone()); s }

pub fn run(ctx: &mut crate::Ctx) {
    let n = if ctx.tier_thorough { 400 } else { 40 };
    let mut rng = ctx.rng.fork();
    for round in 0..n {
        let mut g = Gen::new(rng.fork(), B::Sqlite, true);
        g.plain = true;
        let a = args(&mut g);
        let note = format!("{round}");
        for _ in 0..5 { commute(ctx, &mut g.rng); }
        macro_rules! pair { ($what:expr, $s:expr, $g:expr) => { cmp(ctx, $what, catch(|| $s), catch(|| $g), &note) } }
        let col = || Expr::col(id(&a.a));
        let wrap = |e: SimpleExpr| { let mut s = sel(&a); s.and_where(e); s };

        // ---- expression abbreviations
        let bins: [(&str, fn(Expr, SimpleExpr) -> SimpleExpr, BinOper); 19] = [
            ("add", |x, r| x.add(r), BinOper::Add), ("sub", |x, r| x.sub(r), BinOper::Sub), ("mul", |x, r| x.mul(r), BinOper::Mul), ("div", |x, r| x.div(r), BinOper::Div),
            ("modulo", |x, r| x.modulo(r), BinOper::Mod), ("left_shift", |x, r| x.left_shift(r), BinOper::LShift), ("right_shift", |x, r| x.right_shift(r), BinOper::RShift),
            ("eq", |x, r| x.eq(r), BinOper::Equal), ("ne", |x, r| x.ne(r), BinOper::NotEqual), ("gt", |x, r| x.gt(r), BinOper::GreaterThan), ("gte", |x, r| x.gte(r), BinOper::GreaterThanOrEqual),
            ("lt", |x, r| x.lt(r), BinOper::SmallerThan), ("lte", |x, r| x.lte(r), BinOper::SmallerThanOrEqual), ("is", |x, r| x.is(r), BinOper::Is), ("is_not", |x, r| x.is_not(r), BinOper::IsNot),
            ("bit_and", |x, r| ExprTrait::bit_and(x, r), BinOper::BitAnd), ("bit_or", |x, r| ExprTrait::bit_or(x, r), BinOper::BitOr),
            ("and", |x, r| ExprTrait::and(x, r), BinOper::And), ("or", |x, r| ExprTrait::or(x, r), BinOper::Or)];
        for (name, f, op) in bins { pair!(&format!("Expr::{name}"), wrap(f(col(), a.e1.clone())), wrap(col().binary(op, a.e1.clone()))); }
        let sbins: [(&str, fn(SimpleExpr, SimpleExpr) -> SimpleExpr, BinOper); 8] = [
            ("add", |x, r| x.add(r), BinOper::Add), ("sub", |x, r| x.sub(r), BinOper::Sub), ("mul", |x, r| x.mul(r), BinOper::Mul), ("div", |x, r| x.div(r), BinOper::Div),
            ("eq", |x, r| x.eq(r), BinOper::Equal), ("ne", |x, r| x.ne(r), BinOper::NotEqual), ("and", |x, r| x.and(r), BinOper::And), ("or", |x, r| x.or(r), BinOper::Or)];
        for (name, f, op) in sbins { pair!(&format!("SimpleExpr::{name}"), wrap(f(a.e2.clone(), a.e1.clone())), wrap(a.e2.clone().binary(op, a.e1.clone()))); }
        pair!("Expr::equals", wrap(col().equals(id(&a.b))), wrap(col().binary(BinOper::Equal, Expr::col(id(&a.b)))));
        pair!("Expr::not_equals", wrap(col().not_equals(id(&a.b))), wrap(col().binary(BinOper::NotEqual, Expr::col(id(&a.b)))));
        pair!("Expr::between", wrap(col().between(a.v1.clone(), a.v2.clone())), wrap(col().binary(BinOper::Between, Expr::val(a.v1.clone()).binary(BinOper::And, Expr::val(a.v2.clone())))));
        pair!("Expr::not_between", wrap(col().not_between(a.v1.clone(), a.v2.clone())), wrap(col().binary(BinOper::NotBetween, Expr::val(a.v1.clone()).binary(BinOper::And, Expr::val(a.v2.clone())))));
        pair!("Expr::like", wrap(col().like("a%")), wrap(col().binary(BinOper::Like, Expr::val("a%"))));
        pair!("Expr::not_like", wrap(col().not_like("a%")), wrap(col().binary(BinOper::NotLike, Expr::val("a%"))));
        pair!("Expr::is_null", wrap(col().is_null()), wrap(col().binary(BinOper::Is, Keyword::Null)));
        pair!("Expr::is_not_null", wrap(col().is_not_null()), wrap(col().binary(BinOper::IsNot, Keyword::Null)));
        pair!("Expr::is_in", wrap(col().is_in([a.v1.clone(), a.v2.clone(), a.v3.clone()])), wrap(col().binary(BinOper::In, SimpleExpr::Tuple(vec![Expr::val(a.v1.clone()).into(), Expr::val(a.v2.clone()).into(), Expr::val(a.v3.clone()).into()]))));
        pair!("Expr::is_not_in", wrap(col().is_not_in([a.v1.clone(), a.v2.clone()])), wrap(col().binary(BinOper::NotIn, SimpleExpr::Tuple(vec![Expr::val(a.v1.clone()).into(), Expr::val(a.v2.clone()).into()]))));
        pair!("Expr::in_subquery", wrap(col().in_subquery(sub(&a))), wrap(col().binary(BinOper::In, SimpleExpr::SubQuery(None, Box::new(sub(&a).into_sub_query_statement())))));
        pair!("Expr::not_in_subquery", wrap(col().not_in_subquery(sub(&a))), wrap(col().binary(BinOper::NotIn, SimpleExpr::SubQuery(None, Box::new(sub(&a).into_sub_query_statement())))));
        pair!("Expr::exists", wrap(Expr::exists(sub(&a))), wrap(SimpleExpr::SubQuery(Some(SubQueryOper::Exists), Box::new(sub(&a).into_sub_query_statement()))));
        pair!("Expr::any", wrap(col().eq(Expr::any(sub(&a)))), wrap(col().eq(SimpleExpr::SubQuery(Some(SubQueryOper::Any), Box::new(sub(&a).into_sub_query_statement())))));
        pair!("Expr::all", wrap(col().eq(Expr::all(sub(&a)))), wrap(col().eq(SimpleExpr::SubQuery(Some(SubQueryOper::All), Box::new(sub(&a).into_sub_query_statement())))));
        pair!("Expr::not", wrap(Expr::expr(a.e1.clone()).not()), wrap(Expr::expr(a.e1.clone()).unary(UnOper::Not)));
        pair!("SimpleExpr::not", wrap(a.e1.clone().not()), wrap(a.e1.clone().unary(UnOper::Not)));
        pair!("Expr::max", wrap(col().max().eq(a.e1.clone())), wrap(SimpleExpr::from(Func::max(Expr::col(id(&a.a)))).eq(a.e1.clone())));
        pair!("Expr::min", wrap(col().min().eq(a.e1.clone())), wrap(SimpleExpr::from(Func::min(Expr::col(id(&a.a)))).eq(a.e1.clone())));
        pair!("Expr::sum", wrap(col().sum().eq(a.e1.clone())), wrap(SimpleExpr::from(Func::sum(Expr::col(id(&a.a)))).eq(a.e1.clone())));
        pair!("Expr::count", wrap(col().count().eq(a.e1.clone())), wrap(SimpleExpr::from(Func::count(Expr::col(id(&a.a)))).eq(a.e1.clone())));
        pair!("Expr::count_distinct", wrap(col().count_distinct().eq(a.e1.clone())), wrap(SimpleExpr::from(Func::count_distinct(Expr::col(id(&a.a)))).eq(a.e1.clone())));
        pair!("Expr::if_null", wrap(col().if_null(a.v1.clone()).eq(a.e1.clone())), wrap(SimpleExpr::from(Func::if_null(Expr::col(id(&a.a)), Expr::val(a.v1.clone()))).eq(a.e1.clone())));
        pair!("Expr::cast_as", wrap(col().cast_as(id("text")).eq(a.e1.clone())), wrap(SimpleExpr::from(Func::cast_as(Expr::col(id(&a.a)), id("text"))).eq(a.e1.clone())));
        pair!("Expr::value", wrap(Expr::value(a.v1.clone())), wrap(SimpleExpr::Value(a.v1.clone())));
        pair!("Expr::column", wrap(Expr::column(id(&a.b))), wrap(SimpleExpr::Column(id(&a.b).into_column_ref())));
        pair!("Expr::current_date", wrap(col().eq(Expr::current_date())), wrap(col().eq(SimpleExpr::Keyword(Keyword::CurrentDate))));
        pair!("Expr::current_timestamp", wrap(col().eq(Expr::current_timestamp())), wrap(col().eq(SimpleExpr::Keyword(Keyword::CurrentTimestamp))));

        // ---- SELECT abbreviations
        let joins: [(&str, fn(&mut SelectStatement, Alias, Condition), JoinType); 5] = [
            ("left_join", |s, t, c| { s.left_join(t, c); }, JoinType::LeftJoin), ("inner_join", |s, t, c| { s.inner_join(t, c); }, JoinType::InnerJoin),
            ("right_join", |s, t, c| { s.right_join(t, c); }, JoinType::RightJoin), ("cross_join", |s, t, c| { s.cross_join(t, c); }, JoinType::CrossJoin),
            ("full_outer_join", |s, t, c| { s.full_outer_join(t, c); }, JoinType::FullOuterJoin)];
        for (name, f, ty) in joins {
            pair!(&format!("select.{name}"), { let mut s = sel(&a); f(&mut s, id(&a.u), a.cond.clone()); s }, { let mut s = sel(&a); s.join(ty, id(&a.u), a.cond.clone()); s });
        }
        pair!("select.join_as", { let mut s = sel(&a); s.join_as(JoinType::LeftJoin, id(&a.u), id(&a.c), a.cond.clone()); s },
            { let mut s = sel(&a); s.join(JoinType::LeftJoin, TableRef::TableAlias(id(&a.u).into_iden(), id(&a.c).into_iden()), a.cond.clone()); s });
        pair!("select.join_subquery", { let mut s = sel(&a); s.join_subquery(JoinType::InnerJoin, sub(&a), id(&a.c), a.cond.clone()); s },
            { let mut s = sel(&a); s.join(JoinType::InnerJoin, TableRef::SubQuery(sub(&a), id(&a.c).into_iden()), a.cond.clone()); s });
        pair!("select.from_as", { let mut s = Query::select(); s.column(id(&a.a)).from_as(id(&a.t), id(&a.c)); s }, { let mut s = Query::select(); s.column(id(&a.a)).from(TableRef::TableAlias(id(&a.t).into_iden(), id(&a.c).into_iden())); s });
        pair!("select.from_subquery", { let mut s = Query::select(); s.column(id(&a.a)).from_subquery(sub(&a), id(&a.c)); s }, { let mut s = Query::select(); s.column(id(&a.a)).from(TableRef::SubQuery(sub(&a), id(&a.c).into_iden())); s });
        pair!("select.from_values", { let mut s = Query::select(); s.column(id(&a.a)).from_values([(1i32, "x"), (2, "y")], id(&a.c)); s },
            { let mut s = Query::select(); s.column(id(&a.a)).from(TableRef::ValuesList(vec![(1i32, "x").into_value_tuple(), (2i32, "y").into_value_tuple()], id(&a.c).into_iden())); s });
        pair!("select.from_function", { let mut s = Query::select(); s.column(id(&a.a)).from_function(Func::random(), id(&a.c)); s }, { let mut s = Query::select(); s.column(id(&a.a)).from(TableRef::FunctionCall(Func::random(), id(&a.c).into_iden())); s });
        pair!("select.columns", { let mut s = Query::select(); s.columns([id(&a.a), id(&a.b), id(&a.c)]).from(id(&a.t)); s }, { let mut s = Query::select(); s.column(id(&a.a)).column(id(&a.b)).column(id(&a.c)).from(id(&a.t)); s });
        pair!("select.exprs", { let mut s = Query::select(); s.exprs([a.e1.clone(), a.e2.clone()]).from(id(&a.t)); s }, { let mut s = Query::select(); s.expr(a.e1.clone()).expr(a.e2.clone()).from(id(&a.t)); s });
        pair!("select.expr_as", { let mut s = Query::select(); s.expr_as(a.e1.clone(), id(&a.c)).from(id(&a.t)); s }, { let mut s = Query::select(); s.expr(SelectExpr { expr: a.e1.clone(), alias: Some(id(&a.c).into_iden()), window: None }).from(id(&a.t)); s });
        let win = || { let mut w = WindowStatement::new(); w.partition_by(id(&a.b)); w };
        pair!("select.expr_window", { let mut s = Query::select(); s.expr_window(a.e1.clone(), win()).from(id(&a.t)); s }, { let mut s = Query::select(); s.expr(SelectExpr { expr: a.e1.clone(), alias: None, window: Some(WindowSelectType::Query(win())) }).from(id(&a.t)); s });
        pair!("select.expr_window_as", { let mut s = Query::select(); s.expr_window_as(a.e1.clone(), win(), id(&a.c)).from(id(&a.t)); s }, { let mut s = Query::select(); s.expr(SelectExpr { expr: a.e1.clone(), alias: Some(id(&a.c).into_iden()), window: Some(WindowSelectType::Query(win())) }).from(id(&a.t)); s });
        pair!("select.expr_window_name", { let mut s = Query::select(); s.expr_window_name(a.e1.clone(), id("w")).from(id(&a.t)); s }, { let mut s = Query::select(); s.expr(SelectExpr { expr: a.e1.clone(), alias: None, window: Some(WindowSelectType::Name(id("w").into_iden())) }).from(id(&a.t)); s });
        pair!("select.expr_window_name_as", { let mut s = Query::select(); s.expr_window_name_as(a.e1.clone(), id("w"), id(&a.c)).from(id(&a.t)); s }, { let mut s = Query::select(); s.expr(SelectExpr { expr: a.e1.clone(), alias: Some(id(&a.c).into_iden()), window: Some(WindowSelectType::Name(id("w").into_iden())) }).from(id(&a.t)); s });
        pair!("select.group_by_columns", { let mut s = sel(&a); s.group_by_columns([id(&a.a), id(&a.b)]); s }, { let mut s = sel(&a); s.group_by_col(id(&a.a)).group_by_col(id(&a.b)); s });
        pair!("select.add_group_by", { let mut s = sel(&a); s.add_group_by([a.e1.clone(), a.e2.clone()]); s }, { let mut s = sel(&a); s.add_group_by([a.e1.clone()]).add_group_by([a.e2.clone()]); s });
        pair!("select.and_where_option(Some)", { let mut s = sel(&a); s.and_where_option(Some(a.e1.clone())); s }, { let mut s = sel(&a); s.and_where(a.e1.clone()); s });
        pair!("select.and_where_option(None)", { let mut s = sel(&a); s.and_where(a.e2.clone()).and_where_option(None); s }, { let mut s = sel(&a); s.and_where(a.e2.clone()); s });
        pair!("select.conditions", { let mut s = sel(&a); s.conditions(a.flag, |x| { x.and_where(a.e1.clone()); }, |x| { x.and_where(a.e2.clone()); }); s }, { let mut s = sel(&a); s.and_where(if a.flag { a.e1.clone() } else { a.e2.clone() }); s });
        pair!("select.apply_if(Some)", { let mut s = sel(&a); s.apply_if(Some(a.n), |x, v| { x.limit(v); }); s }, { let mut s = sel(&a); s.limit(a.n); s });
        pair!("select.apply_if(None)", { let mut s = sel(&a); s.apply_if(None::<u64>, |x, v| { x.limit(v); }); s }, sel(&a));
        pair!("select.apply", { let mut s = sel(&a); s.apply(|x| { x.offset(a.n); }); s }, { let mut s = sel(&a); s.offset(a.n); s });
        pair!("select.unions", { let mut s = sel(&a); s.unions([(UnionType::All, sub(&a)), (UnionType::Distinct, sel(&a))]); s }, { let mut s = sel(&a); s.union(UnionType::All, sub(&a)).union(UnionType::Distinct, sel(&a)); s });
        pair!("select.lock_shared", { let mut s = sel(&a); s.lock_shared(); s }, { let mut s = sel(&a); s.lock(LockType::Share); s });
        pair!("select.lock_exclusive", { let mut s = sel(&a); s.lock_exclusive(); s }, { let mut s = sel(&a); s.lock(LockType::Update); s });
        pair!("select.lock_with_behavior", { let mut s = sel(&a); s.lock_with_behavior(LockType::Share, LockBehavior::SkipLocked); s }, { let mut s = sel(&a); s.lock_with_tables_behavior(LockType::Share, Vec::<Alias>::new(), LockBehavior::SkipLocked); s });
        pair!("select.lock_with_tables", { let mut s = sel(&a); s.lock_with_tables(LockType::Update, [id(&a.t), id(&a.u)]); s }, { let mut s = sel(&a); s.lock(LockType::Update); s.lock_with_tables(LockType::Update, [id(&a.t), id(&a.u)]); s });
        pair!("select.reset_limit", { let mut s = sel(&a); s.limit(a.n).offset(3).reset_limit(); s }, { let mut s = sel(&a); s.offset(3); s });
        pair!("select.reset_offset", { let mut s = sel(&a); s.limit(a.n).offset(3).reset_offset(); s }, { let mut s = sel(&a); s.limit(a.n); s });

        // ---- setters called twice: the last call decides
        pair!("select.limit twice", { let mut s = sel(&a); s.limit(a.n + 1).limit(a.n); s }, { let mut s = sel(&a); s.limit(a.n); s });
        pair!("select.offset twice", { let mut s = sel(&a); s.offset(a.n + 1).offset(a.n); s }, { let mut s = sel(&a); s.offset(a.n); s });
        pair!("select.lock twice", { let mut s = sel(&a); s.lock(LockType::Update).lock(LockType::Share); s }, { let mut s = sel(&a); s.lock(LockType::Share); s });
        pair!("select.distinct then distinct_on", { let mut s = sel(&a); s.distinct().distinct_on([id(&a.b)]); s }, { let mut s = sel(&a); s.distinct_on([id(&a.b)]); s });
        pair!("insert.returning twice", { let mut i = Query::insert(); i.into_table(id(&a.t)).columns([id(&a.a)]).values_panic([a.e1.clone()]).returning_col(id(&a.a)).returning_col(id(&a.b)); i },
            { let mut i = Query::insert(); i.into_table(id(&a.t)).columns([id(&a.a)]).values_panic([a.e1.clone()]).returning_col(id(&a.b)); i });
        pair!("insert.on_conflict twice", { let mut i = Query::insert(); i.into_table(id(&a.t)).columns([id(&a.a)]).values_panic([a.e1.clone()]).on_conflict(OnConflict::column(id(&a.a)).do_nothing().to_owned()).on_conflict(OnConflict::column(id(&a.b)).update_column(id(&a.a)).to_owned()); i },
            { let mut i = Query::insert(); i.into_table(id(&a.t)).columns([id(&a.a)]).values_panic([a.e1.clone()]).on_conflict(OnConflict::column(id(&a.b)).update_column(id(&a.a)).to_owned()); i });
        pair!("insert.or_default_values twice", { let mut i = Query::insert(); i.into_table(id(&a.t)).or_default_values().or_default_values(); i }, { let mut i = Query::insert(); i.into_table(id(&a.t)).or_default_values(); i });
        pair!("insert.or_default_values_many twice", { let mut i = Query::insert(); i.into_table(id(&a.t)).or_default_values_many(3).or_default_values_many((a.n % 5) as u32); i }, { let mut i = Query::insert(); i.into_table(id(&a.t)).or_default_values_many((a.n % 5) as u32); i });
        pair!("insert.or_default_values after many", { let mut i = Query::insert(); i.into_table(id(&a.t)).or_default_values_many(4).or_default_values(); i }, { let mut i = Query::insert(); i.into_table(id(&a.t)).or_default_values(); i });
        pair!("update.limit twice", { let mut u = Query::update(); u.table(id(&a.t)).value(id(&a.a), a.v1.clone()).limit(a.n + 1).limit(a.n); u }, { let mut u = Query::update(); u.table(id(&a.t)).value(id(&a.a), a.v1.clone()).limit(a.n); u });
        // ---- accumulating calls: every call adds, in call order
        pair!("select.from twice", { let mut s = Query::select(); s.column(id(&a.a)).from(id(&a.t)).from(id(&a.u)); s }, { let mut s = Query::select(); s.column(id(&a.a)); s.from(id(&a.t)); s.from(id(&a.u)); s });
        pair!("select.and_having twice", { let mut s = sel(&a); s.group_by_col(id(&a.a)).and_having(a.e1.clone()).and_having(a.e2.clone()); s }, { let mut s = sel(&a); s.group_by_col(id(&a.a)).cond_having(Cond::all().add(a.e1.clone()).add(a.e2.clone())); s });

        // ---- ORDER BY abbreviations (shared by SELECT / UPDATE / DELETE / window)
        let nulls = if a.flag { NullOrdering::First } else { NullOrdering::Last };
        macro_rules! ordered { ($kind:expr, $mk:expr) => {
            pair!(&format!("{}.order_by_columns", $kind), { let mut s = $mk; s.order_by_columns([(id(&a.a), Order::Asc), (id(&a.b), Order::Desc)]); s }, { let mut s = $mk; s.order_by(id(&a.a), Order::Asc).order_by(id(&a.b), Order::Desc); s });
            pair!(&format!("{}.order_by_with_nulls", $kind), { let mut s = $mk; s.order_by_with_nulls(id(&a.a), Order::Desc, nulls.clone()); s }, { let mut s = $mk; s.order_by_expr_with_nulls(Expr::col(id(&a.a)).into(), Order::Desc, nulls.clone()); s });
            pair!(&format!("{}.order_by_columns_with_nulls", $kind), { let mut s = $mk; s.order_by_columns_with_nulls([(id(&a.a), Order::Asc, nulls.clone()), (id(&a.b), Order::Desc, NullOrdering::First)]); s },
                { let mut s = $mk; s.order_by_with_nulls(id(&a.a), Order::Asc, nulls.clone()).order_by_with_nulls(id(&a.b), Order::Desc, NullOrdering::First); s });
            pair!(&format!("{}.order_by_customs", $kind), { let mut s = $mk; s.order_by_customs([("x", Order::Asc), ("y", Order::Desc)]); s }, { let mut s = $mk; s.order_by_expr(Expr::cust("x"), Order::Asc).order_by_expr(Expr::cust("y"), Order::Desc); s });
            pair!(&format!("{}.order_by_customs_with_nulls", $kind), { let mut s = $mk; s.order_by_customs_with_nulls([("x", Order::Asc, nulls.clone())]); s }, { let mut s = $mk; s.order_by_expr_with_nulls(Expr::cust("x"), Order::Asc, nulls.clone()); s });
            pair!(&format!("{}.order_by(col)", $kind), { let mut s = $mk; s.order_by(id(&a.a), Order::Desc); s }, { let mut s = $mk; s.order_by_expr(Expr::col(id(&a.a)).into(), Order::Desc); s });
        } }
        ordered!("select", sel(&a));
        ordered!("update", { let mut u = Query::update(); u.table(id(&a.t)).value(id(&a.a), a.v1.clone()); u });
        ordered!("delete", { let mut d = Query::delete(); d.from_table(id(&a.t)); d });
        pair!("update.and_where_option", { let mut u = Query::update(); u.table(id(&a.t)).value(id(&a.a), a.v1.clone()).and_where_option(Some(a.e1.clone())); u }, { let mut u = Query::update(); u.table(id(&a.t)).value(id(&a.a), a.v1.clone()).and_where(a.e1.clone()); u });
        pair!("update.values", { let mut u = Query::update(); u.table(id(&a.t)).values([(id(&a.a), a.e1.clone()), (id(&a.b), a.e2.clone())]); u }, { let mut u = Query::update(); u.table(id(&a.t)).value(id(&a.a), a.e1.clone()).value(id(&a.b), a.e2.clone()); u });
        pair!("delete.and_where_option", { let mut d = Query::delete(); d.from_table(id(&a.t)).and_where_option(Some(a.e1.clone())); d }, { let mut d = Query::delete(); d.from_table(id(&a.t)).and_where(a.e1.clone()); d });
        // ---- expression / function helpers not reached elsewhere
        pair!("Expr::asterisk", { let mut s = Query::select(); s.expr(Expr::asterisk()).from(id(&a.t)); s }, { let mut s = Query::select(); s.expr(Expr::col(Asterisk)).from(id(&a.t)); s });
        pair!("Expr::table_asterisk", { let mut s = Query::select(); s.expr(Expr::table_asterisk(id(&a.t))).from(id(&a.t)); s }, { let mut s = Query::select(); s.expr(Expr::col((id(&a.t), Asterisk))).from(id(&a.t)); s });
        pair!("Expr::current_time", wrap(col().eq(Expr::current_time())), wrap(col().eq(SimpleExpr::Keyword(Keyword::CurrentTime))));
        pair!("Expr::custom_keyword", wrap(col().eq(Expr::custom_keyword(id("EXCLUDED")))), wrap(col().eq(SimpleExpr::Keyword(Keyword::Custom(id("EXCLUDED").into_iden())))));
        pair!("Expr::cust_with_expr", wrap(Expr::cust_with_expr("? + 1 > 0", a.e1.clone())), wrap(Expr::cust_with_exprs("? + 1 > 0", [a.e1.clone()])));
        pair!("Expr::in_tuples", wrap(Expr::tuple([Expr::col(id(&a.a)).into(), Expr::col(id(&a.b)).into()]).in_tuples([(1, 2), (3, 4)])),
            wrap(Expr::tuple([Expr::col(id(&a.a)).into(), Expr::col(id(&a.b)).into()]).binary(BinOper::In, SimpleExpr::Tuple(vec![SimpleExpr::Values(vec![1.into(), 2.into()]), SimpleExpr::Values(vec![3.into(), 4.into()])]))));
        pair!("Func::round_with_precision", wrap(SimpleExpr::from(Func::round_with_precision(a.e1.clone(), 2)).eq(a.e2.clone())), wrap(SimpleExpr::from(Func::round(a.e1.clone()).arg(2)).eq(a.e2.clone())));
        // a CTE taken from a SELECT: table name and columns are those of the select
        pair!("CommonTableExpression::from_select", { let base = { let mut s = Query::select(); s.column(id(&a.a)).column(id(&a.b)).from(id(&a.t)); s };
              let mut q = Query::select(); q.column(id(&a.a)).from(id(&a.t)); q.with(WithClause::new().cte(CommonTableExpression::from_select(base)).to_owned()) },
            { let base = { let mut s = Query::select(); s.column(id(&a.a)).column(id(&a.b)).from(id(&a.t)); s };
              let mut q = Query::select(); q.column(id(&a.a)).from(id(&a.t)); q.with(WithClause::new().cte(CommonTableExpression::new().query(base).columns([id(&a.a), id(&a.b)]).table_name(id(&format!("cte_{}", a.t))).to_owned()).to_owned()) });
        // ---- several cond_where calls conjoin: the holder after two calls is the AND of both conditions (C06's add_condition cases)
        {
            let anyg = || Cond::any().add(a.e1.clone()).add(a.e2.clone());
            let negg = || Cond::all().not().add(a.e1.clone()).add(a.e3.clone());
            pair!("cond_where(any) then cond_where(empty all)", { let mut s = sel(&a); s.cond_where(anyg()).cond_where(Cond::all()).limit(3); s }, { let mut s = sel(&a); s.cond_where(Cond::all().add(anyg()).add(Cond::all())).limit(3); s });
            pair!("cond_where(not) then cond_where(empty all)", { let mut s = sel(&a); s.cond_where(negg()).cond_where(Cond::all().add_option(None::<SimpleExpr>)).limit(3); s }, { let mut s = sel(&a); s.cond_where(Cond::all().add(negg()).add(Cond::all())).limit(3); s });
            pair!("cond_where(any) then cond_where(any)", { let mut s = sel(&a); s.cond_where(anyg()).cond_where(Cond::any().add(a.e3.clone()).add(a.e1.clone())); s }, { let mut s = sel(&a); s.cond_where(Cond::all().add(anyg()).add(Cond::any().add(a.e3.clone()).add(a.e1.clone()))); s });
            pair!("cond_where(empty all) then cond_where(any)", { let mut s = sel(&a); s.cond_where(Cond::all()).cond_where(anyg()); s }, { let mut s = sel(&a); s.cond_where(Cond::all().add(anyg())); s });
            pair!("cond_having(any) then cond_having(empty all)", { let mut s = sel(&a); s.group_by_col(id(&a.a)).cond_having(anyg()).cond_having(Cond::all()); s }, { let mut s = sel(&a); s.group_by_col(id(&a.a)).cond_having(Cond::all().add(anyg()).add(Cond::all())); s });
            pair!("update cond_where(any) then cond_where(empty all)", { let mut u = Query::update(); u.table(id(&a.t)).value(id(&a.a), a.v1.clone()).cond_where(anyg()).cond_where(Cond::all()); u }, { let mut u = Query::update(); u.table(id(&a.t)).value(id(&a.a), a.v1.clone()).cond_where(Cond::all().add(anyg()).add(Cond::all())); u });
        }
        // ---- take() as the finisher returns the whole statement (dialect extension clauses included)
        {
            use sea_query::extension::mysql::{IndexHintScope, MySqlSelectStatementExt};
            use sea_query::extension::postgres::{PostgresSelectStatementExt, SampleMethod};
            let loaded = || { let mut s = sel(&a); s.distinct().and_where(a.e1.clone()).group_by_col(id(&a.b)).and_having(a.e2.clone()).order_by(id(&a.a), Order::Desc).limit(a.n + 1).offset(a.n)
                .lock_with_tables(LockType::Share, [id(&a.t)]).use_index(id("ix"), IndexHintScope::All).force_index(id("iy"), IndexHintScope::Join).table_sample(SampleMethod::SYSTEM, 12.5, Some(3.0))
                .left_join(id(&a.u), Expr::col((id(&a.u), id(&a.a))).equals((id(&a.t), id(&a.a)))).union(UnionType::All, sub(&a));
                s.with_cte(CommonTableExpression::new().query(sub(&a)).table_name(id("cte")).to_owned()); s };
            pair!("select.take", { let mut s = loaded(); s.take() }, loaded());
            pair!("select.take leaves a new statement", { let mut s = loaded(); let _ = s.take(); s }, SelectStatement::new());
            pair!("select.take then rebuild", { let mut s = loaded(); let _ = s.take(); s.column(id(&a.a)).from(id(&a.t)); s }, sel(&a));
        }
        // ---- an empty row is a no-op, also next to the default-row request
        pair!("insert.values(empty) after or_default_values", { let mut i = Query::insert(); i.into_table(id(&a.t)).or_default_values().values_panic(Vec::<SimpleExpr>::new()); i }, { let mut i = Query::insert(); i.into_table(id(&a.t)).or_default_values(); i });
        pair!("insert.values(empty) before or_default_values", { let mut i = Query::insert(); i.into_table(id(&a.t)).columns(Vec::<Alias>::new()).values_panic(Vec::<SimpleExpr>::new()).or_default_values(); i }, { let mut i = Query::insert(); i.into_table(id(&a.t)).or_default_values(); i });
        // ---- a CTE taken from a SELECT names its columns only when EVERY select item has a name
        pair!("CommonTableExpression::from_select (an unnamed item)", { let base = { let mut s = Query::select(); s.column(id(&a.a)).expr(Func::count(Expr::col(id(&a.b)))).from(id(&a.t)); s };
              let mut q = Query::select(); q.column(Asterisk).from(id(&format!("cte_{}", a.t))); q.with(WithClause::new().cte(CommonTableExpression::from_select(base)).to_owned()) },
            { let base = { let mut s = Query::select(); s.column(id(&a.a)).expr(Func::count(Expr::col(id(&a.b)))).from(id(&a.t)); s };
              let mut q = Query::select(); q.column(Asterisk).from(id(&format!("cte_{}", a.t))); q.with(WithClause::new().cte(CommonTableExpression::new().query(base).table_name(id(&format!("cte_{}", a.t))).to_owned()).to_owned()) });
        // ---- ON CONFLICT: every where-adding method of target and action against the general form, with the other side set too
        {
            let ins = |oc: OnConflict| { let mut i = Query::insert(); i.into_table(id(&a.t)).columns([id(&a.a), id(&a.b)]).values_panic([a.e1.clone(), a.e2.clone()]).on_conflict(oc); i };
            let base = || { let mut oc = OnConflict::column(id(&a.a)); oc.value(id(&a.b), a.v1.clone()); oc };
            pair!("on_conflict.target_and_where", ins({ let mut oc = base(); oc.target_and_where(a.e1.clone()).action_cond_where(Cond::all().add(a.e3.clone())); oc }), ins({ let mut oc = base(); oc.target_cond_where(Cond::all().add(a.e1.clone())).action_cond_where(Cond::all().add(a.e3.clone())); oc }));
            pair!("on_conflict.target_and_where_option(Some)", ins({ let mut oc = base(); oc.target_and_where_option(Some(a.e1.clone())).action_cond_where(Cond::all().add(a.e3.clone())); oc }), ins({ let mut oc = base(); oc.target_cond_where(Cond::all().add(a.e1.clone())).action_cond_where(Cond::all().add(a.e3.clone())); oc }));
            pair!("on_conflict.target_and_where_option(None)", ins({ let mut oc = base(); oc.target_and_where(a.e2.clone()).target_and_where_option(None); oc }), ins({ let mut oc = base(); oc.target_cond_where(Cond::all().add(a.e2.clone())); oc }));
            pair!("on_conflict.action_and_where", ins({ let mut oc = base(); oc.target_cond_where(Cond::all().add(a.e3.clone())).action_and_where(a.e1.clone()); oc }), ins({ let mut oc = base(); oc.target_cond_where(Cond::all().add(a.e3.clone())).action_cond_where(Cond::all().add(a.e1.clone())); oc }));
            pair!("on_conflict.action_and_where_option(Some)", ins({ let mut oc = base(); oc.target_cond_where(Cond::all().add(a.e3.clone())).action_and_where_option(Some(a.e1.clone())); oc }), ins({ let mut oc = base(); oc.target_cond_where(Cond::all().add(a.e3.clone())).action_cond_where(Cond::all().add(a.e1.clone())); oc }));
            pair!("on_conflict.action_and_where_option(Some) alone", ins({ let mut oc = base(); oc.action_and_where_option(Some(a.e1.clone())); oc }), ins({ let mut oc = base(); oc.action_cond_where(Cond::all().add(a.e1.clone())); oc }));
            pair!("on_conflict.action_and_where_option(None)", ins({ let mut oc = base(); oc.action_and_where(a.e2.clone()).action_and_where_option(None); oc }), ins({ let mut oc = base(); oc.action_cond_where(Cond::all().add(a.e2.clone())); oc }));
            pair!("on_conflict.target_and_where twice", ins({ let mut oc = base(); oc.target_and_where(a.e1.clone()).target_and_where(a.e2.clone()); oc }), ins({ let mut oc = base(); oc.target_cond_where(Cond::all().add(a.e1.clone()).add(a.e2.clone())); oc }));
            pair!("on_conflict.action_and_where twice", ins({ let mut oc = base(); oc.action_and_where(a.e1.clone()).action_and_where(a.e2.clone()); oc }), ins({ let mut oc = base(); oc.action_cond_where(Cond::all().add(a.e1.clone()).add(a.e2.clone())); oc }));
            pair!("on_conflict.columns", ins({ let mut oc = OnConflict::columns([id(&a.a)]); oc.update_columns([id(&a.b)]); oc }), ins({ let mut oc = OnConflict::column(id(&a.a)); oc.update_column(id(&a.b)); oc }));
            pair!("on_conflict.exprs", ins({ let mut oc = OnConflict::new(); oc.exprs([a.e1.clone(), a.e2.clone()]).do_nothing(); oc }), ins({ let mut oc = OnConflict::new(); oc.expr(a.e1.clone()).expr(a.e2.clone()).do_nothing(); oc }));
            pair!("on_conflict.values", ins({ let mut oc = base(); oc.values([(id(&a.a), a.e1.clone()), (id(&a.c), a.e2.clone())]); oc }), ins({ let mut oc = base(); oc.value(id(&a.a), a.e1.clone()).value(id(&a.c), a.e2.clone()); oc }));
            pair!("on_conflict.update_columns", ins({ let mut oc = OnConflict::column(id(&a.a)); oc.update_columns([id(&a.b), id(&a.c)]); oc }), ins({ let mut oc = OnConflict::column(id(&a.a)); oc.update_column(id(&a.b)).update_column(id(&a.c)); oc }));
        }
        // ---- WITH: the forwarding setters of WithQuery, the field-wise setters of Search / Cycle / CommonTableExpression
        {
            let rec = || { let mut s = Query::select(); s.column(id(&a.a)).from(id(&a.t)).union(UnionType::All, { let mut r = Query::select(); r.column(id(&a.a)).from(id("cte")).and_where(a.e1.clone()); r }); s };
            let cte = || CommonTableExpression::new().query(rec()).column(id(&a.a)).table_name(id("cte")).to_owned();
            let fin = || { let mut s = Query::select(); s.column(Asterisk).from(id("cte")); s };
            let search = || Search::new_from_order_and_expr(SearchOrder::BREADTH, al(Expr::col(id(&a.a)).into(), "ord"));
            let cycle = || Cycle::new_from_expr_set_using(Expr::col(id(&a.a)), id("looped"), id("path"));
            let general = || WithClause::new().recursive(true).cte(cte()).search(search()).cycle(cycle()).to_owned().query(fin());
            pair!("WithQuery setters", { let mut w = WithQuery::new(); w.recursive(true).cte(cte()).search(search()).cycle(cycle()).query(fin()); w }, general());
            pair!("WithQuery setters (query first)", { let mut w = WithQuery::new(); w.query(fin()).cycle(cycle()).search(search()).cte(cte()).recursive(true); w }, general());
            pair!("WithQuery::with_clause", { let mut w = WithQuery::new(); w.query(fin()).with_clause(WithClause::new().recursive(true).cte(cte()).search(search()).cycle(cycle()).to_owned()); w }, general());
            pair!("WithQuery::with_clause replaces", { let mut w = WithQuery::new(); w.recursive(false).cte(CommonTableExpression::from_select(sub(&a))).with_clause(WithClause::new().recursive(true).cte(cte()).search(search()).cycle(cycle()).to_owned()).query(fin()); w }, general());
            pair!("Search setters", WithClause::new().recursive(true).cte(cte()).search({ let mut x = Search::new(); x.expr(al(Expr::col(id(&a.a)).into(), "ord")).order(SearchOrder::BREADTH); x }).cycle(cycle()).to_owned().query(fin()), general());
            pair!("Search setters (set twice)", WithClause::new().recursive(true).cte(cte()).search({ let mut x = Search::new(); x.order(SearchOrder::DEPTH).expr(al(Expr::col(id(&a.b)).into(), "zz")).expr(al(Expr::col(id(&a.a)).into(), "ord")).order(SearchOrder::BREADTH); x }).cycle(cycle()).to_owned().query(fin()), general());
            pair!("Cycle setters", WithClause::new().recursive(true).cte(cte()).search(search()).cycle({ let mut x = Cycle::new(); x.using(id("path")).set(id("looped")).expr(Expr::col(id(&a.a))); x }).to_owned().query(fin()), general());
            pair!("Cycle setters (set twice)", WithClause::new().recursive(true).cte(cte()).search(search()).cycle({ let mut x = Cycle::new(); x.expr(a.e2.clone()).set(id("path")).using(id("looped")).set(id("looped")).using(id("path")).expr(Expr::col(id(&a.a))); x }).to_owned().query(fin()), general());
            pair!("search / cycle replaced", WithClause::new().recursive(true).search(Search::new_from_order_and_expr(SearchOrder::DEPTH, al(Expr::col(id(&a.b)).into(), "zz"))).cycle(Cycle::new_from_expr_set_using(a.e2.clone(), id("p"), id("q"))).cte(cte()).search(search()).cycle(cycle()).to_owned().query(fin()), general());
            let two = || { let mut s = Query::select(); s.column(id(&a.a)).expr_as(a.e1.clone(), id(&a.b)).from(id(&a.t)); s };
            let q2 = |c: CommonTableExpression| WithClause::new().cte(c).to_owned().query(fin());
            pair!("cte.column twice", q2(CommonTableExpression::new().query(two()).table_name(id("cte")).column(id(&a.a)).column(id(&a.b)).to_owned()), q2(CommonTableExpression::new().query(two()).table_name(id("cte")).columns([id(&a.a), id(&a.b)]).to_owned()));
            pair!("cte.columns then column", q2(CommonTableExpression::new().query(two()).table_name(id("cte")).columns([id(&a.a)]).column(id(&a.b)).to_owned()), q2(CommonTableExpression::new().query(two()).table_name(id("cte")).columns([id(&a.a), id(&a.b)]).to_owned()));
            pair!("cte.try_set_cols_from_select", q2({ let mut c = CommonTableExpression::new(); c.query(two()).table_name(id("cte")); assert!(c.try_set_cols_from_select(&two())); c }), q2(CommonTableExpression::new().query(two()).table_name(id("cte")).columns([id(&a.a), id(&a.b)]).to_owned()));
            pair!("cte.try_set_cols_from_select (refused)", q2({ let mut c = CommonTableExpression::new(); c.query(two()).table_name(id("cte")).column(id(&a.c)); let unnamed = { let mut s = Query::select(); s.column(id(&a.a)).expr(Func::count(Expr::col(id(&a.b)))).from(id(&a.t)); s }; assert!(!c.try_set_cols_from_select(&unnamed)); c }), q2(CommonTableExpression::new().query(two()).table_name(id("cte")).columns([id(&a.c)]).to_owned()));
            pair!("cte.materialized set twice", q2(CommonTableExpression::new().query(two()).table_name(id("cte")).materialized(true).materialized(false).to_owned()), q2(CommonTableExpression::new().query(two()).table_name(id("cte")).materialized(false).to_owned()));
            pair!("select.exprs_mut_for_each (identity)", { let mut s = two(); s.exprs_mut_for_each(|_| {}); s }, two());
            pair!("select.exprs_mut_for_each (alias)", { let mut s = Query::select(); s.column(id(&a.a)).expr(a.e1.clone()).from(id(&a.t)); let mut k = 0; s.exprs_mut_for_each(|e| { if k == 1 { e.alias = Some(sea_query::SeaRc::new(id(&a.b))); } k += 1; }); s }, two());
        }
        // ---- statements finished by `.with(clause)` / started by `Query::with()`
        {
            let wc = || WithClause::new().cte(CommonTableExpression::new().query(sub(&a)).table_name(id("cte")).to_owned()).to_owned();
            pair!("select.with", sel(&a).with(wc()), wc().query(sel(&a)));
            pair!("update.with", { let mut u = Query::update(); u.table(id(&a.t)).value(id(&a.a), a.v1.clone()).and_where(a.e1.clone()); u.with(wc()) }, { let mut u = Query::update(); u.table(id(&a.t)).value(id(&a.a), a.v1.clone()).and_where(a.e1.clone()); wc().query(u) });
            pair!("delete.with", { let mut d = Query::delete(); d.from_table(id(&a.t)).and_where(a.e1.clone()); d.with(wc()) }, { let mut d = Query::delete(); d.from_table(id(&a.t)).and_where(a.e1.clone()); wc().query(d) });
            pair!("insert.with", { let mut i = Query::insert(); i.into_table(id(&a.t)).columns([id(&a.a)]).select_from(sub(&a)).unwrap(); i.with(wc()) }, { let mut i = Query::insert(); i.into_table(id(&a.t)).columns([id(&a.a)]).select_from(sub(&a)).unwrap(); wc().query(i) });
            pair!("Query::with", Query::with().cte(CommonTableExpression::new().query(sub(&a)).table_name(id("cte")).to_owned()).to_owned().query(sel(&a)), wc().query(sel(&a)));
            pair!("update.returning_all", { let mut u = Query::update(); u.table(id(&a.t)).value(id(&a.a), a.v1.clone()).returning_all(); u }, { let mut u = Query::update(); u.table(id(&a.t)).value(id(&a.a), a.v1.clone()).returning(Query::returning().all()); u });
            pair!("delete.returning_col", { let mut d = Query::delete(); d.from_table(id(&a.t)).and_where(a.e1.clone()).returning_col(id(&a.b)); d }, { let mut d = Query::delete(); d.from_table(id(&a.t)).and_where(a.e1.clone()).returning(Query::returning().column(id(&a.b))); d });
            pair!("returning.expr", { let mut d = Query::delete(); d.from_table(id(&a.t)).returning(Query::returning().expr(a.e1.clone())); d }, { let mut d = Query::delete(); d.from_table(id(&a.t)).returning(ReturningClause::Exprs(vec![a.e1.clone()])); d });
            pair!("returning.exprs", { let mut d = Query::delete(); d.from_table(id(&a.t)).returning(Query::returning().exprs([a.e1.clone(), a.e2.clone()])); d }, { let mut d = Query::delete(); d.from_table(id(&a.t)).returning(ReturningClause::Exprs(vec![a.e1.clone(), a.e2.clone()])); d });
            pair!("returning.columns", { let mut d = Query::delete(); d.from_table(id(&a.t)).returning(Query::returning().columns([id(&a.a), id(&a.b)])); d }, { let mut d = Query::delete(); d.from_table(id(&a.t)).returning(ReturningClause::Columns(vec![id(&a.a).into_column_ref(), id(&a.b).into_column_ref()])); d });
        }
        // ---- a CTE named after the select's table, whatever kind of table reference that is
        {
            let from = |t: TableRef| { let mut s = Query::select(); s.column(id(&a.a)).from(t); s };
            let named = |s: SelectStatement, n: &str| WithClause::new().cte(CommonTableExpression::new().query(s).columns([id(&a.a)]).table_name(id(n)).to_owned()).to_owned().query(sel(&a));
            let auto = |s: SelectStatement| WithClause::new().cte(CommonTableExpression::from_select(s)).to_owned().query(sel(&a));
            let tn = format!("cte_{}", a.t);
            let al = format!("cte_{}", a.u);
            pair!("from_select (schema.table)", auto(from((id("sch"), id(&a.t)).into_table_ref())), named(from((id("sch"), id(&a.t)).into_table_ref()), &tn));
            pair!("from_select (db.schema.table)", auto(from((id("db"), id("sch"), id(&a.t)).into_table_ref())), named(from((id("db"), id("sch"), id(&a.t)).into_table_ref()), &tn));
            pair!("from_select (table alias)", auto(from(id(&a.t).into_table_ref().alias(id(&a.u)))), named(from(id(&a.t).into_table_ref().alias(id(&a.u))), &al));
            pair!("from_select (schema.table alias)", auto(from((id("sch"), id(&a.t)).into_table_ref().alias(id(&a.u)))), named(from((id("sch"), id(&a.t)).into_table_ref().alias(id(&a.u))), &al));
            pair!("from_select (db.schema.table alias)", auto(from((id("db"), id("sch"), id(&a.t)).into_table_ref().alias(id(&a.u)))), named(from((id("db"), id("sch"), id(&a.t)).into_table_ref().alias(id(&a.u))), &al));
            // qualified columns give `table_column` names
            let qsel = || { let mut s = Query::select(); s.column((id(&a.t), id(&a.a))).column((id("sch"), id(&a.t), id(&a.b))).from(id(&a.t)); s };
            pair!("from_select (qualified columns)", WithClause::new().cte(CommonTableExpression::from_select(qsel())).to_owned().query(sel(&a)),
                WithClause::new().cte(CommonTableExpression::new().query(qsel()).columns([id(&format!("{}_{}", a.t, a.a)), id(&format!("sch_{}_{}", a.t, a.b))]).table_name(id(&tn)).to_owned()).to_owned().query(sel(&a)));
        }
        // ---- TableRef::alias adds or replaces the alias of every kind of table reference
        {
            use sea_query::SeaRc;
            let f = |t: TableRef| { let mut s = Query::select(); s.column(Asterisk).from(t); s };
            let i = |x: &str| -> DynIden { SeaRc::new(id(x)) };
            pair!("TableRef::alias (table)", f(id(&a.t).into_table_ref().alias(id("x"))), f(TableRef::TableAlias(i(&a.t), i("x"))));
            pair!("TableRef::alias (re-alias)", f(id(&a.t).into_table_ref().alias(id("y")).alias(id("x"))), f(TableRef::TableAlias(i(&a.t), i("x"))));
            pair!("TableRef::alias (schema.table)", f((id("s"), id(&a.t)).into_table_ref().alias(id("x"))), f(TableRef::SchemaTableAlias(i("s"), i(&a.t), i("x"))));
            pair!("TableRef::alias (schema.table re-alias)", f((id("s"), id(&a.t)).into_table_ref().alias(id("y")).alias(id("x"))), f(TableRef::SchemaTableAlias(i("s"), i(&a.t), i("x"))));
            pair!("TableRef::alias (db.schema.table)", f((id("d"), id("s"), id(&a.t)).into_table_ref().alias(id("x"))), f(TableRef::DatabaseSchemaTableAlias(i("d"), i("s"), i(&a.t), i("x"))));
            pair!("TableRef::alias (db.schema.table re-alias)", f((id("d"), id("s"), id(&a.t)).into_table_ref().alias(id("y")).alias(id("x"))), f(TableRef::DatabaseSchemaTableAlias(i("d"), i("s"), i(&a.t), i("x"))));
            pair!("TableRef::alias (sub-query)", f(TableRef::SubQuery(sub(&a), i("y")).alias(id("x"))), f(TableRef::SubQuery(sub(&a), i("x"))));
            pair!("TableRef::alias (values list)", f(TableRef::ValuesList(vec![ValueTuple::Two(a.v1.clone(), a.v2.clone())], i("y")).alias(id("x"))), f(TableRef::ValuesList(vec![ValueTuple::Two(a.v1.clone(), a.v2.clone())], i("x"))));
            pair!("TableRef::alias (function)", f(TableRef::FunctionCall(Func::cust(id("gen")).arg(a.e1.clone()), i("y")).alias(id("x"))), f(TableRef::FunctionCall(Func::cust(id("gen")).arg(a.e1.clone()), i("x"))));
            pair!("select.from_as", { let mut s = Query::select(); s.column(Asterisk).from_as((id("s"), id(&a.t)), id("x")); s }, f(TableRef::SchemaTableAlias(i("s"), i(&a.t), i("x"))));
            pair!("select.from_subquery", { let mut s = Query::select(); s.column(Asterisk).from_subquery(sub(&a), id("x")); s }, f(TableRef::SubQuery(sub(&a), i("x"))));
            pair!("select.from_values", { let mut s = Query::select(); s.column(Asterisk).from_values([(1, "a"), (2, "b")], id("x")); s }, f(TableRef::ValuesList(vec![ValueTuple::Two(1.into(), "a".into()), ValueTuple::Two(2.into(), "b".into())], i("x"))));
            pair!("select.from_function", { let mut s = Query::select(); s.column(Asterisk).from_function(Func::cust(id("gen")).arg(a.e1.clone()), id("x")); s }, f(TableRef::FunctionCall(Func::cust(id("gen")).arg(a.e1.clone()), i("x"))));
        }
        // ---- expression helpers that exist on both `Expr` and `SimpleExpr`, and the extension traits
        {
            use sea_query::extension::postgres::{PgBinOper, PgExpr};
            use sea_query::extension::sqlite::{SqliteBinOper, SqliteExpr};
            // a function call keeps exactly the arguments (and argument modifiers) of the last `args` / the accumulated `arg` calls
            pair!("FunctionCall::args replaces (count_distinct)", wrap(SimpleExpr::from(Func::count_distinct(a.e1.clone()).args([a.e2.clone(), a.e3.clone()])).eq(1)), wrap(SimpleExpr::from(Func::count(a.e2.clone()).arg(a.e3.clone())).eq(1)));
            pair!("FunctionCall::args replaces (array_agg_distinct)", wrap(SimpleExpr::from(sea_query::extension::postgres::PgFunc::array_agg_distinct(a.e1.clone()).args([a.e2.clone()])).eq(1)), wrap(SimpleExpr::from(sea_query::extension::postgres::PgFunc::array_agg(a.e2.clone())).eq(1)));
            pair!("FunctionCall::args twice", wrap(SimpleExpr::from(Func::coalesce([a.e1.clone(), a.e2.clone(), a.e3.clone()]).args([a.e2.clone()])).eq(1)), wrap(SimpleExpr::from(Func::coalesce([a.e2.clone()])).eq(1)));
            pair!("FunctionCall::arg xN = args", wrap(SimpleExpr::from(Func::cust(id("f")).arg(a.e1.clone()).arg(a.e2.clone()).arg(a.e3.clone())).eq(1)), wrap(SimpleExpr::from(Func::cust(id("f")).args([a.e1.clone(), a.e2.clone(), a.e3.clone()])).eq(1)));
            pair!("SimpleExpr::cast_as", wrap(a.e1.clone().cast_as(id("text")).eq(a.e2.clone())), wrap(SimpleExpr::from(Func::cast_as(a.e1.clone(), id("text"))).eq(a.e2.clone())));
            pair!("SimpleExpr::like", wrap(SimpleExpr::from(Func::lower(a.e1.clone())).like("a%")), wrap(SimpleExpr::from(Func::lower(a.e1.clone())).binary(BinOper::Like, Expr::val("a%"))));
            pair!("SimpleExpr::not_like", wrap(SimpleExpr::from(Func::lower(a.e1.clone())).not_like("a%")), wrap(SimpleExpr::from(Func::lower(a.e1.clone())).binary(BinOper::NotLike, Expr::val("a%"))));
            pair!("SimpleExpr::like escape", wrap(SimpleExpr::from(Func::lower(a.e1.clone())).like(LikeExpr::new("a|%").escape('|'))), wrap(SimpleExpr::from(Func::lower(a.e1.clone())).binary(BinOper::Like, Expr::val("a|%").binary(BinOper::Escape, SimpleExpr::Constant('|'.into())))));
            pair!("Expr::case", wrap(Into::<SimpleExpr>::into(Expr::case(a.cond.clone(), a.e1.clone()).finally(a.e2.clone())).eq(a.e3.clone())), wrap(Into::<SimpleExpr>::into(CaseStatement::new().case(a.cond.clone(), a.e1.clone()).finally(a.e2.clone())).eq(a.e3.clone())));
            pair!("Expr::some", wrap(col().ne(Expr::some(sub(&a)))), wrap(col().ne(SimpleExpr::SubQuery(Some(SubQueryOper::Some), Box::new(sub(&a).into_sub_query_statement())))));
            pair!("Expr::any", wrap(col().eq(Expr::any(sub(&a)))), wrap(col().eq(SimpleExpr::SubQuery(Some(SubQueryOper::Any), Box::new(sub(&a).into_sub_query_statement())))));
            pair!("Expr::all", wrap(col().gt(Expr::all(sub(&a)))), wrap(col().gt(SimpleExpr::SubQuery(Some(SubQueryOper::All), Box::new(sub(&a).into_sub_query_statement())))));
            pair!("Expr::exists", wrap(Expr::exists(sub(&a))), wrap(SimpleExpr::SubQuery(Some(SubQueryOper::Exists), Box::new(sub(&a).into_sub_query_statement()))));
            pair!("Expr::in_subquery", wrap(col().in_subquery(sub(&a))), wrap(col().binary(BinOper::In, SimpleExpr::SubQuery(None, Box::new(sub(&a).into_sub_query_statement())))));
            pair!("Expr::not_in_subquery", wrap(col().not_in_subquery(sub(&a))), wrap(col().binary(BinOper::NotIn, SimpleExpr::SubQuery(None, Box::new(sub(&a).into_sub_query_statement())))));
            let pgs: [(&str, fn(SimpleExpr, SimpleExpr) -> SimpleExpr, PgBinOper); 7] = [
                ("concatenate", |x, r| x.concatenate(r), PgBinOper::Concatenate), ("concat", |x, r| x.concat(r), PgBinOper::Concatenate), ("matches", |x, r| PgExpr::matches(x, r), PgBinOper::Matches),
                ("contains", |x, r| x.contains(r), PgBinOper::Contains), ("contained", |x, r| x.contained(r), PgBinOper::Contained),
                ("get_json_field", |x, r| PgExpr::get_json_field(x, r), PgBinOper::GetJsonField), ("cast_json_field", |x, r| PgExpr::cast_json_field(x, r), PgBinOper::CastJsonField)];
            for (name, f, op) in pgs { pair!(&format!("PgExpr::{name}"), wrap(f(col().into(), a.e1.clone())), wrap(col().binary(op, a.e1.clone()))); }
            pair!("PgExpr::ilike", wrap(PgExpr::ilike(SimpleExpr::from(col()), "a%")), wrap(col().binary(PgBinOper::ILike, Expr::val("a%"))));
            pair!("PgExpr::not_ilike", wrap(PgExpr::not_ilike(SimpleExpr::from(col()), "a%")), wrap(col().binary(PgBinOper::NotILike, Expr::val("a%"))));
            pair!("PgExpr::ilike escape", wrap(PgExpr::ilike(SimpleExpr::from(col()), LikeExpr::new("a|%").escape('|'))), wrap(col().binary(PgBinOper::ILike, Expr::val("a|%").binary(BinOper::Escape, SimpleExpr::Constant('|'.into())))));
            let sqs: [(&str, fn(SimpleExpr, SimpleExpr) -> SimpleExpr, SqliteBinOper); 4] = [
                ("glob", |x, r| x.glob(r), SqliteBinOper::Glob), ("matches", |x, r| SqliteExpr::matches(x, r), SqliteBinOper::Match),
                ("get_json_field", |x, r| SqliteExpr::get_json_field(x, r), SqliteBinOper::GetJsonField), ("cast_json_field", |x, r| SqliteExpr::cast_json_field(x, r), SqliteBinOper::CastJsonField)];
            for (name, f, op) in sqs { pair!(&format!("SqliteExpr::{name}"), wrap(f(col().into(), a.e1.clone())), wrap(col().binary(op, a.e1.clone()))); }
        }
        // ---- the ordering helpers of a window (OrderedStatement for WindowStatement)
        {
            let wsel = |w: WindowStatement| { let mut s = Query::select(); s.expr_window(a.e1.clone(), w).from(id(&a.t)); s };
            let w0 = || { let mut w = WindowStatement::new(); w.partition_by(id(&a.c)); w };
            pair!("window.partition_by_columns", wsel({ let mut w = WindowStatement::new(); w.partition_by_columns([id(&a.a), id(&a.b)]); w }), wsel({ let mut w = WindowStatement::new(); w.partition_by(id(&a.a)).partition_by(id(&a.b)); w }));
            pair!("window.order_by_customs", wsel({ let mut w = w0(); w.order_by_customs([("x", Order::Asc), ("y + 1", Order::Desc)]); w }), wsel({ let mut w = w0(); w.order_by_expr(Expr::cust("x"), Order::Asc).order_by_expr(Expr::cust("y + 1"), Order::Desc); w }));
            pair!("window.order_by_with_nulls", wsel({ let mut w = w0(); w.order_by_with_nulls(id(&a.a), Order::Desc, NullOrdering::First); w }), wsel({ let mut w = w0(); w.order_by_expr_with_nulls(Expr::col(id(&a.a)).into(), Order::Desc, NullOrdering::First); w }));
            pair!("window.order_by_customs_with_nulls", wsel({ let mut w = w0(); w.order_by_customs_with_nulls([("x", Order::Asc, NullOrdering::Last), ("y", Order::Desc, NullOrdering::First)]); w }), wsel({ let mut w = w0(); w.order_by_expr_with_nulls(Expr::cust("x"), Order::Asc, NullOrdering::Last).order_by_expr_with_nulls(Expr::cust("y"), Order::Desc, NullOrdering::First); w }));
            pair!("window.order_by_columns_with_nulls", wsel({ let mut w = w0(); w.order_by_columns_with_nulls([(id(&a.a), Order::Asc, NullOrdering::Last), (id(&a.b), Order::Desc, NullOrdering::First)]); w }), wsel({ let mut w = w0(); w.order_by_with_nulls(id(&a.a), Order::Asc, NullOrdering::Last).order_by_with_nulls(id(&a.b), Order::Desc, NullOrdering::First); w }));
            pair!("window.order_by", wsel({ let mut w = w0(); w.order_by(id(&a.a), Order::Desc); w }), wsel({ let mut w = w0(); w.order_by_expr(Expr::col(id(&a.a)).into(), Order::Desc); w }));
            pair!("window.clear_order_by", wsel({ let mut w = w0(); w.order_by(id(&a.a), Order::Desc).clear_order_by().order_by(id(&a.b), Order::Asc); w }), wsel({ let mut w = w0(); w.order_by(id(&a.b), Order::Asc); w }));
        }
        // ---- set operations accumulate in call order, whichever method adds them
        {
            let m = |k: u64| { let mut s = Query::select(); s.column(id(&a.b)).from(id(&a.u)).and_where(Expr::col(id(&a.b)).eq(k as i32)); s };
            let general = || { let mut s = sel(&a); s.union(UnionType::Except, m(1)).union(UnionType::All, m(2)).union(UnionType::Intersect, m(3)); s };
            pair!("select.unions", { let mut s = sel(&a); s.unions([(UnionType::Except, m(1)), (UnionType::All, m(2)), (UnionType::Intersect, m(3))]); s }, general());
            pair!("select.union then unions", { let mut s = sel(&a); s.union(UnionType::Except, m(1)).unions([(UnionType::All, m(2)), (UnionType::Intersect, m(3))]); s }, general());
            pair!("select.unions twice", { let mut s = sel(&a); s.unions([(UnionType::Except, m(1))]).unions([(UnionType::All, m(2)), (UnionType::Intersect, m(3))]); s }, general());
            pair!("select.unions then union", { let mut s = sel(&a); s.unions([(UnionType::Except, m(1)), (UnionType::All, m(2))]).union(UnionType::Intersect, m(3)); s }, general());
        }
        // ---- the default-row request: the last call decides how many rows, zero rows are zero rows
        {
            let base = || { let mut i = Query::insert(); i.into_table(id(&a.t)); i };
            pair!("insert.or_default_values after or_default_values_many", { let mut i = base(); i.or_default_values_many(3).or_default_values(); i }, { let mut i = base(); i.or_default_values(); i });
            pair!("insert.or_default_values_many after or_default_values", { let mut i = base(); i.or_default_values().or_default_values_many(3); i }, { let mut i = base(); i.or_default_values_many(3); i });
            pair!("insert.or_default_values_many(1)", { let mut i = base(); i.or_default_values_many(1); i }, { let mut i = base(); i.or_default_values(); i });
        }
        // ---- rows accumulate whichever of the row-adding methods is called, in any mix
        {
            let base = || { let mut i = Query::insert(); i.into_table(id(&a.t)).columns([id(&a.a), id(&a.b)]); i };
            let (r1, r2, r3) = ([a.e1.clone(), a.e2.clone()], [a.e2.clone(), a.e3.clone()], [a.e3.clone(), a.e1.clone()]);
            let general = || { let mut i = base(); i.values_panic(r1.clone()).values_panic(r2.clone()).values_panic(r3.clone()); i };
            pair!("insert.values_from_panic", { let mut i = base(); i.values_from_panic([r1.clone(), r2.clone(), r3.clone()]); i }, general());
            pair!("insert.values_panic then values_from_panic", { let mut i = base(); i.values_panic(r1.clone()).values_from_panic([r2.clone(), r3.clone()]); i }, general());
            pair!("insert.values_from_panic twice", { let mut i = base(); i.values_from_panic([r1.clone()]).values_from_panic([r2.clone(), r3.clone()]); i }, general());
            pair!("insert.values_from_panic then values_panic", { let mut i = base(); i.values_from_panic([r1.clone(), r2.clone()]).values_panic(r3.clone()); i }, general());
            pair!("insert.values then values_from_panic(empty)", { let mut i = base(); i.values_panic(r1.clone()).values_panic(r2.clone()).values_panic(r3.clone()).values_from_panic(Vec::<Vec<SimpleExpr>>::new()); i }, general());
        }
        pair!("insert.values_panic", { let mut i = Query::insert(); i.into_table(id(&a.t)).columns([id(&a.a), id(&a.b)]).values_panic([a.e1.clone(), a.e2.clone()]); i }, { let mut i = Query::insert(); i.into_table(id(&a.t)).columns([id(&a.a), id(&a.b)]); i.values([a.e1.clone(), a.e2.clone()]).unwrap(); i });
        pair!("insert.returning_col", { let mut i = Query::insert(); i.into_table(id(&a.t)).columns([id(&a.a)]).values_panic([a.e1.clone()]).returning_col(id(&a.b)); i }, { let mut i = Query::insert(); i.into_table(id(&a.t)).columns([id(&a.a)]).values_panic([a.e1.clone()]).returning(Query::returning().column(id(&a.b))); i });
        pair!("insert.returning_all", { let mut i = Query::insert(); i.into_table(id(&a.t)).columns([id(&a.a)]).values_panic([a.e1.clone()]).returning_all(); i }, { let mut i = Query::insert(); i.into_table(id(&a.t)).columns([id(&a.a)]).values_panic([a.e1.clone()]).returning(Query::returning().all()); i });

        // ---- window abbreviations (inside a SELECT so that they are rendered)
        let wsel = |w: WindowStatement| { let mut s = Query::select(); s.expr_window(a.e1.clone(), w).from(id(&a.t)); s };
        pair!("window.frame_between", wsel({ let mut w = WindowStatement::new(); w.partition_by(id(&a.a)).frame_between(FrameType::Rows, Frame::Preceding(2), Frame::CurrentRow); w }), wsel({ let mut w = WindowStatement::new(); w.partition_by(id(&a.a)).frame(FrameType::Rows, Frame::Preceding(2), Some(Frame::CurrentRow)); w }));
        pair!("window.frame_start", wsel({ let mut w = WindowStatement::new(); w.partition_by(id(&a.a)).frame_start(FrameType::Range, Frame::UnboundedPreceding); w }), wsel({ let mut w = WindowStatement::new(); w.partition_by(id(&a.a)).frame(FrameType::Range, Frame::UnboundedPreceding, None); w }));
        pair!("window.partition_by_custom", wsel(WindowStatement::partition_by_custom("x")), wsel({ let mut w = WindowStatement::new(); w.add_partition_by(Expr::cust("x")); w }));
        pair!("window.partition_by_customs", wsel({ let mut w = WindowStatement::new(); w.partition_by_customs(["x", "y"]); w }), wsel({ let mut w = WindowStatement::new(); w.add_partition_by(Expr::cust("x")).add_partition_by(Expr::cust("y")); w }));
        pair!("window.order_by_columns", wsel({ let mut w = WindowStatement::new(); w.order_by_columns([(id(&a.a), Order::Asc), (id(&a.b), Order::Desc)]); w }), wsel({ let mut w = WindowStatement::new(); w.order_by(id(&a.a), Order::Asc).order_by(id(&a.b), Order::Desc); w }));
        let _ = (&a.e3, &a.c);
    }
}


/// builder calls that fill different fields commute: a statement built by the same calls in another order (the relative order of
/// calls to the same field kept) is the same statement
fn commute(ctx: &mut crate::Ctx, rng: &mut crate::SplitMix64) {
    let calls = crate::c15::select_calls();
    let k = 2 + rng.below(5) as usize;
    let picks: Vec<(usize, u64)> = (0..k).map(|_| (rng.below(calls.len() as u64) as usize, rng.below(100))).collect();
    // a permutation that keeps same-field calls in their relative order: stable sort by a random key per FIELD
    let keys: Vec<u64> = (0..calls.len()).map(|_| rng.next()).collect();
    let mut perm = picks.clone();
    perm.sort_by_key(|(i, _)| keys[*i]);
    let build = |seq: &[(usize, u64)]| { let mut s = SelectStatement::new(); for (i, k) in seq { (calls[*i].1)(&mut s, *k); } s };
    let names: Vec<String> = picks.iter().map(|(i, k)| format!("{}({k})", calls[*i].0)).collect();
    let pnames: Vec<String> = perm.iter().map(|(i, k)| format!("{}({k})", calls[*i].0)).collect();
    ctx.eval_only(&format!("api commute {names:?} {pnames:?}"), true);
    ctx.count("api.commute");
    let (x, y) = (catch(|| build(&picks)), catch(|| build(&perm)));
    match (x, y) {
        (Some(x), Some(y)) => if x != y || render_q(&x) != render_q(&y) {
            ctx.oracle_fail("builder calls that fill different fields do not commute", serde_json::json!({"calls": names, "other_order": pnames, "first": format!("{x:?}").chars().take(500).collect::<String>(), "second": format!("{y:?}").chars().take(500).collect::<String>()}));
        },
        (None, None) => {}
        _ => ctx.oracle_fail("builder calls that fill different fields do not commute (one order panics)", serde_json::json!({"calls": names, "other_order": pnames})),
    }
}

/// schema builders: every `ColumnDef` type setter against `new_with_type` with the column type it documents, every specification
/// setter against `.spec(..)`: same definition (Debug), same rendering inside CREATE TABLE on the three backends
pub fn run_schema(ctx: &mut crate::Ctx) {
    let a = |s: &str| Alias::new(s);
    let render = |c: &ColumnDef| -> Vec<Option<String>> { let t = Table::create().table(a("t")).col(c.clone()).to_owned(); B::all().iter().map(|b| crate::sq::to_string_s(*b, &t)).collect() };
    let types: Vec<(&str, fn(&mut ColumnDef), ColumnType)> = vec![
        ("char_len", |d| { d.char_len(7); }, ColumnType::Char(Some(7))), ("char", |d| { d.char(); }, ColumnType::Char(None)),
        ("string_len", |d| { d.string_len(300); }, ColumnType::String(StringLen::N(300))), ("string", |d| { d.string(); }, ColumnType::String(StringLen::None)),
        ("text", |d| { d.text(); }, ColumnType::Text), ("tiny_integer", |d| { d.tiny_integer(); }, ColumnType::TinyInteger), ("small_integer", |d| { d.small_integer(); }, ColumnType::SmallInteger),
        ("integer", |d| { d.integer(); }, ColumnType::Integer), ("big_integer", |d| { d.big_integer(); }, ColumnType::BigInteger), ("tiny_unsigned", |d| { d.tiny_unsigned(); }, ColumnType::TinyUnsigned),
        ("small_unsigned", |d| { d.small_unsigned(); }, ColumnType::SmallUnsigned), ("unsigned", |d| { d.unsigned(); }, ColumnType::Unsigned), ("big_unsigned", |d| { d.big_unsigned(); }, ColumnType::BigUnsigned),
        ("float", |d| { d.float(); }, ColumnType::Float), ("double", |d| { d.double(); }, ColumnType::Double), ("decimal_len", |d| { d.decimal_len(12, 3); }, ColumnType::Decimal(Some((12, 3)))),
        ("decimal", |d| { d.decimal(); }, ColumnType::Decimal(None)), ("date_time", |d| { d.date_time(); }, ColumnType::DateTime), ("interval", |d| { d.interval(Some(PgInterval::YearToMonth), Some(3)); }, ColumnType::Interval(Some(PgInterval::YearToMonth), Some(3))),
        ("interval(None)", |d| { d.interval(None, None); }, ColumnType::Interval(None, None)), ("vector", |d| { d.vector(Some(3)); }, ColumnType::Vector(Some(3))), ("vector(None)", |d| { d.vector(None); }, ColumnType::Vector(None)),
        ("timestamp", |d| { d.timestamp(); }, ColumnType::Timestamp), ("timestamp_with_time_zone", |d| { d.timestamp_with_time_zone(); }, ColumnType::TimestampWithTimeZone), ("time", |d| { d.time(); }, ColumnType::Time),
        ("date", |d| { d.date(); }, ColumnType::Date), ("year", |d| { d.year(); }, ColumnType::Year), ("binary_len", |d| { d.binary_len(16); }, ColumnType::Binary(16)), ("binary", |d| { d.binary(); }, ColumnType::Binary(1)),
        ("var_binary", |d| { d.var_binary(64); }, ColumnType::VarBinary(StringLen::N(64))), ("bit", |d| { d.bit(Some(5)); }, ColumnType::Bit(Some(5))), ("bit(None)", |d| { d.bit(None); }, ColumnType::Bit(None)),
        ("varbit", |d| { d.varbit(9); }, ColumnType::VarBit(9)), ("blob", |d| { d.blob(); }, ColumnType::Blob), ("boolean", |d| { d.boolean(); }, ColumnType::Boolean),
        ("money_len", |d| { d.money_len(10, 2); }, ColumnType::Money(Some((10, 2)))), ("money", |d| { d.money(); }, ColumnType::Money(None)), ("json", |d| { d.json(); }, ColumnType::Json),
        ("json_binary", |d| { d.json_binary(); }, ColumnType::JsonBinary), ("uuid", |d| { d.uuid(); }, ColumnType::Uuid), ("cidr", |d| { d.cidr(); }, ColumnType::Cidr), ("inet", |d| { d.inet(); }, ColumnType::Inet),
        ("mac_address", |d| { d.mac_address(); }, ColumnType::MacAddr), ("ltree", |d| { d.ltree(); }, ColumnType::LTree),
        ("custom", |d| { d.custom(Alias::new("citext")); }, ColumnType::Custom(Alias::new("citext").into_iden())),
        ("enumeration", |d| { d.enumeration(Alias::new("mood"), [Alias::new("ok"), Alias::new("sad")]); }, ColumnType::Enum { name: Alias::new("mood").into_iden(), variants: vec![Alias::new("ok").into_iden(), Alias::new("sad").into_iden()] }),
        ("array", |d| { d.array(ColumnType::Integer); }, crate::util::array_of(ColumnType::Integer)),
    ];
    for (name, f, ty) in types {
        ctx.eval_only(&format!("api ColumnDef::{name}"), true);
        ctx.count("api.column_type_setters");
        let mut x = ColumnDef::new(a("c")); f(&mut x);
        let y = ColumnDef::new_with_type(a("c"), ty.clone());
        if format!("{x:?}") != format!("{y:?}") || render(&x) != render(&y) {
            ctx.oracle_fail("a column type setter does not declare the column type it documents", serde_json::json!({"method": name, "documented": format!("{ty:?}"), "got": format!("{:?}", x.get_column_type()), "renders": render(&x), "expected": render(&y)}));
        }
        // a setter called after another type setter replaces the type
        let mut z = ColumnDef::new(a("c")); z.integer(); f(&mut z);
        if format!("{z:?}") != format!("{y:?}") { ctx.oracle_fail("a column type setter called after another one does not replace the type", serde_json::json!({"method": name, "got": format!("{:?}", z.get_column_type())})); }
    }
    let specs: Vec<(&str, fn(&mut ColumnDef), ColumnSpec)> = vec![
        ("not_null", |d| { d.not_null(); }, ColumnSpec::NotNull), ("null", |d| { d.null(); }, ColumnSpec::Null), ("auto_increment", |d| { d.auto_increment(); }, ColumnSpec::AutoIncrement),
        ("unique_key", |d| { d.unique_key(); }, ColumnSpec::UniqueKey), ("primary_key", |d| { d.primary_key(); }, ColumnSpec::PrimaryKey),
        ("default", |d| { d.default(5); }, ColumnSpec::Default(Expr::val(5).into())), ("check", |d| { d.check(Expr::col(Alias::new("c")).gt(0)); }, ColumnSpec::Check(Expr::col(Alias::new("c")).gt(0))),
        ("generated", |d| { d.generated(Expr::col(Alias::new("b")).mul(2), true); }, ColumnSpec::Generated { expr: Expr::col(Alias::new("b")).mul(2), stored: true }),
        ("extra", |d| { d.extra("COLLATE x"); }, ColumnSpec::Extra("COLLATE x".into())), ("comment", |d| { d.comment("it's"); }, ColumnSpec::Comment("it's".into())),
        ("using", |d| { d.using(Expr::col(Alias::new("c")).cast_as(Alias::new("integer"))); }, ColumnSpec::Using(Expr::col(Alias::new("c")).cast_as(Alias::new("integer")))),
    ];
    for (name, f, sp) in specs {
        ctx.eval_only(&format!("api ColumnDef::{name}"), true);
        ctx.count("api.column_spec_setters");
        let mut x = ColumnDef::new(a("c")); x.integer().not_null(); f(&mut x);
        let want = vec![ColumnSpec::NotNull, sp.clone()];
        if format!("{:?}", x.get_column_spec()) != format!("{want:?}") || format!("{:?}", x.get_column_type()) != format!("{:?}", Some(&ColumnType::Integer)) {
            ctx.oracle_fail("a column specification setter does not add the specification it documents", serde_json::json!({"method": name, "got": format!("{:?}", x.get_column_spec()), "expected": format!("{want:?}")}));
        }
        let _ = &render;
    }
}
