//! C08: MySQL / Postgres statements carry every clause given, in grammar order.  Each generated
//! statement is rendered by the crate (inline and parameterised) and, independently, fully
//! explicitly in the dialect's documented form (`explicit.rs`); all texts are parsed by the
//! reference grammar of the dialect (`sqlparse.rs`) and the trees must coincide: a dropped,
//! duplicated, misplaced or wrongly separated clause, a construct of another dialect, a missing
//! re-routing (MySQL UPDATE .. JOIN .. ON, NULLS emulation, ..) or a lost enum cast changes the tree
//! or breaks the parse.
use crate::reflex::B;
use crate::sqlparse::{parse, T};
use crate::stmt::*;
use crate::*;

/// the shape of a tree: every value-like leaf collapsed (the parameterised form has placeholders where
/// the inline form has literals)
fn shape(t: &T) -> T {
    match t {
        T::L(s) => if s == "param" || s.starts_with("num:") || s.starts_with("str:") || s.starts_with("bytes:") || s == "kw:NULL" || s == "kw:TRUE" || s == "kw:FALSE" { T::L("value".into()) } else { T::L(s.clone()) },
        T::N(k, c) => T::N(k.clone(), c.iter().map(shape).collect()),
    }
}
fn first_diff(a: &T, b: &T) -> String {
    match (a, b) {
        (T::N(k1, c1), T::N(k2, c2)) if k1 == k2 => {
            for (x, y) in c1.iter().zip(c2.iter()) { if x != y { return format!("{k1} > {}", first_diff(x, y)); } }
            format!("{k1}: {} vs {} children; crate {} | reference {}", c1.len(), c2.len(), c1.iter().map(|x| x.show()).collect::<Vec<_>>().join(" ").chars().take(300).collect::<String>(), c2.iter().map(|x| x.show()).collect::<Vec<_>>().join(" ").chars().take(300).collect::<String>())
        }
        _ => format!("crate {} | reference {}", a.show().chars().take(500).collect::<String>(), b.show().chars().take(500).collect::<String>()),
    }
}

pub fn run(ctx: &mut Ctx) {
    ctx.rule = "seeded generator over the statement AST restricted to each dialect's supported features (all clause kinds, dialect-specific constructs included, caller-supplied raw text limited to expression atoms) x {MySQL, Postgres} (SQLite as a third leg); crate inline and parameterised renderings and the independent explicit reference rendering are parsed by the dialect's reference grammar and the trees compared; the same recipes are compared with the Lean statement model".into();
    let n = if ctx.tier_thorough { 40000 } else { 4500 };
    let mut rng = ctx.rng.fork();
    let mut unparsed_ref = 0u64;
    for i in 0..n {
        let b = [B::Mysql, B::Postgres, B::Mysql, B::Postgres, B::Sqlite][i % 5];
        let depth = match rng.below(10) { 0..=3 => 1, 4..=7 => 2, 8 => 3, _ => 4 };
        let mut g = Gen::new(rng.fork(), b, true);
        g.plain = true;
        let q = g.statement(depth);
        let recipe = q.sexp();
        let Some(real) = catch(|| q.real()) else { ctx.count("build.panic"); continue };
        let r = crate::c01::render(&real, b);
        let sq = recipe.clone();
        ctx.case_norm(format!("stmt {} {recipe}", b.name()), crate::c01::expect_line(&r), true, &move || format!("{} {}", b.name(), sq), crate::c01::strip_flags(false));
        let Some(r) = r else { ctx.oracle_fail("a statement built from the dialect's supported features cannot be rendered (the crate panics)", serde_json::json!({"backend": b.name(), "recipe": recipe})); continue };
        ctx.count(&format!("kind.{}", match &q { Query::Sel(_) => "select", Query::Ins(_) => "insert", Query::Upd(_) => "update", Query::Del(_) => "delete", Query::With(_, _) => "with" }));
        let reference = crate::explicit::render(b, &q);
        let rt = match parse(b, &reference) {
            Ok(t) => t,
            Err(e) => { unparsed_ref += 1; if ctx.notes.len() < 8 { ctx.notes.push(format!("reference rendering does not parse ({e}): {}", reference.chars().take(400).collect::<String>())); } ctx.count("reference.unparsed"); continue; }
        };
        ctx.eval_only(&format!("tree {} {recipe}", b.name()), true);
        let class = if g.named_window { Some("C08.named_window_clause") } else if g.multi_from_update { Some("C08.mysql_update_multiple_from") } else if g.do_nothing_no_keys { Some("C08.mysql_on_duplicate_key_ignore") } else { None };
        match parse(b, &r.inline) {
            Err(e) => ctx.oracle_fail("the rendered statement does not parse under the dialect's grammar", serde_json::json!({"class": class, "backend": b.name(), "error": e, "sql": r.inline, "reference": reference, "recipe": recipe})),
            Ok(t) => {
                if t != rt { ctx.oracle_fail("the rendered statement does not parse to the clauses the builder was given (tree differs from the explicit reference rendering)", serde_json::json!({"class": class, "backend": b.name(), "difference": first_diff(&t, &rt), "sql": r.inline, "reference": reference, "recipe": recipe})); }
                match parse(b, &r.sql) {
                    Err(e) => ctx.oracle_fail("the parameterised statement does not parse under the dialect's grammar", serde_json::json!({"class": class, "backend": b.name(), "error": e, "sql": r.sql, "recipe": recipe})),
                    Ok(pt) => if shape(&pt) != shape(&t) { ctx.oracle_fail("the parameterised statement has a different structure than the inline one", serde_json::json!({"class": class, "backend": b.name(), "difference": first_diff(&shape(&pt), &shape(&t)), "sql": r.sql, "inline": r.inline, "recipe": recipe})); },
                }
            }
        }
    }
    if unparsed_ref * 50 > n as u64 { ctx.notes.push(format!("WARNING: {unparsed_ref} of {n} reference renderings did not parse")); ctx.oracle_fail("the reference renderer / grammar disagree on too many statements (machinery fault)", serde_json::json!({"class": "machinery", "count": unparsed_ref})); }
    // the convenience methods of the builders build what their general forms build (clauses given through them are carried too)
    crate::api::run(ctx);
}
