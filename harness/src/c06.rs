//! C06: conditions — differential on the rendered predicate's parse tree + truth-table oracle.
use crate::reflex::{self, B, Tok};
use crate::sq::*;
use crate::*;
use sea_query::*;

#[derive(Clone, Debug)]
pub enum CT { Atom(usize), Group { any: bool, neg: bool, ms: Vec<Option<CT>> } }

fn sexp(c: &CT) -> String {
    match c {
        CT::Atom(n) => format!("a{n}"),
        CT::Group { any, neg, ms } => {
            let mut s = format!("({}", if *any { "any" } else { "all" });
            if *neg { s.push_str(" not"); }
            for m in ms { s.push(' '); match m { None => s.push_str("none"), Some(x) => s.push_str(&sexp(x)) } }
            s.push(')');
            s
        }
    }
}

fn atom(n: usize) -> SimpleExpr { Expr::col(Alias::new(format!("a{n}"))).into() }

/// the same tree as a plain expression (`a.or(b)`, `.and(..)`, `.not()`): what `and_where(expr)` is given when the caller combines
/// expressions instead of `Condition`s; groups need at least one member
fn to_expr(c: &CT) -> Option<SimpleExpr> {
    match c {
        CT::Atom(n) => Some(atom(*n)),
        CT::Group { any, neg, ms } => {
            let mut it = ms.iter();
            let mut acc = to_expr(it.next()?.as_ref()?)?;
            for m in it { let r = to_expr(m.as_ref()?)?; acc = if *any { acc.or(r) } else { acc.and(r) }; }
            Some(if *neg { acc.not() } else { acc })
        }
    }
}

thread_local! {
    /// when `not()` is called while a negated group is built: 0 = after the last member, 1 = before the first, 2 = after the first
    /// (the negate flag is a property of the group, so the moment of the call must not matter)
    static NOT_AT: std::cell::Cell<u8> = const { std::cell::Cell::new(0) };
}

/// build through the public API exactly as the recipe says
fn build(c: &CT) -> Condition {
    let mode = NOT_AT.with(|m| m.get());
    match c {
        CT::Atom(n) => Condition::all().add(atom(*n)),
        CT::Group { any, neg, ms } => {
            let mut g = if *any { Condition::any() } else { Condition::all() };
            let at = match mode { 0 => ms.len(), 1 => 0, _ => 1.min(ms.len()) };
            for (i, m) in ms.iter().enumerate() {
                if *neg && i == at { g = g.not(); }
                g = match m {
                    None => g.add_option(None::<SimpleExpr>),
                    Some(CT::Atom(n)) => g.add(atom(*n)),
                    Some(x) => g.add(build(x)),
                };
            }
            if *neg && at >= ms.len() { g.not() } else { g }
        }
    }
}

#[derive(Clone, Copy, PartialEq, Eq, Debug)]
pub enum K { T, F, U }
fn and3(a: K, b: K) -> K { if a == K::F || b == K::F { K::F } else if a == K::T && b == K::T { K::T } else { K::U } }
fn or3(a: K, b: K) -> K { if a == K::T || b == K::T { K::T } else if a == K::F && b == K::F { K::F } else { K::U } }
fn not3(a: K) -> K { match a { K::T => K::F, K::F => K::T, K::U => K::U } }

/// the specification, independent of the crate
fn spec(c: &CT, rho: &[K]) -> K {
    match c {
        CT::Atom(n) => rho[*n],
        CT::Group { any, neg, ms } => {
            let mut v = if *any { K::F } else { K::T };
            for m in ms.iter().flatten() { let x = spec(m, rho); v = if *any { or3(v, x) } else { and3(v, x) }; }
            if *neg { not3(v) } else { v }
        }
    }
}

#[derive(Debug, Clone)]
pub enum P { Atom(usize), True, False, And(Box<P>, Box<P>), Or(Box<P>, Box<P>), Not(Box<P>) }

fn show(p: &P) -> String {
    match p {
        P::Atom(n) => format!("a{n}"), P::True => "true".into(), P::False => "false".into(),
        P::And(l, r) => format!("(and {} {})", show(l), show(r)),
        P::Or(l, r) => format!("(or {} {})", show(l), show(r)),
        P::Not(e) => format!("(not {})", show(e)),
    }
}
fn evalp(p: &P, rho: &[K]) -> K {
    match p {
        P::Atom(n) => rho[*n], P::True => K::T, P::False => K::F,
        P::And(l, r) => and3(evalp(l, rho), evalp(r, rho)),
        P::Or(l, r) => or3(evalp(l, rho), evalp(r, rho)),
        P::Not(e) => not3(evalp(e, rho)),
    }
}

/// SQL predicate grammar over {OR < AND < NOT, parentheses, atoms, TRUE, FALSE}, left-associative
struct Parser<'a> { t: &'a [Tok], i: usize }
impl<'a> Parser<'a> {
    fn peek_word(&self, w: &str) -> bool { matches!(self.t.get(self.i), Some(Tok::Word(x)) if x.eq_ignore_ascii_case(w)) }
    fn or(&mut self) -> Option<P> {
        let mut l = self.and()?;
        while self.peek_word("OR") { self.i += 1; let r = self.and()?; l = P::Or(Box::new(l), Box::new(r)); }
        Some(l)
    }
    fn and(&mut self) -> Option<P> {
        let mut l = self.not()?;
        while self.peek_word("AND") { self.i += 1; let r = self.not()?; l = P::And(Box::new(l), Box::new(r)); }
        Some(l)
    }
    fn not(&mut self) -> Option<P> {
        if self.peek_word("NOT") { self.i += 1; let e = self.not()?; return Some(P::Not(Box::new(e))); }
        self.primary()
    }
    fn primary(&mut self) -> Option<P> {
        match self.t.get(self.i)? {
            Tok::Punct(p) if p == "(" => { self.i += 1; let e = self.or()?; match self.t.get(self.i)? { Tok::Punct(q) if q == ")" => { self.i += 1; Some(e) } _ => None } }
            Tok::Ident(s) => { let n = s.strip_prefix('a')?.parse().ok()?; self.i += 1; Some(P::Atom(n)) }
            Tok::Word(w) if w.eq_ignore_ascii_case("TRUE") => { self.i += 1; Some(P::True) }
            Tok::Word(w) if w.eq_ignore_ascii_case("FALSE") => { self.i += 1; Some(P::False) }
            _ => None,
        }
    }
}
fn parse_pred(t: &[Tok]) -> Option<P> { let mut p = Parser { t, i: 0 }; let e = p.or()?; if p.i == t.len() { Some(e) } else { None } }

fn word_pos(t: &[Tok], w: &str, from: usize) -> Option<usize> {
    t.iter().enumerate().skip(from).find(|(_, x)| matches!(x, Tok::Word(s) if s.eq_ignore_ascii_case(w))).map(|(i, _)| i)
}

const KINDS: [&str; 16] = ["join_on_cross", "join_on_left", "join_on_right", "join_on_full", "join_on_plain", "join_on_inner", "update_from_where", "select_where", "select_having", "select_having_no_group", "update_where", "delete_where", "join_on", "case_when", "conflict_target_where", "conflict_action_where"];

/// render the history on one statement kind; returns the predicate tokens (None = no predicate rendered)
fn render(kind: &str, b: B, hist: &[CT]) -> Result<Option<Vec<Tok>>, String> {
    let add_where = |mut f: Box<dyn FnMut(&CT, bool)>| { for c in hist { f(c, matches!(c, CT::Atom(_))); } };
    let _ = add_where;
    let sql: Option<String> = match kind {
        "select_where" => {
            let mut q = Query::select(); q.expr(Expr::val(1)).from(Alias::new("t"));
            for c in hist { match c { CT::Atom(n) => { q.and_where(atom(*n)); } g => { q.cond_where(build(g)); } } }
            to_string_q(b, &q)
        }
        "select_having" => {
            let mut q = Query::select(); q.expr(Expr::val(1)).from(Alias::new("t")).group_by_col(Alias::new("g"));
            for c in hist { match c { CT::Atom(n) => { q.and_having(atom(*n)); } g => { q.cond_having(build(g)); } } }
            to_string_q(b, &q)
        }
        "select_having_no_group" => {
            // HAVING without GROUP BY (the whole result is one group) is valid in all three engines
            let mut q = Query::select(); q.expr(Func::count(Expr::col(Asterisk))).from(Alias::new("t"));
            for c in hist { match c { CT::Atom(n) => { q.and_having(atom(*n)); } g => { q.cond_having(build(g)); } } }
            to_string_q(b, &q)
        }
        "update_where" => {
            let mut q = Query::update(); q.table(Alias::new("t")).value(Alias::new("x"), 1);
            for c in hist { match c { CT::Atom(n) => { q.and_where(atom(*n)); } g => { q.cond_where(build(g)); } } }
            to_string_q(b, &q)
        }
        "update_from_where" => {
            // Postgres / SQLite: UPDATE .. SET .. FROM u WHERE <cond>; MySQL: UPDATE t JOIN u ON <cond> SET ..
            let mut q = Query::update(); q.table(Alias::new("t")).value(Alias::new("x"), 1).from(Alias::new("u"));
            for c in hist { match c { CT::Atom(n) => { q.and_where(atom(*n)); } g => { q.cond_where(build(g)); } } }
            to_string_q(b, &q)
        }
        "delete_where" => {
            let mut q = Query::delete(); q.from_table(Alias::new("t"));
            for c in hist { match c { CT::Atom(n) => { q.and_where(atom(*n)); } g => { q.cond_where(build(g)); } } }
            to_string_q(b, &q)
        }
        "join_on" => {
            if hist.len() != 1 { return Ok(None); }
            let mut q = Query::select(); q.expr(Expr::val(1)).from(Alias::new("t"));
            match &hist[0] { CT::Atom(n) => { q.join(JoinType::InnerJoin, Alias::new("u"), atom(*n)); } g => { q.join(JoinType::InnerJoin, Alias::new("u"), build(g)); } }
            to_string_q(b, &q)
        }
        // every other join type, through its own method: the ON clause is the condition that was given, whatever the type
        "join_on_cross" | "join_on_left" | "join_on_right" | "join_on_full" | "join_on_plain" | "join_on_inner" => {
            if hist.len() != 1 || (kind == "join_on_full" && b == B::Mysql) { return Ok(None); }
            let mut q = Query::select(); q.expr(Expr::val(1)).from(Alias::new("t"));
            let c: Condition = match &hist[0] { CT::Atom(n) => atom(*n).into_condition(), g => build(g) };
            match kind { "join_on_cross" => { q.cross_join(Alias::new("u"), c); } "join_on_left" => { q.left_join(Alias::new("u"), c); } "join_on_right" => { q.right_join(Alias::new("u"), c); }
                "join_on_full" => { q.full_outer_join(Alias::new("u"), c); } "join_on_inner" => { q.inner_join(Alias::new("u"), c); } _ => { q.join(JoinType::Join, Alias::new("u"), c); } }
            to_string_q(b, &q)
        }
        "case_when" => {
            if hist.len() != 1 { return Ok(None); }
            let cs = match &hist[0] { CT::Atom(n) => CaseStatement::new().case(atom(*n), 1), g => CaseStatement::new().case(build(g), 1) };
            let mut q = Query::select(); q.expr(cs);
            to_string_q(b, &q)
        }
        "conflict_target_where" | "conflict_action_where" => {
            if b == B::Mysql { return Ok(None); }
            let mut oc = OnConflict::column(Alias::new("id"));
            oc.update_column(Alias::new("x"));
            for c in hist {
                match (kind, c) {
                    ("conflict_target_where", CT::Atom(n)) => { oc.target_and_where(atom(*n)); }
                    ("conflict_target_where", g) => { oc.target_cond_where(build(g)); }
                    (_, CT::Atom(n)) => { oc.action_and_where(atom(*n)); }
                    (_, g) => { oc.action_cond_where(build(g)); }
                }
            }
            let mut q = Query::insert(); q.into_table(Alias::new("t")).columns([Alias::new("id"), Alias::new("x")]).values_panic([1.into(), 2.into()]).on_conflict(oc);
            to_string_q(b, &q)
        }
        _ => None,
    };
    let sql = sql.ok_or_else(|| "rendering panicked".to_string())?;
    let toks = reflex::lex(b, &sql).map_err(|e| format!("lex error {e} in {sql}"))?;
    let slice = |from: Option<usize>, to: Option<usize>| -> Option<Vec<Tok>> { from.map(|f| toks[f + 1..to.unwrap_or(toks.len())].to_vec()) };
    Ok(match kind {
        // every predicate the statement carries counts: the join condition AND the WHERE clause
        "update_from_where" if b == B::Mysql => {
            let on = word_pos(&toks, "ON", 0); let set = word_pos(&toks, "SET", 0); let wh = word_pos(&toks, "WHERE", 0);
            let p = |x: &str| Tok::Punct(x.to_string());
            match (slice(on, set), slice(wh, None)) {
                (Some(a), Some(c)) => { let mut v = vec![p("(")]; v.extend(a); v.extend([p(")"), Tok::Word("AND".into()), p("(")]); v.extend(c); v.push(p(")")); Some(v) }
                (a, c) => a.or(c),
            }
        }
        "update_from_where" => slice(word_pos(&toks, "WHERE", 0), None),
        "select_where" | "update_where" | "delete_where" => slice(word_pos(&toks, "WHERE", 0), None),
        "select_having" | "select_having_no_group" => slice(word_pos(&toks, "HAVING", 0), None),
        "join_on" | "join_on_cross" | "join_on_left" | "join_on_right" | "join_on_full" | "join_on_plain" | "join_on_inner" => slice(word_pos(&toks, "ON", 0), None),
        "case_when" => slice(word_pos(&toks, "WHEN", 0), word_pos(&toks, "THEN", 0)),
        "conflict_target_where" => { let c = word_pos(&toks, "CONFLICT", 0).unwrap_or(0); let d = word_pos(&toks, "DO", c); match word_pos(&toks, "WHERE", c) { Some(w) if Some(w) < d => slice(Some(w), d), _ => None } }
        "conflict_action_where" => { let d = word_pos(&toks, "DO", 0).unwrap_or(0); slice(word_pos(&toks, "WHERE", d), None) }
        _ => None,
    })
}

fn natoms(c: &CT) -> usize { match c { CT::Atom(n) => n + 1, CT::Group { ms, .. } => ms.iter().flatten().map(natoms).max().unwrap_or(0) } }

fn check_history(ctx: &mut Ctx, hist: &[CT], kinds: &[&str], backends: &[B]) {
    let line = format!("cond (hist{})", hist.iter().map(|c| format!(" {}", sexp(c))).collect::<String>());
    let k = hist.iter().map(natoms).max().unwrap_or(0);
    for kind in kinds {
        for &b in backends {
          for mode in 0..3u8 {
            if mode > 0 && !hist.iter().any(has_neg) { continue; }
            NOT_AT.with(|m| m.set(mode));
            let r = render(kind, b, hist);
            NOT_AT.with(|m| m.set(0));
            let (expect, parsed) = match &r {
                Ok(None) => { if (kind.starts_with("join_on") || *kind == "case_when") && hist.len() != 1 { continue; } if *kind == "join_on_full" && b == B::Mysql { continue; } if b == B::Mysql && kind.starts_with("conflict") { continue; } ("nopred".to_string(), None) }
                Ok(Some(t)) => match parse_pred(t) { Some(p) => (format!("pred {}", show(&p)), Some(p)), None => (format!("unparsable {:?}", t), None) },
                Err(e) => (format!("error {e}"), None),
            };
            let (lc, kc) = (line.clone(), kind.to_string());
            // the model is asked once per history; the other call orders of not() go through the oracle only
            if mode == 0 { ctx.case(line.clone(), expect.clone(), !hist.is_empty(), &|| format!("{} on {} [{}]", lc, kc, b.name())); }
            else { ctx.count("not_called_early"); }
            let line = if mode == 0 { line.clone() } else { format!("{line} [not() called {}]", if mode == 1 { "before the first add" } else { "after the first add" }) };
            ctx.count(&format!("kind.{kind}"));
            // oracle: three-valued truth table of what was rendered vs the AND of what was supplied
            if hist.is_empty() {
                if expect != "nopred" { ctx.oracle_fail("a statement given no condition rendered a predicate", serde_json::json!({"history": line, "kind": kind, "backend": b.name(), "rendered": expect})); }
                continue;
            }
            // no predicate at all means TRUE: that is a faithful rendering exactly when the supplied conditions are identically TRUE
            let parsed = if parsed.is_none() && expect == "nopred" { Some(P::True) } else { parsed };
            match parsed {
                None => ctx.oracle_fail("conditions were supplied but no parsable predicate was rendered", serde_json::json!({"history": line, "kind": kind, "backend": b.name(), "rendered": expect})),
                Some(p) => {
                    let mut rho = vec![K::T; k.max(1)];
                    let total = 3usize.pow(k as u32);
                    for a in 0..total {
                        let mut x = a;
                        for j in 0..k { rho[j] = [K::T, K::F, K::U][x % 3]; x /= 3; }
                        let want = hist.iter().fold(K::T, |acc, c| and3(acc, spec(c, &rho)));
                        let got = evalp(&p, &rho);
                        if want != got {
                            ctx.oracle_fail("rendered predicate is not equivalent (three-valued) to the AND of the supplied conditions",
                                serde_json::json!({"history": line, "kind": kind, "backend": b.name(), "rendered": show(&p), "assignment": format!("{:?}", &rho[..k]), "expected": format!("{:?}", want), "got": format!("{:?}", got)}));
                            break;
                        }
                    }
                }
            }
          }
        }
    }
}
fn has_neg(c: &CT) -> bool { match c { CT::Atom(_) => false, CT::Group { neg, ms, .. } => *neg || ms.iter().flatten().any(has_neg) } }

/// all trees up to the given depth / width over `atoms` atoms (atoms reused round-robin)
fn enum_trees(depth: u32, width: usize, next_atom: &mut usize, atoms: usize) -> Vec<CT> {
    let mut out = Vec::new();
    let a = *next_atom % atoms; *next_atom += 1;
    out.push(CT::Atom(a));
    if depth == 0 { return out; }
    let subs: Vec<Option<CT>> = { let mut v: Vec<Option<CT>> = enum_trees(depth - 1, width, next_atom, atoms).into_iter().map(Some).collect(); v.push(None); v };
    for any in [false, true] { for neg in [false, true] {
        out.push(CT::Group { any, neg, ms: vec![] });
        for w in 1..=width {
            let mut idx = vec![0usize; w];
            loop {
                let ms: Vec<Option<CT>> = idx.iter().enumerate().map(|(j, &i)| relabel(&subs[i], j, atoms)).collect();
                out.push(CT::Group { any, neg, ms });
                let mut k = w; let mut done = false;
                loop { if k == 0 { done = true; break; } k -= 1; idx[k] += 1; if idx[k] < subs.len() { break; } idx[k] = 0; }
                if done { break; }
            }
        }
    } }
    out
}
fn relabel(c: &Option<CT>, shift: usize, atoms: usize) -> Option<CT> {
    c.as_ref().map(|c| match c {
        CT::Atom(n) => CT::Atom((n + shift) % atoms),
        CT::Group { any, neg, ms } => CT::Group { any: *any, neg: *neg, ms: ms.iter().map(|m| relabel(m, shift, atoms)).collect() },
    })
}

fn random_tree(r: &mut SplitMix64, depth: u32, atoms: usize) -> CT {
    if depth == 0 || r.chance(1, 3) { return CT::Atom(r.below(atoms as u64) as usize); }
    let w = r.below(4) as usize;
    CT::Group { any: r.chance(1, 2), neg: r.chance(1, 3), ms: (0..w).map(|_| if r.chance(1, 8) { None } else { Some(random_tree(r, depth - 1, atoms)) }).collect() }
}

/// every member given as an expression through `and_where` / `and_having` (the chain API): the clause must still mean the AND of the members
fn check_expr_chain(ctx: &mut Ctx, members: &[CT], b: B) {
    let Some(exprs) = members.iter().map(to_expr).collect::<Option<Vec<_>>>() else { return };
    let k = members.iter().map(natoms).max().unwrap_or(0);
    for kind in ["select_where", "select_having", "update_where", "delete_where"] {
        let es = exprs.clone();
        let sql = match kind {
            "select_where" => { let mut q = Query::select(); q.expr(Expr::val(1)).from(Alias::new("t")); for e in es { q.and_or_where(LogicalChainOper::And(e)); } to_string_q(b, &q) }
            "select_having" => { let mut q = Query::select(); q.expr(Expr::val(1)).from(Alias::new("t")).group_by_col(Alias::new("g")); for e in es { q.and_having(e); } to_string_q(b, &q) }
            "update_where" => { let mut q = Query::update(); q.table(Alias::new("t")).value(Alias::new("x"), 1); for e in es { q.and_or_where(LogicalChainOper::And(e)); } to_string_q(b, &q) }
            _ => { let mut q = Query::delete(); q.from_table(Alias::new("t")); for e in es { q.and_or_where(LogicalChainOper::And(e)); } to_string_q(b, &q) }
        };
        let line = format!("chain-exprs {kind} {} {}", b.name(), members.iter().map(sexp).collect::<Vec<_>>().join(" "));
        ctx.eval_only(&line, true);
        ctx.count("kind.chain_exprs");
        let Some(sql) = sql else { ctx.oracle_fail("conditions were supplied but no parsable predicate was rendered", serde_json::json!({"history": line, "rendered": "panic"})); continue };
        let toks = match reflex::lex(b, &sql) { Ok(t) => t, Err(e) => { ctx.oracle_fail("conditions were supplied but no parsable predicate was rendered", serde_json::json!({"history": line, "sql": sql, "error": e})); continue } };
        let kw = if kind == "select_having" { "HAVING" } else { "WHERE" };
        let pred = word_pos(&toks, kw, 0).and_then(|f| parse_pred(&toks[f + 1..]));
        let Some(p) = pred else { ctx.oracle_fail("conditions were supplied but no parsable predicate was rendered", serde_json::json!({"history": line, "sql": sql})); continue };
        let mut rho = vec![K::T; k.max(1)];
        for a in 0..3usize.pow(k as u32) {
            let mut x = a;
            for j in 0..k { rho[j] = [K::T, K::F, K::U][x % 3]; x /= 3; }
            let want = members.iter().fold(K::T, |acc, c| and3(acc, spec(c, &rho)));
            let got = evalp(&p, &rho);
            if want != got {
                ctx.oracle_fail("rendered predicate is not equivalent (three-valued) to the AND of the supplied conditions",
                    serde_json::json!({"history": line, "kind": kind, "backend": b.name(), "sql": sql, "rendered": show(&p), "assignment": format!("{:?}", &rho[..k]), "expected": format!("{:?}", want), "got": format!("{:?}", got)}));
                break;
            }
        }
    }
}

/// the condition a one-call history leaves in the holder, in the statement model's vocabulary (`Condition::add` replaces a
/// nested, non-negated group of exactly one member by that member)
fn conv(c: &CT) -> crate::stmt::Cond {
    use crate::stmt::{ColRef, Cond, Ex, Item};
    fn item(x: &CT) -> Item {
        match x {
            CT::Atom(n) => Item::E(Ex::Col(ColRef::Col(format!("a{n}")))),
            g => { let c = conv(g); if !c.neg && c.items.len() == 1 { c.items[0].clone() } else { Item::C(c) } }
        }
    }
    match c {
        CT::Atom(_) => Cond { neg: false, any: false, items: vec![item(c)] },
        CT::Group { any, neg, ms } => Cond { neg: *neg, any: *any, items: ms.iter().flatten().map(item).collect() },
    }
}

/// the statement model's condition renderer (`rCond`, which `Props/C06Stmt` proves equal to the expression renderer applied
/// to `to_simple_expr`) against the crate, on the statement built through the builder calls of `build`
fn check_statement_model(ctx: &mut Ctx, t: &CT, b: B) {
    use crate::stmt::{ColRef, Ex, Holder, Query as Q, SelItem, Select, TName, TRef, WinSel};
    let sel = Select { selects: vec![SelItem { e: Ex::Col(ColRef::Col("c".into())), win: WinSel::None, alias: None }], from: vec![TRef::Named(TName { parts: vec!["t".into()], alias: None })],
        wher: Holder::Cond(conv(t)), having: if matches!(t, CT::Group { neg: true, .. }) { Holder::Cond(conv(t)) } else { Holder::Empty }, ..Default::default() };
    let recipe = Q::Sel(sel.clone()).sexp();
    // built by the calls of the history, not by the recipe's own builder
    let real = catch(|| { let mut q = Query::select(); q.column(Alias::new("c")).from(Alias::new("t"));
        match t { CT::Atom(n) => { q.and_where(atom(*n)); } g => { q.cond_where(build(g)); } }
        if matches!(t, CT::Group { neg: true, .. }) { q.cond_having(build(t)); }
        crate::stmt::Real::Sel(q) });
    let Some(real) = real else { return };
    let r = crate::c01::render(&real, b);
    let sq = recipe.clone();
    ctx.count("kind.statement_model");
    ctx.case_norm(format!("stmt {} {recipe}", b.name()), crate::c01::expect_line(&r), true, &move || format!("{} {}", b.name(), sq), crate::c01::strip_flags(false));
}

pub fn run(ctx: &mut Ctx) {
    let thorough = ctx.tier_thorough;
    ctx.rule = format!("bounded-exhaustive: all condition trees of depth <= {} / width <= 2 (every any/all, every negate flag, empty groups, add_option(None) members) as 1-call histories on all 16 statement positions (SELECT WHERE / HAVING with and without GROUP BY, JOIN ON for every join type through its own method, UPDATE, UPDATE .. FROM (MySQL: the JOIN .. ON form; every predicate the statement carries is conjoined), DELETE, JOIN ON, CASE WHEN, ON CONFLICT target/action WHERE) x 3 backends, every history with a negated group also with not() called before the first and after the first add (oracle only), all ordered pairs of depth-1 trees as 2-call histories, then {} random histories (<= 4 calls, depth <= 4, width <= 3). Every third tree (thorough: every tree) also as a whole statement against the Lean statement model's condition renderer (text, values). Each: rendered predicate parsed by an independent SQL predicate parser and compared with the model's expression tree, and its 3-valued truth table (all 3^k assignments, k <= 4 atoms) compared with the AND of the supplied conditions. Non-trivial = non-empty history; distinct by request.", 2, if thorough { 60000 } else { 6000 });
    if let Some(rp) = ctx.replay.clone() {
        // replay by history S-expression is not parsed back here; the random stream is deterministic by seed
        let _ = rp;
    }
    let all_b = B::all();
    check_history(ctx, &[], &KINDS, &all_b);
    let mut na = 0;
    // depth 3 is doubly exponential (tens of GB of trees): the thorough tier checks every depth-2 tree in every position instead and samples deeper trees below
    let depth = 2;
    let trees = enum_trees(depth, 2, &mut na, 4);
    ctx.count(&format!("trees.depth{depth}={}", trees.len()));
    for (i, t) in trees.iter().enumerate() {
        // all positions for a slice, the WHERE position for all
        if thorough || i % 7 == 0 { check_history(ctx, &[t.clone()], &KINDS, &all_b); }
        else { check_history(ctx, &[t.clone()], &["select_where"], &[B::Sqlite]); }
        if thorough || i % 3 == 0 { check_statement_model(ctx, t, all_b[i % 3]); }
    }
    let mut nb = 0;
    let small = enum_trees(1, 2, &mut nb, 3);
    for x in &small { for y in &small {
        check_history(ctx, &[x.clone(), y.clone()], &["select_where", "select_having", "conflict_action_where"], &[B::Postgres]);
    } }
    if thorough {
        for x in small.iter().step_by(3) { for y in small.iter().step_by(2) { for z in small.iter().step_by(5) {
            check_history(ctx, &[x.clone(), y.clone(), z.clone()], &["update_where"], &[B::Mysql]);
        } } }
    }
    ctx.exhaustive = true;
    let n = if thorough { 60000 } else { 6000 };
    for _ in 0..n {
        let mut r = ctx.rng.fork();
        let len = 1 + r.below(4) as usize;
        let hist: Vec<CT> = (0..len).map(|_| random_tree(&mut r, 4, 4)).collect();
        let kind = *r.pick(&KINDS);
        let b = *r.pick(&all_b);
        check_history(ctx, &hist, &[kind], &[b]);
    }
    // members given as expressions through the chain API: all pairs of small trees, then random ones
    let mut nc = 0;
    let members: Vec<CT> = enum_trees(1, 2, &mut nc, 3).into_iter().filter(|t| to_expr(t).is_some()).collect();
    for x in &members { for y in &members { check_expr_chain(ctx, &[x.clone(), y.clone()], B::Sqlite); } }
    for x in members.iter().step_by(2) { check_expr_chain(ctx, &[x.clone()], B::Mysql); }
    let m = if thorough { 6000 } else { 600 };
    for _ in 0..m {
        let mut r = ctx.rng.fork();
        let len = 1 + r.below(3) as usize;
        let hist: Vec<CT> = (0..len).map(|_| random_tree(&mut r, 3, 4)).collect();
        let b = *r.pick(&all_b);
        check_expr_chain(ctx, &hist, b);
    }
}
